// translator regenerates coq/theories/Gen/*.v from /repo's current source.
//
// It is deliberately small: it transcribes (a) integer constants, (b) integer
// array/slice literals, (c) string constants and string-list literals and
// (d) whitelisted pure straight-line integer functions (single return
// expression over parameters, constants, + - * / % << >> & | and calls to
// other whitelisted functions) into Gallina definitions over N.  Anything
// outside that grammar is a hard error (exit 3, message names the item), never
// a silent skip, so the check that depends on the file reports the obligation
// as broken.
//
// Usage: translator -repo /repo -out /verif/coq/theories/Gen [-only name,...]
// Output files are rewritten only when their content changes.
package main

import (
	"bytes"
	"encoding/json"
	"flag"
	"fmt"
	"go/ast"
	"go/constant"
	"go/parser"
	"go/token"
	"os"
	"path/filepath"
	"sort"
	"strconv"
	"strings"
)

type item struct {
	kind string // "intconst" | "inttable" | "strconst" | "strlist" | "regex" | "func"
	file string // path relative to repo
	name string // Go identifier
	coq  string // Coq identifier
}

type unit struct {
	out   string // output file base name (module name)
	items []item
}

// JSON form of a unit: translator/units/<Name>.json
//
//	{"out": "Name", "items": [{"kind": "...", "file": "go/...", "name": "goIdent", "coq": "coq_ident"}, ...]}
type jItem struct {
	Kind string `json:"kind"`
	File string `json:"file"`
	Name string `json:"name"`
	Coq  string `json:"coq"`
}
type jUnit struct {
	Out   string  `json:"out"`
	Items []jItem `json:"items"`
}

func loadUnits(dir string) ([]unit, error) {
	var out []unit
	ents, err := os.ReadDir(dir)
	if err != nil {
		return nil, nil
	}
	for _, e := range ents {
		if !strings.HasSuffix(e.Name(), ".json") {
			continue
		}
		b, err := os.ReadFile(filepath.Join(dir, e.Name()))
		if err != nil {
			return nil, err
		}
		var ju jUnit
		if err := json.Unmarshal(b, &ju); err != nil {
			return nil, fmt.Errorf("%s: %v", e.Name(), err)
		}
		u := unit{out: ju.Out}
		for _, it := range ju.Items {
			u.items = append(u.items, item{kind: it.Kind, file: it.File, name: it.Name, coq: it.Coq})
		}
		out = append(out, u)
	}
	return out, nil
}

var units = []unit{
	{out: "RefnameTable", items: []item{
		{kind: "intconst", file: "go/store/datas/dataset.go", name: "refnameOk", coq: "refname_ok"},
		{kind: "intconst", file: "go/store/datas/dataset.go", name: "refnameEof", coq: "refname_eof"},
		{kind: "intconst", file: "go/store/datas/dataset.go", name: "refnameDot", coq: "refname_dot"},
		{kind: "intconst", file: "go/store/datas/dataset.go", name: "refnameLeftCurly", coq: "refname_left_curly"},
		{kind: "intconst", file: "go/store/datas/dataset.go", name: "refnameIllegal", coq: "refname_illegal"},
		{kind: "inttable", file: "go/store/datas/dataset.go", name: "refnameActions", coq: "refname_actions"},
		{kind: "strlist", file: "go/libraries/doltcore/ref/branchname.go", name: "InvalidBranchNameRegex", coq: "invalid_branch_name_regex"},
		{kind: "strlist", file: "go/libraries/doltcore/ref/tag_ref.go", name: "InvalidTagNameRegex", coq: "invalid_tag_name_regex"},
		{kind: "strconst", file: "go/libraries/doltcore/doltdb/commit_spec.go", name: "head", coq: "commit_spec_head"},
		{kind: "regex", file: "go/libraries/doltcore/doltdb/commit_spec.go", name: "hashRegex", coq: "commit_spec_hash_regex"},
	}},
}

type parsed struct {
	repo    string
	imports map[string]string // local name -> import path
	fset    *token.FileSet
	f       *ast.File
	// all top-level const/var specs of the *package directory* for constant folding
	consts map[string]ast.Expr
	iotas  map[string]int
}

var cache = map[string]*parsed{}

// loadDir loads the constants of the package in directory rel (relative to repo).
func loadDir(repo, rel string) (*parsed, error) {
	ents, err := os.ReadDir(filepath.Join(repo, rel))
	if err != nil {
		return nil, err
	}
	for _, e := range ents {
		if !e.IsDir() && strings.HasSuffix(e.Name(), ".go") && !strings.HasSuffix(e.Name(), "_test.go") {
			return load(repo, filepath.Join(rel, e.Name()))
		}
	}
	return nil, fmt.Errorf("no go files in %s", rel)
}

func load(repo, rel string) (*parsed, error) {
	if p, ok := cache[rel]; ok {
		return p, nil
	}
	fset := token.NewFileSet()
	f, err := parser.ParseFile(fset, filepath.Join(repo, rel), nil, parser.SkipObjectResolution)
	if err != nil {
		return nil, err
	}
	p := &parsed{repo: repo, imports: map[string]string{}, fset: fset, f: f, consts: map[string]ast.Expr{}, iotas: map[string]int{}}
	for _, im := range f.Imports {
		path, _ := strconv.Unquote(im.Path.Value)
		name := path[strings.LastIndex(path, "/")+1:]
		if im.Name != nil {
			name = im.Name.Name
		}
		p.imports[name] = path
	}
	// collect constants of all files in the same directory (same package)
	dir := filepath.Dir(filepath.Join(repo, rel))
	ents, _ := os.ReadDir(dir)
	for _, e := range ents {
		if e.IsDir() || !strings.HasSuffix(e.Name(), ".go") || strings.HasSuffix(e.Name(), "_test.go") {
			continue
		}
		ff, err := parser.ParseFile(token.NewFileSet(), filepath.Join(dir, e.Name()), nil, parser.SkipObjectResolution)
		if err != nil {
			continue
		}
		for _, d := range ff.Decls {
			gd, ok := d.(*ast.GenDecl)
			if !ok || gd.Tok != token.CONST {
				continue
			}
			var lastVals []ast.Expr
			for i, s := range gd.Specs {
				vs := s.(*ast.ValueSpec)
				vals := vs.Values
				if len(vals) == 0 {
					vals = lastVals
				} else {
					lastVals = vals
				}
				for j, n := range vs.Names {
					if j < len(vals) {
						p.consts[n.Name] = vals[j]
						p.iotas[n.Name] = i
					}
				}
			}
		}
	}
	cache[rel] = p
	return p, nil
}

// evalInt folds a constant integer expression.
func (p *parsed) evalInt(e ast.Expr, iota int, depth int) (constant.Value, error) {
	if depth > 50 {
		return nil, fmt.Errorf("constant expression too deep")
	}
	switch x := e.(type) {
	case *ast.BasicLit:
		switch x.Kind {
		case token.INT:
			return constant.MakeFromLiteral(x.Value, token.INT, 0), nil
		case token.CHAR:
			return constant.ToInt(constant.MakeFromLiteral(x.Value, token.CHAR, 0)), nil
		}
		return nil, fmt.Errorf("unsupported literal %s", x.Value)
	case *ast.Ident:
		if x.Name == "iota" {
			return constant.MakeInt64(int64(iota)), nil
		}
		if v, ok := p.consts[x.Name]; ok {
			return p.evalInt(v, p.iotas[x.Name], depth+1)
		}
		return nil, fmt.Errorf("unknown identifier %s in constant expression", x.Name)
	case *ast.ParenExpr:
		return p.evalInt(x.X, iota, depth+1)
	case *ast.CallExpr: // conversions like uint32(3), byte('x'), refnameAction(0)
		if len(x.Args) == 1 {
			return p.evalInt(x.Args[0], iota, depth+1)
		}
		return nil, fmt.Errorf("unsupported call in constant expression")
	case *ast.SelectorExpr:
		// a few well-known stdlib constants
		if id, ok := x.X.(*ast.Ident); ok {
			k := id.Name + "." + x.Sel.Name
			known := map[string]int64{"math.MaxUint32": 4294967295, "math.MaxInt32": 2147483647, "math.MaxUint16": 65535, "math.MaxUint8": 255, "sha512.Size": 64, "unicode.MaxASCII": 127}
			if v, ok := known[k]; ok {
				return constant.MakeInt64(v), nil
			}
			if k == "math.MaxUint64" {
				return constant.MakeUint64(^uint64(0)), nil
			}
			if k == "math.MaxInt64" {
				return constant.MakeInt64(int64(^uint64(0) >> 1)), nil
			}
			// constant of another dolt package: evaluate it in that package's directory
			const modPrefix = "github.com/dolthub/dolt/go/"
			if ip, ok := p.imports[id.Name]; ok && strings.HasPrefix(ip, modPrefix) {
				q, err := loadDir(p.repo, "go/"+strings.TrimPrefix(ip, modPrefix))
				if err != nil {
					return nil, err
				}
				if v, ok := q.consts[x.Sel.Name]; ok {
					return q.evalInt(v, q.iotas[x.Sel.Name], depth+1)
				}
				return nil, fmt.Errorf("constant %s not found in %s", x.Sel.Name, ip)
			}
		}
		return nil, fmt.Errorf("unsupported selector in constant expression")
	case *ast.UnaryExpr:
		v, err := p.evalInt(x.X, iota, depth+1)
		if err != nil {
			return nil, err
		}
		return constant.UnaryOp(x.Op, v, 0), nil
	case *ast.BinaryExpr:
		a, err := p.evalInt(x.X, iota, depth+1)
		if err != nil {
			return nil, err
		}
		b, err := p.evalInt(x.Y, iota, depth+1)
		if err != nil {
			return nil, err
		}
		switch x.Op {
		case token.SHL, token.SHR:
			s, _ := constant.Uint64Val(b)
			return constant.Shift(a, x.Op, uint(s)), nil
		case token.QUO:
			return constant.BinaryOp(a, token.QUO_ASSIGN, b), nil // integer division
		}
		return constant.BinaryOp(a, x.Op, b), nil
	}
	return nil, fmt.Errorf("unsupported constant expression %T", e)
}

func (p *parsed) findValue(name string) (ast.Expr, error) {
	for _, d := range p.f.Decls {
		gd, ok := d.(*ast.GenDecl)
		if !ok || (gd.Tok != token.VAR && gd.Tok != token.CONST) {
			continue
		}
		for _, s := range gd.Specs {
			vs := s.(*ast.ValueSpec)
			for j, n := range vs.Names {
				if n.Name == name && j < len(vs.Values) {
					return vs.Values[j], nil
				}
			}
		}
	}
	return nil, fmt.Errorf("top-level value %s not found", name)
}

func (p *parsed) findFunc(name string) (*ast.FuncDecl, error) {
	for _, d := range p.f.Decls {
		if fd, ok := d.(*ast.FuncDecl); ok && fd.Name.Name == name {
			return fd, nil
		}
	}
	return nil, fmt.Errorf("func %s not found", name)
}

func coqBytes(s string) string {
	var b strings.Builder
	b.WriteString("[")
	for i := 0; i < len(s); i++ {
		if i > 0 {
			b.WriteString("; ")
		}
		b.WriteString(strconv.Itoa(int(s[i])))
	}
	b.WriteString("]")
	return b.String()
}

// collectStrings returns all string literals (unquoted) appearing in e, in order.
func collectStrings(e ast.Expr) ([]string, error) {
	var out []string
	var err error
	ast.Inspect(e, func(n ast.Node) bool {
		if bl, ok := n.(*ast.BasicLit); ok && bl.Kind == token.STRING {
			s, e2 := strconv.Unquote(bl.Value)
			if e2 != nil {
				err = e2
			}
			out = append(out, s)
		}
		return true
	})
	return out, err
}

// straight-line integer function translation -------------------------------

type fnCtx struct {
	p      *parsed
	params map[string]bool
	locals map[string]string // local name -> coq expr
	allow  map[string]string // go func name -> coq name (whitelisted callee)
}

func (c *fnCtx) expr(e ast.Expr) (string, error) {
	switch x := e.(type) {
	case *ast.BasicLit:
		if x.Kind == token.INT {
			v := constant.MakeFromLiteral(x.Value, token.INT, 0)
			return v.ExactString(), nil
		}
		if x.Kind == token.CHAR {
			v := constant.ToInt(constant.MakeFromLiteral(x.Value, token.CHAR, 0))
			return v.ExactString(), nil
		}
	case *ast.Ident:
		if c.params[x.Name] {
			return x.Name, nil
		}
		if l, ok := c.locals[x.Name]; ok {
			return "(" + l + ")", nil
		}
		if _, ok := c.p.consts[x.Name]; ok {
			v, err := c.p.evalInt(x, 0, 0)
			if err != nil {
				return "", err
			}
			return v.ExactString(), nil
		}
		return "", fmt.Errorf("unknown identifier %s", x.Name)
	case *ast.ParenExpr:
		return c.expr(x.X)
	case *ast.SelectorExpr:
		v, err := c.p.evalInt(x, 0, 0)
		if err != nil {
			return "", err
		}
		return v.ExactString(), nil
	case *ast.CallExpr:
		if id, ok := x.Fun.(*ast.Ident); ok {
			switch id.Name {
			case "uint64", "uint32", "int", "int64", "uint", "uint16", "uint8", "byte", "int32":
				if len(x.Args) == 1 {
					return c.expr(x.Args[0]) // widths are the caller's obligation (documented in Gen header)
				}
			}
			if cn, ok := c.allow[id.Name]; ok {
				args := []string{}
				for _, a := range x.Args {
					s, err := c.expr(a)
					if err != nil {
						return "", err
					}
					args = append(args, s)
				}
				return "(" + cn + " " + strings.Join(args, " ") + ")", nil
			}
		}
		return "", fmt.Errorf("call outside whitelist")
	case *ast.BinaryExpr:
		a, err := c.expr(x.X)
		if err != nil {
			return "", err
		}
		b, err := c.expr(x.Y)
		if err != nil {
			return "", err
		}
		ops := map[token.Token]string{token.ADD: "N.add", token.SUB: "N.sub", token.MUL: "N.mul", token.QUO: "N.div", token.REM: "N.modulo",
			token.SHL: "N.shiftl", token.SHR: "N.shiftr", token.AND: "N.land", token.OR: "N.lor"}
		if o, ok := ops[x.Op]; ok {
			return "(" + o + " " + a + " " + b + ")", nil
		}
		cmp := map[token.Token]string{token.LSS: "N.ltb", token.LEQ: "N.leb", token.EQL: "N.eqb"}
		if o, ok := cmp[x.Op]; ok {
			return "(" + o + " " + a + " " + b + ")", nil
		}
		switch x.Op {
		case token.GTR:
			return "(N.ltb " + b + " " + a + ")", nil
		case token.GEQ:
			return "(N.leb " + b + " " + a + ")", nil
		case token.NEQ:
			return "(negb (N.eqb " + a + " " + b + "))", nil
		case token.LAND:
			return "(andb " + a + " " + b + ")", nil
		case token.LOR:
			return "(orb " + a + " " + b + ")", nil
		}
		return "", fmt.Errorf("unsupported operator %s", x.Op)
	}
	return "", fmt.Errorf("unsupported expression %T", e)
}

// translateFunc handles: a sequence of `x := expr` / `x = expr` (single
// assignment, int), optionally `if cond { return e }` guards, ending in
// `return expr`.
func translateFunc(p *parsed, fd *ast.FuncDecl, coqName string, allow map[string]string) (string, error) {
	c := &fnCtx{p: p, params: map[string]bool{}, locals: map[string]string{}, allow: allow}
	var params []string
	for _, f := range fd.Type.Params.List {
		for _, n := range f.Names {
			c.params[n.Name] = true
			params = append(params, n.Name)
		}
	}
	// named results are treated as locals assigned before a bare return
	var named []string
	if fd.Type.Results != nil {
		for _, f := range fd.Type.Results.List {
			for _, n := range f.Names {
				named = append(named, n.Name)
				c.locals[n.Name] = "0" // named integer results start at their zero value
			}
		}
	}
	var body func(stmts []ast.Stmt) (string, error)
	body = func(stmts []ast.Stmt) (string, error) {
		if len(stmts) == 0 {
			return "", fmt.Errorf("function falls off without return")
		}
		switch s := stmts[0].(type) {
		case *ast.AssignStmt:
			if len(s.Lhs) != 1 || len(s.Rhs) != 1 {
				return "", fmt.Errorf("multi-assignment")
			}
			id, ok := s.Lhs[0].(*ast.Ident)
			if !ok {
				return "", fmt.Errorf("assignment to non-identifier")
			}
			var rhs string
			var err error
			switch s.Tok {
			case token.DEFINE, token.ASSIGN:
				rhs, err = c.expr(s.Rhs[0])
			case token.ADD_ASSIGN:
				var cur string
				cur, err = c.expr(id)
				if err == nil {
					var r string
					r, err = c.expr(s.Rhs[0])
					rhs = "(N.add " + cur + " " + r + ")"
				}
			default:
				return "", fmt.Errorf("unsupported assignment %s", s.Tok)
			}
			if err != nil {
				return "", err
			}
			delete(c.params, id.Name)
			c.locals[id.Name] = rhs
			return body(stmts[1:])
		case *ast.ReturnStmt:
			if len(s.Results) == 0 && len(named) == 1 {
				return c.expr(&ast.Ident{Name: named[0]})
			}
			if len(s.Results) != 1 {
				return "", fmt.Errorf("return arity")
			}
			return c.expr(s.Results[0])
		case *ast.IfStmt:
			if s.Init != nil {
				return "", fmt.Errorf("if with init")
			}
			cond, err := c.expr(s.Cond)
			if err != nil {
				return "", err
			}
			saved := map[string]string{}
			for k, v := range c.locals {
				saved[k] = v
			}
			thn, err := body(append(append([]ast.Stmt{}, s.Body.List...), stmts[1:]...))
			if err != nil {
				return "", err
			}
			c.locals = saved
			var els string
			if s.Else != nil {
				eb, ok := s.Else.(*ast.BlockStmt)
				if !ok {
					return "", fmt.Errorf("else-if")
				}
				els, err = body(append(append([]ast.Stmt{}, eb.List...), stmts[1:]...))
			} else {
				els, err = body(stmts[1:])
			}
			if err != nil {
				return "", err
			}
			return "(if " + cond + " then " + thn + " else " + els + ")", nil
		case *ast.DeclStmt:
			return body(stmts[1:]) // `var x T` — zero value only matters if read before assignment (then unknown identifier error)
		}
		return "", fmt.Errorf("unsupported statement %T", stmts[0])
	}
	e, err := body(fd.Body.List)
	if err != nil {
		return "", err
	}
	var b strings.Builder
	fmt.Fprintf(&b, "Definition %s", coqName)
	for _, pn := range params {
		fmt.Fprintf(&b, " (%s : N)", pn)
	}
	fmt.Fprintf(&b, " :=\n  %s.\n", e)
	return b.String(), nil
}

func genUnit(repo string, u unit) (string, error) {
	var b bytes.Buffer
	fmt.Fprintf(&b, "(* GENERATED by /verif/translator from /repo — do not edit.\n   Regenerated on every check run; theorems that Require this file are\n   re-checked against what the source says now.\n   Integer conversions (uint32(x) etc.) are transcribed as identity: callers\n   state the width bounds they need as hypotheses. *)\n")
	fmt.Fprintf(&b, "From Coq Require Import NArith List Bool.\nImport ListNotations.\nLocal Open Scope N_scope.\n\n")
	allow := map[string]string{}
	for _, it := range u.items {
		if it.kind == "func" {
			allow[it.name] = it.coq
		}
	}
	for _, it := range u.items {
		p, err := load(repo, it.file)
		if err != nil {
			return "", fmt.Errorf("%s: %v", it.file, err)
		}
		fmt.Fprintf(&b, "(* %s : %s *)\n", it.file, it.name)
		switch it.kind {
		case "intconst":
			ce, ok := p.consts[it.name]
			if !ok {
				return "", fmt.Errorf("%s: constant %s not found", it.file, it.name)
			}
			v, err := p.evalInt(ce, p.iotas[it.name], 0)
			if err != nil {
				return "", fmt.Errorf("%s: %s: %v", it.file, it.name, err)
			}
			if constant.Sign(v) < 0 {
				return "", fmt.Errorf("%s: %s: negative constant", it.file, it.name)
			}
			fmt.Fprintf(&b, "Definition %s : N := %s.\n\n", it.coq, v.ExactString())
		case "inttable":
			e, err := p.findValue(it.name)
			if err != nil {
				return "", fmt.Errorf("%s: %v", it.file, err)
			}
			cl, ok := e.(*ast.CompositeLit)
			if !ok {
				return "", fmt.Errorf("%s: %s is not a composite literal", it.file, it.name)
			}
			var vals []string
			for _, el := range cl.Elts {
				if _, isKV := el.(*ast.KeyValueExpr); isKV {
					return "", fmt.Errorf("%s: %s: keyed elements unsupported", it.file, it.name)
				}
				v, err := p.evalInt(el, 0, 0)
				if err != nil {
					return "", fmt.Errorf("%s: %s: %v", it.file, it.name, err)
				}
				vals = append(vals, v.ExactString())
			}
			fmt.Fprintf(&b, "Definition %s : list N :=\n  [", it.coq)
			for i, v := range vals {
				if i > 0 {
					b.WriteString("; ")
					if i%16 == 0 {
						b.WriteString("\n   ")
					}
				}
				b.WriteString(v)
			}
			fmt.Fprintf(&b, "].\n\n")
		case "strconst":
			ce, ok := p.consts[it.name]
			if !ok {
				return "", fmt.Errorf("%s: constant %s not found", it.file, it.name)
			}
			ss, err := collectStrings(ce)
			if err != nil || len(ss) != 1 {
				return "", fmt.Errorf("%s: %s: not a single string literal", it.file, it.name)
			}
			fmt.Fprintf(&b, "Definition %s : list N := %s. (* %q *)\n\n", it.coq, coqBytes(ss[0]), ss[0])
		case "strlist", "regex":
			e, err := p.findValue(it.name)
			if err != nil {
				return "", fmt.Errorf("%s: %v", it.file, err)
			}
			ss, err := collectStrings(e)
			if err != nil {
				return "", fmt.Errorf("%s: %s: %v", it.file, it.name, err)
			}
			if it.kind == "regex" && len(ss) != 1 {
				return "", fmt.Errorf("%s: %s: expected one pattern", it.file, it.name)
			}
			fmt.Fprintf(&b, "Definition %s : list (list N) :=\n  [", it.coq)
			for i, s := range ss {
				if i > 0 {
					b.WriteString(";\n   ")
				}
				fmt.Fprintf(&b, "%s (* %q *)", coqBytes(s), s)
			}
			fmt.Fprintf(&b, "].\n\n")
		case "func":
			fd, err := p.findFunc(it.name)
			if err != nil {
				return "", fmt.Errorf("%s: %v", it.file, err)
			}
			s, err := translateFunc(p, fd, it.coq, allow)
			if err != nil {
				return "", fmt.Errorf("%s: func %s: %v", it.file, it.name, err)
			}
			b.WriteString(s + "\n")
		default:
			return "", fmt.Errorf("unknown item kind %s", it.kind)
		}
	}
	return b.String(), nil
}

func main() {
	repo := flag.String("repo", "/repo", "repository root")
	out := flag.String("out", "/verif/coq/theories/Gen", "output directory")
	only := flag.String("only", "", "comma-separated unit names")
	unitsDir := flag.String("units", "/verif/translator/units", "directory of unit definitions (*.json)")
	flag.Parse()
	want := map[string]bool{}
	for _, n := range strings.Split(*only, ",") {
		if n != "" {
			want[n] = true
		}
	}
	if err := os.MkdirAll(*out, 0o755); err != nil {
		fmt.Fprintln(os.Stderr, err)
		os.Exit(2)
	}
	us := append([]unit{}, units...)
	ju, err := loadUnits(*unitsDir)
	if err != nil {
		fmt.Fprintln(os.Stderr, "units:", err)
		os.Exit(2)
	}
	us = append(us, ju...)
	sort.Slice(us, func(i, j int) bool { return us[i].out < us[j].out })
	fail := 0
	for _, u := range us {
		if len(want) > 0 && !want[u.out] {
			continue
		}
		path := filepath.Join(*out, u.out+".v")
		s, err := genUnit(*repo, u)
		if err != nil {
			// leave a file that does not compile so dependants fail loudly
			msg := fmt.Sprintf("(* TRANSLATOR ERROR: %v *)\nTranslator_error_see_comment_above.\n", err)
			os.WriteFile(path, []byte(msg), 0o644)
			fmt.Fprintf(os.Stderr, "TRANSLATOR-ERROR unit=%s %v\n", u.out, err)
			fail++
			continue
		}
		old, _ := os.ReadFile(path)
		if string(old) != s {
			if err := os.WriteFile(path, []byte(s), 0o644); err != nil {
				fmt.Fprintln(os.Stderr, err)
				os.Exit(2)
			}
			fmt.Printf("regenerated %s\n", path)
		}
	}
	if fail > 0 {
		os.Exit(3)
	}
}
