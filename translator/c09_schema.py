#!/usr/bin/env python3
"""C09 regeneration step: /repo/go/serial/*.fbs and the case blocks of
SerialMessage.WalkAddrs  ->  coq/theories/Gen/SchemaAddrs.v

Emits (all as plain Coq data, strings are Coq `string`s):

  fbs_vec_fields : list (string * string * fkind * hint)
      every `[ubyte]` and `[string]` field of every flatbuffer table, with the
      convention-based hint read from the .fbs text:
        HAddr      name ends in _addr / _addrs / is address_array, or the field's comment
                   speaks of an address / addr / hash(es)
        HEmbedded  comment says the bytes are an embedded / serialized message
        HData      anything else
  fbs_subtables  : list (string * string * string)      (table, field, table type of the field)
  fbs_roots      : list (string * string)               (root_type, file_identifier)
  walker_cases   : list (string * list string)
      for every `case serial.<X>FileID` block of SerialMessage.WalkAddrs: the flatbuffer
      accessors (`...Bytes`, `Try...`, `PendingCommitHashes`) it mentions, in order, duplicates kept.

The script refuses what it does not understand (hard error, never a silent skip).
A file is rewritten only when its content changes.
usage: c09_schema.py <repo> <out.v>
"""
import glob
import os
import re
import sys


def die(msg):
    sys.stderr.write("c09_schema: " + msg + "\n")
    sys.exit(1)


FIELD_RE = re.compile(r"^\s*([A-Za-z_][A-Za-z0-9_]*)\s*:\s*(\[?\s*[A-Za-z_][A-Za-z0-9_.]*\s*\]?)\s*(?:=\s*[^;(]+)?\s*(\([^)]*\))?\s*;\s*(?://(.*))?$")
SCALARS = {"bool", "byte", "ubyte", "short", "ushort", "int", "uint", "long", "ulong", "float", "double", "string",
           "int8", "uint8", "int16", "uint16", "int32", "uint32", "int64", "uint64", "float32", "float64"}


def parse_fbs(path):
    """-> (tables: {name: [(field, type, comment)]}, enums:set, root_type, file_identifier)"""
    tables, enums = {}, set()
    root, fid = None, None
    cur, pending_comment = None, []
    in_enum = False
    for ln, raw in enumerate(open(path), 1):
        line = raw.rstrip("\n")
        s = line.strip()
        if not s:
            pending_comment = []
            continue
        if s.startswith("//"):
            pending_comment.append(s[2:].strip())
            continue
        if in_enum:
            if "}" in s:
                in_enum = False
            continue
        m = re.match(r"^(enum|union)\s+([A-Za-z_0-9]+)", s)
        if m:
            enums.add(m.group(2))
            in_enum = "}" not in s
            pending_comment = []
            continue
        m = re.match(r"^(table|struct)\s+([A-Za-z_0-9]+)\s*\{?\s*$", s)
        if m:
            cur = m.group(2)
            tables[cur] = []
            pending_comment = []
            continue
        if s == "}":
            cur = None
            pending_comment = []
            continue
        if s.startswith("include") or s.startswith("namespace") or s.startswith("attribute"):
            continue
        m = re.match(r'^file_identifier\s+"([^"]+)"\s*;', s)
        if m:
            fid = m.group(1)
            continue
        m = re.match(r"^root_type\s+([A-Za-z_0-9]+)\s*;", s)
        if m:
            root = m.group(1)
            continue
        if s == "{":
            continue
        if cur is None:
            die("%s:%d: text outside a table that is not understood: %r" % (path, ln, s))
        m = FIELD_RE.match(line)
        if not m:
            die("%s:%d: field line not understood: %r" % (path, ln, s))
        name, ty, _attrs, trailing = m.group(1), re.sub(r"\s+", "", m.group(2)), m.group(3), m.group(4)
        comment = " ".join(pending_comment + ([trailing.strip()] if trailing else []))
        tables[cur].append((name, ty, comment))
        pending_comment = []
    return tables, enums, root, fid


def hint_of(name, ty, comment):
    c = comment.lower()
    if ty == "[ubyte]":
        if re.search(r"\bembedded\b|\bserialized\b", c):
            return "HEmbedded"
        if re.search(r"(_addr|_addrs|_address)$", name) or name == "address_array":
            return "HAddr"
        if re.search(r"\b(address|addresses|addr|hash|hashes)\b", c):
            return "HAddr"
        return "HData"
    # [string]
    if re.search(r"\b(hash|hashes|address|addresses)\b", c) or re.search(r"(_hashes|_addrs)$", name):
        return "HAddr"
    return "HData"


def walker_cases(path):
    src = open(path).read()
    m = re.search(r"func \(sm SerialMessage\) WalkAddrs\(.*?\n}\n", src, re.S)
    if not m:
        die("SerialMessage.WalkAddrs not found in " + path)
    body = m.group(0)
    parts = re.split(r"\n\tcase (serial\.[A-Za-z0-9_., ]+):\n", body)
    # parts = [prefix, label1, block1, label2, block2, ...]
    out = []
    for i in range(1, len(parts), 2):
        labels = [x.strip().replace("serial.", "") for x in parts[i].split(",")]
        block = parts[i + 1]
        block = re.split(r"\n\tdefault:\n", block)[0]
        acc = re.findall(r"\.((?:Try)?[A-Z][A-Za-z0-9]*(?:Bytes|State|Conflicts|Hashes))\(", block)
        calls = re.findall(r"\b(SerialCommitParentAddrs|DoltgresRootValueWalkAddrs|message\.WalkAddresses)\(", block)
        for lab in labels:
            out.append((lab, acc + calls))
    if len(out) < 10:
        die("WalkAddrs: fewer case blocks than expected (%d)" % len(out))
    return out


def func_accessors(path, fname):
    """flatbuffer accessors mentioned in the body of one top-level Go function"""
    src = open(path).read()
    m = re.search(r"func " + re.escape(fname) + r"\(.*?\n}\n", src, re.S)
    if not m:
        die("%s not found in %s" % (fname, path))
    return re.findall(r"\.((?:Try)?[A-Z][A-Za-z0-9]*(?:Bytes|Offsets|Length|Level))\(", m.group(0))


def cq(s):
    return '"' + s.replace('"', '""') + '"'


def main():
    if len(sys.argv) != 3:
        die(__doc__)
    repo, outp = sys.argv[1], sys.argv[2]
    files = sorted(glob.glob(os.path.join(repo, "go", "serial", "*.fbs")))
    if not files:
        die("no .fbs files under %s/go/serial" % repo)
    vec, sub, roots = [], [], []
    all_tables, all_enums = {}, set()
    parsed = []
    for f in files:
        t, e, r, fid = parse_fbs(f)
        parsed.append((f, t, r, fid))
        all_tables.update(t)
        all_enums |= e
    for f, t, r, fid in parsed:
        if r:
            roots.append((r, fid or ""))
        for tn in t:
            for name, ty, comment in t[tn]:
                if ty in ("[ubyte]", "[string]"):
                    vec.append((tn, name, "KBytes" if ty == "[ubyte]" else "KStrings", hint_of(name, ty, comment)))
                elif ty.startswith("["):
                    inner = ty[1:-1]
                    if inner in all_tables:
                        sub.append((tn, name, inner))
                    elif inner not in SCALARS and inner not in all_enums:
                        die("%s: %s.%s has unknown vector element type %s" % (f, tn, name, inner))
                elif ty in all_tables:
                    sub.append((tn, name, ty))
                elif ty not in SCALARS and ty not in all_enums:
                    die("%s: %s.%s has unknown type %s" % (f, tn, name, ty))
    wc = walker_cases(os.path.join(repo, "go", "store", "types", "serial_message.go"))
    aw = func_accessors(os.path.join(repo, "go", "store", "prolly", "message", "merge_artifacts.go"), "walkMergeArtifactAddresses")
    o = []
    o.append("(* GENERATED by translator/c09_schema.py from go/serial/*.fbs and go/store/types/serial_message.go — do not edit. *)")
    o.append("From Coq Require Import String List.")
    o.append("Import ListNotations.")
    o.append("Local Open Scope string_scope.")
    o.append("")
    o.append("Inductive fkind := KBytes | KStrings.")
    o.append("Inductive hint := HAddr | HEmbedded | HData.")
    o.append("")
    o.append("Definition fbs_vec_fields : list (string * string * fkind * hint) :=")
    o.append("  [ " + ";\n    ".join("(%s, %s, %s, %s)" % (cq(a), cq(b), k, h) for a, b, k, h in vec) + " ].")
    o.append("")
    o.append("Definition fbs_subtables : list (string * string * string) :=")
    o.append("  [ " + ";\n    ".join("(%s, %s, %s)" % (cq(a), cq(b), cq(c)) for a, b, c in sub) + " ].")
    o.append("")
    o.append("Definition fbs_roots : list (string * string) :=")
    o.append("  [ " + ";\n    ".join("(%s, %s)" % (cq(a), cq(b)) for a, b in roots) + " ].")
    o.append("")
    o.append("(* accessors mentioned by message.walkMergeArtifactAddresses *)")
    o.append("Definition artifact_walker : list string := [%s]." % "; ".join(cq(x) for x in aw))
    o.append("")
    o.append("Definition walker_cases : list (string * list string) :=")
    o.append("  [ " + ";\n    ".join("(%s, [%s])" % (cq(a), "; ".join(cq(x) for x in l)) for a, l in wc) + " ].")
    o.append("")
    txt = "\n".join(o)
    old = open(outp).read() if os.path.exists(outp) else None
    if old != txt:
        os.makedirs(os.path.dirname(outp), exist_ok=True)
        with open(outp, "w") as f:
            f.write(txt)
    return 0


if __name__ == "__main__":
    sys.exit(main())
