package main

// extraUnits lists further translation units; kept in a separate file so that
// additions do not touch the translator core.
func extraUnits() []unit {
	return []unit{}
}
