(* C07 — no dangling references.  Executable model of the write path of
     go/store/nbs/store.go     Put / addChunk (memtable full => tables.append with refCheck,
                               handlePossibleDanglingRefError drops the memtable,
                               addPendingRefsToHasCache), Commit / commit / updateManifest
                               (flush, errorIfDangling(root), manifest CAS, rebase on lock
                               failure), Rebase, AddTableFilesToManifest (refCheckAllSources,
                               skipped while the store root is empty)
     go/store/nbs/table_set.go append (pending refs checked against memtable + novel + upstream,
                               has-cache hits count as present), flatten, rebase
     go/store/nbs/mem_table.go addChunk (exists / added / not-added by capacity), addChildRefs
     go/store/types/value_store.go  WriteValue = cs.Put(chunk, getAddrs) (no buffering of its own)
   A chunk is its address, the addresses it references and its size.  The manifest on
   disk and one store handle (cached upstream, novel tables, memtable, has-cache) are
   modelled; other writers appear as [EExt] steps.  No proofs here. *)
From Coq Require Import NArith List Bool.
From Dolt Require Import Base.Str.
Import ListNotations.
Local Open Scope N_scope.

Definition addr := N.                          (* 0 = empty hash *)
Record chunk := { c_addr : addr; c_refs : list addr; c_size : N }.

Definition memb (a : addr) (l : list addr) : bool := existsb (N.eqb a) l.
Definition addrs (s : list chunk) : list addr := map c_addr s.
Definition has (s : list chunk) (a : addr) : bool := memb a (addrs s).

Record state := {
  m_root : addr;                 (* manifest on disk: root, *)
  m_chunks : list chunk;         (*   chunks of the table files it names, *)
  m_ver : N;                     (*   lock (changes with every manifest write) *)
  h_root : addr;                 (* handle: nbs.upstream (cached manifest) *)
  h_up : list chunk;
  h_ver : N;
  h_novel : list chunk;          (* nbs.tables.novel: flushed, not yet in the manifest *)
  h_mem : option (list chunk);   (* nbs.memtable (None = nil); every chunk carries its pending refs *)
  h_cache : list addr;           (* nbs.hasCache *)
  h_cap : N                      (* memtable capacity in bytes *)
}.

Inductive event :=
| EPut (c : chunk)                       (* Put / ValueStore.WriteValue *)
| ECommit (current last : addr)          (* Commit(current, last) *)
| ERebase
| EExt (root : addr) (cs : list chunk)   (* another (correct) writer commits root with new chunks cs *)
| EAddTables (cs : list chunk).          (* AddTableFilesToManifest of files holding cs *)

Inductive result := ROk | RFalse | RDangling | RNoop.

Definition mem_size (l : list chunk) : N := fold_right (fun c n => c_size c + n) 0 l.

(* tableSet.append's check: every pending ref of the memtable is in the memtable, a table, or the has-cache *)
Definition visible (s : state) (mem : list chunk) : list chunk := mem ++ h_novel s ++ h_up s.

Definition dangling (s : state) (mem : list chunk) : bool :=
  existsb (fun c => existsb (fun r => negb (has (visible s mem) r) && negb (memb r (h_cache s))) (c_refs c)) mem.

Definition set_handle (s : state) (novel : list chunk) (mem : option (list chunk)) (cache : list addr) : state :=
  {| m_root := m_root s; m_chunks := m_chunks s; m_ver := m_ver s;
     h_root := h_root s; h_up := h_up s; h_ver := h_ver s;
     h_novel := novel; h_mem := mem; h_cache := cache; h_cap := h_cap s |}.

(* flush: Some s' with the memtable persisted as a novel table, or None = ErrDanglingRef (memtable dropped) *)
Definition flush (s : state) (mem : list chunk) (newmem : option (list chunk)) : option state :=
  if dangling s mem then None
  else Some (set_handle s (h_novel s ++ mem) newmem (flat_map c_refs mem ++ h_cache s)).

Definition rebase (s : state) : state :=
  {| m_root := m_root s; m_chunks := m_chunks s; m_ver := m_ver s;
     h_root := m_root s; h_up := m_chunks s; h_ver := m_ver s;
     h_novel := h_novel s; h_mem := h_mem s; h_cache := h_cache s; h_cap := h_cap s |}.

(* manifest.Update succeeded: the manifest names upstream + novel tables, root = current; tables flattened *)
Definition publish (s : state) (current : addr) : state :=
  {| m_root := current; m_chunks := h_up s ++ h_novel s; m_ver := m_ver s + 1;
     h_root := current; h_up := h_up s ++ h_novel s; h_ver := m_ver s + 1;
     h_novel := []; h_mem := h_mem s; h_cache := h_cache s; h_cap := h_cap s |}.

Definition drop_mem (s : state) : state := set_handle s (h_novel s) None (h_cache s).

(* errorIfDangling(root): has-cache, then refCheck (the memtable is nil or empty at this point of
   updateManifest, so the check sees novel + upstream tables) *)
Definition root_ok (s : state) (current : addr) : bool :=
  (current =? 0) || memb current (h_cache s) || has (h_novel s ++ h_up s) current.

Definition cache_root (s : state) (current : addr) : state :=
  if (current =? 0) then s else set_handle s (h_novel s) (h_mem s) (current :: h_cache s).

(* updateManifest after the flush: root check, manifest CAS, rebase + retry when only the tables changed *)
Definition commit_rest (s0 : state) (current last : addr) : state * result :=
  if negb (root_ok s0 current) then (drop_mem s0, RDangling)
  else
    let s1 := cache_root s0 current in
    if h_ver s1 =? m_ver s1 then (publish s1 current, ROk)
    else let s2 := rebase s1 in
         if negb (last =? m_root s2) then (s2, RFalse)         (* errOptimisticLockFailedRoot *)
         else (publish s2 current, ROk).                       (* errOptimisticLockFailedTables: retried *)

Definition is_none {A} (o : option A) : bool := match o with None => true | _ => false end.
Definition is_nil {A} (l : list A) : bool := match l with [] => true | _ => false end.

Definition closed_b (s : list chunk) : bool :=
  forallb (fun c => forallb (fun r => has s r) (c_refs c)) s.

Definition step (s : state) (e : event) : state * result :=
  match e with
  | EPut c =>
    let mem := match h_mem s with Some m => m | None => [] end in
    if has mem (c_addr c) then (set_handle s (h_novel s) (Some mem) (h_cache s), ROk)       (* chunkExists *)
    else if mem_size mem + c_size c <=? h_cap s
         then (set_handle s (h_novel s) (Some (mem ++ [c])) (h_cache s), ROk)                (* chunkAdded *)
         else match flush s mem (Some [c]) with                                              (* chunkNotAdded *)
              | Some s' => (s', ROk)
              | None => (drop_mem s, RDangling)
              end
  | ECommit current last =>
    if is_none (h_mem s) && is_nil (h_novel s) && (current =? last) then (rebase s, ROk)   (* nothing novel *)
    else if negb (h_root s =? last) then (s, RFalse)                                     (* errLastRootMismatch *)
    else match h_mem s with
         | Some (c :: m) =>
           match flush s (c :: m) None with
           | None => (drop_mem s, RDangling)
           | Some s0 => commit_rest s0 current last
           end
         | _ => commit_rest s current last
         end
  | ERebase => (rebase s, ROk)
  | EExt root cs =>
    (* a peer running the same protocol (fresh handle, rebased): its new chunks reference only
       what it publishes or what is already persisted, and its root is present *)
    if forallb (fun c => forallb (fun r => has (m_chunks s ++ cs) r) (c_refs c)) cs
       && ((root =? 0) || has (m_chunks s ++ cs) root)
    then ({| m_root := root; m_chunks := m_chunks s ++ cs; m_ver := m_ver s + 1;
             h_root := h_root s; h_up := h_up s; h_ver := h_ver s;
             h_novel := h_novel s; h_mem := h_mem s; h_cache := h_cache s; h_cap := h_cap s |}, ROk)
    else (s, RNoop)
  | EAddTables cs =>
    let mem := match h_mem s with Some m => m | None => [] end in
    let ok := (h_root s =? 0)                                          (* uninitialized store: no ref check *)
              || forallb (fun c => forallb (fun r => has (visible s mem ++ cs) r) (c_refs c)) cs in
    if ok then
      ({| m_root := m_root s; m_chunks := m_chunks s ++ cs; m_ver := m_ver s + 1;
          h_root := m_root s; h_up := m_chunks s ++ cs; h_ver := m_ver s + 1;
          h_novel := h_novel s; h_mem := h_mem s; h_cache := h_cache s; h_cap := h_cap s |}, ROk)
    else (s, RDangling)
  end.

Fixpoint run (s : state) (es : list event) : state :=
  match es with
  | [] => s
  | e :: t => run (fst (step s e)) t
  end.

Definition init (cap : N) : state :=
  {| m_root := 0; m_chunks := []; m_ver := 0; h_root := 0; h_up := []; h_ver := 0;
     h_novel := []; h_mem := None; h_cache := []; h_cap := cap |}.
