(* C07 — statement: the persisted chunk set is closed under references and holds its root. *)
From Coq Require Import NArith List Bool.
From Dolt Require Import Base.Str C07.Model.
Import ListNotations.
Local Open Scope N_scope.

Definition Has (s : list chunk) (a : addr) : Prop := In a (addrs s).

(* every reference of every chunk of [b] is the address of a chunk of [s] *)
Definition RefsIn (b s : list chunk) : Prop :=
  forall c, In c b -> forall r, In r (c_refs c) -> Has s r.

Definition Closed (s : list chunk) : Prop := RefsIn s s.

(* the committed state: what the manifest on disk names *)
Definition persisted_ok (st : state) : Prop :=
  Closed (m_chunks st) /\ (m_root st = 0 \/ Has (m_chunks st) (m_root st)).

(* reachability over the reference graph of a chunk set *)
Inductive reachable (s : list chunk) : addr -> addr -> Prop :=
| reach_refl a : reachable s a a
| reach_step a c r b : In c s -> c_addr c = a -> In r (c_refs c) -> reachable s r b -> reachable s a b.

Definition no_add_tables (es : list event) : Prop :=
  forall e, In e es -> match e with EAddTables _ => False | _ => True end.

(* boolean forms for the oracle *)
Fixpoint walk (fuel : nat) (s : list chunk) (todo : list addr) (seen : list addr) : option (list addr) :=
  match fuel with
  | O => Some seen
  | S f =>
    match todo with
    | [] => Some seen
    | a :: t =>
      if memb a seen then walk f s t seen
      else match find (fun c => c_addr c =? a) s with
           | None => None                                  (* reachable but absent: dangling *)
           | Some c => walk f s (c_refs c ++ t) (a :: seen)
           end
    end
  end.
