(* C07 — correspondence: histories of puts / commits / rebases / peer commits / table-file
   additions on a real NomsBlockStore (NewLocalStore) with tiny memtables; after every event
   the harness reports the result, the handle's root, the manifest root read by a fresh handle
   and whether every chunk reachable from that root (over the recorded reference graph) is present. *)
From Coq Require Import NArith List Bool.
From Dolt Require Import Base.Str C07.Model C07.Spec.
Import ListNotations.
Local Open Scope N_scope.

Record input := { i_cap : N; i_events : list event }.

Record eobs := { e_res : result; e_hroot : addr; e_mroot : addr; e_reach : bool }.
Definition obs := list eobs.
Definition case := (input * obs)%type.

Definition reach_ok (s : state) : bool :=
  if m_root s =? 0 then true
  else match walk (S (length (m_chunks s)) * S (length (m_chunks s)) + 8) (m_chunks s) [m_root s] [] with
       | Some _ => true
       | None => false
       end.

Fixpoint run_obs (s : state) (es : list event) : obs :=
  match es with
  | [] => []
  | e :: t =>
    let '(s', r) := step s e in
    {| e_res := r; e_hroot := h_root s'; e_mroot := m_root s'; e_reach := reach_ok s' |} :: run_obs s' t
  end.

Definition model_obs (i : input) : obs := run_obs (init (i_cap i)) (i_events i).

Definition result_eqb (a b : result) : bool :=
  match a, b with
  | ROk, ROk | RFalse, RFalse | RDangling, RDangling | RNoop, RNoop => true
  | _, _ => false
  end.

Definition eobs_eqb (a b : eobs) : bool :=
  result_eqb (e_res a) (e_res b) && (e_hroot a =? e_hroot b) && (e_mroot a =? e_mroot b)
  && Bool.eqb (e_reach a) (e_reach b).

Fixpoint obs_eqb (a b : obs) : bool :=
  match a, b with
  | [], [] => true
  | x :: a', y :: b' => eobs_eqb x y && obs_eqb a' b'
  | _, _ => false
  end.

(* The property on the implementation's observation: after every event everything reachable from
   the committed root is present, and an operation that was refused (false / dangling) left the
   committed root where it was. *)
Fixpoint oracle_from (prev : addr) (es : list event) (o : obs) : bool :=
  match es, o with
  | [], [] => true
  | e :: es', x :: o' =>
    e_reach x
    && (match e_res x with
        | ROk => true
        | _ => match e with
               | EExt _ _ => true            (* the peer's own refusal is not this handle's *)
               | _ => e_mroot x =? prev
               end
        end)
    && (match e with EPut _ | ERebase | EAddTables _ => e_mroot x =? prev | _ => true end)
    && oracle_from (e_mroot x) es' o'
  | _, _ => false
  end.

Definition oracle (i : input) (o : obs) : bool := oracle_from 0 (i_events i) o.

Definition check_case (c : case) : N :=
  (if obs_eqb (model_obs (fst c)) (snd c) then 0 else 1)
  + (if oracle (fst c) (snd c) then 0 else 2).
