(* C07 — proofs. *)
From Coq Require Import NArith List Bool Lia.
From Dolt Require Import Base.Str C07.Model C07.Spec.
Import ListNotations.
Local Open Scope N_scope.

Lemma memb_In a l : memb a l = true <-> In a l.
Proof.
  unfold memb. rewrite existsb_exists. split.
  - intros [x [Hin Hx]]. apply N.eqb_eq in Hx. subst. exact Hin.
  - intros H. exists a. split; [exact H | apply N.eqb_refl].
Qed.

Lemma has_Has s a : has s a = true <-> Has s a.
Proof. unfold has, Has. apply memb_In. Qed.

Lemma Has_app s t a : Has (s ++ t) a <-> Has s a \/ Has t a.
Proof. unfold Has, addrs. rewrite map_app. apply in_app_iff. Qed.

Lemma RefsIn_mono b s t : (forall a, Has s a -> Has t a) -> RefsIn b s -> RefsIn b t.
Proof. intros Hst H c Hc r Hr. apply Hst. eapply H; eauto. Qed.

Lemma RefsIn_app b1 b2 s : RefsIn b1 s -> RefsIn b2 s -> RefsIn (b1 ++ b2) s.
Proof. intros H1 H2 c Hc. apply in_app_or in Hc as [Hc|Hc]; [apply H1 | apply H2]; exact Hc. Qed.

Lemma closed_b_Closed s : closed_b s = true -> Closed s.
Proof.
  unfold closed_b. intros H c Hc r Hr.
  rewrite forallb_forall in H. specialize (H c Hc). rewrite forallb_forall in H.
  apply has_Has. apply H. exact Hr.
Qed.

(* ------------------------------------------------------------------ *)
Record Inv (s : state) : Prop := {
  i_closed : Closed (m_chunks s);
  i_root : m_root s = 0 \/ Has (m_chunks s) (m_root s);
  i_sub : forall a, Has (h_up s) a -> Has (m_chunks s) a;
  i_sync : h_ver s = m_ver s -> h_up s = m_chunks s;
  i_le : h_ver s <= m_ver s;
  i_novel : RefsIn (h_novel s) (h_novel s ++ h_up s);
  i_cache : forall a, In a (h_cache s) -> Has (h_novel s ++ h_up s) a
}.

Lemma init_inv cap : Inv (init cap).
Proof.
  constructor; cbn.
  - intros c [].
  - left. reflexivity.
  - intros a H. exact H.
  - reflexivity.
  - lia.
  - intros c [].
  - intros a [].
Qed.

Lemma inv_mem s mem : Inv s -> Inv (set_handle s (h_novel s) mem (h_cache s)).
Proof. intros [H1 H2 H3 H4 H5 H6 H7]. constructor; cbn; assumption. Qed.

Lemma inv_rebase s : Inv s -> Inv (rebase s).
Proof.
  intros [H1 H2 H3 H4 H5 H6 H7]. constructor; cbn; auto.
  - lia.
  - eapply RefsIn_mono; [|exact H6]. intros a Ha. apply Has_app in Ha as [Ha|Ha]; apply Has_app; auto.
  - intros a Ha. specialize (H7 a Ha). apply Has_app in H7 as [Hb|Hb]; apply Has_app; auto.
Qed.

Lemma inv_flush s mem newmem s' : Inv s -> flush s mem newmem = Some s' -> Inv s'.
Proof.
  intros [H1 H2 H3 H4 H5 H6 H7] Hf. unfold flush in Hf.
  destruct (dangling s mem) eqn:Hd; [discriminate|]. inversion Hf; subst s'; clear Hf.
  assert (Hrefs : RefsIn mem ((h_novel s ++ mem) ++ h_up s)).
  { intros c Hc r Hr. unfold dangling in Hd.
    assert (Hx : (negb (has (visible s mem) r) && negb (memb r (h_cache s))) = false).
    { destruct (negb (has (visible s mem) r) && negb (memb r (h_cache s))) eqn:E; [|reflexivity].
      assert (existsb (fun c => existsb (fun r => negb (has (visible s mem) r) && negb (memb r (h_cache s))) (c_refs c)) mem = true) as Hc'.
      { apply existsb_exists. exists c. split; [exact Hc|]. apply existsb_exists. exists r. auto. }
      congruence. }
    apply andb_false_iff in Hx as [Hx|Hx]; apply negb_false_iff in Hx.
    - apply has_Has in Hx. unfold visible in Hx.
      apply Has_app in Hx as [Hx|Hx]; [|apply Has_app in Hx as [Hx|Hx]].
      + apply Has_app. left. apply Has_app. right. exact Hx.
      + apply Has_app. left. apply Has_app. left. exact Hx.
      + apply Has_app. right. exact Hx.
    - apply memb_In in Hx. specialize (H7 r Hx). apply Has_app in H7 as [Hy|Hy].
      + apply Has_app. left. apply Has_app. left. exact Hy.
      + apply Has_app. right. exact Hy. }
  constructor; cbn; auto.
  - apply RefsIn_app; [|exact Hrefs].
    eapply RefsIn_mono; [|exact H6]. intros a Ha. apply Has_app in Ha as [Ha|Ha].
    + apply Has_app. left. apply Has_app. left. exact Ha.
    + apply Has_app. right. exact Ha.
  - intros a Ha. apply in_app_or in Ha as [Ha|Ha].
    + apply in_flat_map in Ha as [c [Hc Hr]]. eapply Hrefs; eauto.
    + specialize (H7 a Ha). apply Has_app in H7 as [Hy|Hy].
      * apply Has_app. left. apply Has_app. left. exact Hy.
      * apply Has_app. right. exact Hy.
Qed.

Lemma inv_publish s current :
  Inv s -> h_up s = m_chunks s -> (current = 0 \/ Has (h_novel s ++ h_up s) current) ->
  Inv (publish s current).
Proof.
  intros [H1 H2 H3 H4 H5 H6 H7] Heq Hcur. constructor; cbn; auto.
  - apply RefsIn_app.
    + rewrite Heq. eapply RefsIn_mono; [|exact H1]. intros a Ha. apply Has_app. left. exact Ha.
    + eapply RefsIn_mono; [|exact H6]. intros a Ha. apply Has_app in Ha as [Ha|Ha]; apply Has_app; auto.
  - destruct Hcur as [Hc|Hc]; [left; exact Hc|right].
    apply Has_app in Hc as [Hc|Hc]; apply Has_app; auto.
  - lia.
  - intros c [].
  - intros a Ha. specialize (H7 a Ha). apply Has_app in H7 as [Hy|Hy]; apply Has_app; auto.
Qed.

Lemma inv_cache_root s current :
  Inv s -> root_ok s current = true -> Inv (cache_root s current).
Proof.
  intros HI Hok. unfold cache_root. destruct (current =? 0) eqn:E0; [exact HI|].
  destruct HI as [H1 H2 H3 H4 H5 H6 H7]. constructor; cbn; auto.
  intros a [Ha|Ha]; [subst a | apply H7; exact Ha].
  unfold root_ok in Hok. rewrite E0 in Hok. cbn [orb] in Hok.
  apply orb_true_iff in Hok as [Hok|Hok].
  - apply memb_In in Hok. apply H7. exact Hok.
  - apply has_Has. exact Hok.
Qed.

Lemma root_ok_present s current :
  Inv s -> root_ok s current = true -> current = 0 \/ Has (h_novel s ++ h_up s) current.
Proof.
  intros HI Hok. unfold root_ok in Hok.
  apply orb_true_iff in Hok as [Hok|Hok]; [apply orb_true_iff in Hok as [Hok|Hok]|].
  - left. apply N.eqb_eq. exact Hok.
  - right. apply memb_In in Hok. apply (i_cache s HI). exact Hok.
  - right. apply has_Has. exact Hok.
Qed.

Lemma cache_root_fields s current :
  h_novel (cache_root s current) = h_novel s /\ h_up (cache_root s current) = h_up s
  /\ h_ver (cache_root s current) = h_ver s /\ m_ver (cache_root s current) = m_ver s
  /\ m_chunks (cache_root s current) = m_chunks s /\ m_root (cache_root s current) = m_root s.
Proof. unfold cache_root. destruct (current =? 0); cbn; auto 10. Qed.

Lemma inv_commit_rest s current last : Inv s -> Inv (fst (commit_rest s current last)).
Proof.
  intros HI. unfold commit_rest.
  destruct (root_ok s current) eqn:Hok; cbn [negb].
  2:{ cbn [fst]. unfold drop_mem. apply inv_mem. exact HI. }
  pose proof (inv_cache_root s current HI Hok) as HI1.
  pose proof (root_ok_present s current HI Hok) as Hp.
  destruct (cache_root_fields s current) as [F1 [F2 [F3 [F4 [F5 F6]]]]].
  destruct (h_ver (cache_root s current) =? m_ver (cache_root s current)) eqn:Ev.
  - cbn [fst]. apply N.eqb_eq in Ev. apply inv_publish; [exact HI1 | apply (i_sync _ HI1); exact Ev|].
    rewrite F1, F2. exact Hp.
  - destruct (negb (last =? m_root (rebase (cache_root s current)))); cbn [fst].
    + apply inv_rebase. exact HI1.
    + apply inv_publish; [apply inv_rebase; exact HI1 | reflexivity|].
      cbn [rebase h_novel h_up]. rewrite F1.
      destruct Hp as [Hp|Hp]; [left; exact Hp|right].
      apply Has_app in Hp as [Hp|Hp]; apply Has_app; [left; exact Hp|right].
      rewrite F5. apply (i_sub s HI). exact Hp.
Qed.

Lemma step_inv s e :
  Inv s -> match e with EAddTables _ => False | _ => True end -> Inv (fst (step s e)).
Proof.
  intros HI Hne. destruct e as [c|current last| |root cs|cs]; cbn [step]; try contradiction.
  - (* put *)
    destruct (has match h_mem s with Some m => m | None => [] end (c_addr c)); cbn [fst].
    { apply inv_mem. exact HI. }
    destruct (mem_size match h_mem s with Some m => m | None => [] end + c_size c <=? h_cap s); cbn [fst].
    { apply inv_mem. exact HI. }
    destruct (flush s match h_mem s with Some m => m | None => [] end (Some [c])) as [s'|] eqn:Hf; cbn [fst].
    + eapply inv_flush; eauto.
    + unfold drop_mem. apply inv_mem. exact HI.
  - (* commit *)
    destruct (is_none (h_mem s) && is_nil (h_novel s) && (current =? last)); cbn [fst].
    { apply inv_rebase. exact HI. }
    destruct (negb (h_root s =? last)); cbn [fst]; [exact HI|].
    destruct (h_mem s) as [[|c m]|] eqn:Hm; try (apply inv_commit_rest; exact HI).
    destruct (flush s (c :: m) None) as [s0|] eqn:Hf.
    + apply inv_commit_rest. eapply inv_flush; eauto.
    + cbn [fst]. unfold drop_mem. apply inv_mem. exact HI.
  - apply inv_rebase. exact HI.
  - (* another writer *)
    destruct (forallb (fun c => forallb (fun r => has (m_chunks s ++ cs) r) (c_refs c)) cs
              && ((root =? 0) || has (m_chunks s ++ cs) root)) eqn:E; cbn [fst]; [|exact HI].
    apply andb_true_iff in E as [E1 E2].
    destruct HI as [H1 H2 H3 H4 H5 H6 H7]. constructor; cbn; auto.
    + apply RefsIn_app.
      * eapply RefsIn_mono; [|exact H1]. intros a Ha. apply Has_app. left. exact Ha.
      * intros c Hc r Hr. rewrite forallb_forall in E1. specialize (E1 c Hc).
        rewrite forallb_forall in E1. apply has_Has. apply E1. exact Hr.
    + apply orb_true_iff in E2 as [E2|E2]; [left; apply N.eqb_eq; exact E2 | right; apply has_Has; exact E2].
    + intros a Ha. apply Has_app. left. apply H3. exact Ha.
    + intros Hv. lia.
    + lia.
Qed.

Lemma run_inv es s : Inv s -> no_add_tables es -> Inv (run s es).
Proof.
  revert s. induction es as [|e es IH]; intros s HI Hn; [exact HI|].
  cbn [run]. apply IH.
  - apply step_inv; [exact HI|]. apply (Hn e). left. reflexivity.
  - intros e' He'. apply Hn. right. exact He'.
Qed.

(* ------------------------------------------------------------------ *)
(* Headline theorems *)

(* For every sequence of puts (at any memtable capacity, so flushes happen at arbitrary points),
   commits — successful, refused (stale last / root moved) or rejected for a dangling reference —,
   retries, rebases and updates by other writers, the committed chunk set is closed under
   references and contains its root. *)
Theorem closed_preserved :
  forall (cap : N) (es : list event), no_add_tables es -> persisted_ok (run (init cap) es).
Proof.
  intros cap es Hn. destruct (run_inv es (init cap) (init_inv cap) Hn) as [H1 H2 _ _ _ _ _].
  split; assumption.
Qed.

(* hence everything reachable from the committed root is present *)
Lemma reachable_present s a b : Closed s -> reachable s a b -> Has s a -> Has s b.
Proof.
  intros Hc Hr. induction Hr as [a | a c r b Hin Ha Hrf Hr IH]; intros Hh; [exact Hh|].
  apply IH. eapply Hc; eauto.
Qed.

Theorem root_reachable_present :
  forall (cap : N) (es : list event) (b : addr),
    no_add_tables es ->
    let st := run (init cap) es in
    m_root st <> 0 -> reachable (m_chunks st) (m_root st) b -> Has (m_chunks st) b.
Proof.
  intros cap es b Hn st Hnz Hr. destruct (closed_preserved cap es Hn) as [Hc Hroot].
  fold st in Hc, Hroot. destruct Hroot as [Hz|Hh]; [contradiction|].
  eapply reachable_present; eauto.
Qed.

(* A commit that does not succeed leaves the manifest (root, table set, lock) unchanged. *)
Definition persisted (s : state) : addr * list chunk * N := (m_root s, m_chunks s, m_ver s).

Lemma commit_rest_noop s current last :
  snd (commit_rest s current last) <> ROk -> persisted (fst (commit_rest s current last)) = persisted s.
Proof.
  unfold commit_rest. destruct (root_ok s current); cbn [negb]; [|reflexivity].
  destruct (cache_root_fields s current) as [F1 [F2 [F3 [F4 [F5 F6]]]]].
  destruct (h_ver (cache_root s current) =? m_ver (cache_root s current)); cbn [fst snd]; [congruence|].
  destruct (negb (last =? m_root (rebase (cache_root s current)))); cbn [fst snd]; [|congruence].
  intros _. unfold persisted. cbn. rewrite F4, F5, F6. reflexivity.
Qed.

Theorem rejected_commit_noop :
  forall (s : state) (current last : addr),
    snd (step s (ECommit current last)) <> ROk ->
    persisted (fst (step s (ECommit current last))) = persisted s.
Proof.
  intros s current last. cbn [step].
  destruct (is_none (h_mem s) && is_nil (h_novel s) && (current =? last)); cbn [fst snd]; [congruence|].
  destruct (negb (h_root s =? last)); cbn [fst snd]; [reflexivity|].
  destruct (h_mem s) as [[|c m]|]; try apply commit_rest_noop.
  destruct (flush s (c :: m) None) as [s0|] eqn:Hf; [|reflexivity].
  intros H. rewrite commit_rest_noop by exact H.
  unfold flush in Hf. destruct (dangling s (c :: m)); [discriminate|]. inversion Hf. reflexivity.
Qed.

(* a rejected put (memtable flush found a dangling reference) changes nothing persisted either *)
Theorem rejected_put_noop :
  forall (s : state) (c : chunk), persisted (fst (step s (EPut c))) = persisted s.
Proof.
  intros s c. cbn [step].
  destruct (has match h_mem s with Some m => m | None => [] end (c_addr c)); [reflexivity|].
  destruct (mem_size match h_mem s with Some m => m | None => [] end + c_size c <=? h_cap s); [reflexivity|].
  destruct (flush s match h_mem s with Some m => m | None => [] end (Some [c])) as [s'|] eqn:Hf; [|reflexivity].
  unfold flush in Hf. destruct (dangling s _); [discriminate|]. inversion Hf. reflexivity.
Qed.

(* The has-cache never names an absent chunk. *)
Theorem cache_sound :
  forall (cap : N) (es : list event) (a : addr),
    no_add_tables es ->
    let st := run (init cap) es in
    In a (h_cache st) -> Has (h_novel st ++ h_up st) a.
Proof.
  intros cap es a Hn st Hin. apply (i_cache st (run_inv es (init cap) (init_inv cap) Hn)). exact Hin.
Qed.

(* With table-file additions the statement is FALSE in the faithful model:
   AddTableFilesToManifest skips refCheckAllSources while the store root is empty
   (store.go:2121 "If we are an uninitialized store, we do not perform this ref check"),
   so a file holding a chunk with a missing child enters the manifest, and a later commit
   whose root reaches that chunk is accepted (its own references are all present).
   Full statement (not provable):
     forall cap es, persisted_ok (run (init cap) es)   — for every sequence including EAddTables. *)
Definition wit_c5 : chunk := {| c_addr := 5; c_refs := [9]; c_size := 1 |}.
Definition wit_c7 : chunk := {| c_addr := 7; c_refs := [5]; c_size := 1 |}.
Definition wit_events : list event := [EAddTables [wit_c5]; EPut wit_c7; ECommit 7 0].

Theorem closed_preserved_with_table_files_refuted :
  exists (cap : N) (es : list event),
    let st := run (init cap) es in
    m_root st <> 0
    /\ exists b, reachable (m_chunks st) (m_root st) b /\ ~ Has (m_chunks st) b.
Proof.
  exists 100, wit_events.
  assert (E : run (init 100) wit_events =
              {| m_root := 7; m_chunks := [wit_c5; wit_c7]; m_ver := 2; h_root := 7; h_up := [wit_c5; wit_c7];
                 h_ver := 2; h_novel := []; h_mem := None; h_cache := [7; 5]; h_cap := 100 |}).
  { vm_compute. reflexivity. }
  rewrite E. cbn [m_root m_chunks]. split; [discriminate|].
  exists 9. split.
  - eapply (reach_step _ 7 wit_c7 5); [right; left; reflexivity | reflexivity | left; reflexivity|].
    eapply (reach_step _ 5 wit_c5 9); [left; reflexivity | reflexivity | left; reflexivity|].
    apply reach_refl.
  - unfold Has. cbn. intros [H|[H|[]]]; discriminate.
Qed.

(* once the root is non-empty the added files are checked: a file with a missing child is refused *)
Example add_tables_checked_when_initialized :
  let s := run (init 100) [EPut {| c_addr := 3; c_refs := []; c_size := 1 |}; ECommit 3 0] in
  snd (step s (EAddTables [wit_c5])) = RDangling /\ persisted (fst (step s (EAddTables [wit_c5]))) = persisted s.
Proof. vm_compute. split; reflexivity. Qed.

(* non-vacuity: a parent put before its child with a memtable too small for both is rejected at the
   flush and the memtable is dropped; child first then parent commits fine *)
Example ex_orders :
  let p := {| c_addr := 2; c_refs := [1]; c_size := 6 |} in
  let c := {| c_addr := 1; c_refs := []; c_size := 6 |} in
  snd (step (run (init 10) [EPut p]) (EPut c)) = RDangling
  /\ snd (step (run (init 10) [EPut c; EPut p]) (ECommit 2 0)) = ROk
  /\ m_chunks (run (init 10) [EPut c; EPut p; ECommit 2 0]) = [c; p].
Proof. vm_compute. repeat split. Qed.

(* ------------------------------------------------------------------ *)
(* The executable statement of the property holds on the model's own observations
   (excluded class, as a decidable hypothesis: histories with table-file additions —
   the registered finding nbs-addtablefiles:uninitialized-store-skips-refcheck). *)
From Dolt Require Import C07.Corr.

Definition no_add_tables_b (es : list event) : bool :=
  forallb (fun e => match e with EAddTables _ => false | _ => true end) es.

Lemma no_add_tables_b_spec es : no_add_tables_b es = true -> no_add_tables es.
Proof.
  unfold no_add_tables_b, no_add_tables. rewrite forallb_forall. intros H e He.
  specialize (H e He). destruct e; try exact I. discriminate.
Qed.

Lemma find_has s a : Has s a -> exists c, find (fun c => c_addr c =? a) s = Some c /\ In c s /\ c_addr c = a.
Proof.
  unfold Has, addrs. induction s as [|c s IH]; cbn [map In find]; [intros []|].
  intros [H|H].
  - subst a. rewrite N.eqb_refl. exists c. auto.
  - destruct (c_addr c =? a) eqn:E.
    + apply N.eqb_eq in E. exists c. auto.
    + destruct (IH H) as [c' [H1 [H2 H3]]]. exists c'. auto.
Qed.

Lemma walk_some fuel s todo seen :
  Closed s -> (forall a, In a todo -> Has s a) -> walk fuel s todo seen <> None.
Proof.
  intros Hc. revert todo seen. induction fuel as [|f IH]; intros todo seen Ht; cbn [walk]; [discriminate|].
  destruct todo as [|a t]; [discriminate|].
  destruct (memb a seen).
  - apply IH. intros b Hb. apply Ht. right. exact Hb.
  - destruct (find_has s a (Ht a (or_introl eq_refl))) as [c [Hf [Hin Ha]]]. rewrite Hf.
    apply IH. intros b Hb. apply in_app_or in Hb as [Hb|Hb].
    + eapply Hc; eauto.
    + apply Ht. right. exact Hb.
Qed.

Lemma reach_ok_inv s : Inv s -> reach_ok s = true.
Proof.
  intros HI. unfold reach_ok. destruct (m_root s =? 0) eqn:E; [reflexivity|].
  destruct (walk _ (m_chunks s) [m_root s] []) eqn:W; [reflexivity|].
  exfalso. eapply walk_some; [apply (i_closed s HI) | | exact W].
  intros a [Ha|[]]. subst a. destruct (i_root s HI) as [Hz|Hh]; [|exact Hh].
  apply N.eqb_neq in E. contradiction.
Qed.

Lemma step_mroot s e :
  match e with EAddTables _ => False | _ => True end ->
  (snd (step s e) <> ROk -> match e with EExt _ _ => True | _ => m_root (fst (step s e)) = m_root s end)
  /\ match e with EPut _ | ERebase => m_root (fst (step s e)) = m_root s | _ => True end.
Proof.
  intros Hne. destruct e as [c|current last| |root cs|cs]; try contradiction.
  - pose proof (rejected_put_noop s c) as H. unfold persisted in H. inversion H. split; auto.
  - split; [|exact I]. intros Hr. pose proof (rejected_commit_noop s current last Hr) as H.
    unfold persisted in H. inversion H. reflexivity.
  - split; [intros _|]; reflexivity.
  - split; [intros _|]; exact I.
Qed.

Lemma oracle_from_model s es :
  Inv s -> no_add_tables es -> oracle_from (m_root s) es (run_obs s es) = true.
Proof.
  revert s. induction es as [|e es IH]; intros s HI Hn; [reflexivity|].
  cbn [run_obs]. destruct (step s e) as [s' r] eqn:Es. cbn [oracle_from e_reach e_res e_mroot].
  assert (He : match e with EAddTables _ => False | _ => True end) by (apply (Hn e); left; reflexivity).
  assert (HI' : Inv s') by (replace s' with (fst (step s e)) by (rewrite Es; reflexivity); apply step_inv; assumption).
  destruct (step_mroot s e He) as [M1 M2]. rewrite Es in M1, M2. cbn [fst snd] in M1, M2.
  rewrite (reach_ok_inv s' HI'). cbn [andb].
  rewrite IH; [|exact HI'|intros e' He'; apply Hn; right; exact He']. rewrite andb_true_r.
  apply andb_true_iff. split.
  - destruct r; try reflexivity; destruct e; try reflexivity; try contradiction;
      apply N.eqb_eq; apply M1; discriminate.
  - destruct e; try reflexivity; try contradiction; apply N.eqb_eq; exact M2.
Qed.

Theorem oracle_model_obs :
  forall i : input, no_add_tables_b (i_events i) = true -> oracle i (model_obs i) = true.
Proof.
  intros i H. unfold oracle, model_obs.
  apply (oracle_from_model (init (i_cap i)) (i_events i) (init_inv _)).
  apply no_add_tables_b_spec. exact H.
Qed.

(* Second way table-file additions break the statement, on an INITIALISED store:
   AddTableFilesToManifest checks the new files' references with nbs.refCheck, which also
   consults this handle's memtable and novel tables (store.go:2002, 1470-1496) — chunks that are
   not persisted.  The file enters the manifest at once; the memtable chunk it points to can be
   lost (here: dropped by handlePossibleDanglingRefError when an unrelated commit is rejected),
   and a later accepted commit publishes a root that reaches the missing chunk. *)
Definition wit2_events : list event :=
  [EPut {| c_addr := 3; c_refs := []; c_size := 8 |}; ECommit 3 0;
   EPut {| c_addr := 1; c_refs := []; c_size := 8 |};
   EAddTables [{| c_addr := 5; c_refs := [1]; c_size := 8 |}];
   EPut {| c_addr := 6; c_refs := [44]; c_size := 8 |}; ECommit 6 3;
   EPut {| c_addr := 7; c_refs := [5]; c_size := 8 |}; ECommit 7 3].

Theorem closed_preserved_table_files_memtable_child_refuted :
  exists (cap : N) (es : list event),
    let st := run (init cap) es in
    (* the store was initialised before the files were added *)
    m_root (run (init cap) (firstn 2 es)) <> 0
    /\ m_root st <> 0
    /\ exists b, reachable (m_chunks st) (m_root st) b /\ ~ Has (m_chunks st) b.
Proof.
  exists 100, wit2_events.
  assert (E1 : m_root (run (init 100) (firstn 2 wit2_events)) = 3) by (vm_compute; reflexivity).
  assert (E2 : m_root (run (init 100) wit2_events) = 7) by (vm_compute; reflexivity).
  assert (E3 : m_chunks (run (init 100) wit2_events)
               = [{| c_addr := 3; c_refs := []; c_size := 8 |}; {| c_addr := 5; c_refs := [1]; c_size := 8 |};
                  {| c_addr := 7; c_refs := [5]; c_size := 8 |}]) by (vm_compute; reflexivity).
  cbn zeta. rewrite E1, E2, E3. split; [discriminate | split; [discriminate|]].
  exists 1. split.
  - eapply (reach_step _ 7 _ 5); [right; right; left; reflexivity | reflexivity | left; reflexivity|].
    eapply (reach_step _ 5 _ 1); [right; left; reflexivity | reflexivity | left; reflexivity|].
    apply reach_refl.
  - unfold Has. cbn. intros [H|[H|[H|[]]]]; discriminate.
Qed.
