(* C33 — correspondence.
   Input: the repository as the harness RECORDED it while the script ran (every
   commit with its parents and the table contents read at commit time, every
   branch with its head and last working set, tags, the session branch) and the
   list of historical reads issued at the end.  Observation: the answers.  The
   model answers every read from the recorded history; the oracle states what the
   property demands of each answer. *)
From Coq Require Import NArith List Bool.
From Dolt Require Import C31.Model C33.Model C33.Spec.
Import ListNotations.
Local Open Scope N_scope.

Inductive query :=
| QAsOf (v : rev) (t : N)        (* SELECT * FROM t AS OF '<rev>' *)
| QRevDb (v : rev) (t : N)       (* SELECT * FROM `db/<rev>`.t *)
| QUseRevDb (v : rev) (t : N)    (* USE `db/<rev>`; SELECT * FROM t *)
| QHistAt (c : N) (t : N)        (* SELECT * FROM dolt_history_t WHERE commit_hash = '<c>' *)
| QHistAll (t : N).              (* SELECT * FROM dolt_history_t *)

Definition input := (repo * list query)%type.
Definition obs := list ans.
Definition case := (input * obs)%type.

Definition answer (r : repo) (q : query) : ans :=
  match q with
  | QAsOf v t => as_of r v t
  | QRevDb v t | QUseRevDb v t => revdb r v t
  | QHistAt c t => hist_at r c t
  | QHistAll t => hist_all r t
  end.

Definition model_obs (i : input) : obs := map (answer (fst i)) (snd i).

Fixpoint obs_eqb (a b : obs) : bool :=
  match a, b with
  | [], [] => true
  | x :: a', y :: b' => ans_eqb x y && obs_eqb a' b'
  | _, _ => false
  end.

(* ---- the property on one answer ----
   A read that names commit c must return exactly table t of c (columns and rows)
   or "table not found" when c has no such table; a revision that names no commit
   must not return rows.  `db/<branch>` is the branch's working set: it denotes a
   commit when the branch is clean, otherwise it must show that working set.  The
   history table is read through the current schema of t (see Spec): it must list,
   for one commit, that commit's rows seen through that schema, and as a whole
   exactly the commits reachable from HEAD, each once. *)
Definition want_commit (r : repo) (v : rev) (t : N) (a : ans) : bool :=
  match resolve_rev r v with
  | Some i => match commit_at (r_hist r) i with
              | Some c => match assoc t (d_schema (k_state c)) with
                          | Some cols => ans_eqb a (ARows cols (rows_of t (d_data (k_state c))))
                          | None => is_error a
                          end
              | None => is_error a
              end
  | None => is_error a
  end.

Definition revdb_denotes (r : repo) (v : rev) : bool :=
  match (norm_base r (fst v), snd v) with
  | (BBranch b, []) => branch_cleanb r b
  | (BHash _, _ :: _) => false
  | (BHead, _) => false
  | _ => true
  end.

Definition prop_answer (r : repo) (q : query) (a : ans) : bool :=
  match q with
  | QAsOf v t => want_commit r v t a
  | QRevDb v t | QUseRevDb v t =>
    if revdb_denotes r v then want_commit r v t a
    else match (norm_base r (fst v), snd v) with
         | (BBranch b, []) =>                         (* dirty branch: `db/branch` is the branch's working set *)
           match branch_working r b with
           | Some w => match assoc t (d_schema w) with
                       | Some cols => ans_eqb a (ARows cols (rows_of t (d_data w)))
                       | None => is_error a
                       end
           | None => is_error a
           end
         | _ => match a with ARows _ _ | AHist _ _ => want_commit r v t a | _ => true end   (* refusing is fine; rows must be the right ones *)
         end
  | QHistAt c t =>
    match cur_schema r t with
    | Some tgt => ans_eqb a (ARows tgt (hist_rows_at (r_hist r) tgt c t))
    | None => is_error a
    end
  | QHistAll t =>
    match cur_schema r t, branch_head r (r_cur r) with
    | Some tgt, Some hd => ans_eqb a (AHist tgt (hist_all_rows (r_hist r) tgt hd t))
    | _, _ => is_error a
    end
  end.

Fixpoint prop_all (r : repo) (qs : list query) (o : obs) : bool :=
  match qs, o with
  | [], [] => true
  | q :: qs', a :: o' => prop_answer r q a && prop_all r qs' o'
  | _, _ => false
  end.

(* the recorded history must be well formed (parents recorded before children) *)
Definition oracle (i : input) (o : obs) : bool :=
  wf_histb (r_hist (fst i)) && prop_all (fst i) (snd i) o.

Definition check_case (c : case) : N :=
  (if obs_eqb (model_obs (fst c)) (snd c) then 0 else 1)
  + (if oracle (fst c) (snd c) then 0 else 2).
