(* C33 — the property, declaratively.
   "Reading a table AS OF a commit, branch or tag, through a revision database
    name, or through the history system table filtered to one commit, returns
    exactly the rows that table held in that commit."

   - the rows table t held in a state d: the pairs (pk, row) with ((t, pk), row)
     in d's content, under the columns d's schema gives t; no table = no answer
     ("table not found");
   - which commit a revision names: a commit by position, a branch's head, a tag's
     target, HEAD = the session branch's head, followed by ~n (n first-parent steps)
     and ^n (n-th parent);
   - the history table shows the rows of every commit REACHABLE from HEAD, each
     seen through the table's current schema (same pk; a current column keeps the
     committed value when the commit has a column of that name, else NULL). *)
From Coq Require Import NArith List Bool.
From Dolt Require Import C31.Model C33.Model.
Import ListNotations.
Local Open Scope N_scope.

(* the rows of t in d, as a relation *)
Definition holds_row (d : dbstate) (t pk : N) (rw : row) : Prop := In ((t, pk), rw) (d_data d).

(* an answer [a] is exactly table t of state d *)
Definition is_table_of (d : dbstate) (t : N) (a : ans) : Prop :=
  match assoc t (d_schema d) with
  | None => a = ANoTable
  | Some cols => exists rows, a = ARows cols rows /\
                   (forall pk rw, In (pk, rw) rows <-> holds_row d t pk rw) /\
                   map fst rows = map (fun kr => snd (fst kr)) (filter (fun kr => fst (fst kr) =? t) (d_data d))
  end.

(* reachability through parents *)
Inductive reachable (h : hist) : N -> N -> Prop :=
| reach_refl i : reachable h i i
| reach_step i p j : In p (parents_of h i) -> reachable h p j -> reachable h i j.

(* positions are creation order: parents are earlier commits *)
Definition wf_hist (h : hist) : Prop :=
  forall i p, In p (parents_of h i) -> p < i.
Definition wf_histb (h : hist) : bool :=
  forallb (fun i => forallb (fun p => p <? i) (parents_of h i)) (map N.of_nat (seq 0 (length h))).

(* n first-parent steps, as a relation *)
Inductive first_parent_chain (h : hist) : nat -> N -> N -> Prop :=
| fpc_0 i : first_parent_chain h 0 i i
| fpc_S n i p j : nth_error (parents_of h i) 0 = Some p -> first_parent_chain h n p j -> first_parent_chain h (S n) i j.

(* the value a current column shows for a row committed under schema src *)
Definition seen_cell (src : list N) (rw : row) (c : N) : cell :=
  match index_of c src with Some j => nth j rw None | None => None end.

(* branch b has no uncommitted changes *)
Definition branch_clean (r : repo) (b : N) : Prop :=
  exists hd c, assoc b (r_branches r) = Some (hd, k_state c) /\ commit_at (r_hist r) hd = Some c.

(* a revision database name that denotes a commit *)
Definition names_commit (r : repo) (v : rev) : Prop :=
  match (norm_base r (fst v), snd v) with
  | (BBranch b, []) => branch_clean r b
  | (BHash _, _ :: _) => False          (* `db/<hash>~1` is rejected by the implementation *)
  | (BHead, _) => False
  | _ => True
  end.

(* ---- boolean forms ---- *)
Fixpoint listN_eqb (a b : list N) : bool :=
  match a, b with
  | [], [] => true
  | x :: a', y :: b' => (x =? y) && listN_eqb a' b'
  | _, _ => false
  end.

Fixpoint rows_eqb (a b : list (N * row)) : bool :=
  match a, b with
  | [], [] => true
  | (k, r) :: a', (k', r') :: b' => (k =? k') && row_eqb r r' && rows_eqb a' b'
  | _, _ => false
  end.

Fixpoint hrows_eqb (a b : list (N * (N * row))) : bool :=
  match a, b with
  | [], [] => true
  | (c, (k, r)) :: a', (c', (k', r')) :: b' => (c =? c') && (k =? k') && row_eqb r r' && hrows_eqb a' b'
  | _, _ => false
  end.

Definition ans_eqb (a b : ans) : bool :=
  match a, b with
  | ARows c r, ARows c' r' => listN_eqb c c' && rows_eqb r r'
  | AHist c r, AHist c' r' => listN_eqb c c' && hrows_eqb r r'
  | ANoTable, ANoTable => true
  | ABadRev, ABadRev => true
  | _, _ => false
  end.

Definition is_error (a : ans) : bool := match a with ANoTable | ABadRev => true | _ => false end.

Definition state_eqb (a b : dbstate) : bool :=
  content_eqb (d_data a) (d_data b) &&
  (fix go (x y : schema) : bool :=
     match x, y with
     | [], [] => true
     | (t, c) :: x', (t', c') :: y' => (t =? t') && listN_eqb c c' && go x' y'
     | _, _ => false
     end) (d_schema a) (d_schema b).

Definition branch_cleanb (r : repo) (b : N) : bool :=
  match assoc b (r_branches r) with
  | Some (hd, w) => match commit_at (r_hist r) hd with Some c => state_eqb w (k_state c) | None => false end
  | None => false
  end.
