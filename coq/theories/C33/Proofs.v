(* C33 — proofs: AS OF / revision databases / the history table return the
   committed rows, for every repository of the model. *)
From Coq Require Import NArith Arith List Bool Lia ZifyN ZifyNat FinFun.
From Dolt Require Import C31.Model C31.Proofs C33.Model C33.Spec C33.Corr.
Import ListNotations.
Local Open Scope N_scope.

(* ---------------------------------------------------------------- *)
(* boolean equalities                                                *)
Lemma listN_eqb_eq a : forall b, listN_eqb a b = true <-> a = b.
Proof.
  induction a as [|x a IH]; intros [|y b]; cbn [listN_eqb]; try (split; [discriminate|discriminate]); try tauto.
  rewrite andb_true_iff, N.eqb_eq, IH. split; [intros [-> ->]; reflexivity | intros H; injection H; auto].
Qed.
Lemma listN_eqb_refl a : listN_eqb a a = true.
Proof. apply listN_eqb_eq; reflexivity. Qed.

Lemma row_eqb_refl a : row_eqb a a = true.
Proof. apply row_eqb_eq; reflexivity. Qed.

Lemma rows_eqb_refl a : rows_eqb a a = true.
Proof.
  induction a as [|[k r] a IH]; cbn [rows_eqb]; [reflexivity|].
  rewrite N.eqb_refl, row_eqb_refl, IH; reflexivity.
Qed.

Lemma hrows_eqb_refl a : hrows_eqb a a = true.
Proof.
  induction a as [|[c [k r]] a IH]; cbn [hrows_eqb]; [reflexivity|].
  rewrite !N.eqb_refl, row_eqb_refl, IH; reflexivity.
Qed.

Lemma ans_eqb_refl a : ans_eqb a a = true.
Proof.
  destruct a; cbn [ans_eqb]; try reflexivity.
  - rewrite listN_eqb_refl, rows_eqb_refl; reflexivity.
  - rewrite listN_eqb_refl, hrows_eqb_refl; reflexivity.
Qed.

Lemma schema_eqb_eq (x : schema) : forall y,
  (fix go (x y : schema) : bool :=
     match x, y with
     | [], [] => true
     | (t, c) :: x', (t', c') :: y' => (t =? t') && listN_eqb c c' && go x' y'
     | _, _ => false
     end) x y = true -> x = y.
Proof.
  induction x as [|[t c] x IH]; intros [|[t' c'] y]; try discriminate; [reflexivity|].
  intros H. apply andb_true_iff in H as [H H3]. apply andb_true_iff in H as [H1 H2].
  apply N.eqb_eq in H1. apply listN_eqb_eq in H2. apply IH in H3. subst; reflexivity.
Qed.

Lemma state_eqb_eq a b : state_eqb a b = true -> a = b.
Proof.
  destruct a as [sa da], b as [sb db]. unfold state_eqb; cbn [d_schema d_data].
  intros H. apply andb_true_iff in H as [H1 H2].
  apply content_eqb_eq in H1. apply schema_eqb_eq in H2. subst; reflexivity.
Qed.

Lemma memN_In x l : memN x l = true <-> In x l.
Proof.
  unfold memN. rewrite existsb_exists. split.
  - intros [y [Hin Hy]]. apply N.eqb_eq in Hy. subst; exact Hin.
  - intros Hin. exists x. split; [exact Hin | apply N.eqb_refl].
Qed.

(* ---------------------------------------------------------------- *)
(* the rows of a table                                               *)
Lemma rows_of_spec t d pk rw : In (pk, rw) (rows_of t d) <-> In ((t, pk), rw) d.
Proof.
  unfold rows_of. rewrite in_flat_map. split.
  - intros [[[t' k] r] [Hin Hx]]. cbn [fst snd] in Hx.
    destruct (t' =? t) eqn:Et; [|destruct Hx].
    apply N.eqb_eq in Et. destruct Hx as [Hx|[]]. injection Hx as -> ->. subst t'. exact Hin.
  - intros Hin. exists ((t, pk), rw). split; [exact Hin|]. cbn [fst snd]. rewrite N.eqb_refl. left; reflexivity.
Qed.

Lemma rows_of_keys t d :
  map fst (rows_of t d) = map (fun kr => snd (fst kr)) (filter (fun kr => fst (fst kr) =? t) d).
Proof.
  induction d as [|[[t' k] r] d IH]; [reflexivity|].
  cbn [rows_of flat_map filter fst snd]. fold (rows_of t d).
  destruct (t' =? t); cbn [app map fst snd]; rewrite IH; reflexivity.
Qed.

Theorem read_state_spec d t : is_table_of d t (read_state d t).
Proof.
  unfold is_table_of, read_state. destruct (assoc t (d_schema d)) as [cols|]; [|reflexivity].
  exists (rows_of t (d_data d)). split; [reflexivity|]. split.
  - intros pk rw. unfold holds_row. apply rows_of_spec.
  - apply rows_of_keys.
Qed.

(* ---------------------------------------------------------------- *)
(* revision resolution                                               *)
Lemma nth_parent_1 h i : nth_parent h i 1 = nth_error (parents_of h i) 0.
Proof. reflexivity. Qed.

Theorem first_parents_chain h n : forall i j, first_parents h i n = Some j <-> first_parent_chain h n i j.
Proof.
  induction n as [|n IH]; intros i j; cbn [first_parents].
  - split; [intros H; injection H as ->; constructor | intros H; inversion H; reflexivity].
  - rewrite nth_parent_1. split.
    + destruct (nth_error (parents_of h i) 0) as [p|] eqn:Ep; [|discriminate].
      intros H. apply IH in H. econstructor; eassumption.
    + intros H. inversion H as [|n' i' p j' Hp Hc]; subst. rewrite Hp. apply IH; exact Hc.
Qed.

Theorem tilde_add h n m : forall i,
  first_parents h i (n + m) = match first_parents h i n with Some j => first_parents h j m | None => None end.
Proof.
  induction n as [|n IH]; intros i; cbn [first_parents Nat.add]; [reflexivity|].
  destruct (nth_parent h i 1); [apply IH | reflexivity].
Qed.

Theorem walk_app h l1 : forall i l2,
  walk h i (l1 ++ l2) = match walk h i l1 with Some j => walk h j l2 | None => None end.
Proof.
  induction l1 as [|a l1 IH]; intros i l2; cbn [walk app]; [reflexivity|].
  destruct (step_anc h i a); [apply IH | reflexivity].
Qed.

Theorem caret1_is_tilde1 h i : step_anc h i (Caret 1) = step_anc h i (Tilde 1).
Proof.
  cbn [step_anc]. change (N.to_nat 1) with 1%nat. cbn [first_parents].
  destruct (nth_parent h i 1); reflexivity.
Qed.

Lemma reach_snoc h a i p : reachable h a i -> In p (parents_of h i) -> reachable h a p.
Proof.
  induction 1 as [i|i q j Hq Hr IH]; intros Hp.
  - econstructor; [exact Hp | constructor].
  - econstructor; [exact Hq | apply IH; exact Hp].
Qed.

Lemma reach_trans h a b c : reachable h a b -> reachable h b c -> reachable h a c.
Proof.
  induction 1 as [i|i q j Hq Hr IH]; intros Hc; [exact Hc|].
  econstructor; [exact Hq | apply IH; exact Hc].
Qed.

Lemma nth_parent_In h i n p : nth_parent h i n = Some p -> In p (parents_of h i).
Proof.
  unfold nth_parent. destruct (n =? 0); [discriminate|]. apply nth_error_In.
Qed.

Lemma first_parents_reach h n : forall i j, first_parents h i n = Some j -> reachable h i j.
Proof.
  induction n as [|n IH]; intros i j; cbn [first_parents].
  - intros H; injection H as ->; constructor.
  - destruct (nth_parent h i 1) as [p|] eqn:Ep; [|discriminate].
    intros H. econstructor; [eapply nth_parent_In; exact Ep | apply IH; exact H].
Qed.

(* every ancestor spec moves to an ancestor *)
Theorem walk_reachable h l : forall i j, walk h i l = Some j -> reachable h i j.
Proof.
  induction l as [|a l IH]; intros i j; cbn [walk].
  - intros H; injection H as ->; constructor.
  - destruct (step_anc h i a) as [k|] eqn:Ek; [|discriminate].
    intros H. apply IH in H. eapply reach_trans; [|exact H].
    destruct a as [n|n]; cbn [step_anc] in Ek.
    + eapply first_parents_reach; exact Ek.
    + econstructor; [eapply nth_parent_In; exact Ek | constructor].
Qed.

Lemma norm_idem r b : norm_base r (norm_base r b) = norm_base r b.
Proof.
  destruct b as [c|b|g|]; try reflexivity. cbn [norm_base].
  destruct (assoc g (r_branches r)) eqn:E; cbn [norm_base]; [reflexivity | rewrite E; reflexivity].
Qed.

Lemma resolve_base_norm r b : resolve_base r (norm_base r b) = resolve_base r b.
Proof. unfold resolve_base. rewrite norm_idem. reflexivity. Qed.

Lemma as_of_norm r b l t : as_of r (norm_base r b, l) t = as_of r (b, l) t.
Proof. unfold as_of, resolve_rev. cbn [fst snd]. rewrite resolve_base_norm. reflexivity. Qed.

Theorem resolve_hash r c k : commit_at (r_hist r) c = Some k -> resolve_rev r (BHash c, []) = Some c.
Proof. intros H. unfold resolve_rev, resolve_base; cbn [fst snd norm_base walk]. rewrite H. reflexivity. Qed.

Theorem resolve_branch r b hd w : assoc b (r_branches r) = Some (hd, w) -> resolve_rev r (BBranch b, []) = Some hd.
Proof. intros H. unfold resolve_rev, resolve_base; cbn [fst snd norm_base walk]. unfold branch_head. rewrite H. reflexivity. Qed.

(* a tag name that is not also a branch name *)
Theorem resolve_tag r g c : assoc g (r_branches r) = None -> assoc g (r_tags r) = Some c -> resolve_rev r (BTag g, []) = Some c.
Proof. intros Hb H. unfold resolve_rev, resolve_base; cbn [fst snd norm_base walk]. rewrite Hb, H. reflexivity. Qed.

(* a name that is both a branch and a tag means the branch *)
Theorem resolve_shadowed_tag r g hd w l : assoc g (r_branches r) = Some (hd, w) -> resolve_rev r (BTag g, l) = resolve_rev r (BBranch g, l).
Proof. intros H. unfold resolve_rev, resolve_base; cbn [fst snd norm_base]. rewrite H. reflexivity. Qed.

Theorem resolve_head r : resolve_rev r (BHead, []) = branch_head r (r_cur r).
Proof. unfold resolve_rev, resolve_base; cbn [fst snd norm_base walk]. destruct (branch_head r (r_cur r)); reflexivity. Qed.

(* ---------------------------------------------------------------- *)
(* AS OF                                                             *)
Theorem as_of_spec r v t i c :
  resolve_rev r v = Some i -> commit_at (r_hist r) i = Some c ->
  as_of r v t = read_state (k_state c) t /\ is_table_of (k_state c) t (as_of r v t).
Proof.
  intros Hr Hc. assert (E : as_of r v t = read_state (k_state c) t).
  { unfold as_of, read_commit. rewrite Hr, Hc. reflexivity. }
  split; [exact E|]. rewrite E. apply read_state_spec.
Qed.

Theorem as_of_unresolved r v t : resolve_rev r v = None -> as_of r v t = ABadRev.
Proof. intros H. unfold as_of. rewrite H. reflexivity. Qed.

(* by hash / branch / tag / ancestor spec, spelled out *)
Corollary as_of_hash r c k t : commit_at (r_hist r) c = Some k -> is_table_of (k_state k) t (as_of r (BHash c, []) t).
Proof. intros H. eapply as_of_spec; [eapply resolve_hash; exact H | exact H]. Qed.

Corollary as_of_branch r b hd w k t :
  assoc b (r_branches r) = Some (hd, w) -> commit_at (r_hist r) hd = Some k -> is_table_of (k_state k) t (as_of r (BBranch b, []) t).
Proof. intros H Hk. eapply as_of_spec; [eapply resolve_branch; exact H | exact Hk]. Qed.

Corollary as_of_tag r g c k t :
  assoc g (r_branches r) = None ->
  assoc g (r_tags r) = Some c -> commit_at (r_hist r) c = Some k -> is_table_of (k_state k) t (as_of r (BTag g, []) t).
Proof. intros Hb H Hk. eapply as_of_spec; [eapply resolve_tag; eassumption | exact Hk]. Qed.

Corollary as_of_tilde r b n i j k t :
  resolve_base r b = Some i -> first_parent_chain (r_hist r) n i j -> commit_at (r_hist r) j = Some k ->
  is_table_of (k_state k) t (as_of r (b, [Tilde (N.of_nat n)]) t).
Proof.
  intros Hb Hc Hk. eapply as_of_spec; [|exact Hk].
  unfold resolve_rev; cbn [fst snd walk step_anc]. rewrite Hb, Nat2N.id.
  apply first_parents_chain in Hc. rewrite Hc. reflexivity.
Qed.

(* ---------------------------------------------------------------- *)
(* revision databases                                                *)
Theorem revision_db_eq_as_of r v t : names_commit r v -> revdb r v t = as_of r v t.
Proof.
  destruct v as [b l]. unfold names_commit, revdb. cbn [fst snd].
  destruct (norm_base r b) as [c|b0|g|] eqn:En; destruct l as [|a l]; try tauto; try reflexivity.
  intros [hd [c [Hb Hc]]]. unfold branch_working. rewrite Hb.
  rewrite <- as_of_norm, En.
  unfold as_of, resolve_rev, resolve_base; cbn [fst snd norm_base walk]. unfold branch_head. rewrite Hb.
  unfold read_commit. rewrite Hc. reflexivity.
Qed.

(* `db/<name>` with <name> both a branch and a tag is the branch *)
Theorem revdb_shadowed_tag r g hd w l t : assoc g (r_branches r) = Some (hd, w) -> revdb r (BTag g, l) t = revdb r (BBranch g, l) t.
Proof.
  intros H. unfold revdb. cbn [fst snd norm_base]. rewrite H.
  destruct l; [reflexivity|]. rewrite <- (as_of_norm r (BTag g)). cbn [norm_base]. rewrite H. reflexivity.
Qed.

Corollary revision_db_spec r v t i c :
  names_commit r v -> resolve_rev r v = Some i -> commit_at (r_hist r) i = Some c ->
  is_table_of (k_state c) t (revdb r v t).
Proof. intros Hn Hr Hc. rewrite revision_db_eq_as_of by exact Hn. eapply as_of_spec; eassumption. Qed.

(* a dirty branch: `db/branch` is the working set, not a commit (hypothesis of the theorem is needed) *)
Example revdb_dirty_branch :
  let c0 := {| k_parents := []; k_state := {| d_schema := [(1, [1])]; d_data := [((1, 1), [Some 5])] |} |} in
  let w := {| d_schema := [(1, [1])]; d_data := [((1, 1), [Some 6])] |} in
  let r := {| r_hist := [c0]; r_branches := [(0, (0, w))]; r_tags := []; r_cur := 0 |} in
  revdb r (BBranch 0, []) 1 <> as_of r (BBranch 0, []) 1.
Proof. vm_compute. discriminate. Qed.

(* ---------------------------------------------------------------- *)
(* reachability: the sweep marks exactly the reachable commits        *)
Lemma sweep_sound h hd n : forall marked,
  (forall m, In m marked -> reachable h hd m) -> forall m, In m (sweep h n marked) -> reachable h hd m.
Proof.
  induction n as [|i IH]; intros marked Hm m; cbn [sweep]; [apply Hm|].
  apply IH. intros x Hx.
  destruct (memN (N.of_nat i) marked) eqn:Ei; [|apply Hm; exact Hx].
  apply in_app_or in Hx as [Hx|Hx]; [|apply Hm; exact Hx].
  apply memN_In in Ei. eapply reach_snoc; [apply Hm; exact Ei | exact Hx].
Qed.

Definition closed_from (h : hist) (n : nat) (marked : list N) : Prop :=
  forall m, In m marked -> (n <= N.to_nat m)%nat -> incl (parents_of h m) marked.

Lemma sweep_closed h : wf_hist h -> forall n marked,
  closed_from h n marked -> closed_from h 0 (sweep h n marked) /\ incl marked (sweep h n marked).
Proof.
  intros Hwf. induction n as [|i IH]; intros marked Hc; cbn [sweep].
  - split; [exact Hc | apply incl_refl].
  - set (marked' := if memN (N.of_nat i) marked then parents_of h (N.of_nat i) ++ marked else marked).
    assert (Hincl : incl marked marked').
    { unfold marked'. destruct (memN (N.of_nat i) marked); [apply incl_appr|]; apply incl_refl. }
    assert (Hc' : closed_from h i marked').
    { intros m Hm Hle. unfold marked' in *.
      destruct (memN (N.of_nat i) marked) eqn:Ei.
      - apply in_app_or in Hm as [Hm|Hm].
        + apply Hwf in Hm. lia.
        + destruct (Nat.eq_dec (N.to_nat m) i) as [E|E].
          * assert (m = N.of_nat i) by lia. subst m. apply incl_appl, incl_refl.
          * apply incl_tran with marked; [apply Hc; [exact Hm | lia] | apply incl_appr, incl_refl].
      - destruct (Nat.eq_dec (N.to_nat m) i) as [E|E].
        + assert (m = N.of_nat i) by lia. subst m. apply memN_In in Hm. congruence.
        + apply Hc; [exact Hm | lia]. }
    destruct (IH marked' Hc') as [H1 H2]. split; [exact H1 | eapply incl_tran; eassumption].
Qed.

Lemma closed_reach h S : closed_from h 0 S -> forall a m, reachable h a m -> In a S -> In m S.
Proof.
  intros Hcl a m Hr. induction Hr as [i|i p j Hp Hr IH]; intros Hi; [exact Hi|].
  apply IH. eapply Hcl; [exact Hi | lia | exact Hp].
Qed.

Theorem marks_spec h hd : wf_hist h -> forall m, In m (marks h hd) <-> reachable h hd m.
Proof.
  intros Hwf m. unfold marks. split.
  - apply sweep_sound. intros x [<-|[]]. constructor.
  - intros Hr.
    destruct (sweep_closed h Hwf (S (N.to_nat hd)) [hd]) as [Hcl Hin].
    { intros x [<-|[]] Hle. lia. }
    eapply closed_reach; [exact Hcl | exact Hr | apply Hin; left; reflexivity].
Qed.

Lemma positions_In (h : hist) m : In m (map N.of_nat (seq 0 (length h))) <-> (N.to_nat m < length h)%nat.
Proof.
  rewrite in_map_iff. split.
  - intros [x [<- Hx]]. apply in_seq in Hx. lia.
  - intros H. exists (N.to_nat m). split; [lia | apply in_seq; lia].
Qed.

(* the history table visits exactly the commits reachable from HEAD ... *)
Theorem visited_spec h hd : wf_hist h ->
  forall m, In m (visited h hd) <-> reachable h hd m /\ (N.to_nat m < length h)%nat.
Proof.
  intros Hwf m. unfold visited. rewrite filter_In, memN_In, marks_spec by exact Hwf.
  rewrite positions_In. tauto.
Qed.

(* ... each exactly once *)
Theorem visited_nodup h hd : NoDup (visited h hd).
Proof.
  unfold visited. apply NoDup_filter. apply Injective_map_NoDup; [|apply seq_NoDup].
  intros x y. apply Nat2N.inj.
Qed.

(* ---------------------------------------------------------------- *)
(* the history table                                                 *)
Lemma filter_tag_rows c i l :
  filter (fun x : N * (N * row) => fst x =? c) (tag_rows i l) = if i =? c then tag_rows i l else [].
Proof.
  unfold tag_rows. induction l as [|x l IH]; cbn [map filter fst]; [destruct (i =? c); reflexivity|].
  rewrite IH. destruct (i =? c); reflexivity.
Qed.

Lemma filter_blocks (f : N -> list (N * row)) c l : NoDup l ->
  filter (fun x => fst x =? c) (flat_map (fun i => tag_rows i (f i)) l) = if memN c l then tag_rows c (f c) else [].
Proof.
  induction 1 as [|a l Hnin Hnd IH]; [reflexivity|].
  cbn [flat_map]. rewrite filter_app, filter_tag_rows, IH.
  unfold memN; cbn [existsb]. fold (memN c l). rewrite (N.eqb_sym c a).
  destruct (a =? c) eqn:E.
  - apply N.eqb_eq in E. subst a. cbn [orb].
    destruct (memN c l) eqn:Em; [apply memN_In in Em; contradiction | apply app_nil_r].
  - cbn [orb app]. reflexivity.
Qed.

Lemma map_snd_tag_rows i l : map snd (tag_rows i l) = l.
Proof. unfold tag_rows. rewrite map_map. cbn [snd]. apply map_id. Qed.

(* Filtering dolt_history_t on one commit hash: the rows of that commit projected
   onto the current schema when the commit is reachable from HEAD (and then it is
   what the indexed lookup hist_at returns), nothing when it is not. *)
Theorem history_filter_spec r t tgt hd c :
  wf_hist (r_hist r) -> cur_schema r t = Some tgt -> branch_head r (r_cur r) = Some hd ->
  (N.to_nat c < length (r_hist r))%nat ->
  exists rows, hist_all r t = AHist tgt rows /\
    (reachable (r_hist r) hd c ->
       map snd (filter (fun x => fst x =? c) rows) = hist_rows_at (r_hist r) tgt c t /\
       hist_at r c t = ARows tgt (map snd (filter (fun x => fst x =? c) rows))) /\
    (~ reachable (r_hist r) hd c -> filter (fun x => fst x =? c) rows = []).
Proof.
  intros Hwf Hs Hh Hlt. unfold hist_all, hist_at. rewrite Hs, Hh.
  eexists; split; [reflexivity|]. unfold hist_all_rows.
  rewrite (filter_blocks (fun i => hist_rows_at (r_hist r) tgt i t) c _ (visited_nodup _ _)).
  split.
  - intros Hr. assert (Hv : memN c (visited (r_hist r) hd) = true).
    { apply memN_In, visited_spec; [exact Hwf | split; assumption]. }
    rewrite Hv, map_snd_tag_rows. split; reflexivity.
  - intros Hn. destruct (memN c (visited (r_hist r) hd)) eqn:Hv; [|reflexivity].
    apply memN_In, visited_spec in Hv; [|exact Hwf]. destruct Hv as [Hv _]. contradiction.
Qed.

(* what the projection shows: the same primary keys, and for every current column
   the committed cell of the column with that name (NULL when the commit has none) *)
Theorem hist_rows_at_spec h tgt i t k src :
  commit_at h i = Some k -> assoc t (d_schema (k_state k)) = Some src ->
  map fst (hist_rows_at h tgt i t) = map fst (rows_of t (d_data (k_state k))) /\
  forall pk rw', In (pk, rw') (hist_rows_at h tgt i t) <->
                 exists rw, holds_row (k_state k) t pk rw /\ rw' = map (seen_cell src rw) tgt.
Proof.
  intros Hc Hs. unfold hist_rows_at. rewrite Hc, Hs. split.
  - rewrite map_map. cbn [fst]. reflexivity.
  - intros pk rw'. rewrite in_map_iff. unfold holds_row. split.
    + intros [[pk0 rw] [E Hin]]. cbn [fst snd] in E. injection E as -> <-.
      exists rw. split; [apply rows_of_spec; exact Hin | reflexivity].
    + intros [rw [Hin ->]]. exists (pk, rw). split; [reflexivity | apply rows_of_spec; exact Hin].
Qed.

Theorem hist_rows_absent h tgt i t k :
  commit_at h i = Some k -> assoc t (d_schema (k_state k)) = None -> hist_rows_at h tgt i t = [].
Proof. intros Hc Hs. unfold hist_rows_at. rewrite Hc, Hs. reflexivity. Qed.

(* with an unchanged schema the projection is the identity: exactly the committed rows *)
Lemma index_of_cons_neq c x l : c <> x ->
  index_of c (x :: l) = match index_of c l with Some j => Some (S j) | None => None end.
Proof. intros H. cbn [index_of]. destruct (c =? x) eqn:E; [apply N.eqb_eq in E; contradiction | reflexivity]. Qed.

Theorem project_same_schema src : NoDup src -> forall rw, length rw = length src -> project_row src src rw = rw.
Proof.
  induction 1 as [|x src Hnin Hnd IH]; intros rw Hlen.
  - destruct rw; [reflexivity | discriminate].
  - destruct rw as [|v rw]; [discriminate|]. injection Hlen as Hlen.
    unfold project_row. cbn [map]. f_equal.
    + cbn [index_of]. rewrite N.eqb_refl. reflexivity.
    + transitivity (project_row src src rw); [|apply IH; exact Hlen].
      unfold project_row. apply map_ext_in. intros c Hc.
      assert (c <> x) by (intros ->; contradiction).
      rewrite index_of_cons_neq by assumption.
      destruct (index_of c src); reflexivity.
Qed.

Corollary hist_rows_same_schema h i t k src :
  commit_at h i = Some k -> assoc t (d_schema (k_state k)) = Some src -> NoDup src ->
  (forall pk rw, In (pk, rw) (rows_of t (d_data (k_state k))) -> length rw = length src) ->
  hist_rows_at h src i t = rows_of t (d_data (k_state k)).
Proof.
  intros Hc Hs Hnd Hlen. unfold hist_rows_at. rewrite Hc, Hs.
  rewrite <- (map_id (rows_of t (d_data (k_state k)))) at 2. apply map_ext_in.
  intros [pk rw] Hin. cbn [fst snd]. rewrite project_same_schema; [reflexivity | exact Hnd | eapply Hlen; exact Hin].
Qed.

(* a dropped column's data is not visible through the history table (documented projection) *)
Example dropped_column_invisible :
  let c0 := {| k_parents := []; k_state := {| d_schema := [(1, [1; 2])]; d_data := [((1, 1), [Some 5; Some 6])] |} |} in
  hist_rows_at [c0] [2] 0 1 = [(1, [Some 6])].
Proof. reflexivity. Qed.

(* ---------------------------------------------------------------- *)
(* the oracle holds of the model                                     *)
Lemma wf_histb_spec h : wf_histb h = true -> wf_hist h.
Proof.
  unfold wf_histb. rewrite forallb_forall. intros H i p Hp.
  destruct (Nat.lt_ge_cases (N.to_nat i) (length h)) as [Hlt|Hge].
  - specialize (H i (proj2 (positions_In h i) Hlt)). rewrite forallb_forall in H.
    apply N.ltb_lt, H; exact Hp.
  - unfold parents_of, commit_at in Hp. destruct (nth_error h (N.to_nat i)) eqn:E; [|destruct Hp].
    apply nth_error_None in Hge. congruence.
Qed.

Lemma want_commit_as_of r v t : want_commit r v t (as_of r v t) = true.
Proof.
  unfold want_commit, as_of, read_commit, read_state.
  destruct (resolve_rev r v) as [i|]; [|reflexivity].
  destruct (commit_at (r_hist r) i) as [c|]; [|reflexivity].
  destruct (assoc t (d_schema (k_state c))); [apply ans_eqb_refl | reflexivity].
Qed.

Lemma revdb_denotes_names r v : revdb_denotes r v = true -> names_commit r v.
Proof.
  destruct v as [b l]. unfold revdb_denotes, names_commit. cbn [fst snd].
  destruct (norm_base r b) as [c|b0|g|]; destruct l as [|a l]; try discriminate; try tauto.
  unfold branch_cleanb, branch_clean.
  destruct (assoc b0 (r_branches r)) as [[hd w]|]; [|discriminate].
  destruct (commit_at (r_hist r) hd) as [c|] eqn:Ec; [|discriminate].
  intros H. apply state_eqb_eq in H. subst w. exists hd, c. split; [reflexivity | exact Ec].
Qed.

Lemma prop_answer_model r q : prop_answer r q (answer r q) = true.
Proof.
  assert (Hrev : forall v t, prop_answer r (QRevDb v t) (revdb r v t) = true).
  { intros v t. cbn [prop_answer]. destruct (revdb_denotes r v) eqn:Ed.
    - rewrite revision_db_eq_as_of by (apply revdb_denotes_names; exact Ed). apply want_commit_as_of.
    - destruct v as [b l]. unfold revdb_denotes in Ed. unfold revdb. cbn [fst snd] in *.
      destruct (norm_base r b) as [c|b0|g|]; destruct l as [|a l]; try discriminate; try reflexivity.
      destruct (branch_working r b0) as [w|]; [|reflexivity].
      unfold read_state. destruct (assoc t (d_schema w)); [apply ans_eqb_refl | reflexivity]. }
  destruct q as [v t|v t|v t|c t|t]; cbn [answer].
  - cbn [prop_answer]. apply want_commit_as_of.
  - apply Hrev.
  - apply (Hrev v t).
  - cbn [prop_answer]. unfold hist_at. destruct (cur_schema r t); [apply ans_eqb_refl | reflexivity].
  - cbn [prop_answer]. unfold hist_all. destruct (cur_schema r t); [|reflexivity].
    destruct (branch_head r (r_cur r)); [apply ans_eqb_refl | reflexivity].
Qed.

Theorem oracle_model_obs i : wf_histb (r_hist (fst i)) = true -> oracle i (model_obs i) = true.
Proof.
  intros Hwf. unfold oracle, model_obs. rewrite Hwf. cbn [andb].
  induction (snd i) as [|q qs IH]; cbn [map prop_all]; [reflexivity|].
  rewrite prop_answer_model, IH. reflexivity.
Qed.
