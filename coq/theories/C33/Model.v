(* C33 — historical reads.  Model of the SQL access paths to committed data.
   No proofs in this file.

   A database state (root value) is a schema — which tables exist and which
   non-key columns (identified by their names c1, c2, …, here numbers) each has,
   in order — plus the C31 content map (table, pk) -> row, a row being the cells
   of the non-key columns in schema order.  A history is a list of commits
   (parents = earlier positions, state); refs are branches (head commit and the
   branch's working set) and tags.

   Mirrored code
     go/libraries/doltcore/sqle/database.go
        resolveAsOf / resolveAsOfCommitRef : AS OF '<rev>' -> commit -> root value
        getTableInsensitiveAsOf            : table of that root, "table not found" if absent
     go/libraries/doltcore/doltdb  CommitSpec / AncestorSpec (C44): <ref>(~n | ^n)*
        ~n = n first-parent steps, ^n = n-th parent (1-based)
     go/libraries/doltcore/sqle/database_provider.go
        databaseForRevision / revisionDbType / resolveAncestorSpec : `db/<rev>`
          - a branch name        -> RevisionDbForBranch: the branch's WORKING set (checked BEFORE tags)
          - a tag / commit hash  -> read-only database on that commit
          - <branch|tag><anc>    -> resolveAncestorSpec -> commit hash -> as above
          - <hash><anc>          -> GetRefByNameInsensitive fails: "invalid ref spec"
     go/libraries/doltcore/sqle/history_table.go
        NewHistoryTable       : commits = everything reachable from the session's HEAD
                                (CommitItrForRoots, all parents)
        LookupPartitions      : commit_hash = h uses HashToCommit directly (any commit,
                                reachable or not)
        newRowItrForTableAtCommit / rowConverter : rows of the table in that commit
                                (none if absent), projected BY COLUMN NAME onto the
                                schema the table has in the session's working set;
                                columns the commit lacks are NULL, columns the current
                                schema lacks are not shown.  The table must exist in the
                                working set (otherwise dolt_history_t is not found). *)
From Coq Require Import NArith List Bool.
From Dolt Require Import C31.Model.
Import ListNotations.
Local Open Scope N_scope.

(* ---------------------------------------------------------------- *)
(* states, histories, refs                                           *)
Definition schema := list (N * list N).          (* table -> its non-key columns; absent = no such table *)
Record dbstate := { d_schema : schema; d_data : content }.
Record kommit := { k_parents : list N; k_state : dbstate }.
Definition hist := list kommit.

Record repo := {
  r_hist : hist;
  r_branches : list (N * (N * dbstate));         (* branch -> (head commit, working set) *)
  r_tags : list (N * N);                         (* tag -> commit *)
  r_cur : N                                      (* the session's branch *)
}.

Fixpoint assoc {A : Type} (k : N) (l : list (N * A)) : option A :=
  match l with
  | [] => None
  | (k', v) :: l' => if k =? k' then Some v else assoc k l'
  end.

Definition commit_at (h : hist) (i : N) : option kommit := nth_error h (N.to_nat i).
Definition parents_of (h : hist) (i : N) : list N :=
  match commit_at h i with Some c => k_parents c | None => [] end.

(* rows of table t, in the order of the content map (canonical: by pk) *)
Definition rows_of (t : N) (d : content) : list (N * row) :=
  flat_map (fun kr => if fst (fst kr) =? t then [(snd (fst kr), snd kr)] else []) d.

(* ---------------------------------------------------------------- *)
(* revision specs                                                    *)
Inductive anc := Tilde (n : N) | Caret (n : N).
Inductive base := BHash (c : N) | BBranch (b : N) | BTag (g : N) | BHead.
Definition rev := (base * list anc)%type.

(* ^n : the n-th parent, 1-based (^0 is not modelled: the generator never produces it) *)
Definition nth_parent (h : hist) (i n : N) : option N :=
  if n =? 0 then None else nth_error (parents_of h i) (N.to_nat (n - 1)).

Fixpoint first_parents (h : hist) (i : N) (n : nat) : option N :=
  match n with
  | O => Some i
  | S n' => match nth_parent h i 1 with Some p => first_parents h p n' | None => None end
  end.

Definition step_anc (h : hist) (i : N) (a : anc) : option N :=
  match a with
  | Tilde n => first_parents h i (N.to_nat n)
  | Caret n => nth_parent h i n
  end.

Fixpoint walk (h : hist) (i : N) (l : list anc) : option N :=
  match l with
  | [] => Some i
  | a :: l' => match step_anc h i a with Some j => walk h j l' | None => None end
  end.

Definition branch_head (r : repo) (b : N) : option N :=
  match assoc b (r_branches r) with Some (hd, _) => Some hd | None => None end.
Definition branch_working (r : repo) (b : N) : option dbstate :=
  match assoc b (r_branches r) with Some (_, w) => Some w | None => None end.

(* Branch and tag names live in different ref namespaces, so a tag and a branch may share a name.  A bare name
   resolves refs/heads before refs/tags everywhere (doltdb getHashFromCommitSpec for AS OF; revisionDbType: isBranch
   before isTag for `db/<name>`): a tag that has a same-named branch is shadowed by the branch.  Names are numbers
   shared by both namespaces. *)
Definition norm_base (r : repo) (b : base) : base :=
  match b with
  | BTag g => match assoc g (r_branches r) with Some _ => BBranch g | None => BTag g end
  | _ => b
  end.

Definition resolve_base (r : repo) (b : base) : option N :=
  match norm_base r b with
  | BHash c => match commit_at (r_hist r) c with Some _ => Some c | None => None end
  | BBranch b => branch_head r b
  | BTag g => assoc g (r_tags r)
  | BHead => branch_head r (r_cur r)
  end.

Definition resolve_rev (r : repo) (v : rev) : option N :=
  match resolve_base r (fst v) with
  | Some i => walk (r_hist r) i (snd v)
  | None => None
  end.

(* ---------------------------------------------------------------- *)
(* answers                                                           *)
Inductive ans :=
| ARows (cols : list N) (rows : list (N * row))           (* column names, (pk, cells) *)
| AHist (cols : list N) (rows : list (N * (N * row)))     (* the whole history table: (commit, (pk, cells)) *)
| ANoTable                                                (* table not found *)
| ABadRev.                                                (* the revision does not resolve *)

Definition read_state (d : dbstate) (t : N) : ans :=
  match assoc t (d_schema d) with
  | Some cols => ARows cols (rows_of t (d_data d))
  | None => ANoTable
  end.

Definition read_commit (r : repo) (i : N) (t : N) : ans :=
  match commit_at (r_hist r) i with
  | Some c => read_state (k_state c) t
  | None => ABadRev
  end.

(* SELECT * FROM t AS OF '<rev>' *)
Definition as_of (r : repo) (v : rev) (t : N) : ans :=
  match resolve_rev r v with
  | Some i => read_commit r i t
  | None => ABadRev
  end.

(* SELECT * FROM `db/<rev>`.t   and   USE `db/<rev>`; SELECT * FROM t *)
Definition revdb (r : repo) (v : rev) (t : N) : ans :=
  match (norm_base r (fst v), snd v) with
  | (BBranch b, []) => match branch_working r b with Some w => read_state w t | None => ABadRev end
  | (BHash _, _ :: _) => ABadRev
  | (BHead, _) => ABadRev                      (* not produced by the generator *)
  | _ => as_of r v t
  end.

(* ---------------------------------------------------------------- *)
(* the history table                                                 *)
Fixpoint index_of (c : N) (l : list N) : option nat :=
  match l with
  | [] => None
  | x :: l' => if c =? x then Some O else match index_of c l' with Some j => Some (S j) | None => None end
  end.

(* rowConverter: target column c takes the cell of the source column with the same name *)
Definition project_row (src tgt : list N) (rw : row) : row :=
  map (fun c => match index_of c src with Some j => nth j rw None | None => None end) tgt.

Definition hist_rows_at (h : hist) (tgt : list N) (i t : N) : list (N * row) :=
  match commit_at h i with
  | Some c => match assoc t (d_schema (k_state c)) with
              | Some src => map (fun pr => (fst pr, project_row src tgt (snd pr))) (rows_of t (d_data (k_state c)))
              | None => []
              end
  | None => []
  end.

Definition cur_schema (r : repo) (t : N) : option (list N) :=
  match branch_working r (r_cur r) with
  | Some w => assoc t (d_schema w)
  | None => None
  end.

(* SELECT * FROM dolt_history_t WHERE commit_hash = <hash of commit i> *)
Definition hist_at (r : repo) (i t : N) : ans :=
  match cur_schema r t with
  | Some tgt => ARows tgt (hist_rows_at (r_hist r) tgt i t)
  | None => ANoTable
  end.

(* commits reachable from hd through any parent.  Positions are creation order,
   so every parent is smaller than its child and one descending sweep marks
   exactly the reachable commits (the real iterator is a graph walk with a
   visited set; the order of visits is not modelled — answers are compared as
   sorted lists). *)
Definition memN (x : N) (l : list N) : bool := existsb (N.eqb x) l.

Fixpoint sweep (h : hist) (n : nat) (marked : list N) : list N :=
  match n with
  | O => marked
  | S i => sweep h i (if memN (N.of_nat i) marked then parents_of h (N.of_nat i) ++ marked else marked)
  end.

Definition marks (h : hist) (hd : N) : list N := sweep h (S (N.to_nat hd)) [hd].

Definition visited (h : hist) (hd : N) : list N :=
  filter (fun i => memN i (marks h hd)) (map N.of_nat (seq 0 (length h))).

Definition tag_rows (i : N) (l : list (N * row)) : list (N * (N * row)) := map (fun pr => (i, pr)) l.

Definition hist_all_rows (h : hist) (tgt : list N) (hd t : N) : list (N * (N * row)) :=
  flat_map (fun i => tag_rows i (hist_rows_at h tgt i t)) (visited h hd).

(* SELECT * FROM dolt_history_t *)
Definition hist_all (r : repo) (t : N) : ans :=
  match cur_schema r t, branch_head r (r_cur r) with
  | Some tgt, Some hd => AHist tgt (hist_all_rows (r_hist r) tgt hd t)
  | _, _ => ANoTable
  end.
