(* C26 — the declarative side: what a range, a filter, a join and a count mean, independent of how dolt
   evaluates them. *)
From Coq Require Import ZArith List Bool Sorted.
From Dolt Require Import C26.Model.
Import ListNotations.
Local Open Scope Z_scope.

(* ---- ranges: a value lies in a column expression iff it is strictly between the two cuts, in the order
   BelowNull < NULL < AboveNull < ... < Below k < k < Above k < ... < AboveAll ---- *)
Definition cut_below_cell (c : cut) (x : cell) : bool :=
  match c, x with
  | BelowNull, _ => true
  | AboveNull, Some _ => true
  | Below k, Some v => k <=? v
  | Above k, Some v => k <? v
  | _, _ => false
  end.

Definition cell_below_cut (x : cell) (c : cut) : bool :=
  match c, x with
  | AboveAll, _ => true
  | BelowNull, _ => false
  | AboveNull, None => true
  | AboveNull, Some _ => false
  | Below _, None => true
  | Above _, None => true
  | Below k, Some v => v <? k
  | Above k, Some v => v <=? k
  end.

Definition sat_col (r : colrange) (x : cell) : bool := cut_below_cell (fst r) x && cell_below_cut x (snd r).

Fixpoint sat (rs : list colrange) (t : key) : bool :=
  match rs, t with
  | r :: rs', x :: t' => sat_col r x && sat rs' t'
  | _, _ => true
  end.

(* ---- filters: SQL three-valued logic over integer columns ---- *)
Inductive cmpop := OLt | OLe | OEq | OGe | OGt | ONe.
Inductive pred :=
| PCmp (c : nat) (o : cmpop) (k : Z)
| PBetween (c : nat) (lo hi : Z)
| PIn (c : nat) (ks : list Z)
| PIsNull (c : nat)
| PNotNull (c : nat)
| PInCells (c : nat) (vs : list cell)      (* c IN (subquery values): NULLs in the list make a miss unknown *)
| PAnd (p q : pred)
| POr (p q : pred)
| PNot (p : pred).
Arguments PCmp c o k%Z.
Arguments PBetween c lo%Z hi%Z.

Definition cmp_holds (o : cmpop) (v k : Z) : bool :=
  match o with
  | OLt => v <? k | OLe => v <=? k | OEq => v =? k | OGe => k <=? v | OGt => k <? v | ONe => negb (v =? k)
  end.

Definition and3 (a b : option bool) : option bool :=
  match a, b with
  | Some false, _ | _, Some false => Some false
  | Some true, Some true => Some true
  | _, _ => None
  end.
Definition or3 (a b : option bool) : option bool :=
  match a, b with
  | Some true, _ | _, Some true => Some true
  | Some false, Some false => Some false
  | _, _ => None
  end.

Fixpoint eval (p : pred) (r : row) : option bool :=
  match p with
  | PCmp c o k => option_map (fun v => cmp_holds o v k) (nth c r None)
  | PBetween c lo hi => option_map (fun v => (lo <=? v) && (v <=? hi)) (nth c r None)
  | PIn c ks => option_map (fun v => existsb (Z.eqb v) ks) (nth c r None)
  | PIsNull c => Some (is_none (nth c r None))
  | PNotNull c => Some (negb (is_none (nth c r None)))
  | PInCells c vs =>
      match nth c r None with
      | None => None
      | Some v => if existsb (fun x => match x with Some y => v =? y | None => false end) vs then Some true
                  else if existsb is_none vs then None else Some false
      end
  | PAnd p q => and3 (eval p r) (eval q r)
  | POr p q => or3 (eval p r) (eval q r)
  | PNot p => option_map negb (eval p r)
  end.

Definition holds (p : pred) (r : row) : bool := match eval p r with Some true => true | _ => false end.
Definition select (p : pred) (rows : list row) : list row := filter (holds p) rows.

(* SELECT [DISTINCT] cols ... [LIMIT n] on top of a filtered row list *)
Fixpoint row_eqb (a b : row) : bool :=
  match a, b with
  | [], [] => true
  | x :: a', y :: b' => cmp_is_eq (cmp_cell x y) && row_eqb a' b'
  | _, _ => false
  end.
Fixpoint dedup_rows (l : list row) : list row :=
  match l with
  | [] => []
  | x :: l' => x :: filter (fun y => negb (row_eqb x y)) (dedup_rows l')
  end.
Definition shape (proj : option (list nat)) (distinct : bool) (limit : option nat) (rows : list row) : list row :=
  let r1 := match proj with Some cols => map (fun r => map (fun c => nth c r None) cols) rows | None => rows end in
  let r2 := if distinct then dedup_rows r1 else r1 in
  match limit with Some n => firstn n r2 | None => r2 end.

(* SELECT col, COUNT( * ) ... GROUP BY col *)
Definition group_count (c : nat) (rows : list row) : list row :=
  map (fun k => [k; Some (Z.of_nat (length (filter (fun r => cmp_is_eq (cmp_cell (nth c r None) k)) rows)))])
      (map (fun r => nth 0 r None) (dedup_rows (map (fun r => [nth c r None]) rows))).

(* ---- joins: the nested-loop join on SQL equality of the join keys ---- *)
Definition nl_join (left_outer : bool) (L R : side) : list (row * option row) :=
  flat_map (fun l => emit left_outer l (filter (jf l) R)) L.

(* ---- count ---- *)
Definition count_spec (col : option nat) (rows : list row) : Z :=
  match col with
  | None => Z.of_nat (length rows)
  | Some c => Z.of_nat (length (filter (fun r => match nth c r None with Some _ => true | None => false end) rows))
  end.

Definition side_sorted (S : side) : Prop := StronglySorted (fun a b => cmp_cell (fst a) (fst b) <> Gt) S.
Definition keys_sorted (keys : list key) : Prop := StronglySorted key_le keys.
