(* C26 — executable model of dolt's key-value read paths.
   (a) index ranges: go/libraries/doltcore/sqle/index/dolt_index.go (pruneEmptyRanges,
       prollyRangesFromSqlRanges), go/store/prolly/tuple_range.go (aboveStart, belowStop, Matches,
       KeyRangeLookup, IncrementTuple), go/store/prolly/tuple_map.go (IterRange, filteredIter),
       go/store/prolly/tree/map.go (IterKeyRange, OrderedTreeIterFromCursors),
       go-mysql-server sql/range_cut.go (cut order, TypeAsLowerBound / TypeAsUpperBound).
   (b) joins: go/libraries/doltcore/sqle/kvexec/merge_join.go (mergeJoinKvIter.Next),
       lookup_join.go (lookupJoinKvIter.Next), sqle/index/secondary_iter.go (covLaxSecondaryLookupGen.New).
   (c) go/libraries/doltcore/sqle/kvexec/count_agg.go (countAggKvIter.Next).
   Columns are MySQL INT (val.Int32Enc); a cell is NULL or an integer.  No proofs in this file. *)
From Coq Require Import ZArith List Bool.
Import ListNotations.
Local Open Scope Z_scope.

Definition cell := option Z.
Definition I (n : Z) : cell := Some n.
Arguments I n%Z.
Definition key := list cell.          (* a key tuple of an index: indexed columns then the primary key columns *)
Definition row := list cell.

(* val.compare (store/val/tuple_compare.go): NULLs order first *)
Definition cmp_cell (a b : cell) : comparison :=
  match a, b with
  | None, None => Eq
  | None, Some _ => Lt
  | Some _, None => Gt
  | Some x, Some y => Z.compare x y
  end.

(* TupleDesc.Compare on tuples of the same descriptor *)
Fixpoint cmp_key (a b : key) : comparison :=
  match a, b with
  | x :: a', y :: b' => match cmp_cell x y with Eq => cmp_key a' b' | c => c end
  | _, _ => Eq
  end.

Definition key_le (a b : key) : Prop := cmp_key a b <> Gt.
Definition key_leb (a b : key) : bool := match cmp_key a b with Gt => false | _ => true end.

(* ------------------------------------------------------------------ *)
(* (a) ranges                                                          *)

(* sql.MySQLRangeCut *)
Inductive cut := BelowNull | AboveNull | Below (k : Z) | Above (k : Z) | AboveAll.
Arguments Below k%Z.
Arguments Above k%Z.
Definition colrange := (cut * cut)%type.     (* sql.MySQLRangeColumnExpr: LowerBound, UpperBound *)

(* MySQLRangeCut.Compare, case by case as in range_cut.go *)
Definition cut_cmp (a b : cut) : comparison :=
  match a, b with
  | AboveAll, AboveAll => Eq
  | AboveAll, _ => Gt
  | AboveNull, AboveNull => Eq
  | AboveNull, BelowNull => Gt
  | AboveNull, _ => Lt
  | BelowNull, BelowNull => Eq
  | BelowNull, _ => Lt
  | Above _, AboveAll => Lt
  | Above _, AboveNull => Gt
  | Above x, Above y => Z.compare x y
  | Above x, Below y => match Z.compare x y with Lt => Lt | _ => Gt end
  | Above _, BelowNull => Gt
  | Below _, AboveAll => Lt
  | Below _, AboveNull => Gt
  | Below x, Below y => Z.compare x y
  | Below x, Above y => match Z.compare y x with Lt => Gt | _ => Lt end
  | Below _, BelowNull => Gt
  end.

(* MySQLRangeColumnExpr.IsEmpty: LowerBound.Compare(UpperBound) >= 0 *)
Definition col_empty (r : colrange) : bool :=
  match cut_cmp (fst r) (snd r) with Lt => false | _ => true end.

(* pruneEmptyRanges: a range with an empty column expression is dropped.  (Its second loop drops lower
   bounds Below{nil}; a Below cut carries an integer here.) *)
Definition pruned (rs : list colrange) : bool := existsb col_empty rs.

(* prolly.Bound / prolly.RangeField *)
Record bound := { b_val : cell; b_bind : bool; b_incl : bool }.
Record field := { f_lo : bound; f_hi : bound; f_eq : bool }.
Record prange := { r_fields : list field; r_tup : key; r_contig : bool; r_skip : bool }.

(* rangeCutIsBinding / getRangeCutValue / TypeAsLowerBound / TypeAsUpperBound *)
Definition cut_binding (c : cut) : bool := match c with Below _ | Above _ | AboveNull => true | _ => false end.
Definition cut_value (c : cut) : cell := match c with Below k | Above k => Some k | _ => None end.
Definition lower_closed (c : cut) : bool := match c with Below _ | BelowNull => true | _ => false end.
Definition upper_closed (c : cut) : bool := match c with Above _ | AboveNull => true | _ => false end.

Definition is_none (c : cell) : bool := match c with None => true | Some _ => false end.
Definition cmp_is_eq (c : comparison) : bool := match c with Eq => true | _ => false end.

(* one field of prollyRangesFromSqlRanges: a non-binding bound is the zero Bound with a NULL value;
   BoundsAreEqual = (Hi.Value == Lo.Value) and both binding.  For integers the trimmed value equals the
   value, so Hi.Inclusive = (bound == Closed). *)
Definition mk_field (r : colrange) : field :=
  let lo := {| b_val := cut_value (fst r); b_bind := cut_binding (fst r);
               b_incl := cut_binding (fst r) && lower_closed (fst r) |} in
  let hi := {| b_val := cut_value (snd r); b_bind := cut_binding (snd r);
               b_incl := cut_binding (snd r) && upper_closed (snd r) |} in
  {| f_lo := lo; f_hi := hi;
     f_eq := cmp_is_eq (cmp_cell (b_val hi) (b_val lo)) && b_bind hi && b_bind lo |}.

(* the isContiguous / foundDiscontinuity loop *)
Fixpoint contig_aux (found : bool) (fs : list field) : bool :=
  match fs with
  | [] => true
  | f :: fs' =>
      let nilb := is_none (b_val (f_lo f)) && is_none (b_val (f_hi f)) in
      negb (found || nilb) && contig_aux (found || negb (f_eq f) || nilb) fs'
  end.

Definition pad (w : nat) (t : key) : key := t ++ repeat None (w - length t).

(* prollyRangesFromSqlRanges for one (unpruned) range over an index whose key descriptor has w fields;
   Tup is the tuple of the upper bound values; all columns are integers so SkipRangeMatchCallback = true *)
Definition build_range (w : nat) (rs : list colrange) : option prange :=
  if pruned rs then None
  else let fs := map mk_field rs in
       Some {| r_fields := fs; r_tup := pad w (map (fun f => b_val (f_hi f)) fs);
               r_contig := contig_aux false fs; r_skip := true |}.

(* Range.aboveStart *)
Fixpoint above_start (fs : list field) (t : key) : bool :=
  match fs, t with
  | f :: fs', x :: t' =>
      if negb (b_bind (f_lo f)) then true
      else match cmp_cell x (b_val (f_lo f)) with
           | Lt => false
           | Eq => if f_eq f then above_start fs' t' else b_incl (f_lo f)
           | Gt => true
           end
  | _, _ => true
  end.

(* Range.belowStop *)
Fixpoint below_stop (fs : list field) (t : key) : bool :=
  match fs, t with
  | f :: fs', x :: t' =>
      if negb (b_bind (f_hi f)) then true
      else match cmp_cell x (b_val (f_hi f)) with
           | Gt => false
           | Eq => if f_eq f then below_stop fs' t' else b_incl (f_hi f)
           | Lt => true
           end
  | _, _ => true
  end.

(* Range.Matches, one field *)
Definition field_match (f : field) (x : cell) : bool :=
  if f_eq f then cmp_is_eq (cmp_cell x (b_val (f_lo f)))
  else (if b_bind (f_lo f)
        then match cmp_cell x (b_val (f_lo f)) with Lt => false | Eq => b_incl (f_lo f) | Gt => true end
        else true)
       && (if b_bind (f_hi f)
           then match cmp_cell x (b_val (f_hi f)) with Gt => false | Eq => b_incl (f_hi f) | Lt => true end
           else true).

Fixpoint matches (fs : list field) (t : key) : bool :=
  match fs, t with
  | f :: fs', x :: t' => field_match f x && matches fs' t'
  | _, _ => true
  end.

(* Int32 increment of IncrementTuple (v+1 in int32 arithmetic) *)
Definition max32 : Z := 2147483647.
Definition min32 : Z := -2147483648.
Definition incr32 (v : Z) : Z := if max32 <? v + 1 then min32 else v + 1.
(* the same for the other integer encodings (Int8/16/32/64Enc, unsigned ones): e = (minimum, maximum) of the field's type *)
Definition incr_w (e : Z * Z) (v : Z) : Z := if snd e <? v + 1 then fst e else v + 1.

(* KeyRangeLookup, first loop: number of leading fields with a non-NULL lower value that are all
   BoundsAreEqual, stopping at the first field whose lower and upper values are both NULL; None = give up *)
Fixpoint eq_prefix_len (fs : list field) : option nat :=
  match fs with
  | [] => Some O
  | f :: fs' =>
      match b_val (f_lo f) with
      | None => if is_none (b_val (f_hi f)) then Some O else None
      | Some _ => if f_eq f then option_map S (eq_prefix_len fs') else None
      end
  end.

Fixpoint set_nth (n : nat) (v : cell) (t : key) : key :=
  match n, t with
  | O, _ :: t' => v :: t'
  | S n', x :: t' => x :: set_nth n' v t'
  | _, [] => []
  end.

(* KeyRangeLookup + IncrementTuple: the stop tuple, or None when the range is scanned with the search functions.
   nullable = Desc.Types[i].Nullable for the w key fields, encs = value range of each field's integer encoding. *)
Definition key_range_lookup (nullable : list bool) (encs : list (Z * Z)) (r : prange) : option key :=
  match eq_prefix_len (r_fields r) with
  | None | Some O => None
  | Some (S n) =>
      if negb (forallb (fun b => b) (skipn (S n) nullable)) then None
      else if negb (forallb (fun f => is_none (b_val (f_lo f)) && is_none (b_val (f_hi f))) (skipn (S n) (r_fields r))) then None
      else match nth n (r_tup r) None with
           | None => None
           | Some v =>
               let stop := pad (length (r_tup r)) (firstn n (r_tup r) ++ [Some (incr_w (nth n encs (min32, max32)) v)]) in
               match cmp_key (r_tup r) stop with Lt => Some stop | _ => None end
           end
  end.

(* sort.Search over a monotone predicate: index of the first element satisfying p (Proofs.v shows the
   predicates used are monotone on sorted keys, which is what makes the binary search well defined) *)
Fixpoint first_idx {A} (p : A -> bool) (l : list A) : nat :=
  match l with [] => O | x :: l' => if p x then O else S (first_idx p l') end.

Definition slice {A} (i j : nat) (l : list A) : list A := firstn (j - i) (skipn i l).

(* treeIterFromRange / OrderedTreeIterFromCursors: [first aboveStart, first not belowStop) *)
Definition scan_tree (fs : list field) (keys : list key) : list key :=
  slice (first_idx (above_start fs) keys) (first_idx (fun t => negb (below_stop fs t)) keys) keys.

(* IterKeyRange: [first key >= start, first key >= stop) *)
Definition scan_keyrange (start stop : key) (keys : list key) : list key :=
  slice (first_idx (fun t => key_leb start t) keys) (first_idx (fun t => key_leb stop t) keys) keys.

(* Map.IterRange *)
Definition iter_range (nullable : list bool) (encs : list (Z * Z)) (keys : list key) (r : prange) : list key :=
  let phys := match key_range_lookup nullable encs r with
              | Some stop => scan_keyrange (r_tup r) stop keys
              | None => scan_tree (r_fields r) keys
              end in
  if negb (r_skip r) || negb (r_contig r) then filter (matches (r_fields r)) phys else phys.

(* ------------------------------------------------------------------ *)
(* (b) joins over key-sorted inputs.  A side is a list of (join key cell, row), sorted by the join key as the
   index iterator delivers it.  The join condition is re-evaluated on every candidate (buildResultRow /
   joinFilter): SQL equality, NULL = anything is not true. *)
Definition side := list (cell * row).

Definition jf (l r : cell * row) : bool :=
  match fst l, fst r with Some a, Some b => a =? b | _, _ => false end.

Definition emit (left_outer : bool) (l : cell * row) (ms : list (cell * row)) : list (row * option row) :=
  match ms with
  | [] => if left_outer then [(snd l, None)] else []
  | _ => map (fun r => (snd l, Some (snd r))) ms
  end.

Fixpoint span {A} (p : A -> bool) (l : list A) : list A * list A :=
  match l with
  | [] => ([], [])
  | x :: l' => if p x then let (a, b) := span p l' in (x :: a, b) else ([], l)
  end.

(* mergeJoinKvIter.Next, by stages.  compare stage: lrCmp < 0 advances the left (a left row that never matched is
   emitted null-extended for LEFT JOIN), > 0 advances the right, = 0 fills the lookahead buffer with the following
   right rows that compare equal (fillMatchBuf).  match stage: the current left row is paired first with the buffer,
   then with rightKey itself; while the next left row compares equal (llCmp = 0) the buffer is reused; every candidate
   passes the join filters.  Right side exhausted: LEFT JOIN drains the left (exhaustLeftReturn). *)
Fixpoint merge_join (fuel : nat) (left_outer : bool) (L R : side) : list (row * option row) :=
  match fuel with
  | O => []
  | S fuel' =>
      match L, R with
      | [], _ => []
      | _, [] => if left_outer then flat_map (fun l => emit true l []) L else []
      | l :: L', r :: R' =>
          match cmp_cell (fst l) (fst r) with
          | Lt => emit left_outer l [] ++ merge_join fuel' left_outer L' R
          | Gt => merge_join fuel' left_outer L R'
          | Eq =>
              let (buf, R'') := span (fun r' => cmp_is_eq (cmp_cell (fst l) (fst r'))) R' in
              let (grp, L'') := span (fun l' => cmp_is_eq (cmp_cell (fst l) (fst l'))) L' in
              (* LEFT JOIN only: a left row of the group that matched nothing is returned null-extended from inside
                 the match stage with matchPos reset to 0; when the lookahead buffer is empty the next call of Next
                 therefore starts at the compare stage again, compares equal and calls fillMatchBuf a second time,
                 which overwrites nextRightKey: one right row following the group is lost for every such left row
                 but the last.  Keys compare equal while the join condition fails only for NULL keys. *)
              let lost := if left_outer && (match buf with [] => true | _ => false end) && negb (jf l r)
                          then length grp else O in
              flat_map (fun l' => emit left_outer l' (filter (jf l') (buf ++ [r]))) (l :: grp)
              ++ merge_join fuel' left_outer L'' (skipn lost R'')
          end
      end
  end.

(* ---- mergeJoinKvIter as the state machine of merge_join.go --------------------------------------------
   The fields are those of the Go struct: leftKey (sm_lk, None = nil), the unread rest of leftIter (sm_ls), rightKey,
   the unread rest of rightIter, nextRightKey, lookaheadBuf, matchPos, matchedLeft, exhaustLeft.  sm_pc is the control
   point: PEntry = top of Next (after a row was returned), PCompare = label "compare", PMatch = label "match",
   PExhaust = exhaustLeftReturn.  One step = one loop iteration of Next; Emit = "return row". *)
Inductive pc := PEntry | PCompare | PMatch | PExhaust.
Record sm := { sm_pc : pc; sm_lk : option (cell * row); sm_ls : side; sm_rk : option (cell * row); sm_rs : side;
               sm_nrk : option (cell * row); sm_buf : side; sm_mpos : nat; sm_matched : bool; sm_exhaust : bool }.
Inductive sm_result := Stop | Tau (s : sm) | Emit (o : row * option row) (s : sm).

Definition null_row (l : cell * row) : row * option row := (snd l, None).
Definition pair_row (l r : cell * row) : row * option row := (snd l, Some (snd r)).

(* fillMatchBuf: append the following right rows that compare equal to the left key; nextRightKey is the first that
   does not (nil at EOF).  Whatever nextRightKey held before is overwritten. *)
Definition sm_fill (l : cell * row) (s : sm) : sm :=
  let (b, rest) := span (fun r' => cmp_is_eq (cmp_cell (fst l) (fst r'))) (sm_rs s) in
  {| sm_pc := PMatch; sm_lk := sm_lk s; sm_ls := sm_ls s; sm_rk := sm_rk s;
     sm_rs := tl rest; sm_nrk := hd_error rest; sm_buf := sm_buf s ++ b; sm_mpos := sm_mpos s;
     sm_matched := sm_matched s; sm_exhaust := sm_exhaust s |}.

Definition sm_step (lo : bool) (s : sm) : sm_result :=
  match sm_pc s with
  | PEntry =>
      match sm_lk s with
      | None =>                                   (* initialize() *)
          match sm_ls s with
          | [] => Stop                            (* left EOF (LEFT JOIN: exhaustLeftReturn with leftKey == nil) *)
          | l :: ls' =>
              match sm_rs s with
              | [] => if lo then Tau {| sm_pc := PExhaust; sm_lk := Some l; sm_ls := ls'; sm_rk := None; sm_rs := [];
                                        sm_nrk := sm_nrk s; sm_buf := sm_buf s; sm_mpos := sm_mpos s;
                                        sm_matched := sm_matched s; sm_exhaust := true |}
                      else Stop
              | r :: rs' => Tau {| sm_pc := PEntry; sm_lk := Some l; sm_ls := ls'; sm_rk := Some r; sm_rs := rs';
                                   sm_nrk := sm_nrk s; sm_buf := sm_buf s; sm_mpos := sm_mpos s;
                                   sm_matched := sm_matched s; sm_exhaust := sm_exhaust s |}
              end
          end
      | Some _ =>
          let next := if sm_exhaust s then PExhaust
                      else if (match sm_buf s with [] => false | _ => true end) || (0 <? sm_mpos s)%nat then PMatch
                      else PCompare in
          Tau {| sm_pc := next; sm_lk := sm_lk s; sm_ls := sm_ls s; sm_rk := sm_rk s; sm_rs := sm_rs s; sm_nrk := sm_nrk s;
                 sm_buf := sm_buf s; sm_mpos := sm_mpos s; sm_matched := sm_matched s; sm_exhaust := sm_exhaust s |}
      end
  | PExhaust =>                                    (* exhaustLeftReturn *)
      match sm_lk s with
      | None => Stop
      | Some l =>
          if sm_matched s then
            match sm_ls s with
            | [] => Stop
            | l' :: ls' => Emit (null_row l') {| sm_pc := PEntry; sm_lk := Some l'; sm_ls := ls'; sm_rk := sm_rk s; sm_rs := sm_rs s;
                                                 sm_nrk := sm_nrk s; sm_buf := sm_buf s; sm_mpos := sm_mpos s;
                                                 sm_matched := true; sm_exhaust := true |}
            end
          else Emit (null_row l) {| sm_pc := PEntry; sm_lk := Some l; sm_ls := sm_ls s; sm_rk := sm_rk s; sm_rs := sm_rs s;
                                    sm_nrk := sm_nrk s; sm_buf := sm_buf s; sm_mpos := sm_mpos s;
                                    sm_matched := true; sm_exhaust := true |}
      end
  | PCompare =>
      match sm_lk s, sm_rk s with
      | Some l, Some r =>
          match cmp_cell (fst l) (fst r) with
          | Lt =>
              let old := lo && negb (sm_matched s) in
              match sm_ls s with
              | [] => if old then Emit (null_row l) {| sm_pc := PEntry; sm_lk := None; sm_ls := []; sm_rk := sm_rk s; sm_rs := sm_rs s;
                                                       sm_nrk := sm_nrk s; sm_buf := sm_buf s; sm_mpos := sm_mpos s;
                                                       sm_matched := false; sm_exhaust := true |}
                      else Stop
              | l' :: ls' =>
                  let s' := {| sm_pc := if old then PEntry else PCompare; sm_lk := Some l'; sm_ls := ls'; sm_rk := sm_rk s;
                               sm_rs := sm_rs s; sm_nrk := sm_nrk s; sm_buf := sm_buf s; sm_mpos := sm_mpos s;
                               sm_matched := false; sm_exhaust := sm_exhaust s |} in
                  if old then Emit (null_row l) s' else Tau s'
              end
          | Eq => Tau (sm_fill l s)
          | Gt =>
              match sm_nrk s with
              | Some x => Tau {| sm_pc := PCompare; sm_lk := sm_lk s; sm_ls := sm_ls s; sm_rk := Some x; sm_rs := sm_rs s;
                                 sm_nrk := None; sm_buf := sm_buf s; sm_mpos := sm_mpos s;
                                 sm_matched := sm_matched s; sm_exhaust := sm_exhaust s |}
              | None =>
                  match sm_rs s with
                  | [] => if lo then Tau {| sm_pc := PExhaust; sm_lk := sm_lk s; sm_ls := sm_ls s; sm_rk := None; sm_rs := [];
                                            sm_nrk := None; sm_buf := sm_buf s; sm_mpos := sm_mpos s;
                                            sm_matched := sm_matched s; sm_exhaust := true |}
                          else Stop
                  | r' :: rs' => Tau {| sm_pc := PCompare; sm_lk := sm_lk s; sm_ls := sm_ls s; sm_rk := Some r'; sm_rs := rs';
                                        sm_nrk := None; sm_buf := sm_buf s; sm_mpos := sm_mpos s;
                                        sm_matched := sm_matched s; sm_exhaust := sm_exhaust s |}
                  end
              end
          end
      | _, _ => Stop
      end
  | PMatch =>
      match sm_lk s with
      | None => Stop
      | Some l =>
          let cand (x : cell * row) :=
            let ok := jf l x in
            let s' := {| sm_pc := if ok then PEntry else PMatch; sm_lk := sm_lk s; sm_ls := sm_ls s; sm_rk := sm_rk s;
                         sm_rs := sm_rs s; sm_nrk := sm_nrk s; sm_buf := sm_buf s; sm_mpos := S (sm_mpos s);
                         sm_matched := sm_matched s || ok; sm_exhaust := sm_exhaust s |} in
            if ok then Emit (pair_row l x) s' else Tau s' in
          match nth_error (sm_buf s) (sm_mpos s) with
          | Some x => cand x                        (* matchPos < len(lookaheadBuf) *)
          | None =>
              if Nat.eqb (sm_mpos s) (length (sm_buf s))
              then match sm_rk s with Some r => cand r | None => Stop end
              else                                   (* matches for leftKey exhausted *)
                match sm_ls s with
                | [] => if lo && negb (sm_matched s)
                        then Emit (null_row l) {| sm_pc := PEntry; sm_lk := None; sm_ls := []; sm_rk := sm_rk s; sm_rs := sm_rs s;
                                                  sm_nrk := sm_nrk s; sm_buf := sm_buf s; sm_mpos := O;
                                                  sm_matched := sm_matched s; sm_exhaust := true |}
                        else Stop
                | l' :: ls' =>
                    let same := cmp_is_eq (cmp_cell (fst l) (fst l')) in
                    (* new left key: drop the buffer and advance the right side *)
                    let adv : option (option (cell * row) * side * option (cell * row) * bool) :=
                      if same then Some (sm_rk s, sm_rs s, sm_nrk s, sm_exhaust s)
                      else match sm_nrk s with
                           | Some x => Some (Some x, sm_rs s, None, sm_exhaust s)
                           | None => match sm_rs s with
                                     | [] => if lo then Some (None, [], None, true) else None
                                     | r' :: rs' => Some (Some r', rs', None, sm_exhaust s)
                                     end
                           end in
                    match adv with
                    | None => Stop
                    | Some (rk', rs', nrk', ex') =>
                        let buf' := if same then sm_buf s else [] in
                        if lo && negb (sm_matched s)
                        then Emit (null_row l) {| sm_pc := PEntry; sm_lk := Some l'; sm_ls := ls'; sm_rk := rk'; sm_rs := rs';
                                                  sm_nrk := nrk'; sm_buf := buf'; sm_mpos := O;
                                                  sm_matched := sm_matched s; sm_exhaust := ex' |}
                        else Tau {| sm_pc := if same then PMatch else if ex' then PExhaust else PCompare;
                                    sm_lk := Some l'; sm_ls := ls'; sm_rk := rk'; sm_rs := rs'; sm_nrk := nrk'; sm_buf := buf';
                                    sm_mpos := O; sm_matched := false; sm_exhaust := ex' |}
                    end
                end
          end
      end
  end.

Definition sm_init (L R : side) : sm :=
  {| sm_pc := PEntry; sm_lk := None; sm_ls := L; sm_rk := None; sm_rs := R; sm_nrk := None; sm_buf := [];
     sm_mpos := O; sm_matched := false; sm_exhaust := false |}.

(* repeated calls of Next until EOF; None = out of fuel *)
Fixpoint sm_exec (fuel : nat) (lo : bool) (s : sm) : option (list (row * option row)) :=
  match fuel with
  | O => None
  | S fuel' =>
      match sm_step lo s with
      | Stop => Some []
      | Tau s' => sm_exec fuel' lo s'
      | Emit o s' => option_map (cons o) (sm_exec fuel' lo s')
      end
  end.

Definition merge_join_sm (fuel : nat) (lo : bool) (L R : side) : option (list (row * option row)) :=
  sm_exec fuel lo (sm_init L R).

(* covLaxSecondaryLookupGen.New for a one-column prefix: a NULL key gives the empty iterator; otherwise the key
   range [k, k+1) when the increment does not overflow, else the prefix range (closedRange k k, filtered by Matches) *)
Definition lookup (k : cell) (R : side) : side :=
  match k with
  | None => []
  | Some v =>
      if v <? incr32 v
      then slice (first_idx (fun r => match cmp_cell (Some v) (fst r) with Gt => false | _ => true end) R)
                 (first_idx (fun r => match cmp_cell (Some (incr32 v)) (fst r) with Gt => false | _ => true end) R) R
      else filter (fun r => cmp_is_eq (cmp_cell (fst r) (Some v)))
                  (slice (first_idx (fun r => match cmp_cell (fst r) (Some v) with Lt => false | _ => true end) R)
                         (first_idx (fun r => match cmp_cell (fst r) (Some v) with Gt => true | _ => false end) R) R)
  end.

(* lookupJoinKvIter.Next: for every source row in order, the destination rows of its key, join filter re-checked,
   LEFT JOIN emits the null-extended row when nothing was returned for the source row *)
Definition lookup_join (left_outer : bool) (L R : side) : list (row * option row) :=
  flat_map (fun l => emit left_outer l (filter (jf l) (lookup (fst l) R))) L.

(* ------------------------------------------------------------------ *)
(* (c) newCountAggregationKvIter / countAggKvIter: COUNT( * ) / COUNT(literal) counts every tuple; COUNT(col) skips the
   tuples whose field |idx| is NULL, where idx is the column's position among the key columns (key reference) or among
   the non-key columns.  Keyless schemas are declined (schema.IsKeyless(sch) => (nil, false, nil), repair d707d55: their
   value tuple is (cardinality, columns...) and one stored entry stands for cardinality rows), so the Builder falls back
   to the row executor. *)
Definition count_fast_path (keyless : bool) (col : option nat) (rows : list row) : option Z :=
  if keyless then None
  else Some match col with
            | None => Z.of_nat (length rows)
            | Some c => Z.of_nat (length (filter (fun r => negb (is_none (nth c r None))) rows))
            end.

(* the row executor's COUNT over the table scan; |rows| lists a keyless table's rows with their multiplicities, as
   the keyless row iterator emits them *)
Definition count_rows (col : option nat) (rows : list row) : Z :=
  match col with
  | None => Z.of_nat (length rows)
  | Some c => Z.of_nat (length (filter (fun r => negb (is_none (nth c r None))) rows))
  end.

(* kvexec.Builder.Build for GroupBy(COUNT): the fast path when it applies, else the row executor *)
Definition count_answer (keyless : bool) (col : option nat) (rows : list row) : Z :=
  match count_fast_path keyless col rows with Some n => n | None => count_rows col rows end.
