(* C26 — correspondence.  Input: the table contents (current and at the commit), explicit index ranges and
   SELECTs of the shapes the model covers.  Observation: what dolt built / scanned / returned and whether the
   reference engine agreed.  The oracle is the property on dolt's observation: every range scan returns exactly the
   stored keys inside the range, every query returns the declarative answer computed here from the data, and the
   reference engine returned the same rows. *)
From Coq Require Import ZArith NArith List Bool.
From Dolt Require Import C26.Model C26.Spec.
Import ListNotations.
Local Open Scope Z_scope.

(* ---- helpers ---- *)
Definition cell_eqb (a b : cell) : bool := cmp_is_eq (cmp_cell a b).
Fixpoint key_eqb (a b : key) : bool :=
  match a, b with
  | [], [] => true
  | x :: a', y :: b' => cell_eqb x y && key_eqb a' b'
  | _, _ => false
  end.
Fixpoint keys_eqb (a b : list key) : bool :=
  match a, b with
  | [], [] => true
  | x :: a', y :: b' => key_eqb x y && keys_eqb a' b'
  | _, _ => false
  end.

Fixpoint insert_key (x : key) (l : list key) : list key :=
  match l with
  | [] => [x]
  | y :: l' => if key_leb x y then x :: l else y :: insert_key x l'
  end.
Definition sort_keys (l : list key) : list key := fold_right insert_key [] l.

Fixpoint sorted_keysb (l : list key) : bool :=
  match l with
  | [] => true
  | x :: l' => forallb (key_leb x) l' && sorted_keysb l'
  end.

Definition project (cols : list nat) (r : row) : key := map (fun c => nth c r None) cols.

(* rows compared as multisets (different widths never compare equal) *)
Definition rows_same (ordered : bool) (a b : list row) : bool :=
  if ordered then keys_eqb a b else keys_eqb (sort_keys a) (sort_keys b).

(* ---- ranges ---- *)
Record rcase := { rc_tbl : nat; rc_cols : list nat; rc_nullable : list bool; rc_encs : list (Z * Z); rc_rs : list colrange }.
Record robs := { ro_n : N; ro_fields : list field; ro_tup : key; ro_contig : bool; ro_skip : bool;
                 ro_all : list key; ro_visit : list key }.

Definition bound_eqb (a b : bound) : bool :=
  cell_eqb (b_val a) (b_val b) && Bool.eqb (b_bind a) (b_bind b) && Bool.eqb (b_incl a) (b_incl b).
Definition field_eqb (a b : field) : bool :=
  bound_eqb (f_lo a) (f_lo b) && bound_eqb (f_hi a) (f_hi b) && Bool.eqb (f_eq a) (f_eq b).
Fixpoint fields_eqb (a b : list field) : bool :=
  match a, b with
  | [], [] => true
  | x :: a', y :: b' => field_eqb x y && fields_eqb a' b'
  | _, _ => false
  end.

Definition robs_eqb (a b : robs) : bool :=
  (ro_n a =? ro_n b)%N && fields_eqb (ro_fields a) (ro_fields b) && key_eqb (ro_tup a) (ro_tup b)
  && Bool.eqb (ro_contig a) (ro_contig b) && Bool.eqb (ro_skip a) (ro_skip b)
  && keys_eqb (ro_all a) (ro_all b) && keys_eqb (ro_visit a) (ro_visit b).

Definition index_keys (cols : list nat) (rows : list row) : list key := sort_keys (map (project cols) rows).

Definition model_range (tables : list (list row)) (c : rcase) : robs :=
  let keys := index_keys (rc_cols c) (nth (rc_tbl c) tables []) in
  match build_range (length (rc_cols c)) (rc_rs c) with
  | None => {| ro_n := 0; ro_fields := []; ro_tup := []; ro_contig := false; ro_skip := false;
               ro_all := keys; ro_visit := [] |}
  | Some r => {| ro_n := 1; ro_fields := r_fields r; ro_tup := r_tup r; ro_contig := r_contig r; ro_skip := r_skip r;
                 ro_all := keys; ro_visit := iter_range (rc_nullable c) (rc_encs c) keys r |}
  end.

(* the property for one range: the stored index is the sorted projection of the table, and the scan returned
   exactly the stored keys that lie inside the range, in key order *)
Definition range_ok (tables : list (list row)) (c : rcase) (o : robs) : bool :=
  ((ro_n o =? 0)%N || (ro_n o =? 1)%N)
  && keys_eqb (ro_all o) (index_keys (rc_cols c) (nth (rc_tbl c) tables []))
  && keys_eqb (ro_visit o) (filter (sat (rc_rs c)) (ro_all o)).

(* ---- queries ---- *)
Inductive query :=
| QSel (tbl : nat) (snap : bool) (p : pred) (ordered : bool) (ix : option (list nat * list bool))
       (proj : option (list nat)) (distinct : bool) (limit : option nat)
       (* SELECT * FROM tbl [AS OF commit] WHERE p [ORDER BY pk]; ix = key columns / nullability of the index the
          model evaluates the predicate through, when the predicate has the shape of an index lookup *)
| QGroup (tbl : nat) (snap : bool) (col : nat)       (* SELECT col, COUNT( * ) FROM tbl GROUP BY col *)
| QCountP (tbl : nat) (snap : bool) (p : pred)       (* SELECT COUNT( * ) FROM tbl WHERE p  (p handled by an index lookup) *)
| QCount (tbl : nat) (snap : bool) (keyless : bool) (col : option nat)
| QJoin (plan : N) (left_outer : bool) (snap : bool) (lt rt : nat) (lc rc : nat) (rwidth : nat)
        (ord : option (bool * list nat * list nat)) (lp rp : option pred).
       (* SELECT l.*, r.* FROM lt l [LEFT] JOIN rt r ON l.lc = r.rc; plan: 0 merge join, 1 lookup join, else other.
          ord (merge joins): whether the plan puts r on the iterator's left side, and the key columns (indexed columns
          then primary key) of the indexes the plan reads the iterator's left and right side from; when given, the
          model's row ORDER is compared with dolt's.  lp / rp: WHERE restrictions on l's / r's columns (rp only for inner
          joins), which dolt turns into static multi-range lookups of the join's inputs *)

Record qobs := { q_rows : list row; q_ref : bool; q_err : bool }.

Record input := { i_cur : list (list row); i_snap : list (list row); i_ranges : list rcase; i_queries : list query }.
Record obs := { o_ranges : list robs; o_queries : list qobs }.
Definition case := (input * obs)%type.

Definition full : colrange := (BelowNull, AboveAll).
Fixpoint dedup (l : list Z) : list Z :=
  match l with [] => [] | x :: l' => if existsb (Z.eqb x) l' then dedup l' else x :: dedup l' end.

(* the column expressions a one-column predicate denotes (what the engine's index builder hands to dolt) *)
Definition atom (p : pred) : option (nat * list colrange) :=
  match p with
  | PCmp c OLt k => Some (c, [(AboveNull, Below k)])
  | PCmp c OLe k => Some (c, [(AboveNull, Above k)])
  | PCmp c OEq k => Some (c, [(Below k, Above k)])
  | PCmp c OGe k => Some (c, [(Below k, AboveAll)])
  | PCmp c OGt k => Some (c, [(Above k, AboveAll)])
  | PCmp c ONe k => Some (c, [(AboveNull, Below k); (Above k, AboveAll)])
  | PBetween c lo hi => Some (c, [(Below lo, Above hi)])
  | PIn c ks => Some (c, map (fun k => (Below k, Above k)) (dedup ks))
  | PIsNull c => Some (c, [(BelowNull, AboveNull)])
  | PNotNull c => Some (c, [(AboveNull, AboveAll)])
  | _ => None
  end.

Definition pred_ranges (icols : list nat) (p : pred) : option (list (list colrange)) :=
  match p, icols with
  | PAnd p1 p2, c1 :: c2 :: _ =>
      match atom p1, atom p2 with
      | Some (a, r1), Some (b, r2) =>
          if Nat.eqb a c1 && Nat.eqb b c2 then Some (flat_map (fun x => map (fun y => [x; y]) r2) r1) else None
      | _, _ => None
      end
  | _, c1 :: _ =>
      match atom p with
      | Some (a, r1) => if Nat.eqb a c1 then Some (map (fun x => [x]) r1) else None
      | None => None
      end
  | _, _ => None
  end.

Definition via_index (cols : list nat) (nullable : list bool) (rss : list (list colrange)) (rows : list row) : list row :=
  let keys := index_keys cols rows in
  let visited := flat_map (fun rs => match build_range (length cols) rs with
                                      | Some r => iter_range nullable [] keys r
                                      | None => [] end) rss in
  filter (fun r => existsb (key_eqb (project cols r)) visited) rows.

Definition mk_side (c : nat) (rows : list row) : side := map (fun r => (nth c r None, r)) rows.
Fixpoint insert_side (x : cell * row) (l : side) : side :=
  match l with
  | [] => [x]
  | y :: l' => match cmp_cell (fst x) (fst y) with Gt => y :: insert_side x l' | _ => x :: l end
  end.
Definition sort_side (s : side) : side := fold_right insert_side [] s.

Fixpoint insert_by (cols : list nat) (x : row) (l : list row) : list row :=
  match l with
  | [] => [x]
  | y :: l' => if key_leb (project cols x) (project cols y) then x :: l else y :: insert_by cols x l'
  end.
Definition sort_rows_by (cols : list nat) (rows : list row) : list row := fold_right (insert_by cols) [] rows.

(* the state machine's answer; the fuel is ample (Proofs: the result does not depend on it) *)
Definition run_sm (lo : bool) (L R : side) : list (row * option row) :=
  match merge_join_sm (3 * (length L + 2) * (length R + 4)) lo L R with Some o => o | None => [] end.

Definition flip_rows (l : list (row * option row)) : list row :=
  map (fun p => match snd p with Some x => x ++ fst p | None => fst p end) l.

Definition flat_rows (rwidth : nat) (l : list (row * option row)) : list row :=
  map (fun p => fst p ++ match snd p with Some r => r | None => repeat None rwidth end) l.

Definition tables_of (i : input) (snap : bool) := if snap then i_snap i else i_cur i.
Definition restrict (p : option pred) (rows : list row) : list row := match p with Some q => select q rows | None => rows end.

Definition model_query (i : input) (q : query) : list row :=
  match q with
  | QSel tbl snap p _ ix proj dis lim =>
      let rows := nth tbl (tables_of i snap) [] in
      shape proj dis lim
        match ix with
        | Some (cols, nullable) =>
            match pred_ranges cols p with
            | Some rss => via_index cols nullable rss rows
            | None => select p rows
            end
        | None => select p rows
        end
  | QGroup tbl snap c => group_count c (nth tbl (tables_of i snap) [])
  | QCount tbl snap kl col => [[Some (count_answer kl col (nth tbl (tables_of i snap) []))]]
  | QCountP tbl snap p => [[Some (Z.of_nat (length (select p (nth tbl (tables_of i snap) []))))]]
  | QJoin plan lo snap lt rt lc rc rw ord lp rp =>
      let lrows := restrict lp (nth lt (tables_of i snap) []) in
      let rrows := restrict rp (nth rt (tables_of i snap) []) in
      match ord with
      | Some (swap, c1, c2) =>
          if swap then flip_rows (run_sm lo (mk_side rc (sort_rows_by c1 rrows)) (mk_side lc (sort_rows_by c2 lrows)))
          else flat_rows rw (run_sm lo (mk_side lc (sort_rows_by c1 lrows)) (mk_side rc (sort_rows_by c2 rrows)))
      | None =>
          let L := sort_side (mk_side lc lrows) in
          let R := sort_side (mk_side rc rrows) in
          flat_rows rw (if (plan =? 0)%N then run_sm lo L R
                        else if (plan =? 1)%N then lookup_join lo L R
                        else nl_join lo L R)
      end
  end.

Definition spec_query (i : input) (q : query) : list row :=
  match q with
  | QSel tbl snap p _ _ proj dis lim => shape proj dis lim (select p (nth tbl (tables_of i snap) []))
  | QGroup tbl snap c => group_count c (nth tbl (tables_of i snap) [])
  | QCount tbl snap _ col => [[Some (count_spec col (nth tbl (tables_of i snap) []))]]
  | QCountP tbl snap p => [[Some (Z.of_nat (length (select p (nth tbl (tables_of i snap) []))))]]
  | QJoin _ lo snap lt rt lc rc rw _ lp rp =>
      flat_rows rw (nl_join lo (mk_side lc (restrict lp (nth lt (tables_of i snap) [])))
                              (mk_side rc (restrict rp (nth rt (tables_of i snap) []))))
  end.

Definition q_ordered (q : query) : bool := match q with QSel _ _ _ o _ _ _ _ => o | _ => false end.
(* order compared between model and dolt (not part of the property: a join without ORDER BY promises no order) *)
Definition q_model_ordered (q : query) : bool :=
  match q with QSel _ _ _ o _ _ _ _ => o | QJoin _ _ _ _ _ _ _ _ (Some _) _ _ => true | _ => false end.

Definition model_obs (i : input) : obs :=
  {| o_ranges := map (model_range (i_cur i)) (i_ranges i);
     o_queries := map (fun q => {| q_rows := model_query i q; q_ref := true; q_err := false |}) (i_queries i) |}.

Fixpoint all2 {A B} (f : A -> B -> bool) (a : list A) (b : list B) : bool :=
  match a, b with
  | [], [] => true
  | x :: a', y :: b' => f x y && all2 f a' b'
  | _, _ => false
  end.

Definition obs_eqb_in (i : input) (a b : obs) : bool :=
  all2 robs_eqb (o_ranges a) (o_ranges b)
  && all2 (fun q ab => rows_same (q_model_ordered q) (q_rows (fst ab)) (q_rows (snd ab))
                       && Bool.eqb (q_err (fst ab)) (q_err (snd ab)))
          (i_queries i) (combine (o_queries a) (o_queries b))
  && Nat.eqb (length (o_queries a)) (length (o_queries b)).

Definition oracle (i : input) (o : obs) : bool :=
  all2 (range_ok (i_cur i)) (i_ranges i) (o_ranges o)
  && all2 (fun q qo => negb (q_err qo) && q_ref qo
                       && rows_same (q_ordered q) (q_rows qo) (spec_query i q))
          (i_queries i) (o_queries o).

Definition check_case (c : case) : N :=
  ((if obs_eqb_in (fst c) (model_obs (fst c)) (snd c) then 0 else 1)
   + (if oracle (fst c) (snd c) then 0 else 2))%N.
