(* C26 — the merge-join iterator as a state machine (Model.sm_step, one step = one loop iteration of
   mergeJoinKvIter.Next) computes, on every left input and every key-sorted right input, exactly the row sequence of
   the staged formulation Model.merge_join — including the LEFT JOIN defect (the staged version's "lost" rows are the
   state machine's second fillMatchBuf).  Hence every theorem about merge_join is a theorem about the state machine. *)
From Coq Require Import ZArith List Bool Sorted Permutation Lia.
From Dolt Require Import C26.Model C26.Spec C26.Proofs.
Import ListNotations.
Local Open Scope Z_scope.

Definition out := (row * option row)%type.

  Inductive runs (lo : bool) : sm -> list out -> Prop :=
  | runs_stop : forall s, sm_step lo s = Stop -> runs lo s []
  | runs_tau : forall s s' o, sm_step lo s = Tau s' -> runs lo s' o -> runs lo s o
  | runs_emit : forall s s' x o, sm_step lo s = Emit x s' -> runs lo s' o -> runs lo s (x :: o).

  Inductive reach (lo : bool) : sm -> list out -> sm -> Prop :=
  | reach_refl : forall s, reach lo s [] s
  | reach_tau : forall s s1 o s', sm_step lo s = Tau s1 -> reach lo s1 o s' -> reach lo s o s'
  | reach_emit : forall s s1 x o s', sm_step lo s = Emit x s1 -> reach lo s1 o s' -> reach lo s (x :: o) s'.

  Lemma reach_runs : forall lo, forall s o1 s', reach lo s o1 s' -> forall o2, runs lo s' o2 -> runs lo s (o1 ++ o2).
  Proof.
    induction 1 as [s | s s1 o s' Hs _ IH | s s1 x o s' Hs _ IH]; intros o2 H2; cbn [app].
    - exact H2.
    - eapply runs_tau; [exact Hs | apply IH; exact H2].
    - eapply runs_emit; [exact Hs | apply IH; exact H2].
  Qed.

  Lemma reach_trans : forall lo, forall s o1 s1, reach lo s o1 s1 -> forall o2 s2, reach lo s1 o2 s2 -> reach lo s (o1 ++ o2) s2.
  Proof.
    induction 1 as [s | s s1 o s' Hs _ IH | s s1 x o s' Hs _ IH]; intros o2 s2 H2; cbn [app].
    - exact H2.
    - eapply reach_tau; [exact Hs | apply IH; exact H2].
    - eapply reach_emit; [exact Hs | apply IH; exact H2].
  Qed.

  Lemma runs_det : forall lo, forall s o1, runs lo s o1 -> forall o2, runs lo s o2 -> o1 = o2.
  Proof.
    induction 1 as [s Hs | s s' o Hs _ IH | s s' x o Hs _ IH]; intros o2 H2; inversion H2; subst; try congruence.
    - apply IH. congruence.
    - assert (E : Emit x s' = Emit x0 s'0) by congruence. injection E as <- <-. f_equal. apply IH. assumption.
  Qed.

  Lemma runs_exec : forall lo, forall s o, runs lo s o -> exists n, sm_exec n lo s = Some o.
  Proof.
    induction 1 as [s Hs | s s' o Hs _ [n IH] | s s' x o Hs _ [n IH]].
    - exists 1%nat. cbn [sm_exec]. rewrite Hs. reflexivity.
    - exists (S n). cbn [sm_exec]. rewrite Hs. exact IH.
    - exists (S n). cbn [sm_exec]. rewrite Hs, IH. reflexivity.
  Qed.

  Lemma exec_runs : forall lo, forall n s o, sm_exec n lo s = Some o -> runs lo s o.
  Proof.
    intros lo. induction n as [|n IH]; intros s o H; [discriminate|]. cbn [sm_exec] in H.
    destruct (sm_step lo s) as [|s'|x s'] eqn:Hs.
    - injection H as <-. apply runs_stop. exact Hs.
    - eapply runs_tau; [exact Hs | apply IH; exact H].
    - destruct (sm_exec n lo s') as [o'|] eqn:He; [|discriminate]. injection H as <-.
      eapply runs_emit; [exact Hs | apply IH; exact He].
  Qed.

  (* ---- configurations ---- *)
  Definition Ccfg (l : cell * row) ls (r : cell * row) rs : sm :=
    Build_sm PCompare (Some l) ls (Some r) rs None [] O false false.
  Definition Mcfg (l : cell * row) ls (r : cell * row) (E b : side) (pos : nat) (m : bool) : sm :=
    Build_sm PMatch (Some l) ls (Some r) (tl E) (hd_error E) b pos m false.

  Definition eqk (l x : cell * row) : bool := cmp_is_eq (cmp_cell (fst l) (fst x)).

  Lemma emit_null : forall L : side, flat_map (fun l => emit true l []) L = map null_row L.
  Proof. induction L as [|l L IH]; [reflexivity|]. cbn [flat_map map]. rewrite IH. reflexivity. Qed.

  Lemma mj_nil_l : forall lo, forall f R, merge_join f lo [] R = [].
  Proof. intros lo [|f] R; reflexivity. Qed.

  (* exhaustLeftReturn drains the left side *)
  Lemma exhaust_rest : forall lo, forall ls l rk rs nrk buf pos,
    runs lo (Build_sm PEntry (Some l) ls rk rs nrk buf pos true true) (map null_row ls).
  Proof.
    intros lo. induction ls as [|l' ls IH]; intros l rk rs nrk buf pos.
    - eapply runs_tau; [reflexivity|]. apply runs_stop. reflexivity.
    - eapply runs_tau; [reflexivity|]. cbn [map]. eapply runs_emit; [reflexivity|]. apply IH.
  Qed.

  Lemma exhaust_all : forall lo, forall ls l rk rs nrk buf pos,
    runs lo (Build_sm PExhaust (Some l) ls rk rs nrk buf pos false true) (null_row l :: map null_row ls).
  Proof. intros. eapply runs_emit; [reflexivity|]. apply exhaust_rest. Qed.

  Lemma exhaust_all_entry : forall lo, forall ls l rk rs nrk buf pos,
    runs lo (Build_sm PEntry (Some l) ls rk rs nrk buf pos false true) (null_row l :: map null_row ls).
  Proof. intros. eapply runs_tau; [reflexivity|]. apply exhaust_all. Qed.

  (* ---- the match stage scans the lookahead buffer, then rightKey ---- *)
  Lemma nth_error_mid : forall {A} (pre : list A) x suf, nth_error (pre ++ x :: suf) (length pre) = Some x.
  Proof. intros A pre x suf. rewrite nth_error_app2 by lia. rewrite Nat.sub_diag. reflexivity. Qed.

  Lemma scan_buf : forall lo, forall l ls r E suf pre m,
    reach lo (Mcfg l ls r E (pre ++ suf) (length pre) m)
          (map (pair_row l) (filter (jf l) suf))
          (Mcfg l ls r E (pre ++ suf) (length pre + length suf) (m || existsb (jf l) suf)).
  Proof.
    intros lo l ls r E. induction suf as [|x suf IH]; intros pre m.
    - cbn [filter map existsb length]. rewrite Nat.add_0_r, orb_false_r. apply reach_refl.
    - cbn [filter existsb length].
      replace (pre ++ x :: suf) with ((pre ++ [x]) ++ suf) by (rewrite <- app_assoc; reflexivity).
      replace (length pre + S (length suf))%nat with (length (pre ++ [x]) + length suf)%nat by (rewrite app_length; cbn; lia).
      assert (Hn : nth_error ((pre ++ [x]) ++ suf) (length pre) = Some x).
      { rewrite <- app_assoc. cbn [app]. apply nth_error_mid. }
      destruct (jf l x) eqn:Hj.
      + cbn [map]. eapply reach_emit.
        { unfold sm_step, Mcfg. cbn [sm_pc sm_lk sm_buf sm_mpos]. rewrite Hn, Hj. reflexivity. }
        eapply reach_tau.
        { unfold sm_step. cbn [sm_pc sm_lk sm_exhaust sm_mpos sm_buf]. rewrite orb_true_r. reflexivity. }
        cbn [sm_ls sm_rk sm_rs sm_nrk sm_buf sm_mpos sm_matched sm_exhaust].
        specialize (IH (pre ++ [x]) (m || true)).
        replace (length (pre ++ [x])) with (S (length pre)) in IH by (rewrite app_length; cbn; lia).
        replace (m || (true || existsb (jf l) suf)) with (m || true || existsb (jf l) suf) by (rewrite orb_assoc; reflexivity).
        replace (length (pre ++ [x]) + length suf)%nat with (S (length pre) + length suf)%nat by (rewrite app_length; cbn; lia).
        exact IH.
      + eapply reach_tau.
        { unfold sm_step, Mcfg. cbn [sm_pc sm_lk sm_buf sm_mpos]. rewrite Hn, Hj. reflexivity. }
        cbn [sm_ls sm_rk sm_rs sm_nrk sm_buf sm_mpos sm_matched sm_exhaust].
        specialize (IH (pre ++ [x]) (m || false)).
        replace (length (pre ++ [x])) with (S (length pre)) in IH by (rewrite app_length; cbn; lia).
        replace (m || (false || existsb (jf l) suf)) with (m || false || existsb (jf l) suf) by (rewrite orb_assoc; reflexivity).
        replace (length (pre ++ [x]) + length suf)%nat with (S (length pre) + length suf)%nat by (rewrite app_length; cbn; lia).
        exact IH.
  Qed.

  Lemma nth_error_len : forall {A} (b : list A), nth_error b (length b) = None.
  Proof. intros A b. apply nth_error_None. lia. Qed.

  Lemma scan_all : forall lo, forall l ls r E b,
    reach lo (Mcfg l ls r E b O false)
          (map (pair_row l) (filter (jf l) (b ++ [r])))
          (Mcfg l ls r E b (S (length b)) (existsb (jf l) (b ++ [r]))).
  Proof.
    intros lo l ls r E b.
    pose proof (scan_buf lo l ls r E b [] false) as H1. cbn [app length Nat.add orb] in H1.
    rewrite filter_app, map_app, existsb_app. eapply reach_trans; [exact H1|].
    cbn [filter existsb]. rewrite orb_false_r.
    destruct (jf l r) eqn:Hj.
    - cbn [map]. eapply reach_emit.
      { unfold sm_step, Mcfg. cbn [sm_pc sm_lk sm_buf sm_mpos sm_rk]. rewrite nth_error_len, Nat.eqb_refl, Hj. reflexivity. }
      eapply reach_tau.
      { unfold sm_step. cbn [sm_pc sm_lk sm_exhaust sm_mpos sm_buf]. rewrite orb_true_r. reflexivity. }
      cbn [sm_ls sm_rk sm_rs sm_nrk sm_buf sm_mpos sm_matched sm_exhaust]. apply reach_refl.
    - cbn [map]. eapply reach_tau.
      { unfold sm_step, Mcfg. cbn [sm_pc sm_lk sm_buf sm_mpos sm_rk]. rewrite nth_error_len, Nat.eqb_refl, Hj. reflexivity. }
      cbn [sm_ls sm_rk sm_rs sm_nrk sm_buf sm_mpos sm_matched sm_exhaust]. apply reach_refl.
  Qed.

  Lemma existsb_filter_nil : forall {A} (f : A -> bool) l, existsb f l = match filter f l with [] => false | _ => true end.
  Proof. intros A f l; induction l as [|x l IH]; [reflexivity|]. cbn [existsb filter]. destruct (f x); [reflexivity | exact IH]. Qed.

  Lemma jf_same_key : forall (l l' : cell * row) x, @fst cell row l' = fst l -> jf l' x = jf l x.
  Proof. intros l l' x H. unfold jf. rewrite H. reflexivity. Qed.

  Lemma span_none : forall {A} (p : A -> bool) l, Forall (fun x => p x = false) l -> span p l = ([], l).
  Proof. intros A p [|x l] H; [reflexivity|]. inversion H; subst. cbn [span]. rewrite H2. reflexivity. Qed.

  (* the step taken when the matches of the current left row are exhausted *)
  Lemma else_step : forall lo, forall l ls r E b m,
    sm_step lo (Mcfg l ls r E b (S (length b)) m) =
    match ls with
    | [] => if lo && negb m
            then Emit (null_row l) (Build_sm PEntry None [] (Some r) (tl E) (hd_error E) b O m true)
            else Stop
    | l' :: ls' =>
        if eqk l l'
        then if lo && negb m
             then Emit (null_row l) (Build_sm PEntry (Some l') ls' (Some r) (tl E) (hd_error E) b O m false)
             else Tau (Mcfg l' ls' r E b O false)
        else match E with
             | x :: E' => if lo && negb m
                          then Emit (null_row l) (Build_sm PEntry (Some l') ls' (Some x) E' None [] O m false)
                          else Tau (Ccfg l' ls' x E')
             | [] => if lo
                     then if negb m
                          then Emit (null_row l) (Build_sm PEntry (Some l') ls' None [] None [] O m true)
                          else Tau (Build_sm PExhaust (Some l') ls' None [] None [] O false true)
                     else Stop
             end
    end.
  Proof.
    intros lo l ls r E b m. unfold sm_step, Mcfg, Ccfg, eqk. cbn [sm_pc sm_lk sm_buf sm_mpos sm_ls].
    assert (Hn : nth_error b (S (length b)) = None) by (apply nth_error_None; lia). rewrite Hn.
    assert (He : Nat.eqb (S (length b)) (length b) = false) by (apply Nat.eqb_neq; lia). rewrite He.
    destruct ls as [|l' ls']; [reflexivity|].
    cbn [sm_rk sm_rs sm_nrk sm_exhaust sm_matched].
    destruct (cmp_is_eq (cmp_cell (fst l) (fst l'))).
    - destruct (lo && negb m); reflexivity.
    - destruct E as [|x E']; cbn [hd_error tl].
      + destruct lo; cbn [andb]; [|reflexivity]. destruct (negb m); reflexivity.
      + destruct (lo && negb m); reflexivity.
  Qed.

  Definition lost_of (lo : bool) (b : side) (l r : cell * row) (n : nat) : nat :=
    if lo && (match b with [] => true | _ => false end) && negb (jf l r) then n else O.

  (* one group of equal left keys *)
  Lemma group_runs :
    forall lo, forall f r b L'' grp l E,
      (1 <= f)%nat ->
      cmp_cell (fst l) (fst r) = Eq ->
      Forall (fun x : cell * row => @fst cell row x = fst l) grp ->
      match L'' with [] => True | y :: _ => eqk l y = false end ->
      Forall (fun x => eqk l x = false) E ->
      (forall k l'' ls'' x E'', L'' = l'' :: ls'' -> skipn k E = x :: E'' ->
         runs lo (Ccfg l'' ls'' x E'') (merge_join f lo (l'' :: ls'') (x :: E''))) ->
      runs lo (Mcfg l (grp ++ L'') r E b O false)
           (flat_map (fun l' => emit lo l' (filter (jf l') (b ++ [r]))) (l :: grp)
            ++ merge_join f lo L'' (skipn (lost_of lo b l r (length grp)) E)).
  Proof.
    intros lo f r b L''. induction grp as [|l2 grp IH]; intros l E Hf Hc Hgrp HL'' HE Hcont.
    - (* last row of the group *)
      cbn [app flat_map length]. rewrite app_nil_r.
      assert (Hl0 : lost_of lo b l r O = O) by (unfold lost_of; destruct (lo && _ && _); reflexivity).
      rewrite Hl0. cbn [skipn].
      set (ms := filter (jf l) (b ++ [r])).
      replace (emit lo l ms) with (map (pair_row l) ms ++ (if lo && negb (match ms with [] => false | _ => true end) then [null_row l] else [])).
      2:{ unfold emit. destruct ms; cbn [map app negb andb]; [destruct lo; reflexivity | rewrite andb_false_r, app_nil_r; reflexivity]. }
      rewrite <- app_assoc.
      eapply reach_runs; [apply scan_all|]. rewrite existsb_filter_nil. fold ms.
      pose proof (else_step lo l L'' r E b (match ms with [] => false | _ => true end)) as Hs.
      destruct (match ms with [] => false | _ => true end); cbn [negb] in *; rewrite ?andb_false_r, ?andb_true_r in *.
      + (* the row matched: no null-extended row *)
        cbn [app]. destruct L'' as [|l'' ls''].
        * rewrite mj_nil_l. apply runs_stop. exact Hs.
        * rewrite HL'' in Hs. destruct E as [|x E'].
          -- destruct lo.
             ++ assert (Hm : merge_join f true (l'' :: ls'') [] = null_row l'' :: map null_row ls'').
                { destruct f; [lia|]. cbn [merge_join]. rewrite emit_null. reflexivity. }
                rewrite Hm. eapply runs_tau; [exact Hs|]. apply exhaust_all.
             ++ assert (Hm : merge_join f false (l'' :: ls'') [] = []) by (destruct f; reflexivity).
                rewrite Hm. apply runs_stop. exact Hs.
          -- specialize (Hcont O l'' ls'' x E' eq_refl eq_refl). eapply runs_tau; [exact Hs|]. exact Hcont.
      + (* unmatched *)
        destruct L'' as [|l'' ls''].
        * rewrite mj_nil_l, app_nil_r. destruct lo.
          -- eapply runs_emit; [exact Hs|]. eapply runs_stop. reflexivity.
          -- apply runs_stop. exact Hs.
        * rewrite HL'' in Hs. destruct E as [|x E'].
          -- destruct lo.
             ++ assert (Hm : merge_join f true (l'' :: ls'') [] = null_row l'' :: map null_row ls'').
                { destruct f; [lia|]. cbn [merge_join]. rewrite emit_null. reflexivity. }
                rewrite Hm. cbn [app]. eapply runs_emit; [exact Hs|]. apply exhaust_all_entry.
             ++ assert (Hm : merge_join f false (l'' :: ls'') [] = []) by (destruct f; reflexivity).
                rewrite Hm. apply runs_stop. exact Hs.
          -- specialize (Hcont O l'' ls'' x E' eq_refl eq_refl). destruct lo.
             ++ cbn [app]. eapply runs_emit; [exact Hs|]. eapply runs_tau; [reflexivity|]. exact Hcont.
             ++ cbn [app]. eapply runs_tau; [exact Hs|]. exact Hcont.
    - (* a further row with the same key follows *)
      inversion Hgrp as [|l2' grp' Hk2 Hgrp']; subst.
      cbn [flat_map]. rewrite <- app_assoc.
      set (ms := filter (jf l) (b ++ [r])).
      replace (emit lo l ms) with (map (pair_row l) ms ++ (if lo && negb (match ms with [] => false | _ => true end) then [null_row l] else [])).
      2:{ unfold emit. destruct ms; cbn [map app negb andb]; [destruct lo; reflexivity | rewrite andb_false_r, app_nil_r; reflexivity]. }
      rewrite <- app_assoc.
      eapply reach_runs; [apply scan_all|]. rewrite existsb_filter_nil. fold ms.
      pose proof (else_step lo l ((l2 :: grp) ++ L'') r E b (match ms with [] => false | _ => true end)) as Hs.
      cbn [app] in Hs.
      assert (Hek : eqk l l2 = true) by (unfold eqk; rewrite Hk2, cmp_cell_refl; reflexivity).
      rewrite Hek in Hs.
      assert (Hc2 : cmp_cell (fst l2) (fst r) = Eq) by (rewrite Hk2; exact Hc).
      assert (Hgrp2 : Forall (fun x : cell * row => @fst cell row x = fst l2) grp).
      { rewrite Forall_forall in *. intros y Hy. rewrite Hk2. apply Hgrp'. exact Hy. }
      assert (HL2 : match L'' with [] => True | y :: _ => eqk l2 y = false end).
      { destruct L''; [exact Logic.I|]. unfold eqk in *. rewrite Hk2. exact HL''. }
      assert (Heq2 : forall y, eqk l2 y = eqk l y) by (intros y; unfold eqk; rewrite Hk2; reflexivity).
      assert (Hfm : flat_map (fun l' => emit lo l' (filter (jf l') (b ++ [r]))) (l2 :: grp) =
                    flat_map (fun l' => emit lo l' (filter (jf l') (b ++ [r]))) (l2 :: grp)) by reflexivity.
      destruct (lo && negb (match ms with [] => false | _ => true end)) eqn:Hnull.
      + (* the unmatched row is returned null-extended; Next is re-entered at the top *)
        cbn [app]. eapply runs_emit; [exact Hs|].
        apply andb_prop in Hnull. destruct Hnull as [Hlo Hms].
        assert (Hms0 : ms = []) by (destruct ms; [reflexivity | discriminate]).
        destruct b as [|b0 b'].
        * (* empty lookahead buffer: compare stage again, fillMatchBuf again *)
          eapply runs_tau; [reflexivity|].
          eapply runs_tau.
          { unfold sm_step. cbn [sm_pc sm_lk sm_rk]. rewrite Hc2. reflexivity. }
          unfold sm_fill. cbn [sm_rs sm_buf sm_lk sm_ls sm_rk sm_mpos sm_matched sm_exhaust app].
          assert (Htl : Forall (fun x => eqk l x = false) (tl E)) by (destruct E; [constructor | inversion HE; assumption]).
          rewrite (span_none (fun r' => cmp_is_eq (cmp_cell (fst l2) (fst r'))) (tl E)).
          2:{ rewrite Forall_forall in *. intros y Hy. specialize (Htl y Hy). rewrite <- Heq2 in Htl. exact Htl. }
          assert (Hjr : jf l r = false).
          { unfold ms in Hms0. cbn [app filter] in Hms0. destruct (jf l r); [discriminate | reflexivity]. }
          specialize (IH l2 (tl E) Hf Hc2 Hgrp2 HL2).
          assert (HE2 : Forall (fun x => eqk l2 x = false) (tl E)).
          { rewrite Forall_forall in *. intros y Hy. rewrite Heq2. apply Htl. exact Hy. }
          specialize (IH HE2).
          assert (Hcont2 : forall k l'' ls'' x E'', L'' = l'' :: ls'' -> skipn k (tl E) = x :: E'' ->
                     runs lo (Ccfg l'' ls'' x E'') (merge_join f lo (l'' :: ls'') (x :: E''))).
          { intros k l'' ls'' x E'' HL Hsk. apply (Hcont (S k) l'' ls'' x E'' HL). destruct E; [destruct k; discriminate | exact Hsk]. }
          specialize (IH Hcont2).
          assert (Hlost : skipn (lost_of lo [] l2 r (length grp)) (tl E) = skipn (lost_of lo [] l r (length (l2 :: grp))) E).
          { unfold lost_of. rewrite Hlo, (jf_same_key l l2 r Hk2), Hjr. cbn [andb negb length].
            destruct E; [destruct (length grp); reflexivity | reflexivity]. }
          rewrite <- Hlost. rewrite Hms0. exact IH.
        * (* non-empty buffer: back to the match stage *)
          rewrite Hms0. eapply runs_tau; [reflexivity|].
          specialize (IH l2 E Hf Hc2 Hgrp2 HL2).
          assert (HE2 : Forall (fun x => eqk l2 x = false) E).
          { rewrite Forall_forall in *. intros y Hy. rewrite Heq2. apply HE. exact Hy. }
          specialize (IH HE2 Hcont).
          assert (Hl1 : lost_of lo (b0 :: b') l2 r (length grp) = O) by (unfold lost_of; rewrite andb_false_r; reflexivity).
          assert (Hl2 : lost_of lo (b0 :: b') l r (length (l2 :: grp)) = O) by (unfold lost_of; rewrite andb_false_r; reflexivity).
          rewrite Hl1 in IH. rewrite Hl2. exact IH.
      + (* matched (or inner join): straight back to the match stage *)
        cbn [app]. eapply runs_tau; [exact Hs|].
        specialize (IH l2 E Hf Hc2 Hgrp2 HL2).
        assert (HE2 : Forall (fun x => eqk l2 x = false) E).
        { rewrite Forall_forall in *. intros y Hy. rewrite Heq2. apply HE. exact Hy. }
        specialize (IH HE2 Hcont).
        assert (Hl : lost_of lo b l2 r (length grp) = O /\ lost_of lo b l r (length (l2 :: grp)) = O).
        { unfold lost_of. rewrite (jf_same_key l l2 r Hk2). destruct lo; cbn [andb]; [|split; reflexivity].
          cbn [andb] in Hnull. destruct b as [|b0 b']; [|split; reflexivity].
          unfold ms in Hnull. cbn [app filter] in Hnull. destruct (jf l r); [split; reflexivity | discriminate]. }
        destruct Hl as [Hl1 Hl2]. rewrite Hl1 in IH. rewrite Hl2. exact IH.
  Qed.

  Lemma sorted_skipn : forall {A} (R : A -> A -> Prop) k l, StronglySorted R l -> StronglySorted R (skipn k l).
  Proof.
    intros A R k l H. rewrite <- (firstn_skipn k l) in H. destruct (sorted_app R _ _ H) as [H1 _]. exact H1.
  Qed.

  Lemma compare_runs :
    forall lo, forall f l ls r rs, side_sorted (r :: rs) -> (length (l :: ls) + length (r :: rs) < S f)%nat ->
      runs lo (Ccfg l ls r rs) (merge_join (S f) lo (l :: ls) (r :: rs)).
  Proof.
    intros lo. induction f as [|f IH]; intros l ls r rs HR Hlen; [cbn [length] in Hlen; lia|].
    cbn [merge_join].
    destruct (cmp_cell (fst l) (fst r)) eqn:Hc.
    - (* equal keys: fill the buffer, match the group *)
      destruct (span (fun r' => cmp_is_eq (cmp_cell (fst l) (fst r'))) rs) as [b E] eqn:HsR.
      destruct (span (fun l' => cmp_is_eq (cmp_cell (fst l) (fst l'))) ls) as [grp L''] eqn:HsL.
      eapply runs_tau.
      { unfold sm_step, Ccfg. cbn [sm_pc sm_lk sm_rk]. rewrite Hc. unfold sm_fill. cbn [sm_rs]. rewrite HsR. reflexivity. }
      cbn [sm_lk sm_ls sm_rk sm_buf sm_mpos sm_matched sm_exhaust app].
      destruct (span_spec _ _ _ _ HsR) as [ER _]. destruct (span_spec _ _ _ _ HsL) as [EL [_ HL3]]. subst rs ls.
      inversion HR as [|r0 R0 HR' HrR]; subst. rewrite Forall_forall in HrR. unfold sle in HrR.
      pose proof (cmp_cell_eq _ _ Hc) as Hk.
      assert (HgeR : forall x, In x (b ++ E) -> cmp_cell (fst l) (fst x) <> Gt) by (intros x Hx; rewrite Hk; apply HrR; exact Hx).
      pose proof (after_span_gt _ _ _ _ HR' HgeR HsR) as HEgt.
      pose proof (span_eq_keys _ _ _ _ HsL) as Hgrp.
      change (fun l' => emit lo l' (filter (jf l') (b ++ [r]))) with (fun l' => emit lo l' (filter (jf l') (b ++ [r]))).
      fold (lost_of lo b l r (length grp)).
      apply (group_runs lo (S f) r b L'' grp l E).
      + lia.
      + exact Hc.
      + rewrite Forall_forall. intros x Hx. apply Hgrp. exact Hx.
      + destruct L''; [exact Logic.I | exact HL3].
      + rewrite Forall_forall. intros x Hx. unfold eqk. rewrite (HEgt x Hx). reflexivity.
      + intros k l'' ls'' x E'' HL Hsk. apply IH.
        * rewrite <- Hsk. apply sorted_skipn. destruct (sorted_app _ _ _ HR') as [H1 _]. exact H1.
        * assert (length (x :: E'') <= length E)%nat by (rewrite <- Hsk, skipn_length; lia).
          subst L''. cbn [length] in *. rewrite !app_length in Hlen. cbn [length] in *. lia.
    - (* left key smaller *)
      unfold Ccfg. destruct ls as [|l' ls'].
      + rewrite ?mj_nil_l, app_nil_r. destruct lo.
        * cbn [emit]. eapply runs_emit.
          { unfold sm_step. cbn [sm_pc sm_lk sm_rk]. rewrite Hc. reflexivity. }
          apply runs_stop. reflexivity.
        * cbn [emit]. apply runs_stop. unfold sm_step. cbn [sm_pc sm_lk sm_rk]. rewrite Hc. reflexivity.
      + assert (Hn : runs lo (Ccfg l' ls' r rs) (merge_join (S f) lo (l' :: ls') (r :: rs))).
        { apply IH; [exact HR | cbn [length] in *; lia]. }
        destruct lo.
        * cbn [emit app]. eapply runs_emit.
          { unfold sm_step. cbn [sm_pc sm_lk sm_rk]. rewrite Hc. reflexivity. }
          cbn [andb negb sm_matched]. eapply runs_tau; [reflexivity|]. exact Hn.
        * cbn [emit app]. eapply runs_tau.
          { unfold sm_step. cbn [sm_pc sm_lk sm_rk]. rewrite Hc. reflexivity. }
          exact Hn.
    - (* right key smaller *)
      unfold Ccfg. destruct rs as [|r' rs'].
      + destruct lo.
        * eapply runs_tau.
          { unfold sm_step. cbn [sm_pc sm_lk sm_rk]. rewrite Hc. reflexivity. }
          cbn [merge_join]. rewrite emit_null. apply exhaust_all.
        * cbn [merge_join]. apply runs_stop. unfold sm_step. cbn [sm_pc sm_lk sm_rk]. rewrite Hc. reflexivity.
      + eapply runs_tau.
        { unfold sm_step. cbn [sm_pc sm_lk sm_rk]. rewrite Hc. reflexivity. }
        apply IH.
        * inversion HR; assumption.
        * cbn [length sm_ls] in *. lia.
  Qed.

  Theorem sm_runs_staged :
    forall lo L R, side_sorted R -> runs lo (sm_init L R) (merge_join (S (length L + length R)) lo L R).
  Proof.
    intros lo L R HR. destruct L as [|l ls]; [apply runs_stop; reflexivity|].
    destruct R as [|r rs].
    - cbn [merge_join]. destruct lo.
      + eapply runs_tau; [reflexivity|]. rewrite emit_null. apply exhaust_all.
      + apply runs_stop. reflexivity.
    - eapply runs_tau; [reflexivity|]. eapply runs_tau; [reflexivity|].
      apply (compare_runs lo (length (l :: ls) + length (r :: rs)) l ls r rs HR). lia.
  Qed.

(* the state machine terminates on every input and returns the staged result, whatever the fuel *)
Theorem merge_join_sm_refines :
  forall lo L R, side_sorted R ->
    (exists n, merge_join_sm n lo L R = Some (merge_join (S (length L + length R)) lo L R))
    /\ (forall n o, merge_join_sm n lo L R = Some o -> o = merge_join (S (length L + length R)) lo L R).
Proof.
  intros lo L R HR. pose proof (sm_runs_staged lo L R HR) as H. split.
  - apply runs_exec. exact H.
  - intros n o Ho. apply (runs_det lo _ _ (exec_runs lo n _ _ Ho) _ H).
Qed.

Theorem merge_join_sm_inner_spec :
  forall n L R o, side_sorted L -> side_sorted R -> merge_join_sm n false L R = Some o ->
    Permutation o (nl_join false L R).
Proof.
  intros n L R o HL HR Ho. destruct (merge_join_sm_refines false L R HR) as [_ H]. rewrite (H n o Ho).
  apply merge_join_inner_spec; assumption.
Qed.

Theorem merge_join_sm_left_spec_partial :
  forall n L R o, side_sorted L -> side_sorted R -> (nulls L <= 1)%nat -> merge_join_sm n true L R = Some o ->
    Permutation o (nl_join true L R).
Proof.
  intros n L R o HL HR Hn Ho. destruct (merge_join_sm_refines true L R HR) as [_ H]. rewrite (H n o Ho).
  apply merge_join_left_spec_partial; assumption.
Qed.

(* full statement (fails): the same without the hypothesis on NULL keys *)
Theorem merge_join_sm_left_refuted :
  exists L R o, side_sorted L /\ side_sorted R /\ merge_join_sm 100 true L R = Some o /\ ~ Permutation o (nl_join true L R).
Proof.
  exists [(None, [Some 1]); (None, [Some 2]); (Some 0, [Some 3])], [(None, [Some 1]); (Some 0, [Some 2])].
  eexists. split; [|split; [|split; [vm_compute; reflexivity|]]].
  - repeat constructor; cbn; discriminate.
  - repeat constructor; cbn; discriminate.
  - intro H. vm_compute in H.
    assert (Hin : In ([Some 3], Some [Some 2]) [([Some 1], None); ([Some 2], None); ([Some 3], None)]).
    { apply (Permutation_in _ (Permutation_sym H)). right. right. left. reflexivity. }
    cbn in Hin. destruct Hin as [Hin|[Hin|[Hin|[]]]]; discriminate.
Qed.
