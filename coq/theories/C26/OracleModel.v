(* C26 — the oracle accepts the model's own observation (range part): for every table contents and every range
   case the model's range observation satisfies range_ok.  (The query part of the oracle is not provable as stated:
   merge_join_sm_left_refuted is a model behaviour the oracle rejects.) *)
From Coq Require Import ZArith NArith List Bool Sorted Lia.
From Dolt Require Import C26.Model C26.Spec C26.Proofs C26.Corr.
Import ListNotations.
Local Open Scope Z_scope.

Lemma key_eqb_refl : forall k, key_eqb k k = true.
Proof. induction k as [|x k IH]; [reflexivity|]. cbn [key_eqb]. unfold cell_eqb. rewrite cmp_cell_refl, IH. reflexivity. Qed.

Lemma keys_eqb_refl : forall l, keys_eqb l l = true.
Proof. induction l as [|x l IH]; [reflexivity|]. cbn [keys_eqb]. rewrite key_eqb_refl, IH. reflexivity. Qed.

Lemma cmp_cell_gt_lt : forall x y, cmp_cell x y = Gt -> cmp_cell y x = Lt.
Proof. cc. Qed.

Lemma cmp_key_gt_le : forall a b, cmp_key a b = Gt -> key_le b a.
Proof.
  unfold key_le. induction a as [|x a IH]; intros b H; destruct b as [|y b]; cbn [cmp_key] in *; try discriminate.
  destruct (cmp_cell x y) eqn:Hxy.
  - apply cmp_cell_eq in Hxy. subst y. rewrite cmp_cell_refl. apply IH. exact H.
  - discriminate.
  - rewrite (cmp_cell_gt_lt _ _ Hxy). discriminate.
Qed.

Lemma insert_key_in : forall x l y, In y (insert_key x l) -> y = x \/ In y l.
Proof.
  induction l as [|z l IH]; intros y H; cbn [insert_key] in H.
  - destruct H as [H|[]]; left; symmetry; exact H.
  - destruct (key_leb x z).
    + destruct H as [H|H]; [left; symmetry; exact H | right; exact H].
    + destruct H as [H|H]; [right; left; exact H|]. destruct (IH y H) as [H1|H1]; [left; exact H1 | right; right; exact H1].
Qed.

Lemma insert_key_sorted : forall w x l, length x = w -> same_width w l -> keys_sorted l -> keys_sorted (insert_key x l).
Proof.
  unfold keys_sorted, same_width. intros w x l Hx Hw Hs. induction Hs as [|z l Hs IH Hz]; cbn [insert_key].
  - repeat constructor.
  - inversion Hw as [|z' l' Hzw Hlw]; subst. destruct (key_leb x z) eqn:Hxz.
    + constructor; [constructor; assumption|]. constructor.
      * unfold key_le, key_leb in *. destruct (cmp_key x z); congruence.
      * rewrite Forall_forall in *. intros y Hy. specialize (Hz y Hy).
        pose proof (key_leb_trans x z y ltac:(congruence) ltac:(rewrite (Hlw y Hy); congruence) Hxz Hz) as H.
        unfold key_le, key_leb in *. destruct (cmp_key x y); congruence.
    + constructor; [apply IH; exact Hlw|].
      rewrite Forall_forall in *. intros y Hy. destruct (insert_key_in _ _ _ Hy) as [->|Hy'].
      * apply cmp_key_gt_le. unfold key_leb in Hxz. destruct (cmp_key x z); congruence.
      * apply Hz. exact Hy'.
Qed.

Lemma sort_keys_spec : forall w l, same_width w l -> same_width w (sort_keys l) /\ keys_sorted (sort_keys l).
Proof.
  unfold same_width. intros w l Hw. induction Hw as [|x l Hx Hw [IH1 IH2]]; cbn [sort_keys fold_right].
  - split; constructor.
  - split.
    + rewrite Forall_forall in *. intros y Hy. destruct (insert_key_in _ _ _ Hy) as [->|Hy']; [exact Hx | apply IH1; exact Hy'].
    + apply (insert_key_sorted w); assumption.
Qed.

Theorem range_oracle_on_model :
  forall tables c, (length (rc_rs c) <= length (rc_cols c))%nat ->
    Forall (fun e : Z * Z => fst e <= snd e) (rc_encs c) ->
    range_ok tables c (model_range tables c) = true.
Proof.
  intros tables c Hl Henc. unfold range_ok, model_range.
  set (keys := index_keys (rc_cols c) (nth (rc_tbl c) tables [])).
  assert (Hw0 : same_width (length (rc_cols c)) (map (project (rc_cols c)) (nth (rc_tbl c) tables []))).
  { unfold same_width. rewrite Forall_forall. intros t Ht. apply in_map_iff in Ht. destruct Ht as [r [<- _]].
    unfold project. apply map_length. }
  destruct (sort_keys_spec _ _ Hw0) as [Hw Hs]. fold (index_keys (rc_cols c) (nth (rc_tbl c) tables [])) in Hw, Hs. fold keys in Hw, Hs.
  pose proof (ranges_sound_complete (length (rc_cols c)) (rc_nullable c) (rc_encs c) keys (rc_rs c) Hl Hw Hs Henc) as H.
  destruct (build_range (length (rc_cols c)) (rc_rs c)) as [r|]; cbn [ro_n ro_all ro_visit].
  - rewrite H, !keys_eqb_refl. reflexivity.
  - rewrite H, keys_eqb_refl. reflexivity.
Qed.
