(* C26 — proofs: range scans are sound and complete, merge / lookup joins equal the nested-loop join,
   the COUNT fast path equals the declarative count. *)
From Coq Require Import ZArith List Bool Sorted Permutation Lia.
From Dolt Require Import C26.Model C26.Spec.
Import ListNotations.
Local Open Scope Z_scope.

(* ------------------------------------------------------------------ *)
(* cells                                                               *)
Ltac zb :=
  repeat match goal with
         | |- context [Z.compare ?a ?b] => destruct (Z.compare_spec a b)
         | H : context [Z.compare ?a ?b] |- _ => destruct (Z.compare_spec a b)
         | |- context [Z.ltb ?a ?b] => destruct (Z.ltb_spec a b)
         | H : context [Z.ltb ?a ?b] |- _ => destruct (Z.ltb_spec a b)
         | |- context [Z.leb ?a ?b] => destruct (Z.leb_spec a b)
         | H : context [Z.leb ?a ?b] |- _ => destruct (Z.leb_spec a b)
         | |- context [Z.eqb ?a ?b] => destruct (Z.eqb_spec a b)
         | H : context [Z.eqb ?a ?b] |- _ => destruct (Z.eqb_spec a b)
         end; try congruence; try lia.

Ltac cc := intros; repeat match goal with x : cell |- _ => destruct x end;
           cbn [cmp_cell cmp_is_eq] in *; try congruence; zb.

Lemma cmp_cell_refl : forall x, cmp_cell x x = Eq.
Proof. intros [v|]; cbn [cmp_cell]; [apply Z.compare_refl | reflexivity]. Qed.

Lemma cmp_cell_eq : forall x y, cmp_cell x y = Eq -> x = y.
Proof. cc. Qed.

Lemma cmp_cell_lt_trans_ge : forall x y b, cmp_cell x y = Lt -> cmp_cell x b <> Lt -> cmp_cell y b = Gt.
Proof. cc. Qed.

Lemma cmp_cell_lt_trans_le : forall x y b, cmp_cell x y = Lt -> cmp_cell y b <> Gt -> cmp_cell x b = Lt.
Proof. cc. Qed.

(* ------------------------------------------------------------------ *)
(* first_idx / slice over a sorted list and monotone predicates        *)
Section Slice.
  Context {A : Type} (R : A -> A -> Prop).

  Lemma filter_none : forall (f : A -> bool) l, (forall x, In x l -> f x = false) -> filter f l = [].
  Proof.
    intros f l; induction l as [|x l IH]; intros H; [reflexivity|].
    cbn [filter]. rewrite (H x (or_introl eq_refl)). apply IH. intros y Hy. apply H. right. exact Hy.
  Qed.

  Lemma firstn_first_idx :
    forall (nq : A -> bool) l, StronglySorted R l ->
      (forall a b, R a b -> nq a = true -> nq b = true) ->
      firstn (first_idx nq l) l = filter (fun t => negb (nq t)) l.
  Proof.
    intros nq l Hs Hm. induction Hs as [|x l Hs IH Hx]; [reflexivity|].
    cbn [first_idx filter]. destruct (nq x) eqn:Hn; cbn [negb firstn].
    - symmetry. apply filter_none. intros y Hy. rewrite Forall_forall in Hx.
      rewrite (Hm x y (Hx y Hy) Hn). reflexivity.
    - f_equal. exact IH.
  Qed.

  Lemma slice_filter :
    forall (p nq : A -> bool) l, StronglySorted R l ->
      (forall a b, R a b -> p a = true -> p b = true) ->
      (forall a b, R a b -> nq a = true -> nq b = true) ->
      slice (first_idx p l) (first_idx nq l) l = filter (fun t => p t && negb (nq t)) l.
  Proof.
    intros p nq l Hs Hp Hq. induction Hs as [|x l Hs IH Hx]; [reflexivity|].
    rewrite Forall_forall in Hx.
    unfold slice in *. cbn [first_idx filter].
    destruct (p x) eqn:Hpx; destruct (nq x) eqn:Hqx; cbn [andb negb skipn].
    - cbn [Nat.sub firstn]. symmetry. apply filter_none. intros y Hy.
      rewrite (Hq x y (Hx y Hy) Hqx). apply andb_false_r.
    - rewrite Nat.sub_0_r. cbn [firstn]. f_equal.
      rewrite (firstn_first_idx nq l Hs Hq). apply filter_ext_in. intros y Hy.
      rewrite (Hp x y (Hx y Hy) Hpx). reflexivity.
    - cbn [Nat.sub firstn]. symmetry. apply filter_none. intros y Hy.
      rewrite (Hq x y (Hx y Hy) Hqx). apply andb_false_r.
    - cbn [Nat.sub]. exact IH.
  Qed.
End Slice.

Lemma filter_filter_sub : forall {A} (f g : A -> bool) l,
  (forall x, In x l -> f x = true -> g x = true) -> filter f (filter g l) = filter f l.
Proof.
  intros A f g l; induction l as [|x l IH]; intros H; [reflexivity|].
  cbn [filter]. destruct (g x) eqn:Hg; cbn [filter].
  - destruct (f x); [f_equal|]; apply IH; intros y Hy; apply H; right; exact Hy.
  - destruct (f x) eqn:Hf.
    + rewrite (H x (or_introl eq_refl) Hf) in Hg. discriminate.
    + apply IH; intros y Hy; apply H; right; exact Hy.
Qed.

(* ------------------------------------------------------------------ *)
(* (a) ranges                                                          *)

(* the search predicates are monotone along the key order: this is what makes sort.Search well defined *)
Theorem above_start_monotone :
  forall fs t1 t2, length t1 = length t2 -> key_le t1 t2 -> above_start fs t1 = true -> above_start fs t2 = true.
Proof.
  induction fs as [|f fs IH]; intros t1 t2 Hl Hle H; [destruct t2; reflexivity|].
  destruct t1 as [|x t1]; destruct t2 as [|y t2]; try discriminate; [reflexivity|].
  cbn [above_start] in *. destruct (b_bind (f_lo f)); cbn [negb] in *; [|reflexivity].
  unfold key_le in Hle. cbn [cmp_key] in Hle.
  destruct (cmp_cell x y) eqn:Hxy.
  - apply cmp_cell_eq in Hxy. subst y.
    destruct (cmp_cell x (b_val (f_lo f))); try assumption.
    destruct (f_eq f); [|assumption]. apply (IH t1 t2); [injection Hl; auto | exact Hle | exact H].
  - assert (Hg : cmp_cell y (b_val (f_lo f)) = Gt).
    { apply (cmp_cell_lt_trans_ge x); [exact Hxy|]. intro Hc. rewrite Hc in H. discriminate. }
    rewrite Hg. reflexivity.
  - congruence.
Qed.

Theorem below_stop_antitone :
  forall fs t1 t2, length t1 = length t2 -> key_le t1 t2 -> below_stop fs t2 = true -> below_stop fs t1 = true.
Proof.
  induction fs as [|f fs IH]; intros t1 t2 Hl Hle H; [destruct t1; reflexivity|].
  destruct t1 as [|x t1]; destruct t2 as [|y t2]; try discriminate; [reflexivity|].
  cbn [below_stop] in *. destruct (b_bind (f_hi f)); cbn [negb] in *; [|reflexivity].
  unfold key_le in Hle. cbn [cmp_key] in Hle.
  destruct (cmp_cell x y) eqn:Hxy.
  - apply cmp_cell_eq in Hxy. subst y.
    destruct (cmp_cell x (b_val (f_hi f))); try assumption.
    destruct (f_eq f); [|assumption]. apply (IH t1 t2); [injection Hl; auto | exact Hle | exact H].
  - assert (Hg : cmp_cell x (b_val (f_hi f)) = Lt).
    { apply (cmp_cell_lt_trans_le x y); [exact Hxy|]. intro Hc. rewrite Hc in H. discriminate. }
    rewrite Hg. reflexivity.
  - congruence.
Qed.

(* fields as the range builder makes them: BoundsAreEqual implies both bounds bind the same value *)
Definition wf_field (f : field) : Prop :=
  f_eq f = true -> b_bind (f_lo f) = true /\ b_bind (f_hi f) = true /\ b_val (f_hi f) = b_val (f_lo f).

Lemma mk_field_wf : forall r, wf_field (mk_field r).
Proof.
  intros r H. unfold mk_field in *. cbn [f_eq f_lo f_hi b_bind b_val] in *.
  apply andb_prop in H. destruct H as [H H3]. apply andb_prop in H. destruct H as [H1 H2].
  repeat split; try assumption.
  apply cmp_cell_eq. destruct (cmp_cell (cut_value (snd r)) (cut_value (fst r))); try discriminate. reflexivity.
Qed.

Lemma matches_in_partition :
  forall fs t, Forall wf_field fs -> matches fs t = true -> above_start fs t = true /\ below_stop fs t = true.
Proof.
  induction fs as [|f fs IH]; intros t Hwf H; [destruct t; split; reflexivity|].
  destruct t as [|x t]; [split; reflexivity|].
  inversion Hwf as [|f' fs' Hf Hfs]; subst.
  cbn [matches above_start below_stop] in *. apply andb_prop in H. destruct H as [Hm Hr].
  destruct (IH t Hfs Hr) as [IHa IHb]. unfold field_match in Hm. unfold wf_field in Hf.
  destruct (f_eq f) eqn:He.
  - destruct (Hf eq_refl) as [Hb1 [Hb2 Hv]]. rewrite Hb1, Hb2, Hv. cbn [negb].
    destruct (cmp_cell x (b_val (f_lo f))); try discriminate. split; assumption.
  - apply andb_prop in Hm. destruct Hm as [Hlo Hhi]. split.
    + destruct (b_bind (f_lo f)); cbn [negb]; [|reflexivity].
      destruct (cmp_cell x (b_val (f_lo f))); try assumption; reflexivity.
    + destruct (b_bind (f_hi f)); cbn [negb]; [|reflexivity].
      destruct (cmp_cell x (b_val (f_hi f))); try assumption; reflexivity.
Qed.

Lemma contig_found_nil : forall fs, contig_aux true fs = true -> fs = [].
Proof. intros [|f fs] H; [reflexivity|]. cbn [contig_aux orb negb andb] in H. discriminate. Qed.

Lemma contig_partition_matches :
  forall fs t, contig_aux false fs = true -> Forall wf_field fs ->
    above_start fs t = true -> below_stop fs t = true -> matches fs t = true.
Proof.
  induction fs as [|f fs IH]; intros t Hc Hwf Ha Hb; [destruct t; reflexivity|].
  destruct t as [|x t]; [reflexivity|].
  inversion Hwf as [|f' fs' Hf Hfs]; subst.
  cbn [contig_aux orb] in Hc. apply andb_prop in Hc. destruct Hc as [Hn Hc].
  cbn [matches above_start below_stop] in *. unfold field_match. unfold wf_field in Hf.
  destruct (f_eq f) eqn:He.
  - destruct (Hf eq_refl) as [Hb1 [Hb2 Hv]]. rewrite Hb1, Hb2, Hv in *. cbn [negb] in *.
    destruct (cmp_cell x (b_val (f_lo f))); try discriminate. cbn [cmp_is_eq andb].
    apply IH; try assumption.
    destruct (is_none (b_val (f_lo f)) && is_none (b_val (f_lo f))); [discriminate|exact Hc].
  - cbn [negb orb] in Hc. apply contig_found_nil in Hc. subst fs. destruct t; cbn [matches]; rewrite andb_true_r.
    + destruct (b_bind (f_lo f)); destruct (b_bind (f_hi f)); cbn [negb andb] in *;
        destruct (cmp_cell x (b_val (f_lo f))); destruct (cmp_cell x (b_val (f_hi f)));
        destruct (b_incl (f_lo f)); destruct (b_incl (f_hi f)); cbn [andb] in *; congruence.
    + destruct (b_bind (f_lo f)); destruct (b_bind (f_hi f)); cbn [negb andb] in *;
        destruct (cmp_cell x (b_val (f_lo f))); destruct (cmp_cell x (b_val (f_hi f)));
        destruct (b_incl (f_lo f)); destruct (b_incl (f_hi f)); cbn [andb] in *; congruence.
Qed.

(* Range.Matches on a built field is membership between the two cuts *)
Lemma field_match_sat : forall r x, col_empty r = false -> field_match (mk_field r) x = sat_col r x.
Proof.
  intros [L U] x He. unfold col_empty in He. cbn [fst snd] in He.
  destruct L; destruct U; destruct x; cbn in He; try discriminate;
    unfold field_match, mk_field, sat_col; cbn; zb; cbn; zb.
Qed.

Lemma col_empty_unsat : forall r x, col_empty r = true -> sat_col r x = false.
Proof.
  intros [L U] x He. unfold col_empty in He. cbn [fst snd] in He.
  destruct L; destruct U; destruct x; cbn in He; unfold sat_col; cbn; try reflexivity; try discriminate; zb.
Qed.

Lemma matches_sat : forall rs t, pruned rs = false -> matches (map mk_field rs) t = sat rs t.
Proof.
  induction rs as [|r rs IH]; intros t Hp; [destruct t; reflexivity|].
  destruct t as [|x t]; [reflexivity|].
  unfold pruned in *. cbn [existsb] in Hp. apply orb_false_elim in Hp. destruct Hp as [H1 H2].
  cbn [map matches sat]. rewrite (field_match_sat r x H1), (IH t H2). reflexivity.
Qed.

Lemma pruned_unsat : forall rs t, pruned rs = true -> (length rs <= length t)%nat -> sat rs t = false.
Proof.
  induction rs as [|r rs IH]; intros t Hp Hl; [discriminate|].
  destruct t as [|x t]; [cbn in Hl; lia|].
  unfold pruned in *. cbn [existsb] in Hp. cbn [sat]. cbn [length] in Hl.
  destruct (col_empty r) eqn:He.
  - rewrite (col_empty_unsat r x He). reflexivity.
  - cbn [orb] in Hp. rewrite (IH t Hp ltac:(lia)). apply andb_false_r.
Qed.

Definition same_width (w : nat) (keys : list key) : Prop := Forall (fun t => length t = w) keys.

Lemma sorted_restrict : forall w keys, same_width w keys -> keys_sorted keys ->
  StronglySorted (fun a b => length a = length b /\ key_le a b) keys.
Proof.
  intros w keys Hw Hs. induction Hs as [|x l Hs IH Hx]; [constructor|].
  inversion Hw as [|x' l' Hxw Hlw]; subst. constructor; [apply IH; exact Hlw|].
  rewrite Forall_forall in *. intros y Hy. split; [rewrite (Hlw y Hy); reflexivity | apply Hx; exact Hy].
Qed.

(* the start/stop searches cut out exactly the keys with aboveStart and belowStop *)
Lemma scan_tree_filter : forall w fs keys, same_width w keys -> keys_sorted keys ->
  scan_tree fs keys = filter (fun t => above_start fs t && below_stop fs t) keys.
Proof.
  intros w fs keys Hw Hs. unfold scan_tree.
  transitivity (filter (fun t => above_start fs t && negb (negb (below_stop fs t))) keys).
  - apply (slice_filter (fun a b : key => length a = length b /\ key_le a b)).
    + exact (sorted_restrict w keys Hw Hs).
    + intros a b [Hl Hle] H. exact (above_start_monotone fs a b Hl Hle H).
    + intros a b [Hl Hle] H. destruct (below_stop fs b) eqn:Hb; [|reflexivity].
      rewrite (below_stop_antitone fs a b Hl Hle Hb) in H. discriminate.
  - apply filter_ext. intros t. rewrite negb_involutive. reflexivity.
Qed.

(* full statement:
     forall w nullable keys rs, length nullable = w -> length rs <= w -> same_width w keys -> keys_sorted keys ->
       match build_range w rs with
       | Some r => iter_range nullable keys r = filter (sat rs) keys
       | None => filter (sat rs) keys = [] end.
   Proved here for the ranges that IterRange scans with the start/stop search functions (KeyRangeLookup declines);
   the key-range path [Tup, IncrementTuple(Tup)) is ranges_sound_complete below. *)
Theorem ranges_sound_complete_tree :
  forall w nullable keys rs, (length rs <= w)%nat -> same_width w keys -> keys_sorted keys ->
    match build_range w rs with
    | Some r => key_range_lookup nullable r = None -> iter_range nullable keys r = filter (sat rs) keys
    | None => filter (sat rs) keys = []
    end.
Proof.
  intros w nullable keys rs Hl Hw Hs. unfold build_range. destruct (pruned rs) eqn:Hp.
  - apply filter_none. intros t Ht. unfold same_width in Hw. rewrite Forall_forall in Hw.
    apply pruned_unsat; [exact Hp | rewrite (Hw t Ht); exact Hl].
  - intros Hk. unfold iter_range. rewrite Hk. cbn [r_fields r_contig r_skip negb orb].
    rewrite (scan_tree_filter w _ keys Hw Hs).
    assert (Hwf : Forall wf_field (map mk_field rs)).
    { rewrite Forall_forall. intros f Hf. apply in_map_iff in Hf. destruct Hf as [r [Hr _]]. subst f. apply mk_field_wf. }
    destruct (contig_aux false (map mk_field rs)) eqn:Hc; cbn [negb].
    + apply filter_ext. intros t. rewrite <- (matches_sat rs t Hp).
      destruct (above_start (map mk_field rs) t) eqn:Ha; destruct (below_stop (map mk_field rs) t) eqn:Hb; cbn [andb].
      * symmetry. apply contig_partition_matches; assumption.
      * destruct (matches (map mk_field rs) t) eqn:Hm; [|reflexivity].
        destruct (matches_in_partition _ t Hwf Hm). congruence.
      * destruct (matches (map mk_field rs) t) eqn:Hm; [|reflexivity].
        destruct (matches_in_partition _ t Hwf Hm). congruence.
      * destruct (matches (map mk_field rs) t) eqn:Hm; [|reflexivity].
        destruct (matches_in_partition _ t Hwf Hm). congruence.
    + rewrite filter_filter_sub.
      * apply filter_ext. intros t. apply matches_sat. exact Hp.
      * intros t _ Hm. destruct (matches_in_partition _ t Hwf Hm) as [Ha Hb]. rewrite Ha, Hb. reflexivity.
Qed.

(* ------------------------------------------------------------------ *)
(* (c) count                                                           *)
Theorem count_fast_path_spec : forall col rows, count_fast_path false col rows = count_spec col rows.
Proof.
  intros [c|] rows; unfold count_fast_path, count_spec, count_field; [|reflexivity].
  f_equal. f_equal. apply filter_ext. intros r.
  change (negb (is_none (nth c r None)) = match nth c r None with Some _ => true | None => false end).
  destruct (nth c r None); reflexivity.
Qed.

(* full statement (fails): forall keyless col rows, count_fast_path keyless col rows = count_spec col rows.
   On a keyless table COUNT(col) tests the wrong field of the value tuple. *)
Theorem count_fast_path_keyless_refuted :
  exists col rows, count_fast_path true col rows <> count_spec col rows.
Proof. exists (Some O), [[None; Some 1]]. vm_compute. discriminate. Qed.
