(* C26 — proofs: range scans are sound and complete, merge / lookup joins equal the nested-loop join,
   the COUNT fast path equals the declarative count. *)
From Coq Require Import ZArith List Bool Sorted Permutation Lia.
From Dolt Require Import C26.Model C26.Spec.
Import ListNotations.
Local Open Scope Z_scope.

(* ------------------------------------------------------------------ *)
(* cells                                                               *)
Ltac zb :=
  repeat match goal with
         | |- context [Z.compare ?a ?b] => destruct (Z.compare_spec a b)
         | H : context [Z.compare ?a ?b] |- _ => destruct (Z.compare_spec a b)
         | |- context [Z.ltb ?a ?b] => destruct (Z.ltb_spec a b)
         | H : context [Z.ltb ?a ?b] |- _ => destruct (Z.ltb_spec a b)
         | |- context [Z.leb ?a ?b] => destruct (Z.leb_spec a b)
         | H : context [Z.leb ?a ?b] |- _ => destruct (Z.leb_spec a b)
         | |- context [Z.eqb ?a ?b] => destruct (Z.eqb_spec a b)
         | H : context [Z.eqb ?a ?b] |- _ => destruct (Z.eqb_spec a b)
         end; try congruence; try lia.

Ltac cc := intros; repeat match goal with x : cell |- _ => destruct x end;
           cbn [cmp_cell cmp_is_eq] in *; try congruence; zb.

Lemma cmp_cell_refl : forall x, cmp_cell x x = Eq.
Proof. intros [v|]; cbn [cmp_cell]; [apply Z.compare_refl | reflexivity]. Qed.

Lemma cmp_cell_eq : forall x y, cmp_cell x y = Eq -> x = y.
Proof. cc. Qed.

Lemma cmp_cell_lt_trans_ge : forall x y b, cmp_cell x y = Lt -> cmp_cell x b <> Lt -> cmp_cell y b = Gt.
Proof. cc. Qed.

Lemma cmp_cell_lt_trans_le : forall x y b, cmp_cell x y = Lt -> cmp_cell y b <> Gt -> cmp_cell x b = Lt.
Proof. cc. Qed.

(* ------------------------------------------------------------------ *)
(* first_idx / slice over a sorted list and monotone predicates        *)
Section Slice.
  Context {A : Type} (R : A -> A -> Prop).

  Lemma filter_none : forall (f : A -> bool) l, (forall x, In x l -> f x = false) -> filter f l = [].
  Proof.
    intros f l; induction l as [|x l IH]; intros H; [reflexivity|].
    cbn [filter]. rewrite (H x (or_introl eq_refl)). apply IH. intros y Hy. apply H. right. exact Hy.
  Qed.

  Lemma firstn_first_idx :
    forall (nq : A -> bool) l, StronglySorted R l ->
      (forall a b, R a b -> nq a = true -> nq b = true) ->
      firstn (first_idx nq l) l = filter (fun t => negb (nq t)) l.
  Proof.
    intros nq l Hs Hm. induction Hs as [|x l Hs IH Hx]; [reflexivity|].
    cbn [first_idx filter]. destruct (nq x) eqn:Hn; cbn [negb firstn].
    - symmetry. apply filter_none. intros y Hy. rewrite Forall_forall in Hx.
      rewrite (Hm x y (Hx y Hy) Hn). reflexivity.
    - f_equal. exact IH.
  Qed.

  Lemma slice_filter :
    forall (p nq : A -> bool) l, StronglySorted R l ->
      (forall a b, R a b -> p a = true -> p b = true) ->
      (forall a b, R a b -> nq a = true -> nq b = true) ->
      slice (first_idx p l) (first_idx nq l) l = filter (fun t => p t && negb (nq t)) l.
  Proof.
    intros p nq l Hs Hp Hq. induction Hs as [|x l Hs IH Hx]; [reflexivity|].
    rewrite Forall_forall in Hx.
    unfold slice in *. cbn [first_idx filter].
    destruct (p x) eqn:Hpx; destruct (nq x) eqn:Hqx; cbn [andb negb skipn].
    - cbn [Nat.sub firstn]. symmetry. apply filter_none. intros y Hy.
      rewrite (Hq x y (Hx y Hy) Hqx). apply andb_false_r.
    - rewrite Nat.sub_0_r. cbn [firstn]. f_equal.
      rewrite (firstn_first_idx nq l Hs Hq). apply filter_ext_in. intros y Hy.
      rewrite (Hp x y (Hx y Hy) Hpx). reflexivity.
    - cbn [Nat.sub firstn]. symmetry. apply filter_none. intros y Hy.
      rewrite (Hq x y (Hx y Hy) Hqx). apply andb_false_r.
    - cbn [Nat.sub]. exact IH.
  Qed.
End Slice.

Lemma filter_filter_sub : forall {A} (f g : A -> bool) l,
  (forall x, In x l -> f x = true -> g x = true) -> filter f (filter g l) = filter f l.
Proof.
  intros A f g l; induction l as [|x l IH]; intros H; [reflexivity|].
  cbn [filter]. destruct (g x) eqn:Hg; cbn [filter].
  - destruct (f x); [f_equal|]; apply IH; intros y Hy; apply H; right; exact Hy.
  - destruct (f x) eqn:Hf.
    + rewrite (H x (or_introl eq_refl) Hf) in Hg. discriminate.
    + apply IH; intros y Hy; apply H; right; exact Hy.
Qed.

(* ------------------------------------------------------------------ *)
(* (a) ranges                                                          *)

(* the search predicates are monotone along the key order: this is what makes sort.Search well defined *)
Theorem above_start_monotone :
  forall fs t1 t2, length t1 = length t2 -> key_le t1 t2 -> above_start fs t1 = true -> above_start fs t2 = true.
Proof.
  induction fs as [|f fs IH]; intros t1 t2 Hl Hle H; [destruct t2; reflexivity|].
  destruct t1 as [|x t1]; destruct t2 as [|y t2]; try discriminate; [reflexivity|].
  cbn [above_start] in *. destruct (b_bind (f_lo f)); cbn [negb] in *; [|reflexivity].
  unfold key_le in Hle. cbn [cmp_key] in Hle.
  destruct (cmp_cell x y) eqn:Hxy.
  - apply cmp_cell_eq in Hxy. subst y.
    destruct (cmp_cell x (b_val (f_lo f))); try assumption.
    destruct (f_eq f); [|assumption]. apply (IH t1 t2); [injection Hl; auto | exact Hle | exact H].
  - assert (Hg : cmp_cell y (b_val (f_lo f)) = Gt).
    { apply (cmp_cell_lt_trans_ge x); [exact Hxy|]. intro Hc. rewrite Hc in H. discriminate. }
    rewrite Hg. reflexivity.
  - congruence.
Qed.

Theorem below_stop_antitone :
  forall fs t1 t2, length t1 = length t2 -> key_le t1 t2 -> below_stop fs t2 = true -> below_stop fs t1 = true.
Proof.
  induction fs as [|f fs IH]; intros t1 t2 Hl Hle H; [destruct t1; reflexivity|].
  destruct t1 as [|x t1]; destruct t2 as [|y t2]; try discriminate; [reflexivity|].
  cbn [below_stop] in *. destruct (b_bind (f_hi f)); cbn [negb] in *; [|reflexivity].
  unfold key_le in Hle. cbn [cmp_key] in Hle.
  destruct (cmp_cell x y) eqn:Hxy.
  - apply cmp_cell_eq in Hxy. subst y.
    destruct (cmp_cell x (b_val (f_hi f))); try assumption.
    destruct (f_eq f); [|assumption]. apply (IH t1 t2); [injection Hl; auto | exact Hle | exact H].
  - assert (Hg : cmp_cell x (b_val (f_hi f)) = Lt).
    { apply (cmp_cell_lt_trans_le x y); [exact Hxy|]. intro Hc. rewrite Hc in H. discriminate. }
    rewrite Hg. reflexivity.
  - congruence.
Qed.

(* fields as the range builder makes them: BoundsAreEqual implies both bounds bind the same value *)
Definition wf_field (f : field) : Prop :=
  f_eq f = true -> b_bind (f_lo f) = true /\ b_bind (f_hi f) = true /\ b_val (f_hi f) = b_val (f_lo f).

Lemma mk_field_wf : forall r, wf_field (mk_field r).
Proof.
  intros r H. unfold mk_field in *. cbn [f_eq f_lo f_hi b_bind b_val] in *.
  apply andb_prop in H. destruct H as [H H3]. apply andb_prop in H. destruct H as [H1 H2].
  repeat split; try assumption.
  apply cmp_cell_eq. destruct (cmp_cell (cut_value (snd r)) (cut_value (fst r))); try discriminate. reflexivity.
Qed.

Lemma matches_in_partition :
  forall fs t, Forall wf_field fs -> matches fs t = true -> above_start fs t = true /\ below_stop fs t = true.
Proof.
  induction fs as [|f fs IH]; intros t Hwf H; [destruct t; split; reflexivity|].
  destruct t as [|x t]; [split; reflexivity|].
  inversion Hwf as [|f' fs' Hf Hfs]; subst.
  cbn [matches above_start below_stop] in *. apply andb_prop in H. destruct H as [Hm Hr].
  destruct (IH t Hfs Hr) as [IHa IHb]. unfold field_match in Hm. unfold wf_field in Hf.
  destruct (f_eq f) eqn:He.
  - destruct (Hf eq_refl) as [Hb1 [Hb2 Hv]]. rewrite Hb1, Hb2, Hv. cbn [negb].
    destruct (cmp_cell x (b_val (f_lo f))); try discriminate. split; assumption.
  - apply andb_prop in Hm. destruct Hm as [Hlo Hhi]. split.
    + destruct (b_bind (f_lo f)); cbn [negb]; [|reflexivity].
      destruct (cmp_cell x (b_val (f_lo f))); try assumption; reflexivity.
    + destruct (b_bind (f_hi f)); cbn [negb]; [|reflexivity].
      destruct (cmp_cell x (b_val (f_hi f))); try assumption; reflexivity.
Qed.

Lemma contig_found_nil : forall fs, contig_aux true fs = true -> fs = [].
Proof. intros [|f fs] H; [reflexivity|]. cbn [contig_aux orb negb andb] in H. discriminate. Qed.

Lemma contig_partition_matches :
  forall fs t, contig_aux false fs = true -> Forall wf_field fs ->
    above_start fs t = true -> below_stop fs t = true -> matches fs t = true.
Proof.
  induction fs as [|f fs IH]; intros t Hc Hwf Ha Hb; [destruct t; reflexivity|].
  destruct t as [|x t]; [reflexivity|].
  inversion Hwf as [|f' fs' Hf Hfs]; subst.
  cbn [contig_aux orb] in Hc. apply andb_prop in Hc. destruct Hc as [Hn Hc].
  cbn [matches above_start below_stop] in *. unfold field_match. unfold wf_field in Hf.
  destruct (f_eq f) eqn:He.
  - destruct (Hf eq_refl) as [Hb1 [Hb2 Hv]]. rewrite Hb1, Hb2, Hv in *. cbn [negb] in *.
    destruct (cmp_cell x (b_val (f_lo f))); try discriminate. cbn [cmp_is_eq andb].
    apply IH; try assumption.
    destruct (is_none (b_val (f_lo f)) && is_none (b_val (f_lo f))); [discriminate|exact Hc].
  - cbn [negb orb] in Hc. apply contig_found_nil in Hc. subst fs. destruct t; cbn [matches]; rewrite andb_true_r.
    + destruct (b_bind (f_lo f)); destruct (b_bind (f_hi f)); cbn [negb andb] in *;
        destruct (cmp_cell x (b_val (f_lo f))); destruct (cmp_cell x (b_val (f_hi f)));
        destruct (b_incl (f_lo f)); destruct (b_incl (f_hi f)); cbn [andb] in *; congruence.
    + destruct (b_bind (f_lo f)); destruct (b_bind (f_hi f)); cbn [negb andb] in *;
        destruct (cmp_cell x (b_val (f_lo f))); destruct (cmp_cell x (b_val (f_hi f)));
        destruct (b_incl (f_lo f)); destruct (b_incl (f_hi f)); cbn [andb] in *; congruence.
Qed.

(* Range.Matches on a built field is membership between the two cuts *)
Lemma field_match_sat : forall r x, col_empty r = false -> field_match (mk_field r) x = sat_col r x.
Proof.
  intros [L U] x He. unfold col_empty in He. cbn [fst snd] in He.
  destruct L; destruct U; destruct x; cbn in He; try discriminate;
    unfold field_match, mk_field, sat_col; cbn; zb; cbn; zb.
Qed.

Lemma col_empty_unsat : forall r x, col_empty r = true -> sat_col r x = false.
Proof.
  intros [L U] x He. unfold col_empty in He. cbn [fst snd] in He.
  destruct L; destruct U; destruct x; cbn in He; unfold sat_col; cbn; try reflexivity; try discriminate; zb.
Qed.

Lemma matches_sat : forall rs t, pruned rs = false -> matches (map mk_field rs) t = sat rs t.
Proof.
  induction rs as [|r rs IH]; intros t Hp; [destruct t; reflexivity|].
  destruct t as [|x t]; [reflexivity|].
  unfold pruned in *. cbn [existsb] in Hp. apply orb_false_elim in Hp. destruct Hp as [H1 H2].
  cbn [map matches sat]. rewrite (field_match_sat r x H1), (IH t H2). reflexivity.
Qed.

Lemma pruned_unsat : forall rs t, pruned rs = true -> (length rs <= length t)%nat -> sat rs t = false.
Proof.
  induction rs as [|r rs IH]; intros t Hp Hl; [discriminate|].
  destruct t as [|x t]; [cbn in Hl; lia|].
  unfold pruned in *. cbn [existsb] in Hp. cbn [sat]. cbn [length] in Hl.
  destruct (col_empty r) eqn:He.
  - rewrite (col_empty_unsat r x He). reflexivity.
  - cbn [orb] in Hp. rewrite (IH t Hp ltac:(lia)). apply andb_false_r.
Qed.

Definition same_width (w : nat) (keys : list key) : Prop := Forall (fun t => length t = w) keys.

Lemma sorted_restrict : forall w keys, same_width w keys -> keys_sorted keys ->
  StronglySorted (fun a b => length a = w /\ length b = w /\ key_le a b) keys.
Proof.
  intros w keys Hw Hs. induction Hs as [|x l Hs IH Hx]; [constructor|].
  inversion Hw as [|x' l' Hxw Hlw]; subst. constructor; [apply IH; exact Hlw|].
  rewrite Forall_forall in *. intros y Hy. split; [|split].
  - auto.
  - apply Hlw. exact Hy.
  - apply Hx. exact Hy.
Qed.

(* the start/stop searches cut out exactly the keys with aboveStart and belowStop *)
Lemma scan_tree_filter : forall w fs keys, same_width w keys -> keys_sorted keys ->
  scan_tree fs keys = filter (fun t => above_start fs t && below_stop fs t) keys.
Proof.
  intros w fs keys Hw Hs. unfold scan_tree.
  transitivity (filter (fun t => above_start fs t && negb (negb (below_stop fs t))) keys).
  - apply (slice_filter (fun a b : key => length a = w /\ length b = w /\ key_le a b)).
    + exact (sorted_restrict w keys Hw Hs).
    + intros a b [Hla [Hlb Hle]] H. apply (above_start_monotone fs a b); [congruence | exact Hle | exact H].
    + intros a b [Hla [Hlb Hle]] H. destruct (below_stop fs b) eqn:Hb; [|reflexivity].
      rewrite (below_stop_antitone fs a b ltac:(congruence) Hle Hb) in H. discriminate.
  - apply filter_ext. intros t. rewrite negb_involutive. reflexivity.
Qed.

(* full statement:
     forall w nullable keys rs, length nullable = w -> length rs <= w -> same_width w keys -> keys_sorted keys ->
       match build_range w rs with
       | Some r => iter_range nullable encs keys r = filter (sat rs) keys
       | None => filter (sat rs) keys = [] end.
   Proved here for the ranges that IterRange scans with the start/stop search functions (KeyRangeLookup declines);
   the key-range path [Tup, IncrementTuple(Tup)) is ranges_sound_complete below. *)
Theorem ranges_sound_complete_tree :
  forall w nullable encs keys rs, (length rs <= w)%nat -> same_width w keys -> keys_sorted keys ->
    match build_range w rs with
    | Some r => key_range_lookup nullable encs r = None -> iter_range nullable encs keys r = filter (sat rs) keys
    | None => filter (sat rs) keys = []
    end.
Proof.
  intros w nullable encs keys rs Hl Hw Hs. unfold build_range. destruct (pruned rs) eqn:Hp.
  - apply filter_none. intros t Ht. unfold same_width in Hw. rewrite Forall_forall in Hw.
    apply pruned_unsat; [exact Hp | rewrite (Hw t Ht); exact Hl].
  - intros Hk. unfold iter_range. rewrite Hk. cbn [r_fields r_contig r_skip negb orb].
    rewrite (scan_tree_filter w _ keys Hw Hs).
    assert (Hwf : Forall wf_field (map mk_field rs)).
    { rewrite Forall_forall. intros f Hf. apply in_map_iff in Hf. destruct Hf as [r [Hr _]]. subst f. apply mk_field_wf. }
    destruct (contig_aux false (map mk_field rs)) eqn:Hc; cbn [negb].
    + apply filter_ext. intros t. rewrite <- (matches_sat rs t Hp).
      destruct (above_start (map mk_field rs) t) eqn:Ha; destruct (below_stop (map mk_field rs) t) eqn:Hb; cbn [andb].
      * symmetry. apply contig_partition_matches; assumption.
      * destruct (matches (map mk_field rs) t) eqn:Hm; [|reflexivity].
        destruct (matches_in_partition _ t Hwf Hm). congruence.
      * destruct (matches (map mk_field rs) t) eqn:Hm; [|reflexivity].
        destruct (matches_in_partition _ t Hwf Hm). congruence.
      * destruct (matches (map mk_field rs) t) eqn:Hm; [|reflexivity].
        destruct (matches_in_partition _ t Hwf Hm). congruence.
    + rewrite filter_filter_sub.
      * apply filter_ext. intros t. apply matches_sat. exact Hp.
      * intros t _ Hm. destruct (matches_in_partition _ t Hwf Hm) as [Ha Hb]. rewrite Ha, Hb. reflexivity.
Qed.

(* ---- the key-range path: IterKeyRange(Tup, IncrementTuple(Tup)) ---- *)
Definition all_none (l : list cell) : Prop := Forall (fun c => c = None) l.
Definition nilb (f : field) : bool := is_none (b_val (f_lo f)) && is_none (b_val (f_hi f)).
Definition hival (f : field) : cell := b_val (f_hi f).

Lemma all_none_repeat : forall n, all_none (repeat None n).
Proof. induction n; constructor; [reflexivity | assumption]. Qed.

Lemma none_le : forall r t, all_none r -> cmp_key r t <> Gt.
Proof.
  induction r as [|c r IH]; intros t H; destruct t as [|y t]; cbn [cmp_key]; try discriminate.
  inversion H; subst. destruct y; cbn [cmp_cell]; [discriminate | apply IH; assumption].
Qed.

Lemma none_none : forall r1 r2, all_none r1 -> all_none r2 -> cmp_key r1 r2 = Eq.
Proof.
  induction r1 as [|c r1 IH]; intros r2 H1 H2; destruct r2 as [|d r2]; cbn [cmp_key]; try reflexivity.
  inversion H1; inversion H2; subst. cbn [cmp_cell]. apply IH; assumption.
Qed.

Lemma key_leb_trans : forall s a b, length s = length a -> length a = length b ->
  key_leb s a = true -> key_le a b -> key_leb s b = true.
Proof.
  unfold key_leb, key_le.
  induction s as [|x s IH]; intros a b H1 H2 Hsa Hab; destruct a as [|y a]; destruct b as [|z b]; try discriminate; [reflexivity|].
  cbn [cmp_key] in *. injection H1 as H1. injection H2 as H2.
  destruct (cmp_cell x y) eqn:Hxy; try discriminate.
  - apply cmp_cell_eq in Hxy. subst y. destruct (cmp_cell x z); try reflexivity; [apply (IH a b); assumption | congruence].
  - destruct (cmp_cell y z) eqn:Hyz; try congruence.
    + apply cmp_cell_eq in Hyz. subst z. rewrite Hxy. reflexivity.
    + assert (cmp_cell x z = Lt) by (revert Hxy Hyz; clear; cc). rewrite H. reflexivity.
Qed.

Lemma eq_prefix_len_le : forall fs m, eq_prefix_len fs = Some m -> (m <= length fs)%nat.
Proof.
  induction fs as [|f fs IH]; intros m H; cbn [eq_prefix_len] in H.
  - injection H as <-. cbn. lia.
  - destruct (b_val (f_lo f)).
    + destruct (f_eq f); [|discriminate]. destruct (eq_prefix_len fs) as [m'|]; [|discriminate].
      injection H as <-. specialize (IH m' eq_refl). cbn [length]. lia.
    + destruct (is_none (b_val (f_hi f))); [|discriminate]. injection H as <-. lia.
Qed.

Lemma kr_char :
  forall fs m, eq_prefix_len fs = Some (S m) -> Forall wf_field fs ->
    forallb nilb (skipn (S m) fs) = true ->
    forall t e1 e2 v iv, all_none e1 -> all_none e2 -> (S m <= length t)%nat ->
      nth m (map hival fs) None = Some v -> (v < iv -> iv = v + 1) ->
      cmp_key (map hival fs ++ e1) (firstn m (map hival fs) ++ Some iv :: e2) = Lt ->
      key_leb (map hival fs ++ e1) t && negb (key_leb (firstn m (map hival fs) ++ Some iv :: e2) t)
      = matches (firstn (S m) fs) t.
Proof.
  induction fs as [|f fs IH]; intros m Hp Hwf Hnil t e1 e2 v iv He1 He2 Hlen Hnth Hiv Hlt; [discriminate|].
  cbn [eq_prefix_len] in Hp. inversion Hwf as [|f' fs' Hf Hfs]; subst.
  destruct (b_val (f_lo f)) as [k|] eqn:Hlo; [|destruct (is_none (b_val (f_hi f))); discriminate].
  destruct (f_eq f) eqn:He; [|discriminate].
  destruct (Hf He) as [_ [_ Hv]]. rewrite Hlo in Hv.
  destruct t as [|x t]; [cbn in Hlen; lia|].
  destruct (eq_prefix_len fs) as [m'|] eqn:Hp'; [|discriminate]. injection Hp as Hp. subst m'.
  cbn [map] in *. change (hival f) with (b_val (f_hi f)) in *.
  destruct m as [|m].
  - (* the incremented field *)
    cbn [nth] in Hnth. rewrite Hv in Hnth. injection Hnth as <-.
    cbn [firstn app skipn] in *. rewrite Hv in *.
    assert (Hrest : all_none (map hival fs ++ e1)).
    { unfold all_none. apply Forall_app. split; [|exact He1]. rewrite Forall_forall. intros c Hc.
      apply in_map_iff in Hc. destruct Hc as [g [<- Hg]]. rewrite forallb_forall in Hnil. specialize (Hnil g Hg).
      unfold nilb in Hnil. apply andb_prop in Hnil. destruct Hnil as [_ Hn]. unfold hival. destruct (b_val (f_hi g)); [discriminate|reflexivity]. }
    cbn [matches]. unfold field_match. rewrite He, Hlo.
    rewrite andb_true_r.
    unfold key_leb. cbn [cmp_key] in *.
    pose proof (none_le _ t Hrest) as N1. pose proof (none_le _ t He2) as N2.
    pose proof (none_none _ _ Hrest He2) as N3. rewrite N3 in Hlt.
    destruct x as [xv|]; cbn [cmp_cell cmp_is_eq] in *.
    + destruct (Z.compare_spec k iv); try discriminate.
      assert (Hi : iv = k + 1) by (apply Hiv; assumption).
      rewrite Hi in *. destruct (Z.compare_spec k xv); destruct (Z.compare_spec (k + 1) xv); destruct (Z.compare_spec xv k);
        try lia; try reflexivity;
        repeat match goal with |- context [match cmp_key ?a ?b with _ => _ end] => destruct (cmp_key a b) end; try congruence; reflexivity.
    + reflexivity.
  - (* an equal field before it *)
    cbn [nth firstn app skipn] in *. rewrite Hv in *.
    cbn [matches]. unfold field_match. rewrite He, Hlo.
    unfold key_leb in *. cbn [cmp_key] in *. rewrite cmp_cell_refl in Hlt.
    specialize (IH m eq_refl Hfs Hnil t e1 e2 v iv He1 He2 ltac:(cbn [length] in Hlen; lia) Hnth Hiv Hlt).
    destruct x as [xv|]; cbn [cmp_cell cmp_is_eq] in *.
    + destruct (Z.compare_spec k xv); destruct (Z.compare_spec xv k); try lia; cbn [andb negb]; try reflexivity.
      exact IH.
    + reflexivity.
Qed.

Lemma matches_firstn : forall k fs t, matches fs t = true -> matches (firstn k fs) t = true.
Proof.
  induction k as [|k IH]; intros fs t H; [destruct t; reflexivity|].
  destruct fs as [|f fs]; [exact H|]. destruct t as [|x t]; [reflexivity|].
  cbn [firstn matches] in *. apply andb_prop in H. destruct H as [H1 H2]. rewrite H1, (IH fs t H2). reflexivity.
Qed.

Lemma contig_no_nil : forall fs found, contig_aux found fs = true -> forallb (fun f => negb (nilb f)) fs = true.
Proof.
  induction fs as [|f fs IH]; intros found H; [reflexivity|].
  cbn [contig_aux forallb] in *. apply andb_prop in H. destruct H as [H1 H2]. fold (nilb f) in *.
  rewrite (IH _ H2), andb_true_r. destruct found; [discriminate|]. cbn [orb] in H1. exact H1.
Qed.

Lemma nil_and_not_nil : forall fs, forallb nilb fs = true -> forallb (fun f => negb (nilb f)) fs = true -> fs = [].
Proof.
  intros [|f fs] H1 H2; [reflexivity|]. cbn [forallb] in *.
  apply andb_prop in H1. apply andb_prop in H2. destruct H1 as [H1 _]. destruct H2 as [H2 _]. rewrite H1 in H2. discriminate.
Qed.

Lemma forallb_skipn : forall {A} (p : A -> bool) n l, forallb p l = true -> forallb p (skipn n l) = true.
Proof.
  intros A p n; induction n as [|n IH]; intros l H; [exact H|]. destruct l as [|x l]; [reflexivity|].
  cbn [skipn]. cbn [forallb] in H. apply andb_prop in H. destruct H as [_ H]. apply IH. exact H.
Qed.

Lemma krl_inv : forall nullable encs r stop, key_range_lookup nullable encs r = Some stop ->
  exists n v, eq_prefix_len (r_fields r) = Some (S n) /\ forallb nilb (skipn (S n) (r_fields r)) = true
    /\ nth n (r_tup r) None = Some v
    /\ stop = pad (length (r_tup r)) (firstn n (r_tup r) ++ [Some (incr_w (nth n encs (min32, max32)) v)])
    /\ cmp_key (r_tup r) stop = Lt.
Proof.
  intros nullable encs r stop H. unfold key_range_lookup in H.
  destruct (eq_prefix_len (r_fields r)) as [[|n]|]; try discriminate.
  destruct (negb (forallb (fun b => b) (skipn (S n) nullable))); [discriminate|].
  change (fun f => is_none (b_val (f_lo f)) && is_none (b_val (f_hi f))) with nilb in H.
  destruct (forallb nilb (skipn (S n) (r_fields r))) eqn:Hnil; [|discriminate]. cbn [negb] in H.
  destruct (nth n (r_tup r) None) as [v|] eqn:Hnth; [|discriminate].
  destruct (cmp_key (r_tup r) (pad (length (r_tup r)) (firstn n (r_tup r) ++ [Some (incr_w (nth n encs (min32, max32)) v)]))) eqn:Hc; try discriminate.
  injection H as <-. exists n, v. repeat split; try assumption; reflexivity.
Qed.

Theorem ranges_sound_complete :
  forall w nullable encs keys rs, (length rs <= w)%nat -> same_width w keys -> keys_sorted keys ->
    Forall (fun e : Z * Z => fst e <= snd e) encs ->
    match build_range w rs with
    | Some r => iter_range nullable encs keys r = filter (sat rs) keys
    | None => filter (sat rs) keys = []
    end.
Proof.
  intros w nullable encs keys rs Hl Hw Hs Henc.
  pose proof (ranges_sound_complete_tree w nullable encs keys rs Hl Hw Hs) as Htree.
  unfold build_range in *. destruct (pruned rs) eqn:Hp; [exact Htree|].
  set (fs := map mk_field rs) in *.
  set (r := {| r_fields := fs; r_tup := pad w (map (fun f => b_val (f_hi f)) fs); r_contig := contig_aux false fs; r_skip := true |}) in *.
  destruct (key_range_lookup nullable encs r) as [stop|] eqn:Hk; [|apply Htree; reflexivity].
  clear Htree.
  assert (Hwf : Forall wf_field fs).
  { rewrite Forall_forall. intros f Hf. apply in_map_iff in Hf. destruct Hf as [c [Hc _]]. subst f. apply mk_field_wf. }
  assert (Hlf : length fs = length rs) by apply map_length.
  change (map (fun f => b_val (f_hi f)) fs) with (map hival fs) in *.
  set (hv := map hival fs) in *.
  assert (Hlh : length hv = length fs) by apply map_length.
  destruct (krl_inv _ _ _ _ Hk) as [n [v [Hpre [Hnil [Hnth [Hstop Hcmp]]]]]].
  cbn [r_fields r_tup r] in Hpre, Hnil, Hnth, Hstop, Hcmp.
  pose proof (eq_prefix_len_le _ _ Hpre) as Hn.
  assert (Hpadlen : length (pad w hv) = w) by (unfold pad; rewrite app_length, repeat_length; lia).
  assert (Hfn : firstn n (pad w hv) = firstn n hv).
  { unfold pad. rewrite firstn_app. replace (n - length hv)%nat with O by lia. cbn [firstn]. apply app_nil_r. }
  assert (Hnth' : nth n hv None = Some v) by (unfold pad in Hnth; rewrite app_nth1 in Hnth; [exact Hnth | lia]).
  rewrite Hpadlen, Hfn in Hstop.
  assert (Hstop' : stop = firstn n hv ++ Some (incr_w (nth n encs (min32, max32)) v) :: repeat None (w - S n)).
  { rewrite Hstop. unfold pad. rewrite <- app_assoc. cbn [app]. f_equal. f_equal. f_equal.
    rewrite app_length, firstn_length. cbn [length]. lia. }
  clear Hstop. subst stop.
  assert (Hstoplen : length (firstn n hv ++ Some (incr_w (nth n encs (min32, max32)) v) :: repeat None (w - S n)) = w).
  { rewrite app_length, firstn_length. cbn [length]. rewrite repeat_length. lia. }
  (* the scan *)
  unfold iter_range. rewrite Hk. cbn [r_fields r_tup r r_contig r_skip negb orb].
  unfold scan_keyrange.
  assert (Hscan : slice (first_idx (fun t => key_leb (pad w hv) t) keys)
                        (first_idx (fun t => key_leb (firstn n hv ++ Some (incr_w (nth n encs (min32, max32)) v) :: repeat None (w - S n)) t) keys) keys
                  = filter (matches (firstn (S n) fs)) keys).
  { transitivity (filter (fun t => key_leb (pad w hv) t
                                   && negb (key_leb (firstn n hv ++ Some (incr_w (nth n encs (min32, max32)) v) :: repeat None (w - S n)) t)) keys).
    - apply (slice_filter (fun a b : key => length a = w /\ length b = w /\ key_le a b)).
      + exact (sorted_restrict w keys Hw Hs).
      + intros a b [Hla [Hlb Hle]] H. apply (key_leb_trans (pad w hv) a b); try assumption; congruence.
      + intros a b [Hla [Hlb Hle]] H.
        apply (key_leb_trans (firstn n hv ++ Some (incr_w (nth n encs (min32, max32)) v) :: repeat None (w - S n)) a b); try assumption; congruence.
    - apply filter_ext_in. intros t Ht. unfold same_width in Hw. rewrite Forall_forall in Hw. specialize (Hw t Ht).
      unfold pad. unfold pad in Hcmp.
      apply (kr_char fs n Hpre Hwf Hnil t _ _ v (incr_w (nth n encs (min32, max32)) v)); try assumption; try apply all_none_repeat; try lia.
      intros Hlt. assert (He : fst (nth n encs (min32, max32)) <= snd (nth n encs (min32, max32))).
      { destruct (nth_in_or_default n encs (min32, max32)) as [Hin|Hd].
        - rewrite Forall_forall in Henc. apply Henc. exact Hin.
        - rewrite Hd. cbn. unfold min32, max32. lia. }
      revert Hlt He. unfold incr_w. generalize (nth n encs (min32, max32)). intros [mn mx]. cbn [fst snd]. intros. zb. }
  rewrite Hscan.
  destruct (contig_aux false fs) eqn:Hc; cbn [negb].
  - assert (Hsk : skipn (S n) fs = []).
    { apply nil_and_not_nil; [exact Hnil|]. apply forallb_skipn. apply (contig_no_nil fs false Hc). }
    pose proof (firstn_skipn (S n) fs) as Hfull. rewrite Hsk, app_nil_r in Hfull. rewrite Hfull.
    apply filter_ext. intros t. apply matches_sat. exact Hp.
  - rewrite filter_filter_sub.
    + apply filter_ext. intros t. apply matches_sat. exact Hp.
    + intros t _ Hm. apply matches_firstn. exact Hm.
Qed.

(* ------------------------------------------------------------------ *)
(* (c) count                                                           *)
Lemma count_rows_spec : forall col rows, count_rows col rows = count_spec col rows.
Proof.
  intros [c|] rows; unfold count_rows, count_spec; [|reflexivity].
  f_equal. f_equal. apply filter_ext. intros r.
  change (negb (is_none (nth c r None)) = match nth c r None with Some _ => true | None => false end).
  destruct (nth c r None); reflexivity.
Qed.

Theorem count_fast_path_spec : forall col rows, count_fast_path false col rows = Some (count_spec col rows).
Proof. intros col rows. unfold count_fast_path. f_equal. apply (count_rows_spec col rows). Qed.

(* COUNT on keyed and keyless tables alike (the keyless table's rows listed with their multiplicities) *)
Theorem count_answer_spec : forall keyless col rows, count_answer keyless col rows = count_spec col rows.
Proof.
  intros [|] col rows; unfold count_answer, count_fast_path; [apply count_rows_spec|].
  apply (count_rows_spec col rows).
Qed.

(* regression (formerly count_fast_path_keyless_refuted, repaired by d707d55): a keyless table with a duplicated
   row whose first column is NULL; COUNT(first column) counts neither the NULLs nor one per stored entry *)
Example count_keyless_regression :
  count_fast_path true (Some O) [[None; Some 1]; [None; Some 1]; [Some 0; Some 0]; [Some 0; Some 0]] = None
  /\ count_answer true (Some O) [[None; Some 1]; [None; Some 1]; [Some 0; Some 0]; [Some 0; Some 0]] = 2
  /\ count_answer true None [[None; Some 1]; [None; Some 1]; [Some 0; Some 0]; [Some 0; Some 0]] = 4.
Proof. repeat split. Qed.

(* ------------------------------------------------------------------ *)
(* (b) joins                                                           *)
Definition sle (a b : cell * row) : Prop := cmp_cell (fst a) (fst b) <> Gt.
Definition nulls (S : side) : nat := length (filter (fun x => is_none (fst x)) S).

Lemma jf_eq : forall l r, jf l r = true -> cmp_cell (fst l) (fst r) = Eq.
Proof. intros [a la] [b lb]; unfold jf; cbn [fst]. cc. Qed.

Lemma jf_none : forall (l : cell * row) (R : side), @fst cell row l = None -> filter (jf l) R = [].
Proof. intros l R H. apply filter_none. intros x _. unfold jf. rewrite H. reflexivity. Qed.

Lemma flat_map_ext_in' : forall {A B} (f g : A -> list B) l,
  (forall x, In x l -> f x = g x) -> flat_map f l = flat_map g l.
Proof.
  intros A B f g l; induction l as [|x l IH]; intros H; [reflexivity|].
  cbn [flat_map]. rewrite (H x (or_introl eq_refl)). f_equal. apply IH. intros y Hy. apply H. right. exact Hy.
Qed.

Lemma flat_map_perm_in : forall {A B} (f g : A -> list B) l,
  (forall x, In x l -> Permutation (f x) (g x)) -> Permutation (flat_map f l) (flat_map g l).
Proof.
  intros A B f g l; induction l as [|x l IH]; intros H; [constructor|].
  cbn [flat_map]. apply Permutation_app; [apply H; left; reflexivity|].
  apply IH. intros y Hy. apply H. right. exact Hy.
Qed.

Lemma emit_perm : forall lo l ms ms', Permutation ms ms' -> Permutation (emit lo l ms) (emit lo l ms').
Proof.
  intros lo l ms ms' H. destruct ms as [|m ms].
  - apply Permutation_nil in H. subst. apply Permutation_refl.
  - destruct ms' as [|m' ms']; [apply Permutation_sym in H; apply Permutation_nil in H; discriminate|].
    unfold emit. apply Permutation_map. exact H.
Qed.

Lemma span_spec : forall {A} (p : A -> bool) l a b, span p l = (a, b) ->
  l = a ++ b /\ Forall (fun x => p x = true) a /\ match b with [] => True | y :: _ => p y = false end.
Proof.
  intros A p l; induction l as [|x l IH]; intros a b H; cbn [span] in H.
  - injection H as <- <-. repeat split; constructor.
  - destruct (p x) eqn:Hp.
    + destruct (span p l) as [a' b'] eqn:Hs. injection H as <- <-.
      destruct (IH a' b' eq_refl) as [H1 [H2 H3]]. subst l. repeat split; [constructor; assumption | exact H3].
    + injection H as <- <-. repeat split; [constructor | exact Hp].
Qed.

Lemma sorted_app : forall {A} (R : A -> A -> Prop) a b, StronglySorted R (a ++ b) ->
  StronglySorted R b /\ (forall x y, In x a -> In y b -> R x y).
Proof.
  intros A R a; induction a as [|z a IH]; intros b H; cbn [app] in *.
  - split; [exact H | intros x y []].
  - inversion H as [|z' l' Hs Hz]; subst. destruct (IH b Hs) as [H1 H2]. split; [exact H1|].
    intros x y [Hx|Hx] Hy.
    + subst x. rewrite Forall_forall in Hz. apply Hz. apply in_or_app. right. exact Hy.
    + apply H2; assumption.
Qed.

(* all rows after a maximal run of keys equal to k in a sorted side have a strictly larger key *)
Lemma after_span_gt : forall k (S a b : side),
  StronglySorted sle S -> (forall x, In x S -> cmp_cell k (fst x) <> Gt) ->
  span (fun x => cmp_is_eq (cmp_cell k (fst x))) S = (a, b) ->
  forall y, In y b -> cmp_cell k (fst y) = Lt.
Proof.
  intros k S a b Hs Hge Hsp y Hy. destruct (span_spec _ _ _ _ Hsp) as [H1 [_ H3]]. subst S.
  destruct (sorted_app sle a b Hs) as [Hb _].
  destruct b as [|z b]; [destruct Hy|].
  assert (Hz : cmp_cell k (fst z) = Lt).
  { assert (Hiz : In z (a ++ z :: b)) by (apply in_or_app; right; left; reflexivity).
    specialize (Hge z Hiz).
    destruct (cmp_cell k (fst z)); cbn [cmp_is_eq] in H3; congruence. }
  destruct Hy as [Hy|Hy]; [subst y; exact Hz|].
  inversion Hb as [|z' b' _ Hzb]; subst. rewrite Forall_forall in Hzb. specialize (Hzb y Hy). unfold sle in Hzb.
  revert Hz Hzb. generalize (fst z) (fst y). cc.
Qed.

Lemma span_eq_keys : forall k (S a b : side), span (fun x => cmp_is_eq (cmp_cell k (fst x))) S = (a, b) ->
  forall x, In x a -> fst x = k.
Proof.
  intros k S a b Hsp x Hx. destruct (span_spec _ _ _ _ Hsp) as [_ [H2 _]]. rewrite Forall_forall in H2.
  specialize (H2 x Hx). symmetry. apply cmp_cell_eq. destruct (cmp_cell k (fst x)); cbn [cmp_is_eq] in H2; congruence.
Qed.

Lemma jf_lt_none : forall l (S : side), (forall x, In x S -> cmp_cell (fst l) (fst x) = Lt) -> filter (jf l) S = [].
Proof.
  intros l S H. apply filter_none. intros x Hx. destruct (jf l x) eqn:Hj; [|reflexivity].
  apply jf_eq in Hj. rewrite (H x Hx) in Hj. discriminate.
Qed.

Lemma jf_gt_none : forall l (S : side), (forall x, In x S -> cmp_cell (fst l) (fst x) = Gt) -> filter (jf l) S = [].
Proof.
  intros l S H. apply filter_none. intros x Hx. destruct (jf l x) eqn:Hj; [|reflexivity].
  apply jf_eq in Hj. rewrite (H x Hx) in Hj. discriminate.
Qed.

Lemma nulls_app : forall a b, nulls (a ++ b) = (nulls a + nulls b)%nat.
Proof. intros a b. unfold nulls. rewrite filter_app, app_length. reflexivity. Qed.

Lemma nulls_all : forall (a : side), (forall x : cell * row, In x a -> @fst cell row x = None) -> nulls a = length a.
Proof.
  induction a as [|x a IH]; intros H; [reflexivity|]. unfold nulls in *. cbn [filter].
  rewrite (H x (or_introl eq_refl)). cbn [is_none length]. f_equal. apply IH. intros y Hy. apply H. right. exact Hy.
Qed.

Theorem merge_join_spec :
  forall fuel lo L R, side_sorted L -> side_sorted R -> (length L + length R < fuel)%nat ->
    lo = false \/ (nulls L <= 1)%nat ->
    Permutation (merge_join fuel lo L R) (nl_join lo L R).
Proof.
  induction fuel as [|fuel IH]; intros lo L R HL HR Hf Hn; [lia|].
  destruct L as [|l L']; [apply Permutation_refl|].
  destruct R as [|r R'].
  - cbn [merge_join]. unfold nl_join. cbn [filter]. destruct lo; [apply Permutation_refl|].
    assert (Hnil : forall X : side, flat_map (fun l0 => emit false l0 (filter (jf l0) [])) X = []).
    { induction X as [|x X IHX]; [reflexivity | cbn [flat_map filter emit app]; exact IHX]. }
    rewrite Hnil. constructor.
  - cbn [merge_join].
    inversion HL as [|l0 L0 HL' HlL]; subst. inversion HR as [|r0 R0 HR' HrR]; subst.
    rewrite Forall_forall in HlL, HrR. unfold sle in *.
    destruct (cmp_cell (fst l) (fst r)) eqn:Hc.
    + (* equal keys *)
      destruct (span (fun r' => cmp_is_eq (cmp_cell (fst l) (fst r'))) R') as [buf R''] eqn:HsR.
      destruct (span (fun l' => cmp_is_eq (cmp_cell (fst l) (fst l'))) L') as [grp L''] eqn:HsL.
      pose proof (cmp_cell_eq _ _ Hc) as Hk.
      assert (HgeR : forall x, In x R' -> cmp_cell (fst l) (fst x) <> Gt).
      { intros x Hx. rewrite Hk. apply HrR. exact Hx. }
      assert (HgeL : forall x, In x L' -> cmp_cell (fst l) (fst x) <> Gt) by (intros x Hx; apply HlL; exact Hx).
      pose proof (after_span_gt _ _ _ _ HR' HgeR HsR) as HR''.
      pose proof (after_span_gt _ _ _ _ HL' HgeL HsL) as HL''.
      pose proof (span_eq_keys _ _ _ _ HsR) as Hbuf.
      pose proof (span_eq_keys _ _ _ _ HsL) as Hgrp.
      destruct (span_spec _ _ _ _ HsR) as [ER _]. destruct (span_spec _ _ _ _ HsL) as [EL _]. subst R' L'.
      destruct (sorted_app _ _ _ HR') as [HsR'' _]. destruct (sorted_app _ _ _ HL') as [HsL'' _].
      assert (Hlost : (if lo && (match buf with [] => true | _ => false end) && negb (jf l r) then length grp else O) = O).
      { destruct Hn as [Hn|Hn]; [subst lo; reflexivity|].
        destruct (jf l r) eqn:Hj; [rewrite andb_false_r; reflexivity|].
        destruct (fst l) as [v|] eqn:Hfl.
        - unfold jf in Hj. rewrite Hfl, <- Hk in Hj. rewrite Z.eqb_refl in Hj. discriminate.
        - assert (Hg : nulls grp = length grp) by (apply nulls_all; intros x Hx; apply Hgrp; exact Hx).
          change (l :: grp ++ L'') with ([l] ++ grp ++ L'') in Hn. rewrite !nulls_app in Hn.
          assert (nulls [l] = 1%nat) by (unfold nulls; cbn [filter]; rewrite Hfl; reflexivity).
          assert (length grp = O) by lia. destruct (lo && _ && _); [assumption | reflexivity]. }
      rewrite Hlost. cbn [skipn].
      unfold nl_join. change (l :: grp ++ L'') with ((l :: grp) ++ L''). rewrite flat_map_app.
      apply Permutation_app.
      * apply flat_map_perm_in. intros l' Hl'. apply emit_perm.
        assert (Hkl : fst l' = fst l) by (destruct Hl' as [<-|Hl']; [reflexivity | apply Hgrp; exact Hl']).
        change (r :: buf ++ R'') with ((r :: buf) ++ R''). rewrite (filter_app (jf l') (r :: buf) R'').
        rewrite (jf_lt_none l' R''); [|intros x Hx; rewrite Hkl; apply HR''; exact Hx].
        rewrite app_nil_r, filter_app. cbn [filter]. destruct (jf l' r); cbn [app].
        -- apply Permutation_sym. apply Permutation_cons_append.
        -- rewrite app_nil_r. apply Permutation_refl.
      * rewrite (flat_map_ext_in' (fun l0 => emit lo l0 (filter (jf l0) (r :: buf ++ R'')))
                                  (fun l0 => emit lo l0 (filter (jf l0) R''))).
        -- apply (IH lo L'' R'' HsL'' HsR'').
           ++ cbn [length] in Hf. rewrite !app_length in Hf. lia.
           ++ destruct Hn as [Hn|Hn]; [left; exact Hn|right].
              change (l :: grp ++ L'') with ((l :: grp) ++ L'') in Hn. rewrite nulls_app in Hn. lia.
        -- intros l'' Hl''. f_equal. change (r :: buf ++ R'') with ((r :: buf) ++ R''). rewrite filter_app.
           rewrite (jf_gt_none l'' (r :: buf)); [reflexivity|].
           intros x Hx. assert (Hx' : fst x = fst l) by (destruct Hx as [<-|Hx]; [symmetry; exact Hk | apply Hbuf; exact Hx]).
           rewrite Hx'. specialize (HL'' l'' Hl''). revert HL''. generalize (fst l) (fst l''). cc.
    + (* left key smaller: no right row matches it *)
      unfold nl_join. cbn [flat_map]. apply Permutation_app.
      * rewrite (jf_lt_none l (r :: R')); [apply Permutation_refl|].
        intros x [<-|Hx]; [exact Hc|]. specialize (HrR x Hx). revert Hc HrR. generalize (fst l) (fst r) (fst x). cc.
      * apply (IH lo L' (r :: R') HL' HR); [cbn [length] in *; lia|].
        destruct Hn as [Hn|Hn]; [left; exact Hn|right].
        change (l :: L') with ([l] ++ L') in Hn. rewrite nulls_app in Hn. lia.
    + (* right key smaller: it matches no left row *)
      rewrite (IH lo (l :: L') R' HL HR'); [|cbn [length] in *; lia | exact Hn].
      unfold nl_join. rewrite (flat_map_ext_in' (fun l0 => emit lo l0 (filter (jf l0) (r :: R')))
                                                 (fun l0 => emit lo l0 (filter (jf l0) R'))); [apply Permutation_refl|].
      intros l' Hl'. f_equal. cbn [filter]. destruct (jf l' r) eqn:Hj; [|reflexivity].
      apply jf_eq in Hj. exfalso.
      destruct Hl' as [<-|Hl']; [congruence|]. specialize (HlL l' Hl'). revert Hc HlL Hj.
      generalize (fst l) (fst r) (fst l'). cc.
Qed.

Theorem merge_join_inner_spec :
  forall L R, side_sorted L -> side_sorted R ->
    Permutation (merge_join (S (length L + length R)) false L R) (nl_join false L R).
Proof. intros L R HL HR. apply merge_join_spec; auto. Qed.

(* LEFT JOIN, partial: at most one left row with a NULL join key *)
Theorem merge_join_left_spec_partial :
  forall L R, side_sorted L -> side_sorted R -> (nulls L <= 1)%nat ->
    Permutation (merge_join (S (length L + length R)) true L R) (nl_join true L R).
Proof. intros L R HL HR Hn. apply merge_join_spec; auto. Qed.

(* full statement (fails): the same without the hypothesis on NULL keys.  Two left rows with NULL keys, one right row
   with a NULL key followed by a matching pair: the LEFT merge join loses the right row. *)
Theorem merge_join_left_refuted :
  exists L R, side_sorted L /\ side_sorted R /\
    ~ Permutation (merge_join (S (length L + length R)) true L R) (nl_join true L R).
Proof.
  exists [(None, [Some 1]); (None, [Some 2]); (Some 0, [Some 3])], [(None, [Some 1]); (Some 0, [Some 2])].
  split; [|split].
  - repeat constructor; cbn; discriminate.
  - repeat constructor; cbn; discriminate.
  - intro H. vm_compute in H.
    assert (Hin : In ([Some 3], Some [Some 2]) [([Some 1], None); ([Some 2], None); ([Some 3], None)]).
    { apply (Permutation_in _ (Permutation_sym H)). right. right. left. reflexivity. }
    cbn in Hin. destruct Hin as [Hin|[Hin|[Hin|[]]]]; discriminate.
Qed.

Lemma lookup_filter : forall l R, side_sorted R -> filter (jf l) (lookup (fst l) R) = filter (jf l) R.
Proof.
  intros l R HR. destruct (fst l) as [v|] eqn:Hfl; [|rewrite (jf_none l R Hfl); reflexivity].
  unfold lookup. destruct (v <? incr32 v) eqn:Hi.
  - assert (Hinc : incr32 v = v + 1) by (unfold incr32, max32, min32 in *; zb).
    rewrite (slice_filter sle); [| exact HR | |].
    + apply filter_filter_sub. intros x _ Hj. apply jf_eq in Hj. rewrite Hfl in Hj. apply cmp_cell_eq in Hj.
      rewrite <- Hj, Hinc. cbn [cmp_cell]. zb.
    + intros a b Hab. unfold sle in Hab. revert Hab. generalize (fst a) (fst b). cc.
    + intros a b Hab. unfold sle in Hab. revert Hab. generalize (fst a) (fst b). cc.
  - rewrite (slice_filter sle); [| exact HR | |].
    + rewrite filter_filter_sub.
      * apply filter_filter_sub. intros x _ Hj. apply jf_eq in Hj. rewrite Hfl in Hj. apply cmp_cell_eq in Hj.
        rewrite <- Hj. cbn [cmp_cell]. rewrite Z.compare_refl. reflexivity.
      * intros x _ Hj. apply jf_eq in Hj. rewrite Hfl in Hj. apply cmp_cell_eq in Hj.
        rewrite <- Hj. cbn [cmp_cell cmp_is_eq]. rewrite Z.compare_refl. reflexivity.
    + intros a b Hab. unfold sle in Hab. revert Hab. generalize (fst a) (fst b). cc.
    + intros a b Hab. unfold sle in Hab. revert Hab. generalize (fst a) (fst b). cc.
Qed.

Theorem lookup_join_spec :
  forall lo L R, side_sorted R -> lookup_join lo L R = nl_join lo L R.
Proof.
  intros lo L R HR. unfold lookup_join, nl_join. apply flat_map_ext. intros l.
  rewrite (lookup_filter l R HR). reflexivity.
Qed.

(* ---- the hypotheses are satisfiable and the interesting paths are taken ---- *)
Example range_keyrange_path :
  exists r, build_range 2 [(Below 2, Above 2)] = Some r /\ key_range_lookup [true; true] [] r <> None /\
    iter_range [true; true] [] [[None; Some 2]; [Some 2; Some 3]; [Some 2; Some 4]; [Some 5; Some 1]] r
    = [[Some 2; Some 3]; [Some 2; Some 4]].
Proof. eexists. split; [reflexivity|]. split; vm_compute; [discriminate | reflexivity]. Qed.

Example range_noncontiguous_filtered :
  exists r, build_range 3 [(Above 1, AboveAll); (BelowNull, AboveNull)] = Some r /\ r_contig r = false /\
    iter_range [true; true; true] [] [[Some 1; None; Some 1]; [Some 2; None; Some 2]; [Some 2; Some 0; Some 3]; [Some 3; None; Some 4]] r
    = [[Some 2; None; Some 2]; [Some 3; None; Some 4]].
Proof. eexists. split; [reflexivity|]. split; vm_compute; reflexivity. Qed.

Example merge_join_duplicates :
  merge_join 9 true [(None, [Some 1]); (Some 1, [Some 2]); (Some 1, [Some 3]); (Some 2, [Some 4])]
                    [(None, [Some 7]); (None, [Some 8]); (Some 1, [Some 5]); (Some 1, [Some 6])]
  = [([Some 1], None); ([Some 2], Some [Some 6]); ([Some 2], Some [Some 5]); ([Some 3], Some [Some 6]); ([Some 3], Some [Some 5]);
     ([Some 4], None)].
Proof. vm_compute. reflexivity. Qed.
