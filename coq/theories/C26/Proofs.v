(* C26 — proofs: range scans are sound and complete, merge / lookup joins equal the nested-loop join,
   the COUNT fast path equals the declarative count. *)
From Coq Require Import ZArith List Bool Sorted Permutation Lia.
From Dolt Require Import C26.Model C26.Spec.
Import ListNotations.
Local Open Scope Z_scope.

(* ------------------------------------------------------------------ *)
(* cells                                                               *)
Ltac zb :=
  repeat match goal with
         | |- context [Z.compare ?a ?b] => destruct (Z.compare_spec a b)
         | H : context [Z.compare ?a ?b] |- _ => destruct (Z.compare_spec a b)
         | |- context [Z.ltb ?a ?b] => destruct (Z.ltb_spec a b)
         | H : context [Z.ltb ?a ?b] |- _ => destruct (Z.ltb_spec a b)
         | |- context [Z.leb ?a ?b] => destruct (Z.leb_spec a b)
         | H : context [Z.leb ?a ?b] |- _ => destruct (Z.leb_spec a b)
         | |- context [Z.eqb ?a ?b] => destruct (Z.eqb_spec a b)
         | H : context [Z.eqb ?a ?b] |- _ => destruct (Z.eqb_spec a b)
         end; try congruence; try lia.

Ltac cc := intros; repeat match goal with x : cell |- _ => destruct x end;
           cbn [cmp_cell cmp_is_eq] in *; try congruence; zb.

Lemma cmp_cell_refl : forall x, cmp_cell x x = Eq.
Proof. intros [v|]; cbn [cmp_cell]; [apply Z.compare_refl | reflexivity]. Qed.

Lemma cmp_cell_eq : forall x y, cmp_cell x y = Eq -> x = y.
Proof. cc. Qed.

Lemma cmp_cell_lt_trans_ge : forall x y b, cmp_cell x y = Lt -> cmp_cell x b <> Lt -> cmp_cell y b = Gt.
Proof. cc. Qed.

Lemma cmp_cell_lt_trans_le : forall x y b, cmp_cell x y = Lt -> cmp_cell y b <> Gt -> cmp_cell x b = Lt.
Proof. cc. Qed.

(* ------------------------------------------------------------------ *)
(* first_idx / slice over a sorted list and monotone predicates        *)
Section Slice.
  Context {A : Type} (R : A -> A -> Prop).

  Lemma filter_none : forall (f : A -> bool) l, (forall x, In x l -> f x = false) -> filter f l = [].
  Proof.
    intros f l; induction l as [|x l IH]; intros H; [reflexivity|].
    cbn [filter]. rewrite (H x (or_introl eq_refl)). apply IH. intros y Hy. apply H. right. exact Hy.
  Qed.

  Lemma firstn_first_idx :
    forall (nq : A -> bool) l, StronglySorted R l ->
      (forall a b, R a b -> nq a = true -> nq b = true) ->
      firstn (first_idx nq l) l = filter (fun t => negb (nq t)) l.
  Proof.
    intros nq l Hs Hm. induction Hs as [|x l Hs IH Hx]; [reflexivity|].
    cbn [first_idx filter]. destruct (nq x) eqn:Hn; cbn [negb firstn].
    - symmetry. apply filter_none. intros y Hy. rewrite Forall_forall in Hx.
      rewrite (Hm x y (Hx y Hy) Hn). reflexivity.
    - f_equal. exact IH.
  Qed.

  Lemma slice_filter :
    forall (p nq : A -> bool) l, StronglySorted R l ->
      (forall a b, R a b -> p a = true -> p b = true) ->
      (forall a b, R a b -> nq a = true -> nq b = true) ->
      slice (first_idx p l) (first_idx nq l) l = filter (fun t => p t && negb (nq t)) l.
  Proof.
    intros p nq l Hs Hp Hq. induction Hs as [|x l Hs IH Hx]; [reflexivity|].
    rewrite Forall_forall in Hx.
    unfold slice in *. cbn [first_idx filter].
    destruct (p x) eqn:Hpx; destruct (nq x) eqn:Hqx; cbn [andb negb skipn].
    - cbn [Nat.sub firstn]. symmetry. apply filter_none. intros y Hy.
      rewrite (Hq x y (Hx y Hy) Hqx). apply andb_false_r.
    - rewrite Nat.sub_0_r. cbn [firstn]. f_equal.
      rewrite (firstn_first_idx nq l Hs Hq). apply filter_ext_in. intros y Hy.
      rewrite (Hp x y (Hx y Hy) Hpx). reflexivity.
    - cbn [Nat.sub firstn]. symmetry. apply filter_none. intros y Hy.
      rewrite (Hq x y (Hx y Hy) Hqx). apply andb_false_r.
    - cbn [Nat.sub]. exact IH.
  Qed.
End Slice.

Lemma filter_filter_sub : forall {A} (f g : A -> bool) l,
  (forall x, In x l -> f x = true -> g x = true) -> filter f (filter g l) = filter f l.
Proof.
  intros A f g l; induction l as [|x l IH]; intros H; [reflexivity|].
  cbn [filter]. destruct (g x) eqn:Hg; cbn [filter].
  - destruct (f x); [f_equal|]; apply IH; intros y Hy; apply H; right; exact Hy.
  - destruct (f x) eqn:Hf.
    + rewrite (H x (or_introl eq_refl) Hf) in Hg. discriminate.
    + apply IH; intros y Hy; apply H; right; exact Hy.
Qed.

(* ------------------------------------------------------------------ *)
(* (a) ranges                                                          *)

(* the search predicates are monotone along the key order: this is what makes sort.Search well defined *)
Theorem above_start_monotone :
  forall fs t1 t2, length t1 = length t2 -> key_le t1 t2 -> above_start fs t1 = true -> above_start fs t2 = true.
Proof.
  induction fs as [|f fs IH]; intros t1 t2 Hl Hle H; [destruct t2; reflexivity|].
  destruct t1 as [|x t1]; destruct t2 as [|y t2]; try discriminate; [reflexivity|].
  cbn [above_start] in *. destruct (b_bind (f_lo f)); cbn [negb] in *; [|reflexivity].
  unfold key_le in Hle. cbn [cmp_key] in Hle.
  destruct (cmp_cell x y) eqn:Hxy.
  - apply cmp_cell_eq in Hxy. subst y.
    destruct (cmp_cell x (b_val (f_lo f))); try assumption.
    destruct (f_eq f); [|assumption]. apply (IH t1 t2); [injection Hl; auto | exact Hle | exact H].
  - assert (Hg : cmp_cell y (b_val (f_lo f)) = Gt).
    { apply (cmp_cell_lt_trans_ge x); [exact Hxy|]. intro Hc. rewrite Hc in H. discriminate. }
    rewrite Hg. reflexivity.
  - congruence.
Qed.

Theorem below_stop_antitone :
  forall fs t1 t2, length t1 = length t2 -> key_le t1 t2 -> below_stop fs t2 = true -> below_stop fs t1 = true.
Proof.
  induction fs as [|f fs IH]; intros t1 t2 Hl Hle H; [destruct t1; reflexivity|].
  destruct t1 as [|x t1]; destruct t2 as [|y t2]; try discriminate; [reflexivity|].
  cbn [below_stop] in *. destruct (b_bind (f_hi f)); cbn [negb] in *; [|reflexivity].
  unfold key_le in Hle. cbn [cmp_key] in Hle.
  destruct (cmp_cell x y) eqn:Hxy.
  - apply cmp_cell_eq in Hxy. subst y.
    destruct (cmp_cell x (b_val (f_hi f))); try assumption.
    destruct (f_eq f); [|assumption]. apply (IH t1 t2); [injection Hl; auto | exact Hle | exact H].
  - assert (Hg : cmp_cell x (b_val (f_hi f)) = Lt).
    { apply (cmp_cell_lt_trans_le x y); [exact Hxy|]. intro Hc. rewrite Hc in H. discriminate. }
    rewrite Hg. reflexivity.
  - congruence.
Qed.

(* fields as the range builder makes them: BoundsAreEqual implies both bounds bind the same value *)
Definition wf_field (f : field) : Prop :=
  f_eq f = true -> b_bind (f_lo f) = true /\ b_bind (f_hi f) = true /\ b_val (f_hi f) = b_val (f_lo f).

Lemma mk_field_wf : forall r, wf_field (mk_field r).
Proof.
  intros r H. unfold mk_field in *. cbn [f_eq f_lo f_hi b_bind b_val] in *.
  apply andb_prop in H. destruct H as [H H3]. apply andb_prop in H. destruct H as [H1 H2].
  repeat split; try assumption.
  apply cmp_cell_eq. destruct (cmp_cell (cut_value (snd r)) (cut_value (fst r))); try discriminate. reflexivity.
Qed.

Lemma matches_in_partition :
  forall fs t, Forall wf_field fs -> matches fs t = true -> above_start fs t = true /\ below_stop fs t = true.
Proof.
  induction fs as [|f fs IH]; intros t Hwf H; [destruct t; split; reflexivity|].
  destruct t as [|x t]; [split; reflexivity|].
  inversion Hwf as [|f' fs' Hf Hfs]; subst.
  cbn [matches above_start below_stop] in *. apply andb_prop in H. destruct H as [Hm Hr].
  destruct (IH t Hfs Hr) as [IHa IHb]. unfold field_match in Hm. unfold wf_field in Hf.
  destruct (f_eq f) eqn:He.
  - destruct (Hf eq_refl) as [Hb1 [Hb2 Hv]]. rewrite Hb1, Hb2, Hv. cbn [negb].
    destruct (cmp_cell x (b_val (f_lo f))); try discriminate. split; assumption.
  - apply andb_prop in Hm. destruct Hm as [Hlo Hhi]. split.
    + destruct (b_bind (f_lo f)); cbn [negb]; [|reflexivity].
      destruct (cmp_cell x (b_val (f_lo f))); try assumption; reflexivity.
    + destruct (b_bind (f_hi f)); cbn [negb]; [|reflexivity].
      destruct (cmp_cell x (b_val (f_hi f))); try assumption; reflexivity.
Qed.

Lemma contig_found_nil : forall fs, contig_aux true fs = true -> fs = [].
Proof. intros [|f fs] H; [reflexivity|]. cbn [contig_aux orb negb andb] in H. discriminate. Qed.

Lemma contig_partition_matches :
  forall fs t, contig_aux false fs = true -> Forall wf_field fs ->
    above_start fs t = true -> below_stop fs t = true -> matches fs t = true.
Proof.
  induction fs as [|f fs IH]; intros t Hc Hwf Ha Hb; [destruct t; reflexivity|].
  destruct t as [|x t]; [reflexivity|].
  inversion Hwf as [|f' fs' Hf Hfs]; subst.
  cbn [contig_aux orb] in Hc. apply andb_prop in Hc. destruct Hc as [Hn Hc].
  cbn [matches above_start below_stop] in *. unfold field_match. unfold wf_field in Hf.
  destruct (f_eq f) eqn:He.
  - destruct (Hf eq_refl) as [Hb1 [Hb2 Hv]]. rewrite Hb1, Hb2, Hv in *. cbn [negb] in *.
    destruct (cmp_cell x (b_val (f_lo f))); try discriminate. cbn [cmp_is_eq andb].
    apply IH; try assumption.
    destruct (is_none (b_val (f_lo f)) && is_none (b_val (f_lo f))); [discriminate|exact Hc].
  - cbn [negb orb] in Hc. apply contig_found_nil in Hc. subst fs. destruct t; cbn [matches]; rewrite andb_true_r.
    + destruct (b_bind (f_lo f)); destruct (b_bind (f_hi f)); cbn [negb andb] in *;
        destruct (cmp_cell x (b_val (f_lo f))); destruct (cmp_cell x (b_val (f_hi f)));
        destruct (b_incl (f_lo f)); destruct (b_incl (f_hi f)); cbn [andb] in *; congruence.
    + destruct (b_bind (f_lo f)); destruct (b_bind (f_hi f)); cbn [negb andb] in *;
        destruct (cmp_cell x (b_val (f_lo f))); destruct (cmp_cell x (b_val (f_hi f)));
        destruct (b_incl (f_lo f)); destruct (b_incl (f_hi f)); cbn [andb] in *; congruence.
Qed.

(* Range.Matches on a built field is membership between the two cuts *)
Lemma field_match_sat : forall r x, col_empty r = false -> field_match (mk_field r) x = sat_col r x.
Proof.
  intros [L U] x He. unfold col_empty in He. cbn [fst snd] in He.
  destruct L; destruct U; destruct x; cbn in He; try discriminate;
    unfold field_match, mk_field, sat_col; cbn; zb; cbn; zb.
Qed.

Lemma col_empty_unsat : forall r x, col_empty r = true -> sat_col r x = false.
Proof.
  intros [L U] x He. unfold col_empty in He. cbn [fst snd] in He.
  destruct L; destruct U; destruct x; cbn in He; unfold sat_col; cbn; try reflexivity; try discriminate; zb.
Qed.

Lemma matches_sat : forall rs t, pruned rs = false -> matches (map mk_field rs) t = sat rs t.
Proof.
  induction rs as [|r rs IH]; intros t Hp; [destruct t; reflexivity|].
  destruct t as [|x t]; [reflexivity|].
  unfold pruned in *. cbn [existsb] in Hp. apply orb_false_elim in Hp. destruct Hp as [H1 H2].
  cbn [map matches sat]. rewrite (field_match_sat r x H1), (IH t H2). reflexivity.
Qed.

Lemma pruned_unsat : forall rs t, pruned rs = true -> (length rs <= length t)%nat -> sat rs t = false.
Proof.
  induction rs as [|r rs IH]; intros t Hp Hl; [discriminate|].
  destruct t as [|x t]; [cbn in Hl; lia|].
  unfold pruned in *. cbn [existsb] in Hp. cbn [sat]. cbn [length] in Hl.
  destruct (col_empty r) eqn:He.
  - rewrite (col_empty_unsat r x He). reflexivity.
  - cbn [orb] in Hp. rewrite (IH t Hp ltac:(lia)). apply andb_false_r.
Qed.

Definition same_width (w : nat) (keys : list key) : Prop := Forall (fun t => length t = w) keys.

Lemma sorted_restrict : forall w keys, same_width w keys -> keys_sorted keys ->
  StronglySorted (fun a b => length a = length b /\ key_le a b) keys.
Proof.
  intros w keys Hw Hs. induction Hs as [|x l Hs IH Hx]; [constructor|].
  inversion Hw as [|x' l' Hxw Hlw]; subst. constructor; [apply IH; exact Hlw|].
  rewrite Forall_forall in *. intros y Hy. split; [rewrite (Hlw y Hy); reflexivity | apply Hx; exact Hy].
Qed.

(* the start/stop searches cut out exactly the keys with aboveStart and belowStop *)
Lemma scan_tree_filter : forall w fs keys, same_width w keys -> keys_sorted keys ->
  scan_tree fs keys = filter (fun t => above_start fs t && below_stop fs t) keys.
Proof.
  intros w fs keys Hw Hs. unfold scan_tree.
  transitivity (filter (fun t => above_start fs t && negb (negb (below_stop fs t))) keys).
  - apply (slice_filter (fun a b : key => length a = length b /\ key_le a b)).
    + exact (sorted_restrict w keys Hw Hs).
    + intros a b [Hl Hle] H. exact (above_start_monotone fs a b Hl Hle H).
    + intros a b [Hl Hle] H. destruct (below_stop fs b) eqn:Hb; [|reflexivity].
      rewrite (below_stop_antitone fs a b Hl Hle Hb) in H. discriminate.
  - apply filter_ext. intros t. rewrite negb_involutive. reflexivity.
Qed.

(* full statement:
     forall w nullable keys rs, length nullable = w -> length rs <= w -> same_width w keys -> keys_sorted keys ->
       match build_range w rs with
       | Some r => iter_range nullable keys r = filter (sat rs) keys
       | None => filter (sat rs) keys = [] end.
   Proved here for the ranges that IterRange scans with the start/stop search functions (KeyRangeLookup declines);
   the key-range path [Tup, IncrementTuple(Tup)) is ranges_sound_complete below. *)
Theorem ranges_sound_complete_tree :
  forall w nullable keys rs, (length rs <= w)%nat -> same_width w keys -> keys_sorted keys ->
    match build_range w rs with
    | Some r => key_range_lookup nullable r = None -> iter_range nullable keys r = filter (sat rs) keys
    | None => filter (sat rs) keys = []
    end.
Proof.
  intros w nullable keys rs Hl Hw Hs. unfold build_range. destruct (pruned rs) eqn:Hp.
  - apply filter_none. intros t Ht. unfold same_width in Hw. rewrite Forall_forall in Hw.
    apply pruned_unsat; [exact Hp | rewrite (Hw t Ht); exact Hl].
  - intros Hk. unfold iter_range. rewrite Hk. cbn [r_fields r_contig r_skip negb orb].
    rewrite (scan_tree_filter w _ keys Hw Hs).
    assert (Hwf : Forall wf_field (map mk_field rs)).
    { rewrite Forall_forall. intros f Hf. apply in_map_iff in Hf. destruct Hf as [r [Hr _]]. subst f. apply mk_field_wf. }
    destruct (contig_aux false (map mk_field rs)) eqn:Hc; cbn [negb].
    + apply filter_ext. intros t. rewrite <- (matches_sat rs t Hp).
      destruct (above_start (map mk_field rs) t) eqn:Ha; destruct (below_stop (map mk_field rs) t) eqn:Hb; cbn [andb].
      * symmetry. apply contig_partition_matches; assumption.
      * destruct (matches (map mk_field rs) t) eqn:Hm; [|reflexivity].
        destruct (matches_in_partition _ t Hwf Hm). congruence.
      * destruct (matches (map mk_field rs) t) eqn:Hm; [|reflexivity].
        destruct (matches_in_partition _ t Hwf Hm). congruence.
      * destruct (matches (map mk_field rs) t) eqn:Hm; [|reflexivity].
        destruct (matches_in_partition _ t Hwf Hm). congruence.
    + rewrite filter_filter_sub.
      * apply filter_ext. intros t. apply matches_sat. exact Hp.
      * intros t _ Hm. destruct (matches_in_partition _ t Hwf Hm) as [Ha Hb]. rewrite Ha, Hb. reflexivity.
Qed.

(* ------------------------------------------------------------------ *)
(* (c) count                                                           *)
Theorem count_fast_path_spec : forall col rows, count_fast_path false col rows = count_spec col rows.
Proof.
  intros [c|] rows; unfold count_fast_path, count_spec, count_field; [|reflexivity].
  f_equal. f_equal. apply filter_ext. intros r.
  change (negb (is_none (nth c r None)) = match nth c r None with Some _ => true | None => false end).
  destruct (nth c r None); reflexivity.
Qed.

(* full statement (fails): forall keyless col rows, count_fast_path keyless col rows = count_spec col rows.
   On a keyless table COUNT(col) tests the wrong field of the value tuple. *)
Theorem count_fast_path_keyless_refuted :
  exists col rows, count_fast_path true col rows <> count_spec col rows.
Proof. exists (Some O), [[None; Some 1]]. vm_compute. discriminate. Qed.

(* ------------------------------------------------------------------ *)
(* (b) joins                                                           *)
Definition sle (a b : cell * row) : Prop := cmp_cell (fst a) (fst b) <> Gt.
Definition nulls (S : side) : nat := length (filter (fun x => is_none (fst x)) S).

Lemma jf_eq : forall l r, jf l r = true -> cmp_cell (fst l) (fst r) = Eq.
Proof. intros [a la] [b lb]; unfold jf; cbn [fst]. cc. Qed.

Lemma jf_none : forall (l : cell * row) (R : side), @fst cell row l = None -> filter (jf l) R = [].
Proof. intros l R H. apply filter_none. intros x _. unfold jf. rewrite H. reflexivity. Qed.

Lemma flat_map_ext_in' : forall {A B} (f g : A -> list B) l,
  (forall x, In x l -> f x = g x) -> flat_map f l = flat_map g l.
Proof.
  intros A B f g l; induction l as [|x l IH]; intros H; [reflexivity|].
  cbn [flat_map]. rewrite (H x (or_introl eq_refl)). f_equal. apply IH. intros y Hy. apply H. right. exact Hy.
Qed.

Lemma flat_map_perm_in : forall {A B} (f g : A -> list B) l,
  (forall x, In x l -> Permutation (f x) (g x)) -> Permutation (flat_map f l) (flat_map g l).
Proof.
  intros A B f g l; induction l as [|x l IH]; intros H; [constructor|].
  cbn [flat_map]. apply Permutation_app; [apply H; left; reflexivity|].
  apply IH. intros y Hy. apply H. right. exact Hy.
Qed.

Lemma emit_perm : forall lo l ms ms', Permutation ms ms' -> Permutation (emit lo l ms) (emit lo l ms').
Proof.
  intros lo l ms ms' H. destruct ms as [|m ms].
  - apply Permutation_nil in H. subst. apply Permutation_refl.
  - destruct ms' as [|m' ms']; [apply Permutation_sym in H; apply Permutation_nil in H; discriminate|].
    unfold emit. apply Permutation_map. exact H.
Qed.

Lemma span_spec : forall {A} (p : A -> bool) l a b, span p l = (a, b) ->
  l = a ++ b /\ Forall (fun x => p x = true) a /\ match b with [] => True | y :: _ => p y = false end.
Proof.
  intros A p l; induction l as [|x l IH]; intros a b H; cbn [span] in H.
  - injection H as <- <-. repeat split; constructor.
  - destruct (p x) eqn:Hp.
    + destruct (span p l) as [a' b'] eqn:Hs. injection H as <- <-.
      destruct (IH a' b' eq_refl) as [H1 [H2 H3]]. subst l. repeat split; [constructor; assumption | exact H3].
    + injection H as <- <-. repeat split; [constructor | exact Hp].
Qed.

Lemma sorted_app : forall {A} (R : A -> A -> Prop) a b, StronglySorted R (a ++ b) ->
  StronglySorted R b /\ (forall x y, In x a -> In y b -> R x y).
Proof.
  intros A R a; induction a as [|z a IH]; intros b H; cbn [app] in *.
  - split; [exact H | intros x y []].
  - inversion H as [|z' l' Hs Hz]; subst. destruct (IH b Hs) as [H1 H2]. split; [exact H1|].
    intros x y [Hx|Hx] Hy.
    + subst x. rewrite Forall_forall in Hz. apply Hz. apply in_or_app. right. exact Hy.
    + apply H2; assumption.
Qed.

(* all rows after a maximal run of keys equal to k in a sorted side have a strictly larger key *)
Lemma after_span_gt : forall k (S a b : side),
  StronglySorted sle S -> (forall x, In x S -> cmp_cell k (fst x) <> Gt) ->
  span (fun x => cmp_is_eq (cmp_cell k (fst x))) S = (a, b) ->
  forall y, In y b -> cmp_cell k (fst y) = Lt.
Proof.
  intros k S a b Hs Hge Hsp y Hy. destruct (span_spec _ _ _ _ Hsp) as [H1 [_ H3]]. subst S.
  destruct (sorted_app sle a b Hs) as [Hb _].
  destruct b as [|z b]; [destruct Hy|].
  assert (Hz : cmp_cell k (fst z) = Lt).
  { assert (Hiz : In z (a ++ z :: b)) by (apply in_or_app; right; left; reflexivity).
    specialize (Hge z Hiz).
    destruct (cmp_cell k (fst z)); cbn [cmp_is_eq] in H3; congruence. }
  destruct Hy as [Hy|Hy]; [subst y; exact Hz|].
  inversion Hb as [|z' b' _ Hzb]; subst. rewrite Forall_forall in Hzb. specialize (Hzb y Hy). unfold sle in Hzb.
  revert Hz Hzb. generalize (fst z) (fst y). cc.
Qed.

Lemma span_eq_keys : forall k (S a b : side), span (fun x => cmp_is_eq (cmp_cell k (fst x))) S = (a, b) ->
  forall x, In x a -> fst x = k.
Proof.
  intros k S a b Hsp x Hx. destruct (span_spec _ _ _ _ Hsp) as [_ [H2 _]]. rewrite Forall_forall in H2.
  specialize (H2 x Hx). symmetry. apply cmp_cell_eq. destruct (cmp_cell k (fst x)); cbn [cmp_is_eq] in H2; congruence.
Qed.

Lemma jf_lt_none : forall l (S : side), (forall x, In x S -> cmp_cell (fst l) (fst x) = Lt) -> filter (jf l) S = [].
Proof.
  intros l S H. apply filter_none. intros x Hx. destruct (jf l x) eqn:Hj; [|reflexivity].
  apply jf_eq in Hj. rewrite (H x Hx) in Hj. discriminate.
Qed.

Lemma jf_gt_none : forall l (S : side), (forall x, In x S -> cmp_cell (fst l) (fst x) = Gt) -> filter (jf l) S = [].
Proof.
  intros l S H. apply filter_none. intros x Hx. destruct (jf l x) eqn:Hj; [|reflexivity].
  apply jf_eq in Hj. rewrite (H x Hx) in Hj. discriminate.
Qed.

Lemma nulls_app : forall a b, nulls (a ++ b) = (nulls a + nulls b)%nat.
Proof. intros a b. unfold nulls. rewrite filter_app, app_length. reflexivity. Qed.

Lemma nulls_all : forall (a : side), (forall x : cell * row, In x a -> @fst cell row x = None) -> nulls a = length a.
Proof.
  induction a as [|x a IH]; intros H; [reflexivity|]. unfold nulls in *. cbn [filter].
  rewrite (H x (or_introl eq_refl)). cbn [is_none length]. f_equal. apply IH. intros y Hy. apply H. right. exact Hy.
Qed.

Theorem merge_join_spec :
  forall fuel lo L R, side_sorted L -> side_sorted R -> (length L + length R < fuel)%nat ->
    lo = false \/ (nulls L <= 1)%nat ->
    Permutation (merge_join fuel lo L R) (nl_join lo L R).
Proof.
  induction fuel as [|fuel IH]; intros lo L R HL HR Hf Hn; [lia|].
  destruct L as [|l L']; [apply Permutation_refl|].
  destruct R as [|r R'].
  - cbn [merge_join]. unfold nl_join. cbn [filter]. destruct lo; [apply Permutation_refl|].
    assert (Hnil : forall X : side, flat_map (fun l0 => emit false l0 (filter (jf l0) [])) X = []).
    { induction X as [|x X IHX]; [reflexivity | cbn [flat_map filter emit app]; exact IHX]. }
    rewrite Hnil. constructor.
  - cbn [merge_join].
    inversion HL as [|l0 L0 HL' HlL]; subst. inversion HR as [|r0 R0 HR' HrR]; subst.
    rewrite Forall_forall in HlL, HrR. unfold sle in *.
    destruct (cmp_cell (fst l) (fst r)) eqn:Hc.
    + (* equal keys *)
      destruct (span (fun r' => cmp_is_eq (cmp_cell (fst l) (fst r'))) R') as [buf R''] eqn:HsR.
      destruct (span (fun l' => cmp_is_eq (cmp_cell (fst l) (fst l'))) L') as [grp L''] eqn:HsL.
      pose proof (cmp_cell_eq _ _ Hc) as Hk.
      assert (HgeR : forall x, In x R' -> cmp_cell (fst l) (fst x) <> Gt).
      { intros x Hx. rewrite Hk. apply HrR. exact Hx. }
      assert (HgeL : forall x, In x L' -> cmp_cell (fst l) (fst x) <> Gt) by (intros x Hx; apply HlL; exact Hx).
      pose proof (after_span_gt _ _ _ _ HR' HgeR HsR) as HR''.
      pose proof (after_span_gt _ _ _ _ HL' HgeL HsL) as HL''.
      pose proof (span_eq_keys _ _ _ _ HsR) as Hbuf.
      pose proof (span_eq_keys _ _ _ _ HsL) as Hgrp.
      destruct (span_spec _ _ _ _ HsR) as [ER _]. destruct (span_spec _ _ _ _ HsL) as [EL _]. subst R' L'.
      destruct (sorted_app _ _ _ HR') as [HsR'' _]. destruct (sorted_app _ _ _ HL') as [HsL'' _].
      assert (Hlost : (if lo && (match buf with [] => true | _ => false end) && negb (jf l r) then length grp else O) = O).
      { destruct Hn as [Hn|Hn]; [subst lo; reflexivity|].
        destruct (jf l r) eqn:Hj; [rewrite andb_false_r; reflexivity|].
        destruct (fst l) as [v|] eqn:Hfl.
        - unfold jf in Hj. rewrite Hfl, <- Hk in Hj. rewrite Z.eqb_refl in Hj. discriminate.
        - assert (Hg : nulls grp = length grp) by (apply nulls_all; intros x Hx; apply Hgrp; exact Hx).
          change (l :: grp ++ L'') with ([l] ++ grp ++ L'') in Hn. rewrite !nulls_app in Hn.
          assert (nulls [l] = 1%nat) by (unfold nulls; cbn [filter]; rewrite Hfl; reflexivity).
          assert (length grp = O) by lia. destruct (lo && _ && _); [assumption | reflexivity]. }
      rewrite Hlost. cbn [skipn].
      unfold nl_join. change (l :: grp ++ L'') with ((l :: grp) ++ L''). rewrite flat_map_app.
      apply Permutation_app.
      * apply flat_map_perm_in. intros l' Hl'. apply emit_perm.
        assert (Hkl : fst l' = fst l) by (destruct Hl' as [<-|Hl']; [reflexivity | apply Hgrp; exact Hl']).
        change (r :: buf ++ R'') with ((r :: buf) ++ R''). rewrite (filter_app (jf l') (r :: buf) R'').
        rewrite (jf_lt_none l' R''); [|intros x Hx; rewrite Hkl; apply HR''; exact Hx].
        rewrite app_nil_r, filter_app. cbn [filter]. destruct (jf l' r); cbn [app].
        -- apply Permutation_sym. apply Permutation_cons_append.
        -- rewrite app_nil_r. apply Permutation_refl.
      * rewrite (flat_map_ext_in' (fun l0 => emit lo l0 (filter (jf l0) (r :: buf ++ R'')))
                                  (fun l0 => emit lo l0 (filter (jf l0) R''))).
        -- apply (IH lo L'' R'' HsL'' HsR'').
           ++ cbn [length] in Hf. rewrite !app_length in Hf. lia.
           ++ destruct Hn as [Hn|Hn]; [left; exact Hn|right].
              change (l :: grp ++ L'') with ((l :: grp) ++ L'') in Hn. rewrite nulls_app in Hn. lia.
        -- intros l'' Hl''. f_equal. change (r :: buf ++ R'') with ((r :: buf) ++ R''). rewrite filter_app.
           rewrite (jf_gt_none l'' (r :: buf)); [reflexivity|].
           intros x Hx. assert (Hx' : fst x = fst l) by (destruct Hx as [<-|Hx]; [symmetry; exact Hk | apply Hbuf; exact Hx]).
           rewrite Hx'. specialize (HL'' l'' Hl''). revert HL''. generalize (fst l) (fst l''). cc.
    + (* left key smaller: no right row matches it *)
      unfold nl_join. cbn [flat_map]. apply Permutation_app.
      * rewrite (jf_lt_none l (r :: R')); [apply Permutation_refl|].
        intros x [<-|Hx]; [exact Hc|]. specialize (HrR x Hx). revert Hc HrR. generalize (fst l) (fst r) (fst x). cc.
      * apply (IH lo L' (r :: R') HL' HR); [cbn [length] in *; lia|].
        destruct Hn as [Hn|Hn]; [left; exact Hn|right].
        change (l :: L') with ([l] ++ L') in Hn. rewrite nulls_app in Hn. lia.
    + (* right key smaller: it matches no left row *)
      rewrite (IH lo (l :: L') R' HL HR'); [|cbn [length] in *; lia | exact Hn].
      unfold nl_join. rewrite (flat_map_ext_in' (fun l0 => emit lo l0 (filter (jf l0) (r :: R')))
                                                 (fun l0 => emit lo l0 (filter (jf l0) R'))); [apply Permutation_refl|].
      intros l' Hl'. f_equal. cbn [filter]. destruct (jf l' r) eqn:Hj; [|reflexivity].
      apply jf_eq in Hj. exfalso.
      destruct Hl' as [<-|Hl']; [congruence|]. specialize (HlL l' Hl'). revert Hc HlL Hj.
      generalize (fst l) (fst r) (fst l'). cc.
Qed.

(* full statement (fails): the same without the hypothesis on NULL keys.  Two left rows with NULL keys, one right row
   with a NULL key followed by a matching pair: the LEFT merge join loses the right row. *)
Theorem merge_join_left_refuted :
  exists L R, side_sorted L /\ side_sorted R /\
    ~ Permutation (merge_join (S (length L + length R)) true L R) (nl_join true L R).
Proof.
  exists [(None, [Some 1]); (None, [Some 2]); (Some 0, [Some 3])], [(None, [Some 1]); (Some 0, [Some 2])].
  split; [|split].
  - repeat constructor; cbn; discriminate.
  - repeat constructor; cbn; discriminate.
  - intro H. vm_compute in H.
    assert (Hin : In ([Some 3], Some [Some 2]) [([Some 1], None); ([Some 2], None); ([Some 3], None)]).
    { apply (Permutation_in _ (Permutation_sym H)). right. right. left. reflexivity. }
    cbn in Hin. destruct Hin as [Hin|[Hin|[Hin|[]]]]; discriminate.
Qed.

Lemma lookup_filter : forall l R, side_sorted R -> filter (jf l) (lookup (fst l) R) = filter (jf l) R.
Proof.
  intros l R HR. destruct (fst l) as [v|] eqn:Hfl; [|rewrite (jf_none l R Hfl); reflexivity].
  unfold lookup. destruct (v <? incr32 v) eqn:Hi.
  - assert (Hinc : incr32 v = v + 1) by (unfold incr32, max32, min32 in *; zb).
    rewrite (slice_filter sle); [| exact HR | |].
    + apply filter_filter_sub. intros x _ Hj. apply jf_eq in Hj. rewrite Hfl in Hj. apply cmp_cell_eq in Hj.
      rewrite <- Hj, Hinc. cbn [cmp_cell]. zb.
    + intros a b Hab. unfold sle in Hab. revert Hab. generalize (fst a) (fst b). cc.
    + intros a b Hab. unfold sle in Hab. revert Hab. generalize (fst a) (fst b). cc.
  - rewrite (slice_filter sle); [| exact HR | |].
    + rewrite filter_filter_sub.
      * apply filter_filter_sub. intros x _ Hj. apply jf_eq in Hj. rewrite Hfl in Hj. apply cmp_cell_eq in Hj.
        rewrite <- Hj. cbn [cmp_cell]. rewrite Z.compare_refl. reflexivity.
      * intros x _ Hj. apply jf_eq in Hj. rewrite Hfl in Hj. apply cmp_cell_eq in Hj.
        rewrite <- Hj. cbn [cmp_cell cmp_is_eq]. rewrite Z.compare_refl. reflexivity.
    + intros a b Hab. unfold sle in Hab. revert Hab. generalize (fst a) (fst b). cc.
    + intros a b Hab. unfold sle in Hab. revert Hab. generalize (fst a) (fst b). cc.
Qed.

Theorem lookup_join_spec :
  forall lo L R, side_sorted R -> lookup_join lo L R = nl_join lo L R.
Proof.
  intros lo L R HR. unfold lookup_join, nl_join. apply flat_map_ext. intros l.
  rewrite (lookup_filter l R HR). reflexivity.
Qed.
