(* C13 — the declarative diff of two sorted dictionaries. *)
From Coq Require Import NArith List Bool.
From Dolt Require Import Prolly.Tree C13.Model.
Import ListNotations.
Local Open Scope N_scope.

Fixpoint d_get (q : key) (d : list kv) : option val :=
  match d with
  | [] => None
  | (k, v) :: d' => if k =? q then Some v else d_get q d'
  end.

(* what a diff must say about one key *)
Definition key_change (k : key) (a b : list kv) : option change :=
  match d_get k a, d_get k b with
  | None, None => None
  | Some v, None => Some (Removed k v)
  | None, Some w => Some (Added k w)
  | Some v, Some w => if v =? w then None else Some (Modified k v w)
  end.

Definition change_key (c : change) : key :=
  match c with Added k _ => k | Removed k _ => k | Modified k _ _ => k end.

(* the diff as a merge of two sorted lists *)
Fixpoint list_diff (a b : list kv) : list change :=
  match a with
  | [] => map (fun e => Added (fst e) (snd e)) b
  | (ka, va) :: a' =>
    (fix inner (b : list kv) : list change :=
       match b with
       | [] => map (fun e => Removed (fst e) (snd e)) a
       | (kb, vb) :: b' =>
         if ka <? kb then Removed ka va :: list_diff a' b
         else if kb <? ka then Added kb vb :: inner b'
         else if va =? vb then list_diff a' b'
         else Modified ka va vb :: list_diff a' b'
       end) b
  end.

(* the same merge with the considerAllRowsModified flag: with the flag set, a key
   present on both sides is reported as Modified even when the values are equal *)
Fixpoint list_diff_g (am : bool) (a b : list kv) : list change :=
  match a with
  | [] => map (fun e => Added (fst e) (snd e)) b
  | (ka, va) :: a' =>
    (fix inner (b : list kv) : list change :=
       match b with
       | [] => map (fun e => Removed (fst e) (snd e)) a
       | (kb, vb) :: b' =>
         if ka <? kb then Removed ka va :: list_diff_g am a' b
         else if kb <? ka then Added kb vb :: inner b'
         else if am || negb (va =? vb) then Modified ka va vb :: list_diff_g am a' b'
         else list_diff_g am a' b'
       end) b
  end.

(* the diff on decoded rows: a key present on both sides is reported iff the two
   values decode to different rows (the reported from/to are the stored values) *)
Fixpoint list_diff_d (dec : val -> N) (a b : list kv) : list change :=
  match a with
  | [] => map (fun e => Added (fst e) (snd e)) b
  | (ka, va) :: a' =>
    (fix inner (b : list kv) : list change :=
       match b with
       | [] => map (fun e => Removed (fst e) (snd e)) a
       | (kb, vb) :: b' =>
         if ka <? kb then Removed ka va :: list_diff_d dec a' b
         else if kb <? ka then Added kb vb :: inner b'
         else if dec va =? dec vb then list_diff_d dec a' b'
         else Modified ka va vb :: list_diff_d dec a' b'
       end) b
  end.

Definition in_range (lo hi : option key) (k : key) : bool :=
  match lo with None => true | Some l => l <=? k end
  && match hi with None => true | Some h => k <? h end.

Definition d_range (lo hi : option key) (d : list kv) : list kv :=
  filter (fun e => in_range lo hi (fst e)) d.

Definition range_list_diff (lo hi : option key) (a b : list kv) : list change :=
  list_diff (d_range lo hi a) (d_range lo hi b).

Definition range_list_diff_d (dec : val -> N) (lo hi : option key) (a b : list kv) : list change :=
  list_diff_d dec (d_range lo hi a) (d_range lo hi b).
