(* C13 — model of the prolly tree differ (go/store/prolly/tree/diff.go,
   tree/map.go DiffOrderedTrees / DiffKeyRangeOrderedTrees, tuple_map.go
   DiffMaps / RangeDiffMaps / DiffMapsKeyRange) on the shared cursor model.
   No proofs in this file. *)
From Coq Require Import NArith ZArith List Bool.
From Dolt Require Import Prolly.Tree Prolly.Cursor.
Import ListNotations.
Local Open Scope N_scope.

(* tree.Diff: Type, Key, From, To *)
Inductive change :=
| Added (k : key) (v : val)
| Removed (k : key) (v : val)
| Modified (k : key) (v v' : val).

Section Differ.
  (* bytes.Equal on two child addresses. The model keeps the child where the
     code keeps its address, so this is a parameter; soundness (equal address =>
     equal subtree: `addr_inj`) is the hypothesis of the theorems. *)
  Variable addr_eqb : node -> node -> bool.

  Definition ent_eqb (a b : ent) : bool :=
    match a, b with
    | EV v, EV w => v =? w
    | EC _ n, EC _ m => addr_eqb n m
    | _, _ => false
    end.

  (* equalItems: key bytes and value bytes (a value, or a child address) *)
  Definition equal_items (x y : item) : bool := (fst x =? fst y) && ent_eqb (snd x) (snd y).

  (* equalParents *)
  Definition equal_parents (f t : cursor) : bool :=
    match f, t with
    | _ :: ((x :: _) :: _), _ :: ((y :: _) :: _) => equal_items x y
    | _, _ => false
    end.

  (* skipCommon, with skipCommonParents inlined. `pnew` is parentsAreNew.
     None = fuel exhausted. *)
  Fixpoint skip_common (fuel : nat) (pnew : bool) (f t : cursor) : option (cursor * cursor) :=
    match fuel with
    | O => None
    | S n =>
      match cur_item f, cur_item t with
      | Some x, Some y =>
        if negb (equal_items x y) then Some (f, t)
        else if pnew && equal_parents f t then
          (* skipCommonParents: skipCommon on the parents, then re-enter below them *)
          match skip_common n true (tl f) (tl t) with
          | Some (pf, pt) => skip_common n true (refetch pf) (refetch pt)
          | None => None
          end
        else
          skip_common n (at_node_end f || at_node_end t) (advance f) (advance t)
      | _, _ => Some (f, t)
      end
    end.

  (* td.from.Valid() && td.from.compare(td.fromStop) < 0 *)
  Definition in_bounds (c stop : cursor) : bool := cur_valid c && (cur_compare c stop <? 0)%Z.

  (* Differ.next in a loop, collecting the callbacks. None = fuel exhausted. *)
  Fixpoint diff_loop (fuel : nat) (all_mod : bool) (f t fstop tstop : cursor) : option (list change) :=
    match fuel with
    | O => None
    | S n =>
      let fin := in_bounds f fstop in
      let tin := in_bounds t tstop in
      let cons c r := match r with Some l => Some (c :: l) | None => None end in
      match (if fin then cur_kv f else None), (if tin then cur_kv t else None) with
      | Some (fk, fv), Some (tk, tv) =>
        if fk <? tk then cons (Removed fk fv) (diff_loop n all_mod (advance f) t fstop tstop)
        else if tk <? fk then cons (Added tk tv) (diff_loop n all_mod f (advance t) fstop tstop)
        else if all_mod || negb (fv =? tv)
        then cons (Modified fk fv tv) (diff_loop n all_mod (advance f) (advance t) fstop tstop)
        else match skip_common n true (advance f) (advance t) with
             | Some (f', t') => diff_loop n all_mod f' t' fstop tstop
             | None => None
             end
      | Some (fk, fv), None => cons (Removed fk fv) (diff_loop n all_mod (advance f) t fstop tstop)
      | None, Some (tk, tv) => cons (Added tk tv) (diff_loop n all_mod f (advance t) fstop tstop)
      | None, None => Some []
      end
    end.

  Definition diff_fuel (a b : node) : nat :=
    ((S (level a) + S (level b)) * (length (flatten a) + length (flatten b) + 2) + 8)%nat.

  (* DifferFromRoots + Next loop (DiffOrderedTrees) *)
  Definition tree_diff (all_mod : bool) (a b : node) : option (list change) :=
    diff_loop (diff_fuel a b) all_mod (cursor_at_start a) (cursor_at_start b)
              (cursor_past_end a) (cursor_past_end b).

  (* A value of the model stands for the *bytes* of a value tuple (the differ compares
     bytes); `dec` maps them to the row they decode to. Two encodings of one row exist
     in real data: the canonical tuple and the one that keeps trailing NULL fields. *)
  Variable dec : val -> N.

  (* makeDiffCallBack with equal value descriptors: a Modified diff whose values
     compare equal under valDesc.Compare (= decode to the same row) is dropped *)
  Definition canonical_filter (l : list change) : list change :=
    filter (fun c => match c with Modified _ v v' => negb (dec v =? dec v') | _ => true end) l.

  (* DiffMaps *)
  Definition diff_maps (all_mod : bool) (a b : node) : option (list change) :=
    option_map canonical_filter (tree_diff all_mod a b).

  Definition le_q (q : key) : key -> bool := fun k => q <=? k.

  (* DiffKeyRangeOrderedTrees (DiffMapsKeyRange): empty bound = start / past end *)
  Definition key_range_diff (lo hi : option key) (a b : node) : option (list change) :=
    let start t := match lo with None => cursor_at_start t | Some q => cursor_at_search (le_q q) t end in
    let stop t := match hi with None => cursor_past_end t | Some q => cursor_at_search (le_q q) t end in
    option_map canonical_filter (diff_loop (diff_fuel a b) false (start a) (start b) (stop a) (stop b)).

  (* DifferFromCursors (RangeDiffMaps) for a range lo <= k < hi: all four cursors
     come from the range's start/stop search functions *)
  Definition range_diff (lo hi : option key) (a b : node) : option (list change) :=
    let ps := match lo with None => fun _ => true | Some q => le_q q end in
    let pe := match hi with None => fun _ => false | Some q => le_q q end in
    option_map canonical_filter
      (diff_loop (diff_fuel a b) false (cursor_at_search ps a) (cursor_at_search ps b)
                 (cursor_at_search pe a) (cursor_at_search pe b)).
End Differ.
