(* C13 — proofs.

   Proved (bottom of the file): tree_diff_spec / diff_maps_spec — for every pair of
   well-formed trees of any depths and shapes, under addr_inj, the differ as
   implemented (two stack cursors, skipCommon / skipCommonParents with
   parentsAreNew, either value of considerAllRowsModified, the model's own fuel)
   returns exactly the declarative diff of the two flattenings.
   Bounded key ranges: range_diff_spec (end of the file), for every [start, stop). *)
From Coq Require Import NArith ZArith PeanoNat List Bool Lia.
From Dolt Require Import Prolly.Tree Prolly.Cursor C13.Model C13.Spec.
Import ListNotations.
Local Open Scope N_scope.

Section WithAddr.
  Variable addr_eqb : node -> node -> bool.
  (* addr_inj: equal child address => equal subtree *)
  Hypothesis addr_inj : forall x y, addr_eqb x y = true -> x = y.

  (* skipping an equal (key, address) entry skips the same key/value pairs on both sides *)
  Theorem skip_sound x y : equal_items addr_eqb x y = true -> flat_item x = flat_item y.
  Proof.
    unfold equal_items. destruct x as [k [v|c n]], y as [k' [v'|c' n']]; cbn [fst snd ent_eqb]; intros H;
      apply andb_true_iff in H as [Hk He]; try discriminate.
    - apply N.eqb_eq in Hk, He. subst. reflexivity.
    - apply addr_inj in He. subst. reflexivity.
  Qed.

  (* ... and both cursors are then positioned on entries with the same key *)
  Lemma equal_items_key x y : equal_items addr_eqb x y = true -> fst x = fst y.
  Proof. unfold equal_items. intros H. apply andb_true_iff in H as [Hk _]. apply N.eqb_eq, Hk. Qed.
End WithAddr.

(* structural equality is a sound address comparison *)
Lemma kvs_eqb_sound a b : kvs_eqb a b = true -> a = b.
Proof.
  revert b. induction a as [|[k v] a IH]; intros [|[k' v'] b] H; cbn [kvs_eqb] in H; try discriminate; [reflexivity|].
  apply andb_true_iff in H as [H H3]. apply andb_true_iff in H as [H1 H2].
  apply N.eqb_eq in H1, H2. subst. f_equal. apply IH, H3.
Qed.

Lemma node_eqb_sound : forall x y, node_eqb x y = true -> x = y.
Proof.
  induction x as [kvs|cs IH] using node_ind'; intros [kvs'|cs'] H; cbn [node_eqb] in H; try discriminate.
  - f_equal. apply kvs_eqb_sound, H.
  - f_equal. revert cs' H. induction IH as [|[[k c] ch] cs Hch _ IHcs]; intros [|[[k' c'] ch'] cs'] H; try discriminate; [reflexivity|].
    apply andb_true_iff in H as [H H4]. apply andb_true_iff in H as [H H3]. apply andb_true_iff in H as [H1 H2].
    apply N.eqb_eq in H1, H2. subst. unfold ent_child in Hch. cbn [snd] in Hch.
    rewrite (Hch ch' H3). f_equal. apply IHcs, H4.
Qed.

(* ---- algebra of the declarative diff ---------------------------------------- *)

Theorem list_diff_refl a : list_diff a a = [].
Proof.
  induction a as [|[k v] a IH]; [reflexivity|].
  cbn [list_diff]. rewrite N.ltb_irrefl, N.eqb_refl. exact IH.
Qed.

Theorem list_diff_common_prefix p a b : list_diff (p ++ a) (p ++ b) = list_diff a b.
Proof.
  induction p as [|[k v] p IH]; [reflexivity|].
  cbn [app list_diff]. rewrite N.ltb_irrefl, N.eqb_refl. exact IH.
Qed.

Theorem list_diff_nil_l b : list_diff [] b = map (fun e => Added (fst e) (snd e)) b.
Proof. reflexivity. Qed.

Theorem list_diff_nil_r a : list_diff a [] = map (fun e => Removed (fst e) (snd e)) a.
Proof. destruct a as [|[k v] a]; reflexivity. Qed.

(* the head step of the merge, stated on dictionaries *)
Theorem list_diff_head ka va a kb vb b :
  list_diff ((ka, va) :: a) ((kb, vb) :: b) =
  if ka <? kb then Removed ka va :: list_diff a ((kb, vb) :: b)
  else if kb <? ka then Added kb vb :: list_diff ((ka, va) :: a) b
  else if va =? vb then list_diff a b
  else Modified ka va vb :: list_diff a b.
Proof. reflexivity. Qed.

(* non-vacuity / sanity: the differ model on a three-level pair with one edit *)
Definition ta : node :=
  Inner [(5, 3, Inner [(2, 2, Leaf [(1, 10); (2, 20)]); (5, 1, Leaf [(5, 50)])]);
         (9, 2, Inner [(9, 2, Leaf [(7, 70); (9, 90)])])].
Definition tb : node :=
  Inner [(5, 3, Inner [(2, 2, Leaf [(1, 10); (2, 20)]); (5, 1, Leaf [(5, 50)])]);
         (9, 3, Inner [(9, 3, Leaf [(7, 71); (8, 80); (9, 90)])])].
Example tree_diff_example :
  wf ta /\ wf tb /\
  tree_diff node_eqb false ta tb = Some (list_diff (flatten ta) (flatten tb)) /\
  list_diff (flatten ta) (flatten tb) = [Modified 7 70 71; Added 8 80].
Proof. repeat split; try (apply wfb_sound; vm_compute; reflexivity); vm_compute; reflexivity. Qed.

(* ======================================================================== *)
(* The differ is the declarative diff, for trees of every depth              *)
(* ======================================================================== *)

Lemma list_diff_g_cons am ka va a kb vb b :
  list_diff_g am ((ka, va) :: a) ((kb, vb) :: b) =
  if ka <? kb then Removed ka va :: list_diff_g am a ((kb, vb) :: b)
  else if kb <? ka then Added kb vb :: list_diff_g am ((ka, va) :: a) b
  else if am || negb (va =? vb) then Modified ka va vb :: list_diff_g am a b
  else list_diff_g am a b.
Proof. reflexivity. Qed.

Lemma list_diff_g_nil_r am a : list_diff_g am a [] = map (fun e => Removed (fst e) (snd e)) a.
Proof. destruct a as [|[k v] a]; reflexivity. Qed.

Lemma list_diff_g_false a : forall b, list_diff_g false a b = list_diff a b.
Proof.
  induction a as [|[ka va] a IHa]; intros b; [reflexivity|].
  induction b as [|[kb vb] b IHb]; [reflexivity|].
  rewrite list_diff_g_cons, list_diff_head. cbn [orb].
  destruct (ka <? kb); [f_equal; apply IHa|].
  destruct (kb <? ka); [f_equal; exact IHb|].
  destruct (va =? vb); cbn [negb]; [apply IHa | f_equal; apply IHa].
Qed.

Lemma list_diff_g_common_prefix p a b : list_diff_g false (p ++ a) (p ++ b) = list_diff_g false a b.
Proof. rewrite !list_diff_g_false. apply list_diff_common_prefix. Qed.

Lemma list_diff_d_cons dec ka va a kb vb b :
  list_diff_d dec ((ka, va) :: a) ((kb, vb) :: b) =
  if ka <? kb then Removed ka va :: list_diff_d dec a ((kb, vb) :: b)
  else if kb <? ka then Added kb vb :: list_diff_d dec ((ka, va) :: a) b
  else if dec va =? dec vb then list_diff_d dec a b
  else Modified ka va vb :: list_diff_d dec a b.
Proof. reflexivity. Qed.

Lemma canonical_filter_map_added dec b :
  canonical_filter dec (map (fun e : kv => Added (fst e) (snd e)) b) = map (fun e => Added (fst e) (snd e)) b.
Proof.
  induction b as [|e b IH]; [reflexivity|]. cbn [map canonical_filter filter].
  fold (canonical_filter dec (map (fun e : kv => Added (fst e) (snd e)) b)). rewrite IH. reflexivity.
Qed.

Lemma canonical_filter_map_removed dec b :
  canonical_filter dec (map (fun e : kv => Removed (fst e) (snd e)) b) = map (fun e => Removed (fst e) (snd e)) b.
Proof.
  induction b as [|e b IH]; [reflexivity|]. cbn [map canonical_filter filter].
  fold (canonical_filter dec (map (fun e : kv => Removed (fst e) (snd e)) b)). rewrite IH. reflexivity.
Qed.

Lemma canonical_filter_cons dec c l :
  canonical_filter dec (c :: l) =
  if match c with Modified _ v v' => negb (dec v =? dec v') | _ => true end
  then c :: canonical_filter dec l else canonical_filter dec l.
Proof. reflexivity. Qed.

(* makeDiffCallBack after the differ (either flag value) leaves the diff of the decoded rows:
   a key whose two stored values decode to the same row is not reported *)
Lemma canonical_filter_g dec am a : forall b,
  canonical_filter dec (list_diff_g am a b) = list_diff_d dec a b.
Proof.
  induction a as [|[ka va] a IHa]; intros b; [apply canonical_filter_map_added|].
  induction b as [|[kb vb] b IHb]; [apply canonical_filter_map_removed|].
  rewrite list_diff_g_cons, list_diff_d_cons. destruct (ka <? kb).
  - rewrite canonical_filter_cons. f_equal. apply IHa.
  - destruct (kb <? ka).
    + rewrite canonical_filter_cons. f_equal. exact IHb.
    + destruct (va =? vb) eqn:E; cbn [negb]; rewrite ?orb_false_r, ?orb_true_r.
      * apply N.eqb_eq in E. subst vb. rewrite N.eqb_refl.
        destruct am; [rewrite canonical_filter_cons, N.eqb_refl; cbn [negb]|]; apply IHa.
      * rewrite canonical_filter_cons. destruct (dec va =? dec vb); cbn [negb]; [apply IHa | f_equal; apply IHa].
Qed.

(* with an injective decoding (one encoding per row) this is the byte-level diff *)
Lemma list_diff_d_id a : forall b, list_diff_d (fun v => v) a b = list_diff a b.
Proof.
  induction a as [|[ka va] a IHa]; intros b; [reflexivity|].
  induction b as [|[kb vb] b IHb]; [reflexivity|].
  rewrite list_diff_d_cons, list_diff_head.
  destruct (ka <? kb); [f_equal; apply IHa|].
  destruct (kb <? ka); [f_equal; exact IHb|].
  destruct (va =? vb); [apply IHa | f_equal; apply IHa].
Qed.

Lemma split_unique (l1 : list kv) : forall l2 r1 r2 e,
  ksorted (keys (l1 ++ e :: r1)) -> l1 ++ e :: r1 = l2 ++ e :: r2 -> l1 = l2.
Proof.
  induction l1 as [|a l1 IH]; intros l2 r1 r2 e Hs E.
  - destruct l2 as [|b l2]; [reflexivity|]. exfalso. cbn [app] in E. injection E as E1 E2. subst b.
    cbn [app keys map] in Hs. inversion Hs as [|? ? _ Hf]; subst. rewrite Forall_forall in Hf.
    assert (Hin : In (fst e) (map fst (l2 ++ e :: r2))).
    { apply in_map. apply in_or_app. right. left. reflexivity. }
    specialize (Hf _ Hin). lia.
  - destruct l2 as [|b l2].
    + exfalso. cbn [app] in E. injection E as E1 E2. subst a.
      cbn [app keys map] in Hs. inversion Hs as [|? ? _ Hf]; subst. rewrite Forall_forall in Hf.
      assert (Hin : In (fst e) (map fst (l1 ++ e :: r1))).
      { apply in_map. apply in_or_app. right. left. reflexivity. }
      specialize (Hf _ Hin). lia.
    + cbn [app] in E. injection E as E1 E2. subst b. f_equal.
      cbn [app keys map] in Hs. inversion Hs as [|? ? Hs' _]; subst. apply (IH l2 r1 r2 e Hs' E2).
Qed.

Lemma same_rest (G pre1 pre2 X R1 R2 : list kv) :
  ksorted (keys G) -> X <> [] -> G = pre1 ++ X ++ R1 -> G = pre2 ++ X ++ R2 -> X ++ R1 = X ++ R2.
Proof.
  intros Hs HX E1 E2. destruct X as [|e X]; [contradiction|].
  cbn [app] in *. rewrite E1 in Hs. rewrite E1 in E2.
  pose proof (split_unique pre1 pre2 (X ++ R1) (X ++ R2) e Hs E2) as Hp. subst pre2.
  apply app_inv_head in E2. exact E2.
Qed.

Lemma sorted_mid (b m r : list kv) : ksorted (keys (b ++ m ++ r)) -> ksorted (keys m).
Proof.
  rewrite !keys_app. intros H. apply ksorted_app in H as (_ & H & _). apply ksorted_app in H as (H & _). exact H.
Qed.

Lemma cur_item_some c x : cur_item c = Some x -> exists fx par, c = (x :: fx) :: par.
Proof. destruct c as [|[|y fx] par]; cbn [cur_item]; intros H; try discriminate. injection H as ->. eauto. Qed.

Lemma cur_item_valid c x : cur_item c = Some x -> cur_valid c = true.
Proof. destruct c as [|[|y fx] par]; cbn [cur_item]; intros H; try discriminate. reflexivity. Qed.

Section Correct.
  Variable addr_eqb : node -> node -> bool.
  Hypothesis addr_inj : forall x y, addr_eqb x y = true -> x = y.
  Variables Ta Tb : list kv.
  Hypothesis HTa : ksorted (keys Ta).
  Hypothesis HTb : ksorted (keys Tb).

  Lemma equal_parents_true f t :
    equal_parents addr_eqb f t = true ->
    exists fr g0 gr pf tr h0 hr pt,
      f = fr :: (g0 :: gr) :: pf /\ t = tr :: (h0 :: hr) :: pt /\ equal_items addr_eqb g0 h0 = true.
  Proof.
    unfold equal_parents. destruct f as [|fr [|[|g0 gr] pf]]; try discriminate.
    destruct t as [|tr [|[|h0 hr] pt]]; try discriminate. intros H.
    exists fr, g0, gr, pf, tr, h0, hr, pt. auto.
  Qed.

  (* the node under the parents' (equal) current entries is the same on both sides,
     and both cursors stand on the same entry of it: the rest of the node is the same *)
  Lemma frames_equal T1 T2 i x fx g0 gr pf y ty h0 hr pt :
    ksorted (keys T1) ->
    cinv T1 i ((x :: fx) :: (g0 :: gr) :: pf) -> cinv T2 i ((y :: ty) :: (h0 :: hr) :: pt) ->
    equal_items addr_eqb x y = true -> equal_items addr_eqb g0 h0 = true ->
    flat_frame (x :: fx) = flat_frame (y :: ty).
  Proof.
    intros HT1 (_ & Hso1 & _ & Hli1 & Hpos1) (_ & _ & _ & Hli2 & _) Exy Egh.
    cbn [linked] in Hli1, Hli2. destruct Hli1 as [[pre1 E1] _]. destruct Hli2 as [[pre2 E2] _].
    pose proof (skip_sound addr_eqb addr_inj _ _ Exy) as HX.
    pose proof (skip_sound addr_eqb addr_inj _ _ Egh) as HG.
    rewrite !flat_frame_cons. rewrite <- HX.
    rewrite flat_frame_cons in E1. rewrite flat_frame_cons, <- HX, <- HG in E2.
    apply (same_rest (flat_item g0) pre1 pre2 (flat_item x) (flat_frame fx) (flat_frame ty)); try assumption.
    - unfold pos_ok in Hpos1. cbn [sems] in Hpos1. inversion Hpos1 as [|? ? _ Hp].
      inversion Hp as [|? ? Hsuf _]. destruct Hsuf as [b Hb]. rewrite flat_frame_cons, <- app_assoc in Hb.
      rewrite Hb in HT1. apply (sorted_mid _ _ _ HT1).
    - destruct Hso1 as [Hf _]. inversion Hf as [|? ? Hx _]; subst. apply (item_ok_ne _ _ Hx).
  Qed.

  (* skipCommon: both cursors move past one common run of key/value pairs; when the
     current entries are equal the run contains at least that entry *)
  Lemma skip_ok n : forall i pnew f t f' t',
    cinv Ta i f -> cinv Tb i t ->
    skip_common addr_eqb n pnew f t = Some (f', t') ->
    cinv Ta i f' /\ cinv Tb i t' /\ length f' = length f /\ length t' = length t /\
    exists p, cur_sem f = p ++ cur_sem f' /\ cur_sem t = p ++ cur_sem t' /\
      (forall x y, cur_item f = Some x -> cur_item t = Some y -> equal_items addr_eqb x y = true ->
                   exists p', p = flat_item x ++ p').
  Proof.
    induction n as [|n IH]; intros i pnew f t f' t' If It H; [discriminate|].
    cbn [skip_common] in H.
    destruct (cur_item f) as [x|] eqn:Ex.
    2:{ injection H as <- <-. split; [exact If|]. split; [exact It|]. split; [reflexivity|]. split; [reflexivity|].
        exists []. split; [reflexivity|]. split; [reflexivity|]. intros; discriminate. }
    destruct (cur_item t) as [y|] eqn:Ey.
    2:{ injection H as <- <-. split; [exact If|]. split; [exact It|]. split; [reflexivity|]. split; [reflexivity|].
        exists []. split; [reflexivity|]. split; [reflexivity|]. intros; discriminate. }
    destruct (equal_items addr_eqb x y) eqn:Exy; cbn [negb] in H.
    2:{ injection H as <- <-. split; [exact If|]. split; [exact It|]. split; [reflexivity|]. split; [reflexivity|].
        exists []. split; [reflexivity|]. split; [reflexivity|].
        intros x' y' Hx' Hy' He. injection Hx' as <-. injection Hy' as <-. congruence. }
    pose proof (skip_sound addr_eqb addr_inj _ _ Exy) as HX.
    destruct (pnew && equal_parents addr_eqb f t) eqn:Eup.
    - (* skipCommonParents *)
      apply andb_true_iff in Eup as [_ Eup].
      destruct (equal_parents_true f t Eup) as (fr & g0 & gr & pf & tr & h0 & hr & pt & -> & -> & Egh).
      cbn [tl] in H. cbn [cur_item] in Ex, Ey.
      destruct fr as [|x0 fx]; [discriminate|]. injection Ex as ->.
      destruct tr as [|y0 ty]; [discriminate|]. injection Ey as ->.
      destruct (skip_common addr_eqb n true ((g0 :: gr) :: pf) ((h0 :: hr) :: pt)) as [[qf qt]|] eqn:E1; [|discriminate].
      pose proof (cinv_tl _ _ _ _ _ If) as Ipf. pose proof (cinv_tl _ _ _ _ _ It) as Ipt.
      destruct (IH (S i) true _ _ _ _ Ipf Ipt E1) as (Iqf & Iqt & Lqf & Lqt & p1 & S1 & S2 & Hhead).
      destruct (Hhead g0 h0 eq_refl eq_refl Egh) as (p2 & ->).
      destruct (refetch_cinv _ _ _ Iqf) as (Irf & Srf). destruct (refetch_cinv _ _ _ Iqt) as (Irt & Srt).
      destruct (IH i true _ _ _ _ Irf Irt H) as (If' & It' & Lf' & Lt' & p3 & S3 & S4 & _).
      pose proof (skip_sound addr_eqb addr_inj _ _ Egh) as HG.
      cbn [cur_sem] in S1, S2. rewrite flat_frame_cons, <- !app_assoc in S1, S2. rewrite <- HG in S2.
      apply app_inv_head in S1, S2.
      pose proof (frames_equal Ta Tb i x fx g0 gr pf y ty h0 hr pt HTa If It Exy Egh) as HF.
      split; [exact If'|]. split; [exact It'|].
      split; [rewrite Lf', refetch_length, Lqf; reflexivity|].
      split; [rewrite Lt', refetch_length, Lqt; reflexivity|].
      { exists (flat_frame (x :: fx) ++ p2 ++ p3). split; [|split].
        * cbn [cur_sem above tl]. rewrite S1, <- Srf, S3, <- !app_assoc. reflexivity.
        * cbn [cur_sem above tl]. rewrite S2, <- Srt, S4, HF, <- !app_assoc. reflexivity.
        * intros x' y' Hx' _ _. injection Hx' as <-. exists (flat_frame fx ++ p2 ++ p3).
          rewrite flat_frame_cons, <- app_assoc. reflexivity. }
    - (* advance both *)
      destruct (advance_cinv Ta i f If (cur_item_valid _ _ Ex)) as (Iaf & Laf & x1 & Ex1 & _ & Sf).
      destruct (advance_cinv Tb i t It (cur_item_valid _ _ Ey)) as (Iat & Lat & y1 & Ey1 & _ & St).
      rewrite Ex in Ex1. injection Ex1 as <-. rewrite Ey in Ey1. injection Ey1 as <-.
      destruct (IH i _ _ _ _ _ Iaf Iat H) as (If' & It' & Lf' & Lt' & p' & S3 & S4 & _).
      split; [exact If'|]. split; [exact It'|]. split; [congruence|]. split; [congruence|].
      exists (flat_item x ++ p'). split; [|split].
      + rewrite Sf, S3, <- app_assoc. reflexivity.
      + rewrite St, S4, <- HX, <- app_assoc. reflexivity.
      + intros x' y' Hx' _ _. injection Hx' as <-. exists p'. reflexivity.
  Qed.

  (* ---- the stop cursor of a whole-tree diff ---------------------------------- *)

  Lemma repeat_snoc {A} (x : A) n : repeat x n ++ [x] = x :: repeat x n.
  Proof. induction n as [|n IH]; [reflexivity|]. cbn [repeat app]. rewrite IH. reflexivity. Qed.

  Lemma rev_repeat {A} (x : A) n : rev (repeat x n) = repeat x n.
  Proof. induction n as [|n IH]; [reflexivity|]. cbn [repeat rev]. rewrite IH. apply repeat_snoc. Qed.

  Lemma live_rev_head c : c <> [] -> live c -> exists r rest, rev c = r :: rest /\ r <> [].
  Proof.
    intros Hne Hl. destruct (rev c) as [|r rest] eqn:E.
    - exfalso. apply Hne. rewrite <- (rev_involutive c), E. reflexivity.
    - exists r, rest. split; [reflexivity|]. unfold live in Hl. rewrite Forall_forall in Hl. apply Hl.
      apply in_rev. rewrite E. left. reflexivity.
  Qed.

  (* compare(cur, pastEnd) < 0 exactly when the cursor is still in bounds *)
  Lemma in_bounds_past_end T i c s : cinv T i c -> in_bounds c (repeat [] (S s)) = cur_valid c.
  Proof.
    intros (Hne & _ & Hlod & _ & _). unfold in_bounds. destruct (cur_valid c) eqn:V; [|reflexivity].
    cbn [andb]. pose proof (live_or_dead_valid c Hne Hlod V) as Hl.
    destruct (live_rev_head c Hne Hl) as (r & rest & E & Hr).
    unfold cur_compare. rewrite E, rev_repeat. cbn [repeat cmp_rf length].
    destruct r as [|r0 r']; [contradiction|]. cbn [length].
    destruct (Z.of_nat 0 - Z.of_nat (S (length r')) =? 0)%Z eqn:E0; [apply Z.eqb_eq in E0; lia|].
    apply Z.ltb_lt. lia.
  Qed.

  Lemma leaf_view T c :
    cinv T 0 c -> cur_valid c = true ->
    exists k v, cur_kv c = Some (k, v) /\ cur_sem c = (k, v) :: cur_sem (advance c)
                /\ cinv T 0 (advance c) /\ length (advance c) = length c.
  Proof.
    intros Hc V. destruct (advance_cinv T 0 c Hc V) as (Ia & La & x & Ex & Hx & Sx).
    destruct x as [k [v|cn n]].
    - exists k, v. unfold cur_kv. rewrite Ex. split; [reflexivity|]. split; [exact Sx|]. split; assumption.
    - unfold item_ok in Hx. cbn [snd] in Hx. destruct Hx as [Hx _]. discriminate.
  Qed.

  Lemma invalid_view T i c : cinv T i c -> cur_valid c = false -> cur_kv c = None /\ cur_sem c = [].
  Proof.
    intros (Hne & _ & Hlod & _ & _) V. split.
    - unfold cur_kv. destruct c as [|[|x f] par]; [reflexivity|reflexivity|discriminate].
    - apply dead_sem. apply (live_or_dead_invalid c Hne Hlod V).
  Qed.

  (* ---- partial correctness of the Next loop ------------------------------------- *)

  Lemma diff_ok n : forall am f t sa sb r,
    cinv Ta 0 f -> cinv Tb 0 t ->
    diff_loop addr_eqb n am f t (repeat [] (S sa)) (repeat [] (S sb)) = Some r ->
    r = list_diff_g am (cur_sem f) (cur_sem t).
  Proof.
    induction n as [|n IH]; intros am f t sa sb r If It H; [discriminate|].
    cbn [diff_loop] in H.
    rewrite (in_bounds_past_end Ta 0 f sa If), (in_bounds_past_end Tb 0 t sb It) in H.
    destruct (cur_valid f) eqn:Vf; destruct (cur_valid t) eqn:Vt; cbv iota in H.
    - destruct (leaf_view Ta f If Vf) as (fk & fv & Kf & Sf & Iaf & _).
      destruct (leaf_view Tb t It Vt) as (tk & tv & Kt & St & Iat & _).
      rewrite Kf, Kt in H. rewrite Sf, St, list_diff_g_cons.
      destruct (fk <? tk).
      { destruct (diff_loop addr_eqb n am (advance f) t _ _) as [l|] eqn:E; [|discriminate].
        injection H as <-. f_equal. rewrite (IH _ _ _ _ _ _ Iaf It E), St. reflexivity. }
      destruct (tk <? fk).
      { destruct (diff_loop addr_eqb n am f (advance t) _ _) as [l|] eqn:E; [|discriminate].
        injection H as <-. f_equal. rewrite (IH _ _ _ _ _ _ If Iat E), Sf. reflexivity. }
      destruct (am || negb (fv =? tv)) eqn:Em.
      { destruct (diff_loop addr_eqb n am (advance f) (advance t) _ _) as [l|] eqn:E; [|discriminate].
        injection H as <-. f_equal. apply (IH _ _ _ _ _ _ Iaf Iat E). }
      destruct (skip_common addr_eqb n true (advance f) (advance t)) as [[f' t']|] eqn:Es; [|discriminate].
      destruct (skip_ok n 0 true _ _ _ _ Iaf Iat Es) as (If' & It' & _ & _ & p & S1 & S2 & _).
      rewrite (IH _ _ _ _ _ _ If' It' H). rewrite S1, S2.
      apply orb_false_iff in Em as [-> _]. symmetry. apply list_diff_g_common_prefix.
    - destruct (leaf_view Ta f If Vf) as (fk & fv & Kf & Sf & Iaf & _).
      destruct (invalid_view Tb 0 t It Vt) as (Kt & St).
      rewrite Kf in H. rewrite Sf, St, list_diff_g_nil_r. cbn [map fst snd].
      destruct (diff_loop addr_eqb n am (advance f) t _ _) as [l|] eqn:E; [|discriminate].
      injection H as <-. f_equal. rewrite (IH _ _ _ _ _ _ Iaf It E), St. apply list_diff_g_nil_r.
    - destruct (invalid_view Ta 0 f If Vf) as (Kf & Sf).
      destruct (leaf_view Tb t It Vt) as (tk & tv & Kt & St & Iat & _).
      rewrite Kt in H. rewrite Sf, St. cbn [list_diff_g map fst snd].
      destruct (diff_loop addr_eqb n am f (advance t) _ _) as [l|] eqn:E; [|discriminate].
      injection H as <-. f_equal. rewrite (IH _ _ _ _ _ _ If Iat E), Sf. reflexivity.
    - destruct (invalid_view Ta 0 f If Vf) as (_ & Sf). destruct (invalid_view Tb 0 t It Vt) as (_ & St).
      injection H as <-. rewrite Sf, St. reflexivity.
  Qed.

  (* ---- fuel adequacy ---------------------------------------------------------------- *)

  Lemma cinv_sem_le T i c : cinv T i c -> (length (cur_sem c) <= length T)%nat.
  Proof.
    intros (Hne & _ & _ & _ & Hpos). unfold pos_ok in Hpos. rewrite (sems_hd _ Hne) in Hpos.
    inversion Hpos as [|? ? Hs _]; subst. apply suffix_length, Hs.
  Qed.

  Lemma skip_total n : forall i pnew f t,
    cinv Ta i f -> cinv Tb i t ->
    (length (cur_sem f) + (length f - 1) * S (length Ta) < n)%nat ->
    skip_common addr_eqb n pnew f t <> None.
  Proof.
    induction n as [|n IH]; intros i pnew f t If It Hn; [exfalso; exact (Nat.nlt_0_r _ Hn)|].
    cbn [skip_common].
    destruct (cur_item f) as [x|] eqn:Ex; [|discriminate].
    destruct (cur_item t) as [y|] eqn:Ey; [|discriminate].
    destruct (equal_items addr_eqb x y) eqn:Exy; cbn [negb]; [|discriminate].
    destruct (pnew && equal_parents addr_eqb f t) eqn:Eup.
    - apply andb_true_iff in Eup as [_ Eup].
      destruct (equal_parents_true f t Eup) as (fr & g0 & gr & pf & tr & h0 & hr & pt & -> & -> & Egh).
      cbn [tl]. cbn [cur_item] in Ex, Ey.
      destruct fr as [|x0 fx]; [discriminate|]. injection Ex as ->.
      destruct tr as [|y0 ty]; [discriminate|]. injection Ey as ->.
      pose proof (cinv_tl _ _ _ _ _ If) as Ipf. pose proof (cinv_tl _ _ _ _ _ It) as Ipt.
      pose proof (cinv_sem_le _ _ _ Ipf) as Hle.
      assert (Hx1 : (1 <= length (flat_item x))%nat).
      { destruct If as (_ & [Hf _] & _). inversion Hf as [|? ? Hx _]; subst.
        pose proof (item_ok_ne _ _ Hx). destruct (flat_item x); [contradiction|cbn; lia]. }
      cbn [length] in Hn. replace (S (S (length pf)) - 1)%nat with (S (length pf)) in Hn by lia.
      rewrite Nat.mul_succ_l in Hn. set (K := (length pf * S (length Ta))%nat) in *.
      assert (Hsf : length (cur_sem ((x :: fx) :: (g0 :: gr) :: pf))
                    = (length (flat_frame (x :: fx)) + length (above ((g0 :: gr) :: pf)))%nat)
        by (cbn [cur_sem]; apply app_length).
      assert (HF1 : (1 <= length (flat_frame (x :: fx)))%nat)
        by (rewrite flat_frame_cons, app_length; lia).
      destruct (skip_common addr_eqb n true ((g0 :: gr) :: pf) ((h0 :: hr) :: pt)) as [[qf qt]|] eqn:E1.
      + destruct (skip_ok n (S i) true _ _ _ _ Ipf Ipt E1) as (Iqf & Iqt & Lqf & Lqt & p1 & S1 & S2 & Hhead).
        destruct (Hhead g0 h0 eq_refl eq_refl Egh) as (p2 & ->).
        destruct (refetch_cinv _ _ _ Iqf) as (Irf & Srf). destruct (refetch_cinv _ _ _ Iqt) as (Irt & Srt).
        apply (IH i true _ _ Irf Irt).
        cbn [cur_sem] in S1. rewrite flat_frame_cons, <- !app_assoc in S1. apply app_inv_head in S1.
        assert (Hq : (length (cur_sem qf) <= length (above ((g0 :: gr) :: pf)))%nat).
        { cbn [above tl]. rewrite S1, app_length. lia. }
        rewrite Srf, refetch_length, Lqf. cbn [length].
        replace (S (S (length pf)) - 1)%nat with (S (length pf)) by lia. rewrite Nat.mul_succ_l. fold K. lia.
      + exfalso. apply (IH (S i) true _ _ Ipf Ipt); [|exact E1].
        cbn [length]. replace (S (length pf) - 1)%nat with (length pf) by lia. fold K. lia.
    - destruct (advance_cinv Ta i f If (cur_item_valid _ _ Ex)) as (Iaf & Laf & x1 & Ex1 & Hx1 & Sf).
      destruct (advance_cinv Tb i t It (cur_item_valid _ _ Ey)) as (Iat & _).
      apply (IH i _ _ _ Iaf Iat). rewrite Laf.
      pose proof (item_ok_ne _ _ Hx1). rewrite Sf, app_length in Hn.
      set (K := ((length f - 1) * S (length Ta))%nat) in *.
      destruct (flat_item x1); [contradiction|cbn [length] in Hn; lia].
  Qed.

  Lemma diff_total n : forall am f t sa sb,
    cinv Ta 0 f -> cinv Tb 0 t ->
    (length (cur_sem f) + length (cur_sem t) + (length f - 1) * S (length Ta) + 1 < n)%nat ->
    diff_loop addr_eqb n am f t (repeat [] (S sa)) (repeat [] (S sb)) <> None.
  Proof.
    induction n as [|n IH]; intros am f t sa sb If It Hn; [exfalso; exact (Nat.nlt_0_r _ Hn)|].
    cbn [diff_loop].
    rewrite (in_bounds_past_end Ta 0 f sa If), (in_bounds_past_end Tb 0 t sb It).
    set (K := ((length f - 1) * S (length Ta))%nat) in *.
    destruct (cur_valid f) eqn:Vf; destruct (cur_valid t) eqn:Vt; cbv iota.
    - destruct (leaf_view Ta f If Vf) as (fk & fv & Kf & Sf & Iaf & Laf).
      destruct (leaf_view Tb t It Vt) as (tk & tv & Kt & St & Iat & Lat).
      rewrite Kf, Kt. rewrite Sf, St in Hn. cbn [length] in Hn.
      destruct (fk <? tk).
      { pose proof (IH am (advance f) t sa sb Iaf It) as H. rewrite Laf, St in H. cbn [length] in H.
        destruct (diff_loop addr_eqb n am (advance f) t _ _); [discriminate|]. exfalso. apply H; [lia|reflexivity]. }
      destruct (tk <? fk).
      { pose proof (IH am f (advance t) sa sb If Iat) as H. rewrite Sf in H. cbn [length] in H.
        destruct (diff_loop addr_eqb n am f (advance t) _ _); [discriminate|]. exfalso. apply H; [lia|reflexivity]. }
      destruct (am || negb (fv =? tv)).
      { pose proof (IH am (advance f) (advance t) sa sb Iaf Iat) as H. rewrite Laf in H.
        destruct (diff_loop addr_eqb n am (advance f) (advance t) _ _); [discriminate|]. exfalso. apply H; [lia|reflexivity]. }
      destruct (skip_common addr_eqb n true (advance f) (advance t)) as [[f' t']|] eqn:Es.
      + destruct (skip_ok n 0 true _ _ _ _ Iaf Iat Es) as (If' & It' & Lf' & _ & p & S1 & S2 & _).
        apply (IH am f' t' sa sb If' It'). rewrite Lf', Laf.
        rewrite S1, app_length in Hn. rewrite S2, app_length in Hn. lia.
      + exfalso. apply (skip_total n 0 true _ _ Iaf Iat); [rewrite Laf; lia | exact Es].
    - destruct (leaf_view Ta f If Vf) as (fk & fv & Kf & Sf & Iaf & Laf).
      destruct (invalid_view Tb 0 t It Vt) as (Kt & St).
      rewrite Kf. rewrite Sf in Hn. cbn [length] in Hn.
      pose proof (IH am (advance f) t sa sb Iaf It) as H. rewrite Laf in H.
      destruct (diff_loop addr_eqb n am (advance f) t _ _); [discriminate|]. exfalso. apply H; [lia|reflexivity].
    - destruct (invalid_view Ta 0 f If Vf) as (Kf & Sf).
      destruct (leaf_view Tb t It Vt) as (tk & tv & Kt & St & Iat & Lat).
      rewrite Kt. rewrite St in Hn. cbn [length] in Hn.
      pose proof (IH am f (advance t) sa sb If Iat) as H.
      destruct (diff_loop addr_eqb n am f (advance t) _ _); [discriminate|]. exfalso. apply H; [lia|reflexivity].
    - discriminate.
  Qed.
End Correct.

Lemma wf_root_ksorted t : wf_root t -> ksorted (keys (flatten t)).
Proof. intros [->|[_ H]]; [constructor|exact H]. Qed.

(* THE HEADLINE: for every pair of well-formed trees — any depths, any shapes,
   related or not — the differ as implemented (two cursors, skipCommon /
   skipCommonParents, either value of considerAllRowsModified) terminates within
   the model's fuel and emits exactly the declarative diff of the two contents. *)
Theorem tree_diff_spec (addr_eqb : node -> node -> bool) :
  (forall x y, addr_eqb x y = true -> x = y) ->
  forall am a b, wf_root a -> wf_root b ->
    tree_diff addr_eqb am a b = Some (list_diff_g am (flatten a) (flatten b)).
Proof.
  intros addr_inj am a b Ha Hb.
  pose proof (wf_root_ksorted a Ha) as Sa. pose proof (wf_root_ksorted b Hb) as Sb.
  pose proof (cursor_at_start_cinv a Ha) as Ia. pose proof (cursor_at_start_cinv b Hb) as Ib.
  unfold tree_diff, cursor_past_end.
  destruct (diff_loop addr_eqb (diff_fuel a b) am (cursor_at_start a) (cursor_at_start b)
                      (repeat [] (S (level a))) (repeat [] (S (level b)))) as [r|] eqn:E.
  - f_equal. rewrite (diff_ok addr_eqb addr_inj _ _ Sa _ _ _ _ _ _ _ Ia Ib E).
    rewrite !cursor_at_start_sem. reflexivity.
  - exfalso. apply (diff_total addr_eqb addr_inj _ _ Sa (diff_fuel a b) am _ _ (level a) (level b) Ia Ib); [|exact E].
    rewrite !cursor_at_start_sem, cursor_at_start_length. unfold diff_fuel.
    replace (S (level a) - 1)%nat with (level a) by lia. nia.
Qed.

(* DiffMaps (either flag value): exactly the keys whose presence or value differs *)
Theorem diff_maps_spec (addr_eqb : node -> node -> bool) (dec : val -> N) :
  (forall x y, addr_eqb x y = true -> x = y) ->
  forall am a b, wf_root a -> wf_root b ->
    diff_maps addr_eqb dec am a b = Some (list_diff_d dec (flatten a) (flatten b)).
Proof.
  intros addr_inj am a b Ha Hb. unfold diff_maps. rewrite (tree_diff_spec addr_eqb addr_inj am a b Ha Hb).
  cbn [option_map]. rewrite canonical_filter_g. reflexivity.
Qed.

Lemma filter_all_true' {A} (l : list A) : filter (fun _ => true) l = l.
Proof. induction l as [|x l IH]; [reflexivity|]. cbn [filter]. rewrite IH. reflexivity. Qed.

(* ---- ranges ---------------------------------------------------------------------
   The unbounded range first; the full statement is range_diff_spec at the end of the
   file (the notes below describe what it needed):

     range_diff_spec : forall lo hi a b, wf_root a -> wf_root b ->
       key_range_diff addr_eqb dec lo hi a b = Some (range_list_diff_d dec lo hi (flatten a) (flatten b))
       /\ range_diff addr_eqb dec lo hi a b = Some (range_list_diff_d dec lo hi (flatten a) (flatten b))

   Missing: (a) the start/stop cursors built by newCursorAtKey / the range search
   functions satisfy `cinv` and have exactly the entries >= the bound ahead of them
   (`cursor_at_search`), (b) compareCursors against a stop cursor that lies inside
   the tree orders cursors like the number of entries ahead of them (needs the
   structural form of `linked`: each frame is a suffix of the node's entries).
   Everything else (skipCommon / skipCommonParents, advance, fuel) is covered by
   skip_ok / diff_ok / diff_total above, which do not depend on where the cursors start.
   Proved here: the unbounded range. *)
Theorem key_range_diff_unbounded_partial (addr_eqb : node -> node -> bool) (dec : val -> N) :
  (forall x y, addr_eqb x y = true -> x = y) ->
  forall a b, wf_root a -> wf_root b ->
    key_range_diff addr_eqb dec None None a b = Some (range_list_diff_d dec None None (flatten a) (flatten b)).
Proof.
  intros addr_inj a b Ha Hb.
  change (key_range_diff addr_eqb dec None None a b) with (diff_maps addr_eqb dec false a b).
  rewrite (diff_maps_spec addr_eqb dec addr_inj false a b Ha Hb). unfold range_list_diff_d, d_range.
  cbn [in_range andb]. rewrite !filter_all_true'. reflexivity.
Qed.

(* ---- what the declarative diff says -------------------------------------------- *)

Lemma d_get_none_lb q (l : list kv) : Forall (N.lt q) (keys l) -> d_get q l = None.
Proof.
  induction l as [|[k v] l IH]; intros H; [reflexivity|].
  cbn [keys map fst] in H. inversion H as [|? ? Hk Hl]; subst. cbn [d_get].
  destruct (k =? q) eqn:E; [apply N.eqb_eq in E; lia|]. apply IH, Hl.
Qed.

Lemma sorted_tail' a (l : list key) : ksorted (a :: l) -> ksorted l /\ Forall (N.lt a) l.
Proof. intros H. inversion H; subst. split; assumption. Qed.

Lemma Forall_lt_weaken x y (l : list key) : x <= y -> Forall (N.lt y) l -> Forall (N.lt x) l.
Proof. intros Hxy H. rewrite Forall_forall in *. intros z Hz. specialize (H z Hz). lia. Qed.

(* every reported change has a key at or above the smaller head: used for ascending order *)
Lemma list_diff_lb x : forall a b,
  Forall (N.lt x) (keys a) -> Forall (N.lt x) (keys b) -> Forall (fun c => x < change_key c) (list_diff a b).
Proof.
  induction a as [|[ka va] a IHa]; intros b Ha Hb.
  - cbn [list_diff]. rewrite Forall_forall in *. intros c Hc. apply in_map_iff in Hc as (e & <- & He).
    cbn [change_key]. apply Hb. apply in_map, He.
  - cbn [keys map fst] in Ha. inversion Ha as [|? ? Hka Ha']; subst.
    induction b as [|[kb vb] b IHb].
    + rewrite list_diff_nil_r. rewrite Forall_forall. intros c Hc. apply in_map_iff in Hc as (e & <- & He).
      cbn [change_key]. rewrite Forall_forall in Ha. apply Ha. change (In (fst e) (map fst ((ka, va) :: a))). apply in_map, He.
    + cbn [keys map fst] in Hb. inversion Hb as [|? ? Hkb Hb']; subst.
      rewrite list_diff_head. destruct (ka <? kb).
      * constructor; [exact Hka|]. apply IHa; assumption.
      * destruct (kb <? ka).
        -- constructor; [exact Hkb|]. apply IHb, Hb'.
        -- destruct (va =? vb); [apply IHa; assumption|]. constructor; [exact Hka|]. apply IHa; assumption.
Qed.

(* ascending, each key at most once *)
Theorem list_diff_sorted : forall a b,
  ksorted (keys a) -> ksorted (keys b) -> ksorted (map change_key (list_diff a b)).
Proof.
  induction a as [|[ka va] a IHa]; intros b Ha Hb.
  - cbn [list_diff]. rewrite map_map. cbn [change_key]. exact Hb.
  - cbn [keys map fst] in Ha. pose proof Ha as Ha0. apply sorted_tail' in Ha as [Ha Hfa].
    induction b as [|[kb vb] b IHb].
    + rewrite list_diff_nil_r, map_map. cbn [change_key]. exact Ha0.
    + cbn [keys map fst] in Hb. pose proof Hb as Hb0. apply sorted_tail' in Hb as [Hb Hfb].
      rewrite list_diff_head. destruct (ka <? kb) eqn:E1.
      * apply N.ltb_lt in E1. cbn [map change_key]. constructor; [apply IHa; assumption|].
        rewrite Forall_map. apply list_diff_lb; [exact Hfa|].
        cbn [keys map fst]. constructor; [exact E1|]. apply (Forall_lt_weaken ka kb); [lia|exact Hfb].
      * apply N.ltb_ge in E1. destruct (kb <? ka) eqn:E2.
        -- apply N.ltb_lt in E2. cbn [map change_key]. constructor; [apply IHb, Hb|].
           rewrite Forall_map. apply list_diff_lb; [|exact Hfb].
           cbn [keys map fst]. constructor; [exact E2|]. apply (Forall_lt_weaken kb ka); [lia|exact Hfa].
        -- apply N.ltb_ge in E2. assert (ka = kb) by lia. subst kb.
           destruct (va =? vb); [apply IHa; assumption|].
           cbn [map change_key]. constructor; [apply IHa; assumption|].
           rewrite Forall_map. apply list_diff_lb; assumption.
Qed.

Lemma in_sorted_get k v (l : list kv) : ksorted (keys l) -> In (k, v) l -> d_get k l = Some v.
Proof.
  induction l as [|[k' v'] l IH]; intros Hs He; [destruct He|].
  cbn [keys map fst] in Hs. apply sorted_tail' in Hs as [Hs Hf]. cbn [d_get].
  destruct He as [E|He]; [injection E as -> ->; rewrite N.eqb_refl; reflexivity|].
  destruct (k' =? k) eqn:E; [|apply IH; assumption].
  apply N.eqb_eq in E. subst k'. rewrite Forall_forall in Hf.
  assert (k < k) by (apply Hf, in_map_iff; exists (k, v); split; [reflexivity|exact He]). lia.
Qed.

Lemma get_in k w (l : list kv) : d_get k l = Some w -> In (k, w) l.
Proof.
  induction l as [|[k' v'] l IH]; [discriminate|]. cbn [d_get].
  destruct (k' =? k) eqn:E; [apply N.eqb_eq in E; intros H; injection H as ->; subst k'; left; reflexivity | intros H; right; apply IH, H].
Qed.

Lemma removed_all_complete (l : list kv) c :
  ksorted (keys l) ->
  In c (map (fun e => Removed (fst e) (snd e)) l) <-> key_change (change_key c) l [] = Some c.
Proof.
  intros Hs. unfold key_change. cbn [d_get]. split.
  - intros Hc. apply in_map_iff in Hc as ([k v] & <- & He). cbn [change_key fst snd].
    rewrite (in_sorted_get k v l Hs He). reflexivity.
  - destruct (d_get (change_key c) l) as [w|] eqn:E; [|discriminate]. intros H. injection H as <-.
    cbn [change_key] in E. apply in_map_iff. exists (change_key (Removed (change_key c) w), w).
    cbn [change_key fst snd]. split; [reflexivity|]. apply get_in, E.
Qed.

Lemma added_all_complete (l : list kv) c :
  ksorted (keys l) ->
  In c (map (fun e => Added (fst e) (snd e)) l) <-> key_change (change_key c) [] l = Some c.
Proof.
  intros Hs. unfold key_change. cbn [d_get]. split.
  - intros Hc. apply in_map_iff in Hc as ([k v] & <- & He). cbn [change_key fst snd].
    rewrite (in_sorted_get k v l Hs He). reflexivity.
  - destruct (d_get (change_key c) l) as [w|] eqn:E; [|discriminate]. intros H. injection H as <-.
    cbn [change_key] in E. apply in_map_iff. exists (change_key (Added (change_key c) w), w).
    cbn [change_key fst snd]. split; [reflexivity|]. apply get_in, E.
Qed.

Lemma key_change_cons_cons q ka va a kb vb b :
  key_change q ((ka, va) :: a) ((kb, vb) :: b) =
  match (if ka =? q then Some va else d_get q a), (if kb =? q then Some vb else d_get q b) with
  | None, None => None
  | Some v, None => Some (Removed q v)
  | None, Some w => Some (Added q w)
  | Some v, Some w => if v =? w then None else Some (Modified q v w)
  end.
Proof. reflexivity. Qed.

Lemma key_change_cons_l q ka va a B :
  key_change q ((ka, va) :: a) B =
  match (if ka =? q then Some va else d_get q a), d_get q B with
  | None, None => None
  | Some v, None => Some (Removed q v)
  | None, Some w => Some (Added q w)
  | Some v, Some w => if v =? w then None else Some (Modified q v w)
  end.
Proof. reflexivity. Qed.

Lemma key_change_cons_r q A kb vb b :
  key_change q A ((kb, vb) :: b) =
  match d_get q A, (if kb =? q then Some vb else d_get q b) with
  | None, None => None
  | Some v, None => Some (Removed q v)
  | None, Some w => Some (Added q w)
  | Some v, Some w => if v =? w then None else Some (Modified q v w)
  end.
Proof. reflexivity. Qed.

Lemma key_change_key q A B c : key_change q A B = Some c -> change_key c = q.
Proof.
  unfold key_change. destruct (d_get q A) as [v|], (d_get q B) as [w|]; try discriminate.
  - destruct (v =? w); [discriminate|]. intros H. injection H as <-. reflexivity.
  - intros H. injection H as <-. reflexivity.
  - intros H. injection H as <-. reflexivity.
Qed.

(* exactly the keys whose presence or value differs, with the right kind and values *)
Theorem list_diff_complete : forall a b,
  ksorted (keys a) -> ksorted (keys b) ->
  forall c, In c (list_diff a b) <-> key_change (change_key c) a b = Some c.
Proof.
  induction a as [|[ka va] a IHa]; intros b Ha Hb c; [apply (added_all_complete b c Hb)|].
  cbn [keys map fst] in Ha. pose proof Ha as Ha0. apply sorted_tail' in Ha as [Ha Hfa].
  pose proof (d_get_none_lb ka a Hfa) as Na.
  revert c. induction b as [|[kb vb] b IHb]; intros c.
  { rewrite list_diff_nil_r. apply (removed_all_complete ((ka, va) :: a) c Ha0). }
  cbn [keys map fst] in Hb. pose proof Hb as Hb0. apply sorted_tail' in Hb as [Hb Hfb].
  pose proof (d_get_none_lb kb b Hfb) as Nb.
  rewrite list_diff_head, key_change_cons_cons.
  set (q := change_key c).
  destruct (ka <? kb) eqn:E1.
  - apply N.ltb_lt in E1.
    pose proof (IHa ((kb, vb) :: b) Ha Hb0 c) as IH. rewrite key_change_cons_r in IH. fold q in IH.
    destruct (ka =? q) eqn:E.
    + apply N.eqb_eq in E.
      replace (kb =? q) with false by (symmetry; apply N.eqb_neq; lia).
      rewrite <- E, (d_get_none_lb ka b (Forall_lt_weaken ka kb _ ltac:(lia) Hfb)).
      replace (kb =? q) with false in IH by (symmetry; apply N.eqb_neq; lia).
      rewrite <- E, Na, (d_get_none_lb ka b (Forall_lt_weaken ka kb _ ltac:(lia) Hfb)) in IH.
      cbn [In]. split.
      * intros [H|H]; [subst c; reflexivity | apply IH in H; discriminate].
      * intros H. left. injection H as H. first [exact H | rewrite <- H; rewrite ?E; reflexivity | rewrite <- H; rewrite <- ?E; reflexivity].
    + cbn [In]. rewrite IH. split; [|intros H; right; exact H].
      intros [H|H]; [|exact H]. subst c. unfold q in E. cbn [change_key] in E. rewrite N.eqb_refl in E. discriminate.
  - apply N.ltb_ge in E1. destruct (kb <? ka) eqn:E2.
    + apply N.ltb_lt in E2.
      pose proof (IHb Hb c) as IH. rewrite key_change_cons_l in IH. fold q in IH.
      destruct (kb =? q) eqn:E.
      * apply N.eqb_eq in E.
        replace (ka =? q) with false by (symmetry; apply N.eqb_neq; lia).
        replace (ka =? q) with false in IH by (symmetry; apply N.eqb_neq; lia).
        rewrite <- E, (d_get_none_lb kb a (Forall_lt_weaken kb ka _ ltac:(lia) Hfa)).
        rewrite <- E, Nb, (d_get_none_lb kb a (Forall_lt_weaken kb ka _ ltac:(lia) Hfa)) in IH.
        cbn [In]. split.
        -- intros [H|H]; [subst c; reflexivity | apply IH in H; discriminate].
        -- intros H. left. injection H as H. first [exact H | rewrite <- H; rewrite ?E; reflexivity | rewrite <- H; rewrite <- ?E; reflexivity].
      * cbn [In]. rewrite IH. split; [|intros H; right; exact H].
        intros [H|H]; [|exact H]. subst c. unfold q in E. cbn [change_key] in E. rewrite N.eqb_refl in E. discriminate.
    + apply N.ltb_ge in E2. assert (ka = kb) by lia. subst kb.
      pose proof (IHa b Ha Hb c) as IH. unfold key_change in IH. fold q in IH.
      destruct (ka =? q) eqn:E.
      * apply N.eqb_eq in E. rewrite <- E, Na, Nb in IH.
        destruct (va =? vb) eqn:Ev.
        -- rewrite IH. split; discriminate.
        -- cbn [In]. split.
           ++ intros [H|H]; [subst c; rewrite E; reflexivity | apply IH in H; discriminate].
           ++ intros H. left. injection H as H. first [exact H | rewrite <- H; rewrite ?E; reflexivity | rewrite <- H; rewrite <- ?E; reflexivity].
      * destruct (va =? vb) eqn:Ev; [exact IH|].
        cbn [In]. rewrite IH. split; [|intros H; right; exact H].
        intros [H|H]; [|exact H]. subst c. unfold q in E. cbn [change_key] in E. rewrite N.eqb_refl in E. discriminate.
Qed.

(* ======================================================================== *)
(* Bounded key ranges                                                        *)
(* ======================================================================== *)

Lemma skip_located (addr_eqb : node -> node -> bool) ta tb n : forall pnew f t f' t',
  located ta f -> located tb t ->
  skip_common addr_eqb n pnew f t = Some (f', t') -> located ta f' /\ located tb t'.
Proof.
  induction n as [|n IH]; intros pnew f t f' t' Lf Lt H; [discriminate|].
  cbn [skip_common] in H.
  destruct (cur_item f) as [x|] eqn:Ex; [|injection H as <- <-; split; assumption].
  destruct (cur_item t) as [y|] eqn:Ey; [|injection H as <- <-; split; assumption].
  destruct (negb (equal_items addr_eqb x y)); [injection H as <- <-; split; assumption|].
  destruct (pnew && equal_parents addr_eqb f t) eqn:Eup.
  - apply andb_true_iff in Eup as [_ Eup].
    destruct (equal_parents_true addr_eqb f t Eup) as (fr & g0 & gr & pf & tr & h0 & hr & pt & -> & -> & _).
    cbn [tl] in H.
    destruct (skip_common addr_eqb n true ((g0 :: gr) :: pf) ((h0 :: hr) :: pt)) as [[qf qt]|] eqn:E1; [|discriminate].
    destruct (IH _ _ _ _ _ (located_tl _ _ _ _ Lf) (located_tl _ _ _ _ Lt) E1) as (Lqf & Lqt).
    apply (IH _ _ _ _ _ (refetch_located' _ _ Lqf) (refetch_located' _ _ Lqt) H).
  - apply (IH _ _ _ _ _ (advance_located _ _ Lf) (advance_located _ _ Lt) H).
Qed.

Lemma filter_all_false {A} (f : A -> bool) l : Forall (fun x => f x = false) l -> filter f l = [].
Proof. induction 1 as [|x l Hx _ IH]; [reflexivity|]. cbn [filter]. rewrite Hx. exact IH. Qed.

Section Range.
  Variable addr_eqb : node -> node -> bool.
  Hypothesis addr_inj : forall x y, addr_eqb x y = true -> x = y.
  Variables a b : node.
  Hypothesis Ha : wf_root a.
  Hypothesis Hb : wf_root b.
  (* the stop bound, as a predicate on keys ("stop <= k"), and the two stop cursors *)
  Variable phi : key -> bool.
  Hypothesis Hphi : mono phi.
  Variables fstop tstop : cursor.

  (* what a stop cursor must do: cut exactly at the bound *)
  Definition stops_at (t : node) (stop : cursor) : Prop :=
    forall c k v, cinv (flatten t) 0 c -> located t c -> length c = S (level t) ->
      cur_kv c = Some (k, v) -> in_bounds c stop = negb (phi k).
  Hypothesis Hfs : stops_at a fstop.
  Hypothesis Hts : stops_at b tstop.

  (* a cursor the loop may hold: a proper cursor of the tree, or an exhausted one *)
  Definition cst (t : node) (c : cursor) : Prop :=
    (cinv (flatten t) 0 c /\ located t c /\ length c = S (level t))
    \/ (cur_valid c = false /\ cur_sem c = []).

  Definition W (l : list kv) : list kv := filter (fun e => negb (phi (fst e))) l.

  Lemma W_nil_from k v l : ksorted (keys ((k, v) :: l)) -> phi k = true -> W ((k, v) :: l) = [].
  Proof.
    intros Hs Hk. unfold W. apply filter_all_false. rewrite Forall_forall. intros [k' v'] Hin. cbn [fst].
    destruct Hin as [E|Hin]; [injection E as <- <-; rewrite Hk; reflexivity|].
    cbn [keys map fst] in Hs. inversion Hs as [|? ? _ Hf]; subst. rewrite Forall_forall in Hf.
    assert (k < k') by (apply Hf, in_map_iff; exists (k', v'); split; [reflexivity|exact Hin]).
    rewrite (Hphi k k' ltac:(lia) Hk). reflexivity.
  Qed.

  Lemma in_bounds_invalid c stop : cur_valid c = false -> in_bounds c stop = false.
  Proof. intros H. unfold in_bounds. rewrite H. reflexivity. Qed.

  (* one side of the loop: either the cursor is inside the range and stands on an entry
     below the bound, or it contributes nothing any more *)
  Lemma side_view t stop c :
    wf_root t -> stops_at t stop -> cst t c ->
    (in_bounds c stop = true /\ exists k v,
        cur_kv c = Some (k, v) /\ cur_sem c = (k, v) :: cur_sem (advance c) /\ phi k = false
        /\ cinv (flatten t) 0 c /\ cinv (flatten t) 0 (advance c) /\ located t (advance c)
        /\ length (advance c) = S (level t))
    \/ (in_bounds c stop = false /\ W (cur_sem c) = []).
  Proof.
    intros Hwf Hs [(Ic & Lc & Nc)|(Vc & Sc)].
    - destruct (cur_valid c) eqn:V.
      + destruct (leaf_view _ c Ic V) as (k & v & Kc & Sc & Iac & Lac).
        pose proof (Hs c k v Ic Lc Nc Kc) as Hin.
        destruct (phi k) eqn:Ek; cbn [negb] in Hin.
        * right. split; [exact Hin|]. rewrite Sc. apply W_nil_from; [|exact Ek]. rewrite <- Sc.
          destruct Ic as (Hne & _ & _ & _ & Hpos). unfold pos_ok in Hpos. rewrite (sems_hd _ Hne) in Hpos.
          inversion Hpos as [|? ? [bb Hbb] _]; subst. pose proof (wf_root_ksorted t Hwf) as Hso.
          rewrite Hbb, keys_app in Hso. apply ksorted_app in Hso as (_ & Hso & _). exact Hso.
        * left. split; [exact Hin|]. exists k, v. split; [exact Kc|]. split; [exact Sc|]. split; [exact Ek|].
          split; [exact Ic|]. split; [exact Iac|]. split; [apply advance_located, Lc|]. congruence.
      + right. split; [apply in_bounds_invalid, V|]. destruct (invalid_view _ 0 c Ic V) as (_ & ->). reflexivity.
    - right. split; [apply in_bounds_invalid, Vc|]. rewrite Sc. reflexivity.
  Qed.

  Lemma W_cons_in k v l : phi k = false -> W ((k, v) :: l) = (k, v) :: W l.
  Proof. intros H. unfold W. cbn [filter fst]. rewrite H. reflexivity. Qed.

  Lemma W_app x y : W (x ++ y) = W x ++ W y.
  Proof. apply filter_app. Qed.

  Lemma diff_okw n : forall f t r,
    cst a f -> cst b t ->
    diff_loop addr_eqb n false f t fstop tstop = Some r ->
    r = list_diff_g false (W (cur_sem f)) (W (cur_sem t)).
  Proof.
    pose proof (wf_root_ksorted a Ha) as Sa.
    induction n as [|n IH]; intros f t r Cf Ct H; [discriminate|].
    cbn [diff_loop] in H.
    destruct (side_view a fstop f Ha Hfs Cf) as [(Bf & fk & fv & Kf & Sf & Pf & If & Iaf & Laf & Naf)|(Bf & Wf)];
    destruct (side_view b tstop t Hb Hts Ct) as [(Bt & tk & tv & Kt & St & Pt & It & Iat & Lat & Nat)|(Bt & Wt)];
    rewrite Bf, Bt in H; cbv iota in H.
    - rewrite Kf, Kt in H. rewrite Sf, St, (W_cons_in _ _ _ Pf), (W_cons_in _ _ _ Pt), list_diff_g_cons.
      assert (Caf : cst a (advance f)) by (left; split; [exact Iaf|split; [exact Laf|exact Naf]]).
      assert (Cat : cst b (advance t)) by (left; split; [exact Iat|split; [exact Lat|exact Nat]]).
      destruct (fk <? tk).
      { destruct (diff_loop addr_eqb n false (advance f) t _ _) as [l|] eqn:E; [|discriminate].
        injection H as <-. f_equal. rewrite (IH _ _ _ Caf Ct E), St, (W_cons_in _ _ _ Pt). reflexivity. }
      destruct (tk <? fk).
      { destruct (diff_loop addr_eqb n false f (advance t) _ _) as [l|] eqn:E; [|discriminate].
        injection H as <-. f_equal. rewrite (IH _ _ _ Cf Cat E), Sf, (W_cons_in _ _ _ Pf). reflexivity. }
      cbn [orb] in *. destruct (negb (fv =? tv)) eqn:Em.
      { destruct (diff_loop addr_eqb n false (advance f) (advance t) _ _) as [l|] eqn:E; [|discriminate].
        injection H as <-. f_equal. apply (IH _ _ _ Caf Cat E). }
      destruct (skip_common addr_eqb n true (advance f) (advance t)) as [[f' t']|] eqn:Es; [|discriminate].
      destruct (skip_ok addr_eqb addr_inj _ _ Sa n 0 true _ _ _ _ Iaf Iat Es) as (If' & It' & Lf' & Lt' & p & S1 & S2 & _).
      destruct (skip_located addr_eqb a b n _ _ _ _ _ Laf Lat Es) as (Lof & Lot).
      assert (Cf' : cst a f') by (left; split; [exact If'|split; [exact Lof|congruence]]).
      assert (Ct' : cst b t') by (left; split; [exact It'|split; [exact Lot|congruence]]).
      rewrite (IH _ _ _ Cf' Ct' H). rewrite S1, S2, !W_app. symmetry. apply list_diff_g_common_prefix.
    - rewrite Kf in H. rewrite Sf, (W_cons_in _ _ _ Pf), Wt, list_diff_g_nil_r. cbn [map fst snd].
      assert (Caf : cst a (advance f)) by (left; split; [exact Iaf|split; [exact Laf|exact Naf]]).
      destruct (diff_loop addr_eqb n false (advance f) t _ _) as [l|] eqn:E; [|discriminate].
      injection H as <-. f_equal. rewrite (IH _ _ _ Caf Ct E), Wt. apply list_diff_g_nil_r.
    - rewrite Kt in H. rewrite St, (W_cons_in _ _ _ Pt), Wf. cbn [list_diff_g map fst snd].
      assert (Cat : cst b (advance t)) by (left; split; [exact Iat|split; [exact Lat|exact Nat]]).
      destruct (diff_loop addr_eqb n false f (advance t) _ _) as [l|] eqn:E; [|discriminate].
      injection H as <-. f_equal. rewrite (IH _ _ _ Cf Cat E), Wf. reflexivity.
    - injection H as <-. rewrite Wf, Wt. reflexivity.
  Qed.

  Lemma cst_sem_le t c : cst t c -> (length (cur_sem c) <= length (flatten t))%nat.
  Proof. intros [(Ic & _)|(_ & ->)]; [apply (cinv_sem_le _ _ _ Ic) | cbn; lia]. Qed.

  Lemma diff_totalw n : forall f t,
    cst a f -> cst b t ->
    (length (cur_sem f) + length (cur_sem t) + level a * S (length (flatten a)) + 1 < n)%nat ->
    diff_loop addr_eqb n false f t fstop tstop <> None.
  Proof.
    pose proof (wf_root_ksorted a Ha) as Sa.
    induction n as [|n IH]; intros f t Cf Ct Hn; [exfalso; exact (Nat.nlt_0_r _ Hn)|].
    cbn [diff_loop]. set (K := (level a * S (length (flatten a)))%nat) in *.
    destruct (side_view a fstop f Ha Hfs Cf) as [(Bf & fk & fv & Kf & Sf & Pf & If & Iaf & Laf & Naf)|(Bf & Wf)];
    destruct (side_view b tstop t Hb Hts Ct) as [(Bt & tk & tv & Kt & St & Pt & It & Iat & Lat & Nat)|(Bt & Wt)];
    rewrite Bf, Bt; cbv iota.
    - rewrite Kf, Kt. rewrite Sf, St in Hn. cbn [length] in Hn.
      assert (Caf : cst a (advance f)) by (left; split; [exact Iaf|split; [exact Laf|exact Naf]]).
      assert (Cat : cst b (advance t)) by (left; split; [exact Iat|split; [exact Lat|exact Nat]]).
      destruct (fk <? tk).
      { pose proof (IH (advance f) t Caf Ct) as H. rewrite St in H. cbn [length] in H.
        destruct (diff_loop addr_eqb n false (advance f) t _ _); [discriminate|]. exfalso. apply H; [lia|reflexivity]. }
      destruct (tk <? fk).
      { pose proof (IH f (advance t) Cf Cat) as H. rewrite Sf in H. cbn [length] in H.
        destruct (diff_loop addr_eqb n false f (advance t) _ _); [discriminate|]. exfalso. apply H; [lia|reflexivity]. }
      cbn [orb]. destruct (negb (fv =? tv)).
      { pose proof (IH (advance f) (advance t) Caf Cat) as H.
        destruct (diff_loop addr_eqb n false (advance f) (advance t) _ _); [discriminate|]. exfalso. apply H; [lia|reflexivity]. }
      destruct (skip_common addr_eqb n true (advance f) (advance t)) as [[f' t']|] eqn:Es.
      + destruct (skip_ok addr_eqb addr_inj _ _ Sa n 0 true _ _ _ _ Iaf Iat Es) as (If' & It' & Lf' & Lt' & p & S1 & S2 & _).
        destruct (skip_located addr_eqb a b n _ _ _ _ _ Laf Lat Es) as (Lof & Lot).
        apply (IH f' t'); [left; split; [exact If'|split; [exact Lof|congruence]] | left; split; [exact It'|split; [exact Lot|congruence]] |].
        rewrite S1, app_length in Hn. rewrite S2, app_length in Hn. lia.
      + exfalso. apply (skip_total addr_eqb addr_inj _ _ Sa n 0 true _ _ Iaf Iat); [|exact Es].
        rewrite Naf. replace (S (level a) - 1)%nat with (level a) by lia. fold K. lia.
    - rewrite Kf. rewrite Sf in Hn. cbn [length] in Hn.
      assert (Caf : cst a (advance f)) by (left; split; [exact Iaf|split; [exact Laf|exact Naf]]).
      pose proof (IH (advance f) t Caf Ct) as H.
      destruct (diff_loop addr_eqb n false (advance f) t _ _); [discriminate|]. exfalso. apply H; [lia|reflexivity].
    - rewrite Kt. rewrite St in Hn. cbn [length] in Hn.
      assert (Cat : cst b (advance t)) by (left; split; [exact Iat|split; [exact Lat|exact Nat]]).
      pose proof (IH f (advance t) Cf Cat) as H.
      destruct (diff_loop addr_eqb n false f (advance t) _ _); [discriminate|]. exfalso. apply H; [lia|reflexivity].
    - discriminate.
  Qed.

  (* the Next loop between any admissible start cursors and these stop cursors *)
  Theorem range_loop_spec f t :
    cst a f -> cst b t ->
    diff_loop addr_eqb (diff_fuel a b) false f t fstop tstop
    = Some (list_diff_g false (W (cur_sem f)) (W (cur_sem t))).
  Proof.
    intros Cf Ct.
    destruct (diff_loop addr_eqb (diff_fuel a b) false f t fstop tstop) as [r|] eqn:E.
    - f_equal. apply (diff_okw _ _ _ _ Cf Ct E).
    - exfalso. apply (diff_totalw (diff_fuel a b) f t Cf Ct); [|exact E].
      pose proof (cst_sem_le a f Cf). pose proof (cst_sem_le b t Ct). unfold diff_fuel. nia.
  Qed.
End Range.

(* ---- start and stop cursors ---------------------------------------------------------- *)

Lemma filter_all_true'' {A} (f : A -> bool) l : Forall (fun x => f x = true) l -> filter f l = l.
Proof. induction 1 as [|x l Hx _ IH]; [reflexivity|]. cbn [filter]. rewrite Hx. f_equal. exact IH. Qed.

Lemma skipn_kfalse p (l : list kv) :
  mono p -> ksorted (keys l) -> skipn (N.to_nat (kfalse p l)) l = filter (fun e => p (fst e)) l.
Proof.
  intros Hm. induction l as [|[k v] l IH]; intros Hs; [reflexivity|].
  cbn [keys map fst] in Hs. inversion Hs as [|? ? Hs' Hf]; subst.
  unfold kfalse, nfalse, keys. cbn [map fst filter]. destruct (p k) eqn:Ek; cbn [negb].
  - assert (Hall : Forall (fun e : kv => p (fst e) = true) l).
    { rewrite Forall_forall in *. intros [k' v'] Hin. cbn [fst]. apply (Hm k k'); [|exact Ek].
      assert (k < k') by (apply Hf, in_map_iff; exists (k', v'); split; [reflexivity|exact Hin]). lia. }
    assert (E0 : filter (fun k0 => negb (p k0)) (map fst l) = []).
    { apply filter_all_false. rewrite Forall_forall in *. intros x Hx. apply in_map_iff in Hx as (e & <- & He).
      rewrite (Hall e He). reflexivity. }
    rewrite E0. cbn [length N.of_nat N.to_nat skipn]. f_equal. symmetry. apply filter_all_true'', Hall.
  - cbn [length]. rewrite Nat2N.id. cbn [skipn]. specialize (IH Hs').
    unfold kfalse, nfalse, keys in IH. rewrite Nat2N.id in IH. exact IH.
Qed.

Theorem start_search p t :
  mono p -> wf_root t ->
  cst t (cursor_at_search p t) /\ cur_sem (cursor_at_search p t) = filter (fun e => p (fst e)) (flatten t).
Proof.
  intros Hm [->|[Hs Hso]]; [split; [right; split; reflexivity | reflexivity]|].
  destruct (at_search_props p t Hm Hs Hso) as (C1 & C2 & C3 & C4 & C5 & C6 & C7 & C8).
  split.
  - destruct (cur_valid (cursor_at_search p t)) eqn:V.
    + left. split; [|split; assumption]. split; [exact C1|]. split; [exact C4|]. split; [left; apply C8; reflexivity|].
      split; assumption.
    + right. split; [exact V|]. apply (at_search_invalid_sem p t Hm Hs Hso V).
  - rewrite C7, (ordinal_of_spec p t Hm (conj Hs Hso)). apply (skipn_kfalse p _ Hm Hso).
Qed.

Theorem start_at_start t :
  wf_root t -> cst t (cursor_at_start t) /\ cur_sem (cursor_at_start t) = filter (fun _ => true) (flatten t).
Proof.
  intros Hwf. split.
  - left. split; [apply cursor_at_start_cinv, Hwf|]. split; [apply cursor_at_start_located | apply cursor_at_start_length].
  - rewrite cursor_at_start_sem. symmetry. apply filter_all_true'.
Qed.

Theorem stop_search p t : mono p -> wf_root t -> stops_at p t (cursor_at_search p t).
Proof.
  intros Hm Hwf c k v Ic Lc Nc Kc.
  destruct (cur_kv_head _ _ _ Kc) as (f' & par & Ec).
  assert (V : cur_valid c = true) by (rewrite Ec; reflexivity).
  destruct Hwf as [->|[Hs Hso]].
  - exfalso. destruct (leaf_view _ c Ic V) as (k' & v' & _ & Sc & _).
    destruct Ic as (Hne & _ & _ & _ & Hpos). unfold pos_ok in Hpos. rewrite (sems_hd _ Hne) in Hpos.
    inversion Hpos as [|? ? [bb Hbb] _]; subst. rewrite Sc in Hbb. cbn [flatten] in Hbb.
    destruct bb; discriminate.
  - unfold in_bounds. rewrite V. cbn [andb].
    pose proof Ic as (Hne & Hso0 & Hlod & _ & _).
    apply (cmp_search p Hm t Hs Hso c k v Lc Nc (live_or_dead_valid c Hne Hlod V) Hso0 Kc).
Qed.

Theorem stop_past_end t : stops_at (fun _ => false) t (cursor_past_end t).
Proof.
  intros c k v Ic _ _ Kc. destruct (cur_kv_head _ _ _ Kc) as (f' & par & Ec).
  unfold cursor_past_end. rewrite (in_bounds_past_end _ 0 c (level t) Ic). rewrite Ec. reflexivity.
Qed.

Lemma filter_filter {A} (f g : A -> bool) l : filter f (filter g l) = filter (fun x => g x && f x) l.
Proof.
  induction l as [|x l IH]; [reflexivity|]. cbn [filter]. destruct (g x); cbn [andb filter]; [|exact IH].
  destruct (f x); [f_equal|]; exact IH.
Qed.

Definition start_pred (lo : option key) : key -> bool := match lo with None => fun _ => true | Some q => le_q q end.
Definition stop_pred (hi : option key) : key -> bool := match hi with None => fun _ => false | Some q => le_q q end.

Lemma le_q_mono' q : mono (le_q q).
Proof. unfold mono, le_q. intros x y Hxy H. apply N.leb_le in H. apply N.leb_le. lia. Qed.
Lemma start_pred_mono lo : mono (start_pred lo).
Proof. destruct lo; [apply le_q_mono' | intros x y _ H; exact H]. Qed.
Lemma stop_pred_mono hi : mono (stop_pred hi).
Proof. destruct hi; [apply le_q_mono' | intros x y _ H; exact H]. Qed.

Lemma window_is_range lo hi l :
  W (stop_pred hi) (filter (fun e => start_pred lo (fst e)) l) = d_range lo hi l.
Proof.
  unfold W, d_range. rewrite filter_filter. apply filter_ext. intros [k v]. cbn [fst].
  unfold in_range. destruct lo as [l0|], hi as [h|]; cbn [start_pred stop_pred]; unfold le_q;
    rewrite ?N.leb_antisym, ?negb_involutive; reflexivity.
Qed.

(* THE RANGE THEOREM: DiffMapsKeyRange and RangeDiffMaps, for every pair of well-formed trees
   and every [start, stop) (either bound may be absent; inverted and empty ranges included),
   report exactly the diff of the decoded rows of the two contents restricted to the range. *)
Theorem range_diff_spec (addr_eqb : node -> node -> bool) (dec : val -> N) :
  (forall x y, addr_eqb x y = true -> x = y) ->
  forall lo hi a b, wf_root a -> wf_root b ->
    key_range_diff addr_eqb dec lo hi a b = Some (range_list_diff_d dec lo hi (flatten a) (flatten b))
    /\ range_diff addr_eqb dec lo hi a b = Some (range_list_diff_d dec lo hi (flatten a) (flatten b)).
Proof.
  intros addr_inj lo hi a b Ha Hb.
  assert (Hfin : forall fa fb sa sb,
             cst a fa -> cur_sem fa = filter (fun e => start_pred lo (fst e)) (flatten a) ->
             cst b fb -> cur_sem fb = filter (fun e => start_pred lo (fst e)) (flatten b) ->
             stops_at (stop_pred hi) a sa -> stops_at (stop_pred hi) b sb ->
             option_map (canonical_filter dec) (diff_loop addr_eqb (diff_fuel a b) false fa fb sa sb)
             = Some (range_list_diff_d dec lo hi (flatten a) (flatten b))).
  { intros fa fb sa sb Ca Sa Cb Sb Hsa Hsb.
    rewrite (range_loop_spec addr_eqb addr_inj a b Ha Hb (stop_pred hi) (stop_pred_mono hi) sa sb Hsa Hsb fa fb Ca Cb).
    cbn [option_map]. rewrite canonical_filter_g, Sa, Sb, !window_is_range. reflexivity. }
  split.
  - unfold key_range_diff. apply Hfin.
    + destruct lo as [q|]; [apply (start_search (le_q q) a (le_q_mono' q) Ha) | apply (start_at_start a Ha)].
    + destruct lo as [q|]; [apply (start_search (le_q q) a (le_q_mono' q) Ha) | apply (start_at_start a Ha)].
    + destruct lo as [q|]; [apply (start_search (le_q q) b (le_q_mono' q) Hb) | apply (start_at_start b Hb)].
    + destruct lo as [q|]; [apply (start_search (le_q q) b (le_q_mono' q) Hb) | apply (start_at_start b Hb)].
    + destruct hi as [q|]; [apply (stop_search (le_q q) a (le_q_mono' q) Ha) | apply stop_past_end].
    + destruct hi as [q|]; [apply (stop_search (le_q q) b (le_q_mono' q) Hb) | apply stop_past_end].
  - unfold range_diff.
    change (match lo with Some q => le_q q | None => fun _ : key => true end) with (start_pred lo).
    change (match hi with Some q => le_q q | None => fun _ : key => false end) with (stop_pred hi).
    apply Hfin.
    + apply (start_search _ a (start_pred_mono lo) Ha).
    + apply (start_search _ a (start_pred_mono lo) Ha).
    + apply (start_search _ b (start_pred_mono lo) Hb).
    + apply (start_search _ b (start_pred_mono lo) Hb).
    + apply (stop_search _ a (stop_pred_mono hi) Ha).
    + apply (stop_search _ b (stop_pred_mono hi) Hb).
Qed.
