(* C13 — proofs.

   Full statements (for all well-formed a b of any heights, under addr_inj):

     tree_diff_spec  : tree_diff addr_eqb false a b = Some (list_diff (flatten a) (flatten b))
     range_diff_spec : range_diff addr_eqb lo hi a b
                         = Some (range_list_diff lo hi (flatten a) (flatten b))
                       (same for key_range_diff)

   NOT proved in this file for trees with internal nodes. What is proved:
   the cursor layer the differ runs on (Prolly/Cursor.v: advance_sem,
   cursor_at_start_sem, for every depth), soundness of subtree skipping under
   addr_inj (skip_sound), and the algebra of the declarative diff that the
   skipping argument needs (a common prefix contributes nothing; equal maps
   have an empty diff; one-sided diffs). The equation itself is checked by the
   correspondence on the real tree shapes (model = implementation = oracle). *)
From Coq Require Import NArith List Bool Lia.
From Dolt Require Import Prolly.Tree Prolly.Cursor C13.Model C13.Spec.
Import ListNotations.
Local Open Scope N_scope.

Section WithAddr.
  Variable addr_eqb : node -> node -> bool.
  (* addr_inj: equal child address => equal subtree *)
  Hypothesis addr_inj : forall x y, addr_eqb x y = true -> x = y.

  (* skipping an equal (key, address) entry skips the same key/value pairs on both sides *)
  Theorem skip_sound x y : equal_items addr_eqb x y = true -> flat_item x = flat_item y.
  Proof.
    unfold equal_items. destruct x as [k [v|c n]], y as [k' [v'|c' n']]; cbn [fst snd ent_eqb]; intros H;
      apply andb_true_iff in H as [Hk He]; try discriminate.
    - apply N.eqb_eq in Hk, He. subst. reflexivity.
    - apply addr_inj in He. subst. reflexivity.
  Qed.

  (* ... and both cursors are then positioned on entries with the same key *)
  Lemma equal_items_key x y : equal_items addr_eqb x y = true -> fst x = fst y.
  Proof. unfold equal_items. intros H. apply andb_true_iff in H as [Hk _]. apply N.eqb_eq, Hk. Qed.
End WithAddr.

(* structural equality is a sound address comparison *)
Lemma kvs_eqb_sound a b : kvs_eqb a b = true -> a = b.
Proof.
  revert b. induction a as [|[k v] a IH]; intros [|[k' v'] b] H; cbn [kvs_eqb] in H; try discriminate; [reflexivity|].
  apply andb_true_iff in H as [H H3]. apply andb_true_iff in H as [H1 H2].
  apply N.eqb_eq in H1, H2. subst. f_equal. apply IH, H3.
Qed.

Lemma node_eqb_sound : forall x y, node_eqb x y = true -> x = y.
Proof.
  induction x as [kvs|cs IH] using node_ind'; intros [kvs'|cs'] H; cbn [node_eqb] in H; try discriminate.
  - f_equal. apply kvs_eqb_sound, H.
  - f_equal. revert cs' H. induction IH as [|[[k c] ch] cs Hch _ IHcs]; intros [|[[k' c'] ch'] cs'] H; try discriminate; [reflexivity|].
    apply andb_true_iff in H as [H H4]. apply andb_true_iff in H as [H H3]. apply andb_true_iff in H as [H1 H2].
    apply N.eqb_eq in H1, H2. subst. unfold ent_child in Hch. cbn [snd] in Hch.
    rewrite (Hch ch' H3). f_equal. apply IHcs, H4.
Qed.

(* ---- algebra of the declarative diff ---------------------------------------- *)

Theorem list_diff_refl a : list_diff a a = [].
Proof.
  induction a as [|[k v] a IH]; [reflexivity|].
  cbn [list_diff]. rewrite N.ltb_irrefl, N.eqb_refl. exact IH.
Qed.

Theorem list_diff_common_prefix p a b : list_diff (p ++ a) (p ++ b) = list_diff a b.
Proof.
  induction p as [|[k v] p IH]; [reflexivity|].
  cbn [app list_diff]. rewrite N.ltb_irrefl, N.eqb_refl. exact IH.
Qed.

Theorem list_diff_nil_l b : list_diff [] b = map (fun e => Added (fst e) (snd e)) b.
Proof. reflexivity. Qed.

Theorem list_diff_nil_r a : list_diff a [] = map (fun e => Removed (fst e) (snd e)) a.
Proof. destruct a as [|[k v] a]; reflexivity. Qed.

(* the head step of the merge, stated on dictionaries *)
Theorem list_diff_head ka va a kb vb b :
  list_diff ((ka, va) :: a) ((kb, vb) :: b) =
  if ka <? kb then Removed ka va :: list_diff a ((kb, vb) :: b)
  else if kb <? ka then Added kb vb :: list_diff ((ka, va) :: a) b
  else if va =? vb then list_diff a b
  else Modified ka va vb :: list_diff a b.
Proof. reflexivity. Qed.

(* non-vacuity / sanity: the differ model on a three-level pair with one edit *)
Definition ta : node :=
  Inner [(5, 3, Inner [(2, 2, Leaf [(1, 10); (2, 20)]); (5, 1, Leaf [(5, 50)])]);
         (9, 2, Inner [(9, 2, Leaf [(7, 70); (9, 90)])])].
Definition tb : node :=
  Inner [(5, 3, Inner [(2, 2, Leaf [(1, 10); (2, 20)]); (5, 1, Leaf [(5, 50)])]);
         (9, 3, Inner [(9, 3, Leaf [(7, 71); (8, 80); (9, 90)])])].
Example tree_diff_example :
  wf ta /\ wf tb /\
  tree_diff node_eqb false ta tb = Some (list_diff (flatten ta) (flatten tb)) /\
  list_diff (flatten ta) (flatten tb) = [Modified 7 70 71; Added 8 80].
Proof. repeat split; try (apply wfb_sound; vm_compute; reflexivity); vm_compute; reflexivity. Qed.
