(* C13 — correspondence: the differ model runs on the two real tree shapes; the
   oracle is the declarative diff of the two dictionaries. Model/Spec only. *)
From Coq Require Import NArith List Bool.
From Dolt Require Import Prolly.Tree Prolly.Cursor C13.Model C13.Spec.
Import ListNotations.
Local Open Scope N_scope.

Record input := {
  i_da : list kv; i_db : list kv;          (* the generator's sorted contents *)
  i_ta : node; i_tb : node;                (* shapes of the two real trees *)
  i_rng : list (option key * option key)
}.

(* None = the call panicked or the model ran out of fuel *)
Record obs := {
  o_diff : option (list change);           (* DiffMaps(considerAllRowsModified=false) *)
  o_all : option (list change);            (* DiffMaps(considerAllRowsModified=true) *)
  o_krng : list (option (list change));    (* DiffMapsKeyRange *)
  o_rrng : list (option (list change))     (* RangeDiffMaps *)
}.

Definition case := (input * obs)%type.

(* a stored value is 2*row + nc, nc = 1 for the non-canonical encoding of the same row
   (trailing NULL field kept); valDesc.Compare sees the row only *)
Definition row_of (v : val) : N := v / 2.

Definition model_obs (i : input) : obs :=
  {| o_diff := diff_maps node_eqb row_of false (i_ta i) (i_tb i);
     o_all := diff_maps node_eqb row_of true (i_ta i) (i_tb i);
     o_krng := map (fun r => key_range_diff node_eqb row_of (fst r) (snd r) (i_ta i) (i_tb i)) (i_rng i);
     o_rrng := map (fun r => range_diff node_eqb row_of (fst r) (snd r) (i_ta i) (i_tb i)) (i_rng i) |}.

Definition change_eqb (a b : change) : bool :=
  match a, b with
  | Added k v, Added k' v' => (k =? k') && (v =? v')
  | Removed k v, Removed k' v' => (k =? k') && (v =? v')
  | Modified k v w, Modified k' v' w' => (k =? k') && (v =? v') && (w =? w')
  | _, _ => false
  end.

Fixpoint list_eqb {A} (eq : A -> A -> bool) (a b : list A) : bool :=
  match a, b with
  | [], [] => true
  | x :: a', y :: b' => eq x y && list_eqb eq a' b'
  | _, _ => false
  end.
Definition ocl_eqb (a b : option (list change)) : bool :=
  match a, b with
  | Some x, Some y => list_eqb change_eqb x y
  | None, None => true
  | _, _ => false
  end.
Definition kv_eqb (a b : kv) : bool := (fst a =? fst b) && (snd a =? snd b).

Definition obs_eqb (a b : obs) : bool :=
  ocl_eqb (o_diff a) (o_diff b) && ocl_eqb (o_all a) (o_all b)
  && list_eqb ocl_eqb (o_krng a) (o_krng b) && list_eqb ocl_eqb (o_rrng a) (o_rrng b).

Definition oracle (i : input) (o : obs) : bool :=
  wf_rootb (i_ta i) && wf_rootb (i_tb i)
  && list_eqb kv_eqb (flatten (i_ta i)) (i_da i) && list_eqb kv_eqb (flatten (i_tb i)) (i_db i)
  (* every entry point reports the diff of the decoded rows: the same row stored in two
     encodings is not a change *)
  && ocl_eqb (o_diff o) (Some (list_diff_d row_of (i_da i) (i_db i)))
  && ocl_eqb (o_all o) (Some (list_diff_d row_of (i_da i) (i_db i)))
  && list_eqb ocl_eqb (o_krng o) (map (fun r => Some (range_list_diff_d row_of (fst r) (snd r) (i_da i) (i_db i))) (i_rng i))
  && list_eqb ocl_eqb (o_rrng o) (map (fun r => Some (range_list_diff_d row_of (fst r) (snd r) (i_da i) (i_db i))) (i_rng i)).

Definition check_case (c : case) : N :=
  (if obs_eqb (model_obs (fst c)) (snd c) then 0 else 1)
  + (if oracle (fst c) (snd c) then 0 else 2).
