(* C39 — remote server: sealed URLs and path confinement.  Executable model of
     go/libraries/doltcore/remotesrv/sealer.go   singleSymmetricKeySealer.Seal / Unseal
     go/libraries/doltcore/remotesrv/http.go     filehandler.ServeHTTP (GET and POST/PUT branches),
                                                  validateFileName
     go/utils/remotesrv/cscache.go               LocalCSCache.Get (MkDirs + Abs of the repo path)
     go/libraries/utils/filesys/localfs.go       localFS.Abs  (filepath.Join(cwd, p))
     Go path/filepath                            Clean, Join (Unix)
     Go net/url                                  escape / unescape (path mode), URL.String + url.Parse of
                                                  a {Path, RawQuery} URL, EscapedPath
   AES-256-GCM is a pair of Section variables (ideal AEAD).  No proofs here. *)
From Coq Require Import NArith ZArith List Bool.
From Coq Require Decimal DecimalN.
From Dolt Require Import Base.Str Gen.C39Consts.
Import ListNotations.
Local Open Scope N_scope.

(* ------------------------------------------------------------------ *)
(* 0. small byte-string helpers                                        *)
Definition c_slash := 47.  Definition c_dot := 46.  Definition c_pct := 37.
Definition c_hash := 35.   Definition c_qm := 63.   Definition c_colon := 58.
Definition s_dot : bytes := [46].
Definition s_dotdot : bytes := [46; 46].

Fixpoint mem_bytes (x : bytes) (l : list bytes) : bool :=
  match l with [] => false | y :: r => beq_bytes x y || mem_bytes x r end.

Definition blen (s : bytes) : N := N.of_nat (length s).

(* strings.Cut(s, sep) for a one-byte separator: (before, Some after) or (s, None) *)
Fixpoint cut_byte (sep : N) (s : bytes) : bytes * option bytes :=
  match s with
  | [] => ([], None)
  | c :: r => if c =? sep then ([], Some r)
              else let '(a, b) := cut_byte sep r in (c :: a, b)
  end.

(* strings.LastIndex(p, "/"): split into p[:i] and p[i+1:] *)
Fixpoint cut_last (p : bytes) : option (bytes * bytes) :=
  match p with
  | [] => None
  | c :: r =>
    match cut_last r with
    | Some (d, f) => Some (c :: d, f)
    | None => if c =? c_slash then Some ([], r) else None
    end
  end.

(* strings.TrimLeft(p, "/") *)
Fixpoint trim_left_slash (p : bytes) : bytes :=
  match p with
  | c :: r => if c =? c_slash then trim_left_slash r else p
  | [] => []
  end.

(* strings.TrimPrefix *)
Fixpoint trim_prefix (pre s : bytes) : bytes :=
  match pre, s with
  | [], _ => s
  | x :: pre', y :: s' => if x =? y then (if is_prefix pre' s' then trim_prefix pre' s' else s) else s
  | _ :: _, [] => s
  end.

(* ------------------------------------------------------------------ *)
(* 1. decimal integers: strconv.FormatInt(v, 10) and strconv.ParseInt(s, 10, 64) *)
Fixpoint uint_bytes (u : Decimal.uint) : bytes :=
  match u with
  | Decimal.Nil => []
  | Decimal.D0 r => 48 :: uint_bytes r | Decimal.D1 r => 49 :: uint_bytes r | Decimal.D2 r => 50 :: uint_bytes r
  | Decimal.D3 r => 51 :: uint_bytes r | Decimal.D4 r => 52 :: uint_bytes r | Decimal.D5 r => 53 :: uint_bytes r
  | Decimal.D6 r => 54 :: uint_bytes r | Decimal.D7 r => 55 :: uint_bytes r | Decimal.D8 r => 56 :: uint_bytes r
  | Decimal.D9 r => 57 :: uint_bytes r
  end.

Fixpoint bytes_uint (s : bytes) : option Decimal.uint :=
  match s with
  | [] => Some Decimal.Nil
  | c :: r =>
    match bytes_uint r with
    | None => None
    | Some u =>
      if c =? 48 then Some (Decimal.D0 u) else if c =? 49 then Some (Decimal.D1 u) else if c =? 50 then Some (Decimal.D2 u)
      else if c =? 51 then Some (Decimal.D3 u) else if c =? 52 then Some (Decimal.D4 u) else if c =? 53 then Some (Decimal.D5 u)
      else if c =? 54 then Some (Decimal.D6 u) else if c =? 55 then Some (Decimal.D7 u) else if c =? 56 then Some (Decimal.D8 u)
      else if c =? 57 then Some (Decimal.D9 u) else None
    end
  end.

Definition fmt_int (z : Z) : bytes :=
  if (z <? 0)%Z then 45 :: uint_bytes (N.to_uint (Z.abs_N z)) else uint_bytes (N.to_uint (Z.to_N z)).

Definition two63 : N := 9223372036854775808.

(* ParseInt(s, 10, 64): optional sign, at least one digit, digits only, int64 range *)
Definition parse_int64 (s : bytes) : option Z :=
  match s with
  | [] => None
  | c :: r =>
    let '(neg, ds) := if c =? 45 then (true, r) else if c =? 43 then (false, r) else (false, s) in
    match ds with
    | [] => None
    | _ =>
      match bytes_uint ds with
      | None => None
      | Some u =>
        let n := N.of_uint u in
        if neg then (if n <=? two63 then Some (- Z.of_N n)%Z else None)
        else (if n <? two63 then Some (Z.of_N n) else None)
      end
    end
  end.

(* ------------------------------------------------------------------ *)
(* 2. net/url escaping in path mode                                    *)
Definition is_alnum (c : N) : bool :=
  ((97 <=? c) && (c <=? 122)) || ((65 <=? c) && (c <=? 90)) || ((48 <=? c) && (c <=? 57)).

(* shouldEscape(c, encodePath) = false *)
Definition plain_byte (c : N) : bool :=
  is_alnum c
  || (c =? 45) || (c =? 95) || (c =? 46) || (c =? 126)                 (* - _ . ~ *)
  || (c =? 36) || (c =? 38) || (c =? 43) || (c =? 44) || (c =? 47)     (* $ & + , / *)
  || (c =? 58) || (c =? 59) || (c =? 61) || (c =? 64).                 (* : ; = @ *)

Definition hex_digit (v : N) : N := if v <? 10 then 48 + v else 55 + v.   (* upper-case *)

Definition esc_byte (c : N) : bytes :=
  if plain_byte c then [c] else [c_pct; hex_digit (c / 16); hex_digit (c mod 16)].

Definition escape (p : bytes) : bytes := flat_map esc_byte p.

(* URL.EscapedPath() of a URL built with only Path set (RawPath = "") *)
Definition s_star : bytes := [42].
Definition escaped_path (p : bytes) : bytes := if beq_bytes p s_star then s_star else escape p.

Definition hex_val (c : N) : option N :=
  if (48 <=? c) && (c <=? 57) then Some (c - 48)
  else if (97 <=? c) && (c <=? 102) then Some (c - 87)
  else if (65 <=? c) && (c <=? 70) then Some (c - 55)
  else None.

(* unescape(s, encodePath): None = "invalid URL escape" *)
Fixpoint unescape (s : bytes) : option bytes :=
  match s with
  | [] => Some []
  | c :: r =>
    if c =? c_pct then
      match r with
      | h :: l :: r' =>
        match hex_val h, hex_val l, unescape r' with
        | Some a, Some b, Some t => Some ((16 * a + b) :: t)
        | _, _, _ => None
        end
      | _ => None
      end
    else match unescape r with Some t => Some (c :: t) | None => None end
  end.

(* validEncoded(s, encodePath) *)
Definition valid_enc_byte (c : N) : bool :=
  (c =? 33) || (c =? 36) || (c =? 38) || (c =? 39) || (c =? 40) || (c =? 41) || (c =? 42) || (c =? 43)
  || (c =? 44) || (c =? 59) || (c =? 61) || (c =? 58) || (c =? 64) || (c =? 91) || (c =? 93)
  || (c =? c_pct) || plain_byte c.
Definition valid_encoded (s : bytes) : bool := forallb valid_enc_byte s.

Definition is_ctl (c : N) : bool := (c <? 32) || (c =? 127).

(* (&url.URL{Path: ep, RawQuery: q}).String(): escaped path, "./" guard when the first segment of a
   relative path contains ':', then "?" + RawQuery when it is not empty *)
Definition first_seg_colon (p : bytes) : bool := existsb (fun c => c =? c_colon) (fst (cut_byte c_slash p)).

Definition request_uri (p q : bytes) : bytes :=
  let path := escaped_path p in
  (if first_seg_colon path then [c_dot; c_slash] else []) ++ path
  ++ match q with [] => [] | _ => c_qm :: q end.

(* url.Parse of such a string, reduced to what Unseal uses: (Path, EscapedPath(), RawQuery).
   Fragment cut at '#', control bytes rejected, query cut at '?', first-segment-colon rule for relative
   paths, path unescaped; EscapedPath = the raw path when it is a valid encoding, else escape(Path).
   Scheme/authority detection is not modelled: the "./" guard makes it unreachable for strings produced
   by request_uri, and under an ideal AEAD Unseal only ever parses such strings. *)
Definition parse_request_uri (s : bytes) : option (bytes * bytes * bytes) :=
  let s1 := fst (cut_byte c_hash s) in
  if existsb is_ctl s1 then None
  else
    let '(rest, oq) := cut_byte c_qm s1 in
    let q := match oq with Some q => q | None => [] end in
    if negb (is_prefix [c_slash] rest) && first_seg_colon rest then None
    else
    (* "//authority/path" (but not "///..."): the text up to the next '/' is taken as the authority.
       Errors of the authority syntax itself are not modelled (the result is rejected by the path
       comparison in either case; Corr compares reject codes 9 and 10 as one class). *)
    let rest := if is_prefix [c_slash; c_slash] rest && negb (is_prefix [c_slash; c_slash; c_slash] rest)
                then match cut_byte c_slash (skipn 2 rest) with
                     | (_, Some r) => c_slash :: r
                     | (_, None) => []
                     end
                else rest in
    match unescape rest with
         | None => None
         | Some path =>
           let ep := if valid_encoded rest then rest else escaped_path path in
           Some (path, ep, q)
         end.

(* ------------------------------------------------------------------ *)
(* 3. the sealer                                                       *)
Record url := { u_path : bytes; u_query : bytes }.

(* a query parameter of the sealed URL, after the decoding Unseal applies to it
   (nbf/exp: the string itself; nonce/req: base64.RawURLEncoding.DecodeString) *)
Inductive fld := FAbsent | FBad | FVal (v : bytes).

Record surl := { s_path : bytes; s_req : fld; s_nbf : fld; s_exp : fld; s_nonce : fld }.

Inductive ures :=
| UOk (u : url)
| URej (code : N)     (* 1 prefix, 2 missing parameter, 3 nbf/exp not an int64, 4 nonce not base64, 5 before nbf,
                         6 after exp, 7 req not base64, 8 AEAD open failed, 9 unsealed URI does not parse,
                         10 path differs from the sealed path *)
| UPanic.             (* cipher.AEAD.Open panics on a nonce whose length is not 12 *)

Definition seal_prefix : bytes :=
  (* "/single_symmetric_key_sealed_request/" *)
  [47; 115; 105; 110; 103; 108; 101; 95; 115; 121; 109; 109; 101; 116; 114; 105; 99; 95; 107; 101; 121; 95;
   115; 101; 97; 108; 101; 100; 95; 114; 101; 113; 117; 101; 115; 116; 47].

Definition aad_of (nbfs exps : bytes) : bytes := nbfs ++ c_colon :: exps.
Definition fld_absent (f : fld) : bool := match f with FAbsent => true | _ => false end.

Section Sealer.
  (* crypto/cipher AEAD (AES-256-GCM): key nonce plaintext aad / key nonce ciphertext aad *)
  Variable aead_seal : bytes -> bytes -> bytes -> bytes -> bytes.
  Variable aead_open : bytes -> bytes -> bytes -> bytes -> option bytes.

  (* Seal.  now1/now2: the two time.Now() readings (Unix ms); nonce: the 12 random bytes. *)
  (* the sealed request URI is (&url.URL{Path: u.Path, RawPath: u.RawPath, RawQuery: u.RawQuery}).String()  (f75d72f;
     RawPath is empty for the URLs the server builds), i.e. the path is escaped once *)
  Definition seal_with (key nonce nbfs exps : bytes) (u : url) : surl :=
    let ep := escaped_path (u_path u) in
    {| s_path := seal_prefix ++ ep;
       s_req := FVal (aead_seal key nonce (request_uri (u_path u) (u_query u)) (aad_of nbfs exps));
       s_nbf := FVal nbfs; s_exp := FVal exps; s_nonce := FVal nonce |}.

  Definition seal_url (key nonce : bytes) (now1 now2 : Z) (u : url) : surl :=
    seal_with key nonce (fmt_int (now1 - 10000)) (fmt_int (now2 + 900000)) u.

  (* Unseal, checks in the code's order.  now: time.Now() in Unix ms. *)
  Definition unseal (key : bytes) (now : Z) (s : surl) : ures :=
    if negb (is_prefix seal_prefix (s_path s)) then URej 1 else
    if fld_absent (s_nbf s) || fld_absent (s_exp s) || fld_absent (s_nonce s) || fld_absent (s_req s) then URej 2 else
    match s_nbf s with FAbsent => URej 2 | FBad => URej 3 | FVal nbfs =>
    match s_exp s with FAbsent => URej 2 | FBad => URej 3 | FVal exps =>
    match parse_int64 nbfs with None => URej 3 | Some nbf =>
    match parse_int64 exps with None => URej 3 | Some exp =>
    match s_nonce s with FAbsent => URej 2 | FBad => URej 4 | FVal n =>
    if (now <? nbf)%Z then URej 5 else
    if (exp <? now)%Z then URej 6 else
    match s_req s with FAbsent => URej 2 | FBad => URej 7 | FVal c =>
    if negb (length n =? 12)%nat then UPanic else
    match aead_open key n c (aad_of nbfs exps) with None => URej 8 | Some pt =>
    match parse_request_uri pt with None => URej 9 | Some (path, ep, q) =>
    if beq_bytes (trim_prefix seal_prefix (s_path s)) ep
    then UOk {| u_path := path; u_query := q |} else URej 10
    end end end end end end end end.
End Sealer.

(* A concrete ideal AEAD used to *run* the model in the correspondence (and as the non-vacuity
   instance): the ciphertext is the tagged tuple itself. *)
Definition enc_field (s : bytes) : bytes := blen s :: s.
Definition sym_seal (k n p a : bytes) : bytes :=
  1 :: enc_field k ++ enc_field n ++ enc_field a ++ p.
Definition take_field (s : bytes) : option (bytes * bytes) :=
  match s with
  | [] => None
  | l :: r => if (N.of_nat (length r) <? l) then None else Some (firstn (N.to_nat l) r, skipn (N.to_nat l) r)
  end.
Definition sym_open (k n c a : bytes) : option bytes :=
  match c with
  | 1 :: r =>
    match take_field r with None => None | Some (k', r1) =>
    match take_field r1 with None => None | Some (n', r2) =>
    match take_field r2 with None => None | Some (a', p) =>
    if beq_bytes k k' && beq_bytes n n' && beq_bytes a a' then Some p else None
    end end end
  | _ => None
  end.

(* ------------------------------------------------------------------ *)
(* 4. path/filepath (Unix): Clean and Join                             *)
Definition seg_skip (g : bytes) : bool := beq_bytes g [] || beq_bytes g s_dot.

(* one step of Clean over the stack of kept segments (top first) *)
Definition cstep (rooted : bool) (st : list bytes) (g : bytes) : list bytes :=
  if seg_skip g then st
  else if beq_bytes g s_dotdot then
    match st with
    | top :: st' => if beq_bytes top s_dotdot then g :: st else st'
    | [] => if rooted then [] else [g]
    end
  else g :: st.

Definition cstack (rooted : bool) (segs st : list bytes) : list bytes := fold_left (cstep rooted) segs st.

Definition join_slash (l : list bytes) : bytes :=
  match l with [] => [] | x :: r => x ++ flat_map (fun y => c_slash :: y) r end.

Definition clean (p : bytes) : bytes :=
  match p with
  | [] => s_dot
  | c :: _ =>
    let rooted := c =? c_slash in
    let st := rev (cstack rooted (split_on c_slash p) []) in
    if rooted then c_slash :: join_slash st
    else match st with [] => s_dot | _ => join_slash st end
  end.

(* filepath.Join(a, b) *)
Definition join2 (a b : bytes) : bytes :=
  match a, b with
  | [], [] => []
  | [], _ => clean b
  | _, _ => clean (a ++ c_slash :: b)
  end.

(* localFS.Abs *)
Definition fs_abs (cwd p : bytes) : bytes := if is_prefix [c_slash] p then p else join2 cwd p.

(* ------------------------------------------------------------------ *)
(* 5. filehandler.ServeHTTP                                            *)
Definition is_hash_char (c : N) : bool := ((48 <=? c) && (c <=? 57)) || ((97 <=? c) && (c <=? 118)).
(* hash.MaybeParse: ^[0-9a-v]{32}$ *)
Definition is_hash_name (f : bytes) : bool := (blen f =? c39_hash_string_len) && forallb is_hash_char f.

Definition strip_suffix (suf f : bytes) : bytes :=
  if is_suffix suf f then firstn (length f - length suf) f else f.

(* validateFileName *)
Definition validate_file_name (f : bytes) : bool :=
  if blen f =? c39_hash_string_len then is_hash_name f
  else if (blen f =? c39_hash_string_len + blen c39_archive_suffix) && is_suffix c39_archive_suffix f
       then is_hash_name (firstn (N.to_nat c39_hash_string_len) f)
       else false.

(* the GET branch's guard after Clean *)
Definition dotdot_reject (p : bytes) : bool :=
  is_prefix [46; 46; 47] p || has_infix [47; 46; 46; 47] p || is_suffix [47; 46; 46] p.

(* what the OS refuses regardless of the directory contents: NUL in the name (EINVAL),
   a component longer than NAME_MAX (ENAMETOOLONG) *)
Definition fs_bad (p : bytes) : bool :=
  existsb (fun c => c =? 0) p || existsb (fun g => 255 <? blen g) (split_on c_slash p).

Record fsctx := { fs_root : bytes;            (* cwd of the server's Filesys: absolute, clean *)
                  fs_files : list bytes;      (* regular files that exist (absolute, clean) *)
                  fs_dirs : list bytes }.     (* directories that exist (absolute, clean) *)

Record hres := { h_status : N;
                 h_read : option bytes;       (* file whose contents were served *)
                 h_touched : list bytes }.    (* directories created or written into *)

(* GET: the path handed to os.Stat/os.Open, if the request gets that far *)
Definition get_access (root p0 : bytes) : option bytes :=
  let p := clean (trim_left_slash p0) in
  if dotdot_reject p then None
  else match cut_last p with
       | None => None
       | Some (_, f) =>
         if is_hash_name (strip_suffix c39_archive_suffix f) then Some (fs_abs root p) else None
       end.

Definition get_handle (ctx : fsctx) (p0 : bytes) : hres :=
  match get_access (fs_root ctx) p0 with
  | None => {| h_status := 400; h_read := None; h_touched := [] |}
  | Some abs =>
    if fs_bad abs then {| h_status := 500; h_read := None; h_touched := [] |}
    else if mem_bytes abs (fs_files ctx) then {| h_status := 200; h_read := Some abs; h_touched := [] |}
    else {| h_status := 404; h_read := None; h_touched := [] |}
  end.

(* POST/PUT.  [guard] = the GET branch's clean-and-reject is also applied here (false: the code as it
   is today; true: after the proposed repair).  Result of the path handling: error status, or the
   directory handed to DBCache.Get -> MkDirs/NewLocalStore (as resolved by localFS.Abs). *)
Definition post_access (guard : bool) (root p0 : bytes) : N + bytes :=
  let p1 := trim_left_slash p0 in
  let p := if guard then clean p1 else p1 in
  if guard && dotdot_reject p then inl 400
  else match cut_last p with
       | None => inl 404
       | Some (dir, f) => if validate_file_name f then inr (fs_abs root dir) else inl 404
       end.

(* qbad: a required query parameter is missing / malformed (checked after the file name, before the store) *)
Definition post_handle (guard : bool) (ctx : fsctx) (read_only qbad : bool) (p0 : bytes) : hres :=
  if read_only then {| h_status := 403; h_read := None; h_touched := [] |}
  else match post_access guard (fs_root ctx) p0 with
       | inl st => {| h_status := st; h_read := None; h_touched := [] |}
       | inr d =>
         if qbad then {| h_status := 400; h_read := None; h_touched := [] |}
         else if fs_bad d then {| h_status := 500; h_read := None; h_touched := [] |}
         else {| h_status := 200; h_read := None; h_touched := [d] |}
       end.

(* method: 0 GET, 1 POST, 2 PUT, other: 405 *)
Definition handle (guard : bool) (ctx : fsctx) (meth : N) (read_only qbad : bool) (p0 : bytes) : hres :=
  if meth =? 0 then get_handle ctx p0
  else if (meth =? 1) || (meth =? 2) then post_handle guard ctx read_only qbad p0
  else {| h_status := 405; h_read := None; h_touched := [] |}.

(* ------------------------------------------------------------------ *)
(* 6. the gRPC service: getRepoPath + getOrCreateStore (grpc.go) — every ChunkStoreService method resolves the
      client-chosen repository to a store through DBCache.Get(repoPath) before doing anything else *)
(* getRepoPath: repo_path if set, else repo_id.org + "/" + repo_id.repo_name *)
Definition grpc_repo_path (use_id : bool) (p org name : bytes) : bytes :=
  if use_id then org ++ c_slash :: name else p.

(* the directory handed to LocalCSCache.Get -> MkDirs / NewLocalStore; None = the request is refused.
   [guard] = false: the code as it is (no validation of the repository path);
   [guard] = true: the proposed repair in getOrCreateStore — refuse absolute paths and paths whose Clean form is
   ".." or begins with "../", use the cleaned path. *)
Definition grpc_access (guard : bool) (root rp : bytes) : option bytes :=
  if guard then
    if is_prefix [c_slash] rp then None
    else let p := clean rp in
         if beq_bytes p s_dotdot || is_prefix [46; 46; 47] p then None else Some (fs_abs root p)
  else Some (fs_abs root rp).

(* (the call returned an error, directories created) *)
Definition grpc_handle (guard : bool) (ctx : fsctx) (rp : bytes) : bool * list bytes :=
  match grpc_access guard (fs_root ctx) rp with
  | None => (true, [])
  | Some d => if fs_bad d then (true, [])
              else (false, if mem_bytes d (fs_dirs ctx) then [] else [d])
  end.
