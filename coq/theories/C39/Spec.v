(* C39 — what the property says, independently of how the server computes it.
   (a) Where a path names a file: POSIX resolution of a slash path without symbolic links, as a walk
       in the directory tree ("" and "." stay, ".." goes to the parent, the parent of / is /).
       [under root f]: the location named by f is the location named by root or below it.
   (b) What "the original request" and "a change to a sealed URL" mean. *)
From Coq Require Import NArith ZArith List Bool.
From Dolt Require Import Base.Str C39.Model.
Import ListNotations.
Local Open Scope N_scope.

(* ---- (a) locations ---- *)
Definition wstep (cur : list bytes) (g : bytes) : list bytes :=
  if beq_bytes g [] || beq_bytes g [46] then cur
  else if beq_bytes g [46; 46] then tl cur
  else g :: cur.

(* the location (list of directory entry names from /) an absolute path resolves to *)
Definition walk (abs : bytes) : list bytes := rev (fold_left wstep (split_on 47 abs) []).

Definition under (root f : bytes) : Prop := exists rest, walk f = walk root ++ rest.

Fixpoint list_prefix_b (a b : list bytes) : bool :=
  match a, b with
  | [], _ => true
  | x :: a', y :: b' => beq_bytes x y && list_prefix_b a' b'
  | _ :: _, [] => false
  end.

Definition under_b (root f : bytes) : bool := list_prefix_b (walk root) (walk f).

Definition absolute (p : bytes) : Prop := exists r, p = 47 :: r.

(* ---- (b) sealed URLs ---- *)
(* paths the sealed form carries faithfully: byte strings, except a relative path whose first segment contains ':'
   (URL.String prepends "./", which comes back as part of the path) and a path that begins with exactly two slashes
   (url.Parse reads "//x" as an authority) — for these two classes Unseal still rejects what Seal issued *)
Definition dslash_start (p : bytes) : bool := is_prefix [47; 47] p && negb (is_prefix [47; 47; 47] p).

Definition bytes_ok (p : bytes) : Prop := Forall (fun c => c < 256) p.

Definition sealable_path (p : bytes) : Prop :=
  (is_prefix [47] p = true \/ first_seg_colon p = false) /\ dslash_start p = false.

Definition sealable_path_b (p : bytes) : bool :=
  (is_prefix [47] p || negb (first_seg_colon p)) && negb (dslash_start p).

(* a path net/url does not need to percent-encode (kept for the regression Examples) *)
Definition plain_path (p : bytes) : Prop :=
  forallb plain_byte p = true /\ sealable_path p.

(* a RawQuery as url.Values.Encode produces: no fragment delimiter, no control bytes *)
Definition good_query (q : bytes) : Prop := existsb (fun c => (c =? 35) || is_ctl c) q = false.
Definition good_query_b (q : bytes) : bool := negb (existsb (fun c => (c =? 35) || is_ctl c) q).

Definition fld_eqb (a b : fld) : bool :=
  match a, b with
  | FAbsent, FAbsent => true | FBad, FBad => true
  | FVal x, FVal y => beq_bytes x y
  | _, _ => false
  end.

(* s' differs from s in its path, sealed payload, nonce or validity window *)
Definition tampered (s s' : surl) : Prop :=
  s_path s' <> s_path s \/ s_req s' <> s_req s \/ s_nonce s' <> s_nonce s
  \/ s_nbf s' <> s_nbf s \/ s_exp s' <> s_exp s.

Definition tampered_b (s s' : surl) : bool :=
  negb (beq_bytes (s_path s') (s_path s) && fld_eqb (s_req s') (s_req s) && fld_eqb (s_nonce s') (s_nonce s)
        && fld_eqb (s_nbf s') (s_nbf s) && fld_eqb (s_exp s') (s_exp s)).

Definition accepted (r : ures) : Prop := exists u, r = UOk u.
Definition accepted_b (r : ures) : bool := match r with UOk _ => true | _ => false end.
