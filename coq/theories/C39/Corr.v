(* C39 — correspondence: model observation, comparison with what the real sealer / file handler
   did, and the executable statement of the property evaluated on the implementation's observation. *)
From Coq Require Import NArith ZArith List Bool.
From Dolt Require Import Base.Str Gen.C39Consts C39.Model C39.Spec.
Import ListNotations.
Local Open Scope N_scope.

(* what is done to a sealed URL before it is presented to Unseal *)
Inductive mutation :=
| MNone
| MPath (p : bytes)                              (* URL.Path replaced *)
| MReq (f : fld)                                 (* req dropped / not base64 / other bytes *)
| MReqOf (nonce2 : bytes) (d1 d2 : Z) (u2 : url) (* req of another URL sealed with the same key *)
| MNonce (f : fld)
| MNbf (f : fld)
| MExp (f : fld)
| MForge (nbfs exps : bytes).                    (* sealed by a holder of the key with a chosen window *)

Inductive input :=
| ISeal (key nonce : bytes) (now1 now2 : Z) (u : url) (m : mutation) (now' : Z)
| IHandle (guard : bool) (ctx : fsctx) (mode meth : N) (read_only qbad : bool) (p : bytes)
| IGrpc (guard : bool) (ctx : fsctx) (use_id : bool) (p org name : bytes).   (* a ChunkStoreService method with this repo_path / repo_id *)
  (* mode 0: URL.Path = p, identity sealer; 1: {Path = p} sealed by the real sealer and sent as a URL string;
     2: p is the escaped path of the request target, identity sealer *)

Inductive obs :=
| OSeal (spath pt : bytes) (r : ures)      (* sealed path, plaintext inside req, result of Unseal *)
| OHandle (cleaned joined : bytes) (r : hres)
| OGrpc (cleaned joined : bytes) (err : bool) (touched : list bytes).

Definition case := (input * obs)%type.

Definition base_surl (key nonce : bytes) (now1 now2 : Z) (u : url) (m : mutation) : surl :=
  match m with
  | MForge nbfs exps => seal_with sym_seal key nonce nbfs exps u
  | _ => seal_url sym_seal key nonce now1 now2 u
  end.

Definition mutate (key : bytes) (s : surl) (m : mutation) : surl :=
  match m with
  | MNone | MForge _ _ => s
  | MPath p => {| s_path := p; s_req := s_req s; s_nbf := s_nbf s; s_exp := s_exp s; s_nonce := s_nonce s |}
  | MReq f => {| s_path := s_path s; s_req := f; s_nbf := s_nbf s; s_exp := s_exp s; s_nonce := s_nonce s |}
  | MReqOf n2 d1 d2 u2 =>
    {| s_path := s_path s; s_req := s_req (seal_url sym_seal key n2 d1 d2 u2);
       s_nbf := s_nbf s; s_exp := s_exp s; s_nonce := s_nonce s |}
  | MNonce f => {| s_path := s_path s; s_req := s_req s; s_nbf := s_nbf s; s_exp := s_exp s; s_nonce := f |}
  | MNbf f => {| s_path := s_path s; s_req := s_req s; s_nbf := f; s_exp := s_exp s; s_nonce := s_nonce s |}
  | MExp f => {| s_path := s_path s; s_req := s_req s; s_nbf := s_nbf s; s_exp := f; s_nonce := s_nonce s |}
  end.


(* The directory tree the harness plants for every handler case (props/c39.py FILES/DIRS; written out
   here once so that the generated case terms stay small): root /SB/r1/r2/r3/r4/root with table files
   inside it, and table files with the same names outside it (siblings out/, rootx/, x/ and one level up). *)
Definition std_ctx : fsctx :=
  {| fs_root := [47; 83; 66; 47; 114; 49; 47; 114; 50; 47; 114; 51; 47; 114; 52; 47; 114; 111; 111; 116];
     fs_files := [[47; 83; 66; 47; 114; 49; 47; 114; 50; 47; 114; 51; 47; 114; 52; 47; 114; 111; 111; 116; 47; 111; 114; 103; 47; 114; 101; 112; 111; 47; 48; 49; 50; 51; 52; 53; 54; 55; 56; 57; 97; 98; 99; 100; 101; 102; 103; 104; 105; 106; 107; 108; 109; 110; 111; 112; 113; 114; 115; 116; 117; 118];
                  [47; 83; 66; 47; 114; 49; 47; 114; 50; 47; 114; 51; 47; 114; 52; 47; 114; 111; 111; 116; 47; 111; 114; 103; 47; 114; 101; 112; 111; 47; 118; 117; 116; 115; 114; 113; 112; 111; 110; 109; 108; 107; 106; 105; 104; 103; 102; 101; 100; 99; 98; 97; 57; 56; 55; 54; 53; 52; 51; 50; 49; 48; 46; 100; 97; 114; 99];
                  [47; 83; 66; 47; 114; 49; 47; 114; 50; 47; 114; 51; 47; 114; 52; 47; 114; 111; 111; 116; 47; 115; 111; 108; 111; 47; 97; 97; 97; 97; 97; 97; 97; 97; 97; 97; 97; 97; 97; 97; 97; 97; 98; 98; 98; 98; 98; 98; 98; 98; 98; 98; 98; 98; 98; 98; 98; 98];
                  [47; 83; 66; 47; 114; 49; 47; 114; 50; 47; 114; 51; 47; 114; 52; 47; 111; 117; 116; 47; 48; 49; 50; 51; 52; 53; 54; 55; 56; 57; 97; 98; 99; 100; 101; 102; 103; 104; 105; 106; 107; 108; 109; 110; 111; 112; 113; 114; 115; 116; 117; 118];
                  [47; 83; 66; 47; 114; 49; 47; 114; 50; 47; 114; 51; 47; 114; 52; 47; 114; 111; 111; 116; 120; 47; 48; 49; 50; 51; 52; 53; 54; 55; 56; 57; 97; 98; 99; 100; 101; 102; 103; 104; 105; 106; 107; 108; 109; 110; 111; 112; 113; 114; 115; 116; 117; 118];
                  [47; 83; 66; 47; 114; 49; 47; 114; 50; 47; 114; 51; 47; 120; 47; 48; 49; 50; 51; 52; 53; 54; 55; 56; 57; 97; 98; 99; 100; 101; 102; 103; 104; 105; 106; 107; 108; 109; 110; 111; 112; 113; 114; 115; 116; 117; 118];
                  [47; 83; 66; 47; 114; 49; 47; 114; 50; 47; 114; 51; 47; 114; 52; 47; 120; 47; 97; 97; 97; 97; 97; 97; 97; 97; 97; 97; 97; 97; 97; 97; 97; 97; 98; 98; 98; 98; 98; 98; 98; 98; 98; 98; 98; 98; 98; 98; 98; 98]];
     fs_dirs := [[47; 83; 66];
                 [47; 83; 66; 47; 114; 49];
                 [47; 83; 66; 47; 114; 49; 47; 114; 50];
                 [47; 83; 66; 47; 114; 49; 47; 114; 50; 47; 114; 51];
                 [47; 83; 66; 47; 114; 49; 47; 114; 50; 47; 114; 51; 47; 114; 52];
                 [47; 83; 66; 47; 114; 49; 47; 114; 50; 47; 114; 51; 47; 114; 52; 47; 114; 111; 111; 116];
                 [47; 83; 66; 47; 114; 49; 47; 114; 50; 47; 114; 51; 47; 114; 52; 47; 114; 111; 111; 116; 47; 111; 114; 103];
                 [47; 83; 66; 47; 114; 49; 47; 114; 50; 47; 114; 51; 47; 114; 52; 47; 114; 111; 111; 116; 47; 111; 114; 103; 47; 114; 101; 112; 111];
                 [47; 83; 66; 47; 114; 49; 47; 114; 50; 47; 114; 51; 47; 114; 52; 47; 114; 111; 111; 116; 47; 111; 114; 103; 47; 101; 109; 112; 116; 121];
                 [47; 83; 66; 47; 114; 49; 47; 114; 50; 47; 114; 51; 47; 114; 52; 47; 114; 111; 111; 116; 47; 115; 111; 108; 111];
                 [47; 83; 66; 47; 114; 49; 47; 114; 50; 47; 114; 51; 47; 114; 52; 47; 111; 117; 116];
                 [47; 83; 66; 47; 114; 49; 47; 114; 50; 47; 114; 51; 47; 114; 52; 47; 114; 111; 111; 116; 120];
                 [47; 83; 66; 47; 114; 49; 47; 114; 50; 47; 114; 51; 47; 120];
                 [47; 83; 66; 47; 114; 49; 47; 114; 50; 47; 114; 51; 47; 114; 52; 47; 120]] |}.

Definition zero_nonce : bytes := repeat 0 12.

(* the path the handler sees *)
Definition transport (mode : N) (p : bytes) : option bytes :=
  if mode =? 0 then Some p
  else if mode =? 1 then
    match unseal sym_open [] 0%Z (seal_url sym_seal [] zero_nonce 0%Z 0%Z {| u_path := p; u_query := [] |}) with
    | UOk u' => Some (u_path u')
    | _ => None
    end
  else unescape p.

Definition model_obs (i : input) : obs :=
  match i with
  | ISeal key nonce now1 now2 u m now' =>
    let s := base_surl key nonce now1 now2 u m in
    OSeal (s_path s) (request_uri (u_path u) (u_query u))
          (unseal sym_open key now' (mutate key s m))
  | IHandle guard ctx mode meth ro qbad p =>
    let p_in := trim_left_slash (if mode =? 2 then match unescape p with Some q => q | None => p end else p) in
    OHandle (clean p_in) (join2 (fs_root ctx) p_in)
            (match transport mode p with
             | None => {| h_status := 400; h_read := None; h_touched := [] |}
             | Some hp => handle guard ctx meth ro qbad hp
             end)
  | IGrpc guard ctx use_id p org name =>
    let rp := grpc_repo_path use_id p org name in
    let r := grpc_handle guard ctx rp in
    OGrpc (clean rp) (join2 (fs_root ctx) rp) (fst r) (snd r)
  end.

Definition ures_eqb (a b : ures) : bool :=
  match a, b with
  | UOk u, UOk v => beq_bytes (u_path u) (u_path v) && beq_bytes (u_query u) (u_query v)
  | URej c, URej d => (c =? d) || (((c =? 9) || (c =? 10)) && ((d =? 9) || (d =? 10)))
  | UPanic, UPanic => true
  | _, _ => false
  end.

Fixpoint lbytes_eqb (a b : list bytes) : bool :=
  match a, b with
  | [], [] => true
  | x :: a', y :: b' => beq_bytes x y && lbytes_eqb a' b'
  | _, _ => false
  end.

Definition hres_eqb (a b : hres) : bool :=
  (h_status a =? h_status b)
  && match h_read a, h_read b with
     | None, None => true | Some x, Some y => beq_bytes x y | _, _ => false end
  && lbytes_eqb (h_touched a) (h_touched b).

Definition obs_eqb (a b : obs) : bool :=
  match a, b with
  | OSeal p1 t1 r1, OSeal p2 t2 r2 => beq_bytes p1 p2 && beq_bytes t1 t2 && ures_eqb r1 r2
  | OHandle c1 j1 r1, OHandle c2 j2 r2 => beq_bytes c1 c2 && beq_bytes j1 j2 && hres_eqb r1 r2
  | OGrpc c1 j1 e1 t1, OGrpc c2 j2 e2 t2 => beq_bytes c1 c2 && beq_bytes j1 j2 && Bool.eqb e1 e2 && lbytes_eqb t1 t2
  | _, _ => false
  end.

Definition in_window (s : surl) (now : Z) : bool :=
  match s_nbf s, s_exp s with
  | FVal a, FVal b =>
    match parse_int64 a, parse_int64 b with
    | Some nbf, Some exp => (nbf <=? now)%Z && (now <=? exp)%Z
    | _, _ => false
    end
  | _, _ => false
  end.

(* The property on what the implementation returned:
   sealer   — an unmodified sealed URL used inside its window unseals to exactly the original
              {Path, RawQuery}; a URL whose path / req / nonce / nbf / exp differs from what the
              sealer issued, or that is used outside its window, is not accepted (a panic is not an
              acceptance);
   handler  — every directory created or written into, and every file served, is the root or below it. *)
Definition oracle (i : input) (o : obs) : bool :=
  match i, o with
  | ISeal key nonce now1 now2 u m now', OSeal _ _ r =>
    let s := base_surl key nonce now1 now2 u m in
    let s' := mutate key s m in
    if tampered_b s s' || negb (in_window s' now') then negb (accepted_b r)
    else if good_query_b (u_query u) && (length nonce =? 12)%nat then ures_eqb r (UOk u) else true
  | IHandle _ ctx _ _ _ _ _, OHandle _ _ r =>
    forallb (under_b (fs_root ctx)) (h_touched r)
    && match h_read r with Some f => under_b (fs_root ctx) f | None => true end
  | IGrpc _ ctx _ _ _ _, OGrpc _ _ _ touched => forallb (under_b (fs_root ctx)) touched
  | _, _ => false
  end.

Definition check_case (c : case) : N :=
  (if obs_eqb (model_obs (fst c)) (snd c) then 0 else 1)
  + (if oracle (fst c) (snd c) then 0 else 2).
