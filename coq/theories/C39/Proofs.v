(* C39 — proofs. *)
From Coq Require Import NArith ZArith List Bool Lia.
From Coq Require Decimal DecimalN DecimalPos.
From Dolt Require Import Base.Str Gen.C39Consts C39.Model C39.Spec C39.Corr.
Import ListNotations.
Local Open Scope N_scope.

(* constants the hand model was written for *)
Lemma archive_suffix_pinned : c39_archive_suffix = [46; 100; 97; 114; 99].
Proof. reflexivity. Qed.
Lemma hash_len_pinned : c39_hash_string_len = 32.
Proof. reflexivity. Qed.

(* ================================================================== *)
(* Part 1: path confinement                                            *)
(* ================================================================== *)

Definition noslash (g : bytes) : Prop := ~ In 47 g.
Definition goodseg (g : bytes) : Prop := seg_skip g = false /\ beq_bytes g s_dotdot = false.
Definition nodd (l : list bytes) : Prop := Forall (fun g => beq_bytes g s_dotdot = false) l.
Definition keep (g : bytes) : bool := negb (seg_skip g).

(* ---- split_on ---- *)
Lemma split_on_cons_ne sep c s :
  (c =? sep) = false ->
  exists x xs, split_on sep s = x :: xs /\ split_on sep (c :: s) = (c :: x) :: xs.
Proof.
  intros Hc. cbn [split_on]. rewrite Hc.
  destruct (split_on sep s) as [|x xs] eqn:E.
  - exfalso. exact (split_on_nonempty sep s E).
  - exists x, xs. split; reflexivity.
Qed.

Lemma split_on_app_sep sep a b :
  split_on sep (a ++ sep :: b) = split_on sep a ++ split_on sep b.
Proof.
  induction a as [|c a IH].
  - cbn [app split_on]. rewrite N.eqb_refl. reflexivity.
  - destruct (c =? sep) eqn:Hc.
    + cbn [app split_on]. rewrite Hc, IH. reflexivity.
    + destruct (split_on_cons_ne sep c a Hc) as [x [xs [E1 E2]]].
      rewrite E2.
      destruct (split_on_cons_ne sep c (a ++ sep :: b) Hc) as [y [ys [F1 F2]]].
      change ((c :: a) ++ sep :: b) with (c :: (a ++ sep :: b)). rewrite F2.
      rewrite IH, E1 in F1. cbn [app] in F1. inversion F1; subst. reflexivity.
Qed.

Lemma split_on_noslash s : Forall noslash (split_on 47 s).
Proof.
  induction s as [|c s IH].
  - cbn [split_on]. constructor; [intros []|constructor].
  - destruct (c =? 47) eqn:Hc.
    + cbn [split_on]. rewrite Hc. constructor; [intros []|exact IH].
    + destruct (split_on_cons_ne 47 c s Hc) as [x [xs [E1 E2]]]. rewrite E2. rewrite E1 in IH.
      inversion IH as [|? ? Hx Hxs]; subst. constructor; [|exact Hxs].
      intros [H|H]; [subst; rewrite N.eqb_refl in Hc; discriminate | exact (Hx H)].
Qed.

Lemma split_noslash x : noslash x -> split_on 47 x = [x].
Proof.
  induction x as [|c x IH]; intros H; [reflexivity|].
  assert (Hc : (c =? 47) = false).
  { apply N.eqb_neq. intros ->. apply H. left. reflexivity. }
  cbn [split_on]. rewrite Hc, IH; [reflexivity|]. intros H1. apply H. right. exact H1.
Qed.

Lemma join_slash_cons x y r : join_slash (x :: y :: r) = x ++ 47 :: join_slash (y :: r).
Proof. reflexivity. Qed.

Lemma split_join l : l <> [] -> Forall noslash l -> split_on 47 (join_slash l) = l.
Proof.
  destruct l as [|x r]; [congruence|]. intros _. revert x.
  induction r as [|y r IH]; intros x H.
  - inversion H; subst. cbn [join_slash flat_map]. rewrite app_nil_r. apply split_noslash. assumption.
  - inversion H as [|? ? Hx Hr]; subst. rewrite join_slash_cons, split_on_app_sep.
    rewrite (split_noslash x Hx), (IH y Hr). reflexivity.
Qed.

(* ---- Clean's stack machine ---- *)
Lemma cstack_app r a b st : cstack r (a ++ b) st = cstack r b (cstack r a st).
Proof. apply fold_left_app. Qed.

Lemma cstack_nodd r d st :
  nodd d -> cstack r d st = rev (filter keep d) ++ st.
Proof.
  revert st. induction d as [|g d IH]; intros st H; [reflexivity|].
  inversion H as [|? ? Hg Hd]; subst.
  cbn [cstack fold_left filter]. unfold cstep at 2, keep at 1.
  destruct (seg_skip g) eqn:Hs; cbn [negb].
  - apply (IH st Hd).
  - rewrite Hg. change (fold_left (cstep r) d (g :: st)) with (cstack r d (g :: st)).
    rewrite (IH (g :: st) Hd). cbn [rev]. rewrite <- app_assoc. reflexivity.
Qed.

Lemma wfold_nodd d cur :
  nodd d -> fold_left wstep d cur = rev (filter keep d) ++ cur.
Proof.
  revert cur. induction d as [|g d IH]; intros cur H; [reflexivity|].
  inversion H as [|? ? Hg Hd]; subst.
  cbn [fold_left filter]. unfold wstep at 2, keep at 1.
  change (beq_bytes g [] || beq_bytes g [46]) with (seg_skip g).
  destruct (seg_skip g) eqn:Hs; cbn [negb].
  - apply (IH cur Hd).
  - change [46; 46] with s_dotdot. rewrite Hg. rewrite (IH (g :: cur) Hd).
    cbn [rev]. rewrite <- app_assoc. reflexivity.
Qed.

Lemma cstack_true_good segs st :
  Forall goodseg st -> Forall goodseg (cstack true segs st).
Proof.
  revert st. induction segs as [|g segs IH]; intros st H; [exact H|].
  cbn [cstack fold_left]. apply IH. unfold cstep.
  destruct (seg_skip g) eqn:Hs; [exact H|].
  destruct (beq_bytes g s_dotdot) eqn:Hd.
  - destruct st as [|top st']; [constructor|].
    inversion H as [|? ? [_ Ht] Hst]; subst. rewrite Ht. exact Hst.
  - constructor; [split; assumption | exact H].
Qed.

Lemma cstack_in r segs st g :
  In g (cstack r segs st) -> In g segs \/ In g st.
Proof.
  revert st. induction segs as [|x segs IH]; intros st H; [right; exact H|].
  cbn [cstack fold_left] in H. apply IH in H. destruct H as [H|H]; [left; right; exact H|].
  unfold cstep in H. destruct (seg_skip x); [right; exact H|].
  destruct (beq_bytes x s_dotdot).
  - destruct st as [|top st'].
    + destruct r; [destruct H | destruct H as [H|[]]; left; left; exact H].
    + destruct (beq_bytes top s_dotdot).
      * destruct H as [H|H]; [left; left; exact H | right; exact H].
      * right. right. exact H.
  - destruct H as [H|H]; [left; left; exact H | right; exact H].
Qed.

(* POSIX walk and rooted Clean agree while the stack holds no ".." *)
Lemma walk_is_cstack segs cur :
  Forall goodseg cur -> fold_left wstep segs cur = cstack true segs cur.
Proof.
  revert cur. induction segs as [|g segs IH]; intros cur H; [reflexivity|].
  cbn [cstack fold_left].
  assert (E : wstep cur g = cstep true cur g).
  { unfold wstep, cstep. change (beq_bytes g [] || beq_bytes g [46]) with (seg_skip g).
    destruct (seg_skip g); [reflexivity|]. change [46; 46] with s_dotdot.
    destruct (beq_bytes g s_dotdot); [|reflexivity].
    destruct cur as [|top st']; [reflexivity|].
    inversion H as [|? ? [_ Ht] _]; subst. rewrite Ht. reflexivity. }
  rewrite E. apply IH.
  rewrite <- E. unfold wstep. change (beq_bytes g [] || beq_bytes g [46]) with (seg_skip g).
  destruct (seg_skip g) eqn:Hs; [exact H|]. change [46; 46] with s_dotdot.
  destruct (beq_bytes g s_dotdot) eqn:Hd.
  - destruct cur; [constructor | inversion H; assumption].
  - constructor; [split; assumption | exact H].
Qed.

Lemma goodseg_keep g : goodseg g -> keep g = true.
Proof. intros [H _]. unfold keep. rewrite H. reflexivity. Qed.

Lemma filter_keep_good l : Forall goodseg l -> filter keep l = l.
Proof.
  induction l as [|g l IH]; intros H; [reflexivity|]. inversion H; subst.
  cbn [filter]. rewrite goodseg_keep by assumption. rewrite IH by assumption. reflexivity.
Qed.

Lemma good_nodd l : Forall goodseg l -> nodd l.
Proof. intros H. eapply Forall_impl; [|exact H]. intros g [_ Hg]. exact Hg. Qed.

(* the location named by "/" ++ join L, for good slash-free segments L, is L *)
Lemma walk_join L :
  Forall goodseg L -> Forall noslash L -> walk (47 :: join_slash L) = L.
Proof.
  intros Hg Hn. unfold walk.
  destruct L as [|x r].
  - reflexivity.
  - change (47 :: join_slash (x :: r)) with ([] ++ 47 :: join_slash (x :: r)).
    rewrite split_on_app_sep. rewrite split_join; [|discriminate|exact Hn].
    rewrite fold_left_app. change (fold_left wstep (split_on 47 []) []) with (@nil bytes).
    rewrite wfold_nodd by (apply good_nodd; exact Hg).
    rewrite filter_keep_good by assumption. rewrite app_nil_r. apply rev_involutive.
Qed.

Lemma absolute_split root : absolute root -> exists r, root = 47 :: r.
Proof. intros H. exact H. Qed.

(* Joining a path without ".." segments below an absolute root stays below the root. *)
Lemma resolve_under root d :
  absolute root -> nodd (split_on 47 d) -> under root (clean (root ++ 47 :: d)).
Proof.
  intros [r ->] Hd. unfold under.
  set (S := cstack true (split_on 47 (47 :: r)) []).
  assert (HSg : Forall goodseg S) by (apply cstack_true_good; constructor).
  assert (HSn : Forall noslash S).
  { apply Forall_forall. intros g Hg. apply cstack_in in Hg. destruct Hg as [Hg|[]].
    pose proof (split_on_noslash (47 :: r)) as F. rewrite Forall_forall in F. apply F. exact Hg. }
  set (F := filter keep (split_on 47 d)).
  assert (HFg : Forall goodseg F).
  { apply Forall_forall. intros g Hg. apply filter_In in Hg. destruct Hg as [Hin Hk].
    unfold nodd in Hd. rewrite Forall_forall in Hd. split; [|apply Hd; exact Hin].
    unfold keep in Hk. destruct (seg_skip g); [discriminate|reflexivity]. }
  assert (HFn : Forall noslash F).
  { apply Forall_forall. intros g Hg. apply filter_In in Hg. destruct Hg as [Hin _].
    pose proof (split_on_noslash d) as G. rewrite Forall_forall in G. apply G. exact Hin. }
  exists F.
  assert (Ewalk : walk (47 :: r) = rev S).
  { unfold walk. rewrite walk_is_cstack by constructor. reflexivity. }
  rewrite Ewalk.
  assert (Eclean : clean ((47 :: r) ++ 47 :: d) = 47 :: join_slash (rev S ++ F)).
  { unfold clean. cbn [app]. rewrite N.eqb_refl.
    change (47 :: r ++ 47 :: d) with ((47 :: r) ++ 47 :: d).
    rewrite split_on_app_sep, cstack_app. fold S.
    rewrite cstack_nodd by exact Hd. fold F. rewrite rev_app_distr, rev_involutive. reflexivity. }
  rewrite Eclean. apply walk_join.
  - apply Forall_app. split; [apply Forall_rev; exact HSg | exact HFg].
  - apply Forall_app. split; [apply Forall_rev; exact HSn | exact HFn].
Qed.

(* ---- the guard: Clean of a relative path, then the three ".." tests and LastIndex ---- *)
Definition ushape (st : list bytes) : Prop :=
  exists nm k, st = nm ++ repeat s_dotdot k /\ Forall goodseg nm.

Lemma cstep_false_shape st g : ushape st -> ushape (cstep false st g).
Proof.
  intros [nm [k [-> Hnm]]]. unfold cstep.
  destruct (seg_skip g) eqn:Hs; [exists nm, k; split; [reflexivity|exact Hnm]|].
  destruct (beq_bytes g s_dotdot) eqn:Hd.
  - apply beq_bytes_spec in Hd. subst g.
    destruct nm as [|t nm'].
    + cbn [app]. destruct k as [|k].
      * cbn [repeat]. exists [], 1%nat. split; [reflexivity|constructor].
      * cbn [repeat]. rewrite beq_bytes_refl. exists [], (Datatypes.S (Datatypes.S k)). split; [reflexivity|constructor].
    + cbn [app]. inversion Hnm as [|? ? [_ Ht] Hnm']; subst. rewrite Ht.
      exists nm', k. split; [reflexivity|exact Hnm'].
  - exists (g :: nm), k. split; [reflexivity|]. constructor; [split; assumption|exact Hnm].
Qed.

Lemma cstack_false_shape segs st : ushape st -> ushape (cstack false segs st).
Proof.
  revert st. induction segs as [|g segs IH]; intros st H; [exact H|].
  cbn [cstack fold_left]. apply IH. apply cstep_false_shape. exact H.
Qed.

Lemma rev_repeat_dd k : rev (repeat s_dotdot k) = repeat s_dotdot k.
Proof.
  induction k as [|k IH]; [reflexivity|]. cbn [repeat rev]. rewrite IH.
  clear IH. induction k as [|k IH]; [reflexivity|]. cbn [repeat app]. rewrite IH. reflexivity.
Qed.

Lemma trim_left_slash_rel p : is_prefix [47] (trim_left_slash p) = false.
Proof.
  induction p as [|c p IH]; [reflexivity|]. cbn [trim_left_slash].
  destruct (c =? c_slash) eqn:Hc; [exact IH|]. cbn [is_prefix].
  rewrite N.eqb_sym. unfold c_slash in Hc. rewrite Hc. reflexivity.
Qed.

Lemma goodseg_head x : goodseg x -> noslash x -> exists c t, x = c :: t /\ c <> 47.
Proof.
  intros [Hs _] Hn. destruct x as [|c t]; [discriminate Hs|].
  exists c, t. split; [reflexivity|]. intros ->. apply Hn. left. reflexivity.
Qed.

(* what passing the guard implies about the cleaned relative path *)
Lemma guard_shape p0 :
  let p := clean (trim_left_slash p0) in
  dotdot_reject p = false -> cut_last p <> None ->
  nodd (split_on 47 p) /\ is_prefix [47] p = false.
Proof.
  intros p Hrej Hcut. subst p.
  pose proof (trim_left_slash_rel p0) as Hrel.
  set (p1 := trim_left_slash p0) in *.
  unfold clean in *. destruct p1 as [|c t] eqn:Ep1; [exfalso; apply Hcut; reflexivity|].
  assert (Hc : (c =? c_slash) = false).
  { cbn [is_prefix] in Hrel. unfold c_slash. rewrite N.eqb_sym. destruct (47 =? c); [discriminate|reflexivity]. }
  rewrite Hc in *.
  destruct (cstack_false_shape (split_on c_slash (c :: t)) [] (ex_intro _ [] (ex_intro _ 0%nat (conj eq_refl (Forall_nil _)))))
    as [nm [k [Est Hnm]]].
  assert (Hns : Forall noslash (cstack false (split_on c_slash (c :: t)) [])).
  { apply Forall_forall. intros g Hg. apply cstack_in in Hg. destruct Hg as [Hg|[]].
    pose proof (split_on_noslash (c :: t)) as F. rewrite Forall_forall in F. apply F. exact Hg. }
  rewrite Est in *. rewrite rev_app_distr, rev_repeat_dd in *.
  destruct k as [|k].
  - cbn [repeat app] in *.
    destruct (rev nm) as [|x r] eqn:Er; [exfalso; apply Hcut; reflexivity|].
    assert (Hg : Forall goodseg (x :: r)) by (rewrite <- Er; apply Forall_rev; exact Hnm).
    assert (Hn : Forall noslash (x :: r)).
    { rewrite <- Er. apply Forall_rev. rewrite app_nil_r in Hns. exact Hns. }
    split.
    + rewrite split_join; [|discriminate|exact Hn]. apply good_nodd. exact Hg.
    + inversion Hg as [|? ? Hx _]; subst. inversion Hn as [|? ? Hxn _]; subst.
      destruct (goodseg_head x Hx Hxn) as [c0 [t0 [-> Hc0]]].
      cbn [join_slash app is_prefix]. apply N.eqb_neq in Hc0. rewrite N.eqb_sym, Hc0. reflexivity.
  - exfalso. cbn [repeat app] in *.
    destruct (repeat s_dotdot k ++ rev nm) as [|y r] eqn:Er.
    + apply Hcut. reflexivity.
    + unfold dotdot_reject in Hrej. cbn [join_slash s_dotdot app flat_map is_prefix] in Hrej.
      cbn in Hrej. discriminate Hrej.
Qed.

Lemma cut_last_spec p d f : cut_last p = Some (d, f) -> p = d ++ 47 :: f.
Proof.
  revert d f. induction p as [|c p IH]; intros d f H; [discriminate|].
  cbn [cut_last] in H. destruct (cut_last p) as [[d' f']|] eqn:E.
  - inversion H; subst. rewrite (IH d' f eq_refl). reflexivity.
  - destruct (c =? c_slash) eqn:Hc; [|discriminate]. inversion H; subst.
    apply N.eqb_eq in Hc. subst c. reflexivity.
Qed.

Lemma nodd_app a b : nodd (a ++ b) -> nodd a.
Proof. intros H. apply Forall_app in H. tauto. Qed.

Lemma join2_abs root d : absolute root -> join2 root d = clean (root ++ 47 :: d).
Proof. intros [r ->]. unfold join2. destruct d; reflexivity. Qed.

(* GET: every path the handler hands to os.Stat / os.Open names the root or something below it,
   for EVERY request path. *)
Theorem get_confined :
  forall root p0 f, absolute root -> get_access root p0 = Some f -> under root f.
Proof.
  intros root p0 f Habs H. unfold get_access in H.
  destruct (dotdot_reject (clean (trim_left_slash p0))) eqn:Hrej; [discriminate|].
  destruct (cut_last (clean (trim_left_slash p0))) as [[d fn]|] eqn:Hcut; [|discriminate].
  destruct (is_hash_name (strip_suffix c39_archive_suffix fn)); [|discriminate].
  inversion H; subst f. clear H.
  destruct (guard_shape p0 Hrej) as [Hnodd Hrel]; [rewrite Hcut; discriminate|].
  unfold fs_abs, c_slash. rewrite Hrel. rewrite join2_abs by exact Habs.
  apply resolve_under; assumption.
Qed.

(* POST/PUT with the GET branch's guard applied: the directory handed to the DB cache is confined. *)
Theorem post_confined_guarded :
  forall root p0 d, absolute root -> post_access true root p0 = inr d -> under root d.
Proof.
  intros root p0 d Habs H. unfold post_access in H. cbn [andb] in H.
  destruct (dotdot_reject (clean (trim_left_slash p0))) eqn:Hrej; [discriminate|].
  destruct (cut_last (clean (trim_left_slash p0))) as [[dir fn]|] eqn:Hcut; [|discriminate].
  destruct (validate_file_name fn); [|discriminate].
  inversion H; subst d. clear H.
  destruct (guard_shape p0 Hrej) as [Hnodd Hrel]; [rewrite Hcut; discriminate|].
  apply cut_last_spec in Hcut.
  assert (Hd : nodd (split_on 47 dir)).
  { rewrite Hcut, split_on_app_sep in Hnodd. exact (nodd_app _ _ Hnodd). }
  assert (Hdrel : is_prefix [47] dir = false).
  { rewrite Hcut in Hrel. destruct dir as [|c t]; [reflexivity|]. exact Hrel. }
  unfold fs_abs, c_slash. rewrite Hdrel. rewrite join2_abs by exact Habs.
  apply resolve_under; assumption.
Qed.

(* POST/PUT as the code is today (no guard): NOT confined.  Witness: root /srv/root, request path
   "/../x/0123456789abcdefghijklmnopqrstuv" -> the store directory is /srv/x.  (DESIGN §6 F4) *)
Definition f4_root : bytes := [47; 115; 114; 118; 47; 114; 111; 111; 116].
Definition f4_path : bytes :=
  [47; 46; 46; 47; 120; 47; 48; 49; 50; 51; 52; 53; 54; 55; 56; 57; 97; 98; 99; 100; 101; 102; 103; 104; 105;
   106; 107; 108; 109; 110; 111; 112; 113; 114; 115; 116; 117; 118].

Lemma under_b_spec root f : under_b root f = true <-> under root f.
Proof.
  unfold under_b, under. generalize (walk root) (walk f). intros a. induction a as [|x a IH]; intros b.
  - cbn [list_prefix_b]. split; [intros _; exists b; reflexivity | reflexivity].
  - destruct b as [|y b]; cbn [list_prefix_b].
    + split; [discriminate | intros [rest H]; discriminate].
    + rewrite andb_true_iff, beq_bytes_spec, IH. split.
      * intros [-> [rest ->]]. exists rest. reflexivity.
      * intros [rest H]. inversion H; subst. split; [reflexivity | exists rest; reflexivity].
Qed.

Theorem post_confined_refuted :
  exists root p0 d, absolute root /\ post_access false root p0 = inr d /\ ~ under root d.
Proof.
  exists f4_root, f4_path, [47; 115; 114; 118; 47; 120].
  split; [exists [115; 114; 118; 47; 114; 111; 111; 116]; reflexivity|].
  split; [vm_compute; reflexivity|].
  intros H. apply under_b_spec in H. vm_compute in H. discriminate H.
Qed.

(* the same witness is stopped by the guarded variant *)
Example f4_witness_guarded : post_access true f4_root f4_path = inl 400.
Proof. vm_compute. reflexivity. Qed.

(* non-vacuity: the guard accepts ordinary requests *)
Example get_accepts_plain :
  get_access f4_root ([47; 111; 47; 114; 47] ++ skipn 6 f4_path)
  = Some (f4_root ++ [47; 111; 47; 114; 47] ++ skipn 6 f4_path).
Proof. vm_compute. reflexivity. Qed.

(* ================================================================== *)
(* Part 2: the sealer                                                  *)
(* ================================================================== *)

(* ---- decimal integers ---- *)
Lemma bytes_uint_bytes u : bytes_uint (uint_bytes u) = Some u.
Proof. induction u; cbn [uint_bytes bytes_uint]; try rewrite IHu; reflexivity. Qed.

Lemma to_uint_nonnil n : N.to_uint n <> Decimal.Nil.
Proof. destruct n; [discriminate | apply DecimalPos.Unsigned.to_uint_nonnil]. Qed.

Lemma uint_bytes_head u : u <> Decimal.Nil -> exists c r, uint_bytes u = c :: r /\ 48 <= c <= 57.
Proof. destruct u; intros H; [congruence| | | | | | | | | |]; cbn [uint_bytes]; eexists; eexists; (split; [reflexivity|lia]). Qed.

Definition in_i64 (z : Z) : Prop := (- 9223372036854775808 <= z < 9223372036854775808)%Z.

Lemma parse_digits n : n < two63 -> parse_int64 (uint_bytes (N.to_uint n)) = Some (Z.of_N n).
Proof.
  intros Hn. destruct (uint_bytes_head _ (to_uint_nonnil n)) as [c [r [E Hc]]].
  unfold parse_int64. rewrite E.
  assert (H45 : (c =? 45) = false) by (apply N.eqb_neq; lia).
  assert (H43 : (c =? 43) = false) by (apply N.eqb_neq; lia).
  rewrite H45, H43. rewrite <- E, bytes_uint_bytes, DecimalN.Unsigned.of_to.
  apply N.ltb_lt in Hn. rewrite Hn. reflexivity.
Qed.

Theorem parse_fmt_int z : in_i64 z -> parse_int64 (fmt_int z) = Some z.
Proof.
  intros [Hlo Hhi]. unfold fmt_int. destruct (z <? 0)%Z eqn:Hz.
  - apply Z.ltb_lt in Hz. unfold parse_int64. cbn [N.eqb Pos.eqb].
    change (45 =? 45) with true. cbv iota.
    destruct (uint_bytes_head _ (to_uint_nonnil (Z.abs_N z))) as [c [r [E Hc]]].
    rewrite E, <- E, bytes_uint_bytes, DecimalN.Unsigned.of_to.
    assert (Hle : (Z.abs_N z <=? two63) = true) by (apply N.leb_le; unfold two63; lia).
    rewrite Hle. f_equal. lia.
  - apply Z.ltb_ge in Hz. rewrite parse_digits by (unfold two63; lia). f_equal. lia.
Qed.

Lemma bytes_uint_nocolon s u : bytes_uint s = Some u -> ~ In 58 s.
Proof.
  revert u. induction s as [|c s IH]; intros u H; [intros []|].
  cbn [bytes_uint] in H. destruct (bytes_uint s) as [v|] eqn:E; [|discriminate].
  intros [Hc|Hin]; [|exact (IH v eq_refl Hin)]. subst c. vm_compute in H. discriminate H.
Qed.

Lemma parse_int64_nocolon s z : parse_int64 s = Some z -> ~ In 58 s.
Proof.
  unfold parse_int64. destruct s as [|c r]; [discriminate|].
  destruct (c =? 45) eqn:H45; [|destruct (c =? 43) eqn:H43].
  - destruct r as [|d r']; [discriminate|]. destruct (bytes_uint (d :: r')) as [u|] eqn:E; [|discriminate].
    intros _ [Hc|Hin]; [subst c; discriminate H45 | exact (bytes_uint_nocolon _ _ E Hin)].
  - destruct r as [|d r']; [discriminate|]. destruct (bytes_uint (d :: r')) as [u|] eqn:E; [|discriminate].
    intros _ [Hc|Hin]; [subst c; discriminate H43 | exact (bytes_uint_nocolon _ _ E Hin)].
  - destruct (bytes_uint (c :: r)) as [u|] eqn:E; [|discriminate].
    intros _. exact (bytes_uint_nocolon _ _ E).
Qed.

Lemma app_sep_inj (a b a' b' : bytes) :
  ~ In 58 a -> ~ In 58 a' -> a ++ 58 :: b = a' ++ 58 :: b' -> a = a' /\ b = b'.
Proof.
  revert a'. induction a as [|x a IH]; intros a' Ha Ha' H.
  - destruct a' as [|y a']; [inversion H; split; reflexivity|].
    cbn [app] in H. inversion H; subst. exfalso. apply Ha'. left. reflexivity.
  - destruct a' as [|y a'].
    + cbn [app] in H. inversion H; subst. exfalso. apply Ha. left. reflexivity.
    + cbn [app] in H. inversion H; subst.
      destruct (IH a') as [E1 E2]; [intros Hi; apply Ha; right; exact Hi | intros Hi; apply Ha'; right; exact Hi | assumption |].
      subst. split; reflexivity.
Qed.

(* ---- prefix handling ---- *)
Lemma is_prefix_app (p s : bytes) : is_prefix p (p ++ s) = true.
Proof. apply is_prefix_spec. exists s. reflexivity. Qed.

Lemma trim_prefix_spec pre s : is_prefix pre s = true -> s = pre ++ trim_prefix pre s.
Proof.
  revert s. induction pre as [|x pre IH]; intros s H; [reflexivity|].
  destruct s as [|y s]; [discriminate|]. cbn [is_prefix] in H. apply andb_true_iff in H as [H1 H2].
  cbn [trim_prefix]. rewrite H1, H2. apply N.eqb_eq in H1. subst y. cbn [app]. f_equal. apply IH. exact H2.
Qed.

Lemma trim_prefix_app pre s : trim_prefix pre (pre ++ s) = s.
Proof.
  pose proof (trim_prefix_spec pre (pre ++ s) (is_prefix_app pre s)) as H.
  apply app_inv_head in H. symmetry. exact H.
Qed.

(* ---- plain paths and well-formed queries ---- *)
Lemma plain_range c : plain_byte c = true -> 36 <= c <= 126 /\ c <> 37 /\ c <> 63.
Proof.
  unfold plain_byte, is_alnum. intros H.
  repeat rewrite ?orb_true_iff, ?andb_true_iff, ?N.leb_le, ?N.eqb_eq in H. lia.
Qed.

Lemma plain_notin x p : plain_byte x = false -> forallb plain_byte p = true -> ~ In x p.
Proof.
  intros Hx Hp Hin. rewrite forallb_forall in Hp. specialize (Hp x Hin). congruence.
Qed.

Lemma escape_plain p : forallb plain_byte p = true -> escape p = p.
Proof.
  induction p as [|c p IH]; intros H; [reflexivity|]. cbn [forallb] in H. apply andb_true_iff in H as [Hc Hp].
  unfold escape in *. cbn [flat_map]. unfold esc_byte at 1. rewrite Hc. cbn [app]. f_equal. exact (IH Hp).
Qed.

Lemma escaped_path_plain p : forallb plain_byte p = true -> escaped_path p = p.
Proof.
  intros H. unfold escaped_path. destruct (beq_bytes p s_star) eqn:E.
  - apply beq_bytes_spec in E. symmetry. exact E.
  - apply escape_plain. exact H.
Qed.

Lemma cut_byte_none sep s : ~ In sep s -> cut_byte sep s = (s, None).
Proof.
  induction s as [|c s IH]; intros H; [reflexivity|]. cbn [cut_byte].
  assert (Hc : (c =? sep) = false) by (apply N.eqb_neq; intros ->; apply H; left; reflexivity).
  rewrite Hc, IH; [reflexivity|]. intros Hi. apply H. right. exact Hi.
Qed.

Lemma cut_byte_app sep a b : ~ In sep a -> cut_byte sep (a ++ sep :: b) = (a, Some b).
Proof.
  induction a as [|c a IH]; intros H.
  - cbn [app cut_byte]. rewrite N.eqb_refl. reflexivity.
  - cbn [app cut_byte].
    assert (Hc : (c =? sep) = false) by (apply N.eqb_neq; intros ->; apply H; left; reflexivity).
    rewrite Hc, IH; [reflexivity|]. intros Hi. apply H. right. exact Hi.
Qed.

Lemma unescape_nopct s : ~ In c_pct s -> unescape s = Some s.
Proof.
  induction s as [|c s IH]; intros H; [reflexivity|]. cbn [unescape].
  assert (Hc : (c =? c_pct) = false) by (apply N.eqb_neq; intros ->; apply H; left; reflexivity).
  rewrite Hc, IH; [reflexivity|]. intros Hi. apply H. right. exact Hi.
Qed.

Lemma existsb_app {A} (f : A -> bool) a b : existsb f (a ++ b) = existsb f a || existsb f b.
Proof. induction a as [|x a IH]; [reflexivity|]. cbn [app existsb]. rewrite IH, orb_assoc. reflexivity. Qed.

Lemma plain_noctl p : forallb plain_byte p = true -> existsb is_ctl p = false.
Proof.
  induction p as [|c p IH]; intros H; [reflexivity|]. cbn [forallb] in H. apply andb_true_iff in H as [Hc Hp].
  cbn [existsb]. rewrite (IH Hp), orb_false_r. destruct (plain_range c Hc) as [Hr _].
  unfold is_ctl. apply orb_false_iff. split; [apply N.ltb_ge; lia | apply N.eqb_neq; lia].
Qed.

Lemma plain_valid_encoded p : forallb plain_byte p = true -> valid_encoded p = true.
Proof.
  unfold valid_encoded. intros H. rewrite forallb_forall in *. intros c Hc. specialize (H c Hc).
  unfold valid_enc_byte. rewrite H. repeat rewrite orb_true_r. reflexivity.
Qed.

Lemma good_query_parts q :
  good_query q -> ~ In 35 q /\ existsb is_ctl q = false.
Proof.
  unfold good_query. induction q as [|c q IH]; intros H; [split; [intros []|reflexivity]|].
  cbn [existsb] in H. apply orb_false_iff in H as [Hc Hq]. apply orb_false_iff in Hc as [H35 Hctl].
  destruct (IH Hq) as [I1 I2]. split.
  - intros [E|Hi]; [subst c; discriminate H35 | exact (I1 Hi)].
  - cbn [existsb]. rewrite Hctl, I2. reflexivity.
Qed.

(* ---- escaping: every byte string survives URL.String + url.Parse ---- *)
Definition safe (c : N) : bool := plain_byte c || (c =? 37) || (c =? 42).

Lemma safe_facts c : safe c = true -> c <> 35 /\ c <> 63 /\ is_ctl c = false /\ valid_enc_byte c = true.
Proof.
  unfold safe. intros H. apply orb_true_iff in H as [H|H]; [apply orb_true_iff in H as [H|H]|].
  - destruct (plain_range c H) as [Hr [H37 H63]]. repeat split; try lia.
    + unfold is_ctl. apply orb_false_iff. split; [apply N.ltb_ge; lia | apply N.eqb_neq; lia].
    + unfold valid_enc_byte. rewrite H. repeat rewrite orb_true_r. reflexivity.
  - apply N.eqb_eq in H. subst c. repeat split; try discriminate; reflexivity.
  - apply N.eqb_eq in H. subst c. repeat split; try discriminate; reflexivity.
Qed.

Lemma hex_sweep :
  forallb (fun n => let v := N.of_nat n in
     match hex_val (hex_digit v) with Some w => w =? v | None => false end
     && plain_byte (hex_digit v) && negb (hex_digit v =? 47) && negb (hex_digit v =? 58) && negb (hex_digit v =? 37)) (seq 0 16) = true.
Proof. vm_compute. reflexivity. Qed.

Lemma hex_facts v : v < 16 ->
  hex_val (hex_digit v) = Some v /\ plain_byte (hex_digit v) = true /\ hex_digit v <> 47 /\ hex_digit v <> 58 /\ hex_digit v <> 37.
Proof.
  intros Hv. pose proof hex_sweep as S. rewrite forallb_forall in S. specialize (S (N.to_nat v)).
  cbv zeta in S. rewrite N2Nat.id in S. assert (Hin : In (N.to_nat v) (seq 0 16)) by (apply in_seq; lia).
  specialize (S Hin). repeat (apply andb_true_iff in S as [S ?]).
  destruct (hex_val (hex_digit v)) as [w|]; [|discriminate]. apply N.eqb_eq in S. subst w.
  repeat match goal with X : negb (_ =? _) = true |- _ => apply negb_true_iff in X; apply N.eqb_neq in X end.
  repeat split; assumption.
Qed.

Lemma byte_nibbles c : c < 256 -> c / 16 < 16 /\ c mod 16 < 16 /\ 16 * (c / 16) + c mod 16 = c.
Proof.
  intros H. pose proof (N.div_mod c 16 ltac:(lia)). pose proof (N.mod_lt c 16 ltac:(lia)).
  assert (c / 16 < 16) by (apply N.div_lt_upper_bound; lia). lia.
Qed.

Lemma escape_cons c t : escape (c :: t) = esc_byte c ++ escape t.
Proof. reflexivity. Qed.

Lemma unescape_escape p : bytes_ok p -> unescape (escape p) = Some p.
Proof.
  induction p as [|c t IH]; intros H; [reflexivity|]. inversion H as [|? ? Hc Ht]; subst.
  rewrite escape_cons. unfold esc_byte. destruct (plain_byte c) eqn:Hp.
  - cbn [app unescape]. destruct (plain_range c Hp) as [_ [H37 _]].
    assert (E : (c =? c_pct) = false) by (apply N.eqb_neq; exact H37). rewrite E, (IH Ht). reflexivity.
  - destruct (byte_nibbles c Hc) as [Hh [Hl Hs]].
    destruct (hex_facts _ Hh) as [V1 _]. destruct (hex_facts _ Hl) as [V2 _].
    cbn [app unescape]. rewrite N.eqb_refl, V1, V2, (IH Ht), Hs. reflexivity.
Qed.

Lemma safe_escape p : bytes_ok p -> forallb safe (escape p) = true.
Proof.
  induction p as [|c t IH]; intros H; [reflexivity|]. inversion H as [|? ? Hc Ht]; subst.
  rewrite escape_cons, forallb_app, (IH Ht), andb_true_r. unfold esc_byte. destruct (plain_byte c) eqn:Hp.
  - cbn [forallb]. unfold safe. rewrite Hp. reflexivity.
  - destruct (byte_nibbles c Hc) as [Hh [Hl _]].
    destruct (hex_facts _ Hh) as [_ [P1 _]]. destruct (hex_facts _ Hl) as [_ [P2 _]].
    cbn [forallb]. unfold safe. rewrite P1, P2. reflexivity.
Qed.

(* the escaped form of a byte contains '/' (resp. ':') exactly when the byte is '/' (resp. ':') *)
Lemma esc_byte_sep c x : c < 256 -> x = 47 \/ x = 58 -> existsb (fun b => b =? x) (esc_byte c) = (c =? x).
Proof.
  intros Hc Hx. unfold esc_byte. destruct (plain_byte c) eqn:Hp.
  - cbn [existsb]. rewrite orb_false_r. reflexivity.
  - destruct (byte_nibbles c Hc) as [Hh [Hl _]].
    destruct (hex_facts _ Hh) as [_ [_ [A1 [A2 _]]]]. destruct (hex_facts _ Hl) as [_ [_ [B1 [B2 _]]]].
    assert (Hcx : (c =? x) = false).
    { apply N.eqb_neq. intros ->. destruct Hx as [->| ->]; vm_compute in Hp; discriminate. }
    rewrite Hcx. cbn [existsb].
    destruct Hx as [->| ->]; repeat (apply orb_false_iff; split); try reflexivity; apply N.eqb_neq; assumption.
Qed.

Lemma esc_slash t : escape (47 :: t) = 47 :: escape t.
Proof. reflexivity. Qed.

Lemma esc_nonslash_head c t : c < 256 -> c <> 47 -> exists h r, escape (c :: t) = h :: r /\ h <> 47.
Proof.
  intros Hc Hn. rewrite escape_cons. unfold esc_byte. destruct (plain_byte c).
  - exists c, (escape t). split; [reflexivity|exact Hn].
  - eexists; eexists; split; [reflexivity|discriminate].
Qed.

Lemma is_prefix_slashes k p : bytes_ok p -> is_prefix (repeat 47 k) (escape p) = is_prefix (repeat 47 k) p.
Proof.
  revert p. induction k as [|k IH]; intros p H; [reflexivity|].
  destruct p as [|c t]; [reflexivity|]. inversion H as [|? ? Hc Ht]; subst.
  destruct (N.eq_dec c 47) as [->|Hn].
  - rewrite esc_slash. cbn [repeat is_prefix]. rewrite N.eqb_refl. cbn [andb]. apply IH. exact Ht.
  - destruct (esc_nonslash_head c t Hc Hn) as [h [r [E Hh]]]. rewrite E. cbn [repeat is_prefix].
    assert (E1 : (47 =? h) = false) by (apply N.eqb_neq; congruence).
    assert (E2 : (47 =? c) = false) by (apply N.eqb_neq; congruence).
    rewrite E1, E2. reflexivity.
Qed.

Lemma cut_byte_app_noslash a b : existsb (fun x => x =? 47) a = false ->
  fst (cut_byte 47 (a ++ b)) = a ++ fst (cut_byte 47 b).
Proof.
  induction a as [|x a IH]; intros H; [reflexivity|]. cbn [existsb] in H. apply orb_false_iff in H as [Hx Ha].
  cbn [app cut_byte]. rewrite Hx. rewrite <- (IH Ha). destruct (cut_byte 47 (a ++ b)). reflexivity.
Qed.

Lemma first_seg_colon_escape p : bytes_ok p -> first_seg_colon (escape p) = first_seg_colon p.
Proof.
  unfold first_seg_colon, c_slash, c_colon.
  induction p as [|c t IH]; intros H; [reflexivity|]. inversion H as [|? ? Hc Ht]; subst.
  destruct (N.eq_dec c 47) as [->|Hn].
  - rewrite esc_slash. cbn [cut_byte]. rewrite N.eqb_refl. reflexivity.
  - rewrite escape_cons.
    assert (Hs : existsb (fun x => x =? 47) (esc_byte c) = false).
    { rewrite (esc_byte_sep c 47 Hc (or_introl eq_refl)). apply N.eqb_neq. exact Hn. }
    rewrite (cut_byte_app_noslash _ _ Hs), existsb_app, (IH Ht).
    rewrite (esc_byte_sep c 58 Hc (or_intror eq_refl)).
    cbn [cut_byte]. assert (E : (c =? 47) = false) by (apply N.eqb_neq; exact Hn). rewrite E.
    destruct (cut_byte 47 t). cbn [fst existsb]. reflexivity.
Qed.

(* the facts Unseal's parse needs about EscapedPath() of a byte string *)
Lemma escaped_path_facts p : bytes_ok p ->
  let E := escaped_path p in
  forallb safe E = true /\ unescape E = Some p /\ first_seg_colon E = first_seg_colon p
  /\ is_prefix [47] E = is_prefix [47] p /\ dslash_start E = dslash_start p.
Proof.
  intros H E. subst E. unfold escaped_path. destruct (beq_bytes p s_star) eqn:Es.
  - apply beq_bytes_spec in Es. subst p. repeat split; reflexivity.
  - repeat split.
    + apply safe_escape; exact H.
    + apply unescape_escape; exact H.
    + apply first_seg_colon_escape; exact H.
    + exact (is_prefix_slashes 1 p H).
    + unfold dslash_start. change [47; 47; 47] with (repeat 47 3). change [47; 47] with (repeat 47 2).
      rewrite (is_prefix_slashes 2 p H), (is_prefix_slashes 3 p H). reflexivity.
Qed.

Lemma safe_notin x E : safe x = false -> forallb safe E = true -> ~ In x E.
Proof. intros Hx HE Hin. rewrite forallb_forall in HE. specialize (HE x Hin). congruence. Qed.

Lemma safe_noctl E : forallb safe E = true -> existsb is_ctl E = false.
Proof.
  induction E as [|c E IH]; intros H; [reflexivity|]. cbn [forallb] in H. apply andb_true_iff in H as [Hc HE].
  cbn [existsb]. rewrite (IH HE), orb_false_r. destruct (safe_facts c Hc) as [_ [_ [Hctl _]]]. exact Hctl.
Qed.

Lemma safe_valid_encoded E : forallb safe E = true -> valid_encoded E = true.
Proof.
  unfold valid_encoded. intros H. rewrite forallb_forall in *. intros c Hc.
  destruct (safe_facts c (H c Hc)) as [_ [_ [_ Hv]]]. exact Hv.
Qed.

(* URL.String then url.Parse gives back every sealable byte-string path and every well-formed query:
   Path = p, EscapedPath() = escaped_path p, RawQuery = q *)
Lemma parse_request_uri_sealed p q :
  bytes_ok p -> sealable_path p -> good_query q ->
  parse_request_uri (request_uri p q) = Some (p, escaped_path p, q).
Proof.
  intros Hb [Hcol Hds] Hq.
  destruct (good_query_parts q Hq) as [Hq35 Hqctl].
  destruct (escaped_path_facts p Hb) as [Hsafe [Hun [Hfc [Hsl Hdse]]]].
  set (E := escaped_path p) in *.
  assert (HfcE : first_seg_colon E = false \/ is_prefix [47] E = true).
  { destruct Hcol as [Hs|Hc]; [right; rewrite Hsl; exact Hs | left; rewrite Hfc; exact Hc]. }
  assert (Hguard : first_seg_colon E = false).
  { destruct HfcE as [Hc|Hs]; [exact Hc|]. destruct E as [|c t]; [reflexivity|].
    cbn [is_prefix] in Hs. apply andb_true_iff in Hs as [Hs _]. apply N.eqb_eq in Hs. subst c. reflexivity. }
  assert (N35 : ~ In 35 E) by (apply safe_notin; [reflexivity|exact Hsafe]).
  assert (N63 : ~ In 63 E) by (apply safe_notin; [reflexivity|exact Hsafe]).
  unfold request_uri. fold E. rewrite Hguard. cbn [app].
  unfold parse_request_uri.
  assert (Hcut35 : cut_byte c_hash (E ++ match q with [] => [] | _ :: _ => c_qm :: q end)
                   = (E ++ match q with [] => [] | _ :: _ => c_qm :: q end, None)).
  { apply cut_byte_none. intros Hi. apply in_app_or in Hi. destruct Hi as [Hi|Hi]; [exact (N35 Hi)|].
    destruct q as [|c q']; [destruct Hi|]. destruct Hi as [Ex|Hi]; [discriminate Ex | exact (Hq35 Hi)]. }
  rewrite Hcut35. cbn [fst].
  assert (Hctl : existsb is_ctl (E ++ match q with [] => [] | _ :: _ => c_qm :: q end) = false).
  { rewrite existsb_app, (safe_noctl E Hsafe). cbn [orb]. destruct q as [|c q']; [reflexivity|].
    cbn [existsb]. cbn [existsb] in Hqctl. rewrite Hqctl. reflexivity. }
  rewrite Hctl.
  assert (Hcutq : cut_byte c_qm (E ++ match q with [] => [] | _ :: _ => c_qm :: q end)
                  = (E, match q with [] => None | _ :: _ => Some q end)).
  { destruct q as [|c q']; [rewrite app_nil_r; apply cut_byte_none; exact N63 | apply cut_byte_app; exact N63]. }
  rewrite Hcutq.
  assert (Hq' : match match q with [] => None | _ :: _ => Some q end with Some q0 => q0 | None => [] end = q)
    by (destruct q; reflexivity).
  rewrite Hq'. rewrite Hguard, andb_false_r.
  rewrite Hds in Hdse. unfold dslash_start in Hdse. unfold c_slash. rewrite Hdse.
  rewrite Hun, (safe_valid_encoded E Hsafe). reflexivity.
Qed.

Section SealerProofs.
  Variable aead_seal : bytes -> bytes -> bytes -> bytes -> bytes.
  Variable aead_open : bytes -> bytes -> bytes -> bytes -> option bytes.
  (* AES-256-GCM idealised: opening succeeds exactly on what was sealed under the same key, nonce and
     associated data ... *)
  Hypothesis aead_ideal :
    forall k n c a p, aead_open k n c a = Some p <-> c = aead_seal k n p a.
  (* ... and a ciphertext (with its tag) is bound to its nonce and associated data *)
  Hypothesis aead_binds :
    forall k n p a n' p' a', aead_seal k n p a = aead_seal k n' p' a' -> n = n' /\ a = a'.

  Notation seal_url := (seal_url aead_seal).
  Notation unseal := (unseal aead_open).

  (* Everything Unseal accepts is consistent with one sealing under the key: the nonce, the window
     strings, the visible path and the returned request are those of the sealed plaintext. *)
  Theorem unseal_sound key now s u' :
    unseal key now s = UOk u' ->
    exists nbfs exps n pt nbf exp ep,
      s_nbf s = FVal nbfs /\ s_exp s = FVal exps /\ s_nonce s = FVal n
      /\ s_req s = FVal (aead_seal key n pt (aad_of nbfs exps))
      /\ parse_int64 nbfs = Some nbf /\ parse_int64 exps = Some exp /\ (nbf <= now <= exp)%Z
      /\ parse_request_uri pt = Some (u_path u', ep, u_query u')
      /\ s_path s = seal_prefix ++ ep.
  Proof.
    unfold Model.unseal. intros H.
    destruct (is_prefix seal_prefix (s_path s)) eqn:Hpre; cbn [negb] in H; [|discriminate].
    destruct (fld_absent (s_nbf s) || fld_absent (s_exp s) || fld_absent (s_nonce s) || fld_absent (s_req s)); [discriminate|].
    destruct (s_nbf s) as [| |nbfs]; try discriminate.
    destruct (s_exp s) as [| |exps]; try discriminate.
    destruct (parse_int64 nbfs) as [nbf|] eqn:Hnbf; [|discriminate].
    destruct (parse_int64 exps) as [exp|] eqn:Hexp; [|discriminate].
    destruct (s_nonce s) as [| |n]; try discriminate.
    destruct (now <? nbf)%Z eqn:H1; [discriminate|].
    destruct (exp <? now)%Z eqn:H2; [discriminate|].
    destruct (s_req s) as [| |c]; try discriminate.
    destruct (negb (length n =? 12)%nat); [discriminate|].
    destruct (aead_open key n c (aad_of nbfs exps)) as [pt|] eqn:Hopen; [|discriminate].
    destruct (parse_request_uri pt) as [[[path ep] q]|] eqn:Hparse; [|discriminate].
    destruct (beq_bytes (trim_prefix seal_prefix (s_path s)) ep) eqn:Hcmp; [|discriminate].
    inversion H; subst u'. cbn [u_path u_query].
    apply aead_ideal in Hopen. apply beq_bytes_spec in Hcmp.
    exists nbfs, exps, n, pt, nbf, exp, ep. repeat split; try reflexivity; try assumption.
    - subst c. reflexivity.
    - apply Z.ltb_ge in H1. exact H1.
    - apply Z.ltb_ge in H2. exact H2.
    - rewrite <- Hcmp. apply trim_prefix_spec. exact Hpre.
  Qed.

  (* A payload the sealer never produced is rejected whatever the other fields are. *)
  Theorem forged_payload_rejected key now s c :
    s_req s = FVal c -> (forall n p a, c <> aead_seal key n p a) -> ~ accepted (unseal key now s).
  Proof.
    intros Hreq Hc [u' H]. apply unseal_sound in H.
    destruct H as [nbfs [exps [n [pt [nbf [exp [ep [_ [_ [_ [Hr _]]]]]]]]]]].
    rewrite Hreq in Hr. inversion Hr. eapply Hc. eassumption.
  Qed.

  (* Round trip: inside the window a sealed URL unseals to the original request — for EVERY byte-string path
     (percent-encoding included) outside the two residual classes of sealable_path, and every well-formed query. *)
  Theorem unseal_seal key n now1 now2 now' u :
    bytes_ok (u_path u) -> sealable_path (u_path u) -> good_query (u_query u) -> length n = 12%nat ->
    in_i64 (now1 - 10000) -> in_i64 (now2 + 900000) ->
    (now1 - 10000 <= now' <= now2 + 900000)%Z ->
    unseal key now' (seal_url key n now1 now2 u) = UOk u.
  Proof.
    intros Hb Hp Hq Hn Hi1 Hi2 [Hw1 Hw2].
    unfold Model.unseal, Model.seal_url, seal_with. cbn [s_path s_req s_nbf s_exp s_nonce fld_absent orb].
    rewrite is_prefix_app. cbn [negb].
    rewrite (parse_fmt_int _ Hi1), (parse_fmt_int _ Hi2).
    assert (H1 : (now' <? now1 - 10000)%Z = false) by (apply Z.ltb_ge; lia).
    assert (H2 : (now2 + 900000 <? now')%Z = false) by (apply Z.ltb_ge; lia).
    rewrite H1, H2, Hn. cbn [Nat.eqb negb].
    assert (Hopen : aead_open key n (aead_seal key n (request_uri (u_path u) (u_query u))
                     (aad_of (fmt_int (now1 - 10000)) (fmt_int (now2 + 900000))))
                     (aad_of (fmt_int (now1 - 10000)) (fmt_int (now2 + 900000)))
                    = Some (request_uri (u_path u) (u_query u))) by (apply aead_ideal; reflexivity).
    rewrite Hopen.
    rewrite (parse_request_uri_sealed _ _ Hb Hp Hq).
    rewrite trim_prefix_app, beq_bytes_refl. destruct u; reflexivity.
  Qed.

  (* Tampering: take a URL the sealer issued and keep its sealed payload.  If any of nonce / nbf / exp
     differs from what was issued, or the URL is used outside its window, or (for a sealable path) the
     visible path differs, Unseal does not accept — for every request, every replacement, every time. *)
  Theorem tamper_rejected key n now1 now2 now' u s' :
    let s := seal_url key n now1 now2 u in
    in_i64 (now1 - 10000) -> in_i64 (now2 + 900000) ->
    s_req s' = s_req s ->
    ( s_nonce s' <> s_nonce s \/ s_nbf s' <> s_nbf s \/ s_exp s' <> s_exp s
      \/ (now' < now1 - 10000)%Z \/ (now2 + 900000 < now')%Z
      \/ (bytes_ok (u_path u) /\ sealable_path (u_path u) /\ good_query (u_query u) /\ s_path s' <> s_path s) ) ->
    ~ accepted (unseal key now' s').
  Proof.
    intros s Hi1 Hi2 Hreq Hdiff [u' H]. apply unseal_sound in H.
    destruct H as [nbfs [exps [n' [pt [nbf [exp [ep [Hnbf [Hexp [Hnon [Hr [Pn [Pe [Hwin [Hparse Hpath]]]]]]]]]]]]]]].
    subst s. unfold Model.seal_url, seal_with in *. cbn [s_path s_req s_nbf s_exp s_nonce] in *.
    rewrite Hreq in Hr. inversion Hr as [Hc]. clear Hr.
    destruct (aead_binds _ _ _ _ _ _ _ Hc) as [En Ea].
    subst n'.
    assert (Hpt : pt = request_uri (u_path u) (u_query u)).
    { rewrite <- Ea in Hc.
      assert (O1 : aead_open key n (aead_seal key n pt (aad_of (fmt_int (now1 - 10000)) (fmt_int (now2 + 900000))))
                     (aad_of (fmt_int (now1 - 10000)) (fmt_int (now2 + 900000))) = Some pt) by (apply aead_ideal; reflexivity).
      rewrite <- Hc in O1.
      assert (O2 : aead_open key n (aead_seal key n (request_uri (u_path u) (u_query u))
                     (aad_of (fmt_int (now1 - 10000)) (fmt_int (now2 + 900000))))
                     (aad_of (fmt_int (now1 - 10000)) (fmt_int (now2 + 900000)))
                   = Some (request_uri (u_path u) (u_query u))) by (apply aead_ideal; reflexivity).
      rewrite O1 in O2. inversion O2. reflexivity. }
    unfold aad_of in Ea.
    apply app_sep_inj in Ea;
      [| eapply parse_int64_nocolon; apply (parse_fmt_int _ Hi1)
       | eapply parse_int64_nocolon; exact Pn ].
    destruct Ea as [E1 E2]. subst nbfs exps.
    rewrite (parse_fmt_int _ Hi1) in Pn. rewrite (parse_fmt_int _ Hi2) in Pe.
    inversion Pn; inversion Pe; subst nbf exp.
    destruct Hdiff as [D|[D|[D|[D|[D|[Hbk [Hpl [Hq D]]]]]]]].
    - apply D. exact Hnon.
    - apply D. exact Hnbf.
    - apply D. exact Hexp.
    - lia.
    - lia.
    - apply D. rewrite Hpath. f_equal.
      rewrite Hpt, (parse_request_uri_sealed _ _ Hbk Hpl Hq) in Hparse. inversion Hparse. reflexivity.
  Qed.

  (* Use outside the window of an otherwise untouched sealed URL. *)
  Corollary window_enforced key n now1 now2 now' u :
    in_i64 (now1 - 10000) -> in_i64 (now2 + 900000) ->
    (now' < now1 - 10000 \/ now2 + 900000 < now')%Z ->
    ~ accepted (unseal key now' (seal_url key n now1 now2 u)).
  Proof.
    intros Hi1 Hi2 Hw. apply (tamper_rejected key n now1 now2 now' u _ Hi1 Hi2 eq_refl).
    destruct Hw as [Hw|Hw]; [right; right; right; left; exact Hw | right; right; right; right; left; exact Hw].
  Qed.
End SealerProofs.

(* ---- the symbolic AEAD of the correspondence run is an ideal AEAD (the hypotheses are satisfiable) ---- *)
Lemma take_field_enc f rest : take_field (enc_field f ++ rest) = Some (f, rest).
Proof.
  unfold take_field, enc_field, blen. cbn [app].
  assert (H : (N.of_nat (length (f ++ rest)) <? N.of_nat (length f)) = false).
  { apply N.ltb_ge. rewrite app_length. lia. }
  rewrite H, Nat2N.id. rewrite firstn_app, Nat.sub_diag, firstn_all, firstn_O, app_nil_r.
  rewrite skipn_app, Nat.sub_diag, skipn_all. reflexivity.
Qed.

Lemma take_field_inv r f rest : take_field r = Some (f, rest) -> r = enc_field f ++ rest.
Proof.
  unfold take_field, enc_field, blen. destruct r as [|l r0]; [discriminate|].
  destruct (N.of_nat (length r0) <? l) eqn:Hl; [discriminate|]. intros H. inversion H; subst. clear H.
  apply N.ltb_ge in Hl. rewrite firstn_length_le by lia. rewrite N2Nat.id. cbn [app]. f_equal.
  symmetry. apply firstn_skipn.
Qed.

Theorem sym_aead_ideal k n c a p : sym_open k n c a = Some p <-> c = sym_seal k n p a.
Proof.
  unfold sym_open, sym_seal. split.
  - destruct c as [|t r]; [discriminate|]. destruct t as [|t]; [discriminate|]. destruct t; try discriminate.
    destruct (take_field r) as [[k' r1]|] eqn:E1; [|discriminate].
    destruct (take_field r1) as [[n' r2]|] eqn:E2; [|discriminate].
    destruct (take_field r2) as [[a' p']|] eqn:E3; [|discriminate].
    destruct (beq_bytes k k' && beq_bytes n n' && beq_bytes a a') eqn:Hb; [|discriminate].
    intros H. inversion H; subst p'. apply andb_true_iff in Hb as [Hb Ha]. apply andb_true_iff in Hb as [Hk Hn].
    apply beq_bytes_spec in Hk, Hn, Ha. subst k' n' a'.
    apply take_field_inv in E1, E2, E3. subst r r1 r2. rewrite <- ?app_assoc. reflexivity.
  - intros ->. rewrite <- ?app_assoc.
    rewrite take_field_enc. rewrite take_field_enc. rewrite take_field_enc.
    rewrite !beq_bytes_refl. reflexivity.
Qed.

Theorem sym_aead_binds k n p a n' p' a' : sym_seal k n p a = sym_seal k n' p' a' -> n = n' /\ a = a'.
Proof.
  intros H.
  assert (O : sym_open k n' (sym_seal k n p a) a' = Some p') by (apply sym_aead_ideal; exact H).
  unfold sym_open, sym_seal in O. rewrite <- ?app_assoc in O.
  rewrite take_field_enc in O. rewrite take_field_enc in O. rewrite take_field_enc in O.
  destruct (beq_bytes k k && beq_bytes n' n && beq_bytes a' a) eqn:Hb; [|discriminate].
  apply andb_true_iff in Hb as [Hb Ha]. apply andb_true_iff in Hb as [_ Hn].
  apply beq_bytes_spec in Hn, Ha. subst. split; reflexivity.
Qed.

(* ---- regressions (were unseal_seal_escaped_refuted / tamper_path_escaped_refuted before f75d72f) ---- *)
(* path "a b/c" (a space): the sealed URL now unseals to the original request, and the same URL with its visible path
   changed to "…/a%2520b/c" is rejected *)
Definition esc_u : url := {| u_path := [97; 32; 98; 47; 99]; u_query := [120; 61; 49] |}.

Example unseal_seal_escaped_regression :
  unseal sym_open [1] 1000000%Z (seal_url sym_seal [1] zero_nonce 1000000%Z 1000000%Z esc_u) = UOk esc_u.
Proof. vm_compute. reflexivity. Qed.

Example tamper_path_escaped_regression :
  accepted_b (unseal sym_open [1] 1000000%Z
                (mutate [1] (seal_url sym_seal [1] zero_nonce 1000000%Z 1000000%Z esc_u)
                        (MPath (seal_prefix ++ [97; 37; 50; 53; 50; 48; 98; 47; 99])))) = false.
Proof. vm_compute. reflexivity. Qed.

(* ---- what still does NOT hold: the two residual classes of sealable_path ---- *)
(* "a:b/c" (relative, ':' in the first segment): URL.String writes "./a:b/c", url.Parse returns the path "./a:b/c";
   "//org/x": url.Parse reads "org" as an authority.  In both cases Unseal rejects the URL the sealer issued. *)
Theorem unseal_seal_residual_refuted :
  exists u1 u2, bytes_ok (u_path u1) /\ bytes_ok (u_path u2) /\ good_query (u_query u1) /\ good_query (u_query u2)
    /\ unseal sym_open [1] 1000000%Z (seal_url sym_seal [1] zero_nonce 1000000%Z 1000000%Z u1) <> UOk u1
    /\ unseal sym_open [1] 1000000%Z (seal_url sym_seal [1] zero_nonce 1000000%Z 1000000%Z u2) <> UOk u2.
Proof.
  exists {| u_path := [97; 58; 98; 47; 99]; u_query := [] |}, {| u_path := [47; 47; 111; 114; 103; 47; 120]; u_query := [] |}.
  repeat split; try (repeat constructor; cbv; reflexivity); try reflexivity; vm_compute; discriminate.
Qed.

(* the oracle holds on the model for ordinary requests (non-vacuity of the correspondence) *)
Example oracle_on_model_plain :
  let i := ISeal [1] zero_nonce 1000000%Z 1000000%Z {| u_path := [111; 47; 114]; u_query := [120; 61; 49] |} MNone 1000500%Z in
  oracle i (model_obs i) = true.
Proof. vm_compute. reflexivity. Qed.

(* ================================================================== *)
(* Part 3: the gRPC service layer (getRepoPath -> getOrCreateStore -> DBCache.Get) *)
(* ================================================================== *)

(* Clean of a relative path that is neither ".." nor begins with "../" has no ".." segment *)
Lemma guard_shape_rel p1 :
  is_prefix [47] p1 = false ->
  let p := clean p1 in
  beq_bytes p s_dotdot = false -> is_prefix [46; 46; 47] p = false ->
  nodd (split_on 47 p) /\ is_prefix [47] p = false.
Proof.
  intros Hrel p Hne Hpre. subst p. unfold clean in *.
  destruct p1 as [|c t] eqn:Ep1.
  { split; [repeat constructor | reflexivity]. }
  assert (Hc : (c =? c_slash) = false).
  { cbn [is_prefix] in Hrel. unfold c_slash. rewrite N.eqb_sym. destruct (47 =? c); [discriminate|reflexivity]. }
  rewrite Hc in *.
  destruct (cstack_false_shape (split_on c_slash (c :: t)) [] (ex_intro _ [] (ex_intro _ 0%nat (conj eq_refl (Forall_nil _)))))
    as [nm [k [Est Hnm]]].
  assert (Hns : Forall noslash (cstack false (split_on c_slash (c :: t)) [])).
  { apply Forall_forall. intros g Hg. apply cstack_in in Hg. destruct Hg as [Hg|[]].
    pose proof (split_on_noslash (c :: t)) as F. rewrite Forall_forall in F. apply F. exact Hg. }
  rewrite Est in *. rewrite rev_app_distr, rev_repeat_dd in *.
  destruct k as [|k].
  - cbn [repeat app] in *.
    destruct (rev nm) as [|x r] eqn:Er.
    { split; [repeat constructor | reflexivity]. }
    assert (Hg : Forall goodseg (x :: r)) by (rewrite <- Er; apply Forall_rev; exact Hnm).
    assert (Hn : Forall noslash (x :: r)).
    { rewrite <- Er. apply Forall_rev. rewrite app_nil_r in Hns. exact Hns. }
    split.
    + rewrite split_join; [|discriminate|exact Hn]. apply good_nodd. exact Hg.
    + inversion Hg as [|? ? Hx _]; subst. inversion Hn as [|? ? Hxn _]; subst.
      destruct (goodseg_head x Hx Hxn) as [c0 [t0 [-> Hc0]]].
      cbn [join_slash app is_prefix]. apply N.eqb_neq in Hc0. rewrite N.eqb_sym, Hc0. reflexivity.
  - exfalso. cbn [repeat app] in *.
    destruct (repeat s_dotdot k ++ rev nm) as [|y r] eqn:Er.
    + cbn in Hne. discriminate Hne.
    + cbn [join_slash s_dotdot app flat_map is_prefix] in Hpre. cbn in Hpre. discriminate Hpre.
Qed.

(* With the repository path validated (the proposed repair), the directory the service creates / opens is the
   root or below it — for EVERY repo_path / repo_id a client can send. *)
Theorem grpc_confined_guarded :
  forall root use_id p org name d, absolute root ->
    grpc_access true root (grpc_repo_path use_id p org name) = Some d -> under root d.
Proof.
  intros root use_id p org name d Habs H. set (rp := grpc_repo_path use_id p org name) in *.
  unfold grpc_access in H. unfold c_slash in H.
  destruct (is_prefix [47] rp) eqn:Hrel; [discriminate|].
  destruct (beq_bytes (clean rp) s_dotdot) eqn:Hne; [discriminate|]. cbn [orb] in H.
  destruct (is_prefix [46; 46; 47] (clean rp)) eqn:Hpre; [discriminate|].
  inversion H; subst d. clear H.
  destruct (guard_shape_rel rp Hrel Hne Hpre) as [Hnodd Hrel'].
  unfold fs_abs, c_slash. rewrite Hrel'. rewrite join2_abs by exact Habs.
  apply resolve_under; assumption.
Qed.

(* the service as repaired in a6f850d is the guarded variant *)
Definition grpc_confined := grpc_confined_guarded.

(* regression (was grpc_confined_refuted): without the validation a relative path with ".." and an absolute path leave the
   root — root /srv/root, repo_path "../x" -> /srv/x ; repo_path "/etc/x" -> /etc/x *)
Example grpc_unvalidated_regression :
  grpc_access false f4_root [46; 46; 47; 120] = Some [47; 115; 114; 118; 47; 120]
  /\ under_b f4_root [47; 115; 114; 118; 47; 120] = false
  /\ grpc_access false f4_root [47; 101; 116; 99; 47; 120] = Some [47; 101; 116; 99; 47; 120]
  /\ under_b f4_root [47; 101; 116; 99; 47; 120] = false.
Proof. vm_compute. repeat split. Qed.

Example grpc_witnesses_guarded :
  grpc_access true f4_root [46; 46; 47; 120] = None /\ grpc_access true f4_root [47; 101; 116; 99; 47; 120] = None
  /\ grpc_access true f4_root [111; 114; 103; 47; 114] = Some (f4_root ++ [47; 111; 114; 103; 47; 114]).
Proof. vm_compute. repeat split. Qed.

(* ================================================================== *)
(* Part 4: the oracle holds on the model                                *)
(* ================================================================== *)
(* handler and gRPC cases, guarded code: everything the model touches or serves is under the root *)
Lemma handle_touched_under guard ctx meth ro qbad hp :
  absolute (fs_root ctx) -> guard = true ->
  forallb (under_b (fs_root ctx)) (h_touched (handle guard ctx meth ro qbad hp)) = true
  /\ match h_read (handle guard ctx meth ro qbad hp) with Some f => under_b (fs_root ctx) f = true | None => True end.
Proof.
  intros Habs ->. unfold handle.
  destruct (meth =? 0).
  - unfold get_handle. destruct (get_access (fs_root ctx) hp) as [abs|] eqn:E; [|split; [reflexivity|exact I]].
    destruct (fs_bad abs); [split; [reflexivity|exact I]|].
    destruct (mem_bytes abs (fs_files ctx)); cbn [h_touched h_read]; (split; [reflexivity|]); [|exact I].
    apply under_b_spec. eapply get_confined; eassumption.
  - destruct ((meth =? 1) || (meth =? 2)); [|split; [reflexivity|exact I]].
    unfold post_handle. destruct ro; [split; [reflexivity|exact I]|].
    destruct (post_access true (fs_root ctx) hp) as [st|d] eqn:E; [split; [reflexivity|exact I]|].
    destruct qbad; [split; [reflexivity|exact I]|]. destruct (fs_bad d); [split; [reflexivity|exact I]|].
    cbn [h_touched h_read forallb]. split; [|exact I]. rewrite andb_true_r.
    apply under_b_spec. eapply post_confined_guarded; eassumption.
Qed.

Theorem oracle_on_model_confinement :
  (forall ctx mode meth ro qbad p, absolute (fs_root ctx) ->
     oracle (IHandle true ctx mode meth ro qbad p) (model_obs (IHandle true ctx mode meth ro qbad p)) = true)
  /\ (forall ctx use_id p org name, absolute (fs_root ctx) ->
     oracle (IGrpc true ctx use_id p org name) (model_obs (IGrpc true ctx use_id p org name)) = true).
Proof.
  split.
  - intros ctx mode meth ro qbad p Habs. cbn [oracle model_obs].
    destruct (transport mode p) as [hp|]; [|reflexivity].
    destruct (handle_touched_under true ctx meth ro qbad hp Habs eq_refl) as [H1 H2]. rewrite H1. cbn [andb].
    destruct (h_read (handle true ctx meth ro qbad hp)); [exact H2|reflexivity].
  - intros ctx use_id p org name Habs. cbn [oracle model_obs]. unfold grpc_handle.
    destruct (grpc_access true (fs_root ctx) (grpc_repo_path use_id p org name)) as [d|] eqn:E; [|reflexivity].
    destruct (fs_bad d); [reflexivity|]. cbn [snd]. destruct (mem_bytes d (fs_dirs ctx)); [reflexivity|].
    cbn [forallb]. rewrite andb_true_r. apply under_b_spec. eapply grpc_confined_guarded; eassumption.
Qed.
