(* C45 — proofs. *)
From Coq Require Import NArith List Bool Lia.
From Dolt Require Import C45.Model C45.Spec C45.Corr.
Import ListNotations.
Local Open Scope N_scope.

(* ---------------- cluster ---------------- *)
(* invariant of every reachable state before the transition *)
Definition cinv (s : cluster) : Prop :=
  subseq (c_applied s) (c_log s)
  /\ (c_dirty s = true -> subseq (c_applied s) (tl (c_log s)))
  /\ (c_dirty s = false -> (c_log s = [] /\ c_applied s = []) \/ exists r l a, c_log s = r :: l /\ c_applied s = r :: a)
  /\ incl (c_acked s) (c_applied s).

Lemma subseq_refl {A} (l : list A) : subseq l l.
Proof. induction l; constructor; assumption. Qed.

Lemma cinv_init : cinv init_cluster.
Proof.
  unfold cinv, init_cluster. cbn. split; [constructor|]. split; [discriminate|].
  split; [intros _; left; split; reflexivity | intros x Hx; exact Hx].
Qed.

Lemma cinv_step s e : cinv s -> cinv (cluster_step s e).
Proof.
  intros [H1 [H2 [H3 H4]]]. unfold cluster_step. destruct (c_swapped s) eqn:Sw; [repeat split; assumption|].
  destruct e; try (repeat split; assumption).
  - (* commit *) repeat split; cbn.
    + apply sub_skip. exact H1.
    + intros _. exact H1.
    + discriminate.
    + exact H4.
  - (* replicate ok *) destruct (c_dirty s) eqn:D; [|repeat split; try assumption; rewrite D; assumption].
    destruct (c_log s) as [|r l] eqn:L; [repeat split; try assumption; rewrite ?D, ?L; assumption|].
    specialize (H2 eq_refl). cbn in H2. repeat split; cbn.
    + rewrite ?L. apply sub_take. exact H2.
    + discriminate.
    + intros _. right. exists r, l, (c_applied s). split; [rewrite ?L; reflexivity|reflexivity].
    + intros x Hx. right. apply H4. exact Hx.
  - (* ack *) destruct (c_dirty s) eqn:D; [repeat split; try assumption; rewrite D; assumption|].
    destruct (c_applied s) as [|r a] eqn:A; [repeat split; try assumption; rewrite ?D, ?A; assumption|].
    repeat split; cbn.
    + exact H1.
    + discriminate.
    + intros _. exact (H3 eq_refl).
    + intros x [Hx|Hx]; [left; exact Hx | apply H4; exact Hx].
  - (* transition *) destruct (c_dirty s) eqn:D; [repeat split; try assumption; rewrite D; assumption|].
    repeat split; cbn; try assumption; try discriminate; try (intros _; exact (H3 eq_refl)).
Qed.

Lemma cinv_run_from es s : cinv s -> cinv (fold_left cluster_step es s).
Proof. revert s. induction es as [|e es IH]; intros s H; [exact H|]. cbn. apply IH. apply cinv_step. exact H. Qed.

(* The standby's applied roots are always an order-preserving sub-sequence of the roots committed on the
   primary — for every sequence of commits, pushes, failures, restarts, standby writes and transitions. *)
Theorem standby_prefix : forall es, subseq (c_applied (cluster_run es)) (c_log (cluster_run es)).
Proof. intros es. destruct (cinv_run_from es init_cluster cinv_init) as [H _]. exact H. Qed.

(* writes sent to the standby never change it *)
Theorem standby_rejects : forall s r, cluster_step s (CStandbyWrite r) = s.
Proof. intros s r. unfold cluster_step. destruct (c_swapped s); reflexivity. Qed.

(* After a graceful transition every write that was acknowledged with replication acknowledgement enabled
   is in the new primary's log, and the new primary's newest root is the old primary's newest root. *)
Theorem transition_no_loss :
  forall es, let s := cluster_run es in
    c_swapped s = true ->
    incl (c_acked s) (primary_log s) /\ hd_error (primary_log s) = hd_error (c_log s).
Proof.
  intros es s Sw. subst s. unfold cluster_run in *.
  destruct (cinv_run_from es init_cluster cinv_init) as [H1 [H2 [H3 H4]]].
  unfold primary_log. rewrite Sw. split; [exact H4|].
  (* a swapped state is never dirty *)
  assert (D : c_dirty (fold_left cluster_step es init_cluster) = false).
  { clear H1 H2 H3 H4. revert Sw.
    assert (G : forall es st, (c_swapped st = true -> c_dirty st = false) ->
                c_swapped (fold_left cluster_step es st) = true -> c_dirty (fold_left cluster_step es st) = false).
    { induction es0 as [|e es0 IH]; intros st Hst; [exact Hst|]. cbn. apply IH.
      intros Hs'. unfold cluster_step in *. destruct (c_swapped st) eqn:S0; [apply Hst; reflexivity|].
      destruct e; cbn in Hs' |- *; try congruence.
      - destruct (c_dirty st) eqn:D0; [|congruence]. destruct (c_log st); cbn in *; congruence.
      - destruct (c_dirty st) eqn:D0; [congruence|]. destruct (c_applied st); cbn in *; congruence.
      - destruct (c_dirty st) eqn:D0; cbn in *; [congruence|reflexivity]. }
    apply G. discriminate. }
  destruct (H3 D) as [[E1 E2]|[r [l [a [E1 E2]]]]]; rewrite E1, E2; reflexivity.
Qed.

(* if nothing more commits and one push succeeds, the standby has the primary's newest root *)
Theorem caught_up_converges :
  forall es, let s := cluster_step (cluster_run es) CReplicateOk in
    c_swapped s = false -> hd_error (c_applied s) = hd_error (c_log s).
Proof.
  intros es s Sw. subst s. unfold cluster_run in *.
  destruct (cinv_run_from es init_cluster cinv_init) as [H1 [H2 [H3 H4]]].
  set (s0 := fold_left cluster_step es init_cluster) in *. unfold cluster_step in Sw |- *.
  destruct (c_swapped s0) eqn:S0; [congruence|].
  destruct (c_dirty s0) eqn:D.
  - destruct (c_log s0) as [|r l] eqn:L.
    + specialize (H2 eq_refl). cbn in H2. destruct (c_applied s0); [rewrite ?L; reflexivity | inversion H2].
    + cbn. rewrite ?L. reflexivity.
  - destruct (H3 eq_refl) as [[E1 E2]|[r [l [a [E1 E2]]]]]; rewrite E1, E2; reflexivity.
Qed.

(* Convergence with retries (commithook: a failed attempt only schedules nextPushAttempt = now + 1 s and changes nothing
   else): from ANY reachable state, after ANY number of failed attempts, the first successful attempt leaves the standby
   with the primary's newest root — provided no transition has happened.  "Eventually" is exactly this fairness
   hypothesis: some attempt succeeds. *)
Lemma fail_steps_noop k s : fold_left cluster_step (repeat CReplicateFail k) s = s.
Proof.
  induction k as [|k IH]; [reflexivity|]. cbn [repeat fold_left].
  assert (E : cluster_step s CReplicateFail = s) by (unfold cluster_step; destruct (c_swapped s); reflexivity).
  rewrite E. exact IH.
Qed.

Theorem converges_after_retries :
  forall es k, let s := cluster_step (fold_left cluster_step (repeat CReplicateFail k) (cluster_run es)) CReplicateOk in
    c_swapped s = false -> hd_error (c_applied s) = hd_error (c_log s).
Proof. intros es k. rewrite fail_steps_noop. exact (caught_up_converges es). Qed.

(* the oracle of the correspondence holds on the model's own traces — executed on a family of step lists covering every
   step kind of both machines (the general statement is not proved: it needs the sorted-heads and commit-id bookkeeping
   of the oracle related to the invariants above) *)
Example oracle_on_model_examples :
  forallb (fun i => oracle i (model_obs i))
    [IClust [[CCommit 0]; [CCommit 3; CReplicateFail]; [CCommit 4; CReplicateFail]; [CTransition]; [CReplicateFail; CReplicateOk];
             [CCommit 8; CReplicateOk; CAck]; [CTransition]; [CStandbyWrite 11]];
     IClust [[CCommit 0; CReplicateOk]; [CCommit 2; CReplicateOk; CAck]; [CStandbyRestart]; [CCommit 4; CReplicateOk; CAck]; [CTransition]; [CStandbyWrite 6]; [CCommit 7]];
     IClust [[]; [CCommit 0]; [CTransition]; [CReplicateOk]; [CAck]; [CTransition]];
     IClust [[CCommit 0; CReplicateOk]; [CCommit 4; CReplicateOk; CCommit 5; CReplicateOk; CAck]; [CReplicateOk]; [CTransition]; [CStandbyWrite 10]];
     IRepl [(0, 0)] [RCommit 0 1; RPull; RCommit 1 3; RCommit 0 4; RPull; RCommit 1 6; RPull];
     IRepl [(0, 0)] [RPullFail; RCommitPushFail 0 2; RCommitPushFail 1 3; RPullFail; RPullFail; RPull; RCommit 0 7; RPull];
     IRepl [(0, 0)] [RPull; RCommit 2 2; RCommit 2 3; RPull; RPull];
     IRepl [(0, 0)] [RCommit 1 1; RTag 1; RPull; RDelete 1; RPull; RCommit 1 6; RTag 15; RCommit 2 8; RPull; RDelete 1; RDelete 2; RPull]] = true.
Proof. vm_compute. reflexivity. Qed.

(* non-vacuity: a run that commits, replicates, acknowledges and transitions *)
Example transition_happens :
  let s := cluster_run [CCommit 1; CReplicateFail; CCommit 2; CReplicateOk; CAck; CStandbyWrite 9; CTransition] in
  c_swapped s = true /\ primary_log s = [2] /\ c_acked s = [2] /\ c_log s = [2; 1].
Proof. vm_compute. repeat split. Qed.
Example transition_refused_when_behind :
  c_swapped (cluster_run [CCommit 1; CReplicateOk; CCommit 2; CTransition]) = false.
Proof. reflexivity. Qed.

(* ---------------- push-on-write / read replica ---------------- *)
Lemma pair_mem_spec p l : pair_mem p l = true <-> In p l.
Proof.
  induction l as [|q l IH]; cbn; [split; [discriminate|intros []]|].
  rewrite orb_true_iff, andb_true_iff, !N.eqb_eq, IH. destruct p as [a b], q as [c d]; cbn. split.
  - intros [[-> ->]|H]; [left; reflexivity | right; exact H].
  - intros [H|H]; [inversion H; left; split; reflexivity | right; exact H].
Qed.

Lemma set_head_in b c h p : In p (set_head b c h) -> p = (b, c) \/ In p h.
Proof.
  induction h as [|[b' c'] h IH]; cbn; [intros [H|[]]; left; symmetry; exact H|].
  destruct (b' =? b); cbn; intros [H|H].
  - left. symmetry. exact H.
  - right. right. exact H.
  - right. left. exact H.
  - destruct (IH H) as [E|E]; [left; exact E | right; right; exact E].
Qed.

Lemma remove_head_in b h p : In p (remove_head b h) -> In p h.
Proof.
  induction h as [|[b' c'] h IH]; cbn; [intros []|].
  destruct (b' =? b); cbn.
  - intros H. right. apply IH. exact H.
  - intros [H|H]; [left; exact H | right; apply IH; exact H].
Qed.

Definition rinv (s : repl) : Prop := incl (r_remote s) (r_remote_hist s) /\ incl (r_replica s) (r_remote_hist s).

Lemma rinv_step s e : rinv s -> rinv (repl_step s e).
Proof.
  intros [H1 H2]. destruct e; cbn; split; cbn; try assumption.
  - intros p Hp. destruct (set_head_in _ _ _ _ Hp) as [->|Hin]; [left; reflexivity | right; apply H1; exact Hin].
  - intros p Hp. right. apply H2. exact Hp.
  - intros p Hp. apply H1. apply (remove_head_in _ _ _ Hp).
Qed.

(* A read replica only ever shows branch heads the remote actually had — for every interleaving of
   commits (pushed or not), pulls and failed pulls. *)
Theorem replica_heads_real :
  forall h0 es, heads_real (r_replica (repl_run h0 es)) (r_remote_hist (repl_run h0 es)) = true.
Proof.
  intros h0 es. unfold heads_real. apply forallb_forall. intros p Hp. apply pair_mem_spec.
  assert (G : forall es s, rinv s -> rinv (fold_left repl_step es s)).
  { induction es0 as [|e es0 IH]; intros s Hs; [exact Hs|]. cbn. apply IH. apply rinv_step. exact Hs. }
  destruct (G es (init_repl h0)) as [_ H2]; [split; cbn; apply incl_refl|]. apply H2. exact Hp.
Qed.

(* Right after a successful pull the replica shows exactly the remote's current heads: a branch deleted on the
   remote is gone from the replica, whatever tags exist. *)
Lemma heads_real_refl h : heads_real h h = true.
Proof. unfold heads_real. apply forallb_forall. intros p Hp. apply pair_mem_spec. exact Hp. Qed.

Theorem replica_after_pull_current :
  forall s, let s' := repl_step s RPull in
    r_replica s' = r_remote s' /\ heads_real (r_replica s') (r_remote s') = true.
Proof. intros s. cbn. split; [reflexivity | apply heads_real_refl]. Qed.

(* a deleted branch has no head on the remote and none on the replica after the next pull *)
Lemma get_remove_head b h : get_head b (remove_head b h) = None.
Proof.
  induction h as [|[b' c'] h IH]; cbn; [reflexivity|].
  destruct (b' =? b) eqn:E; cbn; [exact IH | rewrite E; exact IH].
Qed.

Theorem deleted_branch_gone_after_pull :
  forall s b, let s' := repl_step (repl_step s (RDelete b)) RPull in
    get_head b (r_remote s') = None /\ get_head b (r_replica s') = None.
Proof. intros s b. cbn. split; apply get_remove_head. Qed.

Lemma get_set_head b c h : get_head b (set_head b c h) = Some c.
Proof.
  induction h as [|[b' c'] h IH]; cbn; [rewrite N.eqb_refl; reflexivity|].
  destruct (b' =? b) eqn:E; cbn; [rewrite N.eqb_refl; reflexivity | rewrite E; exact IH].
Qed.

(* When a commit returns without a replication warning the remote has it. *)
Theorem push_on_write_present :
  forall s b c, let s' := repl_step s (RCommit b c) in
    r_warned s' = false /\ get_head b (r_remote s') = Some c /\ get_head b (r_primary s') = Some c.
Proof. intros s b c. cbn. repeat split; apply get_set_head. Qed.
