(* C45 — replication.  Executable model of
     go/libraries/doltcore/sqle/cluster/commithook.go      commithook: nextHead / lastPushedHead, replicate loop
     go/libraries/doltcore/sqle/cluster/controller.go      graceful role transition waits for every hook to be caught up
     go/libraries/doltcore/sqle/cluster/replication_service.go   the standby only ever sets the root it was pushed
     go/libraries/doltcore/sqle/replication.go             push-on-write commit hook (push heads after a local commit)
     go/libraries/doltcore/sqle/read_replica_database.go   PullFromRemote (fetch, then set local heads to the fetched remote heads)
     go/libraries/doltcore/doltdb/hooksdatabase.go         ExecuteCommitHooks (hook failure = warning, commit stands)
   Roots / commits are opaque identifiers (N); timing, gRPC and process restarts are the nondeterministic
   fail / restart steps.  No proofs here. *)
From Coq Require Import NArith List Bool.
Import ListNotations.
Local Open Scope N_scope.

(* ---------------- primary / standby cluster ---------------- *)
Record cluster := {
  c_log : list N;          (* roots committed on the primary, newest first *)
  c_dirty : bool;          (* commithook: nextHead <> lastPushedHead (something to replicate) *)
  c_applied : list N;      (* roots the standby has applied, newest first *)
  c_acked : list N;        (* writes acknowledged to clients with replication acknowledgement enabled *)
  c_swapped : bool         (* a graceful transition has happened: the former standby is the primary *)
}.

Inductive cstep :=
| CCommit (r : N)          (* a write commits on the primary: nextHead := r *)
| CReplicateOk             (* the hook pushes nextHead's closure and sets the standby's root *)
| CReplicateFail           (* push attempt fails: back-off, nothing changes *)
| CStandbyRestart          (* standby process restarts: its store is durable *)
| CStandbyWrite (r : N)    (* a client writes to the standby: rejected *)
| CAck                     (* waiters are released: the replicated head is acknowledged *)
| CTransition.             (* dolt_assume_cluster_role: primary stops writes, waits isCaughtUp, swaps roles *)

Definition init_cluster : cluster :=
  {| c_log := []; c_dirty := false; c_applied := []; c_acked := []; c_swapped := false |}.

Definition cluster_step (s : cluster) (e : cstep) : cluster :=
  if c_swapped s then s else    (* the model follows one epoch: up to and including the transition *)
  match e with
  | CCommit r => {| c_log := r :: c_log s; c_dirty := true; c_applied := c_applied s; c_acked := c_acked s; c_swapped := false |}
  | CReplicateOk =>
    if c_dirty s then
      match c_log s with
      | r :: _ => {| c_log := c_log s; c_dirty := false; c_applied := r :: c_applied s; c_acked := c_acked s; c_swapped := false |}
      | [] => s
      end
    else s
  | CReplicateFail | CStandbyRestart | CStandbyWrite _ => s
  | CAck =>
    if c_dirty s then s
    else match c_applied s with
         | r :: _ => {| c_log := c_log s; c_dirty := false; c_applied := c_applied s; c_acked := r :: c_acked s; c_swapped := false |}
         | [] => s
         end
  | CTransition =>
    if c_dirty s then s      (* not caught up: the transition fails, the old primary stays primary *)
    else {| c_log := c_log s; c_dirty := false; c_applied := c_applied s; c_acked := c_acked s; c_swapped := true |}
  end.

Definition cluster_run (es : list cstep) : cluster := fold_left cluster_step es init_cluster.

(* the log of whoever is primary now *)
Definition primary_log (s : cluster) : list N := if c_swapped s then c_applied s else c_log s.

(* ---------------- push-on-write + read replica over a remote ---------------- *)
Definition heads := list (N * N).     (* branch id -> commit id *)

Fixpoint set_head (b c : N) (h : heads) : heads :=
  match h with
  | [] => [(b, c)]
  | (b', c') :: r => if b' =? b then (b, c) :: r else (b', c') :: set_head b c r
  end.
(* deleting a branch: the dataset refs/heads/<b> is removed (doltdb.DeleteBranch; pushDataset -> Delete on the remote) *)
Fixpoint remove_head (b : N) (h : heads) : heads :=
  match h with [] => [] | (b', c') :: r => if b' =? b then remove_head b r else (b', c') :: remove_head b r end.
Fixpoint get_head (b : N) (h : heads) : option N :=
  match h with [] => None | (b', c') :: r => if b' =? b then Some c' else get_head b r end.

Record repl := {
  r_primary : heads;
  r_remote : heads;
  r_remote_hist : list (N * N);   (* every (branch, commit) the remote has ever had *)
  r_replica : heads;
  r_warned : bool                 (* the last commit raised a replication warning *)
}.

Inductive rstep :=
| RCommit (b c : N)               (* commit on the primary, push-on-write succeeds *)
| RCommitPushFail (b c : N)       (* commit on the primary, the push fails: warning, commit stands *)
| RDelete (b : N)                 (* the branch is deleted on the primary; push-on-write deletes the remote's ref (commit_hooks.go pushDataset: no head -> Delete) *)
| RTag (t : N)                    (* a tag named like branch t is created on the primary and pushed: refs/tags/.. is not a branch head, no head changes *)
| RPull                           (* the read replica starts a transaction: fetch + set heads *)
| RPullFail.                      (* fetch fails: heads unchanged *)

Definition init_repl (h0 : heads) : repl :=
  {| r_primary := h0; r_remote := h0; r_remote_hist := h0; r_replica := h0; r_warned := false |}.

Definition repl_step (s : repl) (e : rstep) : repl :=
  match e with
  | RCommit b c =>
    {| r_primary := set_head b c (r_primary s); r_remote := set_head b c (r_remote s);
       r_remote_hist := (b, c) :: r_remote_hist s; r_replica := r_replica s; r_warned := false |}
  | RCommitPushFail b c =>
    {| r_primary := set_head b c (r_primary s); r_remote := r_remote s;
       r_remote_hist := r_remote_hist s; r_replica := r_replica s; r_warned := true |}
  | RDelete b =>
    {| r_primary := remove_head b (r_primary s); r_remote := remove_head b (r_remote s);
       r_remote_hist := r_remote_hist s; r_replica := r_replica s; r_warned := false |}
  | RTag _ => s
  | RPull =>     (* read_replica_database.go PullFromRemote, all heads: pullBranches, then deleteBranches (refsToDelete remote local): replica = remote *)
    {| r_primary := r_primary s; r_remote := r_remote s; r_remote_hist := r_remote_hist s;
       r_replica := r_remote s; r_warned := r_warned s |}
  | RPullFail => s
  end.

Definition repl_run (h0 : heads) (es : list rstep) : repl := fold_left repl_step es (init_repl h0).
