(* C45 — correspondence for the push-on-write / read-replica part over a file remote: the harness runs a
   generated sequence of commits on a primary (push-on-write to the remote) and reads on a read replica;
   after every step it reports the heads of the remote and of the replica, commits named by the index of
   the step that created them. *)
From Coq Require Import NArith List Bool.
From Dolt Require Import C45.Model C45.Spec.
Import ListNotations.
Local Open Scope N_scope.

Definition input := (heads * list rstep)%type.          (* initial heads (shared), steps *)
(* after each step: (remote heads, replica heads), each sorted by branch id *)
Definition obs := list (heads * heads).
Definition case := (input * obs)%type.

Fixpoint insert_sorted (p : N * N) (l : heads) : heads :=
  match l with
  | [] => [p]
  | q :: r => if fst p <=? fst q then p :: l else q :: insert_sorted p r
  end.
Definition sort_heads (h : heads) : heads := fold_right insert_sorted [] h.

Fixpoint trace (s : repl) (es : list rstep) : obs :=
  match es with
  | [] => []
  | e :: r => let s' := repl_step s e in (sort_heads (r_remote s'), sort_heads (r_replica s')) :: trace s' r
  end.

Definition model_obs (i : input) : obs := trace (init_repl (fst i)) (snd i).

Fixpoint heads_eqb (a b : heads) : bool :=
  match a, b with
  | [], [] => true
  | (x, y) :: a', (u, v) :: b' => (x =? u) && (y =? v) && heads_eqb a' b'
  | _, _ => false
  end.
Fixpoint obs_eqb (a b : obs) : bool :=
  match a, b with
  | [], [] => true
  | (r1, p1) :: a', (r2, p2) :: b' => heads_eqb r1 r2 && heads_eqb p1 p2 && obs_eqb a' b'
  | _, _ => false
  end.

(* The property on what the implementation showed:
   - after a commit that returned without a warning the remote's head of that branch is the new commit;
   - after every step, every head the replica shows is a head the remote had at that or an earlier time. *)
Fixpoint oracle_from (hist : list (N * N)) (es : list rstep) (o : obs) : bool :=
  match es, o with
  | [], [] => true
  | e :: es', (rem, rep) :: o' =>
    let hist' := rem ++ hist in
    (match e with RCommit b c => match get_head b rem with Some c' => c' =? c | None => false end | _ => true end)
    && heads_real rep hist'
    && oracle_from hist' es' o'
  | _, _ => false
  end.
Definition oracle (i : input) (o : obs) : bool := oracle_from (fst i) (snd i) o.

Definition check_case (c : case) : N :=
  (if obs_eqb (model_obs (fst c)) (snd c) then 0 else 1)
  + (if oracle (fst c) (snd c) then 0 else 2).
