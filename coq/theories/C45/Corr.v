(* C45 — correspondence for the push-on-write / read-replica part over a file remote: the harness runs a
   generated sequence of commits on a primary (push-on-write to the remote) and reads on a read replica;
   after every step it reports the heads of the remote and of the replica, commits named by the index of
   the step that created them. *)
From Coq Require Import NArith List Bool.
From Dolt Require Import C45.Model C45.Spec.
Import ListNotations.
Local Open Scope N_scope.

(* after each step of a file-remote case: (remote heads, replica heads), each sorted by branch id;
   after each step of a cluster case (the real cluster.commithook driven in-process; one harness step = a group of model
   steps): (root the standby store holds — 9998 = still empty, hook not caught up, hook moved to the standby role) *)
Inductive input :=
| IRepl (h0 : heads) (steps : list rstep)        (* initial heads (shared), steps *)
| IClust (groups : list (list cstep)).
Inductive obs :=
| ORepl (o : list (heads * heads))
| OClust (o : list (N * bool * bool)).
Definition case := (input * obs)%type.

Fixpoint insert_sorted (p : N * N) (l : heads) : heads :=
  match l with
  | [] => [p]
  | q :: r => if fst p <=? fst q then p :: l else q :: insert_sorted p r
  end.
Definition sort_heads (h : heads) : heads := fold_right insert_sorted [] h.

Fixpoint trace (s : repl) (es : list rstep) : list (heads * heads) :=
  match es with
  | [] => []
  | e :: r => let s' := repl_step s e in (sort_heads (r_remote s'), sort_heads (r_replica s')) :: trace s' r
  end.

Definition none_root : N := 9998.
Definition applied_head (s : cluster) : N := match c_applied s with x :: _ => x | [] => none_root end.

Fixpoint ctrace (s : cluster) (gs : list (list cstep)) : list (N * bool * bool) :=
  match gs with
  | [] => []
  | g :: r => let s' := fold_left cluster_step g s in (applied_head s', c_dirty s', c_swapped s') :: ctrace s' r
  end.

Definition model_obs (i : input) : obs :=
  match i with
  | IRepl h0 steps => ORepl (trace (init_repl h0) steps)
  | IClust gs => OClust (ctrace init_cluster gs)
  end.

Fixpoint heads_eqb (a b : heads) : bool :=
  match a, b with
  | [], [] => true
  | (x, y) :: a', (u, v) :: b' => (x =? u) && (y =? v) && heads_eqb a' b'
  | _, _ => false
  end.
Fixpoint robs_eqb (a b : list (heads * heads)) : bool :=
  match a, b with
  | [], [] => true
  | (r1, p1) :: a', (r2, p2) :: b' => heads_eqb r1 r2 && heads_eqb p1 p2 && robs_eqb a' b'
  | _, _ => false
  end.
Fixpoint cobs_eqb (a b : list (N * bool * bool)) : bool :=
  match a, b with
  | [], [] => true
  | (x1, d1, w1) :: a', (x2, d2, w2) :: b' => (x1 =? x2) && Bool.eqb d1 d2 && Bool.eqb w1 w2 && cobs_eqb a' b'
  | _, _ => false
  end.
Definition obs_eqb (a b : obs) : bool :=
  match a, b with
  | ORepl x, ORepl y => robs_eqb x y
  | OClust x, OClust y => cobs_eqb x y
  | _, _ => false
  end.

(* The property on what the implementation showed:
   - after a commit that returned without a warning the remote's head of that branch is the new commit;
   - after every step, every head the replica shows is a head the remote had at that or an earlier time;
   - after a successful pull (the replica's transaction start fetched the remote's refs and dropped the refs the remote
     no longer has), every head the replica shows is a head the remote has at that time: a branch deleted on the remote
     is not shown any more. *)
Fixpoint oracle_from (hist : list (N * N)) (es : list rstep) (o : list (heads * heads)) : bool :=
  match es, o with
  | [], [] => true
  | e :: es', (rem, rep) :: o' =>
    let hist' := rem ++ hist in
    (match e with RCommit b c => match get_head b rem with Some c' => c' =? c | None => false end | _ => true end)
    && heads_real rep hist'
    && (match e with RPull => heads_real rep rem | _ => true end)
    && oracle_from hist' es' o'
  | _, _ => false
  end.
(* cluster: what the standby store holds is never invented and never goes back:
   - membership: it is empty or a root the primary committed (before any transition);
   - caught up (or moved to standby by a graceful transition) means: it is the newest committed root;
   - order: the roots it holds over time appear in commit order (commit ids grow with time). *)
Definition commits_of (g : list cstep) : list N :=
  flat_map (fun e => match e with CCommit r => [r] | _ => [] end) g.

Fixpoint cluster_member_from (committed : list N) (swapped : bool) (gs : list (list cstep)) (o : list (N * bool * bool)) : bool :=
  match gs, o with
  | [], [] => true
  | g :: gs', (x, dirty, sw) :: o' =>
    let committed' := if swapped then committed else rev (commits_of g) ++ committed in   (* newest first *)
    ((x =? none_root) || existsb (fun r => r =? x) committed')
    && (if dirty then true else match committed' with r :: _ => x =? r | [] => x =? none_root end)
    && cluster_member_from committed' (swapped || sw) gs' o'
  | _, _ => false
  end.

Fixpoint cluster_order_from (prev : N) (o : list (N * bool * bool)) : bool :=
  match o with
  | [] => true
  | (x, _, _) :: o' =>
    if x =? none_root then (prev =? none_root) && cluster_order_from prev o'
    else ((prev =? none_root) || (prev <=? x)) && cluster_order_from x o'
  end.

Definition oracle (i : input) (o : obs) : bool :=
  match i, o with
  | IRepl h0 steps, ORepl ro => oracle_from h0 steps ro
  | IClust gs, OClust co => cluster_member_from [] false gs co && cluster_order_from none_root co
  | _, _ => false
  end.

Definition check_case (c : case) : N :=
  (if obs_eqb (model_obs (fst c)) (snd c) then 0 else 1)
  + (if oracle (fst c) (snd c) then 0 else 2).
