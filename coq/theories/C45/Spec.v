(* C45 — the property, independently of the hook state machine. *)
From Coq Require Import NArith List Bool.
From Dolt Require Import C45.Model.
Import ListNotations.
Local Open Scope N_scope.

(* order-preserving sub-sequence: the standby may skip states, never invents or reorders one *)
Inductive subseq {A} : list A -> list A -> Prop :=
| sub_nil : forall l, subseq [] l
| sub_skip : forall a l x, subseq a l -> subseq a (x :: l)
| sub_take : forall a l x, subseq a l -> subseq (x :: a) (x :: l).

Fixpoint pair_mem (p : N * N) (l : list (N * N)) : bool :=
  match l with [] => false | q :: r => ((fst p =? fst q) && (snd p =? snd q)) || pair_mem p r end.

(* every head the replica shows is a head the remote had at some time *)
Definition heads_real (replica : heads) (hist : list (N * N)) : bool := forallb (fun p => pair_mem p hist) replica.
