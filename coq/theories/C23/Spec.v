(* C23 — the property, declaratively, at the granularity of cells.

   A cell is (key, column).  Its value in a table is [None] when the row is
   absent and [Some v] (v possibly NULL) when it is present: deleting a row
   changes every cell of it to "absent", inserting changes them from "absent".

   * a transaction (start state s, own state w) CHANGED cell c iff  s c <> w c;
   * it CONFLICTS with the committed state h iff for some cell both h and w
     differ from s and from each other (same cell changed to different values;
     a delete against a modification is the special case where one of the two
     new values is "absent");
   * the cell-wise merge of its changes into h gives every changed cell the
     transaction's value and leaves every other cell as it is in h. *)
From Coq Require Import NArith List Bool.
From Dolt Require Import C23.Model.
Import ListNotations.
Local Open Scope N_scope.

(* cell view of an optional row; col 0 = a, else b *)
Definition cv (r : option row) (col : N) : option cell :=
  match r with None => None | Some x => Some (getcol col x) end.

Definition ocell_eqb (x y : option cell) : bool :=
  match x, y with
  | None, None => true
  | Some a, Some b => cell_eqb a b
  | _, _ => false
  end.

Definition cell_conflict (b l r : option row) (col : N) : Prop :=
  cv l col <> cv b col /\ cv r col <> cv b col /\ cv l col <> cv r col.

Definition cell_conflict_b (b l r : option row) (col : N) : bool :=
  negb (ocell_eqb (cv l col) (cv b col)) && negb (ocell_eqb (cv r col) (cv b col))
  && negb (ocell_eqb (cv l col) (cv r col)).

Definition row_conflict_b (b l r : option row) : bool :=
  cell_conflict_b b l r 0 || cell_conflict_b b l r 1.

(* cell-wise overlay of the changes b -> r onto l *)
Definition overlay_cell (b l r : option row) (col : N) : option cell :=
  if ocell_eqb (cv r col) (cv b col) then cv l col else cv r col.

Definition overlay_row (b l r : option row) : option row :=
  match overlay_cell b l r 0, overlay_cell b l r 1 with
  | Some x, Some y => Some (x, y)
  | _, _ => None
  end.

Section Universe.
  Variable U : list N.

  (* cell (k, col) of a table *)
  Definition tcell (t : table) (k col : N) : option cell := cv (get U t k) col.

  Definition changed_by (e : cevent) (k col : N) : Prop := tcell (e_snap e) k col <> tcell (e_work e) k col.

  Definition conflicts_b (s h w : table) : bool :=
    existsb (fun k => row_conflict_b (get U s k) (get U h k) (get U w k)) U.

  Definition overlay_tab (s h w : table) : table :=
    freeze U (fun k => overlay_row (get U s k) (get U h k) (get U w k)).

  (* the spec of a commit: fails iff it conflicts; otherwise the overlay *)
  Definition spec_commit (h s w : table) : table * bool :=
    if conflicts_b s h w then (h, false) else (overlay_tab s h w, true).

  (* fold of the cell-wise merges of the committed transactions, in commit order *)
  Definition apply_event (h : table) (e : cevent) : table :=
    if e_ok e then overlay_tab (e_snap e) h (e_work e) else h.
  Definition merge_all (h0 : table) (log : list cevent) : table := fold_left apply_event log h0.

  Definition same_table (x y : table) : Prop := forall k, get U x k = get U y k.
End Universe.
