(* C23 — proofs: the commit path of the model refines the cell-wise spec, and
   the headline theorems over every schedule. *)
From Coq Require Import NArith List Bool Lia.
From Dolt Require Import C23.Model C23.Spec C23.Corr.
Import ListNotations.
Local Open Scope N_scope.

(* ------------------------------------------------------------------ *)
(* 1. decidable equalities                                             *)
Lemma cell_eqb_spec (a b : cell) : reflect (a = b) (cell_eqb a b).
Proof.
  destruct a as [x|], b as [y|]; simpl; try (constructor; congruence).
  destruct (N.eqb_spec x y); constructor; congruence.
Qed.

Lemma row_eqb_spec (r s : row) : reflect (r = s) (row_eqb r s).
Proof.
  destruct r as [a b], s as [c d]. unfold row_eqb. cbn [fst snd].
  destruct (cell_eqb_spec a c), (cell_eqb_spec b d); constructor; congruence.
Qed.

Lemma orow_eqb_spec (x y : option row) : reflect (x = y) (orow_eqb x y).
Proof.
  destruct x as [r|], y as [s|]; simpl; try (constructor; congruence).
  destruct (row_eqb_spec r s); constructor; congruence.
Qed.

Lemma ocell_eqb_spec (x y : option cell) : reflect (x = y) (ocell_eqb x y).
Proof.
  destruct x as [a|], y as [b|]; simpl; try (constructor; congruence).
  destruct (cell_eqb_spec a b); constructor; congruence.
Qed.

Ltac decide_cells :=
  repeat match goal with
         | |- context [cell_eqb ?a ?b] => destruct (cell_eqb_spec a b); subst; try congruence
         | H : context [cell_eqb ?a ?b] |- _ => destruct (cell_eqb_spec a b); subst; try congruence
         end.

Ltac crush_rows b l r :=
  destruct b as [[? ?]|], l as [[? ?]|], r as [[? ?]|];
  unfold merge_key, row_conflict_b, cell_conflict_b, overlay_row, overlay_cell, cv, getcol,
    orow_eqb, row_eqb, ocell_eqb, pair_cells, merge_cell, merge_cell_nobase, is_conflict in *;
  cbn [fst snd N.eqb negb andb orb] in *.

(* ------------------------------------------------------------------ *)
(* 2. the three-way merge of one key is the cell-wise spec             *)
Lemma merge_key_spec (b l r : option row) :
  merge_key b l r = if row_conflict_b b l r then MConflict else MKeep (overlay_row b l r).
Proof.
  crush_rows b l r; decide_cells; cbn [negb andb orb]; try reflexivity; try congruence.
Qed.

Lemma cv_inj (x y : option row) : cv x 0 = cv y 0 -> cv x 1 = cv y 1 -> x = y.
Proof.
  destruct x as [[a b]|], y as [[c d]|]; unfold cv, getcol; cbn [N.eqb fst snd]; congruence.
Qed.

Lemma cv_col (x : option row) (col : N) : cv x col = cv x (if col =? 0 then 0 else 1).
Proof. destruct x as [[a b]|]; unfold cv, getcol; [|reflexivity]. destruct col; reflexivity. Qed.

(* properties of the overlay when there is no conflict *)
Lemma overlay_applies_own (b l r : option row) (col : N) :
  row_conflict_b b l r = false -> cv r col <> cv b col -> cv (overlay_row b l r) col = cv r col.
Proof.
  rewrite (cv_col r), (cv_col b), (cv_col (overlay_row b l r)).
  destruct (col =? 0); crush_rows b l r; intros Hc Hch; decide_cells; cbn [negb andb orb fst snd] in *; congruence.
Qed.

Lemma overlay_touches_only_own (b l r : option row) (col : N) :
  row_conflict_b b l r = false -> cv (overlay_row b l r) col <> cv l col -> cv r col <> cv b col.
Proof.
  rewrite (cv_col r), (cv_col b), (cv_col (overlay_row b l r)), (cv_col l).
  destruct (col =? 0); crush_rows b l r; intros Hc Hch; decide_cells; cbn [negb andb orb fst snd] in *; congruence.
Qed.

(* the transaction had read the value it replaces *)
Lemma overlay_saw (b l r : option row) (col : N) :
  row_conflict_b b l r = false -> cv (overlay_row b l r) col <> cv l col -> cv b col = cv l col.
Proof.
  rewrite (cv_col b), (cv_col (overlay_row b l r)), (cv_col l).
  destruct (col =? 0); crush_rows b l r; intros Hc Hch; decide_cells; cbn [negb andb orb fst snd] in *; congruence.
Qed.

Lemma overlay_same_base (b r : option row) : overlay_row b b r = r /\ row_conflict_b b b r = false.
Proof.
  destruct b as [[? ?]|], r as [[? ?]|];
  unfold row_conflict_b, cell_conflict_b, overlay_row, overlay_cell, cv, getcol, ocell_eqb;
  cbn [fst snd N.eqb negb andb orb]; split; decide_cells; cbn [negb andb orb fst snd]; try reflexivity; congruence.
Qed.

Lemma conflict_needs_change (b l r : option row) :
  row_conflict_b b l r = true -> b <> l /\ b <> r /\ l <> r.
Proof.
  crush_rows b l r; intros Hc; decide_cells; cbn [negb andb orb fst snd] in *; repeat split; congruence.
Qed.

Section P.
  Variable U : list N.
  Notation get := (get U).
  Notation tcell := (tcell U).
  Notation same_table := (same_table U).

  (* ---------------------------------------------------------------- *)
  (* 3. tables                                                         *)
  Lemma inU_In k : inU U k = true <-> In k U.
  Proof.
    unfold inU. rewrite existsb_exists. split.
    - intros [x [Hx He]]. apply N.eqb_eq in He. subst. exact Hx.
    - intros H. exists k. split; [exact H | apply N.eqb_refl].
  Qed.

  Lemma assoc_map (f : N -> option row) (l : list N) k :
    assoc (map (fun k => (k, f k)) l) k = if existsb (N.eqb k) l then f k else None.
  Proof.
    induction l as [|x l IH]; cbn [map assoc existsb]; [reflexivity|].
    destruct (N.eqb_spec k x) as [->|Hne]; cbn [orb]; [reflexivity | exact IH].
  Qed.

  Lemma get_freeze t k : get (freeze U t) k = get t k.
  Proof.
    unfold freeze, Model.get. rewrite assoc_map. fold (inU U k).
    destruct (inU U k); reflexivity.
  Qed.

  Lemma get_idem t k : get (fun k => get t k) k = get t k.
  Proof. unfold Model.get. destruct (inU U k); reflexivity. Qed.

  Lemma get_fun (f : N -> option row) k : inU U k = true -> get f k = f k.
  Proof. unfold Model.get. intros ->. reflexivity. Qed.

  Lemma get_out t k : inU U k = false -> get t k = None.
  Proof. unfold Model.get. intros ->. reflexivity. Qed.

  Lemma table_eqb_same x y : table_eqb U x y = true -> same_table x y.
  Proof.
    unfold table_eqb. rewrite forallb_forall. intros H k.
    destruct (inU U k) eqn:Hk.
    - apply inU_In in Hk. specialize (H k Hk). destruct (orow_eqb_spec (get x k) (get y k)); congruence.
    - rewrite !get_out by exact Hk. reflexivity.
  Qed.

  Lemma get_overlay s h w k :
    get (overlay_tab U s h w) k = overlay_row (get s k) (get h k) (get w k).
  Proof.
    unfold overlay_tab. rewrite get_freeze.
    destruct (inU U k) eqn:Hk.
    - rewrite get_fun by exact Hk. reflexivity.
    - rewrite !get_out by exact Hk. reflexivity.
  Qed.

  Lemma conflicts_b_false s h w :
    conflicts_b U s h w = false -> forall k, row_conflict_b (get s k) (get h k) (get w k) = false.
  Proof.
    unfold conflicts_b. intros H k. destruct (inU U k) eqn:Hk.
    - apply inU_In in Hk.
      destruct (row_conflict_b (get s k) (get h k) (get w k)) eqn:Hc; [|reflexivity].
      assert (existsb (fun k => row_conflict_b (get s k) (get h k) (get w k)) U = true) as E
        by (apply existsb_exists; exists k; split; assumption).
      congruence.
    - rewrite !get_out by exact Hk. reflexivity.
  Qed.

  Lemma conflicts_b_true s h w :
    conflicts_b U s h w = true -> exists k, In k U /\ row_conflict_b (get s k) (get h k) (get w k) = true.
  Proof. unfold conflicts_b. rewrite existsb_exists. intros H; exact H. Qed.

  (* ---------------------------------------------------------------- *)
  (* 4. doCommit refines the spec of a commit                          *)
  Lemma existsb_ext {A} (f g : A -> bool) l : (forall x, f x = g x) -> existsb f l = existsb g l.
  Proof. intros H. induction l as [|x l IH]; cbn [existsb]; [reflexivity | rewrite H, IH; reflexivity]. Qed.

  Lemma merge_tables_conflict s h w : snd (merge_tables U s h w) = conflicts_b U s h w.
  Proof.
    unfold merge_tables, conflicts_b. cbn [snd]. apply existsb_ext. intros k.
    rewrite merge_key_spec. destruct (row_conflict_b (get s k) (get h k) (get w k)); reflexivity.
  Qed.

  Lemma merge_tables_overlay s h w :
    conflicts_b U s h w = false -> same_table (fst (merge_tables U s h w)) (overlay_tab U s h w).
  Proof.
    intros Hc k. unfold merge_tables. cbn [fst]. rewrite get_freeze, get_overlay.
    destruct (inU U k) eqn:Hk.
    - rewrite get_fun by exact Hk. rewrite merge_key_spec.
      rewrite (conflicts_b_false _ _ _ Hc k). reflexivity.
    - rewrite !get_out by exact Hk. reflexivity.
  Qed.

  (* the fast path (persisted state = start state) agrees with the merge *)
  Lemma ff_no_conflict s h w : same_table h s -> conflicts_b U s h w = false.
  Proof.
    intros He. destruct (conflicts_b U s h w) eqn:Hc; [|reflexivity].
    apply conflicts_b_true in Hc as [k [_ Hk]]. rewrite (He k) in Hk.
    destruct (overlay_same_base (get s k) (get w k)) as [_ H2]. congruence.
  Qed.

  Lemma ff_overlay s h w : same_table h s -> same_table (freeze U w) (overlay_tab U s h w).
  Proof.
    intros He k. rewrite get_freeze, get_overlay, (He k).
    destruct (overlay_same_base (get s k) (get w k)) as [H1 _]. symmetry. exact H1.
  Qed.

  Theorem do_commit_refines_spec h s w :
    snd (do_commit U h s w) = snd (spec_commit U h s w) /\
    same_table (fst (do_commit U h s w)) (fst (spec_commit U h s w)).
  Proof.
    unfold do_commit, spec_commit.
    destruct (table_eqb U h s) eqn:Heq.
    - apply table_eqb_same in Heq. rewrite (ff_no_conflict s h w Heq). cbn [fst snd].
      split; [reflexivity | apply ff_overlay; exact Heq].
    - pose proof (merge_tables_conflict s h w) as Hc.
      pose proof (merge_tables_overlay s h w) as Ho.
      destruct (merge_tables U s h w) as [m c]. cbn [fst snd] in *. subst c.
      destruct (conflicts_b U s h w); cbn [fst snd].
      + split; [reflexivity | intros k; reflexivity].
      + split; [reflexivity | apply Ho; reflexivity].
  Qed.

  (* ---------------------------------------------------------------- *)
  (* 5. what one commit attempt does, at the level of cells            *)
  Definition commit_of (e : cevent) : Prop :=
    (e_after e, e_ok e) = do_commit U (e_before e) (e_snap e) (e_work e).

  Lemma commit_ok_iff e : commit_of e -> e_ok e = negb (conflicts_b U (e_snap e) (e_before e) (e_work e)).
  Proof.
    unfold commit_of. intros H.
    pose proof (do_commit_refines_spec (e_before e) (e_snap e) (e_work e)) as [H1 _].
    rewrite <- H in H1. cbn [snd] in H1. rewrite H1. unfold spec_commit.
    destruct (conflicts_b U (e_snap e) (e_before e) (e_work e)); reflexivity.
  Qed.

  Lemma commit_ok_overlay e :
    commit_of e -> e_ok e = true ->
    conflicts_b U (e_snap e) (e_before e) (e_work e) = false /\
    same_table (e_after e) (overlay_tab U (e_snap e) (e_before e) (e_work e)).
  Proof.
    intros H Hok. pose proof (commit_ok_iff e H) as Hi. rewrite Hok in Hi.
    destruct (conflicts_b U (e_snap e) (e_before e) (e_work e)) eqn:Hc; [discriminate|].
    split; [reflexivity|].
    pose proof (do_commit_refines_spec (e_before e) (e_snap e) (e_work e)) as [_ H2].
    unfold commit_of in H. rewrite <- H in H2. cbn [fst] in H2.
    unfold spec_commit in H2. rewrite Hc in H2. exact H2.
  Qed.

  Lemma commit_failed_same e : commit_of e -> e_ok e = false -> e_after e = e_before e.
  Proof.
    unfold commit_of, do_commit. intros H Hok.
    destruct (table_eqb U (e_before e) (e_snap e)).
    - inversion H. congruence.
    - destruct (merge_tables U (e_snap e) (e_before e) (e_work e)) as [m c].
      destruct c; inversion H; congruence.
  Qed.

  Lemma commit_cell_applies_own e k col :
    commit_of e -> e_ok e = true -> changed_by U e k col ->
    tcell (e_after e) k col = tcell (e_work e) k col.
  Proof.
    intros H Hok Hch. destruct (commit_ok_overlay e H Hok) as [Hc Hs].
    unfold Spec.tcell. rewrite (Hs k), get_overlay.
    apply overlay_applies_own; [apply conflicts_b_false; exact Hc|].
    unfold changed_by, Spec.tcell in Hch. congruence.
  Qed.

  Lemma commit_cell_touches_only_own e k col :
    commit_of e -> tcell (e_after e) k col <> tcell (e_before e) k col ->
    e_ok e = true /\ changed_by U e k col /\ tcell (e_snap e) k col = tcell (e_before e) k col.
  Proof.
    intros H Hne. destruct (e_ok e) eqn:Hok.
    - destruct (commit_ok_overlay e H Hok) as [Hc Hs].
      unfold Spec.tcell in *. rewrite (Hs k), get_overlay in Hne.
      pose proof (conflicts_b_false _ _ _ Hc k) as Hck.
      split; [reflexivity|]. split.
      + unfold changed_by, Spec.tcell. intros Heq.
        apply (overlay_touches_only_own _ _ _ col Hck Hne). symmetry. exact Heq.
      + apply (overlay_saw _ _ _ col Hck Hne).
    - rewrite (commit_failed_same e H Hok) in Hne. congruence.
  Qed.

  (* ---------------------------------------------------------------- *)
  (* 6. the commit log of a run is a chain of commit attempts          *)
  Fixpoint chain (h : table) (log : list cevent) : Prop :=
    match log with
    | [] => True
    | e :: l => e_before e = h /\ commit_of e /\ chain (e_after e) l
    end.

  Definition last_head (h : table) (log : list cevent) : table := fold_left (fun _ e => e_after e) log h.

  Lemma commit_sess_spec cf i w ok e w' :
    commit_sess cf i w = (ok, e, w') ->
    e_before e = w_head w /\ (e_after e, e_ok e) = cf (e_before e) (e_snap e) (e_work e)
    /\ w_head w' = e_after e /\ e_sess e = i /\ e_ok e = ok
    /\ w_ss w' = upd (w_ss w) i (s_end (w_ss w i)).
  Proof.
    unfold commit_sess.
    destruct (cf (w_head w) (s_snap (w_ss w i)) (s_work (w_ss w i))) as [h' ok'] eqn:Hcf.
    intros H. inversion H; subst. cbn [e_before e_after e_ok e_snap e_work e_sess w_head w_ss].
    rewrite Hcf. repeat split; reflexivity.
  Qed.

  Lemma gstep_event cf i st w o ev w' :
    gstep U cf i st w = (o, ev, w') ->
    match ev with
    | None => w_head w' = w_head w
    | Some e => e_before e = w_head w /\ (e_after e, e_ok e) = cf (e_before e) (e_snap e) (e_work e)
                /\ w_head w' = e_after e /\ e_sess e = i
                /\ (e_ok e = false -> so_err o = err_retry /\ s_active (w_ss w' i) = false)
    end.
  Proof.
    unfold gstep. intros H.
    destruct st;
      repeat match type of H with
             | context [commit_sess ?c ?j ?x] =>
               let Hc := fresh "Hc" in
               destruct (commit_sess c j x) as [[? ?] ?] eqn:Hc; apply commit_sess_spec in Hc;
               destruct Hc as (Hb & Hcf & Hh & Hs & Hok & Hss)
             | context [exec_dml ?a ?b ?c] => destruct (exec_dml a b c) as [? ?]
             | context [if ?c then _ else _] => destruct c eqn:?
             end;
      inversion H; subst; clear H; cbn [w_head w_ss] in *; try reflexivity;
      (split; [assumption | split; [assumption | split; [try assumption; try reflexivity | split; [reflexivity|]]]]);
      intros Hf; try congruence;
      (split; [reflexivity | rewrite Hss; unfold upd; rewrite N.eqb_refl; reflexivity]).
  Qed.

  Lemma run_chain sched : forall w os log w',
    run U sched w = (os, log, w') -> chain (w_head w) log /\ w_head w' = last_head (w_head w) log.
  Proof.
    induction sched as [|[i st] rest IH]; intros w os log w' H.
    - cbn in H. inversion H; subst. split; [exact I | reflexivity].
    - unfold run in H. cbn [grun] in H. fold (run U) in H.
      destruct (gstep U (do_commit U) i st w) as [[o ev] w1] eqn:Hs.
      destruct (run U rest w1) as [[os1 evs] w2] eqn:Hr.
      inversion H; subst. clear H.
      apply IH in Hr as [Hc Hl]. apply gstep_event in Hs.
      destruct ev as [e|].
      + destruct Hs as [Hb [Hcf [Hh _]]]. rewrite Hh in Hc, Hl.
        split; [cbn [chain]; repeat split; assumption | cbn [last_head fold_left]; exact Hl].
      + rewrite Hs in Hc, Hl. split; assumption.
  Qed.

  Lemma chain_app h l1 l2 : chain h (l1 ++ l2) <-> chain h l1 /\ chain (last_head h l1) l2.
  Proof.
    revert h. induction l1 as [|e l1 IH]; intros h; cbn [app chain last_head fold_left].
    - tauto.
    - rewrite IH. unfold last_head. tauto.
  Qed.

  Lemma chain_in h log e : chain h log -> In e log -> commit_of e.
  Proof.
    revert h. induction log as [|x l IH]; intros h Hc Hin; [destruct Hin|].
    destruct Hc as [_ [Hx Hl]]. destruct Hin as [->|Hin]; [exact Hx | exact (IH _ Hl Hin)].
  Qed.

  Lemma last_head_app h l1 l2 : last_head h (l1 ++ l2) = last_head (last_head h l1) l2.
  Proof. unfold last_head. apply fold_left_app. Qed.

  (* ---------------------------------------------------------------- *)
  (* 7. headline theorems: every schedule, every initial world         *)
  Definition log_of (sched : list (N * stmt)) (w : world) : list cevent := snd (fst (run U sched w)).
  Definition final_of (sched : list (N * stmt)) (w : world) : table := w_head (snd (run U sched w)).

  Lemma log_chain sched w :
    chain (w_head w) (log_of sched w) /\ final_of sched w = last_head (w_head w) (log_of sched w).
  Proof.
    unfold log_of, final_of. destruct (run U sched w) as [[os log] w'] eqn:H. cbn [fst snd].
    exact (run_chain sched w os log w' H).
  Qed.

  (* a successful commit gives every cell the transaction changed the transaction's value *)
  Theorem commit_applies_own sched w e k col :
    In e (log_of sched w) -> e_ok e = true -> changed_by U e k col ->
    tcell (e_after e) k col = tcell (e_work e) k col.
  Proof.
    intros Hin. destruct (log_chain sched w) as [Hc _].
    apply commit_cell_applies_own. exact (chain_in _ _ _ Hc Hin).
  Qed.

  (* a commit changes only cells the transaction changed, and only if it succeeds *)
  Theorem commit_touches_only_own sched w e k col :
    In e (log_of sched w) -> tcell (e_after e) k col <> tcell (e_before e) k col ->
    e_ok e = true /\ changed_by U e k col.
  Proof.
    intros Hin Hne. destruct (log_chain sched w) as [Hc _].
    destruct (commit_cell_touches_only_own e k col (chain_in _ _ _ Hc Hin) Hne) as [H1 [H2 _]].
    split; assumption.
  Qed.

  (* a commit is refused exactly when some cell was changed to different values by both sides *)
  Theorem commit_fails_iff_conflict sched w e :
    In e (log_of sched w) ->
    e_ok e = negb (conflicts_b U (e_snap e) (e_before e) (e_work e)).
  Proof.
    intros Hin. destruct (log_chain sched w) as [Hc _]. apply commit_ok_iff. exact (chain_in _ _ _ Hc Hin).
  Qed.

  (* a refused commit leaves no trace: committed state untouched, the error is the
     retryable one, the session has no transaction any more (its next statement
     starts from the committed state) *)
  Theorem failed_commit_no_trace sched w e :
    In e (log_of sched w) -> e_ok e = false -> e_after e = e_before e.
  Proof.
    intros Hin. destruct (log_chain sched w) as [Hc _]. apply commit_failed_same. exact (chain_in _ _ _ Hc Hin).
  Qed.

  Theorem failed_commit_rolls_back i st w o e w' :
    step U i st w = (o, Some e, w') -> e_ok e = false ->
    w_head w' = w_head w /\ so_err o = err_retry /\ s_active (w_ss w' i) = false.
  Proof.
    intros Hs Hok. pose proof (gstep_event _ _ _ _ _ _ _ Hs) as [Hb [Hcf [Hh [_ Hf]]]].
    destruct (Hf Hok) as [He Ha]. split; [|split; assumption].
    rewrite Hh, <- Hb. apply commit_failed_same; [exact Hcf | exact Hok].
  Qed.

  (* final state = fold of the cell-wise merges of the committed transactions, in commit order *)
  Lemma overlay_tab_same s h1 h2 w : same_table h1 h2 -> same_table (overlay_tab U s h1 w) (overlay_tab U s h2 w).
  Proof. intros H k. rewrite !get_overlay, (H k). reflexivity. Qed.

  Lemma merge_all_chain log : forall h h', chain h log -> same_table h h' ->
    same_table (last_head h log) (merge_all U h' log).
  Proof.
    induction log as [|e l IH]; intros h h' Hc Hs; [exact Hs|].
    destruct Hc as [Hb [He Hl]]. cbn [last_head fold_left merge_all]. apply (IH _ _ Hl).
    unfold apply_event. destruct (e_ok e) eqn:Hok.
    - destruct (commit_ok_overlay e He Hok) as [_ Ho]. intros k. rewrite (Ho k).
      rewrite Hb. apply overlay_tab_same. exact Hs.
    - rewrite (commit_failed_same e He Hok), Hb. exact Hs.
  Qed.

  Theorem final_is_merge sched w :
    same_table (final_of sched w) (merge_all U (w_head w) (log_of sched w)).
  Proof.
    destruct (log_chain sched w) as [Hc Hl]. rewrite Hl.
    apply merge_all_chain; [exact Hc | intros k; reflexivity].
  Qed.

  (* no committed write is lost *)
  Lemma first_change l : forall h k col,
    chain h l -> tcell (last_head h l) k col <> tcell h k col ->
    exists la e lb, l = la ++ e :: lb /\ e_ok e = true /\ changed_by U e k col
                    /\ tcell (e_snap e) k col = tcell h k col.
  Proof.
    induction l as [|e l IH]; intros h k col Hc Hne; [cbn in Hne; congruence|].
    destruct Hc as [Hb [He Hl]]. cbn [last_head fold_left] in Hne. fold (last_head (e_after e) l) in Hne.
    destruct (ocell_eqb_spec (tcell (e_after e) k col) (tcell h k col)) as [Heq|Hd].
    - rewrite <- Heq in Hne. destruct (IH _ k col Hl Hne) as [la [e' [lb [Hl' [Hok [Hch Hsaw]]]]]].
      exists (e :: la), e', lb. rewrite Hl'. repeat split; try assumption. congruence.
    - rewrite <- Hb in Hd. destruct (commit_cell_touches_only_own e k col He Hd) as [Hok [Hch Hsaw]].
      exists [], e, l. repeat split; try assumption. congruence.
  Qed.

  Theorem no_lost_committed_write sched w l1 ei l2 ej l3 k col :
    log_of sched w = l1 ++ ei :: l2 ++ ej :: l3 ->
    e_ok ei = true -> changed_by U ei k col ->
    (* the write of ei is in the committed state right after ei ... *)
    tcell (e_after ei) k col = tcell (e_work ei) k col /\
    (* ... and whenever a later committed state differs from it in that cell, a
       transaction committed in between changed that very cell, and it had
       read the value ei committed (its start state had it) *)
    (tcell (e_after ej) k col <> tcell (e_work ei) k col ->
     exists la e' lb, l2 ++ [ej] = la ++ e' :: lb /\ e_ok e' = true /\ changed_by U e' k col
                      /\ tcell (e_snap e') k col = tcell (e_work ei) k col).
  Proof.
    intros Hlog Hok Hch. destruct (log_chain sched w) as [Hc _]. rewrite Hlog in Hc.
    apply chain_app in Hc as [_ Hc]. destruct Hc as [_ [Hei Hc]].
    pose proof (commit_cell_applies_own ei k col Hei Hok Hch) as Happ.
    split; [exact Happ|]. intros Hne.
    replace (l2 ++ ej :: l3) with ((l2 ++ [ej]) ++ l3) in Hc by (rewrite <- app_assoc; reflexivity).
    apply chain_app in Hc as [Hc _].
    assert (last_head (e_after ei) (l2 ++ [ej]) = e_after ej) as Hlast
      by (rewrite last_head_app; reflexivity).
    rewrite <- Happ in *. rewrite <- Hlast in Hne.
    exact (first_change _ _ k col Hc Hne).
  Qed.
End P.

(* ------------------------------------------------------------------ *)
(* 7b. the model satisfies the executable statement of the property (Corr.oracle) *)
Section O.
  Variable U : list N.

  Lemma freeze_ext t1 t2 : (forall k, get U t1 k = get U t2 k) -> freeze U t1 = freeze U t2.
  Proof.
    intros H. unfold freeze.
    assert (map (fun k => (k, get U t1 k)) U = map (fun k => (k, get U t2 k)) U) as ->
      by (apply map_ext; intros k; rewrite H; reflexivity).
    reflexivity.
  Qed.

  (* an acknowledged commit installs exactly the overlay table; a refused one keeps the head *)
  Lemma do_commit_eq h s w :
    do_commit U h s w = if snd (do_commit U h s w) then (overlay_tab U s h w, true) else (h, false).
  Proof.
    pose proof (do_commit_refines_spec U h s w) as [_ Hs].
    unfold do_commit in *. destruct (table_eqb U h s) eqn:Heq.
    - cbn [fst snd] in *. f_equal. unfold overlay_tab. apply freeze_ext. intros k.
      apply table_eqb_same in Heq. pose proof (ff_overlay U s h w Heq k) as Hk.
      rewrite get_freeze, get_overlay in Hk.
      destruct (inU U k) eqn:Hin.
      + rewrite (get_fun U (fun k => overlay_row (get U s k) (get U h k) (get U w k)) k Hin). exact Hk.
      + rewrite !get_out by exact Hin. reflexivity.
    - pose proof (merge_tables_conflict U s h w) as Hc.
      pose proof (merge_tables_overlay U s h w) as Ho.
      unfold merge_tables in *. cbn [fst snd] in *.
      destruct (existsb (fun k => is_conflict (merge_key (get U s k) (get U h k) (get U w k))) U) eqn:Hex;
        cbn [fst snd]; [reflexivity|].
      f_equal. unfold overlay_tab. apply freeze_ext. intros k.
      symmetry in Hc. specialize (Ho Hc k). rewrite get_freeze, get_overlay in Ho.
      destruct (inU U k) eqn:Hin.
      + rewrite (get_fun U (fun k => overlay_row (get U s k) (get U h k) (get U w k)) k Hin). exact Ho.
      + rewrite !get_out by exact Hin. reflexivity.
  Qed.

  Definition cf_of (o : sobs) : table -> table -> table -> table * bool :=
    fun h s wk => if so_err o =? err_none then (overlay_tab U s h wk, true) else (h, false).

  Lemma commit_sess_cf o i w :
    (snd (do_commit U (w_head w) (s_snap (w_ss w i)) (s_work (w_ss w i))) = (so_err o =? err_none)) ->
    commit_sess (cf_of o) i w = commit_sess (do_commit U) i w.
  Proof.
    intros H. unfold commit_sess, cf_of. rewrite (do_commit_eq (w_head w)), <- H.
    destruct (snd (do_commit U (w_head w) (s_snap (w_ss w i)) (s_work (w_ss w i)))); reflexivity.
  Qed.

  Lemma commit_sess_ok i w :
    fst (fst (commit_sess (do_commit U) i w)) = snd (do_commit U (w_head w) (s_snap (w_ss w i)) (s_work (w_ss w i))).
  Proof.
    unfold commit_sess. destruct (do_commit U (w_head w) (s_snap (w_ss w i)) (s_work (w_ss w i))); reflexivity.
  Qed.

  (* running one step with the commit function derived from the model's own result is the same step *)
  Lemma gstep_cf_of i st w :
    gstep U (cf_of (fst (fst (gstep U (do_commit U) i st w)))) i st w = gstep U (do_commit U) i st w.
  Proof.
    unfold gstep.
    destruct st; try reflexivity;
      try (destruct (s_active (w_ss w i)) eqn:Ha; [|reflexivity];
           pose proof (commit_sess_ok i w) as Hok;
           rewrite commit_sess_cf; [reflexivity|];
           destruct (commit_sess (do_commit U) i w) as [[ok e] w'] eqn:Hc; cbn [fst snd] in *;
           rewrite <- Hok; destruct ok; reflexivity).
    all: destruct (exec_dml U _ (s_work (ensure_txn (w_ss w i) (w_head w)))) as [o t'] eqn:Hx;
      destruct (negb (s_active (w_ss w i)) && s_auto (w_ss w i)); try reflexivity;
      destruct (so_err o =? err_none) eqn:He; try reflexivity;
      match goal with |- context [commit_sess (do_commit U) ?j ?w1] =>
        pose proof (commit_sess_ok j w1) as Hok;
        rewrite (commit_sess_cf _ j w1); [reflexivity|];
        destruct (commit_sess (do_commit U) j w1) as [[ok e] w'] eqn:Hc; cbn [fst snd] in *;
        rewrite <- Hok; destruct ok; cbn [so_err obs_err]; [exact (eq_sym He) | reflexivity]
      end.
  Qed.

  Lemma rows_eqb_refl l : rows_eqb l l = true.
  Proof.
    induction l as [|[[k a] b] l IH]; [reflexivity|]. cbn [rows_eqb].
    assert (Hc : forall c, cell_eqb c c = true) by (intros [x|]; [apply N.eqb_refl | reflexivity]).
    rewrite N.eqb_refl, IH, !Hc. reflexivity.
  Qed.

  Lemma orun_run sched : forall w os log w' good,
    run U sched w = (os, log, w') -> orun U sched os w good = (good, w').
  Proof.
    induction sched as [|[i st] rest IH]; intros w os log w' good H.
    - cbn in H. inversion H; subst. reflexivity.
    - unfold run in H. cbn [grun] in H. fold (run U) in H.
      pose proof (gstep_cf_of i st w) as Hcf.
      pose proof (gstep_event U (do_commit U) i st w) as Hev.
      destruct (gstep U (do_commit U) i st w) as [[o ev] w1] eqn:Hs. cbn [fst] in Hcf.
      specialize (Hev o ev w1 eq_refl).
      destruct (run U rest w1) as [[os1 evs] w2] eqn:Hr. inversion H; subst. clear H.
      cbn [orun]. fold (cf_of o). rewrite Hcf.
      assert (Hg : match ev with
                   | Some e => if conflicts_b U (e_snap e) (e_before e) (e_work e) then so_err o =? err_retry else true
                   | None => true
                   end = true).
      { destruct ev as [e|]; [|reflexivity].
        destruct Hev as (_ & Hc & _ & _ & Hf).
        pose proof (commit_ok_iff U e Hc) as Hi.
        destruct (conflicts_b U (e_snap e) (e_before e) (e_work e)); [|reflexivity].
        cbn [negb] in Hi. destruct (Hf Hi) as [He _]. rewrite He. reflexivity. }
      rewrite Hg, andb_true_r. eapply IH. exact Hr.
  Qed.

  Theorem oracle_accepts_model_U init autos sched :
    oracle {| i_U := U; i_init := init; i_autos := autos; i_sched := sched |}
           (model_obs {| i_U := U; i_init := init; i_autos := autos; i_sched := sched |}) = true.
  Proof.
    unfold oracle, model_obs. cbn [i_U i_init i_autos i_sched].
    destruct (run U sched (world0 init autos)) as [[os log] w'] eqn:Hr. cbn [o_steps o_final].
    rewrite (orun_run sched _ os log w' true Hr). cbn [andb]. apply rows_eqb_refl.
  Qed.
End O.

Theorem oracle_accepts_model i : oracle i (model_obs i) = true.
Proof. destruct i as [U init autos sched]. apply oracle_accepts_model_U. Qed.

(* ------------------------------------------------------------------ *)
(* 8. non-vacuity: a schedule with a cell-wise merge, a refused commit and a retry *)
Definition ex_U : list N := [1; 2].
Definition ex_world : world := world0 [(1, Some 0, Some 0); (2, Some 0, Some 0)] [].
Definition ex_sched : list (N * stmt) :=
  [(0, SUpdate 1 0 (Some 1)); (1, SUpdate 1 1 (Some 2)); (2, SUpdate 1 0 (Some 2)); (2, SDelete 2);
   (0, SCommit); (1, SCommit); (2, SCommit); (2, SSelect)].

Example ex_outcomes :
  map e_ok (log_of ex_U ex_sched ex_world) = [true; true; false]
  /\ dump ex_U (final_of ex_U ex_sched ex_world) = [(1, Some 1, Some 2); (2, Some 0, Some 0)].
Proof. vm_compute. split; reflexivity. Qed.
