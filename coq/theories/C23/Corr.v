(* C23 — correspondence: model observation of a schedule, comparison with the
   implementation's, and the property evaluated on the implementation's observation. *)
From Coq Require Import NArith List Bool.
From Dolt Require Import C23.Model C23.Spec.
Import ListNotations.
Local Open Scope N_scope.

Record input := {
  i_U : list N;                        (* key universe, sorted *)
  i_init : list (N * cell * cell);     (* committed rows before the sessions start *)
  i_autos : list N;                    (* sessions running with autocommit = 1 *)
  i_sched : list (N * stmt)
}.

Record obs := { o_steps : list sobs; o_final : list (N * cell * cell) }.
Definition case := (input * obs)%type.

Definition model_obs (i : input) : obs :=
  let '(os, _, w) := run (i_U i) (i_sched i) (world0 (i_init i) (i_autos i)) in
  {| o_steps := os; o_final := dump (i_U i) (w_head w) |}.

Fixpoint rows_eqb (x y : list (N * cell * cell)) : bool :=
  match x, y with
  | [], [] => true
  | (k, a, b) :: x', (k', a', b') :: y' => (k =? k') && cell_eqb a a' && cell_eqb b b' && rows_eqb x' y'
  | _, _ => false
  end.

Definition sobs_eqb (x y : sobs) : bool :=
  (so_err x =? so_err y) && (so_aff x =? so_aff y) && rows_eqb (so_rows x) (so_rows y).

Fixpoint steps_eqb (x y : list sobs) : bool :=
  match x, y with
  | [], [] => true
  | a :: x', b :: y' => sobs_eqb a b && steps_eqb x' y'
  | _, _ => false
  end.

Definition obs_eqb (x y : obs) : bool :=
  steps_eqb (o_steps x) (o_steps y) && rows_eqb (o_final x) (o_final y).

(* The property on what the implementation returned.  The session machine is
   run with the implementation's own commit outcomes: a commit the
   implementation acknowledged merges the transaction's changes cell-wise
   (overlay) into the committed state, a commit it refused leaves no trace.  Then
   (1) a commit attempt that conflicts (Spec.conflicts_b) must have been
       refused with the retryable error;
   (2) the final committed table is the fold of those cell-wise merges. *)
Fixpoint orun (U : list N) (sched : list (N * stmt)) (os : list sobs) (w : world) (good : bool) : bool * world :=
  match sched, os with
  | [], [] => (good, w)
  | (i, st) :: sched', o :: os' =>
    let cf := fun h s wk => if so_err o =? err_none then (overlay_tab U s h wk, true) else (h, false) in
    let '(_, ev, w') := gstep U cf i st w in
    let g := match ev with
             | None => true
             | Some e => if conflicts_b U (e_snap e) (e_before e) (e_work e) then so_err o =? err_retry else true
             end in
    orun U sched' os' w' (good && g)
  | _, _ => (false, w)
  end.

Definition oracle (i : input) (o : obs) : bool :=
  let '(good, w) := orun (i_U i) (i_sched i) (o_steps o) (world0 (i_init i) (i_autos i)) true in
  good && rows_eqb (o_final o) (dump (i_U i) (w_head w)).

Definition check_case (c : case) : N :=
  (if obs_eqb (model_obs (fst c)) (snd c) then 0 else 1)
  + (if oracle (fst c) (snd c) then 0 else 2).
