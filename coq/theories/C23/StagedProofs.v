(* C23 — proofs for the three-root machine (HEAD, STAGED, WORKING; DOLT_ADD / DOLT_COMMIT inside
   concurrent transactions): doCommit refines the cell-wise spec on every root, and over every
   schedule no dolt-committed cell leaves HEAD and STAGED moves only where a transaction staged. *)
From Coq Require Import NArith List Bool Lia.
From Dolt Require Import C23.Model C23.Spec C23.Proofs C23.Staged.
Import ListNotations.
Local Open Scope N_scope.

(* ------------------------------------------------------------------ *)
(* cell level *)
Lemma row_conflict_sym (b l r : option row) : row_conflict_b b l r = row_conflict_b b r l.
Proof.
  crush_rows b l r; decide_cells; cbn [negb andb orb]; try reflexivity; congruence.
Qed.

Lemma overlay_comm (b l r : option row) :
  row_conflict_b b l r = false -> overlay_row b l r = overlay_row b r l.
Proof.
  crush_rows b l r; intros Hc; decide_cells; cbn [negb andb orb fst snd] in *; try reflexivity; congruence.
Qed.

Lemma overlay_same_lr (b l : option row) : overlay_row b l l = l /\ row_conflict_b b l l = false.
Proof.
  destruct b as [[? ?]|], l as [[? ?]|];
    unfold row_conflict_b, cell_conflict_b, overlay_row, overlay_cell, cv, getcol, ocell_eqb;
    cbn [fst snd N.eqb negb andb orb]; split; decide_cells; cbn [negb andb orb fst snd]; try reflexivity; congruence.
Qed.

Section P.
  Variable U : list N.
  Notation get := (get U).
  Notation tcell := (tcell U).
  Notation same_table := (same_table U).

  Definition same_roots (x y : roots) : Prop :=
    same_table (r_head x) (r_head y) /\ same_table (r_staged x) (r_staged y) /\ same_table (r_work x) (r_work y).

  (* ---------------------------------------------------------------- *)
  (* table level *)
  Lemma conflicts_b_intro s h w :
    (forall k, row_conflict_b (get s k) (get h k) (get w k) = false) -> conflicts_b U s h w = false.
  Proof.
    intros H. destruct (conflicts_b U s h w) eqn:Hc; [|reflexivity].
    apply (conflicts_b_true U) in Hc as [k [_ Hk]]. rewrite H in Hk. discriminate.
  Qed.

  Lemma conflicts_b_same b b' l l' r r' :
    same_table b b' -> same_table l l' -> same_table r r' -> conflicts_b U b l r = conflicts_b U b' l' r'.
  Proof.
    intros Hb Hl Hr. unfold conflicts_b. apply existsb_ext. intros k. rewrite (Hb k), (Hl k), (Hr k). reflexivity.
  Qed.

  Lemma overlay_tab_same3 b b' l l' r r' :
    same_table b b' -> same_table l l' -> same_table r r' ->
    same_table (overlay_tab U b l r) (overlay_tab U b' l' r').
  Proof. intros Hb Hl Hr k. rewrite !(get_overlay U), (Hb k), (Hl k), (Hr k). reflexivity. Qed.

  Lemma same_table_refl x : same_table x x. Proof. intros k. reflexivity. Qed.
  Lemma same_table_sym x y : same_table x y -> same_table y x. Proof. intros H k. symmetry. apply H. Qed.
  Lemma same_table_trans x y z : same_table x y -> same_table y z -> same_table x z.
  Proof. intros H1 H2 k. rewrite (H1 k). apply H2. Qed.

  Lemma merge_root_spec b l r :
    snd (merge_root U b l r) = conflicts_b U b l r /\
    (conflicts_b U b l r = false -> same_table (fst (merge_root U b l r)) (overlay_tab U b l r)).
  Proof.
    unfold merge_root. destruct (table_eqb U l r) eqn:Heq.
    - apply (table_eqb_same U) in Heq. cbn [fst snd].
      assert (Hc : conflicts_b U b l r = false).
      { apply conflicts_b_intro. intros k. rewrite (Heq k).
        destruct (overlay_same_lr (get b k) (get r k)) as [_ H]. exact H. }
      split; [symmetry; exact Hc|]. intros _ k. rewrite (get_freeze U), (get_overlay U), (Heq k).
      destruct (overlay_same_lr (get b k) (get r k)) as [H _]. symmetry. exact H.
    - split; [apply (merge_tables_conflict U) | apply (merge_tables_overlay U)].
  Qed.

  Lemma head_merge_same Bh Ph Sm S2s :
    same_table Sm S2s -> conflicts_b U Bh Ph S2s = false ->
    same_table (if table_eqb U Ph Bh then Sm else fst (merge_tables U Bh Sm Ph)) (overlay_tab U Bh Ph S2s).
  Proof.
    intros HS Hcl. destruct (table_eqb U Ph Bh) eqn:Hh.
    - apply (table_eqb_same U) in Hh. intros k. rewrite (get_overlay U), (Hh k).
      destruct (overlay_same_base (get Bh k) (get S2s k)) as [H _]. rewrite H. apply HS.
    - assert (Hc2 : conflicts_b U Bh Sm Ph = false).
      { apply conflicts_b_intro. intros k'. rewrite row_conflict_sym, (HS k').
        exact (conflicts_b_false U _ _ _ Hcl k'). }
      intros k. rewrite (merge_tables_overlay U _ _ _ Hc2 k).
      rewrite (get_overlay U Bh Sm Ph k), (get_overlay U Bh Ph S2s k).
      rewrite (overlay_comm _ _ _ (conflicts_b_false U _ _ _ Hc2 k)), (HS k). reflexivity.
  Qed.

  (* ---------------------------------------------------------------- *)
  (* doCommit on the three roots refines the cell-wise spec *)
  Theorem do_commit3_refines_spec k P B S' W' :
    snd (do_commit3 U k P B S' W') = snd (fst (spec_commit3 U k P B S' W')) /\
    (snd (do_commit3 U k P B S' W') = false -> fst (do_commit3 U k P B S' W') = P) /\
    (snd (spec_commit3 U k P B S' W') = true ->
     same_roots (fst (do_commit3 U k P B S' W')) (fst (fst (spec_commit3 U k P B S' W')))).
  Proof.
    unfold do_commit3, spec_commit3.
    destruct (table_eqb U (r_work P) (r_work B) && table_eqb U (r_staged P) (r_staged B)) eqn:Hff.
    - (* ff *)
      apply andb_true_iff in Hff as [Hw Hs].
      apply (table_eqb_same U) in Hw, Hs.
      rewrite (ff_no_conflict U (r_work B) (r_work P) W' Hw), (ff_no_conflict U (r_staged B) (r_staged P) S' Hs).
      pose proof (ff_overlay U (r_work B) (r_work P) W' Hw) as HW.
      pose proof (ff_overlay U (r_staged B) (r_staged P) S' Hs) as HS.
      cbn [negb andb]. destruct k; cbn [fst snd].
      + split; [reflexivity|]. split; [discriminate|]. intros _. repeat split; try assumption; try apply same_table_refl.
      + split; [reflexivity|]. split; [discriminate|]. intros Hcl.
        apply negb_true_iff in Hcl.
        pose proof (head_merge_same (r_head B) (r_head P) (freeze U S') _ HS Hcl) as Hh.
        unfold same_roots; cbn [r_head r_staged r_work]. split; [exact Hh | split; [exact Hh | exact HW]].
    - (* merge *)
      destruct (merge_root_spec (r_work B) (r_work P) W') as [Hcw HW].
      destruct (merge_root_spec (r_staged B) (r_staged P) S') as [Hcs HS].
      destruct (merge_root U (r_work B) (r_work P) W') as [Wm cw].
      destruct (merge_root U (r_staged B) (r_staged P) S') as [Sm cs]. cbn [fst snd] in *. subst cw cs.
      destruct (conflicts_b U (r_work B) (r_work P) W') eqn:Hc1.
      + cbn [fst snd]. repeat split; try reflexivity; try apply same_table_refl.
      + specialize (HW eq_refl). destruct k; cbn [fst snd].
        * split; [reflexivity|]. split; [discriminate|]. intros Hcl. apply negb_true_iff in Hcl.
          unfold same_roots; cbn [r_head r_staged r_work]. split; [apply same_table_refl | split; [exact (HS Hcl) | exact HW]].
        * split; [reflexivity|]. split; [discriminate|]. intros Hcl.
          apply andb_true_iff in Hcl as [Hcl1 Hcl2]. apply negb_true_iff in Hcl1, Hcl2.
          specialize (HS Hcl1).
          pose proof (head_merge_same (r_head B) (r_head P) Sm _ HS Hcl2) as Hh.
          unfold same_roots; cbn [r_head r_staged r_work]. split; [exact Hh | split; [exact Hh | exact HW]].
  Qed.

  (* ---------------------------------------------------------------- *)
  (* one commit attempt, at the level of cells *)
  Definition commit_of3 (e : cevent3) : Prop :=
    (e3_after e, e3_ok e) = do_commit3 U (e3_kind e) (e3_before e) (e3_start e) (e3_S e) (e3_W e).
  (* the STAGED / HEAD merges of this attempt (not checked by the code) have no cell conflict *)
  Definition clean3 (e : cevent3) : Prop :=
    snd (spec_commit3 U (e3_kind e) (e3_before e) (e3_start e) (e3_S e) (e3_W e)) = true.
  (* what a dolt commit commits: the STAGED root after the working-set merge *)
  Definition committed (e : cevent3) : table :=
    overlay_tab U (r_staged (e3_start e)) (r_staged (e3_before e)) (e3_S e).

  Lemma ev_failed e : commit_of3 e -> e3_ok e = false -> e3_after e = e3_before e.
  Proof.
    unfold commit_of3. intros H Hok.
    destruct (do_commit3_refines_spec (e3_kind e) (e3_before e) (e3_start e) (e3_S e) (e3_W e)) as [_ [Hf _]].
    rewrite <- H in Hf. cbn [fst snd] in Hf. exact (Hf Hok).
  Qed.

  Lemma ev_ok e :
    commit_of3 e -> clean3 e -> e3_ok e = true ->
    same_table (r_work (e3_after e)) (overlay_tab U (r_work (e3_start e)) (r_work (e3_before e)) (e3_W e)) /\
    match e3_kind e with
    | KPlain => same_table (r_head (e3_after e)) (r_head (e3_before e)) /\
                same_table (r_staged (e3_after e)) (committed e) /\
                conflicts_b U (r_staged (e3_start e)) (r_staged (e3_before e)) (e3_S e) = false
    | KDolt => same_table (r_head (e3_after e)) (overlay_tab U (r_head (e3_start e)) (r_head (e3_before e)) (committed e)) /\
               same_table (r_staged (e3_after e)) (r_head (e3_after e)) /\
               conflicts_b U (r_head (e3_start e)) (r_head (e3_before e)) (committed e) = false
    end.
  Proof.
    unfold commit_of3, clean3, committed. intros H Hcl Hok.
    destruct (do_commit3_refines_spec (e3_kind e) (e3_before e) (e3_start e) (e3_S e) (e3_W e)) as [H1 [_ H3]].
    specialize (H3 Hcl). rewrite <- H in H1, H3. cbn [fst snd] in H1, H3. rewrite Hok in H1.
    unfold spec_commit3 in *.
    destruct (conflicts_b U (r_work (e3_start e)) (r_work (e3_before e)) (e3_W e)); [discriminate|].
    destruct (e3_kind e); cbn [fst snd] in *; destruct H3 as (Hh & Hs & Hw); cbn [r_head r_staged r_work] in *.
    - split; [exact Hw|]. split; [exact Hh|]. split; [exact Hs|]. apply negb_true_iff. exact Hcl.
    - apply andb_true_iff in Hcl as [_ Hc2]. apply negb_true_iff in Hc2.
      split; [exact Hw|]. split; [exact Hh|]. split; [|exact Hc2].
      intros k. rewrite (Hs k), (Hh k). reflexivity.
  Qed.

  (* HEAD changes only through an acknowledged dolt commit, only in cells where what it commits differs
     from the HEAD it started from, and only if that start HEAD had the value being replaced *)
  Lemma head_cell e k col :
    commit_of3 e -> clean3 e ->
    tcell (r_head (e3_after e)) k col <> tcell (r_head (e3_before e)) k col ->
    e3_ok e = true /\ e3_kind e = KDolt /\
    tcell (committed e) k col <> tcell (r_head (e3_start e)) k col /\
    tcell (r_head (e3_start e)) k col = tcell (r_head (e3_before e)) k col.
  Proof.
    intros H Hcl Hne. destruct (e3_ok e) eqn:Hok.
    - destruct (ev_ok e H Hcl Hok) as [_ Hk]. destruct (e3_kind e).
      + destruct Hk as [Hh _]. unfold Spec.tcell in Hne. rewrite (Hh k) in Hne. congruence.
      + destruct Hk as (Hh & _ & Hc). unfold Spec.tcell in *. rewrite (Hh k), (get_overlay U) in Hne.
        pose proof (conflicts_b_false U _ _ _ Hc k) as Hck.
        split; [reflexivity|]. split; [reflexivity|]. split.
        * exact (overlay_touches_only_own _ _ _ col Hck Hne).
        * exact (overlay_saw _ _ _ col Hck Hne).
    - rewrite (ev_failed e H Hok) in Hne. congruence.
  Qed.

  Lemma head_applies e k col :
    commit_of3 e -> clean3 e -> e3_ok e = true -> e3_kind e = KDolt ->
    tcell (committed e) k col <> tcell (r_head (e3_start e)) k col ->
    tcell (r_head (e3_after e)) k col = tcell (committed e) k col.
  Proof.
    intros H Hcl Hok Hk Hch. destruct (ev_ok e H Hcl Hok) as [_ Hx]. rewrite Hk in Hx.
    destruct Hx as (Hh & _ & Hc). unfold Spec.tcell in *. rewrite (Hh k), (get_overlay U).
    exact (overlay_applies_own _ _ _ col (conflicts_b_false U _ _ _ Hc k) Hch).
  Qed.

  (* a SQL COMMIT moves STAGED only in the cells the transaction itself staged (DOLT_ADD): whatever
     other clients staged or dolt-committed meanwhile stays; in particular STAGED does not fall
     behind HEAD through a commit that did not touch those cells *)
  Lemma staged_cell e k col :
    commit_of3 e -> clean3 e -> e3_kind e = KPlain ->
    tcell (r_staged (e3_after e)) k col <> tcell (r_staged (e3_before e)) k col ->
    e3_ok e = true /\ tcell (e3_S e) k col <> tcell (r_staged (e3_start e)) k col
    /\ tcell (r_staged (e3_start e)) k col = tcell (r_staged (e3_before e)) k col.
  Proof.
    intros H Hcl Hk Hne. destruct (e3_ok e) eqn:Hok.
    - destruct (ev_ok e H Hcl Hok) as [_ Hx]. rewrite Hk in Hx. destruct Hx as (_ & Hs & Hc).
      unfold Spec.tcell, committed in *. rewrite (Hs k), (get_overlay U) in Hne.
      pose proof (conflicts_b_false U _ _ _ Hc k) as Hck.
      split; [reflexivity|]. split.
      + exact (overlay_touches_only_own _ _ _ col Hck Hne).
      + exact (overlay_saw _ _ _ col Hck Hne).
    - rewrite (ev_failed e H Hok) in Hne. congruence.
  Qed.

  (* ---------------------------------------------------------------- *)
  (* the commit log of a run *)
  Fixpoint chain3 (P : roots) (log : list cevent3) : Prop :=
    match log with
    | [] => True
    | e :: l => e3_before e = P /\ commit_of3 e /\ chain3 (e3_after e) l
    end.
  Definition last_roots (P : roots) (log : list cevent3) : roots := fold_left (fun _ e => e3_after e) log P.

  Lemma commit3_spec cf k i s S' w ok e w' :
    commit3 cf k i s S' w = (ok, e, w') ->
    e3_before e = w3_p w /\ (e3_after e, e3_ok e) = cf (e3_kind e) (e3_before e) (e3_start e) (e3_S e) (e3_W e)
    /\ w3_p w' = e3_after e.
  Proof.
    unfold commit3. destruct (cf k (w3_p w) (t_start s) S' (t_work s)) as [P' ok'] eqn:Hcf.
    intros H. inversion H; subst. cbn. rewrite Hcf. repeat split; reflexivity.
  Qed.

  Lemma gstep3_event cf i st w o ev w' :
    gstep3 U cf i st w = (o, ev, w') ->
    match ev with
    | None => w3_p w' = w3_p w
    | Some e => e3_before e = w3_p w
                /\ (e3_after e, e3_ok e) = cf (e3_kind e) (e3_before e) (e3_start e) (e3_S e) (e3_W e)
                /\ w3_p w' = e3_after e
    end.
  Proof.
    unfold gstep3. intros H.
    destruct st as [st| |all|rk]; [destruct st|..];
      repeat match type of H with
             | context [commit3 ?c ?k ?j ?s ?S ?x] =>
               let Hc := fresh "Hc" in
               destruct (commit3 c k j s S x) as [[? ?] ?] eqn:Hc; apply commit3_spec in Hc;
               destruct Hc as (? & ? & ?)
             | context [exec_dml ?a ?b ?c] => destruct (exec_dml a b c) as [? ?]
             | context [if ?c then _ else _] => destruct c eqn:?
             end;
      inversion H; subst; clear H; cbn [w3_p] in *; try reflexivity;
      (split; [assumption | split; [assumption | try assumption; try reflexivity]]).
  Qed.

  Definition log3 (sched : list (N * stmt3)) (w : world3) : list cevent3 := snd (fst (run3 U sched w)).
  Definition final3 (sched : list (N * stmt3)) (w : world3) : roots := w3_p (snd (run3 U sched w)).

  Lemma run3_chain sched : forall w,
    chain3 (w3_p w) (log3 sched w) /\ final3 sched w = last_roots (w3_p w) (log3 sched w).
  Proof.
    unfold log3, final3, run3.
    induction sched as [|[i st] rest IH]; intros w; [split; [exact I | reflexivity]|].
    cbn [grun3].
    destruct (gstep3 U (do_commit3 U) i st w) as [[o ev] w1] eqn:Hs.
    specialize (IH w1). destruct (grun3 U (do_commit3 U) rest w1) as [[os evs] w2]. cbn [fst snd] in *.
    destruct IH as [Hc Hl]. apply gstep3_event in Hs. destruct ev as [e|].
    - destruct Hs as (Hb & Hcf & Hh). rewrite Hh in Hc, Hl.
      split; [cbn [chain3]; repeat split; assumption | cbn [last_roots fold_left]; exact Hl].
    - rewrite Hs in Hc, Hl. split; assumption.
  Qed.

  Lemma chain3_app P l1 l2 : chain3 P (l1 ++ l2) <-> chain3 P l1 /\ chain3 (last_roots P l1) l2.
  Proof.
    revert P. induction l1 as [|e l1 IH]; intros P; cbn [app chain3 last_roots fold_left]; [tauto|].
    rewrite IH. unfold last_roots. tauto.
  Qed.

  Lemma chain3_in P log e : chain3 P log -> In e log -> commit_of3 e.
  Proof.
    revert P. induction log as [|x l IH]; intros P Hc Hin; [destruct Hin|].
    destruct Hc as [_ [Hx Hl]]. destruct Hin as [->|Hin]; [exact Hx | exact (IH _ Hl Hin)].
  Qed.

  Lemma first_head_change l : forall P k col,
    chain3 P l -> Forall clean3 l ->
    tcell (r_head (last_roots P l)) k col <> tcell (r_head P) k col ->
    exists la e lb, l = la ++ e :: lb /\ e3_ok e = true /\ e3_kind e = KDolt
                    /\ tcell (committed e) k col <> tcell (r_head (e3_start e)) k col
                    /\ tcell (r_head (e3_start e)) k col = tcell (r_head P) k col.
  Proof.
    induction l as [|e l IH]; intros P k col Hc Hcl Hne; [cbn in Hne; congruence|].
    destruct Hc as [Hb [He Hl]]. inversion Hcl as [|? ? Hce Hcl']; subst.
    cbn [last_roots fold_left] in Hne. fold (last_roots (e3_after e) l) in Hne.
    destruct (ocell_eqb_spec (tcell (r_head (e3_after e)) k col) (tcell (r_head (e3_before e)) k col)) as [Heq|Hd].
    - rewrite <- Heq in Hne. destruct (IH _ k col Hl Hcl' Hne) as (la & e' & lb & Hl' & Hok & Hk & Hch & Hsaw).
      exists (e :: la), e', lb. rewrite Hl'. repeat split; try assumption. congruence.
    - destruct (head_cell e k col He Hce Hd) as (Hok & Hk & Hch & Hsaw).
      exists [], e, l. repeat split; assumption.
  Qed.

  (* ---------------------------------------------------------------- *)
  (* headline theorems: every schedule mixing SQL COMMIT, DOLT_ADD and DOLT_COMMIT *)

  (* No dolt-committed cell value leaves HEAD except through a later acknowledged dolt commit that
     changed that very cell and started from a HEAD that already had the value it replaces.
     Hypothesis [Forall clean3]: the STAGED / HEAD merges of the schedule have no cell conflict —
     the code does not check those merges (only the WORKING merge), see Staged.v. *)
  Theorem no_lost_head_write sched w l1 ei l2 ej l3 k col :
    log3 sched w = l1 ++ ei :: l2 ++ ej :: l3 -> Forall clean3 (log3 sched w) ->
    e3_ok ei = true -> e3_kind ei = KDolt ->
    tcell (committed ei) k col <> tcell (r_head (e3_start ei)) k col ->
    tcell (r_head (e3_after ei)) k col = tcell (committed ei) k col /\
    (tcell (r_head (e3_after ej)) k col <> tcell (committed ei) k col ->
     exists la e' lb, l2 ++ [ej] = la ++ e' :: lb /\ e3_ok e' = true /\ e3_kind e' = KDolt
                      /\ tcell (committed e') k col <> tcell (r_head (e3_start e')) k col
                      /\ tcell (r_head (e3_start e')) k col = tcell (committed ei) k col).
  Proof.
    intros Hlog Hcl Hok Hk Hch. destruct (run3_chain sched w) as [Hc _]. rewrite Hlog in Hc, Hcl.
    apply chain3_app in Hc as [_ Hc]. destruct Hc as [_ [Hei Hc]].
    apply Forall_app in Hcl as [_ Hcl]. inversion Hcl as [|? ? Hcei Hcl2]; subst.
    pose proof (head_applies ei k col Hei Hcei Hok Hk Hch) as Happ.
    split; [exact Happ|]. intros Hne.
    replace (l2 ++ ej :: l3) with ((l2 ++ [ej]) ++ l3) in Hc, Hcl2 by (rewrite <- app_assoc; reflexivity).
    apply chain3_app in Hc as [Hc _]. apply Forall_app in Hcl2 as [Hcl2 _].
    assert (last_roots (e3_after ei) (l2 ++ [ej]) = e3_after ej) as Hlast
      by (unfold last_roots; rewrite fold_left_app; reflexivity).
    rewrite <- Happ in *. rewrite <- Hlast in Hne.
    exact (first_head_change _ _ k col Hc Hcl2 Hne).
  Qed.

  (* STAGED never falls behind: an acknowledged SQL COMMIT changes STAGED only in cells the committing
     transaction staged itself, and only if it had seen the staged value it replaces *)
  Theorem staged_moves_only_where_staged sched w e k col :
    In e (log3 sched w) -> clean3 e -> e3_kind e = KPlain ->
    tcell (r_staged (e3_after e)) k col <> tcell (r_staged (e3_before e)) k col ->
    e3_ok e = true /\ tcell (e3_S e) k col <> tcell (r_staged (e3_start e)) k col
    /\ tcell (r_staged (e3_start e)) k col = tcell (r_staged (e3_before e)) k col.
  Proof.
    intros Hin. destruct (run3_chain sched w) as [Hc _]. apply staged_cell. exact (chain3_in _ _ _ Hc Hin).
  Qed.

  (* a SQL COMMIT never moves HEAD; a refused commit leaves all three roots untouched *)
  Theorem plain_commit_keeps_head sched w e :
    In e (log3 sched w) -> clean3 e -> e3_kind e = KPlain ->
    same_table (r_head (e3_after e)) (r_head (e3_before e)).
  Proof.
    intros Hin Hcl Hk. destruct (run3_chain sched w) as [Hc _]. pose proof (chain3_in _ _ _ Hc Hin) as He.
    destruct (e3_ok e) eqn:Hok.
    - destruct (ev_ok e He Hcl Hok) as [_ Hx]. rewrite Hk in Hx. exact (proj1 Hx).
    - rewrite (ev_failed e He Hok). apply same_table_refl.
  Qed.

  Theorem failed_commit3_no_trace sched w e :
    In e (log3 sched w) -> e3_ok e = false -> e3_after e = e3_before e.
  Proof.
    intros Hin. destruct (run3_chain sched w) as [Hc _]. apply ev_failed. exact (chain3_in _ _ _ Hc Hin).
  Qed.
End P.

(* non-vacuity: rows committed to the working set by SQL commits, B dolt-commits them (-am) while A is
   open on an older snapshot, A SQL-commits a row change: STAGED keeps what B committed *)
Example ex_roots :
  let U := [1; 2] in
  let sched := [(0, SBase (SInsert 2 (Some 1) (Some 1))); (0, SBase SCommit); (0, SBase SSelect); (1, SDoltCommit true);
                (0, SBase (SUpdate 1 0 (Some 2))); (0, SBase SCommit); (1, SDoltCommit false)] in
  let P := final3 U sched (world3_0 U [(1, Some 0, Some 0)]) in
  (dump U (r_head P), dump U (r_staged P), dump U (r_work P))
  = ([(1, Some 0, Some 0); (2, Some 1, Some 1)], [(1, Some 0, Some 0); (2, Some 1, Some 1)],
     [(1, Some 2, Some 0); (2, Some 1, Some 1)]).
Proof. vm_compute. reflexivity. Qed.
