(* C23 / C22 — Sql/Txn: executable model of dolt's SQL transactions over one
   table  t(pk, a, b).  No proofs in this file.

   Mirrors (go/libraries/doltcore/...):
     sqle/dsess/session.go       StartTransaction   : snapshot of the store root
     sqle/dsess/transactions.go  doCommit           : ff if persisted = start state, else mergeRoots
                                 mergeRoots         : merge.MergeRoots(ours := persisted working root,
                                                       theirs := the transaction's working root,
                                                       anc := working root at transaction start)
                                 validateWorkingSetForCommit : conflicts after a non-ff merge
                                                       => rollback + retryable serialization error
     store/prolly/tree/three_way_differ.go  Next (dsNewLeft / dsNewRight / dsMatch)
     merge/merge_prolly_rows.go  valueMerger.TryMerge / processBaseColumn / processColumn

   A table is a function key -> option row; only keys of the finite key
   universe [U] (a parameter: the keys a case talks about) are part of the
   table: every access goes through [get], statements on other keys are
   rejected (totalisation, error class 3). *)
From Coq Require Import NArith List Bool.
Import ListNotations.
Local Open Scope N_scope.

Definition cell := option N.                 (* None = SQL NULL *)
Definition row := (cell * cell)%type.        (* the non-key columns a, b *)
Definition table := N -> option row.

Definition cell_eqb (a b : cell) : bool :=
  match a, b with
  | None, None => true
  | Some x, Some y => x =? y
  | _, _ => false
  end.
Definition row_eqb (r s : row) : bool := cell_eqb (fst r) (fst s) && cell_eqb (snd r) (snd s).
Definition orow_eqb (a b : option row) : bool :=
  match a, b with
  | None, None => true
  | Some r, Some s => row_eqb r s
  | _, _ => false
  end.

(* error classes of a statement *)
Definition err_none : N := 0.
Definition err_retry : N := 1.       (* sql.ErrLockDeadlock / ErrRetryTransaction *)
Definition err_constraint : N := 2.  (* duplicate primary key ... *)
Definition err_other : N := 3.

Record sobs := { so_err : N; so_aff : N; so_rows : list (N * cell * cell) }.
Definition obs_ok : sobs := {| so_err := err_none; so_aff := 0; so_rows := [] |}.
Definition obs_aff (n : N) : sobs := {| so_err := err_none; so_aff := n; so_rows := [] |}.
Definition obs_rows (r : list (N * cell * cell)) : sobs := {| so_err := err_none; so_aff := 0; so_rows := r |}.
Definition obs_err (e : N) : sobs := {| so_err := e; so_aff := 0; so_rows := [] |}.

Inductive stmt :=
| SBegin | SCommit | SRollback
| SSelect
| SInsert (k : N) (a b : cell)
| SUpdate (k : N) (col : N) (v : cell)        (* UPDATE t SET col = v WHERE pk = k ; col 0 = a, else b *)
| SDelete (k : N)
| SUpdAdd (k : N) (col : N) (d : N)           (* UPDATE t SET col = col + d WHERE pk = k *)
| SSelectKey (k : N).

Definition getcol (col : N) (r : row) : cell := if col =? 0 then fst r else snd r.
Definition setcol (col : N) (v : cell) (r : row) : row := if col =? 0 then (v, snd r) else (fst r, v).
Definition addc (c : cell) (d : N) : cell := match c with None => None | Some x => Some (x + d) end.

(* ------------------------------------------------------------------ *)
(* Three-way merge of one key (ThreeWayDiffer.Next + valueMerger).     *)

Inductive mres := MKeep (r : option row) | MConflict.

(* processColumn, base row and base column exist *)
Definition merge_cell (b l r : cell) : option cell :=
  if cell_eqb l r then Some r
  else
    let rm := negb (cell_eqb r b) in
    let lm := negb (cell_eqb l b) in
    if lm && rm then None                     (* concurrent modification: conflict *)
    else if lm then Some l else Some r.

(* processColumn, base == nil : both sides inserted the row *)
Definition merge_cell_nobase (l r : cell) : option cell :=
  if cell_eqb l r then Some r else None.      (* conflicting inserts *)

Definition pair_cells (x y : option cell) : mres :=
  match x, y with
  | Some a, Some b => MKeep (Some (a, b))
  | _, _ => MConflict
  end.

Definition merge_key (b l r : option row) : mres :=
  let ld := negb (orow_eqb b l) in            (* key is in the diff base -> left *)
  let rd := negb (orow_eqb b r) in            (* key is in the diff base -> right *)
  if negb rd then MKeep l                     (* no right edit (dsNewLeft or untouched) *)
  else if negb ld then MKeep r                (* dsNewRight: the right edit is applied to left *)
  else                                        (* dsMatch *)
    match l, r with
    | None, None => MKeep None                (* convergent delete *)
    | None, Some rr =>                        (* divergent delete: TryMerge(nil, right, base) / processBaseColumn *)
      match b with
      | Some bb => if row_eqb rr bb then MKeep None else MConflict
      | None => MConflict
      end
    | Some lr, None =>
      match b with
      | Some bb => if row_eqb lr bb then MKeep None else MConflict
      | None => MConflict
      end
    | Some lr, Some rr =>
      if row_eqb lr rr then MKeep l           (* convergent edit *)
      else match b with
           | None => pair_cells (merge_cell_nobase (fst lr) (fst rr)) (merge_cell_nobase (snd lr) (snd rr))
           | Some bb => pair_cells (merge_cell (fst bb) (fst lr) (fst rr)) (merge_cell (snd bb) (snd lr) (snd rr))
           end
    end.

Definition is_conflict (m : mres) : bool := match m with MConflict => true | MKeep _ => false end.

Record sess := { s_auto : bool; s_active : bool; s_snap : table; s_work : table }.
Record world := { w_head : table; w_ss : N -> sess }.

(* one transaction-commit attempt, in commit order *)
Record cevent := { e_sess : N; e_snap : table; e_work : table; e_before : table; e_after : table; e_ok : bool }.

Definition upd {A} (f : N -> A) (i : N) (v : A) : N -> A := fun j => if j =? i then v else f j.

Section Universe.
  Variable U : list N.     (* sorted, duplicate free in the cases; the theorems need neither *)

  Definition inU (k : N) : bool := existsb (N.eqb k) U.
  Definition get (t : table) (k : N) : option row := if inU k then t k else None.
  Definition set (t : table) (k : N) (v : option row) : table := fun k' => if k' =? k then v else t k'.

  (* Materialise a table on U (a closure over a finite list): the same table for
     [get]; keeps evaluation cost linear in the length of a history. *)
  Fixpoint assoc (l : list (N * option row)) (k : N) : option row :=
    match l with
    | [] => None
    | (k', v) :: l' => if k =? k' then v else assoc l' k
    end.
  Definition freeze (t : table) : table :=
    let l := map (fun k => (k, get t k)) U in fun k => assoc l k.

  (* rootsEqual: equality of content hashes = equality of contents *)
  Definition table_eqb (x y : table) : bool := forallb (fun k => orow_eqb (get x k) (get y k)) U.

  Definition dump (t : table) : list (N * cell * cell) :=
    flat_map (fun k => match get t k with Some (a, b) => [(k, a, b)] | None => [] end) U.

  (* merge.MergeRoots on the single table: merged rows (left row kept where a
     conflict is recorded) and "has conflicts" *)
  Definition merge_tables (b l r : table) : table * bool :=
    (freeze (fun k => match merge_key (get b k) (get l k) (get r k) with MKeep x => x | MConflict => get l k end),
     existsb (fun k => is_conflict (merge_key (get b k) (get l k) (get r k))) U).

  (* doCommit under the commit lock.  h = persisted working set, s = start state, w = the transaction's *)
  Definition do_commit (h s w : table) : table * bool :=
    if table_eqb h s then (freeze w, true)                       (* ff merge: the transaction's table is installed *)
    else let '(m, c) := merge_tables s h w in
         if c then (h, false)                                    (* rollback, ErrRetryTransaction *)
         else (m, true).

  (* DML / reads on the transaction's working table *)
  Definition exec_dml (st : stmt) (t : table) : sobs * table :=
    match st with
    | SSelect => (obs_rows (dump t), t)
    | SSelectKey k =>
      if inU k then
        (obs_rows (match get t k with Some (a, b) => [(k, a, b)] | None => [] end), t)
      else (obs_err err_other, t)
    | SInsert k a b =>
      if inU k then
        match get t k with
        | Some _ => (obs_err err_constraint, t)                  (* duplicate primary key *)
        | None => (obs_aff 1, set t k (Some (a, b)))
        end
      else (obs_err err_other, t)
    | SUpdate k col v =>
      if inU k then
        match get t k with
        | None => (obs_aff 0, t)
        | Some r => let r' := setcol col v r in
                    if row_eqb r r' then (obs_aff 0, t) else (obs_aff 1, set t k (Some r'))
        end
      else (obs_err err_other, t)
    | SUpdAdd k col d =>
      if inU k then
        match get t k with
        | None => (obs_aff 0, t)
        | Some r => let r' := setcol col (addc (getcol col r) d) r in
                    if row_eqb r r' then (obs_aff 0, t) else (obs_aff 1, set t k (Some r'))
        end
      else (obs_err err_other, t)
    | SDelete k =>
      if inU k then
        match get t k with
        | None => (obs_aff 0, t)
        | Some _ => (obs_aff 1, set t k None)
        end
      else (obs_err err_other, t)
    | SBegin | SCommit | SRollback => (obs_ok, t)
    end.

  Definition s_begin (s : sess) (h : table) : sess :=
    {| s_auto := s_auto s; s_active := true; s_snap := h; s_work := h |}.
  Definition s_end (s : sess) : sess :=
    {| s_auto := s_auto s; s_active := false; s_snap := s_snap s; s_work := s_work s |}.
  Definition s_with_work (s : sess) (t : table) : sess :=
    {| s_auto := s_auto s; s_active := s_active s; s_snap := s_snap s; s_work := t |}.
  Definition ensure_txn (s : sess) (h : table) : sess := if s_active s then s else s_begin s h.

  (* The machine is generic in the commit function so that the oracle can run
     it with the implementation's commit outcomes (Corr.v). The model uses do_commit. *)
  Section Machine.
    Variable cf : table -> table -> table -> table * bool.   (* persisted, start, own -> new persisted, ok *)

    Definition commit_sess (i : N) (w : world) : bool * cevent * world :=
      let s := w_ss w i in
      let '(h', ok) := cf (w_head w) (s_snap s) (s_work s) in
      (ok,
       {| e_sess := i; e_snap := s_snap s; e_work := s_work s; e_before := w_head w; e_after := h'; e_ok := ok |},
       {| w_head := h'; w_ss := upd (w_ss w) i (s_end s) |}).

    Definition gstep (i : N) (st : stmt) (w : world) : sobs * option cevent * world :=
      let s := w_ss w i in
      match st with
      | SCommit =>
        if s_active s then
          let '(ok, e, w') := commit_sess i w in
          (if ok then obs_ok else obs_err err_retry, Some e, w')
        else (obs_ok, None, w)
      | SRollback => (obs_ok, None, {| w_head := w_head w; w_ss := upd (w_ss w) i (s_end s) |})
      | SBegin =>
        if s_active s then                       (* BEGIN inside a transaction commits it first *)
          let '(ok, e, w') := commit_sess i w in
          if ok then (obs_ok, Some e, {| w_head := w_head w'; w_ss := upd (w_ss w') i (s_begin s (w_head w')) |})
          else (obs_err err_retry, Some e, w')
        else (obs_ok, None, {| w_head := w_head w; w_ss := upd (w_ss w) i (s_begin s (w_head w)) |})
      | _ =>
        let implicit := negb (s_active s) in
        let s1 := ensure_txn s (w_head w) in
        let '(o, t') := exec_dml st (s_work s1) in
        let w1 := {| w_head := w_head w; w_ss := upd (w_ss w) i (s_with_work s1 t') |} in
        if implicit && s_auto s then             (* autocommit: the statement is its own transaction *)
          if so_err o =? err_none then
            let '(ok, e, w2) := commit_sess i w1 in
            (if ok then o else obs_err err_retry, Some e, w2)
          else                                   (* a failed statement is rolled back *)
            (o, None, {| w_head := w_head w; w_ss := upd (w_ss w) i (s_end s1) |})
        else (o, None, w1)
      end.

    Fixpoint grun (sched : list (N * stmt)) (w : world) : list sobs * list cevent * world :=
      match sched with
      | [] => ([], [], w)
      | (i, st) :: rest =>
        let '(o, ev, w1) := gstep i st w in
        let '(os, evs, w2) := grun rest w1 in
        (o :: os, match ev with Some e => e :: evs | None => evs end, w2)
      end.
  End Machine.

  Definition step := gstep do_commit.
  Definition run := grun do_commit.

  Definition table_of (rows : list (N * cell * cell)) : table :=
    fold_left (fun t r => let '(k, a, b) := r in set t k (Some (a, b))) rows (fun _ => None).

  Definition world0 (rows : list (N * cell * cell)) (autos : list N) : world :=
    let h := table_of rows in
    {| w_head := h;
       w_ss := fun i => {| s_auto := existsb (N.eqb i) autos; s_active := false; s_snap := h; s_work := h |} |}.
End Universe.
