(* C23 — Sql/Txn with the whole working set: the branch state is (HEAD, STAGED, WORKING) and
   transactions may CALL DOLT_ADD / DOLT_COMMIT while others are open.  Model and declarative
   spec; no proofs in this file.

   Mirrors (go/libraries/doltcore/sqle):
     dsess/session.go  StartTransaction: the session keeps the roots it started from (head root,
                       working set = staged + working); CommitTransaction -> commitWorkingSet
                       (plain COMMIT) / DoltCommit (dolt commit of a pending commit)
     dprocedures/dolt_add.go     '-A' : staged := working   (session-local until committed)
     dprocedures/dolt_commit.go  doDoltCommit: '-a' stages locally; NewPendingCommit(roots): nothing
                       staged (staged = the session's head root) => CommitTransaction, then the error
                       "nothing to commit"; else DoltSession.DoltCommit
     dsess/transactions.go doCommit: ff iff persisted WORKING and STAGED both equal the start state
                       (workingAndStagedEqual) => the transaction's working set is written as it is;
                       else mergeRoots: WORKING and STAGED are each three-way merged with the start
                       root as base, unless the persisted root already equals the transaction's
                       (rootsEqual); only conflicts of the WORKING merge are checked
                       (validateWorkingSetForCommit) => rollback + retryable error.
                       txCommit: UpdateWorkingSet(working, staged).
                       doltCommit: the commit's root is the (merged) STAGED root; if the branch HEAD
                       moved since the transaction began, HEAD's root is merged into it with the start
                       HEAD as base; HEAD := new commit, STAGED := that root, atomically with the working set.
   Abstracted: autocommit sessions (all sessions here run with autocommit off), the dirty flag (a
   COMMIT of an unchanged working set is a merge that changes nothing), commit metadata, amend. *)
From Coq Require Import NArith List Bool.
From Dolt Require Import C23.Model C23.Spec.
Import ListNotations.
Local Open Scope N_scope.

Record roots := { r_head : table; r_staged : table; r_work : table }.
Record sess3 := { t_active : bool; t_start : roots; t_staged : table; t_work : table }.
Record world3 := { w3_p : roots; w3_ss : N -> sess3 }.

Inductive stmt3 :=
| SBase (st : stmt)
| SAdd                          (* CALL DOLT_ADD('-A') *)
| SDoltCommit (all : bool)      (* CALL DOLT_COMMIT('-m', ..) / ('-a', '-m', ..) *)
| SReadAs (k : N).              (* 0: SELECT .. AS OF 'HEAD'   1: AS OF '<branch>'   2: `db/<branch>`.t   3: AS OF 'STAGED'
                                   (doltdb.go getHashFromCommitSpec resolves HEAD / the branch against the transaction's
                                   noms root: the HEAD root the transaction started from; the revision database and
                                   STAGED / WORKING are the session's own working set) *)

Inductive ckind := KPlain | KDolt.

(* one commit attempt *)
Record cevent3 := { e3_kind : ckind; e3_before : roots; e3_start : roots; e3_S : table; e3_W : table;
                    e3_after : roots; e3_ok : bool }.

Section Universe.
  Variable U : list N.

  (* mergeRoots on one root: skipped when the persisted root already is the transaction's *)
  Definition merge_root (b l r : table) : table * bool :=
    if table_eqb U l r then (freeze U r, false) else merge_tables U b l r.

  Definition do_commit3 (k : ckind) (P B : roots) (S' W' : table) : roots * bool :=
    let '(W2, S2, c) :=
        if table_eqb U (r_work P) (r_work B) && table_eqb U (r_staged P) (r_staged B)
        then (freeze U W', freeze U S', false)                       (* ff *)
        else let '(Wm, cw) := merge_root (r_work B) (r_work P) W' in
             let '(Sm, _) := merge_root (r_staged B) (r_staged P) S' in
             (Wm, Sm, cw) in
    if c then (P, false)                                             (* rollback, retryable error *)
    else match k with
         | KPlain => ({| r_head := r_head P; r_staged := S2; r_work := W2 |}, true)
         | KDolt =>
           let S3 := if table_eqb U (r_head P) (r_head B) then S2
                     else fst (merge_tables U (r_head B) S2 (r_head P)) in
           ({| r_head := S3; r_staged := S3; r_work := W2 |}, true)
         end.

  (* ---- the property, declaratively: every root takes the transaction's changes cell-wise ---- *)
  (* result, acknowledged, clean (no conflict in the STAGED / HEAD merges, which the code does not check) *)
  Definition spec_commit3 (k : ckind) (P B : roots) (S' W' : table) : roots * bool * bool :=
    if conflicts_b U (r_work B) (r_work P) W' then (P, false, true)
    else
      let W2 := overlay_tab U (r_work B) (r_work P) W' in
      let S2 := overlay_tab U (r_staged B) (r_staged P) S' in
      let cs := negb (conflicts_b U (r_staged B) (r_staged P) S') in
      match k with
      | KPlain => ({| r_head := r_head P; r_staged := S2; r_work := W2 |}, true, cs)
      | KDolt =>
        (* what the transaction commits (S2), relative to the HEAD it started from, merged into the current HEAD *)
        let H2 := overlay_tab U (r_head B) (r_head P) S2 in
        ({| r_head := H2; r_staged := H2; r_work := W2 |}, true,
         cs && negb (conflicts_b U (r_head B) (r_head P) S2))
      end.

  Definition s3_begin (P : roots) : sess3 :=
    {| t_active := true; t_start := P; t_staged := r_staged P; t_work := r_work P |}.
  Definition s3_end (s : sess3) : sess3 :=
    {| t_active := false; t_start := t_start s; t_staged := t_staged s; t_work := t_work s |}.
  Definition ensure3 (s : sess3) (P : roots) : sess3 := if t_active s then s else s3_begin P.

  Section Machine.
    (* generic in the commit function so that the oracle can run it with the implementation's outcomes *)
    Variable cf : ckind -> roots -> roots -> table -> table -> roots * bool.

    Definition commit3 (k : ckind) (i : N) (s : sess3) (S' : table) (w : world3) : bool * cevent3 * world3 :=
      let '(P', ok) := cf k (w3_p w) (t_start s) S' (t_work s) in
      (ok,
       {| e3_kind := k; e3_before := w3_p w; e3_start := t_start s; e3_S := S'; e3_W := t_work s;
          e3_after := P'; e3_ok := ok |},
       {| w3_p := P'; w3_ss := upd (w3_ss w) i (s3_end s) |}).

    Definition gstep3 (i : N) (st : stmt3) (w : world3) : sobs * option cevent3 * world3 :=
      let s := w3_ss w i in
      match st with
      | SBase SCommit =>
        if t_active s then
          let '(ok, e, w') := commit3 KPlain i s (t_staged s) w in
          (if ok then obs_ok else obs_err err_retry, Some e, w')
        else (obs_ok, None, w)
      | SBase SRollback => (obs_ok, None, {| w3_p := w3_p w; w3_ss := upd (w3_ss w) i (s3_end s) |})
      | SBase SBegin =>
        if t_active s then
          let '(ok, e, w') := commit3 KPlain i s (t_staged s) w in
          if ok then (obs_ok, Some e, {| w3_p := w3_p w'; w3_ss := upd (w3_ss w') i (s3_begin (w3_p w')) |})
          else (obs_err err_retry, Some e, w')
        else (obs_ok, None, {| w3_p := w3_p w; w3_ss := upd (w3_ss w) i (s3_begin (w3_p w)) |})
      | SBase dml =>
        let s1 := ensure3 s (w3_p w) in
        let '(o, t') := exec_dml U dml (t_work s1) in
        (o, None, {| w3_p := w3_p w;
                     w3_ss := upd (w3_ss w) i {| t_active := true; t_start := t_start s1; t_staged := t_staged s1; t_work := t' |} |})
      | SAdd =>
        let s1 := ensure3 s (w3_p w) in
        (obs_ok, None, {| w3_p := w3_p w;
                          w3_ss := upd (w3_ss w) i {| t_active := true; t_start := t_start s1; t_staged := t_work s1; t_work := t_work s1 |} |})
      | SReadAs k =>
        let s1 := ensure3 s (w3_p w) in
        let t := if k <? 2 then r_head (t_start s1) else if k =? 2 then t_work s1 else t_staged s1 in
        (obs_rows (dump U t), None,
         {| w3_p := w3_p w;
            w3_ss := upd (w3_ss w) i {| t_active := true; t_start := t_start s1; t_staged := t_staged s1; t_work := t_work s1 |} |})
      | SDoltCommit all =>
        let s1 := ensure3 s (w3_p w) in
        let S' := if all then t_work s1 else t_staged s1 in
        if table_eqb U S' (r_head (t_start s1)) then
          (* nothing staged: the transaction is committed as it is, then "nothing to commit" *)
          let '(ok, e, w') := commit3 KPlain i s1 (t_staged s1) w in
          (if ok then obs_err err_other else obs_err err_retry, Some e, w')
        else
          let '(ok, e, w') := commit3 KDolt i s1 S' w in
          (if ok then obs_ok else obs_err err_retry, Some e, w')
      end.

    Fixpoint grun3 (sched : list (N * stmt3)) (w : world3) : list (sobs * roots) * list cevent3 * world3 :=
      match sched with
      | [] => ([], [], w)
      | (i, st) :: rest =>
        let '(o, ev, w1) := gstep3 i st w in
        let '(os, evs, w2) := grun3 rest w1 in
        ((o, w3_p w1) :: os, match ev with Some e => e :: evs | None => evs end, w2)
      end.
  End Machine.

  Definition run3 := grun3 do_commit3.

  Definition world3_0 (rows : list (N * cell * cell)) : world3 :=
    let h := freeze U (table_of rows) in
    let P := {| r_head := h; r_staged := h; r_work := h |} in
    {| w3_p := P; w3_ss := fun _ => {| t_active := false; t_start := P; t_staged := h; t_work := h |} |}.
End Universe.
