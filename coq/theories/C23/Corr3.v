(* C23 — correspondence for schedules with DOLT_ADD / DOLT_COMMIT: the branch's HEAD, STAGED and
   WORKING tables are read by an independent session after every statement. *)
From Coq Require Import NArith List Bool.
From Dolt Require Import C23.Model C23.Spec C23.Corr C23.Staged.
Import ListNotations.
Local Open Scope N_scope.

Definition rows := list (N * cell * cell).
Record input3 := { j_U : list N; j_init : rows; j_sched : list (N * stmt3) }.
(* per statement: result, HEAD, STAGED, WORKING *)
Record obs3 := { o3_steps : list (sobs * rows * rows * rows) }.
Definition case3 := (input3 * obs3)%type.

Definition model_obs3 (i : input3) : obs3 :=
  let U := j_U i in
  {| o3_steps := map (fun x => let '(o, P) := x in (o, dump U (r_head P), dump U (r_staged P), dump U (r_work P)))
                     (fst (fst (run3 U (j_sched i) (world3_0 U (j_init i))))) |}.

Fixpoint steps3_eqb (x y : list (sobs * rows * rows * rows)) : bool :=
  match x, y with
  | [], [] => true
  | (o, h, s, w) :: x', (o', h', s', w') :: y' =>
    sobs_eqb o o' && rows_eqb h h' && rows_eqb s s' && rows_eqb w w' && steps3_eqb x' y'
  | _, _ => false
  end.
Definition obs3_eqb (x y : obs3) : bool := steps3_eqb (o3_steps x) (o3_steps y).

(* The property on the implementation's observations.  The session machine runs with the
   implementation's commit outcomes; an acknowledged commit must take the transaction's changes
   cell-wise into each root (Staged.spec_commit3): WORKING and STAGED get the transaction's own
   changes and nothing else, a dolt commit puts what it commits into HEAD merged with whatever was
   committed to HEAD meanwhile; a refused commit leaves the branch as it was; a conflicting one must
   be refused with the retryable error.  After every statement HEAD, STAGED and WORKING read by an
   independent session must be exactly that — so no committed row leaves HEAD and STAGED never falls
   behind HEAD except through a transaction that changed those very cells.  Judging stops at the first
   commit whose STAGED / HEAD merge has a cell conflict (the code does not check those). *)
Fixpoint orun3 (U : list N) (sched : list (N * stmt3)) (os : list (sobs * rows * rows * rows)) (w : world3) : bool :=
  match sched, os with
  | [], [] => true
  | (i, st) :: sched', (o, h, s, wk) :: os' =>
    let acked := (so_err o =? err_none) || (so_err o =? err_other) in
    let cf := fun k P B S' W' => if acked then (fst (fst (spec_commit3 U k P B S' W')), true) else (P, false) in
    let '(_, ev, w') := gstep3 U cf i st w in
    let '(okc, clean) :=
        match ev with
        | None => (true, true)
        | Some e =>
          let '(_, ack', cl) := spec_commit3 U (e3_kind e) (e3_before e) (e3_start e) (e3_S e) (e3_W e) in
          ((if ack' then true else so_err o =? err_retry), if acked then cl else true)
        end in
    if clean then
      okc && rows_eqb h (dump U (r_head (w3_p w'))) && rows_eqb s (dump U (r_staged (w3_p w')))
      && rows_eqb wk (dump U (r_work (w3_p w'))) && orun3 U sched' os' w'
    else okc
  | _, _ => false
  end.

Definition oracle3 (i : input3) (o : obs3) : bool :=
  orun3 (j_U i) (j_sched i) (o3_steps o) (world3_0 (j_U i) (j_init i)).

Definition check_case3 (c : case3) : N :=
  (if obs3_eqb (model_obs3 (fst c)) (snd c) then 0 else 1)
  + (if oracle3 (fst c) (snd c) then 0 else 2).

(* both kinds of C23 cases *)
Inductive acase := A1 (c : C23.Corr.case) | A3 (c : case3).
Definition check_any (c : acase) : N :=
  match c with A1 c => C23.Corr.check_case c | A3 c => check_case3 c end.
