(* C42 — NBS on a blobstore: executable model.  No proofs here.

   A NomsBlockStore's commit logic (go/store/nbs/store.go: Commit / updateManifest /
   handleOptimisticLockFailure / rebase) is written ONCE, over an abstract manifest
   store (state type T, [rd] = ParseIfExists, [upd] = manifest.Update(lastLock,
   newContents)), and instantiated twice:
     - local_*: fileManifest (file_manifest.go): compare-and-replace under the LOCK file;
     - bs_*   : blobstoreManifest (bs_manifest.go updateBSWithChecker): read (version,
                contents) of the manifest blob, and if contents.lock == lastLock then
                CheckAndPutManifest(version, serialised new contents) — the CAS of
                C42.Model.step — re-reading the blob when the CAS loses.
   Manifest contents are (root, chunks reachable through the named tables); the table
   grouping, table-file persistence and the memtable are C02's subject and are
   abstracted: a chunk is visible to a fresh open iff it is listed by the manifest.
   The manifest lock is a function of the contents (SHA-512 of root and table names);
   the model compares contents ([lock_eqb]: same root, same chunk set). *)
From Coq Require Import NArith ZArith List Bool.
From Dolt Require Import Base.Str C42.Model.
Import ListNotations.
Local Open Scope N_scope.

Definition mc := (N * list N)%type.            (* manifestContents: root, chunks *)
Definition empty_mc : mc := (0, []).           (* manifestContents{} : no manifest yet *)

Definition mem_n (x : N) (l : list N) : bool := existsb (N.eqb x) l.
Definition subset_n (a b : list N) : bool := forallb (fun x => mem_n x b) a.
Definition lock_eqb (a b : mc) : bool :=
  (fst a =? fst b) && subset_n (snd a) (snd b) && subset_n (snd b) (snd a).

(* writeManifest / parseManifest on the manifest blob (never empty when written) *)
Definition ser (c : mc) : bytes := fst c :: snd c.
Definition parse (b : bytes) : mc := match b with [] => empty_mc | r :: l => (r, l) end.

(* ---- the two manifest stores ------------------------------------------------ *)
(* fileManifest: None = no manifest file *)
Definition local_rd (d : option mc) : mc := match d with Some c => c | None => empty_mc end.
Definition local_upd (d : option mc) (last new : mc) (fresh : N) : option mc * mc :=
  if lock_eqb (local_rd d) last then (Some new, new) else (d, local_rd d).

(* blobstoreManifest over a blobstore of backend b; [fresh] = the version the
   blobstore generates for the write *)
Definition bs_rd (s : store) : mc :=
  match s manifest_key with Some (_, d) => parse d | None => empty_mc end.
Definition bs_upd (b : backend) (s : store) (last new : mc) (fresh : N) : store * mc :=
  let ver := cur_ver s manifest_key in          (* manifestVersionAndContents *)
  let contents := bs_rd s in
  if lock_eqb contents last then
    match step b s (OCap ver (ser new) fresh) with
    | (s', RVer _) => (s', new)
    | (s', _) => (s', bs_rd s')                  (* CAS lost: re-read *)
    end
  else (s, contents).

(* ---- the NomsBlockStore client over an abstract manifest store --------------- *)
Record ncl := { n_up : mc; n_novel : list N }.   (* upstream contents; chunks put and not yet committed *)

Inductive nop :=
| NPut (x : N)
| NRebase
| NCommit (cur : N) (last : option N) (f1 f2 : N).   (* last = None: the caller's Root(); f1, f2: blob versions of the (at most two) manifest writes *)

Section Machine.
  Variable T : Type.
  Variable rd : T -> mc.
  Variable upd : T -> mc -> mc -> N -> T * mc.

  (* one updateManifest call; Some code = Commit returns, None = retry *)
  Definition commit_try (m : T) (cl : ncl) (cur last fresh : N) : T * ncl * option N :=
    if negb (fst (n_up cl) =? last) then (m, cl, Some 1)                      (* errLastRootMismatch *)
    else if negb (cur =? 0) && negb (mem_n cur (n_novel cl ++ snd (n_up cl)))
    then (m, cl, Some 2)                                                       (* errorIfDangling *)
    else
      let new : mc := (cur, n_novel cl ++ snd (n_up cl)) in
      let '(m', ret) := upd m (n_up cl) new fresh in
      if lock_eqb new ret then (m', {| n_up := new; n_novel := [] |}, Some 0)
      else
        let cl2 := {| n_up := ret; n_novel := n_novel cl |} in              (* handleOptimisticLockFailure: rebase *)
        if negb (last =? fst ret) then (m', cl2, Some 1) else (m', cl2, None).

  (* Commit(current, last) at API granularity (no other client runs inside it): the
     retry after a lost optimistic lock with an unchanged root happens at most once *)
  Definition commit_loop (m : T) (cl : ncl) (cur last f1 f2 : N) : T * ncl * N :=
    match commit_try m cl cur last f1 with
    | (m', cl', Some r) => (m', cl', r)
    | (m', cl', None) =>
      match commit_try m' cl' cur last f2 with
      | (m'', cl'', Some r) => (m'', cl'', r)
      | (m'', cl'', None) => (m'', cl'', 3)          (* not reachable at API granularity *)
      end
    end.

  Definition commit (m : T) (cl : ncl) (cur last f1 f2 : N) : T * ncl * N :=
    if (match n_novel cl with [] => true | _ => false end) && (cur =? last)
    then (m, {| n_up := rd m; n_novel := [] |}, 0)    (* nothing novel, current == last: rebase, true *)
    else commit_loop m cl cur last f1 f2.

  Definition nstep (m : T) (cl : ncl) (o : nop) : T * ncl * N :=
    match o with
    | NPut x => (m, {| n_up := n_up cl; n_novel := n_novel cl ++ [x] |}, 0)
    | NRebase => (m, {| n_up := rd m; n_novel := n_novel cl |}, 0)
    | NCommit cur last f1 f2 =>
      commit m cl cur (match last with Some l => l | None => fst (n_up cl) end) f1 f2
    end.

  Fixpoint set_nth (i : nat) (c : ncl) (l : list ncl) : list ncl :=
    match l, i with
    | [], _ => []
    | _ :: t, O => c :: t
    | h :: t, S j => h :: set_nth j c t
    end.

  (* observation of a step: result code, the caller's Root(), the persisted contents *)
  Fixpoint nrun (m : T) (cls : list ncl) (sch : list (nat * nop)) : list (N * N * mc) :=
    match sch with
    | [] => []
    | (i, o) :: rest =>
      match nth_error cls i with
      | None => nrun m cls rest
      | Some cl =>
        let '(m', cl', r) := nstep m cl o in
        (r, fst (n_up cl'), rd m') :: nrun m' (set_nth i cl' cls) rest
      end
    end.
End Machine.

Definition new_client : ncl := {| n_up := empty_mc; n_novel := [] |}.
Definition init_clients (n : nat) : list ncl := repeat new_client n.

Definition nrun_local (n : nat) (sch : list (nat * nop)) : list (N * N * mc) :=
  nrun (option mc) local_rd local_upd None (init_clients n) sch.
Definition nrun_bs (b : backend) (n : nat) (sch : list (nat * nop)) : list (N * N * mc) :=
  nrun store bs_rd (bs_upd b) empty_store (init_clients n) sch.
