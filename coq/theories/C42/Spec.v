(* C42 — declarative specification, independent of how the backends compute:
   (1) the requested window of a blob for a BlobRange (offset, length);
   (2) a sequential compare-and-swap register over versions for the manifest key;
   (3) the per-operation statement of the property on an observed result
       (boolean, used as oracle on what the implementation returned). *)
From Coq Require Import NArith ZArith List Bool.
From Dolt Require Import Base.Str C42.Model.
Import ListNotations.
Local Open Scope Z_scope.

(* ---- (1) ranges ------------------------------------------------------- *)
(* A BlobRange (off, len), len >= 0, denotes the window [a, e) of a blob of
   [size] bytes where a = off (off >= 0) or size + off (off < 0: suffix range),
   and e = size when len = 0 ("to the end"), a + len otherwise.  The requested
   bytes are the part of the blob inside the window. *)
Definition win_start (size off : Z) : Z := if off <? 0 then size + off else off.

Definition spec_slice (blob : bytes) (off len : Z) : bytes :=
  let a := win_start (zlen blob) off in
  let d := skipn (Z.to_nat a) blob in
  if len =? 0 then d else firstn (Z.to_nat (a + len) - Z.to_nat a)%nat d.

(* the window starts inside the blob (or at its end) *)
Definition in_range (size off : Z) : bool := (- size <=? off) && (off <=? size).

(* statement for one ranged read of an existing blob (val, ver):
   an in-range request must be served with exactly the window, the blob size
   and the blob's version; a request whose window starts outside the blob may
   instead be rejected (error / panic) — but never answered with other bytes. *)
Definition get_ok (val : bytes) (ver : N) (off len : Z) (r : res) : bool :=
  match r with
  | RBytes b sz v => beq_bytes b (spec_slice val off len) && N.eqb sz (N.of_nat (length val)) && N.eqb v ver
  | RErr | RPanic => negb (in_range (zlen val) off)
  | _ => false
  end.

(* ---- (2) CAS register over versions ----------------------------------- *)
(* register state: None = no manifest; Some (version, contents) *)
Definition reg := option (N * bytes).
Definition reg_ver (r : reg) : N := match r with Some (v, _) => v | None => 0%N end.

(* legal sequential history of the manifest register; operations on other keys
   do not touch it.  Ranged reads only expose the version (contents of a full
   read must be the register's contents). *)
Inductive legal : reg -> list (op * res) -> Prop :=
| L_nil : forall r, legal r []
| L_other_key : forall r o x h,
    match o with OGet k _ _ | OPut k _ _ | OCat k _ _ => k <> manifest_key | OCap _ _ _ => False end ->
    legal r h -> legal r ((o, x) :: h)
| L_cas_win : forall r e d f h,
    e = reg_ver r -> legal (Some (f, d)) h -> legal r ((OCap e d f, RVer f) :: h)
| L_cas_lose : forall r e d f h,
    e <> reg_ver r -> legal r h -> legal r ((OCap e d f, RCasFail (reg_ver r)) :: h)
| L_write : forall r d f h,
    legal (Some (f, d)) h -> legal r ((OPut manifest_key d f, RVer f) :: h)
| L_concat : forall r srcs d f h,
    legal (Some (f, d)) h -> legal r ((OCat manifest_key srcs f, RVer f) :: h)
| L_concat_err : forall r srcs f h,
    legal r h -> legal r ((OCat manifest_key srcs f, RErr) :: h)
| L_read : forall v d off len b sz h,
    (off = 0 -> len = 0 -> b = d) ->
    legal (Some (v, d)) h -> legal (Some (v, d)) ((OGet manifest_key off len, RBytes b sz v) :: h)
| L_read_absent : forall off len h,
    0 <= len -> legal None h -> legal None ((OGet manifest_key off len, RNotFound) :: h)
| L_read_rejected : forall r off len x h,
    x = RErr \/ x = RPanic -> legal r h -> legal r ((OGet manifest_key off len, x) :: h).

(* versions produced by successful writes of the manifest key, in order *)
Definition man_write (e : op * res) : option N :=
  match e with
  | (OPut k _ _, RVer f) | (OCat k _ _, RVer f) => if N.eqb k manifest_key then Some f else None
  | (OCap _ _ _, RVer f) => Some f
  | _ => None
  end.
Fixpoint man_writes (h : list (op * res)) : list N :=
  match h with
  | [] => []
  | e :: t => match man_write e with Some f => f :: man_writes t | None => man_writes t end
  end.

(* expected versions of the successful conditional writes, in order *)
Fixpoint cap_wins (h : list (op * res)) : list N :=
  match h with
  | [] => []
  | (OCap e _ _, RVer _) :: t => e :: cap_wins t
  | _ :: t => cap_wins t
  end.

Fixpoint mem_N (x : N) (l : list N) : bool :=
  match l with [] => false | y :: t => N.eqb x y || mem_N x t end.
Fixpoint nodup_N (l : list N) : bool :=
  match l with [] => true | x :: t => negb (mem_N x t) && nodup_N t end.

(* "exactly one winner per expected version", order-independent *)
Definition winners_ok (h : list (op * res)) : bool := nodup_N (cap_wins h).

(* ---- (3) the property on one observed step ------------------------------ *)
(* [spec_step s o r] = Some s' : result r is what the property allows for
   operation o in (abstract) state s, and s' is the state afterwards;
   None : r violates the property. *)
Definition expect_ver (r : res) (f : N) : bool :=
  match r with RVer f' => N.eqb f' f | _ => false end.

Definition spec_step (s : store) (o : op) (r : res) : option store :=
  match o with
  | OGet k off len =>
    if len <? 0 then (match r with RPanic | RErr => Some s | _ => None end)   (* not a BlobRange *)
    else match s k with
         | None => match r with RNotFound => Some s | _ => None end
         | Some (v, val) => if get_ok val v off len r then Some s else None
         end
  | OPut k d f => if expect_ver r f then Some (upd s k (f, d)) else None
  | OCap e d f =>
    if N.eqb e (cur_ver s manifest_key)
    then (if expect_ver r f then Some (upd s manifest_key (f, d)) else None)
    else match r with
         | RCasFail a => if N.eqb a (cur_ver s manifest_key) then Some s else None
         | _ => None
         end
  | OCat k srcs f =>
    if forallb (present s) srcs
    then (if expect_ver r f then Some (upd s k (f, concat_blobs s srcs)) else None)
    else match r with                         (* a source is missing: the property text is silent;   *)
         | RErr => Some s                      (* rejected, nothing changes (local), or               *)
         | RVer f' => if N.eqb f' f then Some (upd s k (f, concat_blobs s srcs)) else None
                                               (* the missing source counted as empty (in-memory)     *)
         | _ => None
         end
  end.

Fixpoint spec_trace (s : store) (h : list (op * res)) : bool :=
  match h with
  | [] => true
  | (o, r) :: t => match spec_step s o r with Some s' => spec_trace s' t | None => false end
  end.

(* ---- versions_distinct, measured -------------------------------------- *)
(* every successful write of key k got a version that is not the empty one and
   differs from all earlier versions of that key *)
Definition written_key (o : op) : N :=
  match o with OPut k _ _ | OCat k _ _ => k | OCap _ _ _ => manifest_key | OGet k _ _ => k end.
Fixpoint mem_NN (x : N * N) (l : list (N * N)) : bool :=
  match l with [] => false | y :: t => (N.eqb (fst x) (fst y) && N.eqb (snd x) (snd y)) || mem_NN x t end.
Definition write_of (e : op * res) : option (N * N) :=
  match e with
  | (OGet _ _ _, _) => None
  | (o, RVer f) => Some (written_key o, f)
  | _ => None
  end.
Fixpoint fresh_trace (used : list (N * N)) (h : list (op * res)) : bool :=
  match h with
  | [] => true
  | e :: t =>
    match write_of e with
    | Some kf => negb (N.eqb (snd kf) 0) && negb (mem_NN kf used) && fresh_trace (kf :: used) t
    | None => fresh_trace used t
    end
  end.

(* versions_distinct, as hypothesis of the theorems about the manifest key:
   the version before the history and the versions produced by the successful
   manifest writes of the history are pairwise different *)
Definition versions_distinct (s : store) (h : list (op * res)) : Prop :=
  NoDup (cur_ver s manifest_key :: man_writes h).
