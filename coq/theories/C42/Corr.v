(* C42 — correspondence: model observation, comparison with the implementation's
   observation, and the executable statement of the property (oracle) evaluated
   on the implementation's observation.  Depends on Model/Spec only. *)
From Coq Require Import NArith ZArith List Bool.
From Dolt Require Import Base.Str C42.Model C42.Spec.
Import ListNotations.
Local Open Scope N_scope.

(* input: backend and the schedule (client, atomic step) in execution order, from
   the empty store.  The fresh versions inside the write operations and the
   order of the concurrently executed steps are reported by the implementation
   (incidental choices: version generator, lock acquisition order). *)
Definition input := (backend * schedule)%type.
Definition obs := list res.                 (* one result per step, same order *)
Definition case := (input * obs)%type.

Definition model_obs (i : input) : obs :=
  map snd (sched_trace (fst i) empty_store (snd i)).

Definition res_eqb (a b : res) : bool :=
  match a, b with
  | RBytes x s v, RBytes y t w => beq_bytes x y && (s =? t) && (v =? w)
  | RNotFound, RNotFound => true
  | RVer v, RVer w => v =? w
  | RCasFail v, RCasFail w => v =? w
  | RErr, RErr => true
  | RPanic, RPanic => true
  | _, _ => false
  end.

Fixpoint obs_eqb (a b : obs) : bool :=
  match a, b with
  | [], [] => true
  | x :: a', y :: b' => res_eqb x y && obs_eqb a' b'
  | _, _ => false
  end.

(* The property, as a predicate on what the implementation returned:
   - every step's result is allowed by the sequential specification
     (CheckAndPut succeeds iff expected = stored version and then installs the
     contents, a failed one reports the stored version and changes nothing;
     every ranged read returns exactly the requested window, size and version;
     Concatenate stores the concatenation), in the given linearisation order;
   - order-independently: no two successful conditional writes share their
     expected version (exactly one winner per expected version);
   - versions_distinct as measured: every write got a new, non-empty version. *)
Definition oracle (i : input) (o : obs) : bool :=
  let ops := map snd (snd i) in
  let h := combine ops o in
  Nat.eqb (length o) (length ops)
  && spec_trace empty_store h
  && winners_ok h
  && fresh_trace [] h.

Definition check_case (c : case) : N :=
  (if obs_eqb (model_obs (fst c)) (snd c) then 0 else 1)
  + (if oracle (fst c) (snd c) then 0 else 2).
