(* C42 — correspondence: model observation, comparison with the implementation's
   observation, and the executable statement of the property (oracle) evaluated
   on the implementation's observation.  Depends on Model/Spec only. *)
From Coq Require Import NArith ZArith List Bool.
From Dolt Require Import Base.Str C42.Model C42.Spec C42.NbsModel C42.GitModel.
Import ListNotations.
Local Open Scope N_scope.

(* input: backend and the schedule (client, atomic step) in execution order, from
   the empty store.  The fresh versions inside the write operations and the
   order of the concurrently executed steps are reported by the implementation
   (incidental choices: version generator, lock acquisition order). *)
Inductive input :=
| IBlob (b : backend) (sch : schedule)                       (* blobstore API case *)
| INbs (n : nat) (univ : list N) (ops : list (nat * nop))    (* NBS-on-blobstore case: clients, chunk universe, history *)
| IGit (sch : schedule)                                      (* two GitBlobstore clients of one remote, manifest key, linearised *)
| IStress (b : backend) (sch : schedule).                    (* the writer's CheckAndPut sequence of a reader/writer stress run *)

(* NBS case, per step: result code, caller's Root(), persisted root, a fresh open's Root()
   and the chunks of the universe it Has *)
Record nobs := { no_res : N; no_croot : N; no_droot : N; no_froot : N; no_fhas : list N }.

Inductive obs :=
| OBlob (l : list res)                                       (* one result per step, same order *)
| ONbs (bsinmem bslocal local : list nobs)                   (* the same history on the three stores *)
| OStress (writer : list res) (seen : list (N * bytes)).     (* writer results; distinct (version, contents) pairs the readers got *)
Definition case := (input * obs)%type.

Definition blob_model (b : backend) (sch : schedule) : list res :=
  map snd (sched_trace b empty_store sch).

Definition to_nobs (univ : list N) (o : N * N * mc) : nobs :=
  let '(r, croot, m) := o in
  {| no_res := r; no_croot := croot; no_droot := fst m; no_froot := fst m;
     no_fhas := filter (fun x => mem_n x (snd m)) univ |}.

(* (version, contents) pairs installed by the successful manifest writes of a history *)
Fixpoint written_pairs (h : list (op * res)) : list (N * bytes) :=
  match h with
  | [] => []
  | (OCap _ d _, RVer f) :: t => (f, d) :: written_pairs t
  | (OPut k d _, RVer f) :: t => if N.eqb k manifest_key then (f, d) :: written_pairs t else written_pairs t
  | _ :: t => written_pairs t
  end.

Definition mem_pair (p : N * bytes) (l : list (N * bytes)) : bool :=
  existsb (fun q => (fst p =? fst q) && beq_bytes (snd p) (snd q)) l.

(* Get returns the (version, contents) of ONE store state: every pair a reader
   obtained is a pair some manifest write installed *)
Definition get_pair_consistent (written seen : list (N * bytes)) : bool :=
  forallb (fun p => mem_pair p written) seen.

Definition model_obs (i : input) : obs :=
  match i with
  | IBlob b sch => OBlob (blob_model b sch)
  | IGit sch => OBlob (map snd (git_trace empty_store (map snd sch)))
  | IStress b sch => OStress (blob_model b sch) (written_pairs (sched_trace b empty_store sch))
  | INbs n univ ops =>
    ONbs (map (to_nobs univ) (nrun_bs InMem n ops)) (map (to_nobs univ) (nrun_bs Local n ops))
         (map (to_nobs univ) (nrun_local n ops))
  end.

Definition res_eqb (a b : res) : bool :=
  match a, b with
  | RBytes x s v, RBytes y t w => beq_bytes x y && (s =? t) && (v =? w)
  | RNotFound, RNotFound => true
  | RVer v, RVer w => v =? w
  | RCasFail v, RCasFail w => v =? w
  | RErr, RErr => true
  | RPanic, RPanic => true
  | _, _ => false
  end.

Fixpoint list_eqb {A} (eqb : A -> A -> bool) (a b : list A) : bool :=
  match a, b with
  | [], [] => true
  | x :: a', y :: b' => eqb x y && list_eqb eqb a' b'
  | _, _ => false
  end.

Definition nobs_eqb (a b : nobs) : bool :=
  (no_res a =? no_res b) && (no_croot a =? no_croot b) && (no_droot a =? no_droot b)
  && (no_froot a =? no_froot b) && beq_bytes (no_fhas a) (no_fhas b).

Definition obs_eqb (a b : obs) : bool :=
  match a, b with
  | OBlob x, OBlob y => list_eqb res_eqb x y
  | ONbs a1 a2 a3, ONbs b1 b2 b3 => list_eqb nobs_eqb a1 b1 && list_eqb nobs_eqb a2 b2 && list_eqb nobs_eqb a3 b3
  | OStress w1 p1, OStress w2 p2 =>
    (* first argument = model: which pairs the readers catch is scheduling; what is compared is
       the writer's results and that the implementation's pairs are among the model's states *)
    list_eqb res_eqb w1 w2 && get_pair_consistent p1 p2
  | _, _ => false
  end.

(* The property, as a predicate on what the implementation returned.
   Blobstore API case:
   - every step's result is allowed by the sequential specification
     (CheckAndPut succeeds iff expected = stored version and then installs the
     contents, a failed one reports the stored version and changes nothing;
     every ranged read returns exactly the requested window, size and version;
     Concatenate stores the concatenation), in the given linearisation order;
   - order-independently: no two successful conditional writes share their
     expected version (exactly one winner per expected version);
   - versions_distinct as measured: every write got a new, non-empty version.
   NBS case: "a database stored on a blobstore offers the same root and chunk
   semantics as a local one": the blobstore-backed stores' observations equal
   the local directory store's, step by step. *)
Definition blob_oracle (sch : schedule) (o : list res) : bool :=
  let ops := map snd sch in
  let h := combine ops o in
  Nat.eqb (length o) (length ops)
  && spec_trace empty_store h
  && winners_ok h
  && fresh_trace [] h.

(* git: versions are object ids: a version is never empty, and two writes got the same
   version iff they wrote the same contents (instead of freshness; A-B-A on contents
   legitimately brings a version back, so winners are not required to be distinct) *)
Fixpoint ver_content_ok (l : list (N * bytes)) : bool :=
  match l with
  | [] => true
  | p :: t => negb (fst p =? 0)
              && forallb (fun q => Bool.eqb (fst p =? fst q) (beq_bytes (snd p) (snd q))) t
              && ver_content_ok t
  end.

Definition git_oracle (sch : schedule) (o : list res) : bool :=
  let ops := map snd sch in
  let h := combine ops o in
  Nat.eqb (length o) (length ops) && spec_trace empty_store h && ver_content_ok (written_pairs h).

(* stress: the writer's sequence obeys the CAS specification and every pair a reader
   got was installed by the writer *)
Definition stress_oracle (sch : schedule) (w : list res) (seen : list (N * bytes)) : bool :=
  let ops := map snd sch in
  let h := combine ops w in
  Nat.eqb (length w) (length ops) && spec_trace empty_store h && get_pair_consistent (written_pairs h) seen.

Definition oracle (i : input) (o : obs) : bool :=
  match i, o with
  | IBlob _ sch, OBlob l => blob_oracle sch l
  | IGit sch, OBlob l => git_oracle sch l
  | IStress _ sch, OStress w seen => stress_oracle sch w seen
  | INbs _ _ ops, ONbs a b c =>
    Nat.eqb (length c) (length ops) && list_eqb nobs_eqb a c && list_eqb nobs_eqb b c
  | _, _ => false
  end.

Definition check_case (c : case) : N :=
  (if obs_eqb (model_obs (fst c)) (snd c) then 0 else 1)
  + (if oracle (fst c) (snd c) then 0 else 2).
