(* C42 — correspondence: model observation, comparison with the implementation's
   observation, and the executable statement of the property (oracle) evaluated
   on the implementation's observation.  Depends on Model/Spec only. *)
From Coq Require Import NArith ZArith List Bool.
From Dolt Require Import Base.Str C42.Model C42.Spec C42.NbsModel.
Import ListNotations.
Local Open Scope N_scope.

(* input: backend and the schedule (client, atomic step) in execution order, from
   the empty store.  The fresh versions inside the write operations and the
   order of the concurrently executed steps are reported by the implementation
   (incidental choices: version generator, lock acquisition order). *)
Inductive input :=
| IBlob (b : backend) (sch : schedule)                       (* blobstore API case *)
| INbs (n : nat) (univ : list N) (ops : list (nat * nop)).   (* NBS-on-blobstore case: clients, chunk universe, history *)

(* NBS case, per step: result code, caller's Root(), persisted root, a fresh open's Root()
   and the chunks of the universe it Has *)
Record nobs := { no_res : N; no_croot : N; no_droot : N; no_froot : N; no_fhas : list N }.

Inductive obs :=
| OBlob (l : list res)                                       (* one result per step, same order *)
| ONbs (bsinmem bslocal local : list nobs).                  (* the same history on the three stores *)
Definition case := (input * obs)%type.

Definition blob_model (b : backend) (sch : schedule) : list res :=
  map snd (sched_trace b empty_store sch).

Definition to_nobs (univ : list N) (o : N * N * mc) : nobs :=
  let '(r, croot, m) := o in
  {| no_res := r; no_croot := croot; no_droot := fst m; no_froot := fst m;
     no_fhas := filter (fun x => mem_n x (snd m)) univ |}.

Definition model_obs (i : input) : obs :=
  match i with
  | IBlob b sch => OBlob (blob_model b sch)
  | INbs n univ ops =>
    ONbs (map (to_nobs univ) (nrun_bs InMem n ops)) (map (to_nobs univ) (nrun_bs Local n ops))
         (map (to_nobs univ) (nrun_local n ops))
  end.

Definition res_eqb (a b : res) : bool :=
  match a, b with
  | RBytes x s v, RBytes y t w => beq_bytes x y && (s =? t) && (v =? w)
  | RNotFound, RNotFound => true
  | RVer v, RVer w => v =? w
  | RCasFail v, RCasFail w => v =? w
  | RErr, RErr => true
  | RPanic, RPanic => true
  | _, _ => false
  end.

Fixpoint list_eqb {A} (eqb : A -> A -> bool) (a b : list A) : bool :=
  match a, b with
  | [], [] => true
  | x :: a', y :: b' => eqb x y && list_eqb eqb a' b'
  | _, _ => false
  end.

Definition nobs_eqb (a b : nobs) : bool :=
  (no_res a =? no_res b) && (no_croot a =? no_croot b) && (no_droot a =? no_droot b)
  && (no_froot a =? no_froot b) && beq_bytes (no_fhas a) (no_fhas b).

Definition obs_eqb (a b : obs) : bool :=
  match a, b with
  | OBlob x, OBlob y => list_eqb res_eqb x y
  | ONbs a1 a2 a3, ONbs b1 b2 b3 => list_eqb nobs_eqb a1 b1 && list_eqb nobs_eqb a2 b2 && list_eqb nobs_eqb a3 b3
  | _, _ => false
  end.

(* The property, as a predicate on what the implementation returned.
   Blobstore API case:
   - every step's result is allowed by the sequential specification
     (CheckAndPut succeeds iff expected = stored version and then installs the
     contents, a failed one reports the stored version and changes nothing;
     every ranged read returns exactly the requested window, size and version;
     Concatenate stores the concatenation), in the given linearisation order;
   - order-independently: no two successful conditional writes share their
     expected version (exactly one winner per expected version);
   - versions_distinct as measured: every write got a new, non-empty version.
   NBS case: "a database stored on a blobstore offers the same root and chunk
   semantics as a local one": the blobstore-backed stores' observations equal
   the local directory store's, step by step. *)
Definition blob_oracle (sch : schedule) (o : list res) : bool :=
  let ops := map snd sch in
  let h := combine ops o in
  Nat.eqb (length o) (length ops)
  && spec_trace empty_store h
  && winners_ok h
  && fresh_trace [] h.

Definition oracle (i : input) (o : obs) : bool :=
  match i, o with
  | IBlob _ sch, OBlob l => blob_oracle sch l
  | INbs _ _ ops, ONbs a b c =>
    Nat.eqb (length c) (length ops) && list_eqb nobs_eqb a c && list_eqb nobs_eqb b c
  | _, _ => false
  end.

Definition check_case (c : case) : N :=
  (if obs_eqb (model_obs (fst c)) (snd c) then 0 else 1)
  + (if oracle (fst c) (snd c) then 0 else 2).
