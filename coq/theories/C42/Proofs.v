(* C42 — proofs: CAS register (linearizability over all schedules, winners),
   ranged reads = requested window, concatenation, oracle on the model. *)
From Coq Require Import NArith ZArith List Bool Lia PeanoNat.
From Dolt Require Import Base.Str Gen.C42Consts C42.Model C42.Spec C42.NbsModel C42.GitModel C42.Corr.
Import ListNotations.

(* ---- regenerated constants the harness / generator rely on ---------------- *)
Lemma manifest_key_pinned : c42_manifest_key = [109; 97; 110; 105; 102; 101; 115; 116]%N.
Proof. reflexivity. Qed.
Lemma compose_batch_pinned : c42_compose_batch = 32%N.
Proof. reflexivity. Qed.

(* ---- stores ---------------------------------------------------------------- *)
Lemma upd_same s k v : upd s k v k = Some v.
Proof. unfold upd. rewrite N.eqb_refl. reflexivity. Qed.

Lemma upd_other s k v k' : k' <> k -> upd s k v k' = s k'.
Proof. intro H. unfold upd. destruct (N.eqb_spec k' k) as [E|E]; [contradiction|reflexivity]. Qed.

Lemma cur_ver_upd_same s k f d : cur_ver (upd s k (f, d)) k = f.
Proof. unfold cur_ver. rewrite upd_same. reflexivity. Qed.

Lemma cur_ver_upd_other s k v k' : k' <> k -> cur_ver (upd s k v) k' = cur_ver s k'.
Proof. intro H. unfold cur_ver. rewrite upd_other by exact H. reflexivity. Qed.

(* both backends' version checks are "expected = stored version ("" if none)" *)
Lemma cap_check_spec b s e : cap_check b s e = N.eqb e (cur_ver s manifest_key).
Proof.
  destruct b; unfold cap_check, cur_ver.
  - destruct (s manifest_key) as [[v d]|]; reflexivity.
  - reflexivity.
Qed.

(* ======================================================================== *)
(* CheckAndPut is a compare-and-swap                                          *)
(* ======================================================================== *)
Theorem cap_succeeds_iff_expected_is_current b s e d f :
  (e = cur_ver s manifest_key -> step b s (OCap e d f) = (upd s manifest_key (f, d), RVer f)) /\
  (e <> cur_ver s manifest_key -> step b s (OCap e d f) = (s, RCasFail (cur_ver s manifest_key))).
Proof.
  cbn [step]. rewrite cap_check_spec. split; intro H.
  - apply N.eqb_eq in H. rewrite H. reflexivity.
  - apply N.eqb_neq in H. rewrite H. reflexivity.
Qed.

Theorem failed_cap_changes_nothing b s e d f s' r :
  step b s (OCap e d f) = (s', r) -> r <> RVer f ->
  s' = s /\ r = RCasFail (cur_ver s manifest_key) /\ e <> cur_ver s manifest_key.
Proof.
  intros E Hr. cbn [step] in E. rewrite cap_check_spec in E.
  destruct (N.eqb_spec e (cur_ver s manifest_key)) as [He|He]; inversion E; subst s' r.
  - contradiction Hr. reflexivity.
  - repeat split. exact He.
Qed.

(* shape of a read result *)
Lemma backend_get_cases b val v off len :
  (exists x, backend_get b val v off len = RBytes x (N.of_nat (length val)) v
             /\ (off = 0%Z -> len = 0%Z -> x = val))
  \/ backend_get b val v off len = RErr \/ backend_get b val v off len = RPanic.
Proof.
  destruct b; cbn [backend_get].
  - unfold inmem_get. destruct (is_all_range off len) eqn:A.
    + left. eexists. split; [reflexivity|auto].
    + destruct (positive_range (zlen val) off len) as [o l].
      match goal with |- context [match ?e with Some _ => _ | None => _ end] => destruct e as [x|] end.
      * left. eexists. split; [reflexivity|]. intros -> ->. cbn in A. discriminate.
      * right; right; reflexivity.
  - unfold local_get. destruct (off <? 0)%Z eqn:O.
    + destruct (positive_range (zlen val) off len) as [o l]. destruct (o <? 0)%Z.
      * right; left; reflexivity.
      * left. eexists. split; [reflexivity|]. intros -> _. cbn in O. discriminate.
    + left. eexists. split; [reflexivity|]. intros -> ->. reflexivity.
Qed.

(* Linearizability: every API call is one atomic step, so the execution order of
   a schedule is the linearisation; the history of results it produces is a
   legal sequential history of the CAS register — for every schedule. *)
Lemma trace_legal b ops : forall s, legal (s manifest_key) (trace b s ops).
Proof.
  induction ops as [|o t IH]; intro s; cbn [trace]; [constructor|].
  destruct (step b s o) as [s' r] eqn:E. destruct o as [k off len|k d f|e d f|k srcs f].
  - (* Get *)
    cbn [step] in E. destruct (len <? 0)%Z eqn:Ln.
    + inversion E; subst s' r. destruct (N.eq_dec k manifest_key) as [->|Hk].
      * apply L_read_rejected; [right; reflexivity|apply IH].
      * apply L_other_key; [exact Hk|apply IH].
    + destruct (N.eq_dec k manifest_key) as [->|Hk].
      * specialize (IH s). destruct (s manifest_key) as [[v val]|] eqn:S; inversion E; subst s' r.
        -- destruct (backend_get_cases b val v off len) as [[x [Hx Hall]]|[Hx|Hx]]; rewrite Hx.
           ++ apply L_read; [exact Hall|exact IH].
           ++ apply L_read_rejected; [left; reflexivity|exact IH].
           ++ apply L_read_rejected; [right; reflexivity|exact IH].
        -- apply L_read_absent; [apply Z.ltb_ge in Ln; exact Ln|exact IH].
      * apply L_other_key; [exact Hk|].
        assert (s' = s) as -> by (destruct (s k) as [[v val]|]; inversion E; reflexivity).
        apply IH.
  - (* Put *)
    cbn [step] in E. inversion E; subst s' r. destruct (N.eq_dec k manifest_key) as [->|Hk].
    + apply L_write. specialize (IH (upd s manifest_key (f, d))). rewrite upd_same in IH. exact IH.
    + apply L_other_key; [exact Hk|]. specialize (IH (upd s k (f, d))).
      rewrite upd_other in IH by (intro X; apply Hk; symmetry; exact X). exact IH.
  - (* CheckAndPut *)
    cbn [step] in E. rewrite cap_check_spec in E.
    destruct (N.eqb_spec e (cur_ver s manifest_key)) as [He|He]; inversion E; subst s' r.
    + apply L_cas_win; [exact He|]. specialize (IH (upd s manifest_key (f, d))). rewrite upd_same in IH. exact IH.
    + change (cur_ver s manifest_key) with (reg_ver (s manifest_key)). apply L_cas_lose; [exact He|apply IH].
  - (* Concatenate *)
    assert (Hw : legal (s manifest_key) ((OCat k srcs f, RVer f) :: trace b (upd s k (f, concat_blobs s srcs)) t)).
    { destruct (N.eq_dec k manifest_key) as [->|Hk].
      - apply L_concat with (d := concat_blobs s srcs).
        specialize (IH (upd s manifest_key (f, concat_blobs s srcs))). rewrite upd_same in IH. exact IH.
      - apply L_other_key; [exact Hk|]. specialize (IH (upd s k (f, concat_blobs s srcs))).
        rewrite upd_other in IH by (intro X; apply Hk; symmetry; exact X). exact IH. }
    destruct b; cbn [step] in E.
    + inversion E; subst s' r. exact Hw.
    + destruct (forallb (present s) srcs); inversion E; subst s' r.
      * exact Hw.
      * destruct (N.eq_dec k manifest_key) as [->|Hk].
        -- apply L_concat_err. apply IH.
        -- apply L_other_key; [exact Hk|apply IH].
Qed.

Theorem cap_is_cas : forall b s (sch : schedule), legal (s manifest_key) (sched_trace b s sch).
Proof. intros b s sch. unfold sched_trace. apply trace_legal. Qed.

(* ---- winners ------------------------------------------------------------- *)
Lemma step_class b s o s' r : step b s o = (s', r) ->
  (man_write (o, r) = None /\ cur_ver s' manifest_key = cur_ver s manifest_key
   /\ forall t, cap_wins ((o, r) :: t) = cap_wins t)
  \/ (exists f, man_write (o, r) = Some f /\ cur_ver s' manifest_key = f
       /\ ((forall t, cap_wins ((o, r) :: t) = cap_wins t)
           \/ (forall t, cap_wins ((o, r) :: t) = cur_ver s manifest_key :: cap_wins t))).
Proof.
  intro E. destruct o as [k off len|k d f|e d f|k srcs f].
  - left. cbn [step] in E.
    assert (s' = s) as -> by (destruct (len <? 0)%Z; [|destruct (s k) as [[v val]|]]; inversion E; reflexivity).
    split; [destruct r; reflexivity|]. split; [reflexivity|]. intro t. destruct r; reflexivity.
  - cbn [step] in E. inversion E; subst s' r. cbn [man_write cap_wins].
    destruct (N.eqb_spec k manifest_key) as [->|Hk].
    + right. exists f. split; [reflexivity|]. split; [apply cur_ver_upd_same|left; reflexivity].
    + left. split; [reflexivity|]. split; [|reflexivity]. apply cur_ver_upd_other. intro X; apply Hk; symmetry; exact X.
  - cbn [step] in E. rewrite cap_check_spec in E.
    destruct (N.eqb_spec e (cur_ver s manifest_key)) as [He|He]; inversion E; subst s' r.
    + right. exists f. cbn [man_write cap_wins]. split; [reflexivity|].
      split; [apply cur_ver_upd_same|right; intro t; rewrite He; reflexivity].
    + left. split; [reflexivity|]. split; reflexivity.
  - assert (Hw : (man_write (OCat k srcs f, RVer f) = None
                  /\ cur_ver (upd s k (f, concat_blobs s srcs)) manifest_key = cur_ver s manifest_key
                  /\ forall t, cap_wins ((OCat k srcs f, RVer f) :: t) = cap_wins t)
                 \/ (exists f0, man_write (OCat k srcs f, RVer f) = Some f0
                      /\ cur_ver (upd s k (f, concat_blobs s srcs)) manifest_key = f0
                      /\ ((forall t, cap_wins ((OCat k srcs f, RVer f) :: t) = cap_wins t)
                          \/ (forall t, cap_wins ((OCat k srcs f, RVer f) :: t) = cur_ver s manifest_key :: cap_wins t)))).
    { cbn [man_write cap_wins]. destruct (N.eqb_spec k manifest_key) as [->|Hk].
      - right. exists f. split; [reflexivity|]. split; [apply cur_ver_upd_same|left; reflexivity].
      - left. split; [reflexivity|]. split; [|reflexivity]. apply cur_ver_upd_other. intro X; apply Hk; symmetry; exact X. }
    destruct b; cbn [step] in E.
    + inversion E; subst s' r. exact Hw.
    + destruct (forallb (present s) srcs); inversion E; subst s' r; [exact Hw|].
      left. split; [reflexivity|]. split; reflexivity.
Qed.

Lemma no_win_for_unseen_version b ops : forall s v,
  ~ In v (cur_ver s manifest_key :: man_writes (trace b s ops)) ->
  ~ In v (cap_wins (trace b s ops)).
Proof.
  induction ops as [|o t IH]; intros s v H; cbn [trace] in *; [intros []|].
  destruct (step b s o) as [s' r] eqn:E. cbn [man_writes] in H.
  destruct (step_class _ _ _ _ _ E) as [[Hm [Hc Hw]]|[f [Hm [Hc Hw]]]]; rewrite Hm in H.
  - rewrite Hw. apply IH. rewrite Hc. exact H.
  - assert (IHt : ~ In v (cap_wins (trace b s' t))).
    { apply IH. rewrite Hc. intro X. apply H. right. exact X. }
    destruct Hw as [Hw|Hw]; rewrite Hw; [exact IHt|].
    intros [X|X]; [apply H; left; exact X|exact (IHt X)].
Qed.

Lemma winners_nodup b ops : forall s,
  NoDup (cur_ver s manifest_key :: man_writes (trace b s ops)) ->
  NoDup (cap_wins (trace b s ops)).
Proof.
  induction ops as [|o t IH]; intros s H; cbn [trace] in *; [constructor|].
  destruct (step b s o) as [s' r] eqn:E. cbn [man_writes] in H.
  destruct (step_class _ _ _ _ _ E) as [[Hm [Hc Hw]]|[f [Hm [Hc Hw]]]]; rewrite Hm in H.
  - rewrite Hw. apply IH. rewrite Hc. exact H.
  - apply NoDup_cons_iff in H as [Hnin Hnd].
    assert (IHt : NoDup (cap_wins (trace b s' t))) by (apply IH; rewrite Hc; exact Hnd).
    destruct Hw as [Hw|Hw]; rewrite Hw; [exact IHt|].
    constructor; [|exact IHt].
    apply no_win_for_unseen_version. rewrite Hc. exact Hnin.
Qed.

(* Exactly one winner per expected version, over the whole history: under
   versions_distinct no two successful conditional writes of any schedule were
   issued with the same expected version (so a stale or replayed expected
   version can never win a second time). *)
Theorem one_winner_per_expected_version : forall b s (sch : schedule),
  versions_distinct s (sched_trace b s sch) ->
  NoDup (cap_wins (sched_trace b s sch))
  /\ forall v, (count_occ N.eq_dec (cap_wins (sched_trace b s sch)) v <= 1)%nat.
Proof.
  intros b s sch H. unfold sched_trace, versions_distinct in *.
  assert (ND : NoDup (cap_wins (trace b s (map snd sch)))) by (apply winners_nodup; exact H).
  split; [exact ND|]. apply (proj1 (NoDup_count_occ N.eq_dec _)). exact ND.
Qed.

(* n clients all CheckAndPut with the version currently stored: in every order
   of their atomic steps the first one wins, every other one fails reporting
   the winner's version, and the store ends as the winner left it. *)
Lemma losers_change_nothing b v (rest : list (N * (bytes * N))) : forall s,
  v <> cur_ver s manifest_key ->
  trace b s (map snd (map (fun c => (fst c, OCap v (fst (snd c)) (snd (snd c)))) rest))
  = map (fun c => (OCap v (fst (snd c)) (snd (snd c)), RCasFail (cur_ver s manifest_key))) rest
  /\ final b s (map snd (map (fun c => (fst c, OCap v (fst (snd c)) (snd (snd c)))) rest)) = s.
Proof.
  induction rest as [|c t IH]; intros s Hv; cbn [map trace final snd fst]; [split; reflexivity|].
  rewrite (proj2 (cap_succeeds_iff_expected_is_current b s v (fst (snd c)) (snd (snd c))) Hv).
  cbn [fst]. destruct (IH s Hv) as [IH1 IH2]. rewrite IH1, IH2. split; reflexivity.
Qed.

Lemma cap_wins_losers v a (rest : list (N * (bytes * N))) :
  cap_wins (map (fun c => (OCap v (fst (snd c)) (snd (snd c)), RCasFail a)) rest) = [].
Proof. induction rest as [|c t IH]; [reflexivity|]. cbn [map cap_wins]. exact IH. Qed.

Theorem exactly_one_winner : forall b s (c1 : N) d1 f1 (rest : list (N * (bytes * N))),
  f1 <> cur_ver s manifest_key ->
  let v := cur_ver s manifest_key in
  let sch : schedule := (c1, OCap v d1 f1) :: map (fun c => (fst c, OCap v (fst (snd c)) (snd (snd c)))) rest in
  map snd (sched_trace b s sch) = RVer f1 :: map (fun _ => RCasFail f1) rest
  /\ final b s (map snd sch) = upd s manifest_key (f1, d1)
  /\ length (cap_wins (sched_trace b s sch)) = 1%nat.
Proof.
  intros b s c1 d1 f1 rest Hf v sch. unfold sched_trace, sch.
  cbn [map trace final snd fst].
  rewrite (proj1 (cap_succeeds_iff_expected_is_current b s v d1 f1) eq_refl). cbn [fst].
  assert (Hv : v <> cur_ver (upd s manifest_key (f1, d1)) manifest_key).
  { rewrite cur_ver_upd_same. intro X. apply Hf. symmetry. exact X. }
  destruct (losers_change_nothing b v rest _ Hv) as [L1 L2]. rewrite L1, L2.
  rewrite cur_ver_upd_same. repeat split.
  - cbn [map snd]. f_equal. rewrite map_map. reflexivity.
  - cbn [cap_wins]. rewrite cap_wins_losers. reflexivity.
Qed.

(* ======================================================================== *)
(* Ranged reads                                                               *)
(* ======================================================================== *)
Local Open Scope Z_scope.

Lemma go_slice_ok val a b : 0 <= a <= b -> b <= zlen val ->
  go_slice val a b = Some (firstn (Z.to_nat (b - a)) (skipn (Z.to_nat a) val)).
Proof.
  intros [H1 H2] H3. unfold go_slice.
  rewrite (proj2 (Z.leb_le 0 a) H1), (proj2 (Z.leb_le a b) H2), (proj2 (Z.leb_le b (zlen val)) H3). reflexivity.
Qed.

Lemma go_slice_none val a b : a < 0 \/ b < a \/ zlen val < b -> go_slice val a b = None.
Proof.
  intro H. unfold go_slice.
  destruct (Z.leb_spec 0 a); destruct (Z.leb_spec a b); destruct (Z.leb_spec b (zlen val)); cbn [andb]; try reflexivity.
  exfalso. lia.
Qed.

Lemma skipn_len val (a : Z) : 0 <= a <= zlen val ->
  length (skipn (Z.to_nat a) val) = Z.to_nat (zlen val - a).
Proof. intro H. rewrite skipn_length. unfold zlen in *. lia. Qed.

(* the window expression of spec_slice, for a start a >= 0 *)
Definition window (val : bytes) (a len : Z) : bytes :=
  let d := skipn (Z.to_nat a) val in
  if len =? 0 then d else firstn (Z.to_nat (a + len) - Z.to_nat a)%nat d.

Lemma spec_slice_window val off len : spec_slice val off len = window val (win_start (zlen val) off) len.
Proof. reflexivity. Qed.

Lemma inmem_slice val a len : 0 <= a <= zlen val -> 0 <= len ->
  (let l := if (a + len >? zlen val) || (len =? 0) then zlen val - a else len in
   if l =? 0 then go_slice val a (zlen val) else go_slice val a (a + l))
  = Some (window val a len).
Proof.
  intros Ha Hl. set (n := zlen val) in *. unfold window.
  assert (Hd : length (skipn (Z.to_nat a) val) = Z.to_nat (n - a)) by (apply skipn_len; exact Ha).
  rewrite Z.gtb_ltb.
  destruct (Z.eqb_spec len 0) as [L0|L0].
  - rewrite orb_true_r. cbv zeta.
    destruct (Z.eqb_spec (n - a) 0) as [E|E].
    + rewrite go_slice_ok by (fold n; lia). f_equal. apply firstn_all2. lia.
    + rewrite go_slice_ok by (fold n; lia). f_equal. apply firstn_all2. lia.
  - rewrite orb_false_r. destruct (Z.ltb_spec n (a + len)) as [G|G]; cbv zeta.
    + destruct (Z.eqb_spec (n - a) 0) as [E|E].
      * rewrite go_slice_ok by (fold n; lia). f_equal.
        rewrite firstn_all2 by lia. symmetry. apply firstn_all2. lia.
      * rewrite go_slice_ok by (fold n; lia). f_equal.
        rewrite firstn_all2 by lia. symmetry. apply firstn_all2. lia.
    + destruct (Z.eqb_spec len 0) as [E|E]; [contradiction|].
      rewrite go_slice_ok by (fold n; lia). f_equal. f_equal. lia.
Qed.

Lemma in_range_bounds size off : 0 <= size -> in_range size off = true ->
  0 <= win_start size off <= size.
Proof.
  intros Hs H. unfold in_range in H. apply andb_prop in H as [H1 H2].
  apply Z.leb_le in H1. apply Z.leb_le in H2. unfold win_start.
  destruct (Z.ltb_spec off 0); lia.
Qed.

Lemma zlen_nonneg val : 0 <= zlen val.
Proof. unfold zlen. lia. Qed.

(* in-memory backend: every request whose window starts inside the blob (or at
   its end) returns exactly the window, the blob size and the blob version *)
Theorem range_spec_inmem : forall val ver off len,
  0 <= len -> in_range (zlen val) off = true ->
  inmem_get val ver off len = RBytes (spec_slice val off len) (N.of_nat (length val)) ver.
Proof.
  intros val ver off len Hl Hr. unfold inmem_get.
  destruct (is_all_range off len) eqn:A.
  - unfold is_all_range in A. apply andb_prop in A as [A1 A2].
    apply Z.eqb_eq in A1. apply Z.eqb_eq in A2. subst off len. reflexivity.
  - pose proof (in_range_bounds _ _ (zlen_nonneg val) Hr) as Hb.
    pose proof (inmem_slice val (win_start (zlen val) off) len Hb Hl) as S.
    unfold positive_range. fold (win_start (zlen val) off).
    cbv zeta in S. rewrite S. rewrite spec_slice_window. reflexivity.
Qed.

Lemma local_read_window val o len : 0 <= o -> 0 <= len ->
  file_read val o len = window val o len.
Proof.
  intros Ho Hl. unfold file_read, window.
  destruct (len =? 0); [reflexivity|]. f_equal. lia.
Qed.

Lemma local_suffix_window val o len : 0 <= o < zlen val -> 0 <= len ->
  file_read val o (if (o + len >? zlen val) || (len =? 0) then zlen val - o else len) = window val o len.
Proof.
  intros Ho Hl. set (n := zlen val) in *. unfold file_read, window.
  assert (Hd : length (skipn (Z.to_nat o) val) = Z.to_nat (n - o)) by (apply skipn_len; fold n; lia).
  rewrite Z.gtb_ltb.
  destruct (Z.eqb_spec len 0) as [L0|L0].
  - rewrite orb_true_r. destruct (Z.eqb_spec (n - o) 0) as [E|E]; [reflexivity|]. apply firstn_all2. lia.
  - rewrite orb_false_r. destruct (Z.ltb_spec n (o + len)) as [G|G].
    + destruct (Z.eqb_spec (n - o) 0) as [E|E]; [lia|].
      rewrite firstn_all2 by lia. symmetry. apply firstn_all2. lia.
    + destruct (Z.eqb_spec len 0) as [E|E]; [contradiction|]. f_equal. lia.
Qed.

(* local backend: every request with off >= -size returns exactly the window
   (a start beyond the end yields the empty window: Seek past EOF, then EOF) *)
Theorem range_spec_local : forall val ver off len,
  0 <= len -> - zlen val <= off ->
  local_get val ver off len = RBytes (spec_slice val off len) (N.of_nat (length val)) ver.
Proof.
  intros val ver off len Hl Ho. unfold local_get. rewrite spec_slice_window. unfold win_start.
  destruct (Z.ltb_spec off 0) as [N0|N0].
  - unfold positive_range. destruct (Z.ltb_spec off 0) as [_|X]; [|lia].
    destruct (Z.ltb_spec (zlen val + off) 0) as [X|_]; [lia|].
    rewrite local_suffix_window by lia. reflexivity.
  - rewrite local_read_window by lia. reflexivity.
Qed.

(* the window is a contiguous piece of the blob at the requested position *)
Theorem spec_slice_is_window : forall blob off len, 0 <= len ->
  let a := Z.to_nat (win_start (zlen blob) off) in
  exists pre post,
    blob = pre ++ spec_slice blob off len ++ post
    /\ length pre = Nat.min a (length blob)
    /\ (len = 0 -> post = [])
    /\ (len <> 0 -> length (spec_slice blob off len)
                   = Nat.min (Z.to_nat (win_start (zlen blob) off + len) - a) (length blob - a)).
Proof.
  intros blob off len Hl a. rewrite spec_slice_window. unfold window. fold a.
  set (d := skipn a blob).
  destruct (Z.eqb_spec len 0) as [L0|L0].
  - exists (firstn a blob), []. rewrite app_nil_r. unfold d. rewrite firstn_skipn.
    repeat split; [apply firstn_length|contradiction].
  - set (m := (Z.to_nat (win_start (zlen blob) off + len) - a)%nat).
    exists (firstn a blob), (skipn m d). rewrite firstn_skipn. unfold d at 1. rewrite firstn_skipn.
    repeat split; [apply firstn_length|contradiction|].
    intros _. rewrite firstn_length. unfold d. rewrite skipn_length. reflexivity.
Qed.

(* readable corollaries, both backends *)
Theorem range_spec_nonneg : forall b val ver off len,
  0 <= off <= zlen val -> 0 <= len ->
  backend_get b val ver off len
  = RBytes (let d := skipn (Z.to_nat off) val in if len =? 0 then d else firstn (Z.to_nat len) d)
           (N.of_nat (length val)) ver.
Proof.
  intros b val ver off len Ho Hl.
  assert (E : backend_get b val ver off len = RBytes (spec_slice val off len) (N.of_nat (length val)) ver).
  { destruct b; cbn [backend_get].
    - apply range_spec_inmem; [exact Hl|]. unfold in_range.
      rewrite (proj2 (Z.leb_le (- zlen val) off)) by lia. rewrite (proj2 (Z.leb_le off (zlen val))) by lia. reflexivity.
    - apply range_spec_local; lia. }
  rewrite E. f_equal. rewrite spec_slice_window. unfold window, win_start.
  destruct (Z.ltb_spec off 0) as [X|_]; [lia|]. cbv zeta.
  destruct (len =? 0); [reflexivity|]. f_equal. lia.
Qed.

Theorem range_spec_suffix : forall b val ver n len,
  0 < n <= zlen val -> 0 <= len ->
  let suffix := skipn (length val - Z.to_nat n) val in
  length suffix = Z.to_nat n
  /\ backend_get b val ver (- n) len
     = RBytes (if len =? 0 then suffix else firstn (Z.to_nat len) suffix) (N.of_nat (length val)) ver.
Proof.
  intros b val ver n len Hn Hl suffix. split.
  - unfold suffix. rewrite skipn_length. unfold zlen in Hn. lia.
  - assert (E : backend_get b val ver (- n) len = RBytes (spec_slice val (- n) len) (N.of_nat (length val)) ver).
    { destruct b; cbn [backend_get].
      - apply range_spec_inmem; [exact Hl|]. unfold in_range.
        rewrite (proj2 (Z.leb_le (- zlen val) (- n))) by lia. rewrite (proj2 (Z.leb_le (- n) (zlen val))) by lia. reflexivity.
      - apply range_spec_local; lia. }
    rewrite E. f_equal. rewrite spec_slice_window. unfold window, win_start, suffix.
    destruct (Z.ltb_spec (- n) 0) as [_|X]; [|lia]. cbv zeta.
    replace (Z.to_nat (zlen val + - n)) with (length val - Z.to_nat n)%nat by (unfold zlen in *; lia).
    destruct (len =? 0); [reflexivity|]. f_equal. unfold zlen in *. lia.
Qed.

(* out-of-range starts, exactly as each backend behaves (they differ) *)
Theorem range_out_of_range_inmem : forall val ver off len,
  0 <= len -> in_range (zlen val) off = false ->
  inmem_get val ver off len = RPanic.
Proof.
  intros val ver off len Hl Hr. pose proof (zlen_nonneg val) as Hn.
  assert (Ho : off < - zlen val \/ zlen val < off).
  { unfold in_range in Hr. destruct (Z.leb_spec (- zlen val) off); destruct (Z.leb_spec off (zlen val)); cbn in Hr; try discriminate; lia. }
  unfold inmem_get.
  assert (A : is_all_range off len = false).
  { unfold is_all_range. destruct (Z.eqb_spec off 0); [lia|reflexivity]. }
  rewrite A. unfold positive_range.
  set (o := if off <? 0 then zlen val + off else off).
  assert (Hob : o < 0 \/ zlen val < o) by (unfold o; destruct (Z.ltb_spec off 0); lia).
  set (l := if (o + len >? zlen val) || (len =? 0) then zlen val - o else len).
  assert (Hl2 : o + l = zlen val \/ (l = len /\ o + len <= zlen val)).
  { unfold l. rewrite Z.gtb_ltb. destruct (Z.ltb_spec (zlen val) (o + len)); cbn [orb]; [lia|].
    destruct (Z.eqb_spec len 0); lia. }
  destruct (l =? 0); rewrite go_slice_none; try reflexivity; lia.
Qed.

Theorem range_out_of_range_local : forall val ver off len,
  0 <= len ->
  (zlen val < off -> local_get val ver off len = RBytes [] (N.of_nat (length val)) ver)
  /\ (off < - zlen val -> local_get val ver off len = RErr).
Proof.
  intros val ver off len Hl. pose proof (zlen_nonneg val) as Hn. split; intro Ho; unfold local_get.
  - destruct (Z.ltb_spec off 0) as [X|_]; [lia|]. f_equal. unfold file_read.
    rewrite skipn_all2 by (unfold zlen in *; lia).
    destruct (len =? 0); [reflexivity|apply firstn_nil].
  - destruct (Z.ltb_spec off 0) as [_|X]; [|lia]. unfold positive_range.
    destruct (Z.ltb_spec off 0) as [_|X]; [|lia].
    destruct (Z.ltb_spec (zlen val + off) 0) as [_|X]; [reflexivity|lia].
Qed.

Local Close Scope Z_scope.

(* ======================================================================== *)
(* Concatenate                                                                *)
(* ======================================================================== *)
Lemma concat_blobs_app s a b : concat_blobs s (a ++ b) = concat_blobs s a ++ concat_blobs s b.
Proof. unfold concat_blobs. apply flat_map_app. Qed.

Lemma concat_blobs_cons s k t : concat_blobs s (k :: t) = blob_or_empty s k ++ concat_blobs s t.
Proof. reflexivity. Qed.

(* all sources present: the target holds exactly the concatenation of the
   sources' contents (in order, with repetitions), nothing else changes, and a
   full read of the target returns it *)
Theorem concat_spec : forall b s k srcs f,
  forallb (present s) srcs = true ->
  let s' := fst (step b s (OCat k srcs f)) in
  snd (step b s (OCat k srcs f)) = RVer f
  /\ s' k = Some (f, flat_map (blob_or_empty s) srcs)
  /\ (forall k', k' <> k -> s' k' = s k')
  /\ snd (step b s' (OGet k 0 0)) = RBytes (concat_blobs s srcs) (N.of_nat (length (concat_blobs s srcs))) f.
Proof.
  intros b s k srcs f Hp s'.
  assert (E : step b s (OCat k srcs f) = (upd s k (f, concat_blobs s srcs), RVer f)).
  { destruct b; cbn [step]; [reflexivity|]. rewrite Hp. reflexivity. }
  unfold s'. rewrite E. cbn [fst snd]. repeat split.
  - apply upd_same.
  - intros k' Hk. apply upd_other. exact Hk.
  - cbn [step]. rewrite upd_same. cbn [Z.ltb Z.compare].
    destruct b; cbn [backend_get]; reflexivity.
Qed.

Theorem concat_missing_source_local : forall s k srcs f,
  forallb (present s) srcs = false -> step Local s (OCat k srcs f) = (s, RErr).
Proof. intros s k srcs f H. cbn [step]. rewrite H. reflexivity. Qed.

(* Full statement "Concatenate fails when a source is missing":
     forall b s k srcs f, forallb (present s) srcs = false -> step b s (OCat k srcs f) = (s, RErr)
   is FALSE of the faithful model of the in-memory backend (composeObjects reads
   bs.blobs[k] of a missing key as an empty slice).  Witness replayed on the
   implementation on every run (tag cat-missing-inmem-silent). *)
Theorem concat_missing_source_is_error_refuted :
  exists s k srcs f, forallb (present s) srcs = false
    /\ step InMem s (OCat k srcs f) <> (s, RErr)
    /\ snd (step InMem s (OCat k srcs f)) = RVer f
    /\ fst (step InMem s (OCat k srcs f)) k = Some (f, []).
Proof.
  exists empty_store, 3%N, [1%N], 1%N. repeat split.
  intro H. vm_compute in H. inversion H.
Qed.

(* ======================================================================== *)
(* The oracle holds on every model run (under measured version freshness)     *)
(* ======================================================================== *)
Lemma get_ok_model b val v off len : (0 <= len)%Z -> get_ok val v off len (backend_get b val v off len) = true.
Proof.
  intro Hl. destruct (in_range (zlen val) off) eqn:R.
  - assert (E : backend_get b val v off len = RBytes (spec_slice val off len) (N.of_nat (length val)) v).
    { destruct b; cbn [backend_get]; [apply range_spec_inmem; assumption|].
      apply range_spec_local; [exact Hl|]. unfold in_range in R. apply andb_prop in R as [R1 _]. apply Z.leb_le in R1. exact R1. }
    rewrite E. cbn [get_ok]. rewrite beq_bytes_refl, !N.eqb_refl. reflexivity.
  - destruct b; cbn [backend_get].
    + rewrite range_out_of_range_inmem by assumption. cbn [get_ok]. rewrite R. reflexivity.
    + destruct (Z.leb_spec (- zlen val) off) as [G|G].
      * rewrite range_spec_local by assumption. cbn [get_ok]. rewrite beq_bytes_refl, !N.eqb_refl. reflexivity.
      * rewrite (proj2 (range_out_of_range_local val v off len Hl) G). cbn [get_ok]. rewrite R. reflexivity.
Qed.

Lemma spec_step_model b s o s' r : step b s o = (s', r) -> spec_step s o r = Some s'.
Proof.
  intro E. destruct o as [k off len|k d f|e d f|k srcs f]; cbn [step] in E; cbn [spec_step].
  - destruct (Z.ltb_spec len 0) as [Ln|Ln].
    + inversion E; reflexivity.
    + destruct (s k) as [[v val]|]; inversion E; subst s' r; [|reflexivity].
      rewrite get_ok_model by exact Ln. reflexivity.
  - inversion E; subst s' r. cbn [expect_ver]. rewrite N.eqb_refl. reflexivity.
  - rewrite cap_check_spec in E.
    destruct (N.eqb e (cur_ver s manifest_key)); inversion E; subst s' r.
    + cbn [expect_ver]. rewrite N.eqb_refl. reflexivity.
    + rewrite N.eqb_refl. reflexivity.
  - destruct b.
    + inversion E; subst s' r. cbn [expect_ver]. rewrite N.eqb_refl.
      destruct (forallb (present s) srcs); reflexivity.
    + destruct (forallb (present s) srcs); inversion E; subst s' r; [|reflexivity].
      cbn [expect_ver]. rewrite N.eqb_refl. reflexivity.
Qed.

Lemma spec_trace_model b ops : forall s, spec_trace s (trace b s ops) = true.
Proof.
  induction ops as [|o t IH]; intro s; cbn [trace]; [reflexivity|].
  destruct (step b s o) as [s' r] eqn:E. cbn [spec_trace].
  rewrite (spec_step_model _ _ _ _ _ E). apply IH.
Qed.

Lemma trace_ops b ops : forall s, map fst (trace b s ops) = ops.
Proof.
  induction ops as [|o t IH]; intro s; cbn [trace]; [reflexivity|].
  destruct (step b s o) as [s' r]. cbn [map fst]. rewrite IH. reflexivity.
Qed.

Lemma combine_fst_snd {A B} (l : list (A * B)) : combine (map fst l) (map snd l) = l.
Proof. induction l as [|[a b] t IH]; [reflexivity|]. cbn [map combine fst snd]. rewrite IH. reflexivity. Qed.

Lemma mem_N_spec x l : mem_N x l = true <-> In x l.
Proof.
  induction l as [|y t IH]; cbn [mem_N In]; [split; [discriminate|intros []]|].
  rewrite orb_true_iff, N.eqb_eq, IH. split; intros [H|H]; auto.
Qed.

Lemma nodup_N_spec l : NoDup l -> nodup_N l = true.
Proof.
  induction 1 as [|x t Hn Hd IH]; cbn [nodup_N]; [reflexivity|].
  rewrite IH, andb_true_r. destruct (mem_N x t) eqn:M; [|reflexivity].
  apply mem_N_spec in M. contradiction.
Qed.

Lemma man_write_write_of e :
  match man_write e with
  | Some f => write_of e = Some (manifest_key, f)
  | None => match write_of e with None => True | Some kf => fst kf <> manifest_key end
  end.
Proof.
  destruct e as [o r]. destruct o as [k off len|k d f|e d f|k srcs f]; destruct r; cbn [man_write write_of written_key fst]; try exact I;
    try reflexivity; destruct (N.eqb_spec k manifest_key) as [->|Hk]; try reflexivity; exact Hk.
Qed.

Lemma fresh_trace_manifest h : forall used,
  fresh_trace used h = true ->
  NoDup (man_writes h)
  /\ forall f, In f (man_writes h) -> f <> 0%N /\ mem_NN (manifest_key, f) used = false.
Proof.
  induction h as [|e t IH]; intros used H; cbn [man_writes].
  - split; [constructor|intros f []].
  - cbn [fresh_trace] in H. pose proof (man_write_write_of e) as W.
    destruct (man_write e) as [f|].
    + rewrite W in H. cbn [snd] in H.
      apply andb_prop in H as [H H3]. apply andb_prop in H as [H1 H2].
      apply negb_true_iff in H1. apply negb_true_iff in H2. apply N.eqb_neq in H1.
      destruct (IH _ H3) as [ND HF]. split.
      * constructor; [|exact ND]. intro X. destruct (HF f X) as [_ M].
        cbn [mem_NN fst snd] in M. rewrite !N.eqb_refl in M. discriminate.
      * intros g [<-|X]; [split; assumption|].
        destruct (HF g X) as [G0 M]. split; [exact G0|].
        cbn [mem_NN] in M. apply orb_false_elim in M as [_ M]. exact M.
    + destruct (write_of e) as [kf|].
      * apply andb_prop in H as [_ H3]. destruct (IH _ H3) as [ND HF]. split; [exact ND|].
        intros g X. destruct (HF g X) as [G0 M]. split; [exact G0|].
        cbn [mem_NN] in M. apply orb_false_elim in M as [_ M]. exact M.
      * exact (IH _ H).
Qed.

(* measured freshness gives the hypothesis of the winner theorem *)
Lemma fresh_trace_versions_distinct h :
  fresh_trace [] h = true -> versions_distinct empty_store h.
Proof.
  intro H. destruct (fresh_trace_manifest h [] H) as [ND HF].
  unfold versions_distinct. constructor; [|exact ND].
  change (cur_ver empty_store manifest_key) with 0%N. intro X. destruct (HF 0%N X) as [G _]. apply G. reflexivity.
Qed.

Lemma blob_oracle_on_model b sch :
  fresh_trace [] (sched_trace b empty_store sch) = true ->
  blob_oracle sch (blob_model b sch) = true.
Proof.
  intros Hf. unfold blob_oracle, blob_model.
  unfold sched_trace in *. set (ops := map snd sch) in *.
  assert (Hc : combine ops (map snd (trace b empty_store ops)) = trace b empty_store ops).
  { rewrite <- (trace_ops b ops empty_store) at 1. apply combine_fst_snd. }
  rewrite Hc, Hf, spec_trace_model, andb_true_r.
  assert (Hl : length (map snd (trace b empty_store ops)) = length ops).
  { rewrite map_length. rewrite <- (trace_ops b ops empty_store) at 2. rewrite map_length. reflexivity. }
  rewrite Hl, Nat.eqb_refl. cbn [andb]. unfold winners_ok. apply nodup_N_spec.
  apply winners_nodup. apply fresh_trace_versions_distinct. exact Hf.
Qed.

(* ======================================================================== *)
(* A CheckAndPut with a version read earlier: read + CAS is atomic            *)
(* ======================================================================== *)
Lemma trace_app b a1 : forall s a2,
  trace b s (a1 ++ a2) = trace b s a1 ++ trace b (final b s a1) a2.
Proof.
  induction a1 as [|o t IH]; intros s a2; cbn [app trace final]; [reflexivity|].
  destruct (step b s o) as [s' r]. cbn [fst]. rewrite IH. reflexivity.
Qed.

Lemma man_writes_app h1 h2 : man_writes (h1 ++ h2) = man_writes h1 ++ man_writes h2.
Proof.
  induction h1 as [|e t IH]; cbn [app man_writes]; [reflexivity|].
  destruct (man_write e); rewrite IH; reflexivity.
Qed.

Lemma step_no_write b s o s' r :
  step b s o = (s', r) -> man_write (o, r) = None -> s' manifest_key = s manifest_key.
Proof.
  intros E W. destruct o as [k off len|k d f|e d f|k srcs f]; cbn [step] in E.
  - assert (s' = s) as -> by (destruct (len <? 0)%Z; [|destruct (s k) as [[v val]|]]; inversion E; reflexivity).
    reflexivity.
  - inversion E; subst s' r. cbn [man_write] in W.
    destruct (N.eqb_spec k manifest_key) as [->|Hk]; [discriminate|].
    apply upd_other. intro X; apply Hk; symmetry; exact X.
  - rewrite cap_check_spec in E.
    destruct (N.eqb e (cur_ver s manifest_key)); inversion E; subst s' r; [discriminate|reflexivity].
  - assert (Hw : man_write (OCat k srcs f, RVer f) = None ->
                 upd s k (f, concat_blobs s srcs) manifest_key = s manifest_key).
    { cbn [man_write]. destruct (N.eqb_spec k manifest_key) as [->|Hk]; [discriminate|].
      intros _. apply upd_other. intro X; apply Hk; symmetry; exact X. }
    destruct b.
    + inversion E; subst s' r. apply Hw. exact W.
    + destruct (forallb (present s) srcs); inversion E; subst s' r; [apply Hw; exact W|reflexivity].
Qed.

Lemma last_cons {A} (l : list A) : forall x d, last (x :: l) d = last l x.
Proof.
  induction l as [|y t IH]; intros x d; [reflexivity|].
  change (last (x :: y :: t) d) with (last (y :: t) d). rewrite (IH y d), (IH y x). reflexivity.
Qed.

Lemma last_in {A} (l : list A) : forall d, l <> [] -> In (last l d) l.
Proof.
  induction l as [|x t IH]; intros d H; [contradiction|].
  rewrite last_cons. destruct t as [|y t']; [left; reflexivity|].
  right. apply IH. discriminate.
Qed.

Lemma cur_ver_final b ops : forall s,
  cur_ver (final b s ops) manifest_key = last (man_writes (trace b s ops)) (cur_ver s manifest_key).
Proof.
  induction ops as [|o t IH]; intro s; cbn [final trace]; [reflexivity|].
  destruct (step b s o) as [s' r] eqn:E. cbn [fst man_writes]. rewrite IH.
  destruct (step_class _ _ _ _ _ E) as [[Hm [Hc _]]|[f [Hm [Hc _]]]]; rewrite Hm, Hc; [reflexivity|].
  rewrite last_cons. reflexivity.
Qed.

Lemma no_writes_same b ops : forall s,
  man_writes (trace b s ops) = [] -> final b s ops manifest_key = s manifest_key.
Proof.
  induction ops as [|o t IH]; intros s H; cbn [final trace] in *; [reflexivity|].
  destruct (step b s o) as [s' r] eqn:E. cbn [fst man_writes] in *.
  destruct (man_write (o, r)) eqn:W; [discriminate|].
  rewrite (IH _ H). exact (step_no_write _ _ _ _ _ E W).
Qed.

(* blobstoreManifest.Update is read (version, contents) ... CheckAndPut(version):
   other clients may run in between (any schedule sigma).  Under versions_distinct
   the CheckAndPut succeeds only if nobody wrote the manifest in between, i.e. the
   blob it replaces is the one that was read: read + CAS takes effect atomically
   at the CAS.  (A losing CAS changes nothing: failed_cap_changes_nothing.) *)
Theorem read_then_cap_is_atomic : forall b s1 (sigma : schedule) d f,
  let ver := cur_ver s1 manifest_key in
  versions_distinct s1 (trace b s1 (map snd sigma ++ [OCap ver d f])) ->
  snd (step b (final b s1 (map snd sigma)) (OCap ver d f)) = RVer f ->
  man_writes (sched_trace b s1 sigma) = []
  /\ final b s1 (map snd sigma) manifest_key = s1 manifest_key.
Proof.
  intros b s1 sigma d f ver HD HS. unfold sched_trace. set (ops := map snd sigma) in *.
  assert (Hv : ver = cur_ver (final b s1 ops) manifest_key).
  { destruct (N.eq_dec ver (cur_ver (final b s1 ops) manifest_key)) as [Y|Y]; [exact Y|].
    rewrite (proj2 (cap_succeeds_iff_expected_is_current b _ ver d f) Y) in HS. discriminate. }
  unfold versions_distinct in HD. rewrite trace_app, man_writes_app in HD.
  apply NoDup_cons_iff in HD as [Hnin _].
  assert (E : man_writes (trace b s1 ops) = []).
  { destruct (man_writes (trace b s1 ops)) as [|x l] eqn:M; [reflexivity|].
    exfalso. apply Hnin. apply in_or_app. left.
    rewrite cur_ver_final, M in Hv. fold ver in Hv.
    assert (HI : In (last (x :: l) ver) (x :: l)) by (apply last_in; discriminate).
    rewrite <- Hv in HI. exact HI. }
  split; [exact E|]. apply no_writes_same. exact E.
Qed.

(* Without versions_distinct the statement is FALSE: if the blobstore hands out a
   version again (LocalBlobstore: equal mtime strings), a CheckAndPut carrying the
   version read before another client's write succeeds and overwrites that write.
   This is what the known finding blobstore.local:mtime-version-collision permits. *)
Theorem read_then_cap_is_atomic_without_versions_distinct_refuted :
  exists b s1 (sigma : schedule) d f,
    snd (step b (final b s1 (map snd sigma)) (OCap (cur_ver s1 manifest_key) d f)) = RVer f
    /\ final b s1 (map snd sigma) manifest_key <> s1 manifest_key.
Proof.
  exists Local, (upd empty_store manifest_key (1, [1]))%N, [(1, OPut manifest_key [2] 1)]%N, [3]%N, 2%N.
  split; [reflexivity|]. intro H. vm_compute in H. inversion H.
Qed.

(* ======================================================================== *)
(* NBS on a blobstore = NBS on a local directory                              *)
(* ======================================================================== *)
Lemma parse_ser c : parse (ser c) = c.
Proof. destruct c; reflexivity. Qed.

Definition ms_rel (d : option mc) (s : store) : Prop := local_rd d = bs_rd s.

(* blobstoreManifest.Update (read, CheckAndPut with the version read) computes
   the same new persisted contents and returns the same contents as
   fileManifest.Update, from related states, for every backend *)
Theorem bs_update_refines_local : forall b d s last new fresh,
  ms_rel d s ->
  ms_rel (fst (local_upd d last new fresh)) (fst (bs_upd b s last new fresh))
  /\ snd (local_upd d last new fresh) = snd (bs_upd b s last new fresh).
Proof.
  intros b d s last new fresh R. unfold ms_rel in R. unfold local_upd, bs_upd. rewrite <- R.
  destruct (lock_eqb (local_rd d) last).
  - rewrite (proj1 (cap_succeeds_iff_expected_is_current b s (cur_ver s manifest_key) (ser new) fresh) eq_refl).
    cbn [fst snd]. split; [|reflexivity]. unfold ms_rel, bs_rd. rewrite upd_same, parse_ser. reflexivity.
  - cbn [fst snd]. split; [exact R|reflexivity].
Qed.

Section Sim.
  Variables (T1 T2 : Type) (rd1 : T1 -> mc) (rd2 : T2 -> mc).
  Variables (upd1 : T1 -> mc -> mc -> N -> T1 * mc) (upd2 : T2 -> mc -> mc -> N -> T2 * mc).
  Variable R : T1 -> T2 -> Prop.
  Hypothesis R_rd : forall a b, R a b -> rd1 a = rd2 b.
  Hypothesis R_upd : forall a b last new f, R a b ->
    R (fst (upd1 a last new f)) (fst (upd2 b last new f)) /\ snd (upd1 a last new f) = snd (upd2 b last new f).

  Lemma commit_try_sim a b cl cur last f : R a b ->
    R (fst (fst (commit_try T1 upd1 a cl cur last f))) (fst (fst (commit_try T2 upd2 b cl cur last f)))
    /\ snd (fst (commit_try T1 upd1 a cl cur last f)) = snd (fst (commit_try T2 upd2 b cl cur last f))
    /\ snd (commit_try T1 upd1 a cl cur last f) = snd (commit_try T2 upd2 b cl cur last f).
  Proof.
    intro HR. unfold commit_try.
    destruct (negb (fst (n_up cl) =? last)%N); [cbn [fst snd]; split; [exact HR|split; reflexivity]|].
    destruct (negb (cur =? 0)%N && negb (mem_n cur (n_novel cl ++ snd (n_up cl))));
      [cbn [fst snd]; split; [exact HR|split; reflexivity]|].
    destruct (R_upd a b (n_up cl) (cur, n_novel cl ++ snd (n_up cl)) f HR) as [H1 H2].
    destruct (upd1 a (n_up cl) (cur, n_novel cl ++ snd (n_up cl)) f) as [m1 r1].
    destruct (upd2 b (n_up cl) (cur, n_novel cl ++ snd (n_up cl)) f) as [m2 r2].
    cbn [fst snd] in H1, H2. subst r2.
    destruct (lock_eqb (cur, n_novel cl ++ snd (n_up cl)) r1); [cbn [fst snd]; split; [exact H1|split; reflexivity]|].
    destruct (negb (last =? fst r1)%N); cbn [fst snd]; (split; [exact H1|split; reflexivity]).
  Qed.

  Lemma commit_loop_sim a b cl cur last f1 f2 : R a b ->
    R (fst (fst (commit_loop T1 upd1 a cl cur last f1 f2))) (fst (fst (commit_loop T2 upd2 b cl cur last f1 f2)))
    /\ snd (fst (commit_loop T1 upd1 a cl cur last f1 f2)) = snd (fst (commit_loop T2 upd2 b cl cur last f1 f2))
    /\ snd (commit_loop T1 upd1 a cl cur last f1 f2) = snd (commit_loop T2 upd2 b cl cur last f1 f2).
  Proof.
    intro HR. unfold commit_loop.
    destruct (commit_try_sim a b cl cur last f1 HR) as (H1 & H2 & H3).
    destruct (commit_try T1 upd1 a cl cur last f1) as [[m1 c1] o1].
    destruct (commit_try T2 upd2 b cl cur last f1) as [[m2 c2] o2].
    cbn [fst snd] in H1, H2, H3. subst c2 o2.
    destruct o1 as [r|]; [cbn [fst snd]; split; [exact H1|split; reflexivity]|].
    destruct (commit_try_sim m1 m2 c1 cur last f2 H1) as (G1 & G2 & G3).
    destruct (commit_try T1 upd1 m1 c1 cur last f2) as [[m1' c1'] o1'].
    destruct (commit_try T2 upd2 m2 c1 cur last f2) as [[m2' c2'] o2'].
    cbn [fst snd] in G1, G2, G3. subst c2' o2'.
    destruct o1' as [r|]; cbn [fst snd]; (split; [exact G1|split; reflexivity]).
  Qed.

  Lemma nstep_sim a b cl o : R a b ->
    R (fst (fst (nstep T1 rd1 upd1 a cl o))) (fst (fst (nstep T2 rd2 upd2 b cl o)))
    /\ snd (fst (nstep T1 rd1 upd1 a cl o)) = snd (fst (nstep T2 rd2 upd2 b cl o))
    /\ snd (nstep T1 rd1 upd1 a cl o) = snd (nstep T2 rd2 upd2 b cl o).
  Proof.
    intro HR. destruct o as [x| |cur last f1 f2]; cbn [nstep].
    - cbn [fst snd]. split; [exact HR|split; reflexivity].
    - cbn [fst snd]. rewrite (R_rd _ _ HR). split; [exact HR|split; reflexivity].
    - unfold commit. rewrite (R_rd _ _ HR).
      destruct ((match n_novel cl with [] => true | _ :: _ => false end) && (cur =? match last with Some l => l | None => fst (n_up cl) end)%N).
      + cbn [fst snd]. split; [exact HR|split; reflexivity].
      + apply commit_loop_sim. exact HR.
  Qed.

  Lemma nrun_sim : forall sch a b cls, R a b ->
    nrun T1 rd1 upd1 a cls sch = nrun T2 rd2 upd2 b cls sch.
  Proof.
    induction sch as [|[i o] rest IH]; intros a b cls HR; cbn [nrun]; [reflexivity|].
    destruct (nth_error cls i) as [cl|]; [|apply IH; exact HR].
    destruct (nstep_sim a b cl o HR) as (H1 & H2 & H3).
    destruct (nstep T1 rd1 upd1 a cl o) as [[m1 c1] r1].
    destruct (nstep T2 rd2 upd2 b cl o) as [[m2 c2] r2].
    cbn [fst snd] in H1, H2, H3. subst c2 r2. rewrite (R_rd _ _ H1). f_equal. apply IH. exact H1.
  Qed.
End Sim.

(* "A database stored on a blobstore offers the same root and chunk semantics as
   a local one": for every backend, number of clients and history (every
   schedule of Put / Rebase / Commit steps of the clients), the store whose
   manifest lives in a blob updated by CheckAndPut produces exactly the
   observations (result, caller's root, persisted root and chunk set) of the
   store with a file manifest. *)
Theorem bs_store_same_semantics : forall b n (sch : list (nat * nop)),
  nrun_bs b n sch = nrun_local n sch.
Proof.
  intros b n sch. unfold nrun_bs, nrun_local. symmetry.
  apply (nrun_sim _ _ _ _ _ _ ms_rel).
  - intros a s H. exact H.
  - intros a s last new f H. apply bs_update_refines_local. exact H.
  - reflexivity.
Qed.

(* the blob- and file-manifest steps of one manifest.Update are interleaved with
   other clients' steps in the real code; bs_store_same_semantics treats one
   Update as one step.  What carries that abstraction: read_then_cap_is_atomic
   (under versions_distinct a winning CheckAndPut replaces exactly the blob that
   was read) and failed_cap_changes_nothing.  Full statement at blobstore-step
   granularity (every interleaving of the read / CheckAndPut / re-read steps of
   several clients is equivalent to an interleaving of atomic Updates) is not
   proved here: a losing CheckAndPut followed by a re-read that finds contents
   whose lock equals lastLock again (A-B-A on contents) returns "lock unchanged"
   without having written, which no atomic Update does; NBS then retries. *)

Lemma set_nth_length i c : forall l, length (set_nth i c l) = length l.
Proof.
  induction i as [|j IH]; intros [|h t]; cbn [set_nth length]; try reflexivity.
  rewrite IH. reflexivity.
Qed.

Lemma nrun_length T rd upd : forall sch m cls,
  forallb (fun io => Nat.ltb (fst io) (length cls)) sch = true ->
  length (nrun T rd upd m cls sch) = length sch.
Proof.
  induction sch as [|[i o] rest IH]; intros m cls H; cbn [nrun]; [reflexivity|].
  cbn [forallb fst] in H. apply andb_prop in H as [H1 H2]. apply Nat.ltb_lt in H1.
  destruct (nth_error cls i) as [cl|] eqn:E.
  - destruct (nstep T rd upd m cl o) as [[m' cl'] r]. cbn [length]. f_equal.
    apply IH. rewrite set_nth_length. exact H2.
  - apply nth_error_None in E. lia.
Qed.

Lemma list_eqb_refl {A} (eqb : A -> A -> bool) : (forall x, eqb x x = true) -> forall l, list_eqb eqb l l = true.
Proof. intros H l. induction l as [|x t IH]; [reflexivity|]. cbn [list_eqb]. rewrite H, IH. reflexivity. Qed.

Lemma nobs_eqb_refl x : nobs_eqb x x = true.
Proof. unfold nobs_eqb. rewrite !N.eqb_refl, beq_bytes_refl. reflexivity. Qed.

(* ======================================================================== *)
(* GitBlobstore: ranges, and the lease-retry loop of CheckAndPutManifest      *)
(* ======================================================================== *)
Local Open Scope Z_scope.

Theorem range_spec_git : forall val ver off len,
  0 <= len -> in_range (zlen val) off = true ->
  git_get val ver off len = RBytes (spec_slice val off len) (N.of_nat (length val)) ver.
Proof.
  intros val ver off len Hl Hr. unfold git_get.
  destruct (is_all_range off len) eqn:A.
  - unfold is_all_range in A. apply andb_prop in A as [A1 A2].
    apply Z.eqb_eq in A1. apply Z.eqb_eq in A2. subst off len. reflexivity.
  - pose proof (in_range_bounds _ _ (zlen_nonneg val) Hr) as Hb.
    unfold positive_range. fold (win_start (zlen val) off).
    set (a := win_start (zlen val) off) in *. set (n := zlen val) in *.
    assert (Hd : length (skipn (Z.to_nat a) val) = Z.to_nat (n - a)) by (apply skipn_len; exact Hb).
    destruct (Z.ltb_spec a 0) as [X|_]; [lia|]. destruct (Z.ltb_spec n a) as [X|_]; [lia|]. cbn [orb].
    rewrite spec_slice_window. fold a. unfold window. rewrite Z.gtb_ltb.
    destruct (Z.eqb_spec len 0) as [L0|L0].
    + rewrite orb_true_r. destruct (Z.ltb_spec (n - a) 0) as [X|_]; [lia|].
      f_equal. apply firstn_all2. fold n; fold a. rewrite Hd.
      destruct (Z.eqb_spec (n - a) 0); destruct (Z.ltb_spec n (a + (n - a))); lia.
    + rewrite orb_false_r. destruct (Z.ltb_spec n (a + len)) as [G|G].
      * destruct (Z.ltb_spec (n - a) 0) as [X|_]; [lia|]. f_equal.
        fold n; fold a.
        rewrite firstn_all2 by (rewrite Hd; destruct (Z.eqb_spec (n - a) 0); destruct (Z.ltb_spec n (a + (n - a))); lia).
        symmetry. apply firstn_all2. rewrite Hd. lia.
      * destruct (Z.ltb_spec len 0) as [X|_]; [lia|]. f_equal.
        destruct (Z.eqb_spec len 0) as [X|_]; [contradiction|].
        fold n; fold a. destruct (Z.ltb_spec n (a + len)) as [X|_]; [lia|]. f_equal. lia.
Qed.

Theorem range_out_of_range_git : forall val ver off len,
  0 <= len -> in_range (zlen val) off = false -> git_get val ver off len = RErr.
Proof.
  intros val ver off len Hl Hr. pose proof (zlen_nonneg val) as Hn.
  assert (Ho : off < - zlen val \/ zlen val < off).
  { unfold in_range in Hr. destruct (Z.leb_spec (- zlen val) off); destruct (Z.leb_spec off (zlen val)); cbn in Hr; try discriminate; lia. }
  unfold git_get.
  assert (A : is_all_range off len = false).
  { unfold is_all_range. destruct (Z.eqb_spec off 0); [lia|reflexivity]. }
  rewrite A. unfold positive_range.
  set (o := if off <? 0 then zlen val + off else off).
  assert (Hob : o < 0 \/ zlen val < o) by (unfold o; destruct (Z.ltb_spec off 0); lia).
  destruct (Z.ltb_spec o 0); destruct (Z.ltb_spec (zlen val) o); cbn [orb]; try reflexivity. lia.
Qed.
Local Close Scope Z_scope.

Lemma get_ok_git val v off len : (0 <= len)%Z -> get_ok val v off len (git_get val v off len) = true.
Proof.
  intro Hl. destruct (in_range (zlen val) off) eqn:R.
  - rewrite range_spec_git by assumption. cbn [get_ok]. rewrite beq_bytes_refl, !N.eqb_refl. reflexivity.
  - rewrite range_out_of_range_git by assumption. cbn [get_ok]. rewrite R. reflexivity.
Qed.

Lemma spec_step_git s o s' r : git_step s o = (s', r) -> spec_step s o r = Some s'.
Proof.
  intro E. destruct o as [k off len|k d f|e d f|k srcs f]; try (exact (spec_step_model Local _ _ _ _ E)).
  cbn [git_step] in E. cbn [spec_step].
  destruct (Z.ltb_spec len 0) as [Ln|Ln].
  - inversion E; reflexivity.
  - destruct (s k) as [[v val]|]; inversion E; subst s' r; [|reflexivity].
    rewrite get_ok_git by exact Ln. reflexivity.
Qed.

Lemma spec_trace_git ops : forall s, spec_trace s (git_trace s ops) = true.
Proof.
  induction ops as [|o t IH]; intro s; cbn [git_trace]; [reflexivity|].
  destruct (git_step s o) as [s' r] eqn:E. cbn [spec_trace].
  rewrite (spec_step_git _ _ _ _ E). apply IH.
Qed.

Lemma git_trace_ops ops : forall s, map fst (git_trace s ops) = ops.
Proof.
  induction ops as [|o t IH]; intro s; cbn [git_trace]; [reflexivity|].
  destruct (git_step s o) as [s' r]. cbn [map fst]. rewrite IH. reflexivity.
Qed.

Lemma not_push_no_write e : is_push e = false -> man_write e = None.
Proof.
  destruct e as [o r]. destruct o as [k off len|k d f|e d f|k srcs f]; destruct r; cbn [is_push man_write]; intro H;
    try reflexivity; discriminate.
Qed.

Lemma head_not_moved_no_writes h : head_moved h = false -> man_writes h = [].
Proof.
  induction h as [|e t IH]; [reflexivity|]. unfold head_moved. cbn [existsb man_writes]. intro H.
  apply orb_false_elim in H as [H1 H2]. rewrite (not_push_no_write _ H1). apply IH. exact H2.
Qed.

(* The retry loop IS one atomic compare-and-swap, executed on the remote state that
   contains everything the other clients pushed before its last attempt: for every
   sequence of foreign histories between the attempts, the client's result and
   effect are those of [step] at that state — success only if the expected version
   is the version stored at the successful push; no foreign push is undone. *)
Theorem git_cap_retry_is_cas : forall (foreign : list (list op)) first s e d f,
  let r := git_cap_loop true first s e f foreign in
  step Local (fst r) (OCap e d f) = (git_cap_result d f r, snd r).
Proof.
  induction foreign as [|sigma rest IH]; intros first s e d f; cbn [git_cap_loop]; rewrite orb_true_r; cbn [andb];
    destruct (N.eqb_spec e (cur_ver s manifest_key)) as [He|He]; cbn [negb].
  - cbv zeta. cbn [fst snd git_cap_result]. unfold git_cap_result. cbn [fst snd].
    apply (proj1 (cap_succeeds_iff_expected_is_current Local s e d f)). exact He.
  - cbv zeta. unfold git_cap_result. cbn [fst snd].
    apply (proj2 (cap_succeeds_iff_expected_is_current Local s e d f)). exact He.
  - destruct (head_moved (trace Local s sigma)) eqn:M.
    + apply IH.
    + cbv zeta. unfold git_cap_result. cbn [fst snd].
      apply (proj1 (cap_succeeds_iff_expected_is_current Local _ e d f)).
      unfold cur_ver. rewrite (no_writes_same Local sigma s (head_not_moved_no_writes _ M)). exact He.
  - cbv zeta. unfold git_cap_result. cbn [fst snd].
    apply (proj2 (cap_succeeds_iff_expected_is_current Local s e d f)). exact He.
Qed.

Corollary git_cap_success_only_if_expected_at_push : forall foreign first s e f sp f',
  git_cap_loop true first s e f foreign = (sp, RVer f') -> e = cur_ver sp manifest_key.
Proof.
  intros foreign first s e f sp f' H.
  pose proof (git_cap_retry_is_cas foreign first s e [] f) as G. cbv zeta in G. rewrite H in G. cbn [fst snd] in G.
  destruct (N.eq_dec e (cur_ver sp manifest_key)) as [Y|Y]; [exact Y|].
  rewrite (proj2 (cap_succeeds_iff_expected_is_current Local sp e [] f) Y) in G. inversion G.
Qed.

(* The variant that validates the expected version only on the first attempt (what a
   "validate and hash once, rebuild on retry" rewrite does) is NOT a compare-and-swap:
   a foreign CheckAndPut between the fetch and the push is overwritten and success
   is reported although the stored version was not the expected one. *)
Theorem git_cap_validate_once_refuted :
  exists s e f (foreign : list (list op)),
    let r := git_cap_loop false true s e f foreign in
    snd r = RVer f /\ e <> cur_ver (fst r) manifest_key.
Proof.
  exists (upd empty_store manifest_key (1, [1]))%N, 1%N, 3%N, [[OCap 1 [2] 2]]%N.
  vm_compute. split; [reflexivity|discriminate].
Qed.

(* ======================================================================== *)
(* Get returns the (version, contents) of ONE store state                     *)
(* ======================================================================== *)
Theorem get_pair_is_a_state : forall b s v val,
  s manifest_key = Some (v, val) ->
  snd (step b s (OGet manifest_key 0 0)) = RBytes val (N.of_nat (length val)) v.
Proof.
  intros b s v val H. cbn [step]. cbn [Z.ltb Z.compare]. rewrite H. destruct b; reflexivity.
Qed.

Lemma step_pair_effect b s o s1 r t :
  step b s o = (s1, r) ->
  (forall srcs f, o <> OCat manifest_key srcs f) ->
  (s1 manifest_key = s manifest_key /\ written_pairs ((o, r) :: t) = written_pairs t)
  \/ exists f d, s1 manifest_key = Some (f, d) /\ written_pairs ((o, r) :: t) = (f, d) :: written_pairs t.
Proof.
  intros E NC. destruct o as [k off len|k d f|e d f|k srcs f]; cbn [step] in E.
  - left. assert (s1 = s) as -> by (destruct (len <? 0)%Z; [|destruct (s k) as [[v val]|]]; inversion E; reflexivity).
    split; [reflexivity|]. destruct r; reflexivity.
  - inversion E; subst s1 r. cbn [written_pairs]. destruct (N.eqb_spec k manifest_key) as [->|Hk].
    + right. exists f, d. split; [apply upd_same|reflexivity].
    + left. split; [|reflexivity]. apply upd_other. intro X; apply Hk; symmetry; exact X.
  - rewrite cap_check_spec in E. destruct (N.eqb e (cur_ver s manifest_key)); inversion E; subst s1 r.
    + right. exists f, d. split; [apply upd_same|reflexivity].
    + left. split; reflexivity.
  - assert (Hk : k <> manifest_key) by (intros ->; exact (NC srcs f eq_refl)).
    left. assert (Hs : s1 manifest_key = s manifest_key).
    { destruct b; [|destruct (forallb (present s) srcs)]; inversion E; subst s1 r; try reflexivity;
        apply upd_other; intro X; apply Hk; symmetry; exact X. }
    split; [exact Hs|]. destruct r; reflexivity.
Qed.

(* every manifest state of a history (without Concatenate onto the manifest key) is
   the initial one or a pair installed by a successful write of that history: these
   are the only pairs a Get can return *)
Theorem manifest_pair_was_written : forall b ops s,
  (forall o srcs f, In o ops -> o <> OCat manifest_key srcs f) ->
  final b s ops manifest_key = s manifest_key
  \/ exists f d, In (f, d) (written_pairs (trace b s ops)) /\ final b s ops manifest_key = Some (f, d).
Proof.
  intros b ops. induction ops as [|o t IH]; intros s NC; cbn [final trace]; [left; reflexivity|].
  destruct (step b s o) as [s1 r] eqn:E. cbn [fst].
  assert (NCt : forall o' srcs f, In o' t -> o' <> OCat manifest_key srcs f) by (intros o' srcs f Hi; apply NC; right; exact Hi).
  assert (NCo : forall srcs f, o <> OCat manifest_key srcs f) by (intros srcs f; apply NC; left; reflexivity).
  destruct (step_pair_effect b s o s1 r (trace b s1 t) E NCo) as [[Hs Hw]|[f [d [Hs Hw]]]]; rewrite Hw;
    destruct (IH s1 NCt) as [Hf|[f' [d' [Hi Hf]]]].
  - left. rewrite Hf. exact Hs.
  - right. exists f', d'. split; assumption.
  - right. exists f, d. split; [left; reflexivity|]. rewrite Hf. exact Hs.
  - right. exists f', d'. split; [right; exact Hi|exact Hf].
Qed.

Lemma mem_pair_in p l : In p l -> mem_pair p l = true.
Proof.
  intro H. unfold mem_pair. apply existsb_exists. exists p. split; [exact H|].
  rewrite N.eqb_refl, beq_bytes_refl. reflexivity.
Qed.

Lemma get_pair_consistent_refl l : get_pair_consistent l l = true.
Proof. unfold get_pair_consistent. apply forallb_forall. intros p H. apply mem_pair_in. exact H. Qed.

(* the oracle holds on every model run: blobstore cases under measured version
   freshness; git cases under the measured version/contents relation; NBS cases
   whenever the history only names existing clients *)
Theorem oracle_on_model : forall i : input,
  match i with
  | IBlob b sch => fresh_trace [] (sched_trace b empty_store sch) = true
  | INbs n _ ops => forallb (fun io => Nat.ltb (fst io) n) ops = true
  | IGit sch => ver_content_ok (written_pairs (git_trace empty_store (map snd sch))) = true
  | IStress _ _ => True
  end ->
  oracle i (model_obs i) = true.
Proof.
  intros [b sch|n univ ops|sch|b sch] H; cbn [oracle model_obs].
  - apply blob_oracle_on_model. exact H.
  - rewrite !bs_store_same_semantics. rewrite !list_eqb_refl by exact nobs_eqb_refl.
    rewrite map_length. unfold nrun_local. rewrite nrun_length.
    + rewrite Nat.eqb_refl. reflexivity.
    + unfold init_clients. rewrite repeat_length. exact H.
  - unfold git_oracle. set (ops := map snd sch) in *.
    assert (Hc : combine ops (map snd (git_trace empty_store ops)) = git_trace empty_store ops).
    { rewrite <- (git_trace_ops ops empty_store) at 1. apply combine_fst_snd. }
    rewrite Hc, H, spec_trace_git, !andb_true_r.
    rewrite map_length. rewrite <- (git_trace_ops ops empty_store) at 2. rewrite map_length. apply Nat.eqb_refl.
  - unfold stress_oracle, blob_model, sched_trace. set (ops := map snd sch) in *.
    assert (Hc : combine ops (map snd (trace b empty_store ops)) = trace b empty_store ops).
    { rewrite <- (trace_ops b ops empty_store) at 1. apply combine_fst_snd. }
    rewrite Hc, spec_trace_model, get_pair_consistent_refl, !andb_true_r.
    rewrite map_length. rewrite <- (trace_ops b ops empty_store) at 2. rewrite map_length. apply Nat.eqb_refl.
Qed.

(* non-vacuity: a schedule with two clients racing on the same expected version,
   a stale retry and a reader satisfies versions_distinct and the oracle; an NBS
   history with a lost race, a retry and a dangling commit *)
Example oracle_example :
  let i : input := IBlob Local [(0, OCap 0 [1] 1); (1, OCap 1 [2] 2); (2, OCap 1 [3] 0); (2, OGet 0 (-1)%Z 0%Z); (1, OCap 0 [4] 0)]%N in
  fresh_trace [] (sched_trace Local empty_store [(0, OCap 0 [1] 1); (1, OCap 1 [2] 2); (2, OCap 1 [3] 0); (2, OGet 0 (-1)%Z 0%Z); (1, OCap 0 [4] 0)]%N) = true
  /\ model_obs i = OBlob [RVer 1; RVer 2; RCasFail 2; RBytes [2] 1 2; RCasFail 2]%N
  /\ check_case (i, model_obs i) = 0%N.
Proof. vm_compute. repeat split. Qed.

Local Open Scope N_scope.
Example nbs_example :
  let c0 := 0%nat in let c1 := 1%nat in
  map (fun o => (fst (fst o), snd (fst o), fst (snd o)))
      (nrun_bs InMem 2 [(c0, NPut 1); (c0, NCommit 1 None 1 2); (c1, NPut 2); (c1, NCommit 2 None 3 4); (c1, NCommit 2 None 5 6);
                        (c0, NPut 3); (c0, NCommit 4 None 7 8); (c0, NCommit 0 (Some 0) 9 10); (c0, NRebase); (c0, NCommit 3 (Some 2) 11 12);
                        (c1, NCommit 2 (Some 2) 13 14)])
  = [(0, 0, 0); (0, 1, 1); (0, 0, 1); (1, 1, 1); (0, 2, 2); (0, 1, 2); (2, 1, 2); (1, 1, 2); (0, 2, 2); (0, 3, 3); (0, 3, 3)].
Proof. vm_compute. reflexivity. Qed.
