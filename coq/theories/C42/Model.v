(* C42 — Blobstore conditional put, ranged reads, concatenation: executable model.
   Mirrors go/store/blobstore/{range,inmem,local,blobstore}.go.  No proofs here.

   A store maps a key (small number; 0 = ManifestKey) to (version, bytes).
   Versions are numbers; 0 stands for the empty version string (= "no blob").
   Every write carries the version the backend generated for it (uuid for the
   in-memory store, mtime string for the local one) as an input [fresh]: the
   model is parametrised over the version generator; the freshness the proofs
   need is the hypothesis [versions_distinct] in Proofs.v.

   Each operation is ONE atomic step (in-memory: under bs.mutex; local:
   CheckAndPutManifest under the file lock, Put = rename, Get = open). *)
From Coq Require Import NArith ZArith List Bool.
From Dolt Require Import Base.Str.
Import ListNotations.

Inductive backend := InMem | Local.

Definition store := N -> option (N * bytes).
Definition empty_store : store := fun _ => None.
Definition upd (s : store) (k : N) (v : N * bytes) : store :=
  fun k' => if N.eqb k' k then Some v else s k'.
Definition cur_ver (s : store) (k : N) : N :=
  match s k with Some (v, _) => v | None => 0%N end.
Definition manifest_key : N := 0%N.

Inductive op :=
| OGet (k : N) (off len : Z)                  (* Get(key, NewBlobRange(off,len)) + ReadAll *)
| OPut (k : N) (data : bytes) (fresh : N)     (* Put *)
| OCap (expected : N) (data : bytes) (fresh : N)   (* CheckAndPutManifest *)
| OCat (k : N) (srcs : list N) (fresh : N).   (* Concatenate *)

Inductive res :=
| RBytes (b : bytes) (size : N) (ver : N)
| RNotFound
| RVer (v : N)              (* write succeeded, new version *)
| RCasFail (actual : N)     (* CheckAndPutError{actual version} *)
| RErr                      (* any other error *)
| RPanic.                   (* Go run-time panic *)

Local Open Scope Z_scope.

Definition zlen (b : bytes) : Z := Z.of_nat (length b).

(* range.go: BlobRange.isAllRange *)
Definition is_all_range (off len : Z) : bool := (off =? 0) && (len =? 0).

(* range.go: BlobRange.positiveRange(size) — (offset, length) *)
Definition positive_range (size off len : Z) : Z * Z :=
  let off1 := if off <? 0 then size + off else off in
  let len1 := if (off1 + len >? size) || (len =? 0) then size - off1 else len in
  (off1, len1).

(* Go slice expression val[a:b]: panics unless 0 <= a <= b <= len(val) *)
Definition go_slice (val : bytes) (a b : Z) : option bytes :=
  if (0 <=? a) && (a <=? b) && (b <=? zlen val)
  then Some (firstn (Z.to_nat (b - a)) (skipn (Z.to_nat a) val))
  else None.

(* inmem.go: InMemoryBlobstore.Get (blob found) *)
Definition inmem_get (val : bytes) (ver : N) (off len : Z) : res :=
  (* the panic "Blob without version" (ver = "") is unreachable: put always stores
     uuid.New().String(); it is excluded by versions_distinct (fresh <> 0) *)
  if is_all_range off len then RBytes val (N.of_nat (length val)) ver
  else
    let '(o, l) := positive_range (zlen val) off len in
    match (if l =? 0 then go_slice val o (zlen val) else go_slice val o (o + l)) with
    | Some b => RBytes b (N.of_nat (length val)) ver
    | None => RPanic                               (* slice bounds out of range *)
    end.

(* local.go: readCloserForFileRange + localBlobRangeReadCloser, read to EOF:
   Seek to o (beyond EOF is fine), then everything (l = 0) or at most l bytes *)
Definition file_read (val : bytes) (o l : Z) : bytes :=
  let d := skipn (Z.to_nat o) val in
  if l =? 0 then d else firstn (Z.to_nat l) d.

(* local.go: LocalBlobstore.Get (file found) *)
Definition local_get (val : bytes) (ver : N) (off len : Z) : res :=
  if off <? 0 then
    let '(o, l) := positive_range (zlen val) off len in
    if o <? 0 then RErr                            (* Seek: invalid argument *)
    else RBytes (file_read val o l) (N.of_nat (length val)) ver
  else RBytes (file_read val off len) (N.of_nat (length val)) ver.

Definition backend_get (b : backend) := match b with InMem => inmem_get | Local => local_get end.

Definition blob_or_empty (s : store) (k : N) : bytes :=
  match s k with Some (_, d) => d | None => [] end.
Definition present (s : store) (k : N) : bool :=
  match s k with Some _ => true | None => false end.
Definition concat_blobs (s : store) (srcs : list N) : bytes := flat_map (blob_or_empty s) srcs.

(* inmem.go / local.go: CheckAndPutManifest's version check *)
Definition cap_check (b : backend) (s : store) (expected : N) : bool :=
  match b with
  | InMem => match s manifest_key with                      (* !ok && e == "" || ok && e == ver *)
             | None => N.eqb expected 0
             | Some (v, _) => N.eqb expected v
             end
  | Local => N.eqb expected (cur_ver s manifest_key)        (* ver = "" when NotFound; e != ver fails *)
  end.

(* one atomic step *)
Definition step (b : backend) (s : store) (o : op) : store * res :=
  match o with
  | OGet k off len =>
    if len <? 0 then (s, RPanic)                            (* NewBlobRange panics *)
    else match s k with
         | None => (s, RNotFound)
         | Some (v, val) => (s, backend_get b val v off len)
         end
  | OPut k d f => (upd s k (f, d), RVer f)
  | OCap e d f =>
    if cap_check b s e then (upd s manifest_key (f, d), RVer f)
    else (s, RCasFail (cur_ver s manifest_key))
  | OCat k srcs f =>
    match b with
    | InMem => (upd s k (f, concat_blobs s srcs), RVer f)   (* composeObjects: missing source = empty *)
    | Local => if forallb (present s) srcs                  (* os.Open of a missing source fails *)
               then (upd s k (f, concat_blobs s srcs), RVer f)
               else (s, RErr)
    end
  end.

Fixpoint trace (b : backend) (s : store) (ops : list op) : list (op * res) :=
  match ops with
  | [] => []
  | o :: t => let '(s', r) := step b s o in (o, r) :: trace b s' t
  end.

Fixpoint final (b : backend) (s : store) (ops : list op) : store :=
  match ops with
  | [] => s
  | o :: t => final b (fst (step b s o)) t
  end.

(* a schedule: which client performs which atomic step, in execution order *)
Definition schedule := list (N * op).
Definition sched_trace (b : backend) (s : store) (sch : schedule) : list (op * res) :=
  trace b s (map snd sch).
