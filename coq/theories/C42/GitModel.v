(* C42 — GitBlobstore: executable model of what is stated exactly.  No proofs here.

   go/store/blobstore/git_blobstore.go.  The manifest key of a remote-managed
   GitBlobstore: the stored version of a key is the git object id of its blob
   (content addressed: identical contents <=> identical version — the model takes
   the version of every write from the implementation like for the other backends,
   and the oracle checks that relation instead of freshness).
   Get = sliceInlineBlob: exact window for a start inside the blob, error for a
   start outside (both directions).  CheckAndPutManifest = checkAndPutWithRemoteSync
   under remoteManagedWrite: a loop of (fetch remote head, validate expected version
   at that head, build commit, push with lease on that head); the push fails iff the
   remote head moved since the fetch (any push of any client), and then the loop runs
   again on the new head.  Not modelled: deferred Puts of other keys (idempotent,
   flushed by the next CheckAndPutManifest), chunked objects, the read-side fetch
   dedup window (SyncForReadTTL; the harness sets it to 1ns). *)
From Coq Require Import NArith ZArith List Bool.
From Dolt Require Import Base.Str C42.Model.
Import ListNotations.
Local Open Scope Z_scope.

(* sliceInlineBlob *)
Definition git_get (val : bytes) (ver : N) (off len : Z) : res :=
  let size := zlen val in
  if is_all_range off len then RBytes val (N.of_nat (length val)) ver
  else
    let '(o, l) := positive_range size off len in
    if (o <? 0) || (size <? o) then RErr                 (* invalid BlobRange offset *)
    else if l <? 0 then RErr                             (* invalid BlobRange length *)
    else
      let l1 := if l =? 0 then size - o else l in
      let l2 := if size <? o + l1 then size - o else l1 in
      RBytes (firstn (Z.to_nat l2) (skipn (Z.to_nat o) val)) (N.of_nat (length val)) ver.

(* one API call of a client, as one atomic step on the remote's contents *)
Definition git_step (s : store) (o : op) : store * res :=
  match o with
  | OGet k off len =>
    if len <? 0 then (s, RPanic)
    else match s k with
         | None => (s, RNotFound)
         | Some (v, val) => (s, git_get val v off len)
         end
  | _ => step Local s o
  end.

Fixpoint git_trace (s : store) (ops : list op) : list (op * res) :=
  match ops with
  | [] => []
  | o :: t => let '(s', r) := git_step s o in (o, r) :: git_trace s' t
  end.

(* ---- the retry loop of checkAndPutWithRemoteSync -------------------------- *)
(* did a foreign history move the remote head?  (every successful write is a push) *)
Definition is_push (e : op * res) : bool :=
  match e with (OGet _ _ _, _) => false | (_, RVer _) => true | _ => false end.
Definition head_moved (h : list (op * res)) : bool := existsb is_push h.

(* [foreign] : for each attempt that is followed by another one, the other clients'
   operations that reach the remote between this attempt's fetch and its push.
   [revalidate] = true is the code: every attempt compares the expected version with
   the version at the head it fetched.  Returns the remote state right before this
   client's own effect, and its result. *)
Fixpoint git_cap_loop (revalidate first : bool) (s : store) (e : N) (f : N) (foreign : list (list op))
  : store * res :=
  if (first || revalidate) && negb (N.eqb e (cur_ver s manifest_key))
  then (s, RCasFail (cur_ver s manifest_key))
  else match foreign with
       | [] => (s, RVer f)                               (* nobody interferes: the lease holds *)
       | sigma :: rest =>
         let s' := final Local s sigma in
         if head_moved (trace Local s sigma)
         then git_cap_loop revalidate false s' e f rest  (* lease lost: fetch again, retry *)
         else (s', RVer f)
       end.

Definition git_cap_result (d : bytes) (f : N) (r : store * res) : store :=
  match snd r with RVer _ => upd (fst r) manifest_key (f, d) | _ => fst r end.
