(* C19 — merge bases, ancestor walks, fast-forward test.  Executable model of
     go/store/datas/commit.go          FindCommonAncestor (closure iterators),
                                       findCommonAncestorUsingParentsList, findCommonCommit,
                                       parentsToQueue, CommitByHeightHeap
     go/store/datas/commit_closure.go  newParentsClosureIterator, fbParentsClosureIterator
     go/libraries/doltcore/doltdb/commit.go  GetAncestor, CanFastForwardTo, GetCommitAncestor
   over the commit store of C18/Model.v (what the code reads: stored parents,
   stored heights, stored closures).  No proofs here.
   FindClosureCommonAncestor (SetCommitClosure / LazyCommitClosure) is only
   called from tests in the current tree and is not modelled. *)
From Coq Require Import List Arith Bool NArith.
From Dolt Require Import Graph.CommitDag C18.Model.
Import ListNotations.

Section WithRank.
  Variable rank : nat -> nat.        (* byte order of addresses, see C18/Model.v *)

  Definition hgt (s : store) (c : nat) : nat := c_height (get s c).
  Definition self_key (s : store) (c : nat) : key := (hgt s c, c).

  (* newParentsClosureIterator: curr starts at the key of the commit itself;
     Next() then yields the stored closure in reverse (descending) key order *)
  Definition closure_iter (s : store) (c : nat) : list key :=
    self_key s c :: rev (c_closure (get s c)).

  (* the loop of FindCommonAncestor.  l1 / l2 = current key :: keys still to come.
     equal hashes -> found; pi1.Less(pi2) -> advance pi2, else advance pi1;
     an exhausted iterator -> no common ancestor *)
  Fixpoint mb_walk (l1 : list key) : list key -> option nat :=
    match l1 with
    | [] => fun _ => None
    | k1 :: r1 =>
      (fix go (l2 : list key) : option nat :=
         match l2 with
         | [] => None
         | k2 :: r2 =>
           if snd k1 =? snd k2 then Some (snd k1)
           else match key_cmp rank k1 k2 with
                | Lt => go r2
                | _ => mb_walk r1 l2
                end
         end)
    end.

  Definition mb_closure (s : store) (c1 c2 : nat) : option nat :=
    mb_walk (closure_iter s c1) (closure_iter s c2).

  (* ---- findCommonAncestorUsingParentsList ----
     A CommitByHeightHeap is modelled as the multiset (list) of its elements:
     MaxHeight = greatest height, PopCommitsOfHeight(h) = all elements of that
     height.  The order inside a level is not observable: findCommonCommit goes
     through maps and sorts by address, parentsToQueue pushes the parents of
     each distinct popped commit. *)
  Definition maxh (s : store) (q : list nat) : nat := max_of (map (hgt s) q).
  Definition at_level (s : store) (hh : nat) (q : list nat) : list nat :=
    filter (fun c => hgt s c =? hh) q.
  Definition below_level (s : store) (hh : nat) (q : list nat) : list nat :=
    filter (fun c => negb (hgt s c =? hh)) q.
  Definition push_parents (s : store) (popped : list nat) : list nat :=
    flat_map (fun c => c_parents (get s c)) (dedup popped).

  (* findCommonCommit: the commits present in both, sorted by address, first one *)
  Fixpoint min_rank (l : list nat) : option nat :=
    match l with
    | [] => None
    | x :: r => match min_rank r with
                | None => Some x
                | Some y => if rank x <? rank y then Some x else Some y
                end
    end.
  Definition find_common (p1 p2 : list nat) : option nat :=
    min_rank (filter (fun c => memb c p2) p1).

  (* None = out of fuel (excluded by mb_parents_total) *)
  Fixpoint mb_parents_fuel (fuel : nat) (s : store) (q1 q2 : list nat) : option (option nat) :=
    match fuel with
    | O => None
    | S f =>
      match q1, q2 with
      | [], _ => Some None
      | _, [] => Some None
      | _, _ =>
        let h1 := maxh s q1 in
        let h2 := maxh s q2 in
        if h1 =? h2 then
          let p1 := at_level s h1 q1 in
          let p2 := at_level s h2 q2 in
          match find_common p1 p2 with
          | Some c => Some (Some c)
          | None => mb_parents_fuel f s (below_level s h1 q1 ++ push_parents s p1)
                                        (below_level s h2 q2 ++ push_parents s p2)
          end
        else if h2 <? h1 then
          mb_parents_fuel f s (below_level s h1 q1 ++ push_parents s (at_level s h1 q1)) q2
        else
          mb_parents_fuel f s q1 (below_level s h2 q2 ++ push_parents s (at_level s h2 q2))
      end
    end.

  Definition mb_parents (s : store) (c1 c2 : nat) : option (option nat) :=
    mb_parents_fuel (hgt s c1 + hgt s c2 + 1) s [c1] [c2].

  (* FindCommonAncestor: a commit without a stored closure (a root: empty
     ParentClosure address) sends the call to the parents-list walk *)
  Definition find_common_ancestor (s : store) (c1 c2 : nat) : option (option nat) :=
    match c_closure (get s c1), c_closure (get s c2) with
    | [], _ => mb_parents s c1 c2
    | _, [] => mb_parents s c1 c2
    | _, _ => Some (mb_closure s c1 c2)
    end.

  (* ---- Commit.GetAncestor: follow the parent indices; an index >= NumParents
          is ErrInvalidAncestorSpec ---- *)
  Fixpoint walk (s : store) (c : nat) (insts : list nat) : option nat :=
    match insts with
    | [] => Some c
    | i :: r => match nth_error (c_parents (get s c)) i with
                | None => None
                | Some p => walk s p r
                end
    end.

  (* ---- Commit.CanFastForwardTo ---- *)
  Inductive ff_result :=
  | FF_ok            (* (true, nil)          *)
  | FF_uptodate      (* (true, ErrUpToDate)  *)
  | FF_ahead         (* (false, ErrIsAhead)  *)
  | FF_diverged      (* (false, nil)         *)
  | FF_noancestor    (* (false, ErrNoCommonAncestor via GetCommitAncestor) *)
  | FF_fuel.         (* model ran out of fuel: excluded by can_ff_total *)

  Definition can_ff (s : store) (c new : nat) : ff_result :=
    match find_common_ancestor s c new with
    | None => FF_fuel
    | Some None => FF_noancestor
    | Some (Some a) =>
      if a =? c then (if a =? new then FF_uptodate else FF_ok)
      else if a =? new then FF_ahead else FF_diverged
    end.
End WithRank.

(* instruction lists as produced by C44's parse_instructions (run-length encoded) *)
Definition expand_rle (l : list (N * N)) : list nat :=
  flat_map (fun pn => repeat (N.to_nat (fst pn)) (N.to_nat (snd pn))) l.
