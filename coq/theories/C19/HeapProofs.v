(* C19 — container/heap as used by CommitByHeightHeap: up / down keep the heap
   order, Pop returns a least element of Less (a commit of maximal height), and
   the heap-based walk equals the multiset model (heap_refines_multiset). *)
From Coq Require Import List Arith Bool Lia.
From Dolt Require Import Graph.CommitDag Graph.CommitDagFacts C18.Model C18.Proofs
                         C19.Model C19.Spec C19.Proofs C19.HeapModel.
Import ListNotations.

Section HeapFacts.
  Variable lessb : nat -> nat -> bool.
  Definition hle (x y : nat) : Prop := lessb y x = false.
  Hypothesis less_le : forall x y, lessb x y = true -> hle x y.
  Hypothesis hle_trans : forall x y z, hle x y -> hle y z -> hle x z.

  Lemma hle_refl x : hle x x.
  Proof. unfold hle. destruct (lessb x x) eqn:E; [|reflexivity]. pose proof (less_le _ _ E) as F. unfold hle in F. congruence. Qed.

  (* ---- arrays ---- *)
  Lemma upd_length i x a : length (upd i x a) = length a.
  Proof. revert i. induction a as [|y r IH]; intros [|i]; cbn [upd length]; try reflexivity. rewrite IH. reflexivity. Qed.

  Lemma nth_upd i x a k : i < length a -> nth k (upd i x a) 0 = if k =? i then x else nth k a 0.
  Proof.
    revert i k. induction a as [|y r IH]; intros i k Hi; cbn [length] in Hi; [lia|].
    destruct i as [|i], k as [|k]; cbn [upd nth Nat.eqb]; try reflexivity. apply IH. lia.
  Qed.

  Lemma swap_length i j a : length (swap i j a) = length a.
  Proof. unfold swap. rewrite !upd_length. reflexivity. Qed.

  Lemma nth_swap i j a k : i < length a -> j < length a ->
    nth k (swap i j a) 0 = if k =? i then nth j a 0 else if k =? j then nth i a 0 else nth k a 0.
  Proof.
    intros Hi Hj. unfold swap. rewrite nth_upd by (rewrite upd_length; exact Hi).
    destruct (k =? i); [reflexivity|]. apply nth_upd. exact Hj.
  Qed.

  Definition elems (n : nat) (a : list nat) (x : nat) : Prop := exists k, k < n /\ nth k a 0 = x.

  Lemma elems_swap n i j a x : i < n -> j < n -> n <= length a -> (elems n (swap i j a) x <-> elems n a x).
  Proof.
    intros Hi Hj Hn. unfold elems. split; intros [k [Hk E]].
    - rewrite nth_swap in E by lia. destruct (Nat.eqb_spec k i); [exists j; split; assumption|].
      destruct (Nat.eqb_spec k j); [exists i; split; assumption | exists k; split; assumption].
    - destruct (Nat.eq_dec k i) as [->|Ni]; [exists j; split; [exact Hj|]; rewrite nth_swap by lia|].
      + destruct (Nat.eqb_spec j i) as [->|_]; [exact E|]. rewrite Nat.eqb_refl. exact E.
      + destruct (Nat.eq_dec k j) as [->|Nj]; [exists i; split; [exact Hi|]; rewrite nth_swap by lia; rewrite Nat.eqb_refl; exact E|].
        exists k. split; [exact Hk|]. rewrite nth_swap by lia.
        destruct (Nat.eqb_spec k i); [contradiction|]. destruct (Nat.eqb_spec k j); [contradiction | exact E].
  Qed.

  Lemma elems_all a x : elems (length a) a x <-> In x a.
  Proof.
    unfold elems. split.
    - intros [k [Hk <-]]. apply nth_In. exact Hk.
    - intros Hin. apply (In_nth _ _ 0) in Hin. exact Hin.
  Qed.

  (* ---- the tree shape ---- *)
  Lemma par_facts k : 0 < k -> exists r, r < 2 /\ k - 1 = 2 * ((k - 1) / 2) + r.
  Proof.
    intros _. exists ((k - 1) mod 2). split; [apply Nat.mod_upper_bound; lia | apply (Nat.div_mod (k - 1) 2); lia].
  Qed.

  Definition hp (n : nat) (a : list nat) : Prop :=
    forall k, 0 < k < n -> hle (nth ((k - 1) / 2) a 0) (nth k a 0).

  Lemma root_min n a : hp n a -> forall k, k < n -> hle (nth 0 a 0) (nth k a 0).
  Proof.
    intros Hh k. induction k as [k IH] using lt_wf_ind. intros Hk.
    destruct k as [|k]; [apply hle_refl|].
    destruct (par_facts (S k) ltac:(lia)) as [r [Hr Hp]].
    apply hle_trans with (y := nth ((S k - 1) / 2) a 0); [apply IH; lia | apply Hh; lia].
  Qed.

  (* heap order everywhere except between j and its parent; j's children already
     respect j's parent *)
  Definition hp_up (n j : nat) (a : list nat) : Prop :=
    (forall k, 0 < k < n -> k <> j -> hle (nth ((k - 1) / 2) a 0) (nth k a 0)) /\
    (forall k, 0 < k < n -> (k - 1) / 2 = j -> 0 < j -> hle (nth ((j - 1) / 2) a 0) (nth k a 0)).

  Lemma up_correct fuel : forall j a,
    j < fuel -> j < length a -> hp_up (length a) j a ->
    hp (length a) (up lessb fuel j a) /\ length (up lessb fuel j a) = length a /\
    (forall x, elems (length a) (up lessb fuel j a) x <-> elems (length a) a x).
  Proof.
    induction fuel as [|f IH]; intros j a Hf Hj [E1 E2]; [lia|]. cbn [up].
    set (n := length a) in *. set (i := (j - 1) / 2).
    destruct ((i =? j) || negb (lessb (nth j a 0) (nth i a 0))) eqn:B.
    - split; [|split; [reflexivity | intros x; reflexivity]].
      intros k Hk. destruct (Nat.eq_dec k j) as [->|Nk]; [|apply E1; assumption].
      apply orb_true_iff in B. destruct B as [B|B].
      + apply Nat.eqb_eq in B. destruct (par_facts j ltac:(lia)) as [r [Hr Hp]]. fold i in Hp. lia.
      + apply negb_true_iff in B. exact B.
    - apply orb_false_iff in B. destruct B as [B1 B2]. apply Nat.eqb_neq in B1. apply negb_false_iff in B2.
      assert (Hj0 : 0 < j). { destruct j; [cbn in i; unfold i in B1; cbn in B1; lia | lia]. }
      destruct (par_facts j Hj0) as [r [Hr Hp]]. fold i in Hp.
      assert (Hij : i < j) by lia.
      assert (Hless : hle (nth j a 0) (nth i a 0)) by (apply less_le; exact B2).
      assert (Hsw : forall k, nth k (swap i j a) 0 = if k =? i then nth j a 0 else if k =? j then nth i a 0 else nth k a 0).
      { intros k. apply nth_swap; unfold n in *; lia. }
      assert (Hlen : length (swap i j a) = n) by apply swap_length.
      destruct (IH i (swap i j a)) as [R1 [R2 R3]].
      + lia.
      + rewrite Hlen. lia.
      + rewrite Hlen. split.
        * intros k Hk Nki. destruct (par_facts k ltac:(lia)) as [rk [Hrk Hpk]].
          set (pk := (k - 1) / 2) in *. rewrite !Hsw.
          destruct (Nat.eqb_spec k i) as [|_]; [contradiction|].
          destruct (Nat.eqb_spec k j) as [->|Nkj].
          -- (* k = j : its parent is i *)
             assert (pk = i) by (unfold pk; reflexivity). rewrite H. rewrite Nat.eqb_refl. exact Hless.
          -- destruct (Nat.eqb_spec pk i) as [Epi|Npi].
             ++ (* sibling of j *)
                apply hle_trans with (y := nth i a 0); [exact Hless|].
                rewrite <- Epi. apply E1; [lia | exact Nkj].
             ++ destruct (Nat.eqb_spec pk j) as [Epj|Npj].
                ** (* child of j *) apply (E2 k); [lia | exact Epj | exact Hj0].
                ** apply E1; [lia | exact Nkj].
        * intros k Hk Epk Hi0. destruct (par_facts k ltac:(lia)) as [rk [Hrk Hpk]].
          destruct (par_facts i Hi0) as [ri [Hri Hpi]]. set (pi := (i - 1) / 2) in *.
          rewrite !Hsw.
          destruct (Nat.eqb_spec pi i) as [|_]; [lia|]. destruct (Nat.eqb_spec pi j) as [|_]; [lia|].
          destruct (Nat.eqb_spec k i) as [|_]; [lia|].
          assert (Hpi' : hle (nth pi a 0) (nth i a 0)) by (apply E1; lia).
          destruct (Nat.eqb_spec k j) as [->|Nkj]; [exact Hpi'|].
          apply hle_trans with (y := nth i a 0); [exact Hpi'|]. rewrite <- Epk. apply E1; [lia | exact Nkj].
      + rewrite Hlen in R1, R3. split; [exact R1|]. split; [rewrite R2; exact Hlen|].
        intros x. rewrite R3. apply elems_swap; unfold n; lia.
  Qed.

  (* heap order on the first n cells except between i and its children; i's
     children already respect i's parent *)
  Definition hp_down (n i : nat) (a : list nat) : Prop :=
    (forall k, 0 < k < n -> (k - 1) / 2 <> i -> hle (nth ((k - 1) / 2) a 0) (nth k a 0)) /\
    (forall k, 0 < k < n -> (k - 1) / 2 = i -> 0 < i -> hle (nth ((i - 1) / 2) a 0) (nth k a 0)).

  Lemma down_correct n fuel : forall i a,
    n - i <= fuel -> n <= length a -> hp_down n i a ->
    hp n (down lessb fuel i n a) /\ length (down lessb fuel i n a) = length a /\
    (forall x, elems n (down lessb fuel i n a) x <-> elems n a x) /\
    (forall k, n <= k -> nth k (down lessb fuel i n a) 0 = nth k a 0).
  Proof.
    induction fuel as [|f IH]; intros i a Hf Hn [D1 D2].
    - cbn [down]. split; [|split; [reflexivity | split; [intros x; reflexivity | reflexivity]]].
      intros k Hk. apply D1; [exact Hk|]. destruct (par_facts k ltac:(lia)) as [r [Hr Hp]]. lia.
    - cbn [down]. destruct (Nat.leb_spec n (2 * i + 1)) as [Hge|Hlt].
      + split; [|split; [reflexivity | split; [intros x; reflexivity | reflexivity]]].
        intros k Hk. apply D1; [exact Hk|]. destruct (par_facts k ltac:(lia)) as [r [Hr Hp]]. lia.
      + set (j1 := 2 * i + 1) in *. set (j2 := j1 + 1).
        set (j := if (j2 <? n) && lessb (nth j2 a 0) (nth j1 a 0) then j2 else j1).
        assert (Hjn : j < n /\ (j = j1 \/ j = j2) /\
                      (forall c, c < n -> (c = j1 \/ c = j2) -> hle (nth j a 0) (nth c a 0))).
        { unfold j. destruct (Nat.ltb_spec j2 n) as [L|G]; cbn [andb].
          - destruct (lessb (nth j2 a 0) (nth j1 a 0)) eqn:EL.
            + split; [exact L|]. split; [right; reflexivity|]. intros c _ [->| ->]; [apply less_le; exact EL | apply hle_refl].
            + split; [exact Hlt|]. split; [left; reflexivity|]. intros c _ [->| ->]; [apply hle_refl | exact EL].
          - split; [exact Hlt|]. split; [left; reflexivity|]. intros c Hc [->| ->]; [apply hle_refl | unfold j2 in *; lia]. }
        destruct Hjn as [Hjn [Hjc Hsel]].
        assert (Hchild : forall k, 0 < k -> ((k - 1) / 2 = i <-> k = j1 \/ k = j2)).
        { intros k Hk. destruct (par_facts k Hk) as [r [Hr Hp]]. unfold j2, j1. split; intros; lia. }
        assert (Hpj : (j - 1) / 2 = i) by (apply Hchild; [unfold j1, j2 in *; lia | exact Hjc]).
        assert (Hij : i < j) by (unfold j1, j2 in *; lia).
        destruct (lessb (nth j a 0) (nth i a 0)) eqn:BL; cbn [negb].
        * (* swap and continue *)
          assert (Hless : hle (nth j a 0) (nth i a 0)) by (apply less_le; exact BL).
          assert (Hsw : forall k, nth k (swap i j a) 0 = if k =? i then nth j a 0 else if k =? j then nth i a 0 else nth k a 0).
          { intros k. apply nth_swap; lia. }
          assert (Hlen : length (swap i j a) = length a) by apply swap_length.
          destruct (IH j (swap i j a)) as [R1 [R2 [R3 R4]]].
          -- lia.
          -- rewrite Hlen. exact Hn.
          -- split.
             ++ intros k Hk Npk. destruct (par_facts k ltac:(lia)) as [rk [Hrk Hpk]].
                set (pk := (k - 1) / 2) in *. rewrite !Hsw.
                destruct (Nat.eqb_spec k j) as [->|Nkj].
                ** destruct (Nat.eqb_spec j i); [lia|]. fold pk in Hpj. rewrite Hpj, Nat.eqb_refl. exact Hless.
                ** destruct (Nat.eqb_spec k i) as [->|Nki].
                   --- (* k = i : its parent is untouched, compare with the promoted child *)
                       destruct (Nat.eqb_spec pk i); [lia|]. destruct (Nat.eqb_spec pk j); [lia|].
                       apply (D2 j); [lia | exact Hpj | lia].
                   --- destruct (Nat.eqb_spec pk i) as [Epi|Npi].
                       +++ apply Hsel; [lia | apply Hchild; [lia | exact Epi]].
                       +++ destruct (Nat.eqb_spec pk j); [contradiction|]. apply D1; [lia | exact Npi].
             ++ intros k Hk Epk Hj0. destruct (par_facts k ltac:(lia)) as [rk [Hrk Hpk]].
                rewrite !Hsw. rewrite Hpj, Nat.eqb_refl.
                destruct (Nat.eqb_spec k i); [lia|]. destruct (Nat.eqb_spec k j); [lia|].
                rewrite <- Epk. apply D1; [lia | lia].
          -- split; [exact R1|]. split; [rewrite R2; exact Hlen|]. split.
             ++ intros x. rewrite R3. apply elems_swap; lia.
             ++ intros k Hk. rewrite R4 by exact Hk. rewrite Hsw.
                destruct (Nat.eqb_spec k i); [lia|]. destruct (Nat.eqb_spec k j); [lia | reflexivity].
        * (* stop: i is not above its smaller child *)
          split; [|split; [reflexivity | split; [intros x; reflexivity | reflexivity]]].
          intros k Hk. destruct (Nat.eq_dec ((k - 1) / 2) i) as [Epk|Npk]; [|apply D1; assumption].
          rewrite Epk. apply hle_trans with (y := nth j a 0); [exact BL|].
          apply Hsel; [lia | apply Hchild; [lia | exact Epk]].
  Qed.

  (* ---- heap.Push / heap.Pop ---- *)
  Theorem hpush_correct x a :
    hp (length a) a ->
    hp (S (length a)) (hpush lessb x a) /\ length (hpush lessb x a) = S (length a) /\
    (forall y, In y (hpush lessb x a) <-> y = x \/ In y a).
  Proof.
    intros Hh. unfold hpush.
    assert (Hl : length (a ++ [x]) = S (length a)) by (rewrite app_length; cbn [length]; lia).
    destruct (up_correct (S (length a)) (length a) (a ++ [x])) as [R1 [R2 R3]].
    - lia.
    - lia.
    - rewrite Hl. split.
      + intros k Hk Nk. destruct (par_facts k ltac:(lia)) as [r [Hr Hp]].
        rewrite !app_nth1 by lia. apply Hh. lia.
      + intros k Hk Epk _. destruct (par_facts k ltac:(lia)) as [r [Hr Hp]]. lia.
    - rewrite Hl in *. split; [exact R1|]. split; [exact R2|].
      intros y. rewrite <- elems_all, R2, R3. rewrite <- Hl, elems_all, in_app_iff. cbn [In]. intuition congruence.
  Qed.

  Theorem hpop_correct a :
    a <> [] -> hp (length a) a ->
    exists rest, hpop lessb a = Some (nth 0 a 0, rest) /\
                 hp (length rest) rest /\ S (length rest) = length a /\
                 (forall y, In y a <-> y = nth 0 a 0 \/ In y rest).
  Proof.
    intros Hne Hh. unfold hpop. destruct a as [|a0 ar] eqn:Ea; [congruence|]. rewrite <- Ea in *.
    assert (Hlen : 0 < length a) by (rewrite Ea; cbn [length]; lia).
    set (n := length a - 1).
    assert (Hsw : forall k, nth k (swap 0 n a) 0 = if k =? 0 then nth n a 0 else if k =? n then nth 0 a 0 else nth k a 0).
    { intros k. apply nth_swap; unfold n; lia. }
    assert (Hsl : length (swap 0 n a) = length a) by apply swap_length.
    destruct (down_correct n (length a) 0 (swap 0 n a)) as [R1 [R2 [R3 R4]]].
    - unfold n. lia.
    - rewrite Hsl. unfold n. lia.
    - split.
      + intros k Hk Npk. destruct (par_facts k ltac:(lia)) as [r [Hr Hp]].
        rewrite !Hsw. destruct (Nat.eqb_spec ((k - 1) / 2) 0); [contradiction|].
        destruct (Nat.eqb_spec ((k - 1) / 2) n); [lia|].
        destruct (Nat.eqb_spec k 0); [lia|]. destruct (Nat.eqb_spec k n); [lia|].
        apply Hh. unfold n in *. lia.
      + intros k _ _ H0. lia.
    - set (a2 := down lessb (length a) 0 n (swap 0 n a)) in *.
      assert (Hpop : nth n a2 0 = nth 0 a 0).
      { rewrite R4 by lia. rewrite Hsw. destruct (Nat.eqb_spec n 0) as [E|_]; [rewrite E; reflexivity|].
        rewrite Nat.eqb_refl. reflexivity. }
      exists (firstn n a2). rewrite Hpop.
      assert (Hfl : length (firstn n a2) = n) by (rewrite firstn_length, R2, Hsl; unfold n; lia).
      assert (Hfn : forall k, k < n -> nth k (firstn n a2) 0 = nth k a2 0).
      { intros k Hk. rewrite <- (firstn_skipn n a2) at 2. rewrite app_nth1 by lia. reflexivity. }
      split; [reflexivity|]. split; [|split].
      + rewrite Hfl. intros k Hk. destruct (par_facts k ltac:(lia)) as [r [Hr Hp]].
        rewrite !Hfn by lia. apply R1. exact Hk.
      + rewrite Hfl. unfold n. lia.
      + intros y. rewrite <- (elems_all (firstn n a2)), Hfl.
        assert (Hrest : elems n (firstn n a2) y <-> elems n (swap 0 n a) y).
        { rewrite <- R3. unfold elems. split; intros [k [Hk E]]; exists k; (split; [exact Hk|]).
          - rewrite <- Hfn by exact Hk. exact E.
          - rewrite Hfn by exact Hk. exact E. }
        rewrite Hrest. rewrite <- elems_all. unfold elems. split.
        * intros [k [Hk E]]. destruct (Nat.eq_dec k 0) as [->|Nk]; [left; symmetry; exact E|].
          right. destruct (Nat.eq_dec k n) as [->|Nn].
          -- exists 0. split; [lia|]. rewrite Hsw. cbn [Nat.eqb]. exact E.
          -- exists k. split; [unfold n in *; lia|]. rewrite Hsw.
             destruct (Nat.eqb_spec k 0); [contradiction|]. destruct (Nat.eqb_spec k n); [contradiction | exact E].
        * intros [->|[k [Hk E]]]; [exists 0; split; [lia | reflexivity]|].
          rewrite Hsw in E. destruct (Nat.eqb_spec k 0) as [->|Nk].
          -- exists n. split; [unfold n; lia | exact E].
          -- destruct (Nat.eqb_spec k n); [lia|]. exists k. split; [unfold n in *; lia | exact E].
  Qed.
End HeapFacts.

(* ================= the commit heap ================= *)
Definition seteq (l l' : list nat) : Prop := forall x, In x l <-> In x l'.

Lemma seteq_refl l : seteq l l.
Proof. intros x. reflexivity. Qed.
Lemma seteq_sym l l' : seteq l l' -> seteq l' l.
Proof. intros E x. symmetry. apply E. Qed.
Lemma seteq_trans l1 l2 l3 : seteq l1 l2 -> seteq l2 l3 -> seteq l1 l3.
Proof. intros A B x. rewrite (A x). apply B. Qed.
Lemma seteq_nil l : seteq l [] -> l = [].
Proof. intros E. destruct l as [|x r]; [reflexivity|]. exfalso. apply (E x). left. reflexivity. Qed.
Lemma seteq_app a a' b b' : seteq a a' -> seteq b b' -> seteq (a ++ b) (a' ++ b').
Proof. intros A B x. rewrite !in_app_iff, (A x), (B x). reflexivity. Qed.
Lemma seteq_filter f l l' : seteq l l' -> seteq (filter f l) (filter f l').
Proof. intros E x. rewrite !filter_In, (E x). reflexivity. Qed.

Section WalkFacts.
  Variable rank : nat -> nat.
  Hypothesis rank_inj : forall a b, rank a = rank b -> a = b.
  Variable s : store.

  Notation cl := (commit_less rank s).
  Notation chp := (hp cl).

  Lemma cl_less_le x y : cl x y = true -> hle cl x y.
  Proof.
    unfold hle, commit_less.
    destruct (Nat.eqb_spec (hgt s x) (hgt s y)) as [E|NE]; destruct (Nat.eqb_spec (hgt s y) (hgt s x)) as [E'|NE']; try lia;
      intros L; [apply Nat.ltb_lt in L; apply Nat.ltb_ge; lia | apply Nat.ltb_lt in L; apply Nat.ltb_ge; lia].
  Qed.

  Lemma cl_trans x y z : hle cl x y -> hle cl y z -> hle cl x z.
  Proof.
    unfold hle, commit_less.
    destruct (Nat.eqb_spec (hgt s y) (hgt s x)); destruct (Nat.eqb_spec (hgt s z) (hgt s y));
      destruct (Nat.eqb_spec (hgt s z) (hgt s x)); try lia;
      rewrite ?Nat.ltb_ge; try lia; intros A B; try apply Nat.ltb_ge in A; try apply Nat.ltb_ge in B; lia.
  Qed.

  (* the root of the heap is a commit of maximal height: MaxHeight() is right *)
  Lemma cl_le_height x y : hle cl x y -> hgt s y <= hgt s x.
  Proof.
    unfold hle, commit_less. destruct (Nat.eqb_spec (hgt s y) (hgt s x)); [lia|].
    intros A. apply Nat.ltb_ge in A. exact A.
  Qed.

  Theorem heap_root_is_max a : chp (length a) a -> forall y, In y a -> hgt s y <= hgt s (nth 0 a 0).
  Proof.
    intros Hh y Hy. apply (In_nth _ _ 0) in Hy. destruct Hy as [k [Hk <-]].
    apply cl_le_height. apply (root_min cl cl_less_le cl_trans (length a) a Hh k Hk).
  Qed.

  Lemma heap_maxh r0 t : chp (length (r0 :: t)) (r0 :: t) -> hgt s r0 = maxh s (r0 :: t).
  Proof.
    intros Hh. unfold maxh. apply Nat.le_antisymm.
    - apply max_of_ge. apply in_map. left. reflexivity.
    - apply max_of_le. intros n Hn. apply in_map_iff in Hn. destruct Hn as [y [<- Hy]].
      apply (heap_root_is_max (r0 :: t) Hh y Hy).
  Qed.

  Lemma chp_nil : chp (length (@nil nat)) [].
  Proof. intros k Hk. cbn [length] in Hk. lia. Qed.

  Lemma chp_single c : chp (length [c]) [c].
  Proof. intros k Hk. cbn [length] in Hk. lia. Qed.

  (* PopCommitsOfHeight *)
  Lemma pcoh_correct fuel : forall a hh,
    length a <= fuel -> chp (length a) a -> (forall y, In y a -> hgt s y <= hh) ->
    forall p rest, pop_commits_of_height rank s fuel hh a = (p, rest) ->
      chp (length rest) rest /\ (forall y, In y p -> hgt s y = hh) /\
      (forall y, In y a <-> In y p \/ In y rest) /\ (forall y, In y rest -> hgt s y < hh).
  Proof.
    induction fuel as [|f IH]; intros a hh Hl Hh Hle p rest E.
    - destruct a; [|cbn [length] in Hl; lia]. cbn [pop_commits_of_height] in E. inversion E; subst.
      split; [exact Hh|]. split; [intros y []|]. split; [intros y; tauto | intros y []].
    - cbn [pop_commits_of_height] in E. destruct a as [|r0 t] eqn:Ea.
      + inversion E; subst. split; [exact Hh|]. split; [intros y []|]. split; [intros y; tauto | intros y []].
      + rewrite <- Ea in *. destruct (Nat.eqb_spec (hgt s r0) hh) as [Eh|Nh].
        * assert (Hne : a <> []) by (rewrite Ea; congruence).
          destruct (hpop_correct cl cl_less_le cl_trans a Hne Hh) as [rest1 [Ep [Hh1 [Hl1 Hin1]]]].
          unfold cpop in E. rewrite Ep in E.
          destruct (pop_commits_of_height rank s f hh rest1) as [p' rest'] eqn:Er. inversion E; subst p rest.
          assert (H0 : nth 0 a 0 = r0) by (rewrite Ea; reflexivity).
          destruct (IH rest1 hh ltac:(lia) Hh1 ltac:(intros y Hy; apply Hle; apply Hin1; right; exact Hy) p' rest' Er)
            as [R1 [R2 [R3 R4]]].
          split; [exact R1|]. split.
          -- intros y [<-|Hy]; [rewrite H0; exact Eh | apply R2; exact Hy].
          -- split; [|exact R4]. intros y. rewrite (Hin1 y), (R3 y), H0. cbn [In]. intuition congruence.
        * inversion E; subst p rest. split; [exact Hh|]. split; [intros y []|]. split; [intros y; cbn [In]; tauto|].
          intros y Hy. pose proof (heap_root_is_max a Hh y Hy) as Hr. rewrite Ea in Hr. cbn [nth] in Hr.
          assert (hgt s r0 <= hh) by (apply Hle; rewrite Ea; left; reflexivity). lia.
  Qed.

  Lemma fold_push_correct ps : forall q,
    chp (length q) q ->
    chp (length (fold_left (fun q' p => cpush rank s p q') ps q)) (fold_left (fun q' p => cpush rank s p q') ps q) /\
    (forall z, In z (fold_left (fun q' p => cpush rank s p q') ps q) <-> In z q \/ In z ps).
  Proof.
    induction ps as [|p r IH]; intros q Hh; cbn [fold_left].
    - split; [exact Hh | intros z; cbn [In]; tauto].
    - destruct (hpush_correct cl cl_less_le cl_trans p q Hh) as [P1 [P2 P3]].
      unfold cpush. rewrite <- P2 in P1. destruct (IH _ P1) as [R1 R2]. split; [exact R1|].
      intros z. rewrite R2, P3. cbn [In]. intuition congruence.
  Qed.

  Lemma ptq_correct commits : forall seen q,
    chp (length q) q ->
    (forall c, In c seen -> forall z, In z (c_parents (get s c)) -> In z q) ->
    chp (length (parents_to_queue rank s commits seen q)) (parents_to_queue rank s commits seen q) /\
    (forall z, In z (parents_to_queue rank s commits seen q) <->
               In z q \/ exists c, In c commits /\ In z (c_parents (get s c))).
  Proof.
    induction commits as [|c r IH]; intros seen q Hh Hseen; cbn [parents_to_queue].
    - split; [exact Hh|]. intros z. split; [tauto | intros [Hz|[c [[] _]]]; exact Hz].
    - destruct (memb c seen) eqn:Em.
      + apply memb_In in Em. destruct (IH seen q Hh Hseen) as [R1 R2]. split; [exact R1|].
        intros z. rewrite R2. split.
        * intros [Hz|[c' [Hc' Hz]]]; [left; exact Hz | right; exists c'; split; [right; exact Hc' | exact Hz]].
        * intros [Hz|[c' [[<-|Hc'] Hz]]]; [left; exact Hz | left; apply (Hseen c Em z Hz) | right; exists c'; split; assumption].
      + destruct (fold_push_correct (c_parents (get s c)) q Hh) as [F1 F2].
        destruct (IH (c :: seen) _ F1) as [R1 R2].
        * intros c' [<-|Hc'] z Hz; apply F2; [right; exact Hz | left; apply (Hseen c' Hc' z Hz)].
        * split; [exact R1|]. intros z. rewrite R2, F2. split.
          -- intros [[Hz|Hz]|[c' [Hc' Hz]]]; [left; exact Hz | right; exists c; split; [left; reflexivity | exact Hz]
                                                | right; exists c'; split; [right; exact Hc' | exact Hz]].
          -- intros [Hz|[c' [[<-|Hc'] Hz]]]; [left; left; exact Hz | left; right; exact Hz | right; exists c'; split; assumption].
  Qed.

  (* one round on one heap = one round of the multiset model on the same elements *)
  Lemma pop_and_push_correct r0 t p a' :
    chp (length (r0 :: t)) (r0 :: t) -> pop_and_push rank s (r0 :: t) = (p, a') ->
    let hh := maxh s (r0 :: t) in
    chp (length a') a' /\ seteq p (at_level s hh (r0 :: t)) /\
    seteq a' (below_level s hh (r0 :: t) ++ push_parents s (at_level s hh (r0 :: t))).
  Proof.
    intros Hh E hh. unfold pop_and_push in E.
    destruct (pop_commits_of_height rank s (length (r0 :: t)) (hgt s r0) (r0 :: t)) as [p' rest] eqn:Ep.
    inversion E; subst p a'. clear E.
    assert (Ehh : hgt s r0 = hh) by (apply heap_maxh; exact Hh).
    clearbody hh. subst hh.
    destruct (pcoh_correct (length (r0 :: t)) (r0 :: t) (hgt s r0) (le_n _) Hh
                (fun y Hy => heap_root_is_max (r0 :: t) Hh y Hy) p' rest Ep) as [R1 [R2 [R3 R4]]].
    destruct (ptq_correct p' [] rest R1 (fun c Hc => match Hc with end)) as [Q1 Q2].
    assert (Sp : seteq p' (at_level s (hgt s r0) (r0 :: t))).
    { intros y. unfold at_level. rewrite filter_In, Nat.eqb_eq. split.
      - intros Hy. split; [apply R3; left; exact Hy | apply R2; exact Hy].
      - intros [Hy Ey]. apply R3 in Hy. destruct Hy as [Hy|Hy]; [exact Hy|]. apply R4 in Hy. lia. }
    split; [exact Q1|]. split; [exact Sp|].
    intros z. rewrite Q2, in_app_iff. unfold below_level, push_parents.
    rewrite filter_In, in_flat_map. split.
    - intros [Hz|[c [Hc Hz]]].
      + left. split; [apply R3; right; exact Hz|]. apply R4 in Hz.
        destruct (Nat.eqb_spec (hgt s z) (hgt s r0)); [lia | reflexivity].
      + right. exists c. split; [apply dedup_In; apply Sp; exact Hc | exact Hz].
    - intros [[Hz Nz]|[c [Hc Hz]]].
      + left. apply R3 in Hz. destruct Hz as [Hz|Hz]; [|exact Hz]. apply R2 in Hz.
        rewrite Hz, Nat.eqb_refl in Nz. discriminate.
      + right. exists c. split; [apply Sp; apply (proj1 (dedup_In _ _)); exact Hc | exact Hz].
  Qed.

  Lemma maxh_seteq a q : seteq a q -> maxh s a = maxh s q.
  Proof.
    intros E. unfold maxh. apply Nat.le_antisymm; apply max_of_le; intros n Hn; apply in_map_iff in Hn;
      destruct Hn as [y [<- Hy]]; apply max_of_ge; apply in_map; apply E; exact Hy.
  Qed.

  Lemma push_parents_seteq p p' : seteq p p' -> seteq (push_parents s p) (push_parents s p').
  Proof.
    intros E z. unfold push_parents. rewrite !in_flat_map. split; intros [c [Hc Hz]]; exists c; (split; [|exact Hz]);
      apply dedup_In; apply E; apply (proj1 (dedup_In _ _)); exact Hc.
  Qed.

  Lemma find_common_seteq p1 p1' p2 p2' :
    seteq p1 p1' -> seteq p2 p2' -> find_common rank p1 p2 = find_common rank p1' p2'.
  Proof.
    intros E1 E2. pose proof (find_common_spec rank p1 p2) as A. pose proof (find_common_spec rank p1' p2') as B.
    destruct (find_common rank p1 p2) as [m|], (find_common rank p1' p2') as [m'|]; try reflexivity.
    - destruct A as [A1 [A2 A3]], B as [B1 [B2 B3]].
      assert (rank m <= rank m') by (apply A3; [apply E1 | apply E2]; assumption).
      assert (rank m' <= rank m) by (apply B3; [apply E1 | apply E2]; assumption).
      f_equal. apply rank_inj. lia.
    - destruct A as [A1 [A2 _]]. exfalso. apply (B m); [apply E1 | apply E2]; assumption.
    - destruct B as [B1 [B2 _]]. exfalso. apply (A m'); [apply E1 | apply E2]; assumption.
  Qed.

  Lemma step_seteq a q : seteq a q ->
    seteq (below_level s (maxh s a) a ++ push_parents s (at_level s (maxh s a) a))
          (below_level s (maxh s q) q ++ push_parents s (at_level s (maxh s q) q)).
  Proof.
    intros E. rewrite (maxh_seteq a q E). apply seteq_app.
    - unfold below_level. apply seteq_filter. exact E.
    - apply push_parents_seteq. unfold at_level. apply seteq_filter. exact E.
  Qed.

  (* The walk over real container/heap queues equals the walk over multisets,
     whatever the order in which elements were pushed. *)
  Theorem heap_refines_multiset_fuel fuel : forall a1 a2 q1 q2,
    chp (length a1) a1 -> chp (length a2) a2 -> seteq a1 q1 -> seteq a2 q2 ->
    mb_parents_heap_fuel rank s fuel a1 a2 = mb_parents_fuel rank fuel s q1 q2.
  Proof.
    induction fuel as [|f IH]; intros a1 a2 q1 q2 H1 H2 S1 S2; [reflexivity|].
    cbn [mb_parents_heap_fuel mb_parents_fuel].
    destruct a1 as [|r1 t1] eqn:Ea1.
    { rewrite (seteq_nil q1 (seteq_sym _ _ S1)). reflexivity. }
    destruct q1 as [|u1 v1] eqn:Eq1; [apply seteq_nil in S1; discriminate|].
    destruct a2 as [|r2 t2] eqn:Ea2.
    { rewrite (seteq_nil q2 (seteq_sym _ _ S2)). reflexivity. }
    destruct q2 as [|u2 v2] eqn:Eq2; [apply seteq_nil in S2; discriminate|].
    rewrite <- Eq1, <- Eq2 in *.
    rewrite (heap_maxh r1 t1 H1), (heap_maxh r2 t2 H2).
    rewrite <- (maxh_seteq _ _ S1), <- (maxh_seteq _ _ S2).
    destruct (pop_and_push rank s (r1 :: t1)) as [p1 a1'] eqn:P1.
    destruct (pop_and_push rank s (r2 :: t2)) as [p2 a2'] eqn:P2.
    destruct (pop_and_push_correct r1 t1 p1 a1' H1 P1) as [K1 [L1 M1]].
    destruct (pop_and_push_correct r2 t2 p2 a2' H2 P2) as [K2 [L2 M2]].
    assert (N1 : seteq a1' (below_level s (maxh s q1) q1 ++ push_parents s (at_level s (maxh s q1) q1))).
    { eapply seteq_trans; [exact M1 | apply step_seteq; exact S1]. }
    assert (N2 : seteq a2' (below_level s (maxh s q2) q2 ++ push_parents s (at_level s (maxh s q2) q2))).
    { eapply seteq_trans; [exact M2 | apply step_seteq; exact S2]. }
    rewrite (maxh_seteq _ _ S1) in *. rewrite (maxh_seteq _ _ S2) in *.
    destruct (maxh s q1 =? maxh s q2) eqn:Eh.
    - assert (Ef : find_common rank p1 p2 = find_common rank (at_level s (maxh s q1) q1) (at_level s (maxh s q2) q2)).
      { apply find_common_seteq.
        - eapply seteq_trans; [exact L1 | unfold at_level; apply seteq_filter; exact S1].
        - eapply seteq_trans; [exact L2 | unfold at_level; apply seteq_filter; exact S2]. }
      rewrite Ef. destruct (find_common rank (at_level s (maxh s q1) q1) (at_level s (maxh s q2) q2)); [reflexivity|].
      apply IH; assumption.
    - destruct (maxh s q2 <? maxh s q1).
      + apply IH; assumption.
      + apply IH; assumption.
  Qed.

  Theorem heap_refines_multiset c1 c2 :
    mb_parents_heap rank s c1 c2 = mb_parents rank s c1 c2.
  Proof.
    unfold mb_parents_heap, mb_parents. apply heap_refines_multiset_fuel; try apply chp_single; apply seteq_refl.
  Qed.
End WalkFacts.

(* without the sift of heap.Push the heap order is lost: appending 3 commits of
   heights 1, 2, 3 leaves a lowest commit at the root *)
Example push_without_sift_breaks :
  let hgt := fun c : nat => c in
  let lessb := fun x y : nat => hgt y <? hgt x in
  hpush lessb 3 (hpush lessb 2 (hpush lessb 1 [])) = [3; 1; 2] /\ [1] ++ [2] ++ [3] = [1; 2; 3].
Proof. vm_compute. split; reflexivity. Qed.
