(* C19 — the priority queue of findCommonAncestorUsingParentsList, modelled as
   the code has it: a slice used as a binary heap through Go's container/heap.
     container/heap  Push = h.Push(x); up(h, h.Len()-1)
                     Pop  = n := h.Len()-1; h.Swap(0, n); down(h, 0, n); h.Pop()
                     up, down as in go/src/container/heap/heap.go
     go/store/datas/commit.go  CommitByHeightHeap (Less, Swap, Push, Pop, MaxHeight,
                     PopCommitsOfHeight), parentsToQueue, findCommonAncestorUsingParentsList
   No proofs here.  C19/HeapProofs.v shows that this refines the multiset model
   of C19/Model.v (heap_refines_multiset). *)
From Coq Require Import List Arith Bool.
From Dolt Require Import Graph.CommitDag C18.Model C19.Model.
Import ListNotations.

Section Heap.
  Variable lessb : nat -> nat -> bool.          (* h.Less on the elements *)

  Fixpoint upd (i x : nat) (a : list nat) : list nat :=
    match a, i with
    | [], _ => []
    | _ :: r, O => x :: r
    | y :: r, S i' => y :: upd i' x r
    end.

  (* h.Swap(i, j) *)
  Definition swap (i j : nat) (a : list nat) : list nat :=
    upd i (nth j a 0) (upd j (nth i a 0) a).

  (* up(h, j): for { i := (j-1)/2; if i == j || !h.Less(j, i) { break }; h.Swap(i, j); j = i } *)
  Fixpoint up (fuel j : nat) (a : list nat) : list nat :=
    match fuel with
    | O => a
    | S f =>
      let i := (j - 1) / 2 in
      if (i =? j) || negb (lessb (nth j a 0) (nth i a 0)) then a
      else up f i (swap i j a)
    end.

  (* down(h, i, n): for { j1 := 2*i+1; if j1 >= n { break }; j := j1;
       if j2 := j1+1; j2 < n && h.Less(j2, j1) { j = j2 }; if !h.Less(j, i) { break }; h.Swap(i, j); i = j } *)
  Fixpoint down (fuel i n : nat) (a : list nat) : list nat :=
    match fuel with
    | O => a
    | S f =>
      let j1 := 2 * i + 1 in
      if n <=? j1 then a
      else
        let j2 := j1 + 1 in
        let j := if (j2 <? n) && lessb (nth j2 a 0) (nth j1 a 0) then j2 else j1 in
        if negb (lessb (nth j a 0) (nth i a 0)) then a
        else down f j n (swap i j a)
    end.

  (* heap.Push *)
  Definition hpush (x : nat) (a : list nat) : list nat :=
    up (S (length a)) (length a) (a ++ [x]).

  (* heap.Pop: the popped element and the remaining slice *)
  Definition hpop (a : list nat) : option (nat * list nat) :=
    match a with
    | [] => None
    | _ =>
      let n := length a - 1 in
      let a2 := down (length a) 0 n (swap 0 n a) in
      Some (nth n a2 0, firstn n a2)
    end.
End Heap.

Section Walk.
  Variable rank : nat -> nat.
  Variable s : store.

  (* CommitByHeightHeap.Less: greater height first, then smaller address *)
  Definition commit_less (x y : nat) : bool :=
    if hgt s x =? hgt s y then rank x <? rank y else hgt s y <? hgt s x.

  Definition cpush := hpush commit_less.
  Definition cpop := hpop commit_less.

  (* PopCommitsOfHeight(h): for !r.Empty() && r.MaxHeight() == h { ret = append(ret, heap.Pop(r)) } *)
  Fixpoint pop_commits_of_height (fuel hh : nat) (a : list nat) : list nat * list nat :=
    match fuel with
    | O => ([], a)
    | S f =>
      match a with
      | [] => ([], a)
      | r0 :: _ =>
        if hgt s r0 =? hh then
          match cpop a with
          | None => ([], a)
          | Some (x, rest) => let '(p, rest') := pop_commits_of_height f hh rest in (x :: p, rest')
          end
        else ([], a)
      end
    end.

  (* parentsToQueue: skip commits already seen, heap.Push every parent *)
  Fixpoint parents_to_queue (commits seen q : list nat) : list nat :=
    match commits with
    | [] => q
    | c :: r =>
      if memb c seen then parents_to_queue r seen q
      else parents_to_queue r (c :: seen)
             (fold_left (fun q' p => cpush p q') (c_parents (get s c)) q)
    end.

  Definition pop_and_push (a : list nat) : list nat * list nat :=
    match a with
    | [] => ([], [])
    | r0 :: _ =>
      let '(p, rest) := pop_commits_of_height (length a) (hgt s r0) a in
      (p, parents_to_queue p [] rest)
    end.

  (* findCommonAncestorUsingParentsList; None = out of fuel *)
  Fixpoint mb_parents_heap_fuel (fuel : nat) (a1 a2 : list nat) : option (option nat) :=
    match fuel with
    | O => None
    | S f =>
      match a1, a2 with
      | [], _ => Some None
      | _, [] => Some None
      | r1 :: _, r2 :: _ =>
        let h1 := hgt s r1 in            (* c1Q.MaxHeight() = r[0].Height() *)
        let h2 := hgt s r2 in
        if h1 =? h2 then
          let '(p1, a1') := pop_and_push a1 in
          let '(p2, a2') := pop_and_push a2 in
          match find_common rank p1 p2 with
          | Some c => Some (Some c)
          | None => mb_parents_heap_fuel f a1' a2'
          end
        else if h2 <? h1 then
          let '(_, a1') := pop_and_push a1 in mb_parents_heap_fuel f a1' a2
        else
          let '(_, a2') := pop_and_push a2 in mb_parents_heap_fuel f a1 a2'
      end
    end.

  Definition mb_parents_heap (c1 c2 : nat) : option (option nat) :=
    mb_parents_heap_fuel (hgt s c1 + hgt s c2 + 1) [c1] [c2].
End Walk.
