(* C19 — proofs, for every well-formed history and every pair of commits. *)
From Coq Require Import List Arith Bool Lia NArith Sorted.
From Dolt Require Import Graph.CommitDag Graph.CommitDagFacts C18.Model C18.Spec C18.Proofs C19.Model C19.Spec.
Import ListNotations.

(* ---- generic list facts ---- *)
Lemma ss_snoc {A} (R : A -> A -> Prop) l x :
  StronglySorted R l -> Forall (fun y => R y x) l -> StronglySorted R (l ++ [x]).
Proof.
  induction l as [|y r IH]; intros Hs Hall; cbn [app].
  - constructor; constructor.
  - inversion Hs as [|y' r' Hr Hy]; subst. inversion Hall as [|y' r' Hyx Hrx]; subst.
    constructor; [apply IH; assumption|].
    apply Forall_app. split; [exact Hy | constructor; [exact Hyx | constructor]].
Qed.

Lemma ss_rev {A} (R : A -> A -> Prop) l :
  StronglySorted R l -> StronglySorted (fun a b => R b a) (rev l).
Proof.
  induction l as [|y r IH]; intros Hs; cbn [rev]; [constructor|].
  inversion Hs as [|y' r' Hr Hy]; subst. apply ss_snoc; [apply IH; exact Hr|].
  apply Forall_forall. intros z Hz. apply in_rev in Hz. rewrite Forall_forall in Hy. apply Hy. exact Hz.
Qed.

Section WithRank.
  Variable rank : nat -> nat.
  Hypothesis rank_inj : forall a b, rank a = rank b -> a = b.
  Variable h : hist.
  Hypothesis Hwf : wf_hist h.

  Notation s := (store_of rank h).
  Notation H := (height rank h).
  Notation klt := (key_lt rank).
  Definition kgt (a b : key) : Prop := klt b a.
  Notation com := (common h).

  Lemma hgt_eq c : hgt s c = H c.
  Proof. reflexivity. Qed.

  (* ================= closure-iterator walk ================= *)
  Lemma mb_walk_nil_l l2 : mb_walk rank [] l2 = None.
  Proof. reflexivity. Qed.
  Lemma mb_walk_nil_r l1 : mb_walk rank l1 [] = None.
  Proof. destruct l1; reflexivity. Qed.
  Lemma mb_walk_cons k1 r1 k2 r2 :
    mb_walk rank (k1 :: r1) (k2 :: r2) =
    if snd k1 =? snd k2 then Some (snd k1)
    else match key_cmp rank k1 k2 with
         | Lt => mb_walk rank (k1 :: r1) r2
         | _ => mb_walk rank r1 (k2 :: r2)
         end.
  Proof. reflexivity. Qed.

  Definition walk_res (l1 l2 : list key) (r : option nat) : Prop :=
    match r with
    | Some m => exists k, snd k = m /\ In k l1 /\ In k l2 /\
                          forall k', In k' l1 -> In k' l2 -> k' = k \/ klt k' k
    | None => forall k, In k l1 -> In k l2 -> False
    end.

  Lemma mb_walk_spec (hf : nat -> nat) l1 : forall l2,
    StronglySorted kgt l1 -> StronglySorted kgt l2 ->
    (forall k, In k l1 \/ In k l2 -> fst k = hf (snd k)) ->
    walk_res l1 l2 (mb_walk rank l1 l2).
  Proof.
    induction l1 as [|k1 r1 IH1]; intros l2 Hs1 Hs2 Hcan.
    - rewrite mb_walk_nil_l. intros k [].
    - induction l2 as [|k2 r2 IH2].
      + rewrite mb_walk_nil_r. intros k _ [].
      + rewrite mb_walk_cons.
        inversion Hs1 as [|k1' r1' Hr1 Hk1]; subst. inversion Hs2 as [|k2' r2' Hr2 Hk2]; subst.
        rewrite Forall_forall in Hk1, Hk2.
        destruct (Nat.eqb_spec (snd k1) (snd k2)) as [E|NE].
        * assert (k1 = k2).
          { destruct k1 as [a1 b1], k2 as [a2 b2]. cbn [snd] in E. subst b2.
            pose proof (Hcan (a1, b1) (or_introl (or_introl eq_refl))) as C1.
            pose proof (Hcan (a2, b1) (or_intror (or_introl eq_refl))) as C2.
            cbn [fst snd] in C1, C2. congruence. }
          subst k2. exists k1. split; [reflexivity|]. split; [left; reflexivity|]. split; [left; reflexivity|].
          intros k' [<-|Hin] _; [left; reflexivity | right; apply Hk1; exact Hin].
        * destruct (key_cmp rank k1 k2) eqn:Ec.
          -- apply key_cmp_eq_iff in Ec; [|exact rank_inj]. subst. congruence.
          -- (* k1 < k2 : advance the second iterator *)
             assert (Hres : walk_res (k1 :: r1) r2 (mb_walk rank (k1 :: r1) r2)).
             { apply IH2; [exact Hr2|]. intros k [Hk|Hk]; apply Hcan; [left; exact Hk | right; right; exact Hk]. }
             assert (Hnot : forall k', In k' (k1 :: r1) -> In k' (k2 :: r2) -> In k' r2).
             { intros k' H1 [<-|H2]; [|exact H2]. exfalso. destruct H1 as [<-|H1]; [congruence|].
               apply (key_lt_irrefl rank k1). eapply key_lt_trans; [exact Ec | apply Hk1; exact H1]. }
             destruct (mb_walk rank (k1 :: r1) r2) as [m|]; cbn [walk_res] in *.
             ++ destruct Hres as [k [Hm [Hi1 [Hi2 Hmax]]]]. exists k. repeat split; try assumption; [right; exact Hi2|].
                intros k' H1 H2. apply Hmax; [exact H1 | apply Hnot; assumption].
             ++ intros k H1 H2. apply (Hres k H1). apply Hnot; assumption.
          -- (* k1 > k2 : advance the first iterator *)
             apply key_cmp_gt_iff in Ec.
             assert (Hres : walk_res r1 (k2 :: r2) (mb_walk rank r1 (k2 :: r2))).
             { apply IH1; [exact Hr1 | exact Hs2|]. intros k [Hk|Hk]; apply Hcan; [left; right; exact Hk | right; exact Hk]. }
             assert (Hnot : forall k', In k' (k1 :: r1) -> In k' (k2 :: r2) -> In k' r1).
             { intros k' [<-|H1] H2; [|exact H1]. exfalso. destruct H2 as [<-|H2]; [congruence|].
               apply (key_lt_irrefl rank k2). eapply key_lt_trans; [exact Ec | apply Hk2; exact H2]. }
             destruct (mb_walk rank r1 (k2 :: r2)) as [m|]; cbn [walk_res] in *.
             ++ destruct Hres as [k [Hm [Hi1 [Hi2 Hmax]]]]. exists k. repeat split; try assumption; [right; exact Hi1|].
                intros k' H1 H2. apply Hmax; [apply Hnot; assumption | exact H2].
             ++ intros k H1 H2. apply (Hres k); [apply Hnot; assumption | exact H2].
  Qed.

  (* the iteration sequence of a commit: exactly its ancestors-or-self, descending *)
  Lemma closure_iter_In c k :
    In k (closure_iter s c) <-> exists a, ancs h a c /\ k = (H a, a).
  Proof.
    unfold closure_iter, self_key. cbn [In]. rewrite <- in_rev.
    destruct (closure_spec rank rank_inj h c Hwf) as [_ Hin]. fold (closure_of rank h c). rewrite Hin.
    split.
    - intros [<-|[a [Ha ->]]]; [exists c; split; [left; reflexivity | reflexivity] | exists a; split; [right; exact Ha | reflexivity]].
    - intros [a [[->|Ha] ->]]; [left; reflexivity | right; exists a; split; [exact Ha | reflexivity]].
  Qed.

  Lemma closure_iter_sorted c : StronglySorted kgt (closure_iter s c).
  Proof.
    unfold closure_iter. constructor.
    - apply (ss_rev klt). apply (closure_sorted rank rank_inj h c Hwf).
    - apply Forall_forall. intros k Hk. apply in_rev in Hk.
      destruct (closure_spec rank rank_inj h c Hwf) as [_ Hin]. apply Hin in Hk. destruct Hk as [a [Ha ->]].
      unfold kgt, key_lt, self_key. apply key_cmp_lt_iff. cbn [fst snd]. left.
      rewrite hgt_eq. apply ancestor_lower; assumption.
  Qed.

  Definition best_closure (c1 c2 m : nat) : Prop :=
    com c1 c2 m /\ forall x, com c1 c2 x -> x = m \/ klt (H x, x) (H m, m).

  (* FindCommonAncestor's closure walk returns the common ancestor-or-self that is
     greatest in (height, address); none iff there is none *)
  Theorem mb_closure_spec c1 c2 :
    match mb_closure rank s c1 c2 with
    | Some m => best_closure c1 c2 m
    | None => forall x, ~ com c1 c2 x
    end.
  Proof.
    unfold mb_closure.
    pose proof (mb_walk_spec H (closure_iter s c1) (closure_iter s c2)
                  (closure_iter_sorted c1) (closure_iter_sorted c2)) as Hw.
    assert (Hcan : forall k, In k (closure_iter s c1) \/ In k (closure_iter s c2) -> fst k = H (snd k)).
    { intros k [Hk|Hk]; apply closure_iter_In in Hk; destruct Hk as [a [_ ->]]; reflexivity. }
    specialize (Hw Hcan). destruct (mb_walk rank (closure_iter s c1) (closure_iter s c2)) as [m|]; cbn [walk_res] in Hw.
    - destruct Hw as [k [Hm [H1 [H2 Hmax]]]]. apply closure_iter_In in H1, H2.
      destruct H1 as [a [Ha1 ->]]. destruct H2 as [a' [Ha2 E]]. inversion E; subst a'. cbn [snd] in Hm. subst a.
      split; [split; assumption|]. intros x [Hx1 Hx2].
      destruct (Hmax (H x, x)) as [E'|L]; try (apply closure_iter_In; exists x; split; [assumption | reflexivity]).
      + left. inversion E'. reflexivity.
      + right. exact L.
    - intros x [Hx1 Hx2]. apply (Hw (H x, x)); apply closure_iter_In; exists x; split; (assumption || reflexivity).
  Qed.

  (* ================= parents-list (height heap) walk ================= *)
  Lemma maxh_ge q y : In y q -> H y <= maxh s q.
  Proof. intros Hy. unfold maxh. apply max_of_ge. apply (in_map (hgt s)) in Hy. exact Hy. Qed.

  Lemma at_level_In hh q y : In y (at_level s hh q) <-> In y q /\ H y = hh.
  Proof. unfold at_level. rewrite filter_In, Nat.eqb_eq. reflexivity. Qed.

  Lemma below_level_In hh q y : In y (below_level s hh q) <-> In y q /\ H y <> hh.
  Proof.
    unfold below_level. rewrite filter_In. rewrite hgt_eq.
    destruct (Nat.eqb_spec (H y) hh); cbn [negb]; intuition congruence.
  Qed.

  Lemma push_parents_In p z : In z (push_parents s p) <-> exists y, In y p /\ In z (parents h y).
  Proof.
    unfold push_parents. rewrite in_flat_map. split; intros [y [Hy Hz]]; exists y.
    - apply (proj1 (dedup_In _ _)) in Hy. rewrite (stored_parents rank h y Hwf) in Hz. split; assumption.
    - rewrite dedup_In, (stored_parents rank h y Hwf). split; assumption.
  Qed.

  Lemma ancs_parent y c z : ancs h y c -> In z (parents h y) -> ancs h z c.
  Proof.
    intros Hy Hz. apply ancs_trans with (b := y); [right; apply anc_parent; exact Hz | exact Hy].
  Qed.

  (* one pop of the highest level of a heap that holds ancestors-or-self of c *)
  Lemma pop_level c q :
    c < length h -> q <> [] -> (forall y, In y q -> ancs h y c) ->
    let hh := maxh s q in
    let q' := below_level s hh q ++ push_parents s (at_level s hh q) in
    (forall y, In y q' -> ancs h y c) /\
    S (maxh s q') <= hh /\
    (forall x, (exists y, In y q /\ ancs h x y) -> ~ In x (at_level s hh q) -> exists y, In y q' /\ ancs h x y).
  Proof.
    intros Hc Hne HS hh q'. split; [|split].
    - intros y Hy. unfold q' in Hy. apply in_app_iff in Hy. destruct Hy as [Hy|Hy].
      + apply below_level_In in Hy. apply HS. apply Hy.
      + apply push_parents_In in Hy. destruct Hy as [y0 [Hy0 Hz]]. apply at_level_In in Hy0.
        eapply ancs_parent; [apply HS; apply Hy0 | exact Hz].
    - assert (Hpos : 1 <= hh).
      { destruct q as [|y0 r]; [congruence|].
        assert (Hy0 : In y0 (y0 :: r)) by (left; reflexivity).
        pose proof (maxh_ge _ _ Hy0). pose proof (ancs_le h y0 c Hwf (HS y0 Hy0)).
        pose proof (height_pos rank h y0 Hwf ltac:(lia)). unfold hh. lia. }
      assert (Hle : maxh s q' <= hh - 1).
      { unfold maxh. apply max_of_le. intros n Hn. apply in_map_iff in Hn. destruct Hn as [y [<- Hy]].
        rewrite hgt_eq. unfold q' in Hy. apply in_app_iff in Hy. destruct Hy as [Hy|Hy].
        - apply below_level_In in Hy. destruct Hy as [Hy Hn]. pose proof (maxh_ge _ _ Hy) as Hmg. fold hh in Hmg. lia.
        - apply push_parents_In in Hy. destruct Hy as [y0 [Hy0 Hz]]. apply at_level_In in Hy0.
          destruct Hy0 as [_ Hh]. pose proof (parent_lower rank h y0 y Hwf Hz). lia. }
      lia.
    - intros x [y [Hy Hxy]] Hnot. destruct (Nat.eq_dec (H y) hh) as [E|NE].
      + destruct Hxy as [->|Hxy].
        * exfalso. apply Hnot. apply at_level_In. split; assumption.
        * apply anc_inv in Hxy. destruct Hxy as [p [Hp Hxp]]. exists p. split; [|exact Hxp].
          unfold q'. apply in_app_iff. right. apply push_parents_In. exists y. split; [|exact Hp].
          apply at_level_In. split; assumption.
      + exists y. split; [|exact Hxy]. unfold q'. apply in_app_iff. left. apply below_level_In. split; assumption.
  Qed.

  Lemma min_rank_spec l :
    match min_rank rank l with
    | None => l = []
    | Some m => In m l /\ forall z, In z l -> rank m <= rank z
    end.
  Proof.
    induction l as [|x r IH]; cbn [min_rank]; [reflexivity|].
    destruct (min_rank rank r) as [y|].
    - destruct IH as [Hy Hmin]. destruct (Nat.ltb_spec (rank x) (rank y)) as [L|G].
      + split; [left; reflexivity|]. intros z [<-|Hz]; [lia|]. specialize (Hmin z Hz). lia.
      + split; [right; exact Hy|]. intros z [<-|Hz]; [lia | apply Hmin; exact Hz].
    - subst r. split; [left; reflexivity|]. intros z [<-|[]]. lia.
  Qed.

  Lemma find_common_spec p1 p2 :
    match find_common rank p1 p2 with
    | None => forall z, In z p1 -> In z p2 -> False
    | Some m => In m p1 /\ In m p2 /\ forall z, In z p1 -> In z p2 -> rank m <= rank z
    end.
  Proof.
    unfold find_common. pose proof (min_rank_spec (filter (fun c => memb c p2) p1)) as Hm.
    destruct (min_rank rank (filter (fun c => memb c p2) p1)) as [m|].
    - destruct Hm as [Hin Hmin]. apply filter_In in Hin. destruct Hin as [H1 H2]. apply memb_In in H2.
      split; [exact H1|]. split; [exact H2|]. intros z Hz1 Hz2. apply Hmin. apply filter_In. split; [exact Hz1 | apply memb_In; exact Hz2].
    - intros z Hz1 Hz2. assert (Hin : In z (filter (fun c => memb c p2) p1)).
      { apply filter_In. split; [exact Hz1 | apply memb_In; exact Hz2]. }
      rewrite Hm in Hin. destruct Hin.
  Qed.

  (* what the parents-list walk returns: a common ancestor-or-self of maximal
     height and, among those, of least address *)
  Definition best_parents (c1 c2 m : nat) : Prop :=
    com c1 c2 m /\ (forall x, com c1 c2 x -> H x <= H m) /\
    (forall x, com c1 c2 x -> H x = H m -> rank m <= rank x).

  Definition parents_res (c1 c2 : nat) (r : option nat) : Prop :=
    match r with
    | Some m => best_parents c1 c2 m
    | None => forall x, ~ com c1 c2 x
    end.

  Definition heap_inv (c1 c2 : nat) (q1 q2 : list nat) : Prop :=
    (forall y, In y q1 -> ancs h y c1) /\ (forall y, In y q2 -> ancs h y c2) /\
    (forall x, com c1 c2 x -> (exists y, In y q1 /\ ancs h x y) /\ (exists y, In y q2 /\ ancs h x y)).

  Lemma covered_height x q : (exists y, In y q /\ ancs h x y) -> H x <= maxh s q.
  Proof.
    intros [y [Hy Hxy]]. pose proof (maxh_ge _ _ Hy). pose proof (ancs_height_le rank h x y Hwf Hxy). lia.
  Qed.

  (* x is covered by q, sits at q's top level: then x itself is in q's top level *)
  Lemma covered_top x q : (exists y, In y q /\ ancs h x y) -> H x = maxh s q -> In x (at_level s (maxh s q) q).
  Proof.
    intros [y [Hy Hxy]] E. pose proof (maxh_ge _ _ Hy). pose proof (ancs_height_le rank h x y Hwf Hxy).
    assert (x = y) by (apply (ancs_same_height rank h x y Hwf Hxy); lia). subst y.
    apply at_level_In. split; [exact Hy | exact E].
  Qed.

  Lemma mb_parents_fuel_spec c1 c2 : c1 < length h -> c2 < length h ->
    forall fuel q1 q2, heap_inv c1 c2 q1 q2 -> maxh s q1 + maxh s q2 < fuel ->
    exists r, mb_parents_fuel rank fuel s q1 q2 = Some r /\ parents_res c1 c2 r.
  Proof.
    intros Hc1 Hc2. induction fuel as [|f IH]; intros q1 q2 [HS1 [HS2 Hcov]] Hfuel; [lia|].
    cbn [mb_parents_fuel].
    destruct q1 as [|a1 t1] eqn:Eq1.
    { exists None. split; [reflexivity|]. intros x Hx. destruct (Hcov x Hx) as [[y [[] _]] _]. }
    destruct q2 as [|a2 t2] eqn:Eq2.
    { exists None. split; [reflexivity|]. intros x Hx. destruct (Hcov x Hx) as [_ [y [[] _]]]. }
    rewrite <- Eq1, <- Eq2 in *.
    assert (Hne1 : q1 <> []) by (rewrite Eq1; congruence).
    assert (Hne2 : q2 <> []) by (rewrite Eq2; congruence).
    clear Eq1 Eq2 a1 t1 a2 t2.
    destruct (pop_level c1 q1 Hc1 Hne1 HS1) as [P1S [P1M P1C]].
    destruct (pop_level c2 q2 Hc2 Hne2 HS2) as [P2S [P2M P2C]].
    set (h1 := maxh s q1) in *. set (h2 := maxh s q2) in *.
    destruct (Nat.eqb_spec h1 h2) as [E|NE].
    - pose proof (find_common_spec (at_level s h1 q1) (at_level s h2 q2)) as Hfc.
      destruct (find_common rank (at_level s h1 q1) (at_level s h2 q2)) as [m|].
      + destruct Hfc as [Hm1 [Hm2 Hmin]]. exists (Some m). split; [reflexivity|].
        apply at_level_In in Hm1, Hm2. destruct Hm1 as [Hm1 Hh1]. destruct Hm2 as [Hm2 Hh2].
        split; [split; [apply HS1 | apply HS2]; assumption|]. split.
        * intros x Hx. destruct (Hcov x Hx) as [Cv1 _]. apply covered_height in Cv1. fold h1 in Cv1. lia.
        * intros x Hx Ex. destruct (Hcov x Hx) as [Cv1 Cv2]. apply Hmin.
          -- apply covered_top; [exact Cv1 | fold h1; lia].
          -- apply covered_top; [exact Cv2 | fold h2; lia].
      + apply IH; [|lia]. split; [exact P1S|]. split; [exact P2S|].
        intros x Hx. destruct (Hcov x Hx) as [Cv1 Cv2]. split.
        * apply P1C; [exact Cv1|]. intros Hin. apply (Hfc x Hin).
          apply at_level_In in Hin. destruct Hin as [_ Hhx]. apply covered_top; [exact Cv2 | fold h2; lia].
        * apply P2C; [exact Cv2|]. intros Hin. apply (Hfc x); [|exact Hin].
          apply at_level_In in Hin. destruct Hin as [_ Hhx]. apply covered_top; [exact Cv1 | fold h1; lia].
    - destruct (Nat.ltb_spec h2 h1) as [L|G].
      + apply IH; [|lia]. split; [exact P1S|]. split; [exact HS2|].
        intros x Hx. destruct (Hcov x Hx) as [Cv1 Cv2]. split; [|exact Cv2].
        apply P1C; [exact Cv1|]. intros Hin. apply at_level_In in Hin. destruct Hin as [_ Hhx].
        apply covered_height in Cv2. fold h2 in Cv2. lia.
      + apply IH; [|lia]. split; [exact HS1|]. split; [exact P2S|].
        intros x Hx. destruct (Hcov x Hx) as [Cv1 Cv2]. split; [exact Cv1|].
        apply P2C; [exact Cv2|]. intros Hin. apply at_level_In in Hin. destruct Hin as [_ Hhx].
        apply covered_height in Cv1. fold h1 in Cv1. lia.
  Qed.

  (* findCommonAncestorUsingParentsList terminates and returns the best candidate *)
  Theorem mb_parents_spec c1 c2 : c1 < length h -> c2 < length h ->
    exists r, mb_parents rank s c1 c2 = Some r /\ parents_res c1 c2 r.
  Proof.
    intros Hc1 Hc2. unfold mb_parents. apply mb_parents_fuel_spec; try assumption.
    - split; [|split].
      + intros y [<-|[]]. left. reflexivity.
      + intros y [<-|[]]. left. reflexivity.
      + intros x [Hx1 Hx2]. split; [exists c1 | exists c2]; (split; [left; reflexivity | assumption]).
    - unfold maxh. cbn [map]. rewrite !max_of_cons, !max_of_nil. rewrite !hgt_eq. lia.
  Qed.

  (* ================= FindCommonAncestor (dispatcher) ================= *)
  Notation fca := (find_common_ancestor rank s).

  Definition mb_spec (c1 c2 : nat) (r : option nat) : Prop :=
    match r with
    | Some m => merge_base h H c1 c2 m
    | None => forall x, ~ com c1 c2 x
    end.

  Lemma com_sym c1 c2 x : com c1 c2 x <-> com c2 c1 x.
  Proof. unfold common. tauto. Qed.

  Lemma fca_unfold c1 c2 :
    (c_closure (get s c1) = [] \/ c_closure (get s c2) = [] -> fca c1 c2 = mb_parents rank s c1 c2) /\
    (c_closure (get s c1) <> [] /\ c_closure (get s c2) <> [] -> fca c1 c2 = Some (mb_closure rank s c1 c2)).
  Proof.
    unfold find_common_ancestor.
    destruct (c_closure (get s c1)) as [|k1 r1]; destruct (c_closure (get s c2)) as [|k2 r2]; split;
      try reflexivity; intros Hx; try (destruct Hx as [Hx|Hx]; discriminate); destruct Hx as [Ha Hb]; congruence.
  Qed.

  Lemma closure_dec c : c_closure (get s c) = [] \/ c_closure (get s c) <> [].
  Proof. destruct (c_closure (get s c)); [left; reflexivity | right; congruence]. Qed.

  Lemma parents_res_unique c1 c2 r r' : parents_res c1 c2 r -> parents_res c1 c2 r' -> r = r'.
  Proof.
    destruct r as [m|], r' as [m'|]; cbn [parents_res]; intros A B; try reflexivity.
    - destruct A as [Cm [Mm Tm]], B as [Cm' [Mm' Tm']].
      pose proof (Mm m' Cm') as PP1. pose proof (Mm' m Cm) as PP2.
      assert (E : H m = H m') by lia.
      pose proof (Tm m' Cm' (eq_sym E)) as PP3. pose proof (Tm' m Cm E) as PP4.
      f_equal. apply rank_inj. lia.
    - destruct A as [Cm _]. exfalso. apply (B m Cm).
    - destruct B as [Cm _]. exfalso. apply (A m' Cm).
  Qed.

  Lemma parents_res_sym c1 c2 r : parents_res c1 c2 r -> parents_res c2 c1 r.
  Proof.
    destruct r as [m|]; cbn [parents_res].
    - intros [Cm [Mm Tm]]. split; [apply com_sym; exact Cm|]. split.
      + intros x Hx. apply Mm. apply com_sym. exact Hx.
      + intros x Hx. apply Tm. apply com_sym. exact Hx.
    - intros A x Hx. apply (A x). apply com_sym. exact Hx.
  Qed.

  Lemma mb_parents_sym c1 c2 : c1 < length h -> c2 < length h ->
    mb_parents rank s c1 c2 = mb_parents rank s c2 c1.
  Proof.
    intros Hc1 Hc2. destruct (mb_parents_spec c1 c2 Hc1 Hc2) as [r [-> Hr]].
    destruct (mb_parents_spec c2 c1 Hc2 Hc1) as [r' [-> Hr']].
    f_equal. apply (parents_res_unique c1 c2); [exact Hr | apply parents_res_sym; exact Hr'].
  Qed.

  Lemma mb_closure_sym c1 c2 : mb_closure rank s c1 c2 = mb_closure rank s c2 c1.
  Proof.
    pose proof (mb_closure_spec c1 c2) as A. pose proof (mb_closure_spec c2 c1) as B.
    destruct (mb_closure rank s c1 c2) as [m|], (mb_closure rank s c2 c1) as [m'|]; try reflexivity.
    - destruct A as [Cm Mm], B as [Cm' Mm'].
      destruct (Mm m' (proj1 (com_sym _ _ _) Cm')) as [E|L]; [subst; reflexivity|].
      destruct (Mm' m (proj1 (com_sym _ _ _) Cm)) as [E|L']; [subst; reflexivity|].
      exfalso. apply (key_lt_irrefl rank (H m, m)). eapply key_lt_trans; eassumption.
    - destruct A as [Cm _]. exfalso. apply (B m). apply com_sym. exact Cm.
    - destruct B as [Cm _]. exfalso. apply (A m'). apply com_sym. exact Cm.
  Qed.

  Lemma best_closure_mb c1 c2 m : best_closure c1 c2 m -> merge_base h H c1 c2 m.
  Proof.
    intros [Cm Mm]. split; [exact Cm|]. intros x Hx. destruct (Mm x Hx) as [->|L]; [lia|].
    unfold key_lt in L. apply key_cmp_lt_iff in L. cbn [fst snd] in L. lia.
  Qed.

  (* FindCommonAncestor terminates with a merge base, or with none when there is none *)
  Theorem fca_total c1 c2 : c1 < length h -> c2 < length h ->
    exists r, fca c1 c2 = Some r /\ mb_spec c1 c2 r.
  Proof.
    intros Hc1 Hc2. destruct (fca_unfold c1 c2) as [UP UC].
    destruct (closure_dec c1) as [E1|N1]; [|destruct (closure_dec c2) as [E2|N2]].
    - rewrite UP by (left; exact E1). destruct (mb_parents_spec c1 c2 Hc1 Hc2) as [r [-> Hr]].
      exists r. split; [reflexivity|]. destruct r as [m|]; [|exact Hr]. destruct Hr as [Cm [Mm _]]. split; assumption.
    - rewrite UP by (right; exact E2). destruct (mb_parents_spec c1 c2 Hc1 Hc2) as [r [-> Hr]].
      exists r. split; [reflexivity|]. destruct r as [m|]; [|exact Hr]. destruct Hr as [Cm [Mm _]]. split; assumption.
    - rewrite UC by (split; assumption). exists (mb_closure rank s c1 c2). split; [reflexivity|].
      pose proof (mb_closure_spec c1 c2) as A. destruct (mb_closure rank s c1 c2) as [m|]; [|exact A].
      apply best_closure_mb. exact A.
  Qed.

  (* the result is a common ancestor-or-self of both commits *)
  Theorem mb_common c1 c2 m : c1 < length h -> c2 < length h ->
    fca c1 c2 = Some (Some m) -> ancs h m c1 /\ ancs h m c2.
  Proof.
    intros Hc1 Hc2 E. destruct (fca_total c1 c2 Hc1 Hc2) as [r [Er Hr]]. rewrite E in Er. inversion Er; subst r.
    destruct Hr as [Cm _]. exact Cm.
  Qed.

  (* no common ancestor is higher *)
  Theorem mb_maximal c1 c2 m : c1 < length h -> c2 < length h ->
    fca c1 c2 = Some (Some m) -> forall x, ancs h x c1 -> ancs h x c2 -> H x <= H m.
  Proof.
    intros Hc1 Hc2 E x Hx1 Hx2. destruct (fca_total c1 c2 Hc1 Hc2) as [r [Er Hr]]. rewrite E in Er. inversion Er; subst r.
    destruct Hr as [_ Mm]. apply Mm. split; assumption.
  Qed.

  (* no result exactly when the two commits have no common ancestor *)
  Theorem mb_none_iff c1 c2 : c1 < length h -> c2 < length h ->
    (fca c1 c2 = Some None <-> forall x, ~ (ancs h x c1 /\ ancs h x c2)).
  Proof.
    intros Hc1 Hc2. destruct (fca_total c1 c2 Hc1 Hc2) as [r [Er Hr]]. rewrite Er. split.
    - intros E. inversion E; subst r. exact Hr.
    - intros Hno. destruct r as [m|]; [|reflexivity]. destruct Hr as [Cm _]. exfalso. apply (Hno m Cm).
  Qed.

  (* independent of the argument order *)
  Theorem mb_sym c1 c2 : c1 < length h -> c2 < length h -> fca c1 c2 = fca c2 c1.
  Proof.
    intros Hc1 Hc2. destruct (fca_unfold c1 c2) as [UP UC]. destruct (fca_unfold c2 c1) as [UP' UC'].
    destruct (closure_dec c1) as [E1|N1]; [|destruct (closure_dec c2) as [E2|N2]].
    - rewrite UP by (left; exact E1). rewrite UP' by (right; exact E1). apply mb_parents_sym; assumption.
    - rewrite UP by (right; exact E2). rewrite UP' by (left; exact E2). apply mb_parents_sym; assumption.
    - rewrite UC by (split; assumption). rewrite UC' by (split; assumption). f_equal. apply mb_closure_sym.
  Qed.

  (* ================= GetAncestor ================= *)
  Lemma walk_spec_walk c insts : walk s c insts = spec_walk h c insts.
  Proof.
    revert c. induction insts as [|i r IH]; intros c; cbn [walk spec_walk]; [reflexivity|].
    rewrite (stored_parents rank h c Hwf). destruct (nth_error (parents h c) i); [apply IH | reflexivity].
  Qed.

  Lemma spec_walk_path c insts d : spec_walk h c insts = Some d <-> path h c insts d.
  Proof.
    revert c. induction insts as [|i r IH]; intros c; cbn [spec_walk].
    - split; [intros E; inversion E; constructor | intros P; inversion P; reflexivity].
    - split.
      + destruct (nth_error (parents h c) i) as [p|] eqn:En; [|discriminate].
        intros E. econstructor; [exact En | apply IH; exact E].
      + intros P. inversion P as [|c' i' p r' d' En Pr]; subst. rewrite En. apply IH. exact Pr.
  Qed.

  Lemma spec_walk_stuck c insts : spec_walk h c insts = None <-> walk_stuck h c insts.
  Proof.
    split.
    - revert c. induction insts as [|i r IH]; intros c; cbn [spec_walk]; [discriminate|].
      destruct (nth_error (parents h c) i) as [p|] eqn:En.
      + intros E. destruct (IH p E) as [pre [j [post [m [Er [Pm Hl]]]]]].
        exists (i :: pre), j, post, m. split; [cbn [app]; congruence|]. split; [econstructor; eassumption | exact Hl].
      + intros _. exists [], i, r, c. split; [reflexivity|]. split; [constructor | apply nth_error_None; exact En].
    - intros [pre [j [post [m [-> [Pm Hl]]]]]]. induction Pm as [c | c i p r d En _ IH]; cbn [app spec_walk].
      + apply nth_error_None in Hl. rewrite Hl. reflexivity.
      + rewrite En. apply IH. exact Hl.
  Qed.

  (* walking an instruction list = iterated parent selection; it fails exactly
     when some parent index is out of range *)
  Theorem spec_walk_thm c insts :
    (forall d, walk s c insts = Some d <-> path h c insts d) /\
    (walk s c insts = None <-> walk_stuck h c insts).
  Proof.
    rewrite walk_spec_walk. split; [intros d; apply spec_walk_path | apply spec_walk_stuck].
  Qed.

  (* resolving base ++ suffix = walking the suffix from where the base leads *)
  Theorem walk_app c a b :
    walk s c (a ++ b) = match walk s c a with Some m => walk s m b | None => None end.
  Proof.
    revert c. induction a as [|i r IH]; intros c; cbn [app walk]; [reflexivity|].
    destruct (nth_error (c_parents (get s c)) i); [apply IH | reflexivity].
  Qed.

  Definition first_parent (o : option nat) : option nat :=
    match o with Some m => nth_error (parents h m) 0 | None => None end.

  (* ~n is n first-parent steps *)
  Theorem walk_repeat_first_parent c n :
    walk s c (repeat 0 n) = Nat.iter n first_parent (Some c).
  Proof.
    induction n as [|n IH]; [reflexivity|].
    assert (E : repeat 0 (S n) = repeat 0 n ++ [0]) by (cbn [repeat]; apply repeat_cons).
    rewrite E, walk_app, IH. cbn [Nat.iter nat_rect]. destruct (Nat.iter n first_parent (Some c)) as [m|] eqn:Ei.
    - unfold Nat.iter in Ei. rewrite Ei. cbn [walk first_parent]. rewrite (stored_parents rank h m Hwf).
      destruct (nth_error (parents h m) 0); reflexivity.
    - unfold Nat.iter in Ei. rewrite Ei. reflexivity.
  Qed.

  (* ================= CanFastForwardTo ================= *)
  Lemma mb_is_arg c1 c2 m : merge_base h H c1 c2 m -> (m = c1 <-> ancs h c1 c2).
  Proof.
    intros [[A1 A2] Mm]. split.
    - intros ->. exact A2.
    - intros A. assert (Hc : com c1 c2 c1) by (split; [left; reflexivity | exact A]).
      pose proof (Mm c1 Hc) as PP5. pose proof (ancs_height_le rank h m c1 Hwf A1) as PP6.
      apply (ancs_same_height rank h m c1 Hwf A1). lia.
  Qed.

  Lemma merge_base_sym c1 c2 m : merge_base h H c1 c2 m -> merge_base h H c2 c1 m.
  Proof.
    intros [Cm Mm]. split; [apply com_sym; exact Cm|]. intros x Hx. apply Mm. apply com_sym. exact Hx.
  Qed.

  (* the five verdicts of CanFastForwardTo, by the ancestor relation:
     (true, ErrUpToDate) iff equal; (true, nil) iff the head is a proper ancestor
     of the target; (false, ErrIsAhead) iff the target is a proper ancestor of the
     head; error iff no common ancestor; (false, nil) otherwise *)
  Theorem can_ff_spec c new : c < length h -> new < length h ->
    (can_ff rank s c new = FF_uptodate <-> c = new) /\
    (can_ff rank s c new = FF_ok <-> anc h c new) /\
    (can_ff rank s c new = FF_ahead <-> anc h new c) /\
    (can_ff rank s c new = FF_noancestor <-> forall x, ~ com c new x) /\
    (can_ff rank s c new = FF_diverged <-> ~ ancs h c new /\ ~ ancs h new c /\ exists x, com c new x) /\
    can_ff rank s c new <> FF_fuel.
  Proof.
    intros Hc Hn. unfold can_ff. destruct (fca_total c new Hc Hn) as [r [-> Hr]].
    assert (Hirr : forall z, ~ anc h z z).
    { intros z X. apply anc_lt in X; [lia | exact Hwf]. }
    assert (T2 : c = new <-> new = c) by (split; congruence).
    assert (T3 : c = new -> ~ anc h c new) by (intros -> X; apply (Hirr _ X)).
    assert (T4 : c = new -> ~ anc h new c) by (intros -> X; apply (Hirr _ X)).
    assert (Hex : anc h c new -> anc h new c -> False).
    { intros X Y. apply anc_lt in X, Y; try exact Hwf. lia. }
    destruct r as [a|]; cbn [mb_spec] in Hr.
    - pose proof (mb_is_arg c new a Hr) as Ac.
      pose proof (mb_is_arg new c a (merge_base_sym _ _ _ Hr)) as An.
      assert (Hcom : com c new a) by apply Hr.
      assert (T1 : a = c -> a = new -> c = new) by congruence.
      assert (T5 : a = c -> c = new -> a = new) by congruence.
      assert (T6 : a = new -> c = new -> a = c) by congruence.
      assert (EC : exists x, com c new x) by (exists a; exact Hcom).
      assert (NCf : (forall x, ~ com c new x) -> False) by (intros X; apply (X a Hcom)).
      unfold ancs in Ac, An.
      destruct (Nat.eqb_spec a c) as [Eac|Nac]; destruct (Nat.eqb_spec a new) as [Ean|Nan];
        repeat split; intros; try discriminate; try reflexivity; unfold ancs in *; tauto.
    - assert (N1 : ~ ancs h c new).
      { intros X. apply (Hr c). split; [left; reflexivity | exact X]. }
      assert (N2 : ~ ancs h new c).
      { intros X. apply (Hr new). split; [exact X | left; reflexivity]. }
      assert (ECf : (exists x, com c new x) -> False) by (intros [x Hx]; apply (Hr x Hx)).
      repeat split; intros; try discriminate; try reflexivity; try apply Hr; unfold ancs in *; tauto.
  Qed.

  (* the boolean the callers look at: true iff the head is an ancestor-or-equal of the target *)
  Corollary can_ff_true_iff c new : c < length h -> new < length h ->
    (can_ff rank s c new = FF_ok \/ can_ff rank s c new = FF_uptodate) <-> ancs h c new.
  Proof.
    intros Hc Hn. destruct (can_ff_spec c new Hc Hn) as [U [O _]]. unfold ancs. rewrite U, O. tauto.
  Qed.
End WithRank.

(* ---- non-vacuity and a recorded difference between the two walks ---- *)
Example criss_cross_wf : wf_histb [[]; [0]; [0]; [1; 2]; [2; 1]; [3]; [4]; []] = true.
Proof. reflexivity. Qed.

(* two merge bases of equal height (commits 1 and 2): the closure walk takes the
   greater address, the parents walk the smaller one; both are order independent *)
Example variants_differ :
  let hh := [[]; [0]; [0]; [1; 2]; [2; 1]; [3]; [4]; []] in
  let rk := fun c : nat => c in
  mb_closure rk (store_of rk hh) 5 6 = Some 2 /\ mb_closure rk (store_of rk hh) 6 5 = Some 2 /\
  mb_parents rk (store_of rk hh) 5 6 = Some (Some 1) /\ mb_parents rk (store_of rk hh) 6 5 = Some (Some 1) /\
  find_common_ancestor rk (store_of rk hh) 5 7 = Some None /\
  can_ff rk (store_of rk hh) 1 5 = FF_ok /\ can_ff rk (store_of rk hh) 5 6 = FF_diverged /\
  walk (store_of rk hh) 5 [0; 1] = Some 2 /\ walk (store_of rk hh) 5 [0; 1; 0; 0] = None.
Proof. vm_compute. repeat split; reflexivity. Qed.
