(* C19 — what merge bases, ancestor walks and fast-forward tests must be, stated
   on the commit graph alone, plus boolean forms used as the oracle. *)
From Coq Require Import List Arith Bool.
From Dolt Require Import Graph.CommitDag.
Import ListNotations.

(* height as the property text defines it: one more than the highest parent *)
Definition hspec_entry (tbl : list nat) (ps : list nat) : nat :=
  S (max_of (map (fun p => nth p tbl 0) ps)).
Definition spec_height (h : hist) (c : nat) : nat := nth c (build hspec_entry h) 0.

Definition common (h : hist) (c1 c2 x : nat) : Prop := ancs h x c1 /\ ancs h x c2.

(* m is a merge base: a common ancestor(-or-self) such that none is higher *)
Definition merge_base (h : hist) (hgt : nat -> nat) (c1 c2 m : nat) : Prop :=
  common h c1 c2 m /\ forall x, common h c1 c2 x -> hgt x <= hgt m.

(* iterated parent selection *)
Inductive path (h : hist) : nat -> list nat -> nat -> Prop :=
| path_nil c : path h c [] c
| path_cons c i p r d : nth_error (parents h c) i = Some p -> path h p r d -> path h c (i :: r) d.

(* the walk fails exactly when, after some prefix, the next index is out of range *)
Definition walk_stuck (h : hist) (c : nat) (insts : list nat) : Prop :=
  exists pre i post m, insts = pre ++ i :: post /\ path h c pre m /\ length (parents h m) <= i.

Fixpoint spec_walk (h : hist) (c : nat) (insts : list nat) : option nat :=
  match insts with
  | [] => Some c
  | i :: r => match nth_error (parents h c) i with
              | None => None
              | Some p => spec_walk h p r
              end
  end.

(* ---- boolean forms over the input graph.  [tbl] = anc_table h and
        [htbl] = build hspec_entry h are computed once per case. ---- *)
Definition is_ancs_t (tbl : list (list nat)) (a c : nat) : bool := (a =? c) || memb a (nth c tbl []).
Definition commonb (tbl : list (list nat)) (c1 c2 x : nat) : bool := is_ancs_t tbl x c1 && is_ancs_t tbl x c2.

Definition mb_okb (n : nat) (tbl : list (list nat)) (htbl : list nat) (c1 c2 : nat) (r : option nat) : bool :=
  let all := seq 0 n in
  match r with
  | None => forallb (fun x => negb (commonb tbl c1 c2 x)) all
  | Some m => commonb tbl c1 c2 m
              && forallb (fun x => negb (commonb tbl c1 c2 x) || (nth x htbl 0 <=? nth m htbl 0)) all
  end.

(* expected fast-forward verdict: 0 ok, 1 up to date, 2 ahead, 3 diverged, 4 no common ancestor *)
Definition ff_expected (n : nat) (tbl : list (list nat)) (c new : nat) : nat :=
  if c =? new then 1
  else if memb c (nth new tbl []) then 0
  else if memb new (nth c tbl []) then 2
  else if existsb (commonb tbl c new) (seq 0 n) then 3 else 4.
