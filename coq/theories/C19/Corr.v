(* C19 — correspondence.  The harness builds the history (same builder as C18,
   commit i is the head of branch "b<i>"), then for each requested ordered pair
   calls datas.FindCommonAncestor, findCommonAncestorUsingParentsList (verif
   export), doltdb.GetCommitAncestor and DoltDB.CanFastForward(branch b<first>,
   second), and resolves each spec "b<start><suffix>" with NewCommitSpec +
   DoltDB.Resolve.  Ids are creation indices; the address order is exported as
   a rank table. *)
From Coq Require Import NArith List Arith Bool.
From Dolt Require Import Base.Str Graph.CommitDag C18.Model C18.Corr C44.Model C19.Model C19.Spec.
Import ListNotations.

(* ((parents lists, rank), ordered pairs), specs (start commit, suffix bytes) *)
Definition input := (((list (list N) * list N) * list (N * N)) * list (N * bytes))%type.
Definition in_hist (i : input) : hist := map (map N.to_nat) (fst (fst (fst i))).
Definition in_rank (i : input) : nat -> nat := rank_of (map N.to_nat (snd (fst (fst i)))).
Definition in_pairs (i : input) : list (nat * nat) :=
  map (fun p => (N.to_nat (fst p), N.to_nat (snd p))) (snd (fst i)).
Definition in_specs (i : input) : list (N * bytes) := snd i.

(* merge-base results: 0 = none, k+1 = commit k, >= 2000000 = error *)
Record obs := {
  o_mb    : list N;          (* datas.FindCommonAncestor *)
  o_mbp   : list N;          (* findCommonAncestorUsingParentsList *)
  o_mbd   : list N;          (* doltdb.GetCommitAncestor *)
  o_ff    : list N;          (* 0 ok, 1 up-to-date, 2 ahead, 3 diverged, 4 no common ancestor, 5 other *)
  o_specs : list (N * N)     (* (0, commit) ok; (1,0) spec rejected; (2,0) ErrInvalidAncestorSpec; (3,0) other *)
}.
Definition case := (input * obs)%type.

Definition enc_mb (r : option (option nat)) : N :=
  match r with
  | None => 2000000%N
  | Some None => 0%N
  | Some (Some c) => N.of_nat (S c)
  end.

Definition enc_ff (r : ff_result) : N :=
  match r with
  | FF_ok => 0 | FF_uptodate => 1 | FF_ahead => 2 | FF_diverged => 3 | FF_noancestor => 4 | FF_fuel => 2000000
  end%N.

Fixpoint dec_fuel (f : nat) (n : N) (acc : bytes) : bytes :=
  match f with
  | O => acc
  | S f' => let acc' := (48 + N.modulo n 10)%N :: acc in
            if (n <? 10)%N then acc' else dec_fuel f' (N.div n 10) acc'
  end.
Definition branch_name (start : N) : bytes := 98%N :: dec_fuel 20 start [].    (* "b<start>" *)

Definition resolve_model (s : store) (start : N) (suffix : bytes) : N * N :=
  let name := branch_name start in
  match new_commit_spec (name ++ suffix) with
  | SErr => (1, 0)%N
  | SOk (ty, base, rle) =>
    match ty with
    | CsRef =>
      if beq_bytes base name then
        match walk s (N.to_nat start) (expand_rle rle) with
        | Some d => (0%N, N.of_nat d)
        | None => (2, 0)%N
        end
      else (3, 0)%N
    | _ => (3, 0)%N
    end
  end.

Definition model_obs (i : input) : obs :=
  let s := store_of (in_rank i) (in_hist i) in
  let rk := in_rank i in
  {| o_mb := map (fun p => enc_mb (find_common_ancestor rk s (fst p) (snd p))) (in_pairs i);
     o_mbp := map (fun p => enc_mb (mb_parents rk s (fst p) (snd p))) (in_pairs i);
     o_mbd := map (fun p => enc_mb (find_common_ancestor rk s (fst p) (snd p))) (in_pairs i);
     o_ff := map (fun p => enc_ff (can_ff rk s (fst p) (snd p))) (in_pairs i);
     o_specs := map (fun sp => resolve_model s (fst sp) (snd sp)) (in_specs i) |}.

Definition obs_eqb (a b : obs) : bool :=
  list_eqb N.eqb (o_mb a) (o_mb b) && list_eqb N.eqb (o_mbp a) (o_mbp b)
  && list_eqb N.eqb (o_mbd a) (o_mbd b) && list_eqb N.eqb (o_ff a) (o_ff b)
  && list_eqb keyN_eqb (o_specs a) (o_specs b).

(* ---- the property on what the implementation returned ---- *)
Definition dec_mb (r : N) : option (option nat) :=
  if (r =? 0)%N then Some None
  else if (r <? 2000000)%N then Some (Some (N.to_nat r - 1)) else None.

(* result is a common ancestor-or-self none is higher than / none exists *)
Definition mb_list_okb (n : nat) (tbl : list (list nat)) (htbl : list nat) (pairs : list (nat * nat)) (res : list N) : bool :=
  (length res =? length pairs) &&
  forallb (fun pr => match dec_mb (snd pr) with
                     | None => false
                     | Some r => mb_okb n tbl htbl (fst (fst pr)) (snd (fst pr)) r
                     end) (combine pairs res).

(* independent of argument order: wherever both (a,b) and (b,a) were asked the answers agree *)
Definition sym_okb (pairs : list (nat * nat)) (res : list N) : bool :=
  let z := combine pairs res in
  forallb (fun pr => forallb (fun qr =>
     if (fst (fst pr) =? snd (fst qr)) && (snd (fst pr) =? fst (fst qr))
     then N.eqb (snd pr) (snd qr) else true) z) z.

Definition ff_okb (n : nat) (tbl : list (list nat)) (pairs : list (nat * nat)) (res : list N) : bool :=
  (length res =? length pairs) &&
  forallb (fun pr => N.eqb (snd pr) (N.of_nat (ff_expected n tbl (fst (fst pr)) (snd (fst pr))))) (combine pairs res).

(* "<name>~n^k…" selects the commit reached by the corresponding parent walk
   from the commit the name resolves to; error exactly when the walk leaves the graph
   (or the suffix is not an ancestor spec) *)
Definition spec_expected (h : hist) (start : N) (suffix : bytes) : N * N :=
  match (match suffix with [] => SOk [] | _ => parse_instructions suffix end) with
  | SErr => (1, 0)%N
  | SOk rle => match spec_walk h (N.to_nat start) (expand_rle rle) with
               | Some d => (0%N, N.of_nat d)
               | None => (2, 0)%N
               end
  end.

Definition specs_okb (h : hist) (specs : list (N * bytes)) (res : list (N * N)) : bool :=
  (length res =? length specs) &&
  forallb (fun sr => keyN_eqb (snd sr) (spec_expected h (fst (fst sr)) (snd (fst sr)))) (combine specs res).

Definition oracle (i : input) (o : obs) : bool :=
  let h := in_hist i in
  let n := length h in
  let tbl := anc_table h in
  let htbl := build hspec_entry h in
  let ps := in_pairs i in
  mb_list_okb n tbl htbl ps (o_mb o) && mb_list_okb n tbl htbl ps (o_mbp o) && mb_list_okb n tbl htbl ps (o_mbd o)
  && sym_okb ps (o_mb o) && sym_okb ps (o_mbp o) && sym_okb ps (o_mbd o)
  && ff_okb n tbl ps (o_ff o)
  && specs_okb h (in_specs i) (o_specs o).

Definition check_case (c : case) : N :=
  ((if obs_eqb (model_obs (fst c)) (snd c) then 0 else 1)
   + (if oracle (fst c) (snd c) then 0 else 2))%N.
