(* C19 — correspondence.  The harness builds the history (same builder as C18,
   commit i is the head of branch "b<i>"), then for each requested ordered pair
   calls datas.FindCommonAncestor, findCommonAncestorUsingParentsList (verif
   export), doltdb.GetCommitAncestor and DoltDB.CanFastForward(branch b<first>,
   second), and resolves each spec "b<start><suffix>" with NewCommitSpec +
   DoltDB.Resolve.  Ids are creation indices; the address order is exported as
   a rank table. *)
From Coq Require Import NArith List Arith Bool.
From Dolt Require Import Base.Str Graph.CommitDag C18.Model C18.Corr C44.Model C19.Model C19.HeapModel C19.Spec.
Import ListNotations.

(* ((parents lists, rank), ordered pairs), specs ((start commit, base name bytes), suffix bytes);
   the base name is the branch "b<start>" or the 32-character hash of commit <start>
   (reported by the harness: it names commit <start> by construction) *)
Definition input := (((list (list N) * list N) * list (N * N)) * list ((N * bytes) * bytes))%type.
Definition in_hist (i : input) : hist := map (map N.to_nat) (fst (fst (fst i))).
Definition in_rank (i : input) : nat -> nat := rank_of (map N.to_nat (snd (fst (fst i)))).
Definition in_pairs (i : input) : list (nat * nat) :=
  map (fun p => (N.to_nat (fst p), N.to_nat (snd p))) (snd (fst i)).
Definition in_specs (i : input) : list ((N * bytes) * bytes) := snd i.

(* merge-base results: 0 = error / model out of fuel, 1 = none, k+2 = commit k *)
Record obs := {
  o_mb    : list N;          (* datas.FindCommonAncestor *)
  o_mbp   : list N;          (* findCommonAncestorUsingParentsList *)
  o_mbd   : list N;          (* doltdb.GetCommitAncestor *)
  o_ff    : list N;          (* 0 ok, 1 up-to-date, 2 ahead, 3 diverged, 4 no common ancestor, 5 other *)
  o_specs : list (N * N)     (* (0, commit) ok; (1,0) spec rejected; (2,0) ErrInvalidAncestorSpec; (3,0) other *)
}.
Definition case := (input * obs)%type.

Definition enc_mb (r : option (option nat)) : N :=
  match r with
  | None => 0%N
  | Some None => 1%N
  | Some (Some c) => N.of_nat (c + 2)
  end.

Definition enc_ff (r : ff_result) : N :=
  match r with
  | FF_ok => 0 | FF_uptodate => 1 | FF_ahead => 2 | FF_diverged => 3 | FF_noancestor => 4 | FF_fuel => 9
  end%N.

Definition resolve_model (s : store) (sb : N * bytes) (suffix : bytes) : N * N :=
  let name := snd sb in
  match new_commit_spec (name ++ suffix) with
  | SErr => (1, 0)%N
  | SOk (ty, base, rle) =>
    match ty with
    | CsHead => (3, 0)%N
    | _ =>
      if beq_bytes base name then
        match walk s (N.to_nat (fst sb)) (expand_rle rle) with
        | Some d => (0%N, N.of_nat d)
        | None => (2, 0)%N
        end
      else (3, 0)%N
    end
  end.

Definition model_obs (i : input) : obs :=
  let s := store_of (in_rank i) (in_hist i) in
  let rk := in_rank i in
  {| o_mb := map (fun p => enc_mb (find_common_ancestor rk s (fst p) (snd p))) (in_pairs i);
     o_mbp := map (fun p => enc_mb (mb_parents_heap rk s (fst p) (snd p))) (in_pairs i);   (* container/heap model *)
     o_mbd := map (fun p => enc_mb (find_common_ancestor rk s (fst p) (snd p))) (in_pairs i);
     o_ff := map (fun p => enc_ff (can_ff rk s (fst p) (snd p))) (in_pairs i);
     o_specs := map (fun sp => resolve_model s (fst sp) (snd sp)) (in_specs i) |}.

Definition obs_eqb (a b : obs) : bool :=
  list_eqb N.eqb (o_mb a) (o_mb b) && list_eqb N.eqb (o_mbp a) (o_mbp b)
  && list_eqb N.eqb (o_mbd a) (o_mbd b) && list_eqb N.eqb (o_ff a) (o_ff b)
  && list_eqb keyN_eqb (o_specs a) (o_specs b).

(* ---- the property on what the implementation returned ---- *)
Definition dec_mb (r : N) : option (option nat) :=
  if (r =? 0)%N then None
  else if (r =? 1)%N then Some None else Some (Some (N.to_nat r - 2)).

(* result is a common ancestor-or-self none is higher than / none exists *)
Definition mb_list_okb (n : nat) (tbl : list (list nat)) (htbl : list nat) (pairs : list (nat * nat)) (res : list N) : bool :=
  (length res =? length pairs) &&
  forallb (fun pr => match dec_mb (snd pr) with
                     | None => false
                     | Some r => mb_okb n tbl htbl (fst (fst pr)) (snd (fst pr)) r
                     end) (combine pairs res).

(* independent of argument order: wherever both (a,b) and (b,a) were asked the answers agree *)
Definition sym_okb (pairs : list (nat * nat)) (res : list N) : bool :=
  let z := combine pairs res in
  forallb (fun pr => forallb (fun qr =>
     if (fst (fst pr) =? snd (fst qr)) && (snd (fst pr) =? fst (fst qr))
     then N.eqb (snd pr) (snd qr) else true) z) z.

Definition ff_okb (n : nat) (tbl : list (list nat)) (pairs : list (nat * nat)) (res : list N) : bool :=
  (length res =? length pairs) &&
  forallb (fun pr => N.eqb (snd pr) (N.of_nat (ff_expected n tbl (fst (fst pr)) (snd (fst pr))))) (combine pairs res).

(* "<name>~n^k…" selects the commit reached by the corresponding parent walk
   from the commit the name resolves to; error exactly when the walk leaves the graph
   (or the suffix is not an ancestor spec) *)
Definition spec_expected (h : hist) (sb : N * bytes) (suffix : bytes) : N * N :=
  let start := fst sb in
  match (match suffix with [] => SOk [] | _ => parse_instructions suffix end) with
  | SErr => (1, 0)%N
  | SOk rle => match spec_walk h (N.to_nat start) (expand_rle rle) with
               | Some d => (0%N, N.of_nat d)
               | None => (2, 0)%N
               end
  end.

Definition specs_okb (h : hist) (specs : list ((N * bytes) * bytes)) (res : list (N * N)) : bool :=
  (length res =? length specs) &&
  forallb (fun sr => keyN_eqb (snd sr) (spec_expected h (fst (fst sr)) (snd (fst sr)))) (combine specs res).

Definition oracle (i : input) (o : obs) : bool :=
  let h := in_hist i in
  let n := length h in
  let tbl := anc_table h in
  let htbl := build hspec_entry h in
  let ps := in_pairs i in
  mb_list_okb n tbl htbl ps (o_mb o) && mb_list_okb n tbl htbl ps (o_mbp o) && mb_list_okb n tbl htbl ps (o_mbd o)
  && sym_okb ps (o_mb o) && sym_okb ps (o_mbp o) && sym_okb ps (o_mbd o)
  && ff_okb n tbl ps (o_ff o)
  && specs_okb h (in_specs i) (o_specs o).

(* ---- checkable side conditions of the theorem [oracle_accepts_model] ---- *)
Definition pairs_okb (i : input) : bool :=
  forallb (fun p => (fst p <? length (in_hist i)) && (snd p <? length (in_hist i))) (in_pairs i).

(* C44's parser splits "<base><suffix>" into the base name and the parsed
   suffix (C44 proves this shape for every accepted spec; here it is a
   per-case computation) *)
Definition spec_split_okb (sb : N * bytes) (suffix : bytes) : bool :=
  match new_commit_spec (snd sb ++ suffix),
        (match suffix with [] => SOk [] | _ => parse_instructions suffix end) with
  | SErr, SErr => true
  | SOk (CsRef, base, rle), SOk rle' | SOk (CsHash, base, rle), SOk rle' =>
    beq_bytes base (snd sb) && list_eqb keyN_eqb rle rle'
  | _, _ => false
  end.
Definition specs_split_okb (i : input) : bool :=
  forallb (fun sp => spec_split_okb (fst sp) (snd sp)) (in_specs i).

Definition check_case (c : case) : N :=
  ((if obs_eqb (model_obs (fst c)) (snd c) then 0 else 1)
   + (if oracle (fst c) (snd c) then 0 else 2))%N.
