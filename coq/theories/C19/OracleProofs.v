(* C19 — the executable statement of the property (Corr.oracle) accepts the
   model's own observation, for every input satisfying the checkable side conditions. *)
From Coq Require Import List Arith Bool Lia NArith.
From Dolt Require Import Graph.CommitDag Graph.CommitDagFacts C18.Model C18.Spec C18.Proofs
                         C19.Model C19.Spec C19.Proofs C19.HeapModel C19.HeapProofs.
Import ListNotations.

(* ================= the oracle accepts the model's observation ================= *)
From Dolt Require Import Base.Str C18.Corr C44.Model C19.Corr.

Lemma hspec_entry_local s1 s2 ps :
  (forall p, In p ps -> nth p s1 0 = nth p s2 0) -> hspec_entry s1 ps = hspec_entry s2 ps.
Proof.
  intros Hl. unfold hspec_entry. f_equal. f_equal. apply map_ext_in. exact Hl.
Qed.

Lemma spec_height_eq rank h : wf_hist h -> forall x, spec_height h x = height rank h x.
Proof.
  intros Hwf x. induction x as [x IH] using lt_wf_ind.
  destruct (Nat.lt_ge_cases x (length h)) as [Hx|Hx].
  - unfold spec_height. rewrite (build_unfold hspec_entry 0 hspec_entry_local h x Hwf Hx).
    rewrite (height_unfold rank h x Hwf Hx). unfold hspec_entry. f_equal. f_equal.
    apply map_ext_in. intros p Hp. apply (IH p (Hwf x p Hp)).
  - unfold spec_height. rewrite nth_overflow by (rewrite build_length; exact Hx).
    symmetry. apply height_out. exact Hx.
Qed.

Lemma commonb_spec h c1 c2 x : wf_hist h -> commonb (anc_table h) c1 c2 x = true <-> common h c1 c2 x.
Proof.
  intros Hwf. unfold commonb, common. rewrite andb_true_iff.
  change (is_ancs_t (anc_table h) x c1) with (is_ancs h x c1).
  change (is_ancs_t (anc_table h) x c2) with (is_ancs h x c2).
  rewrite !is_ancs_spec by exact Hwf. reflexivity.
Qed.

Lemma mb_okb_of_spec rank h c1 c2 r : wf_hist h ->
  mb_spec rank h c1 c2 r -> mb_okb (length h) (anc_table h) (build hspec_entry h) c1 c2 r = true.
Proof.
  intros Hwf Hr. unfold mb_okb. destruct r as [m|]; cbn [mb_spec] in Hr.
  - destruct Hr as [Cm Mm]. apply andb_true_iff. split; [apply commonb_spec; assumption|].
    apply forallb_forall. intros x _. destruct (commonb (anc_table h) c1 c2 x) eqn:E; [|reflexivity].
    cbn [negb orb]. apply Nat.leb_le. apply commonb_spec in E; [|exact Hwf].
    change (nth x (build hspec_entry h) 0) with (spec_height h x).
    change (nth m (build hspec_entry h) 0) with (spec_height h m).
    rewrite !(spec_height_eq rank h Hwf). apply Mm. exact E.
  - apply forallb_forall. intros x _. destruct (commonb (anc_table h) c1 c2 x) eqn:E; [|reflexivity].
    apply commonb_spec in E; [|exact Hwf]. exfalso. apply (Hr x E).
Qed.

Lemma combine_map_elt {A B} (g : A -> B) l pr :
  In pr (combine l (map g l)) -> In (fst pr) l /\ snd pr = g (fst pr).
Proof.
  induction l as [|a r IH]; cbn [map combine In]; [intros []|].
  intros [<-|Hin]; [split; [left; reflexivity | reflexivity]|].
  destruct (IH Hin) as [H1 H2]. split; [right; exact H1 | exact H2].
Qed.

Lemma dec_enc_mb r : dec_mb (enc_mb (Some r)) = Some r.
Proof.
  unfold dec_mb, enc_mb. destruct r as [c|]; [|reflexivity].
  destruct (N.eqb_spec (N.of_nat (c + 2)) 0) as [E|_]; [lia|].
  destruct (N.eqb_spec (N.of_nat (c + 2)) 1) as [E|_]; [lia|].
  do 2 f_equal. lia.
Qed.

Lemma ff_expected_spec rank h c new :
  (forall a b, rank a = rank b -> a = b) -> wf_hist h -> c < length h -> new < length h ->
  enc_ff (can_ff rank (store_of rank h) c new) = N.of_nat (ff_expected (length h) (anc_table h) c new).
Proof.
  intros Hinj Hwf Hc Hn.
  destruct (can_ff_spec rank Hinj h Hwf c new Hc Hn) as [U [O [A [NA [D _]]]]].
  unfold ff_expected. destruct (Nat.eqb_spec c new) as [E|NE].
  - apply U in E. rewrite E. reflexivity.
  - change (memb c (nth new (anc_table h) [])) with (is_anc h c new).
    change (memb new (nth c (anc_table h) [])) with (is_anc h new c).
    destruct (is_anc h c new) eqn:E1.
    + apply is_anc_spec in E1; [|exact Hwf]. apply O in E1. rewrite E1. reflexivity.
    + destruct (is_anc h new c) eqn:E2.
      * apply is_anc_spec in E2; [|exact Hwf]. apply A in E2. rewrite E2. reflexivity.
      * assert (N1 : ~ ancs h c new).
        { intros [X|X]; [congruence|]. apply is_anc_spec in X; [congruence | exact Hwf]. }
        assert (N2 : ~ ancs h new c).
        { intros [X|X]; [congruence|]. apply is_anc_spec in X; [congruence | exact Hwf]. }
        destruct (existsb (commonb (anc_table h) c new) (seq 0 (length h))) eqn:E3.
        -- apply existsb_exists in E3. destruct E3 as [x [_ Hx]]. apply commonb_spec in Hx; [|exact Hwf].
           assert (Hd : can_ff rank (store_of rank h) c new = FF_diverged).
           { apply D. split; [exact N1|]. split; [exact N2|]. exists x. exact Hx. }
           rewrite Hd. reflexivity.
        -- assert (Hno : can_ff rank (store_of rank h) c new = FF_noancestor).
           { apply NA. intros x Hx.
             assert (Hxl : x < length h).
             { destruct Hx as [Hx1 _]. apply ancs_le in Hx1; [lia | exact Hwf]. }
             assert (Ht : existsb (commonb (anc_table h) c new) (seq 0 (length h)) = true).
             { apply existsb_exists. exists x. split; [apply in_seq; lia | apply commonb_spec; assumption]. }
             congruence. }
           rewrite Hno. reflexivity.
Qed.

Lemma list_eqb_keyN_eq a b : list_eqb keyN_eqb a b = true -> a = b.
Proof.
  revert b. induction a as [|x r IH]; intros [|y t]; cbn [list_eqb]; try discriminate; [reflexivity|].
  rewrite andb_true_iff. intros [Hk Hr]. unfold keyN_eqb in Hk. rewrite andb_true_iff in Hk.
  destruct Hk as [K1 K2]. apply N.eqb_eq in K1, K2. destruct x, y. cbn [fst snd] in *. subst.
  f_equal. apply IH. exact Hr.
Qed.

Lemma keyN_eqb_refl k : keyN_eqb k k = true.
Proof. unfold keyN_eqb. rewrite !N.eqb_refl. reflexivity. Qed.

Lemma resolve_model_expected rank h sb suffix :
  wf_hist h -> spec_split_okb sb suffix = true ->
  resolve_model (store_of rank h) sb suffix = spec_expected h sb suffix.
Proof.
  intros Hwf Hs. unfold spec_split_okb in Hs. unfold resolve_model, spec_expected.
  destruct (new_commit_spec (snd sb ++ suffix)) as [[[ty base] rle]|];
    destruct (match suffix with [] => SOk [] | _ => parse_instructions suffix end) as [rle'|];
    try discriminate; try reflexivity.
  - destruct ty; try discriminate; apply andb_true_iff in Hs; destruct Hs as [Hb Hl];
      rewrite Hb; apply list_eqb_keyN_eq in Hl; subst rle'; rewrite (walk_spec_walk rank h Hwf); reflexivity.
  - destruct ty; discriminate.
Qed.

Theorem oracle_accepts_model i :
  wf_histb (in_hist i) = true ->
  rank_okb (length (in_hist i)) (map N.to_nat (snd (fst (fst i)))) = true ->
  pairs_okb i = true -> specs_split_okb i = true ->
  oracle i (model_obs i) = true.
Proof.
  intros Hwf Hrk Hpairs Hspecs. apply wf_histb_spec in Hwf.
  pose proof (rank_of_inj _ _ Hrk) as Hinj. fold (in_rank i) in Hinj.
  unfold pairs_okb in Hpairs. rewrite forallb_forall in Hpairs.
  unfold specs_split_okb in Hspecs. rewrite forallb_forall in Hspecs.
  set (h := in_hist i) in *. set (rk := in_rank i) in *.
  assert (Hrange : forall p, In p (in_pairs i) -> fst p < length h /\ snd p < length h).
  { intros p Hp. specialize (Hpairs p Hp). apply andb_true_iff in Hpairs. destruct Hpairs as [A B].
    apply Nat.ltb_lt in A, B. split; assumption. }
  assert (Hmb : forall g : nat * nat -> option (option nat),
            (forall p, In p (in_pairs i) -> exists r, g p = Some r /\ mb_spec rk h (fst p) (snd p) r) ->
            mb_list_okb (length h) (anc_table h) (build hspec_entry h) (in_pairs i)
                        (map (fun p => enc_mb (g p)) (in_pairs i)) = true).
  { intros g Hg. unfold mb_list_okb. rewrite map_length, Nat.eqb_refl. cbn [andb].
    apply forallb_forall. intros pr Hpr. apply (combine_map_elt (fun p => enc_mb (g p))) in Hpr.
    destruct Hpr as [Hin Hsnd]. rewrite Hsnd. destruct (Hg _ Hin) as [r [-> Hr]]. rewrite dec_enc_mb.
    apply (mb_okb_of_spec rk); assumption. }
  assert (Hsym : forall g : nat * nat -> option (option nat),
            (forall p q, In p (in_pairs i) -> In q (in_pairs i) -> fst p = snd q -> snd p = fst q -> g p = g q) ->
            sym_okb (in_pairs i) (map (fun p => enc_mb (g p)) (in_pairs i)) = true).
  { intros g Hg. unfold sym_okb. apply forallb_forall. intros pr Hpr. apply forallb_forall. intros qr Hqr.
    apply (combine_map_elt (fun p => enc_mb (g p))) in Hpr, Hqr.
    destruct Hpr as [Hp Ep], Hqr as [Hq Eq].
    destruct (Nat.eqb_spec (fst (fst pr)) (snd (fst qr))) as [E1|_]; [|reflexivity].
    destruct (Nat.eqb_spec (snd (fst pr)) (fst (fst qr))) as [E2|_]; [|reflexivity].
    cbn [andb]. rewrite Ep, Eq. rewrite (Hg _ _ Hp Hq E1 E2). apply N.eqb_refl. }
  assert (Hfca : forall p, In p (in_pairs i) ->
            exists r, find_common_ancestor rk (store_of rk h) (fst p) (snd p) = Some r /\ mb_spec rk h (fst p) (snd p) r).
  { intros p Hp. destruct (Hrange p Hp). apply fca_total; assumption. }
  assert (Hfsym : forall p q, In p (in_pairs i) -> In q (in_pairs i) -> fst p = snd q -> snd p = fst q ->
            find_common_ancestor rk (store_of rk h) (fst p) (snd p) = find_common_ancestor rk (store_of rk h) (fst q) (snd q)).
  { intros p q Hp Hq E1 E2. destruct (Hrange p Hp). rewrite E1, E2. rewrite <- E1, <- E2.
    apply mb_sym; assumption. }
  unfold oracle, model_obs. cbn [o_mb o_mbp o_mbd o_ff o_specs]. fold h. fold rk.
  rewrite !andb_true_iff. refine (conj (conj (conj (conj (conj (conj (conj _ _) _) _) _) _) _) _).
  - apply (Hmb (fun p => find_common_ancestor rk (store_of rk h) (fst p) (snd p))). exact Hfca.
  - apply (Hmb (fun p => mb_parents_heap rk (store_of rk h) (fst p) (snd p))).
    intros p Hp. destruct (Hrange p Hp) as [R1 R2]. rewrite (heap_refines_multiset rk Hinj).
    destruct (mb_parents_spec rk h Hwf (fst p) (snd p) R1 R2) as [r [-> Hr]]. exists r. split; [reflexivity|].
    destruct r as [m|]; [|exact Hr]. destruct Hr as [Cm [Mm _]]. split; assumption.
  - apply (Hmb (fun p => find_common_ancestor rk (store_of rk h) (fst p) (snd p))). exact Hfca.
  - apply (Hsym (fun p => find_common_ancestor rk (store_of rk h) (fst p) (snd p))). exact Hfsym.
  - apply (Hsym (fun p => mb_parents_heap rk (store_of rk h) (fst p) (snd p))).
    intros p q Hp Hq E1 E2. destruct (Hrange p Hp). rewrite !(heap_refines_multiset rk Hinj). rewrite E1, E2. rewrite <- E1, <- E2.
    apply mb_parents_sym; assumption.
  - apply (Hsym (fun p => find_common_ancestor rk (store_of rk h) (fst p) (snd p))). exact Hfsym.
  - unfold ff_okb. rewrite map_length, Nat.eqb_refl. cbn [andb].
    apply forallb_forall. intros pr Hpr.
    apply (combine_map_elt (fun p => enc_ff (can_ff rk (store_of rk h) (fst p) (snd p)))) in Hpr.
    destruct Hpr as [Hin Hsnd]. rewrite Hsnd. destruct (Hrange _ Hin).
    rewrite (ff_expected_spec rk h) by assumption. apply N.eqb_refl.
  - unfold specs_okb. rewrite map_length, Nat.eqb_refl. cbn [andb].
    apply forallb_forall. intros sr Hsr.
    apply (combine_map_elt (fun sp => resolve_model (store_of rk h) (fst sp) (snd sp))) in Hsr.
    destruct Hsr as [Hin Hsnd]. rewrite Hsnd.
    rewrite (resolve_model_expected rk h) by (try exact Hwf; apply Hspecs; exact Hin).
    apply keyN_eqb_refl.
Qed.

(* non-vacuity: a criss-cross input (with "~0" specs on a branch and "^2~" past a
   root) satisfying all four side conditions *)
Example side_conditions_satisfiable :
  let i : input := ((([[]; [0]; [0]; [1; 2]; [2; 1]], [0; 1; 2; 3; 4]), [(3, 4); (4, 3); (0, 4)]),
                    [((3, [98; 51]), [126; 48]); ((4, [98; 52]), [94; 50; 126; 126]); ((4, [98; 52]), [94; 51])])%N in
  wf_histb (in_hist i) = true /\ rank_okb (length (in_hist i)) (map N.to_nat (snd (fst (fst i)))) = true /\
  pairs_okb i = true /\ specs_split_okb i = true /\
  o_specs (model_obs i) = [(0, 3); (2, 0); (1, 0)]%N.
Proof. vm_compute. repeat split; reflexivity. Qed.
