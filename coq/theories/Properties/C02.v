(* C02 — Root commit is an atomic compare-and-swap and acknowledged commits persist.  Property theorems only. *)
From Coq Require Import NArith List Bool.
From Dolt Require Import Base.Str C02.Model C02.Spec C02.Corr C02.Proofs.
Import ListNotations.
Local Open Scope N_scope.

(* commit_is_cas — FULL statement (Spec.commit_is_cas_statement): for every schedule and every event,
   Commit = true only if the persisted root equalled last at that step, which installs cur with all the
   client's chunks; everything else leaves the persisted manifest unchanged.
   It is FALSE of the faithful model: two witnesses, both reproduced on the real code by the check. *)
Theorem C02_commit_is_cas_refuted :
  exists sc, existsb cas_viol_b (trace 4 (init 2) sc) = true.
Proof. exact commit_is_cas_refuted. Qed.
Print Assumptions C02_commit_is_cas_refuted.

Theorem C02_commit_is_cas_refuted_noop :
  exists sc, existsb cas_viol_b (trace 4 (init 2) sc) = true.
Proof. exact commit_is_cas_refuted_noop. Qed.
Print Assumptions C02_commit_is_cas_refuted_noop.

Theorem C02_commit_is_cas_statement_false : ~ commit_is_cas_statement 4 2.
Proof. exact commit_is_cas_statement_false. Qed.
Print Assumptions C02_commit_is_cas_statement_false.

(* strongest true version: success is a swap at root = last, or finds the persisted manifest already
   exactly the intended one, or is the nothing-novel cur = last shortcut; chunks persisted in all cases;
   every non-success leaves the persisted manifest unchanged *)
Theorem C02_commit_is_cas_partial :
  forall cap n sc ev, In ev (trace cap (init n) sc) ->
  (commit_ok ev = true ->
     exists cur last, commit_args ev = Some (cur, last) /\ success_kind ev cur last
       /\ persisted_chunks (e_after ev) (puts_of ev))
  /\ (commit_ok ev = false -> g_disk (e_after ev) = g_disk (e_before ev)).
Proof. exact commit_is_cas_partial. Qed.
Print Assumptions C02_commit_is_cas_partial.

Theorem C02_failure_changes_nothing :
  forall cap n sc ev, In ev (trace cap (init n) sc) -> commit_ok ev = false ->
  g_disk (e_after ev) = g_disk (e_before ev).
Proof. exact failure_changes_nothing. Qed.
Print Assumptions C02_failure_changes_nothing.

Theorem C02_root_history_linear :
  forall cap sc s, linked (disk_root s) (swaps (trace cap s sc)) (disk_root (final cap s sc)).
Proof. exact root_history_linear. Qed.
Print Assumptions C02_root_history_linear.

Theorem C02_root_changes_are_swaps :
  forall cap n sc ev, In ev (trace cap (init n) sc) ->
  disk_root (e_after ev) <> disk_root (e_before ev) ->
  exists cur last, commit_ok ev = true /\ commit_args ev = Some (cur, last)
    /\ disk_root (e_before ev) = last /\ disk_root (e_after ev) = cur.
Proof. exact root_changes_are_swaps. Qed.
Print Assumptions C02_root_changes_are_swaps.

Theorem C02_ack_persist :
  forall cap n sc1 i st sc2 s2 r,
  step_cfg cap (final cap (init n) sc1) i st = (s2, r) ->
  commit_ok (mk_event i st r (final cap (init n) sc1) s2) = true ->
  let ev := mk_event i st r (final cap (init n) sc1) s2 in
  let s3 := final cap s2 sc2 in
  persisted_chunks s3 (puts_of ev)
  /\ (st = STry -> exists cur last, commit_args ev = Some (cur, last)
                   /\ linked cur (swaps (trace cap s2 sc2)) (fresh_root s3)).
Proof. exact ack_persist. Qed.
Print Assumptions C02_ack_persist.

(* the exact-CAS oracle used on the implementation rejects the model's own run of both witnesses *)
Theorem C02_oracle_rejects_witnesses :
  check_obs witness_double_api (model_obs witness_double_api) = 2
  /\ check_obs witness_noop_api (model_obs witness_noop_api) = 2.
Proof. exact (conj oracle_rejects_double oracle_rejects_noop). Qed.
Print Assumptions C02_oracle_rejects_witnesses.

(* ack_persist, root part, is false for the shortcut: after witness_noop a Commit(5,5) was acknowledged but
   root 5 is neither the persisted root nor was it ever installed by a swap *)
Theorem C02_ack_persist_refuted :
  exists sc, let s := final 4 (init 2) sc in
    existsb (fun ev => commit_ok ev && match commit_args ev with
                                       | Some (cur, _) => negb (fresh_root s =? cur) && negb (existsb (fun p => fst p =? cur) (swaps (trace 4 (init 2) sc)) )
                                       | None => false end) (trace 4 (init 2) sc) = true.
Proof. exact ack_persist_refuted. Qed.
Print Assumptions C02_ack_persist_refuted.

(* ---------------------------------------------------------------------- *)
(* Journaling store (single writer, ChunkJournal.Update as the manifest step). *)
Theorem C02_j_never_stale :
  forall sc ev, In ev (jtrace jinit sc) -> je_res ev <> RNone.
Proof. exact j_never_stale. Qed.
Print Assumptions C02_j_never_stale.

Theorem C02_j_failure_changes_nothing :
  forall sc ev, In ev (jtrace jinit sc) -> jcommit_ok ev = false ->
  j_root (je_after ev) = j_root (je_before ev) /\ j_spec (je_after ev) = j_spec (je_before ev).
Proof. exact j_failure_changes_nothing. Qed.
Print Assumptions C02_j_failure_changes_nothing.

(* full CAS is false for the journaling store too (shortcut ignores last): Commit(3,3) on a fresh store answers true *)
Theorem C02_j_commit_is_cas_refuted : exists sc, existsb jcas_viol_b (jtrace jinit sc) = true.
Proof. exact j_commit_is_cas_refuted. Qed.
Print Assumptions C02_j_commit_is_cas_refuted.

Theorem C02_j_commit_is_cas_partial :
  forall sc ev, In ev (jtrace jinit sc) -> jcommit_ok ev = true ->
  exists cur last, jcommit_args ev = Some (cur, last) /\
    ((jswapped ev = true /\ j_root (je_before ev) = last /\ j_root (je_after ev) = cur
      /\ forall x, In x (j_puts (je_before ev)) -> jfresh_has (je_after ev) x = true)
     \/ (jswapped ev = false /\ cur = last /\ jany_novel (je_before ev) = false
         /\ j_root (je_after ev) = j_root (je_before ev) /\ j_spec (je_after ev) = j_spec (je_before ev))).
Proof. exact j_commit_is_cas_partial. Qed.
Print Assumptions C02_j_commit_is_cas_partial.

Theorem C02_j_root_history_linear :
  forall sc s, JInv s -> linked (j_root s) (jswaps (jtrace s sc)) (j_root (jfinal s sc)).
Proof. exact j_root_history_linear. Qed.
Print Assumptions C02_j_root_history_linear.

Theorem C02_j_ack_persist :
  forall sc1 cur last s2 sc2,
  jstep_fn (jfinal jinit sc1) (JCommit cur last) = (s2, ROk) ->
  jswapped {| je_step := JCommit cur last; je_res := ROk; je_before := jfinal jinit sc1; je_after := s2 |} = true ->
  let s3 := jfinal s2 sc2 in
  (forall x, In x (j_puts (jfinal jinit sc1)) -> jfresh_has s3 x = true)
  /\ linked cur (jswaps (jtrace s2 sc2)) (j_root s3).
Proof. exact j_ack_persist. Qed.
Print Assumptions C02_j_ack_persist.
