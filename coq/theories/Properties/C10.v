(* C10 — Corrupted storage files are reported, never misread; never crashes.  Property theorems only. *)
From Coq Require Import NArith List Bool.
From Dolt Require Import Base.Str C10.Model C10.Spec C10.Corr C10.Proofs.
Import ListNotations.
Local Open Scope N_scope.

Theorem C10_no_panic_open_table :
  forall file cnt, open_table file cnt <> Panic.
Proof. exact no_panic_open_table. Qed.
Print Assumptions C10_no_panic_open_table.

Theorem C10_no_panic_table :
  forall crc file t,
    (forall h, has t h <> Panic) /\ (forall h, get crc file t h <> Panic)
    /\ (forall hs, get_many t hs <> GMCrash) /\ iterate crc file t <> Panic
    /\ (forall short, valid_short short = true -> resolve t short <> Panic).
Proof. exact no_panic_table. Qed.
Print Assumptions C10_no_panic_table.

Theorem C10_no_panic_journal_scan :
  forall crc data, scan_journal crc data <> Panic.
Proof. exact no_panic_journal_scan. Qed.
Print Assumptions C10_no_panic_journal_scan.

Theorem C10_no_panic_manifest :
  forall s, parse_manifest s <> Panic.
Proof. exact no_panic_manifest. Qed.
Print Assumptions C10_no_panic_manifest.

Theorem C10_oracle_accepts_model :
  forall i, input_wf i = true -> oracle i (model_obs i) = true.
Proof. exact oracle_model. Qed.
Print Assumptions C10_oracle_accepts_model.

Theorem C10_no_misread_get :
  forall crc file t h comp, get crc file t h = Ok (Some comp) ->
    exists idx off len, designated t h idx /\ ord_at t idx < ti_count t
      /\ get_index_entry t (ord_at t idx) = Ok (off, len) /\ record_at crc file off len comp.
Proof. exact no_misread_get. Qed.
Print Assumptions C10_no_misread_get.

Theorem C10_no_misread_refuted :
  exists f f' cnt t t' h1 h2 c1 c2, c1 <> c2
    /\ open_table f cnt = Ok t /\ open_table f' cnt = Ok t'
    /\ get crc32c f t h1 = Ok (Some c1) /\ get crc32c f t h2 = Ok (Some c2)
    /\ get crc32c f' t' h1 = Ok (Some c2) /\ get crc32c f' t' h2 = Ok (Some c1).
Proof. exact no_misread_refuted. Qed.
Print Assumptions C10_no_misread_refuted.

Theorem C10_iterate_mislabel_refuted :
  exists f f' cnt t t' l l',
    open_table f cnt = Ok t /\ open_table f' cnt = Ok t'
    /\ iterate crc32c f t = Ok l /\ iterate crc32c f' t' = Ok l'
    /\ map snd l = map snd l' /\ map fst l <> map fst l'.
Proof. exact iterate_mislabel_refuted. Qed.
Print Assumptions C10_iterate_mislabel_refuted.

Theorem C10_psearch_total :
  forall sl target,
    N.of_nat (length sl) < 4294967296 -> target < u64 -> Forall (fun x => x < u64) sl ->
    exists i, psearch sl target = SIdx i.
Proof. exact psearch_total. Qed.
Print Assumptions C10_psearch_total.

Theorem C10_no_panic_archive_has :
  forall a h,
    N.of_nat (length (ax_prefixes a)) < 4294967296 -> addr_prefix h < u64 -> Forall (fun x => x < u64) (ax_prefixes a) ->
    ahas a h <> Panic.
Proof. exact no_panic_archive_has. Qed.
Print Assumptions C10_no_panic_archive_has.

Theorem C10_no_panic_archive_open :
  forall file, open_archive file <> Panic.
Proof. exact no_panic_archive_open. Qed.
Print Assumptions C10_no_panic_archive_open.

Theorem C10_no_panic_archive_get :
  forall crc file a h,
    N.of_nat (length (ax_prefixes a)) < 4294967296 -> addr_prefix h < u64 -> Forall (fun x => x < u64) (ax_prefixes a) ->
    aget crc file a h <> GPanic.
Proof. exact no_panic_archive_get. Qed.
Print Assumptions C10_no_panic_archive_get.

Theorem C10_no_panic_archive_get_many :
  forall a reqs,
    N.of_nat (length (ax_prefixes a)) < 4294967296 -> Forall (fun x => x < u64) (ax_prefixes a) ->
    Forall (fun h => addr_prefix h < u64) reqs ->
    aget_many a reqs <> GMCrash.
Proof. exact no_panic_archive_get_many. Qed.
Print Assumptions C10_no_panic_archive_get_many.

Theorem C10_no_panic_archive_iterate :
  forall crc file a, aiterate crc file a <> IPanic.
Proof. exact no_panic_archive_iterate. Qed.
Print Assumptions C10_no_panic_archive_iterate.

Theorem C10_archive_misread_refuted :
  exists f f' a a' h1 h2 c1 c2, c1 <> c2
    /\ open_archive f = Ok a /\ open_archive f' = Ok a'
    /\ aget crc32c f a h1 = GOk c1 /\ aget crc32c f a h2 = GOk c2
    /\ aget crc32c f' a' h1 = GOk c2 /\ aget crc32c f' a' h2 = GOk c1.
Proof. exact archive_misread_refuted. Qed.
Print Assumptions C10_archive_misread_refuted.

Theorem C10_archive_iterate_mislabel_refuted :
  exists f f' a a' l l',
    open_archive f = Ok a /\ open_archive f' = Ok a'
    /\ aiterate crc32c f a = IOk l /\ aiterate crc32c f' a' = IOk l'
    /\ map snd l = map snd l' /\ map fst l <> map fst l'.
Proof. exact archive_iterate_mislabel_refuted. Qed.
Print Assumptions C10_archive_iterate_mislabel_refuted.
