(* C10 — Corrupted storage files are reported, never misread; never crashes.  Property theorems only. *)
From Coq Require Import NArith List Bool.
From Dolt Require Import Base.Str C10.Model C10.Spec C10.Corr C10.Proofs.
Import ListNotations.
Local Open Scope N_scope.

Theorem C10_no_panic_open_table :
  forall file cnt, open_table file cnt <> Panic.
Proof. exact no_panic_open_table. Qed.
Print Assumptions C10_no_panic_open_table.

Theorem C10_no_panic_table_guarded :
  forall crc file cnt t, open_table file cnt = Ok t -> index_guards t = true ->
    (forall h, has t h <> Panic) /\ (forall h, get crc file t h <> Panic)
    /\ (forall hs, get_many t hs <> GMCrash) /\ iterate crc file t <> Panic.
Proof. exact no_panic_table_guarded. Qed.
Print Assumptions C10_no_panic_table_guarded.

Theorem C10_no_panic_table_refuted :
  (exists file cnt t h, open_table file cnt = Ok t /\ get crc32c file t h = Panic)
  /\ (exists file cnt t h, open_table file cnt = Ok t /\ has t h = Panic)
  /\ (exists file cnt t, open_table file cnt = Ok t /\ iterate crc32c file t = Panic)
  /\ (exists file cnt t h, open_table file cnt = Ok t /\ get_many t [h] = GMCrash).
Proof. exact no_panic_table_refuted. Qed.
Print Assumptions C10_no_panic_table_refuted.

Theorem C10_no_misread_get :
  forall crc file t h comp, get crc file t h = Ok (Some comp) ->
    exists idx off len, designated t h idx /\ ord_at t idx <> ti_count t
      /\ get_index_entry t (ord_at t idx) = Ok (off, len) /\ record_at crc file off len comp.
Proof. exact no_misread_get. Qed.
Print Assumptions C10_no_misread_get.

Theorem C10_no_misread_refuted :
  exists f f' cnt t t' h1 h2 c1 c2, c1 <> c2
    /\ open_table f cnt = Ok t /\ open_table f' cnt = Ok t'
    /\ get crc32c f t h1 = Ok (Some c1) /\ get crc32c f t h2 = Ok (Some c2)
    /\ get crc32c f' t' h1 = Ok (Some c2) /\ get crc32c f' t' h2 = Ok (Some c1).
Proof. exact no_misread_refuted. Qed.
Print Assumptions C10_no_misread_refuted.

Theorem C10_no_panic_journal_scan_wf :
  forall crc, fields_wf crc -> forall data, scan_journal crc data <> Panic.
Proof. exact no_panic_journal_scan_wf. Qed.
Print Assumptions C10_no_panic_journal_scan_wf.

Theorem C10_no_panic_journal_refuted :
  exists data, scan_journal crc32c data = Panic.
Proof. exact no_panic_journal_refuted. Qed.
Print Assumptions C10_no_panic_journal_refuted.

Theorem C10_manifest_panic_only_root :
  forall s, parse_manifest s = Panic ->
    exists vers rest, read_version 8 s [] = Some (vers, rest)
      /\ valid_hash_str (nth 2 (split_on colon rest) []) = false.
Proof. exact manifest_panic_only_root. Qed.
Print Assumptions C10_manifest_panic_only_root.

Theorem C10_no_panic_manifest_refuted :
  exists s, parse_manifest s = Panic.
Proof. exact no_panic_manifest_refuted. Qed.
Print Assumptions C10_no_panic_manifest_refuted.
