(* C05 — The manifest is replaced atomically and never names a missing table file.  Property theorems only. *)
From Coq Require Import NArith List Bool.
From Dolt Require Import Base.Str Gen.C05Consts C05.Model C05.Spec C05.Corr C05.Proofs.
Import ListNotations.
Local Open Scope N_scope.

Theorem C05_manifest_codec :
  forall m, wf_manifest m ->
    exists t, write_manifest m = Some t /\ parse_manifest t = POk (persisted_view m).
Proof. exact manifest_codec. Qed.
Print Assumptions C05_manifest_codec.

Theorem C05_manifest_codec_exact :
  forall m, wf_manifest m -> m_vers m = c05_storage_version -> m_appendix m = [] ->
    exists t, write_manifest m = Some t /\ parse_manifest t = POk m.
Proof. exact manifest_codec_exact. Qed.
Print Assumptions C05_manifest_codec_exact.

Theorem C05_write_manifest_rejects :
  forall m, write_manifest m = None <-> (m_nbf m = [] \/ hash_is_empty (m_lock m) = true).
Proof. exact write_manifest_none. Qed.
Print Assumptions C05_write_manifest_rejects.

Theorem C05_inv_reachable :
  forall (sched : list step) (d0 : dir),
    Inv d0 -> Inv (sy_dir (fold_left sys_step sched (sys_init d0))).
Proof. exact inv_reachable. Qed.
Print Assumptions C05_inv_reachable.

Theorem C05_inv_step :
  forall st a, SysInv st -> Inv (sy_dir (sys_step st a)).
Proof. exact inv_step. Qed.
Print Assumptions C05_inv_step.

Theorem C05_update_atomic :
  forall st a, SysInv st -> old_or_new st (sys_step st a).
Proof. exact update_atomic. Qed.
Print Assumptions C05_update_atomic.

Theorem C05_update_atomic_reachable :
  forall (sched : list step) (d0 : dir) (a : step),
    Inv d0 -> let st := fold_left sys_step sched (sys_init d0) in old_or_new st (sys_step st a).
Proof. exact update_atomic_reachable. Qed.
Print Assumptions C05_update_atomic_reachable.

Theorem C05_failed_update_changes_nothing :
  forall st u, s_upd (sy_s st) = Some u -> update_verdict (sy_dir st) u <> VSwap ->
    manifest_text (sy_dir (sys_step st UFinish)) = manifest_text (sy_dir st).
Proof. exact failed_update_changes_nothing. Qed.
Print Assumptions C05_failed_update_changes_nothing.

Theorem C05_no_live_unlink :
  forall (sched : list step) (d0 : dir) (a : step),
    Inv d0 -> step_actor a = Some APruner ->
    let st := fold_left sys_step sched (sys_init d0) in
    forall m h, disk_parsed (sy_dir st) m -> In h (names m) -> table_exists (sy_dir (sys_step st a)) h = true.
Proof. exact no_live_unlink. Qed.
Print Assumptions C05_no_live_unlink.

Theorem C05_no_live_unlink_candidate :
  forall st h arch sp rest keep,
    SysInv st -> sy_p st = PLocked ((CTable h arch, sp) :: rest) keep ->
    snd (fst (sys_step_r st PUnlink)) = r_ok ->
    forall m, disk_parsed (sy_dir st) m -> ~ In h (names m).
Proof. exact no_live_unlink_candidate. Qed.
Print Assumptions C05_no_live_unlink_candidate.

Theorem C05_oracle_on_model :
  forall i, oracle i (model_obs i) = true.
Proof. exact oracle_on_model. Qed.
Print Assumptions C05_oracle_on_model.

Theorem C05_consts_pinned :
  c05_storage_version = [53] /\ c05_storage_version4 = [52] /\ c05_prefix_len = 5 /\ c05_hash_string_len = 32
  /\ c05_manifest_file_name = [109; 97; 110; 105; 102; 101; 115; 116]
  /\ c05_archive_file_suffix = [46; 100; 97; 114; 99].
Proof. exact consts_pinned. Qed.
Print Assumptions C05_consts_pinned.
