(* C22 — Each SQL transaction reads a stable snapshot.  Property theorems only. *)
From Coq Require Import NArith List Bool.
From Dolt Require Import C23.Model C23.Spec C23.Proofs C22.Model C22.Spec C22.Corr C22.Proofs.
Import ListNotations.
Local Open Scope N_scope.

Theorem C22_others_invisible :
  forall U sched w i,
    (forall j st, In (j, st) sched -> j <> i) ->
    w_ss (snd (run U sched w)) i = w_ss w i.
Proof. exact others_invisible. Qed.
Print Assumptions C22_others_invisible.

Theorem C22_snapshot_stable :
  forall U sched w i,
    s_active (w_ss w i) = true ->
    (forall st, In (i, st) sched -> is_dml st = true) ->
    own_obs i sched (fst (fst (run U sched w))) = fst (alone U (own i sched) (s_work (w_ss w i)))
    /\ s_work (w_ss (snd (run U sched w)) i) = snd (alone U (own i sched) (s_work (w_ss w i)))
    /\ s_snap (w_ss (snd (run U sched w)) i) = s_snap (w_ss w i)
    /\ s_active (w_ss (snd (run U sched w)) i) = true.
Proof. exact snapshot_stable. Qed.
Print Assumptions C22_snapshot_stable.

Theorem C22_no_dirty_read :
  forall U sched w i,
    (forall j, s_active (w_ss w j) = false) ->
    s_active (w_ss (snd (run U sched w)) i) = true ->
    In (s_snap (w_ss (snd (run U sched w)) i)) (w_head w :: map e_after (snd (fst (run U sched w)))).
Proof. exact no_dirty_read. Qed.
Print Assumptions C22_no_dirty_read.

Theorem C22_visible_after_commit_and_begin :
  forall U i w o ev w',
    s_active (w_ss w i) = false ->
    step U i SBegin w = (o, ev, w') ->
    s_snap (w_ss w' i) = w_head w /\ s_work (w_ss w' i) = w_head w /\ s_active (w_ss w' i) = true /\ ev = None.
Proof. exact visible_after_commit_and_begin. Qed.
Print Assumptions C22_visible_after_commit_and_begin.

Theorem C22_implicit_begin_reads_committed :
  forall U i w,
    s_active (w_ss w i) = false -> s_auto (w_ss w i) = false ->
    fst (fst (step U i SSelect w)) = obs_rows (dump U (w_head w)).
Proof. exact implicit_begin_reads_committed. Qed.
Print Assumptions C22_implicit_begin_reads_committed.

From Dolt Require Import C22.OracleProofs.

Theorem C22_oracle_accepts_model : forall i, C22.Corr.oracle i (C22.Corr.model_obs i) = true.
Proof. exact C22.OracleProofs.oracle_accepts_model. Qed.
Print Assumptions C22_oracle_accepts_model.

(* ---- AS OF / revision reads inside a transaction ---- *)
From Dolt Require Import C23.Staged C22.AsOf C22.AsOfProofs.

Theorem C22_start_roots_stable :
  forall U sched w i,
    t_active (w3_ss w i) = true ->
    (forall st, In (i, st) sched -> keeps_txn st = true) ->
    t_start (w3_ss (snd (run3 U sched w)) i) = t_start (w3_ss w i)
    /\ t_active (w3_ss (snd (run3 U sched w)) i) = true.
Proof. exact start_roots_stable. Qed.
Print Assumptions C22_start_roots_stable.

Theorem C22_as_of_head_snapshot_stable :
  forall U sched w i k,
    t_active (w3_ss w i) = true ->
    (forall st, In (i, st) sched -> keeps_txn st = true) ->
    k < 2 ->
    fst (fst (gstep3 U (do_commit3 U) i (SReadAs k) (snd (run3 U sched w))))
    = obs_rows (dump U (r_head (t_start (w3_ss w i)))).
Proof. exact as_of_head_snapshot_stable. Qed.
Print Assumptions C22_as_of_head_snapshot_stable.
