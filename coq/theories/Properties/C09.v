(* C09 — The reference walker reports every address an object can dereference.  Property theorems only. *)
From Coq Require Import NArith List Bool String.
From Dolt Require Import Gen.SchemaAddrs C09.Model C09.Spec C09.Corr C09.Proofs.
Import ListNotations.
Local Open Scope N_scope.

Theorem C09_walk_covers_loads_complete :
  forall fl, complete fl = true -> forall m, incl (loads m) (walk_addrs fl m).
Proof. exact walk_covers_loads_complete. Qed.
Print Assumptions C09_walk_covers_loads_complete.

Theorem C09_walk_covers_loads_partial :
  forall fl m, incl (loads m) (walk_addrs fl m ++ omitted fl m).
Proof. exact walk_covers_loads_partial. Qed.
Print Assumptions C09_walk_covers_loads_partial.

Theorem C09_walk_covers_loads_refuted :
  forall fl, complete fl = false -> exists m, ~ incl (loads m) (walk_addrs fl m).
Proof. exact walk_covers_loads_refuted. Qed.
Print Assumptions C09_walk_covers_loads_refuted.

Theorem C09_walk_covers_loads_today :
  if complete source_flags
  then (forall m, incl (loads m) (walk_addrs source_flags m))
  else (exists m, ~ incl (loads m) (walk_addrs source_flags m)).
Proof. exact walk_covers_loads_today. Qed.
Print Assumptions C09_walk_covers_loads_today.

Theorem C09_walk_covers_schema :
  forall t f k h, In (t, f, k, h) fbs_vec_fields ->
  exists hf, find_hand t f = Some hf /\ hint_ok h (h_class hf) = true
             /\ (forall m, incl (h_proj hf m) (loads m))
             /\ (forall fl m, h_flag hf fl = true -> incl (h_proj hf m) (walk_addrs fl m)).
Proof. exact walk_covers_schema. Qed.
Print Assumptions C09_walk_covers_schema.

Theorem C09_walk_covers_schema_complete :
  forall fl, complete fl = true ->
  forall t f k h, In (t, f, k, h) fbs_vec_fields ->
  exists hf, find_hand t f = Some hf /\ forall m, incl (h_proj hf m) (walk_addrs fl m).
Proof. exact walk_covers_schema_complete. Qed.
Print Assumptions C09_walk_covers_schema_complete.

Theorem C09_walker_source_pinned : walker_cases_pinned = true /\ schema_classified = true.
Proof. exact (conj walker_cases_pinned_ok schema_classified_ok). Qed.
Print Assumptions C09_walker_source_pinned.

Theorem C09_oracle_on_model_when_complete :
  complete source_flags = true -> forall ms, oracle ms (model_obs ms) = true.
Proof. exact oracle_model_when_complete. Qed.
Print Assumptions C09_oracle_on_model_when_complete.
