(* C17 — Stored JSON documents behave like in-memory JSON.  Property theorems only. *)
From Coq Require Import NArith ZArith List Bool Sorted.
From Dolt Require Import Base.Str C17.Model C17.Spec C17.Corr C17.Proofs.
Import ListNotations.
Local Open Scope N_scope.

(* Location keys: comparing two serialized keys the way compareJsonLocations does (decode, then
   element-wise) is the document pre-order of the two paths — for every pair of paths and every
   index encoder that preserves order and is self-delimiting. *)
Theorem C17_loc_order :
  forall (enc_idx : N -> bytes) (vlen : N -> nat),
    (forall a b, lex_cmp (enc_idx a) (enc_idx b) = (a ?= b)) ->
    (forall n, exists b t, enc_idx n = b :: t /\ length (b :: t) = vlen b) ->
    forall p q, Forall (key_ok) p -> Forall (key_ok) q ->
      cmp_keys_with vlen (enc_key enc_idx 0 p) (enc_key enc_idx 0 q) = path_cmp enc_idx p q.
Proof. exact loc_order_gen. Qed.
Print Assumptions C17_loc_order.

Theorem C17_varint_self_delimiting :
  forall n, exists b t, varint n = b :: t /\ length (b :: t) = varint_length b.
Proof. exact varint_self_delimiting. Qed.
Print Assumptions C17_varint_self_delimiting.

Theorem C17_loc_order_partial :
  (forall a b, lex_cmp (varint a) (varint b) = (a ?= b)) ->
  forall p q, Forall key_ok p -> Forall key_ok q ->
    cmp_keys_with varint_length (ekey p) (ekey q) = doc_cmp p q.
Proof. exact loc_order_partial. Qed.
Print Assumptions C17_loc_order_partial.

(* Three-way merge: the streaming differ reports a conflict exactly when a left and a right edit
   clash and otherwise yields exactly the right-side edits — for all edit streams strictly
   increasing in a key order obeying the stated laws, with no two edits of one side nested or in
   one array.  (Full statement without the last side condition: refuted below.) *)
Theorem C17_three_way_spec_partial :
  forall (kcmp : path -> path -> comparison) (kprefix ksame : path -> path -> bool),
    (forall a b, kcmp a b = Eq -> a = b) ->
    (forall a b, kcmp b a = CompOpp (kcmp a b)) ->
    (forall a b c, kcmp a b = Lt -> kcmp b c = Lt -> kcmp a c = Lt) ->
    (forall a b, ksame a b = ksame b a) ->
    (forall p pre, kprefix p pre = true -> kcmp pre p = Lt) ->
    (forall x y z, kcmp x y = Lt -> kcmp y z = Lt -> rel kprefix ksame x z = true -> rel kprefix ksame x y = true) ->
    forall L R,
      StronglySorted (klt kcmp) L -> StronglySorted (klt kcmp) R ->
      ForallOrdPairs (unrelated kprefix ksame) L -> ForallOrdPairs (unrelated kprefix ksame) R ->
      three_way kcmp kprefix ksame L R = spec_g kcmp kprefix ksame L R.
Proof. exact three_way_spec_gen. Qed.
Print Assumptions C17_three_way_spec_partial.

(* ---- round 2: the hypotheses above discharged for the real encoder and the document order ---- *)
Theorem C17_varint_mono : forall a b, lex_cmp (varint a) (varint b) = (a ?= b).
Proof. exact varint_mono. Qed.
Print Assumptions C17_varint_mono.

Theorem C17_loc_order_full :
  forall p q, Forall key_ok p -> Forall key_ok q ->
    cmp_keys_with varint_length (ekey p) (ekey q) = doc_cmp p q.
Proof. exact loc_order. Qed.
Print Assumptions C17_loc_order_full.

Theorem C17_three_way_doc_spec :
  forall L R,
    StronglySorted (klt tcmp) L -> StronglySorted (klt tcmp) R ->
    ForallOrdPairs (unrelated path_prefix path_same_arr) L -> ForallOrdPairs (unrelated path_prefix path_same_arr) R ->
    three_way_doc L R = three_way_spec_result L R.
Proof. exact three_way_doc_spec. Qed.
Print Assumptions C17_three_way_doc_spec.

Theorem C17_json_diff_sorted :
  forall a b, wf_json a = true -> wf_json b = true -> StronglySorted (klt tcmp) (json_diff a b).
Proof. exact json_diff_sorted. Qed.
Print Assumptions C17_json_diff_sorted.

(* Full statement (refuted below): forall well-formed b l r, merge_json b l r = merge_spec b l r. *)
Theorem C17_merge_json_partial :
  forall b l r, wf_json b = true -> wf_json l = true -> wf_json r = true ->
    merge_side_conditions b l r = true -> merge_json b l r = merge_spec b l r.
Proof. exact merge_json_partial. Qed.
Print Assumptions C17_merge_json_partial.

(* op_algebra (partial: commutation on disjoint paths and index legs are not proved) *)
Theorem C17_unchanged_same : forall p m d v d', walk m p d v = ROk d' false -> d' = d.
Proof. exact unchanged_same. Qed.
Print Assumptions C17_unchanged_same.

Theorem C17_set_then_lookup : forall p d v d', keys_only p = true ->
  walk MSet p d v = ROk d' true -> lookup p d' = Some v.
Proof. exact set_then_lookup. Qed.
Print Assumptions C17_set_then_lookup.

Theorem C17_remove_then_lookup : forall p d d', keys_only p = true -> p <> [] -> wf_json d = true ->
  walk MRemove p d JNull = ROk d' true -> lookup p d' = None.
Proof. exact remove_then_lookup. Qed.
Print Assumptions C17_remove_then_lookup.

Theorem C17_oracle_on_model_loc : forall p q, Forall key_ok p -> Forall key_ok q ->
  oracle (CLoc p q, OLoc false (ekey p) (ekey q) (cmp_code (cmp_keys (ekey p) (ekey q)))) = true.
Proof. exact oracle_on_model_loc. Qed.
Print Assumptions C17_oracle_on_model_loc.

Theorem C17_oracle_on_model_merge : forall b l r,
  wf_json b = true -> wf_json l = true -> wf_json r = true -> merge_side_conditions b l r = true ->
  mres_eqb (merge_spec b l r) (merge_json b l r) = true ->
  oracle (CMerge b l r, OMerge (mobs_of (merge_json b l r)) (mobs_of (merge_json b l r)) [] [] [] []) = true.
Proof. exact oracle_on_model_merge. Qed.
Print Assumptions C17_oracle_on_model_merge.

Theorem C17_merge_json_refuted_prefix_siblings :
  exists b l r, wf_json b = true /\ wf_json l = true /\ wf_json r = true /\
    merge_spec b l r = MConflict /\
    merge_json b l r = MMerged (JObj [(k_a, JObj [(k_x, JNum 2)]); (k_ab, JNum 3)]).
Proof. exact merge_json_refuted_prefix_siblings. Qed.
Print Assumptions C17_merge_json_refuted_prefix_siblings.

Theorem C17_merge_json_refuted_array_shrink :
  exists b l r, wf_json b = true /\ wf_json l = true /\ wf_json r = true /\
    merge_spec b l r = MMerged (JObj [(k_a, JArr [JNum 1]); (k_b, JNum 2)]) /\
    merge_json b l r = MMerged (JObj [(k_a, JArr [JNum 1; JNum 3]); (k_b, JNum 2)]).
Proof. exact merge_json_refuted_array_shrink. Qed.
Print Assumptions C17_merge_json_refuted_array_shrink.

Theorem C17_merge_json_refuted_same_array_convergent :
  exists b l r, wf_json b = true /\ wf_json l = true /\ wf_json r = true /\
    merge_spec b l r = MConflict /\
    merge_json b l r = MMerged (JObj [(k_z, JArr [JNum 9; JNum 2; JNum 7])]).
Proof. exact merge_json_refuted_same_array_convergent. Qed.
Print Assumptions C17_merge_json_refuted_same_array_convergent.

(* ---- round 3 ---- *)
Theorem C17_json_eqb_refl : forall d, json_eqb d d = true.
Proof. exact json_eqb_refl. Qed.
Print Assumptions C17_json_eqb_refl.

Theorem C17_oracle_on_model_merge_full : forall b l r,
  wf_json b = true -> wf_json l = true -> wf_json r = true -> merge_side_conditions b l r = true ->
  oracle (CMerge b l r, OMerge (mobs_of (merge_json b l r)) (mobs_of (merge_json b l r)) [] [] [] []) = true.
Proof. exact oracle_on_model_merge_full. Qed.
Print Assumptions C17_oracle_on_model_merge_full.

Theorem C17_set_then_lookup_idx : forall p d v d', fits p d = true ->
  walk MSet p d v = ROk d' true -> lookup p d' = Some v.
Proof. exact set_then_lookup_idx. Qed.
Print Assumptions C17_set_then_lookup_idx.

Theorem C17_remove_then_lookup_idx : forall p d d', fits_rm p d = true -> wf_json d = true ->
  walk MRemove p d JNull = ROk d' true -> lookup p d' = None.
Proof. exact remove_then_lookup_idx. Qed.
Print Assumptions C17_remove_then_lookup_idx.

(* commutation, partial: different members of one object (full statement: any two unrelated paths) *)
Theorem C17_set_set_commute_members_partial : forall k1 k2 v1 v2 kv, k1 <> k2 ->
  app MSet [LKey k2] v2 (app MSet [LKey k1] v1 (JObj kv)) = app MSet [LKey k1] v1 (app MSet [LKey k2] v2 (JObj kv)).
Proof. exact set_set_commute_members. Qed.
Print Assumptions C17_set_set_commute_members_partial.

Theorem C17_remove_remove_commute_members_partial : forall k1 k2 kv, k1 <> k2 ->
  app MRemove [LKey k2] JNull (app MRemove [LKey k1] JNull (JObj kv)) = app MRemove [LKey k1] JNull (app MRemove [LKey k2] JNull (JObj kv)).
Proof. exact remove_remove_commute_members. Qed.
Print Assumptions C17_remove_remove_commute_members_partial.
