(* C12 — Tree shape and root hash depend only on content.  Property theorems only. *)
From Coq Require Import NArith List Bool.
From Dolt Require Import C12.Model C12.Spec C12.Corr C12.Proofs.
Import ListNotations.

Theorem C12_chunk_resync :
  forall (item : Type) (boundary fits : nat -> list item -> item -> bool) l a b cs,
    feed item boundary fits l [] a = (cs, []) ->
    chunk_level item boundary fits l (a ++ b) =
    chunk_level item boundary fits l a ++ chunk_level item boundary fits l b.
Proof. exact chunk_resync. Qed.
Print Assumptions C12_chunk_resync.

Theorem C12_chunk_resync_tail :
  forall (item : Type) (boundary fits : nat -> list item -> item -> bool) l a a' t ca ca',
    feed item boundary fits l [] a = (ca, []) ->
    feed item boundary fits l [] a' = (ca', []) ->
    chunk_level item boundary fits l (a ++ t) = ca ++ chunk_level item boundary fits l t /\
    chunk_level item boundary fits l (a' ++ t) = ca' ++ chunk_level item boundary fits l t.
Proof. exact chunk_resync_tail. Qed.
Print Assumptions C12_chunk_resync_tail.

Theorem C12_chunk_level_concat :
  forall (item : Type) (boundary fits : nat -> list item -> item -> bool) l xs,
    concat (chunk_level item boundary fits l xs) = xs.
Proof. exact chunk_level_concat. Qed.
Print Assumptions C12_chunk_level_concat.

Theorem C12_mutate_canonical_level :
  forall (item : Type) (boundary fits : nat -> list item -> item -> bool) (summ : nat -> list item -> item),
    no_overflow item fits ->
    forall l xs cops,
      map (old_of item) cops = chunk_level item boundary fits l xs ->
      fst (rechunk item boundary fits summ l true [] cops) =
      chunk_level item boundary fits l (flat_map (new_of item) cops).
Proof. exact mutate_level. Qed.
Print Assumptions C12_mutate_canonical_level.

Theorem C12_level_history_independent :
  forall (item : Type) (boundary fits : nat -> list item -> item -> bool) (summ : nat -> list item -> item),
    no_overflow item fits ->
    forall l xs1 xs2 cops1 cops2,
      map (old_of item) cops1 = chunk_level item boundary fits l xs1 ->
      map (old_of item) cops2 = chunk_level item boundary fits l xs2 ->
      flat_map (new_of item) cops1 = flat_map (new_of item) cops2 ->
      fst (rechunk item boundary fits summ l true [] cops1) =
      fst (rechunk item boundary fits summ l true [] cops2).
Proof. exact level_history_independent. Qed.
Print Assumptions C12_level_history_independent.

Theorem C12_mutate_canonical_refuted_with_overflow :
  exists (boundary fits : nat -> list N -> N -> bool) (summ : nat -> list N -> N)
         (xs : list N) (cops : list (list (op N))),
    map (old_of N) cops = chunk_level N boundary fits 0 xs /\
    fst (rechunk N boundary fits summ 0 true [] cops)
      <> chunk_level N boundary fits 0 (flat_map (new_of N) cops).
Proof. exact mutate_canonical_refuted. Qed.
Print Assumptions C12_mutate_canonical_refuted_with_overflow.
