(* C12 — Tree shape and root hash depend only on content.  Property theorems only. *)
From Coq Require Import NArith List Bool.
From Dolt Require Import C12.Model C12.Spec C12.Corr C12.Proofs.
Import ListNotations.

Theorem C12_chunk_resync :
  forall (item : Type) (boundary fits : nat -> list item -> item -> bool) l a b cs,
    feed item boundary fits l [] a = (cs, []) ->
    chunk_level item boundary fits l (a ++ b) =
    chunk_level item boundary fits l a ++ chunk_level item boundary fits l b.
Proof. exact chunk_resync. Qed.
Print Assumptions C12_chunk_resync.

Theorem C12_chunk_resync_tail :
  forall (item : Type) (boundary fits : nat -> list item -> item -> bool) l a a' t ca ca',
    feed item boundary fits l [] a = (ca, []) ->
    feed item boundary fits l [] a' = (ca', []) ->
    chunk_level item boundary fits l (a ++ t) = ca ++ chunk_level item boundary fits l t /\
    chunk_level item boundary fits l (a' ++ t) = ca' ++ chunk_level item boundary fits l t.
Proof. exact chunk_resync_tail. Qed.
Print Assumptions C12_chunk_resync_tail.

Theorem C12_chunk_level_concat :
  forall (item : Type) (boundary fits : nat -> list item -> item -> bool) l xs,
    concat (chunk_level item boundary fits l xs) = xs.
Proof. exact chunk_level_concat. Qed.
Print Assumptions C12_chunk_level_concat.

Theorem C12_mutate_canonical_level :
  forall (item : Type) (boundary fits : nat -> list item -> item -> bool) (summ : nat -> list item -> item),
    no_overflow item fits ->
    forall l xs cops,
      map (old_of item) cops = chunk_level item boundary fits l xs ->
      fst (rechunk item boundary fits summ l true [] cops) =
      chunk_level item boundary fits l (flat_map (new_of item) cops).
Proof. exact mutate_level. Qed.
Print Assumptions C12_mutate_canonical_level.

Theorem C12_level_history_independent :
  forall (item : Type) (boundary fits : nat -> list item -> item -> bool) (summ : nat -> list item -> item),
    no_overflow item fits ->
    forall l xs1 xs2 cops1 cops2,
      map (old_of item) cops1 = chunk_level item boundary fits l xs1 ->
      map (old_of item) cops2 = chunk_level item boundary fits l xs2 ->
      flat_map (new_of item) cops1 = flat_map (new_of item) cops2 ->
      fst (rechunk item boundary fits summ l true [] cops1) =
      fst (rechunk item boundary fits summ l true [] cops2).
Proof. exact level_history_independent. Qed.
Print Assumptions C12_level_history_independent.

Theorem C12_apply_levels_spec :
  forall (item : Type) (boundary fits : nat -> list item -> item -> bool) (summ : nat -> list item -> item),
    no_overflow item fits ->
    forall (f l : nat) (old : list (list (chunk item))) (cops : list (list (op item))),
      wf item boundary fits summ l (map (old_of item) cops :: tl old) ->
      apply_levels item boundary fits summ f l old cops =
      build_levels item boundary fits summ f l (flat_map (new_of item) cops).
Proof. exact apply_levels_spec. Qed.
Print Assumptions C12_apply_levels_spec.

Theorem C12_mutate_canonical :
  forall (item : Type) (boundary fits : nat -> list item -> item -> bool) (summ : nat -> list item -> item),
    no_overflow item fits ->
    forall (key_of : item -> N) (item_eqb : item -> item -> bool) (xs : list item) (es : list (edit item)),
      inc (map key_of xs) -> inc (map (ekey item key_of) es) ->
      apply_mutations item boundary fits summ key_of item_eqb (build item boundary fits summ xs) es =
      build item boundary fits summ (apply_edits item key_of item_eqb es xs).
Proof. exact mutate_canonical. Qed.
Print Assumptions C12_mutate_canonical.

Theorem C12_history_independent :
  forall (item : Type) (boundary fits : nat -> list item -> item -> bool) (summ : nat -> list item -> item),
    no_overflow item fits ->
    forall (key_of : item -> N) (item_eqb : item -> item -> bool) (h1 h2 : list (list (edit item))),
      Forall (fun es => inc (map (ekey item key_of) es)) h1 ->
      Forall (fun es => inc (map (ekey item key_of) es)) h2 ->
      fold_left (fun ys es => apply_edits item key_of item_eqb es ys) h1 [] =
      fold_left (fun ys es => apply_edits item key_of item_eqb es ys) h2 [] ->
      fold_left (apply_mutations item boundary fits summ key_of item_eqb) h1 (build item boundary fits summ []) =
      fold_left (apply_mutations item boundary fits summ key_of item_eqb) h2 (build item boundary fits summ []).
Proof. exact history_independent_fold. Qed.
Print Assumptions C12_history_independent.

Theorem C12_history_independent_any_start :
  forall (item : Type) (boundary fits : nat -> list item -> item -> bool) (summ : nat -> list item -> item),
    no_overflow item fits ->
    forall (key_of : item -> N) (item_eqb : item -> item -> bool) (xs1 xs2 : list item) (es1 es2 : list (edit item)),
      inc (map key_of xs1) -> inc (map key_of xs2) ->
      inc (map (ekey item key_of) es1) -> inc (map (ekey item key_of) es2) ->
      apply_edits item key_of item_eqb es1 xs1 = apply_edits item key_of item_eqb es2 xs2 ->
      apply_mutations item boundary fits summ key_of item_eqb (build item boundary fits summ xs1) es1 =
      apply_mutations item boundary fits summ key_of item_eqb (build item boundary fits summ xs2) es2.
Proof. exact history_independent. Qed.
Print Assumptions C12_history_independent_any_start.

Theorem C12_build_is_tree :
  forall (item : Type) (boundary fits : nat -> list item -> item -> bool) (summ : nat -> list item -> item),
    no_overflow item fits ->
    forall xs : list item, is_tree item (build item boundary fits summ xs) = true.
Proof. exact build_is_tree. Qed.
Print Assumptions C12_build_is_tree.

Theorem C12_mutate_canonical_refuted_with_overflow :
  exists (boundary fits : nat -> list N -> N -> bool) (summ : nat -> list N -> N)
         (xs : list N) (cops : list (list (op N))),
    map (old_of N) cops = chunk_level N boundary fits 0 xs /\
    fst (rechunk N boundary fits summ 0 true [] cops)
      <> chunk_level N boundary fits 0 (flat_map (new_of N) cops).
Proof. exact mutate_canonical_refuted. Qed.
Print Assumptions C12_mutate_canonical_refuted_with_overflow.
