(* C06 — Table files and archives round-trip any chunk set.  Property theorems only. *)
From Coq Require Import NArith List Bool Sorting.Permutation Sorting.Sorted.
From Dolt Require Import Base.Str Gen.C01Consts C01.Model C01.Spec C01.Proofs C06.Model C06.Spec C06.Corr C06.Proofs.
Import ListNotations.
Local Open Scope N_scope.

(* the archive index interpolation search terminates and returns the lower
   bound on every sorted list of (unbounded) numbers *)
Theorem C06_prolly_bin_search_spec :
  forall (s : list N) (target : N), sorted s -> prolly_bin_search s target = Some (lower_bound s target).
Proof. exact prolly_bin_search_spec. Qed.
Print Assumptions C06_prolly_bin_search_spec.

(* partial: see C06/Proofs.v for what is missing (byte-level index decode, iterate permutation) *)
Theorem C06_table_roundtrip_partial :
  forall (crc : bytes -> N) (compress : bytes -> bytes) (decompress : bytes -> option bytes),
    (forall d, decompress (compress d) = Some d) ->
    forall ts rs (content : addr -> bytes),
      valid_tuples ts rs -> distinct_addrs rs ->
      (forall k, (k < length rs)%nat ->
         wf_rec crc compress (nth k rs dummy_rec) (content (r_addr (nth k rs dummy_rec)))) ->
      let t := mkTable (write_table_with ts rs) (build_pindex ts rs) in
      table_count t = nlen rs /\ table_unc t = total_unc rs
      /\ (forall h, table_get crc decompress t h = ROk (if in_table rs h then Some (content h) else None))
      /\ (forall h, table_has t h = in_table rs h)
      /\ (forall h, lookup (t_ix t) h = lookup_spec rs h).
Proof. exact table_roundtrip_partial. Qed.
Print Assumptions C06_table_roundtrip_partial.
