(* C06 — Table files and archives round-trip any chunk set.  Property theorems only. *)
From Coq Require Import NArith List Bool Sorting.Permutation Sorting.Sorted.
From Dolt Require Import Base.Str Gen.C01Consts C01.Model C01.Spec C01.Proofs C01.ProofsBytes C01.ProofsSort C01.ProofsTable C06.Model C06.Spec C06.Corr C06.Proofs.
Import ListNotations.
Local Open Scope N_scope.

(* the archive index interpolation search terminates and returns the lower
   bound on every sorted list of (unbounded) numbers *)
Theorem C06_prolly_bin_search_spec :
  forall (s : list N) (target : N), sorted s -> prolly_bin_search s target = Some (lower_bound s target).
Proof. exact prolly_bin_search_spec. Qed.
Print Assumptions C06_prolly_bin_search_spec.

(* byte level: the index block of a written table decodes to the index it was written from *)
Theorem C06_parse_write_table :
  forall ts rs, valid_tuples ts rs -> table_fits rs ->
    parse_index (write_table_with ts rs) = Some (build_pindex ts rs).
Proof. exact parse_write_table. Qed.
Print Assumptions C06_parse_write_table.

(* full round trip from the bytes; iterate-all returns exactly the stored chunks *)
Theorem C06_table_roundtrip :
  forall (crc : bytes -> N) (compress : bytes -> bytes) (decompress : bytes -> option bytes),
    (forall d, decompress (compress d) = Some d) ->
    forall ts rs (content : addr -> bytes),
      valid_tuples ts rs -> table_fits rs -> recs_ok crc compress content rs ->
      exists t, open_table (write_table_with ts rs) = Some t
        /\ table_count t = nlen rs /\ table_unc t = total_unc rs
        /\ (forall h, table_get crc decompress t h = ROk (if in_table rs h then Some (content h) else None))
        /\ (forall h, table_has t h = in_table rs h)
        /\ (forall h, lookup (t_ix t) h = lookup_spec rs h)
        /\ table_iterate crc decompress t = ROk (map (chunk_of content) rs).
Proof. exact table_roundtrip. Qed.
Print Assumptions C06_table_roundtrip.
