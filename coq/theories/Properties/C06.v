(* C06 — Table files and archives round-trip any chunk set.  Property theorems only. *)
From Coq Require Import NArith List Bool Sorting.Permutation Sorting.Sorted.
From Dolt Require Import Base.Str Gen.C01Consts C01.Model C01.Spec C01.Proofs C01.ProofsBytes C01.ProofsSort C01.ProofsTable C06.Model C06.Spec C06.Corr C06.Proofs C06.ProofsConjoin C06.ProofsArchive.
Import ListNotations.
Local Open Scope N_scope.

(* the archive index interpolation search terminates and returns the lower
   bound on every sorted list of (unbounded) numbers *)
Theorem C06_prolly_bin_search_spec :
  forall (s : list N) (target : N), sorted s -> prolly_bin_search s target = Some (lower_bound s target).
Proof. exact prolly_bin_search_spec. Qed.
Print Assumptions C06_prolly_bin_search_spec.

(* byte level: the index block of a written table decodes to the index it was written from *)
Theorem C06_parse_write_table :
  forall ts rs, valid_tuples ts rs -> table_fits rs ->
    parse_index (write_table_with ts rs) = Some (build_pindex ts rs).
Proof. exact parse_write_table. Qed.
Print Assumptions C06_parse_write_table.

(* full round trip from the bytes; iterate-all returns exactly the stored chunks *)
Theorem C06_table_roundtrip :
  forall (crc : bytes -> N) (compress : bytes -> bytes) (decompress : bytes -> option bytes),
    (forall d, decompress (compress d) = Some d) ->
    forall ts rs (content : addr -> bytes),
      valid_tuples ts rs -> table_fits rs -> recs_ok crc compress content rs ->
      exists t, open_table (write_table_with ts rs) = Some t
        /\ table_count t = nlen rs /\ table_unc t = total_unc rs
        /\ (forall h, table_get crc decompress t h = ROk (if in_table rs h then Some (content h) else None))
        /\ (forall h, table_has t h = in_table rs h)
        /\ (forall h, lookup (t_ix t) h = lookup_spec rs h)
        /\ table_iterate crc decompress t = ROk (map (chunk_of content) rs).
Proof. exact table_roundtrip. Qed.
Print Assumptions C06_table_roundtrip.

(* planTableConjoin's output is, byte for byte, the table file of the concatenated record
   lists (plan order), whatever prefix-sorted order the merged tuples got *)
Theorem C06_conjoin_is_table :
  forall (crc : bytes -> N) (compress : bytes -> bytes) (content : addr -> bytes) ts srcs rss,
    Forall2 (tbl_rep crc compress content) srcs rss ->
    conjoin_with ts srcs = write_table_with ts (concat rss).
Proof. exact conjoin_is_table. Qed.
Print Assumptions C06_conjoin_is_table.

Theorem C06_conjoin_default_valid :
  forall (crc : bytes -> N) (compress : bytes -> bytes) (content : addr -> bytes) srcs rss,
    Forall2 (tbl_rep crc compress content) srcs rss ->
    valid_tuples (sort_tuples (conjoin_tuples 0 (map t_ix srcs))) (concat rss).
Proof. exact conjoin_default_valid. Qed.
Print Assumptions C06_conjoin_default_valid.

(* the conjoined file re-opens from its bytes and serves exactly the union of its inputs
   (an address stored in several inputs is stored several times and served from one of the
   equal copies); counts and sizes add up *)
Theorem C06_conjoin_roundtrip :
  forall (crc : bytes -> N) (compress : bytes -> bytes) (decompress : bytes -> option bytes),
    (forall d, decompress (compress d) = Some d) ->
    forall (content : addr -> bytes) ts srcs rss,
      Forall2 (tbl_rep crc compress content) srcs rss ->
      valid_tuples ts (concat rss) -> table_fits (concat rss) ->
      exists t, open_table (conjoin_with ts srcs) = Some t
        /\ table_count t = sum_N (map nlen rss)
        /\ table_unc t = sum_N (map total_unc rss)
        /\ (forall h, table_has t h = in_tables rss h)
        /\ (forall h, table_get crc decompress t h = ROk (if in_tables rss h then Some (content h) else None)).
Proof. exact conjoin_roundtrip. Qed.
Print Assumptions C06_conjoin_roundtrip.

(* archive index search: position of h in the address-sorted chunk list iff stored *)
Theorem C06_find_index_spec :
  forall (l : list addr) (h : addr), addrs_sorted l ->
    find_index (map fst l) (map snd l) h = Some (addr_index l h 0).
Proof. exact find_index_spec. Qed.
Print Assumptions C06_find_index_spec.

Theorem C06_find_index_present :
  forall l h, addrs_sorted l ->
    (exists i, find_index (map fst l) (map snd l) h = Some (Some i)) <-> In h l.
Proof. exact find_index_present. Qed.
Print Assumptions C06_find_index_present.

(* byte level: the archive index block (span ends / prefixes / chunk refs / suffixes) written by
   archiveWriter.writeIndex decodes to the arrays the reader works on *)
Theorem C06_archive_index_roundtrip :
  forall span_lens staged, archive_fits span_lens (sort_achunks staged) ->
    parse_archive_index (nlen span_lens) (nlen staged) (archive_index_bytes span_lens staged)
    = Some (written_aindex span_lens staged).
Proof. exact archive_index_roundtrip. Qed.
Print Assumptions C06_archive_index_roundtrip.

(* archive round trip at the index level, from the bytes: findIndex (interpolation search +
   suffix scan) and the chunk-reference lookup return exactly the reference staged for h *)
Theorem C06_archive_roundtrip :
  forall span_lens staged h,
    NoDup (map fst staged) -> archive_fits span_lens (sort_achunks staged) ->
    option_map (fun ai => archive_lookup ai h)
               (parse_archive_index (nlen span_lens) (nlen staged) (archive_index_bytes span_lens staged))
    = Some (Some (aref_of staged h)).
Proof. exact archive_roundtrip. Qed.
Print Assumptions C06_archive_roundtrip.
