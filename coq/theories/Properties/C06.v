(* C06 — Table files and archives round-trip any chunk set.  Property theorems only. *)
From Coq Require Import NArith List Bool Sorting.Permutation Sorting.Sorted.
From Dolt Require Import Base.Str Gen.C01Consts C01.Model C01.Spec C01.Proofs C06.Model C06.Spec C06.Corr C06.Proofs.
Import ListNotations.
Local Open Scope N_scope.

(* the archive index interpolation search terminates and returns the lower
   bound on every sorted list of (unbounded) numbers *)
Theorem C06_prolly_bin_search_spec :
  forall (s : list N) (target : N), sorted s -> prolly_bin_search s target = Some (lower_bound s target).
Proof. exact prolly_bin_search_spec. Qed.
Print Assumptions C06_prolly_bin_search_spec.
