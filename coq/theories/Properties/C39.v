(* C39 — The remote server's sealed URLs cannot be forged or escape its root.  Property theorems only. *)
From Coq Require Import NArith ZArith List Bool.
From Dolt Require Import Base.Str Gen.C39Consts C39.Model C39.Spec C39.Corr C39.Proofs.
Import ListNotations.
Local Open Scope N_scope.

Theorem C39_unseal_seal :
  forall (aead_seal : bytes -> bytes -> bytes -> bytes -> bytes)
         (aead_open : bytes -> bytes -> bytes -> bytes -> option bytes),
    (forall k n c a p, aead_open k n c a = Some p <-> c = aead_seal k n p a) ->
    forall key n now1 now2 now' u,
      bytes_ok (u_path u) -> sealable_path (u_path u) -> good_query (u_query u) -> length n = 12%nat ->
      in_i64 (now1 - 10000) -> in_i64 (now2 + 900000) ->
      (now1 - 10000 <= now' <= now2 + 900000)%Z ->
      unseal aead_open key now' (seal_url aead_seal key n now1 now2 u) = UOk u.
Proof. exact unseal_seal. Qed.
Print Assumptions C39_unseal_seal.

Theorem C39_unseal_sound :
  forall (aead_seal : bytes -> bytes -> bytes -> bytes -> bytes)
         (aead_open : bytes -> bytes -> bytes -> bytes -> option bytes),
    (forall k n c a p, aead_open k n c a = Some p <-> c = aead_seal k n p a) ->
    forall key now s u',
      unseal aead_open key now s = UOk u' ->
      exists nbfs exps n pt nbf exp ep,
        s_nbf s = FVal nbfs /\ s_exp s = FVal exps /\ s_nonce s = FVal n
        /\ s_req s = FVal (aead_seal key n pt (aad_of nbfs exps))
        /\ parse_int64 nbfs = Some nbf /\ parse_int64 exps = Some exp /\ (nbf <= now <= exp)%Z
        /\ parse_request_uri pt = Some (u_path u', ep, u_query u')
        /\ s_path s = seal_prefix ++ ep.
Proof. exact unseal_sound. Qed.
Print Assumptions C39_unseal_sound.

Theorem C39_forged_payload_rejected :
  forall (aead_seal : bytes -> bytes -> bytes -> bytes -> bytes)
         (aead_open : bytes -> bytes -> bytes -> bytes -> option bytes),
    (forall k n c a p, aead_open k n c a = Some p <-> c = aead_seal k n p a) ->
    forall key now s c,
      s_req s = FVal c -> (forall n p a, c <> aead_seal key n p a) ->
      ~ accepted (unseal aead_open key now s).
Proof. exact forged_payload_rejected. Qed.
Print Assumptions C39_forged_payload_rejected.

Theorem C39_tamper_rejected :
  forall (aead_seal : bytes -> bytes -> bytes -> bytes -> bytes)
         (aead_open : bytes -> bytes -> bytes -> bytes -> option bytes),
    (forall k n c a p, aead_open k n c a = Some p <-> c = aead_seal k n p a) ->
    (forall k n p a n' p' a', aead_seal k n p a = aead_seal k n' p' a' -> n = n' /\ a = a') ->
    forall key n now1 now2 now' u s',
      let s := seal_url aead_seal key n now1 now2 u in
      in_i64 (now1 - 10000) -> in_i64 (now2 + 900000) ->
      s_req s' = s_req s ->
      ( s_nonce s' <> s_nonce s \/ s_nbf s' <> s_nbf s \/ s_exp s' <> s_exp s
        \/ (now' < now1 - 10000)%Z \/ (now2 + 900000 < now')%Z
        \/ (bytes_ok (u_path u) /\ sealable_path (u_path u) /\ good_query (u_query u) /\ s_path s' <> s_path s) ) ->
      ~ accepted (unseal aead_open key now' s').
Proof. exact tamper_rejected. Qed.
Print Assumptions C39_tamper_rejected.

Theorem C39_window_enforced :
  forall (aead_seal : bytes -> bytes -> bytes -> bytes -> bytes)
         (aead_open : bytes -> bytes -> bytes -> bytes -> option bytes),
    (forall k n c a p, aead_open k n c a = Some p <-> c = aead_seal k n p a) ->
    (forall k n p a n' p' a', aead_seal k n p a = aead_seal k n' p' a' -> n = n' /\ a = a') ->
    forall key n now1 now2 now' u,
      in_i64 (now1 - 10000) -> in_i64 (now2 + 900000) ->
      (now' < now1 - 10000 \/ now2 + 900000 < now')%Z ->
      ~ accepted (unseal aead_open key now' (seal_url aead_seal key n now1 now2 u)).
Proof. exact window_enforced. Qed.
Print Assumptions C39_window_enforced.

Theorem C39_ideal_aead_hypotheses_satisfiable :
  (forall k n c a p, sym_open k n c a = Some p <-> c = sym_seal k n p a)
  /\ (forall k n p a n' p' a', sym_seal k n p a = sym_seal k n' p' a' -> n = n' /\ a = a').
Proof. exact (conj sym_aead_ideal sym_aead_binds). Qed.
Print Assumptions C39_ideal_aead_hypotheses_satisfiable.

Theorem C39_get_confined :
  forall root p0 f, absolute root -> get_access root p0 = Some f -> under root f.
Proof. exact get_confined. Qed.
Print Assumptions C39_get_confined.

Theorem C39_post_confined_guarded :
  forall root p0 d, absolute root -> post_access true root p0 = inr d -> under root d.
Proof. exact post_confined_guarded. Qed.
Print Assumptions C39_post_confined_guarded.

(* today's POST/PUT branch (no guard) — DESIGN §6 F4 *)
Theorem C39_post_confined_refuted :
  exists root p0 d, absolute root /\ post_access false root p0 = inr d /\ ~ under root d.
Proof. exact post_confined_refuted. Qed.
Print Assumptions C39_post_confined_refuted.

(* the two residual path classes (relative path with ':' in its first segment, path beginning with exactly "//"):
   Unseal rejects what Seal issued.  Paths that need percent-encoding round-trip since f75d72f (C39_unseal_seal). *)
Theorem C39_unseal_seal_residual_refuted :
  exists u1 u2, bytes_ok (u_path u1) /\ bytes_ok (u_path u2) /\ good_query (u_query u1) /\ good_query (u_query u2)
    /\ unseal sym_open [1] 1000000%Z (seal_url sym_seal [1] zero_nonce 1000000%Z 1000000%Z u1) <> UOk u1
    /\ unseal sym_open [1] 1000000%Z (seal_url sym_seal [1] zero_nonce 1000000%Z 1000000%Z u2) <> UOk u2.
Proof. exact unseal_seal_residual_refuted. Qed.
Print Assumptions C39_unseal_seal_residual_refuted.

Theorem C39_parse_fmt_int : forall z, in_i64 z -> parse_int64 (fmt_int z) = Some z.
Proof. exact parse_fmt_int. Qed.
Print Assumptions C39_parse_fmt_int.

Theorem C39_constants_pinned :
  c39_archive_suffix = [46; 100; 97; 114; 99] /\ c39_hash_string_len = 32.
Proof. exact (conj archive_suffix_pinned hash_len_pinned). Qed.
Print Assumptions C39_constants_pinned.

(* the gRPC service layer (getRepoPath -> getOrCreateStore -> DBCache.Get), code as repaired in a6f850d *)
Theorem C39_grpc_confined :
  forall root use_id p org name d, absolute root ->
    grpc_access true root (grpc_repo_path use_id p org name) = Some d -> under root d.
Proof. exact grpc_confined. Qed.
Print Assumptions C39_grpc_confined.

Theorem C39_oracle_on_model_confinement :
  (forall ctx mode meth ro qbad p, absolute (fs_root ctx) ->
     oracle (IHandle true ctx mode meth ro qbad p) (model_obs (IHandle true ctx mode meth ro qbad p)) = true)
  /\ (forall ctx use_id p org name, absolute (fs_root ctx) ->
     oracle (IGrpc true ctx use_id p org name) (model_obs (IGrpc true ctx use_id p org name)) = true).
Proof. exact oracle_on_model_confinement. Qed.
Print Assumptions C39_oracle_on_model_confinement.
