(* C33 — Historical reads return the committed data.  Property theorems only. *)
From Coq Require Import NArith List Bool.
From Dolt Require Import C31.Model C33.Model C33.Spec C33.Corr C33.Proofs.
Import ListNotations.
Local Open Scope N_scope.

Theorem C33_as_of_spec :
  forall r v t i c, resolve_rev r v = Some i -> commit_at (r_hist r) i = Some c ->
  as_of r v t = read_state (k_state c) t /\ is_table_of (k_state c) t (as_of r v t).
Proof. exact as_of_spec. Qed.
Print Assumptions C33_as_of_spec.

Theorem C33_as_of_unresolved :
  forall r v t, resolve_rev r v = None -> as_of r v t = ABadRev.
Proof. exact as_of_unresolved. Qed.
Print Assumptions C33_as_of_unresolved.

Theorem C33_as_of_hash :
  forall r c k t, commit_at (r_hist r) c = Some k -> is_table_of (k_state k) t (as_of r (BHash c, []) t).
Proof. exact as_of_hash. Qed.
Print Assumptions C33_as_of_hash.

Theorem C33_as_of_branch :
  forall r b hd w k t, assoc b (r_branches r) = Some (hd, w) -> commit_at (r_hist r) hd = Some k ->
  is_table_of (k_state k) t (as_of r (BBranch b, []) t).
Proof. exact as_of_branch. Qed.
Print Assumptions C33_as_of_branch.

Theorem C33_as_of_tag :
  forall r g c k t, assoc g (r_branches r) = None -> assoc g (r_tags r) = Some c -> commit_at (r_hist r) c = Some k ->
  is_table_of (k_state k) t (as_of r (BTag g, []) t).
Proof. exact as_of_tag. Qed.
Print Assumptions C33_as_of_tag.

Theorem C33_as_of_tilde :
  forall r b n i j k t, resolve_base r b = Some i -> first_parent_chain (r_hist r) n i j -> commit_at (r_hist r) j = Some k ->
  is_table_of (k_state k) t (as_of r (b, [Tilde (N.of_nat n)]) t).
Proof. exact as_of_tilde. Qed.
Print Assumptions C33_as_of_tilde.

Theorem C33_walk_reachable :
  forall h l i j, walk h i l = Some j -> reachable h i j.
Proof. exact walk_reachable. Qed.
Print Assumptions C33_walk_reachable.

Theorem C33_revision_db_eq_as_of :
  forall r v t, names_commit r v -> revdb r v t = as_of r v t.
Proof. exact revision_db_eq_as_of. Qed.
Print Assumptions C33_revision_db_eq_as_of.

Theorem C33_shadowed_tag :
  forall r g hd w l t, assoc g (r_branches r) = Some (hd, w) ->
  resolve_rev r (BTag g, l) = resolve_rev r (BBranch g, l) /\ revdb r (BTag g, l) t = revdb r (BBranch g, l) t.
Proof. intros r g hd w l t H. split; [eapply resolve_shadowed_tag; exact H | eapply revdb_shadowed_tag; exact H]. Qed.
Print Assumptions C33_shadowed_tag.

Theorem C33_revision_db_spec :
  forall r v t i c, names_commit r v -> resolve_rev r v = Some i -> commit_at (r_hist r) i = Some c ->
  is_table_of (k_state c) t (revdb r v t).
Proof. exact revision_db_spec. Qed.
Print Assumptions C33_revision_db_spec.

Theorem C33_visited_spec :
  forall h hd, wf_hist h -> forall m, In m (visited h hd) <-> reachable h hd m /\ (N.to_nat m < length h)%nat.
Proof. exact visited_spec. Qed.
Print Assumptions C33_visited_spec.

Theorem C33_visited_nodup : forall h hd, NoDup (visited h hd).
Proof. exact visited_nodup. Qed.
Print Assumptions C33_visited_nodup.

Theorem C33_history_filter_spec :
  forall r t tgt hd c,
  wf_hist (r_hist r) -> cur_schema r t = Some tgt -> branch_head r (r_cur r) = Some hd ->
  (N.to_nat c < length (r_hist r))%nat ->
  exists rows, hist_all r t = AHist tgt rows /\
    (reachable (r_hist r) hd c ->
       map snd (filter (fun x => fst x =? c) rows) = hist_rows_at (r_hist r) tgt c t /\
       hist_at r c t = ARows tgt (map snd (filter (fun x => fst x =? c) rows))) /\
    (~ reachable (r_hist r) hd c -> filter (fun x => fst x =? c) rows = []).
Proof. exact history_filter_spec. Qed.
Print Assumptions C33_history_filter_spec.

Theorem C33_hist_rows_at_spec :
  forall h tgt i t k src,
  commit_at h i = Some k -> assoc t (d_schema (k_state k)) = Some src ->
  map fst (hist_rows_at h tgt i t) = map fst (rows_of t (d_data (k_state k))) /\
  forall pk rw', In (pk, rw') (hist_rows_at h tgt i t) <->
                 exists rw, holds_row (k_state k) t pk rw /\ rw' = map (seen_cell src rw) tgt.
Proof. exact hist_rows_at_spec. Qed.
Print Assumptions C33_hist_rows_at_spec.

Theorem C33_hist_rows_same_schema :
  forall h i t k src,
  commit_at h i = Some k -> assoc t (d_schema (k_state k)) = Some src -> NoDup src ->
  (forall pk rw, In (pk, rw) (rows_of t (d_data (k_state k))) -> length rw = length src) ->
  hist_rows_at h src i t = rows_of t (d_data (k_state k)).
Proof. exact hist_rows_same_schema. Qed.
Print Assumptions C33_hist_rows_same_schema.

Theorem C33_oracle_model_obs :
  forall i, wf_histb (r_hist (fst i)) = true -> oracle i (model_obs i) = true.
Proof. exact oracle_model_obs. Qed.
Print Assumptions C33_oracle_model_obs.
