(* C41 — Only one process can write a database directory.  Property theorems only. *)
From Coq Require Import NArith List Bool.
From Dolt Require Import Gen.C41Consts C41.Model C41.Spec C41.Corr C41.Proofs.
Local Open Scope N_scope.

Theorem C41_single_writer :
  forall (d : dir) (sched : list (N * step)), at_most_one_writer (run (init_sys d) sched).
Proof. exact single_writer. Qed.
Print Assumptions C41_single_writer.

Theorem C41_second_opener :
  forall (s : sys) (q p : N),
    reachable s -> is_writer s q = true -> s_proc s p = PClosed ->
    (let o := do_step s p (SOpen MFailFast) in
     o_code o = c_err_locked /\ s_dir (o_sys o) = s_dir s /\ pure_ops (o_fops o) = true
     /\ s_proc (o_sys o) p = PClosed /\ is_writer (o_sys o) q = true)
    /\
    (let o := do_step s p (SOpen MFallback) in
     o_code o = c_ro /\ s_dir (o_sys o) = s_dir s /\ pure_ops (o_fops o) = true
     /\ is_reader (o_sys o) p = true /\ is_writer (o_sys o) q = true).
Proof. exact second_opener. Qed.
Print Assumptions C41_second_opener.

Theorem C41_ro_open_pure :
  forall d : dir,
    r_dir (open_load false d) = d /\ pure_ops (r_ops (open_load false d)) = true.
Proof. exact ro_open_pure. Qed.
Print Assumptions C41_ro_open_pure.

Theorem C41_ro_view_eq_rw_view :
  forall d : dir, r_view (open_load false d) = r_view (open_load true d).
Proof. exact ro_view_eq_rw_view. Qed.
Print Assumptions C41_ro_view_eq_rw_view.

Theorem C41_ro_session_pure :
  forall (s : sys) (p : N) (st : step),
    is_reader s p = true ->
    let o := do_step s p st in
    s_dir (o_sys o) = s_dir s /\ pure_ops (o_fops o) = true
    /\ (forall h, st = SWrite h -> o_code o = c_err_readonly \/ o_code o = c_err_load)
    /\ is_writer (o_sys o) p = false.
Proof. exact ro_session_pure. Qed.
Print Assumptions C41_ro_session_pure.

Theorem C41_lock_invariant_step :
  forall (s : sys) (p : N) (st : step), inv s -> inv (o_sys (do_step s p st)).
Proof. exact inv_step. Qed.
Print Assumptions C41_lock_invariant_step.

Theorem C41_oracle_accepts_model :
  forall i : input, oracle i (model_obs i) = true.
Proof. exact oracle_model. Qed.
Print Assumptions C41_oracle_accepts_model.

Theorem C41_constants_pinned :
  max_novel = c41_journal_index_default_max_novel
  /\ lookup_rec_size = c41_index_rec_type_size + c41_lookup_sz.
Proof. exact (conj max_novel_pinned lookup_rec_size_pinned). Qed.
Print Assumptions C41_constants_pinned.
