(* C24 — Committed data always satisfies declared constraints.  Property theorems only. *)
From Coq Require Import NArith List Bool.
From Dolt Require Import C23.Model C24.Model C24.Spec C24.Corr C24.Proofs.
Import ListNotations.
Local Open Scope N_scope.

Theorem C24_committed_consistent_partial :
  forall U sched w,
    valid U (w_head w) = true ->
    (forall i, s_active (w_ss w i) = true -> valid U (s_work (w_ss w i)) = true) ->
    valid U (w_head (snd (crun U sched w))) = true.
Proof. exact committed_consistent_partial. Qed.
Print Assumptions C24_committed_consistent_partial.

Theorem C24_failed_commit_keeps_committed_state :
  forall U h s w,
    snd (commit_c U h s w) <> err_none -> fst (commit_c U h s w) = h.
Proof. exact failed_commit_keeps_committed_state. Qed.
Print Assumptions C24_failed_commit_keeps_committed_state.
