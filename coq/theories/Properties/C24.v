(* C24 — Committed data always satisfies declared constraints.  Property theorems only. *)
From Coq Require Import NArith List Bool.
From Dolt Require Import C23.Model C23.Spec C24.Model C24.Spec C24.Corr C24.Proofs.
Import ListNotations.
Local Open Scope N_scope.

Theorem C24_committed_consistent :
  forall U (ex : N -> stmt -> table -> sobs * table) (enabled : N -> bool),
    (forall i st t, enabled i = true -> Valid U t -> Valid U (snd (ex i st t))) ->
    forall sched w,
      (forall i st, In (i, st) sched -> enabled i = true) ->
      Valid U (w_head w) ->
      (forall i, s_active (w_ss w i) = true -> Valid U (s_work (w_ss w i)) /\ Valid U (s_snap (w_ss w i))) ->
      Valid U (w_head (snd (crun U ex sched w))).
Proof. exact committed_consistent. Qed.
Print Assumptions C24_committed_consistent.

Theorem C24_exec_c_enforces :
  forall U i st t, Valid U t -> Valid U (snd (exec_c U i st t)).
Proof. exact exec_c_enforces. Qed.
Print Assumptions C24_exec_c_enforces.

Theorem C24_validators_sound :
  forall U b l r m,
    (forall k, get U m k = overlay_row (get U b k) (get U l k) (get U r k)) ->
    Valid U b -> Valid U l -> Valid U r ->
    rowscan U b l r m = false -> fkscan U b m = false -> uniq_b U m = true ->
    Valid U m.
Proof. exact validators_sound. Qed.
Print Assumptions C24_validators_sound.

Theorem C24_uscan_nothing_unique :
  forall U l m, Uniq U l -> uscan U U l m (entries_of U l) = false -> Uniq U m.
Proof. exact uscan_nothing_unique. Qed.
Print Assumptions C24_uscan_nothing_unique.

Theorem C24_failed_commit_keeps_committed_state :
  forall U h s w, snd (commit_c U h s w) <> err_none -> fst (commit_c U h s w) = h.
Proof. exact failed_commit_keeps_committed_state. Qed.
Print Assumptions C24_failed_commit_keeps_committed_state.

Theorem C24_merge_keeps_notnull :
  forall (b l r : option row) x,
    row_conflict_b b l r = false -> overlay_row b l r = Some x ->
    (forall y, l = Some y -> notnull_ok y = true) -> (forall y, r = Some y -> notnull_ok y = true) ->
    notnull_ok x = true.
Proof. exact merge_keeps_notnull. Qed.
Print Assumptions C24_merge_keeps_notnull.

Theorem C24_violations_exact_partial :
  forall U b l r m k,
    (forall k, get U m k = overlay_row (get U b k) (get U l k) (get U r k)) ->
    Valid U b -> Valid U l -> Valid U r ->
    (In (vt_fk, k) (recorded U b l r m) <-> exists x, get U m k = Some x /\ fk_ok_row U m k x = false) /\
    (In (vt_check, k) (recorded U b l r m) <-> is_parent k = false /\ exists x, get U m k = Some x /\ row_ok k x = false) /\
    (In (vt_notnull, k) (recorded U b l r m) <-> is_parent k = true /\ exists x, get U m k = Some x /\ row_ok k x = false).
Proof. exact violations_exact_partial. Qed.
Print Assumptions C24_violations_exact_partial.

Theorem C24_uniq_violations_exact_refuted :
  let '(m, c, v) := branch_merge rf_U rf_base rf_left rf_right in
  c = false /\ valid rf_U rf_left = true /\ valid rf_U rf_right = true /\ valid rf_U m = true
  /\ existsb (fun p => fst p =? vt_unique) v = true.
Proof. exact uniq_violations_exact_refuted. Qed.
Print Assumptions C24_uniq_violations_exact_refuted.

(* ---- merges in which the FOREIGN KEY is new (value reference to a non-pk column): C24/Corr2.v ---- *)
From Dolt Require Import C24.Corr2 C24.FkAddProofs.

Theorem C24_fkadd_dangling_exact :
  forall (rws : rows) (k : N),
    In k (fkb_viols rws) <->
    exists a x, In (k, a, Some x) rws /\ is_parent k = false
                /\ ~ (exists pk pa, In (pk, pa, Some x) rws /\ is_parent pk = true).
Proof. exact fkadd_dangling_exact. Qed.
Print Assumptions C24_fkadd_dangling_exact.

Theorem C24_fkadd_oracle_on_model : forall i : fk_input, fk_oracle i (fk_model i) = true.
Proof. exact fkadd_oracle_on_model. Qed.
Print Assumptions C24_fkadd_oracle_on_model.

Theorem C24_fkadd_check_on_model : forall i : fk_input, check_any (F2 (i, fk_model i)) = 0.
Proof. exact fkadd_check_on_model. Qed.
Print Assumptions C24_fkadd_check_on_model.
