(* C19 — Merge bases and ancestor specs resolve as the commit graph dictates.  Property theorems only. *)
From Coq Require Import List Arith Bool NArith.
From Dolt Require Import Graph.CommitDag Graph.CommitDagFacts C18.Model C18.Corr C18.Proofs C19.Model C19.HeapModel C19.Spec C19.Corr C19.Proofs C19.HeapProofs C19.OracleProofs.
Import ListNotations.

(* In all statements: [rank] is the byte order of commit addresses (injective:
   distinct commits have distinct addresses), [h] any well-formed history,
   [store_of rank h] the commit store the code reads, [height rank h] the stored
   heights (= longest parent path, C18_height_spec). *)

(* FindCommonAncestor always terminates; its result is a common ancestor-or-self of both commits ... *)
Theorem C19_mb_common :
  forall rank, (forall a b, rank a = rank b -> a = b) -> forall h, wf_hist h ->
  forall c1 c2 m, c1 < length h -> c2 < length h ->
    find_common_ancestor rank (store_of rank h) c1 c2 = Some (Some m) -> ancs h m c1 /\ ancs h m c2.
Proof. exact mb_common. Qed.
Print Assumptions C19_mb_common.

(* ... no common ancestor is higher ... *)
Theorem C19_mb_maximal :
  forall rank, (forall a b, rank a = rank b -> a = b) -> forall h, wf_hist h ->
  forall c1 c2 m, c1 < length h -> c2 < length h ->
    find_common_ancestor rank (store_of rank h) c1 c2 = Some (Some m) ->
    forall x, ancs h x c1 -> ancs h x c2 -> height rank h x <= height rank h m.
Proof. exact mb_maximal. Qed.
Print Assumptions C19_mb_maximal.

(* ... the choice is independent of the argument order ... *)
Theorem C19_mb_sym :
  forall rank, (forall a b, rank a = rank b -> a = b) -> forall h, wf_hist h ->
  forall c1 c2, c1 < length h -> c2 < length h ->
    find_common_ancestor rank (store_of rank h) c1 c2 = find_common_ancestor rank (store_of rank h) c2 c1.
Proof. exact mb_sym. Qed.
Print Assumptions C19_mb_sym.

(* ... and no base is returned exactly when none exists (never an error / non-termination). *)
Theorem C19_mb_none_iff :
  forall rank, (forall a b, rank a = rank b -> a = b) -> forall h, wf_hist h ->
  forall c1 c2, c1 < length h -> c2 < length h ->
    (find_common_ancestor rank (store_of rank h) c1 c2 = Some None <-> forall x, ~ (ancs h x c1 /\ ancs h x c2)).
Proof. exact mb_none_iff. Qed.
Print Assumptions C19_mb_none_iff.

Theorem C19_mb_total :
  forall rank, (forall a b, rank a = rank b -> a = b) -> forall h, wf_hist h ->
  forall c1 c2, c1 < length h -> c2 < length h ->
    exists r, find_common_ancestor rank (store_of rank h) c1 c2 = Some r /\ mb_spec rank h c1 c2 r.
Proof. exact fca_total. Qed.
Print Assumptions C19_mb_total.

(* Determinism: each walk returns the unique optimum of a total order on the set
   of common ancestors — closure walk: greatest (height, address); parents walk:
   greatest height, then least address. *)
Theorem C19_mb_closure_spec :
  forall rank, (forall a b, rank a = rank b -> a = b) -> forall h, wf_hist h ->
  forall c1 c2,
    match mb_closure rank (store_of rank h) c1 c2 with
    | Some m => best_closure rank h c1 c2 m
    | None => forall x, ~ common h c1 c2 x
    end.
Proof. exact mb_closure_spec. Qed.
Print Assumptions C19_mb_closure_spec.

Theorem C19_mb_parents_spec :
  forall rank h, wf_hist h ->
  forall c1 c2, c1 < length h -> c2 < length h ->
    exists r, mb_parents rank (store_of rank h) c1 c2 = Some r /\ parents_res rank h c1 c2 r.
Proof. exact mb_parents_spec. Qed.
Print Assumptions C19_mb_parents_spec.

Theorem C19_mb_closure_sym :
  forall rank, (forall a b, rank a = rank b -> a = b) -> forall h, wf_hist h ->
  forall c1 c2, mb_closure rank (store_of rank h) c1 c2 = mb_closure rank (store_of rank h) c2 c1.
Proof. exact mb_closure_sym. Qed.
Print Assumptions C19_mb_closure_sym.

Theorem C19_mb_parents_sym :
  forall rank, (forall a b, rank a = rank b -> a = b) -> forall h, wf_hist h ->
  forall c1 c2, c1 < length h -> c2 < length h ->
    mb_parents rank (store_of rank h) c1 c2 = mb_parents rank (store_of rank h) c2 c1.
Proof. exact mb_parents_sym. Qed.
Print Assumptions C19_mb_parents_sym.

(* Walking an instruction list is iterated parent selection; it fails exactly
   when a parent index is out of range. *)
Theorem C19_spec_walk :
  forall rank h, wf_hist h -> forall c insts,
    (forall d, walk (store_of rank h) c insts = Some d <-> path h c insts d) /\
    (walk (store_of rank h) c insts = None <-> walk_stuck h c insts).
Proof. exact spec_walk_thm. Qed.
Print Assumptions C19_spec_walk.

Theorem C19_walk_app :
  forall rank h c a b,
    walk (store_of rank h) c (a ++ b) =
    match walk (store_of rank h) c a with Some m => walk (store_of rank h) m b | None => None end.
Proof. exact walk_app. Qed.
Print Assumptions C19_walk_app.

Theorem C19_walk_repeat_first_parent :
  forall rank h, wf_hist h -> forall c n,
    walk (store_of rank h) c (repeat 0 n) = Nat.iter n (first_parent h) (Some c).
Proof. exact walk_repeat_first_parent. Qed.
Print Assumptions C19_walk_repeat_first_parent.

(* CanFastForwardTo: (true, ErrUpToDate) iff equal; (true, nil) iff the head is a
   proper ancestor of the target; (false, ErrIsAhead) iff the target is a proper
   ancestor of the head; error iff no common ancestor; (false, nil) otherwise. *)
Theorem C19_can_ff_spec :
  forall rank, (forall a b, rank a = rank b -> a = b) -> forall h, wf_hist h ->
  forall c new, c < length h -> new < length h ->
    (can_ff rank (store_of rank h) c new = FF_uptodate <-> c = new) /\
    (can_ff rank (store_of rank h) c new = FF_ok <-> anc h c new) /\
    (can_ff rank (store_of rank h) c new = FF_ahead <-> anc h new c) /\
    (can_ff rank (store_of rank h) c new = FF_noancestor <-> forall x, ~ common h c new x) /\
    (can_ff rank (store_of rank h) c new = FF_diverged <->
       ~ ancs h c new /\ ~ ancs h new c /\ exists x, common h c new x) /\
    can_ff rank (store_of rank h) c new <> FF_fuel.
Proof. exact can_ff_spec. Qed.
Print Assumptions C19_can_ff_spec.

Theorem C19_can_ff_true_iff :
  forall rank, (forall a b, rank a = rank b -> a = b) -> forall h, wf_hist h ->
  forall c new, c < length h -> new < length h ->
    (can_ff rank (store_of rank h) c new = FF_ok \/ can_ff rank (store_of rank h) c new = FF_uptodate) <-> ancs h c new.
Proof. exact can_ff_true_iff. Qed.
Print Assumptions C19_can_ff_true_iff.

(* container/heap, as used by CommitByHeightHeap (binary heap in a slice, up/down
   sift): for any Less that is a total preorder, heap.Push keeps the heap order
   and adds the element; heap.Pop returns the root, which is least for Less,
   and keeps the heap order on the rest. *)
Theorem C19_heap_push :
  forall lessb : nat -> nat -> bool,
    (forall x y, lessb x y = true -> hle lessb x y) ->
    (forall x y z, hle lessb x y -> hle lessb y z -> hle lessb x z) ->
  forall x a, hp lessb (length a) a ->
    hp lessb (S (length a)) (hpush lessb x a) /\ length (hpush lessb x a) = S (length a) /\
    (forall y, In y (hpush lessb x a) <-> y = x \/ In y a).
Proof. exact hpush_correct. Qed.
Print Assumptions C19_heap_push.

Theorem C19_heap_pop :
  forall lessb : nat -> nat -> bool,
    (forall x y, lessb x y = true -> hle lessb x y) ->
    (forall x y z, hle lessb x y -> hle lessb y z -> hle lessb x z) ->
  forall a, a <> [] -> hp lessb (length a) a ->
    exists rest, hpop lessb a = Some (nth 0 a 0, rest) /\
                 hp lessb (length rest) rest /\ S (length rest) = length a /\
                 (forall y, In y a <-> y = nth 0 a 0 \/ In y rest).
Proof. exact hpop_correct. Qed.
Print Assumptions C19_heap_pop.

(* MaxHeight() = r[0].Height() is the greatest height in the queue: what heap.Pop
   returns is always a commit of maximal height *)
Theorem C19_heap_root_is_max :
  forall rank (s : store) a, hp (commit_less rank s) (length a) a ->
    forall y, In y a -> hgt s y <= hgt s (nth 0 a 0).
Proof. exact heap_root_is_max. Qed.
Print Assumptions C19_heap_root_is_max.

(* the walk over container/heap queues = the walk over multisets *)
Theorem C19_heap_refines_multiset :
  forall rank, (forall a b, rank a = rank b -> a = b) ->
  forall (s : store) c1 c2, mb_parents_heap rank s c1 c2 = mb_parents rank s c1 c2.
Proof. exact heap_refines_multiset. Qed.
Print Assumptions C19_heap_refines_multiset.

(* The executable statement of the property accepts the model's observation. *)
Theorem C19_oracle_accepts_model :
  forall i : input,
    wf_histb (in_hist i) = true ->
    rank_okb (length (in_hist i)) (map N.to_nat (snd (fst (fst i)))) = true ->
    pairs_okb i = true -> specs_split_okb i = true ->
    oracle i (model_obs i) = true.
Proof. exact oracle_accepts_model. Qed.
Print Assumptions C19_oracle_accepts_model.
