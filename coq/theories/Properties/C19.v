(* C19 — Merge bases and ancestor specs resolve as the commit graph dictates.  Property theorems only. *)
From Coq Require Import List Arith Bool NArith.
From Dolt Require Import Graph.CommitDag C18.Model C19.Model C19.Spec C19.Corr.
