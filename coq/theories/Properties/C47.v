(* C47 — A dropped database can be restored intact until it is purged.  Property theorems only. *)
From Coq Require Import NArith List Bool.
From Dolt Require Import C47.Model C47.Spec C47.Proofs.
Import ListNotations.
Local Open Scope N_scope.

(* full statement of the property clause: for every state s, live database n, operations
   on other databases ops (no purge) and spelling n' of the name,
     undrop n' after drop n gives back exactly n's value under its exact name.
   Proved under the side condition first_of_class (no other spelling of the name sorts
   before it in the holding directory) ... *)
Theorem C47_undrop_restores_partial :
  forall s n v d a ops n',
  lookup (fst n) (live s) = Some (v, d) ->
  let sp := if is_root s (fst n) then snd n else v in
  first_of_class (fst n, sp) (dropped s) -> fst a <> fst n ->
  Forall (other_op (fst n)) ops -> fst n' = fst n ->
  exists s1 s3, step s (Drop n a) = Some s1 /\ step (run s1 ops) (Undrop n') = Some s3 /\
    lookup (fst n) (live s3) = Some (sp, d) /\
    forall j, j <> fst n -> lookup j (live s3) = lookup j (live (run s1 ops)).
Proof. exact undrop_restores. Qed.
Print Assumptions C47_undrop_restores_partial.

(* ... because without it the clause is false on the faithful model (and on the engine) *)
Theorem C47_undrop_restores_refuted :
  exists ops n d a s1 s3,
    let s := run {| live := [(0, (2, [1000]))]; dropped := []; root := Some 0 |} ops in
    lookup (fst n) (live s) = Some (snd n, d) /\
    step s (Drop n a) = Some s1 /\ step s1 (Undrop n) = Some s3 /\
    exists v' d', lookup (fst n) (live s3) = Some (v', d') /\ d' <> d.
Proof. exact undrop_restores_refuted. Qed.
Print Assumptions C47_undrop_restores_refuted.

Theorem C47_undrop_no_overwrite :
  forall s n x, lookup (fst n) (live s) = Some x -> step s (Undrop n) = None.
Proof. exact undrop_no_overwrite. Qed.
Print Assumptions C47_undrop_no_overwrite.

Theorem C47_undrop_others_untouched :
  forall s n s', step s (Undrop n) = Some s' -> forall j, j <> fst n -> lookup j (live s') = lookup j (live s).
Proof. exact undrop_others_untouched. Qed.
Print Assumptions C47_undrop_others_untouched.

Theorem C47_failed_step_unchanged :
  forall s o, step s o = None -> step' s o = s.
Proof. exact failed_step_unchanged. Qed.
Print Assumptions C47_failed_step_unchanged.

Theorem C47_purge_final :
  forall s ops n, Forall not_drop ops ->
  step (run (step' s Purge) ops) (Undrop n) = None /\ live (step' s Purge) = live s.
Proof. exact purge_final. Qed.
Print Assumptions C47_purge_final.

Theorem C47_drop_drop :
  forall s n v d2 d1 a,
  lookup (fst n) (live s) = Some (v, d2) -> is_root s (fst n) = false ->
  dget (fst n, v) (dropped s) = Some d1 ->
  fresh_class (fst a) s -> fst a <> fst n ->
  exists s1, step s (Drop n a) = Some s1 /\
    In ((fst n, v), d2) (dropped s1) /\ In (a, d1) (dropped s1) /\
    exists s2, step s1 (Undrop a) = Some s2 /\ lookup (fst a) (live s2) = Some (snd a, d1).
Proof. exact drop_drop. Qed.
Print Assumptions C47_drop_drop.
