From Coq Require Import NArith List Bool.
From Dolt Require Import Base.Str Gen.C04Consts C03.Model C03.Spec C03.Corr C03.Proofs C04.Model C04.Spec C04.Proofs.
Import ListNotations.
Local Open Scope N_scope.

Theorem C04_index_transparent_refuted :
  exists (idx j h : bytes),
    view_of_boot wcrc [h] (bootstrap_with_index wcrc w_bufsz true w_maxnovel idx j)
    <> view_of_boot wcrc [h] (bootstrap_no_index wcrc w_bufsz true w_maxnovel j).
Proof. exact index_transparent_refuted. Qed.
Print Assumptions C04_index_transparent_refuted.

Theorem C04_index_transparent_partial :
  forall crc bufsz can_write max_novel known idx j,
    not_used crc idx j ->
    bootstrap_opt_index crc bufsz can_write max_novel idx j = bootstrap_no_index crc bufsz can_write max_novel j
    /\ view_of_boot crc known (bootstrap_opt_index crc bufsz can_write max_novel idx j)
       = view_of_boot crc known (bootstrap_no_index crc bufsz can_write max_novel j).
Proof. exact index_transparent_partial. Qed.
Print Assumptions C04_index_transparent_partial.

Theorem C04_ro_open_pure_index :
  forall crc bufsz max_novel idx j,
    index_after crc bufsz false max_novel idx j = idx
    /\ b_file (bootstrap_opt_index crc bufsz false max_novel idx j) = j.
Proof. exact ro_open_pure_index. Qed.
Print Assumptions C04_ro_open_pure_index.

Theorem C04_consts_pinned :
  tag_lookup = index_rec_chunk /\ tag_meta = index_rec_meta
  /\ lookup_len = lookup_sz /\ meta_len = lookup_meta_sz
  /\ lookup_len = a16_len + offset_size + length_size
  /\ meta_len = offset_size + offset_size + checksum_size + hash_byte_len
  /\ addr_sz = hash_byte_len /\ index_rec_type_size = 1.
Proof. exact c04_consts_pinned. Qed.
Print Assumptions C04_consts_pinned.

(* a validated index (genuine or stale) whose lookups are the journal's own ranges is transparent *)
Theorem C04_index_transparent_validated :
  forall (crc : bytes -> N) (bufsz : N), (forall b, crc b < 4294967296) ->
  forall (can_write : bool) (max_novel : N) (known : list bytes) (ib j : bytes)
         (indexed safe : N) (c : rmap) (rs : list wrec) (ts : N) (a tail2 : bytes),
    load_index crc ib j = Some (indexed, c, safe) ->
    j = enc_all crc rs ++ enc crc (WRoot ts a) ++ tail2 ->
    Forall (wf_rec bufsz) rs -> wf_rec bufsz (WRoot ts a) ->
    indexed = total_len rs ->
    (forall h, In h known ->
       assoc (addr16 h) c = assoc h (spec_ranges 0 rs [])
       /\ a16_distinct crc bufsz j h) ->
    view_of_boot crc known (bootstrap_with_index crc bufsz can_write max_novel ib j)
    = view_of_boot crc known (bootstrap_no_index crc bufsz can_write max_novel j).
Proof. exact index_transparent_validated. Qed.
Print Assumptions C04_index_transparent_validated.

Theorem C04_own_lookups_agree :
  forall (bts : list batch) (rs : list wrec) (h : bytes),
    map (fun l => (lk_addr l, lk_off l, lk_len l)) (concat (map bt_lookups bts)) = rlookups 0 rs ->
    (forall k v, In (k, v) (spec_ranges 0 rs []) -> addr16 k = addr16 h -> k = h) ->
    assoc (addr16 h) (cached_of bts) = assoc h (spec_ranges 0 rs []).
Proof. exact own_lookups_agree. Qed.
Print Assumptions C04_own_lookups_agree.
