(* C42 — Blobstores provide a correct conditional manifest update and byte ranges.  Property theorems only. *)
From Coq Require Import NArith ZArith List Bool.
From Dolt Require Import Base.Str Gen.C42Consts C42.Model C42.Spec C42.NbsModel C42.GitModel C42.Corr C42.Proofs.
Import ListNotations.

Theorem C42_cap_is_cas :
  forall b s (sch : schedule), legal (s manifest_key) (sched_trace b s sch).
Proof. exact cap_is_cas. Qed.
Print Assumptions C42_cap_is_cas.

Theorem C42_cap_succeeds_iff_expected_is_current :
  forall b s e d f,
  (e = cur_ver s manifest_key -> step b s (OCap e d f) = (upd s manifest_key (f, d), RVer f)) /\
  (e <> cur_ver s manifest_key -> step b s (OCap e d f) = (s, RCasFail (cur_ver s manifest_key))).
Proof. exact cap_succeeds_iff_expected_is_current. Qed.
Print Assumptions C42_cap_succeeds_iff_expected_is_current.

Theorem C42_failed_cap_changes_nothing :
  forall b s e d f s' r,
  step b s (OCap e d f) = (s', r) -> r <> RVer f ->
  s' = s /\ r = RCasFail (cur_ver s manifest_key) /\ e <> cur_ver s manifest_key.
Proof. exact failed_cap_changes_nothing. Qed.
Print Assumptions C42_failed_cap_changes_nothing.

Theorem C42_one_winner_per_expected_version :
  forall b s (sch : schedule),
  versions_distinct s (sched_trace b s sch) ->
  NoDup (cap_wins (sched_trace b s sch))
  /\ forall v, (count_occ N.eq_dec (cap_wins (sched_trace b s sch)) v <= 1)%nat.
Proof. exact one_winner_per_expected_version. Qed.
Print Assumptions C42_one_winner_per_expected_version.

Theorem C42_exactly_one_winner :
  forall b s (c1 : N) d1 f1 (rest : list (N * (bytes * N))),
  f1 <> cur_ver s manifest_key ->
  let v := cur_ver s manifest_key in
  let sch : schedule := (c1, OCap v d1 f1) :: map (fun c => (fst c, OCap v (fst (snd c)) (snd (snd c)))) rest in
  map snd (sched_trace b s sch) = RVer f1 :: map (fun _ => RCasFail f1) rest
  /\ final b s (map snd sch) = upd s manifest_key (f1, d1)
  /\ length (cap_wins (sched_trace b s sch)) = 1%nat.
Proof. exact exactly_one_winner. Qed.
Print Assumptions C42_exactly_one_winner.

Theorem C42_range_spec_inmem :
  forall val ver off len,
  (0 <= len)%Z -> in_range (zlen val) off = true ->
  inmem_get val ver off len = RBytes (spec_slice val off len) (N.of_nat (length val)) ver.
Proof. exact range_spec_inmem. Qed.
Print Assumptions C42_range_spec_inmem.

Theorem C42_range_spec_local :
  forall val ver off len,
  (0 <= len)%Z -> (- zlen val <= off)%Z ->
  local_get val ver off len = RBytes (spec_slice val off len) (N.of_nat (length val)) ver.
Proof. exact range_spec_local. Qed.
Print Assumptions C42_range_spec_local.

Theorem C42_spec_slice_is_window :
  forall blob off len, (0 <= len)%Z ->
  let a := Z.to_nat (win_start (zlen blob) off) in
  exists pre post,
    blob = pre ++ spec_slice blob off len ++ post
    /\ length pre = Nat.min a (length blob)
    /\ (len = 0%Z -> post = [])
    /\ (len <> 0%Z -> length (spec_slice blob off len)
                   = Nat.min (Z.to_nat (win_start (zlen blob) off + len) - a) (length blob - a)).
Proof. exact spec_slice_is_window. Qed.
Print Assumptions C42_spec_slice_is_window.

Theorem C42_range_spec_nonneg :
  forall b val ver off len,
  (0 <= off <= zlen val)%Z -> (0 <= len)%Z ->
  backend_get b val ver off len
  = RBytes (let d := skipn (Z.to_nat off) val in if (len =? 0)%Z then d else firstn (Z.to_nat len) d)
           (N.of_nat (length val)) ver.
Proof. exact range_spec_nonneg. Qed.
Print Assumptions C42_range_spec_nonneg.

Theorem C42_range_spec_suffix :
  forall b val ver n len,
  (0 < n <= zlen val)%Z -> (0 <= len)%Z ->
  let suffix := skipn (length val - Z.to_nat n) val in
  length suffix = Z.to_nat n
  /\ backend_get b val ver (- n)%Z len
     = RBytes (if (len =? 0)%Z then suffix else firstn (Z.to_nat len) suffix) (N.of_nat (length val)) ver.
Proof. exact range_spec_suffix. Qed.
Print Assumptions C42_range_spec_suffix.

Theorem C42_range_out_of_range_inmem :
  forall val ver off len,
  (0 <= len)%Z -> in_range (zlen val) off = false ->
  inmem_get val ver off len = RPanic.
Proof. exact range_out_of_range_inmem. Qed.
Print Assumptions C42_range_out_of_range_inmem.

Theorem C42_range_out_of_range_local :
  forall val ver off len,
  (0 <= len)%Z ->
  ((zlen val < off)%Z -> local_get val ver off len = RBytes [] (N.of_nat (length val)) ver)
  /\ ((off < - zlen val)%Z -> local_get val ver off len = RErr).
Proof. exact range_out_of_range_local. Qed.
Print Assumptions C42_range_out_of_range_local.

Theorem C42_concat_spec :
  forall b s k srcs f,
  forallb (present s) srcs = true ->
  let s' := fst (step b s (OCat k srcs f)) in
  snd (step b s (OCat k srcs f)) = RVer f
  /\ s' k = Some (f, flat_map (blob_or_empty s) srcs)
  /\ (forall k', k' <> k -> s' k' = s k')
  /\ snd (step b s' (OGet k 0 0)) = RBytes (concat_blobs s srcs) (N.of_nat (length (concat_blobs s srcs))) f.
Proof. exact concat_spec. Qed.
Print Assumptions C42_concat_spec.

Theorem C42_concat_missing_source_local :
  forall s k srcs f,
  forallb (present s) srcs = false -> step Local s (OCat k srcs f) = (s, RErr).
Proof. exact concat_missing_source_local. Qed.
Print Assumptions C42_concat_missing_source_local.

Theorem C42_concat_missing_source_is_error_refuted :
  exists s k srcs f, forallb (present s) srcs = false
    /\ step InMem s (OCat k srcs f) <> (s, RErr)
    /\ snd (step InMem s (OCat k srcs f)) = RVer f
    /\ fst (step InMem s (OCat k srcs f)) k = Some (f, []).
Proof. exact concat_missing_source_is_error_refuted. Qed.
Print Assumptions C42_concat_missing_source_is_error_refuted.

Theorem C42_oracle_on_model :
  forall i : input,
  match i with
  | IBlob b sch => fresh_trace [] (sched_trace b empty_store sch) = true
  | INbs n _ ops => forallb (fun io => Nat.ltb (fst io) n) ops = true
  | IGit sch => ver_content_ok (written_pairs (git_trace empty_store (map snd sch))) = true
  | IStress _ _ => True
  end ->
  oracle i (model_obs i) = true.
Proof. exact oracle_on_model. Qed.
Print Assumptions C42_oracle_on_model.

Theorem C42_range_spec_git :
  forall val ver off len,
  (0 <= len)%Z -> in_range (zlen val) off = true ->
  git_get val ver off len = RBytes (spec_slice val off len) (N.of_nat (length val)) ver.
Proof. exact range_spec_git. Qed.
Print Assumptions C42_range_spec_git.

Theorem C42_range_out_of_range_git :
  forall val ver off len,
  (0 <= len)%Z -> in_range (zlen val) off = false -> git_get val ver off len = RErr.
Proof. exact range_out_of_range_git. Qed.
Print Assumptions C42_range_out_of_range_git.

Theorem C42_git_cap_retry_is_cas :
  forall (foreign : list (list op)) first s e d f,
  let r := git_cap_loop true first s e f foreign in
  step Local (fst r) (OCap e d f) = (git_cap_result d f r, snd r).
Proof. exact git_cap_retry_is_cas. Qed.
Print Assumptions C42_git_cap_retry_is_cas.

Theorem C42_git_cap_success_only_if_expected_at_push :
  forall foreign first s e f sp f',
  git_cap_loop true first s e f foreign = (sp, RVer f') -> e = cur_ver sp manifest_key.
Proof. exact git_cap_success_only_if_expected_at_push. Qed.
Print Assumptions C42_git_cap_success_only_if_expected_at_push.

Theorem C42_git_cap_validate_once_refuted :
  exists s e f (foreign : list (list op)),
    let r := git_cap_loop false true s e f foreign in
    snd r = RVer f /\ e <> cur_ver (fst r) manifest_key.
Proof. exact git_cap_validate_once_refuted. Qed.
Print Assumptions C42_git_cap_validate_once_refuted.

Theorem C42_get_pair_is_a_state :
  forall b s v val,
  s manifest_key = Some (v, val) ->
  snd (step b s (OGet manifest_key 0 0)) = RBytes val (N.of_nat (length val)) v.
Proof. exact get_pair_is_a_state. Qed.
Print Assumptions C42_get_pair_is_a_state.

Theorem C42_manifest_pair_was_written :
  forall b ops s,
  (forall o srcs f, In o ops -> o <> OCat manifest_key srcs f) ->
  final b s ops manifest_key = s manifest_key
  \/ exists f d, In (f, d) (written_pairs (trace b s ops)) /\ final b s ops manifest_key = Some (f, d).
Proof. exact manifest_pair_was_written. Qed.
Print Assumptions C42_manifest_pair_was_written.

Theorem C42_read_then_cap_is_atomic :
  forall b s1 (sigma : schedule) d f,
  let ver := cur_ver s1 manifest_key in
  versions_distinct s1 (trace b s1 (map snd sigma ++ [OCap ver d f])) ->
  snd (step b (final b s1 (map snd sigma)) (OCap ver d f)) = RVer f ->
  man_writes (sched_trace b s1 sigma) = []
  /\ final b s1 (map snd sigma) manifest_key = s1 manifest_key.
Proof. exact read_then_cap_is_atomic. Qed.
Print Assumptions C42_read_then_cap_is_atomic.

Theorem C42_read_then_cap_is_atomic_without_versions_distinct_refuted :
  exists b s1 (sigma : schedule) d f,
    snd (step b (final b s1 (map snd sigma)) (OCap (cur_ver s1 manifest_key) d f)) = RVer f
    /\ final b s1 (map snd sigma) manifest_key <> s1 manifest_key.
Proof. exact read_then_cap_is_atomic_without_versions_distinct_refuted. Qed.
Print Assumptions C42_read_then_cap_is_atomic_without_versions_distinct_refuted.

Theorem C42_bs_update_refines_local :
  forall b d s last new fresh,
  local_rd d = bs_rd s ->
  local_rd (fst (local_upd d last new fresh)) = bs_rd (fst (bs_upd b s last new fresh))
  /\ snd (local_upd d last new fresh) = snd (bs_upd b s last new fresh).
Proof. exact bs_update_refines_local. Qed.
Print Assumptions C42_bs_update_refines_local.

Theorem C42_bs_store_same_semantics :
  forall b n (sch : list (nat * nop)), nrun_bs b n sch = nrun_local n sch.
Proof. exact bs_store_same_semantics. Qed.
Print Assumptions C42_bs_store_same_semantics.

Theorem C42_constants_pinned :
  c42_manifest_key = [109; 97; 110; 105; 102; 101; 115; 116]%N /\ c42_compose_batch = 32%N.
Proof. exact (conj manifest_key_pinned compose_batch_pinned). Qed.
Print Assumptions C42_constants_pinned.
