(* C38 — Branch permissions follow the rule table's documented matching.  Property theorems only. *)
From Coq Require Import NArith ZArith List Bool Permutation.
From Dolt Require Import Base.Str C38.Model C38.Spec C38.Corr C38.Proofs.
Import ListNotations.
Local Open Scope Z_scope.

Theorem C38_fold_preserves_like :
  forall so p s, like (parse so false (fold p)) s = like (parse so false p) s.
Proof. exact fold_sem. Qed.
Print Assumptions C38_fold_preserves_like.

Theorem C38_fold_pass_preserves_like :
  forall so s x, like (parse so false (fold_pass FN s)) x = like (parse so false s) x.
Proof. exact fold_pass_sem. Qed.
Print Assumptions C38_fold_pass_preserves_like.

Theorem C38_matcher_is_like_on_folded :
  forall p s, normal p = true -> Forall (fun x => 0 <= x) s -> nfa_accepts p s = like p s.
Proof. exact nfa_eq_like. Qed.
Print Assumptions C38_matcher_is_like_on_folded.

Theorem C38_match_nonempty_subject_is_like :
  forall ph p s, normal p = true -> Forall (fun x => 0 <= x) s -> s <> [] -> match1 ph p s = like p s.
Proof. exact match1_nonempty_is_like. Qed.
Print Assumptions C38_match_nonempty_subject_is_like.

Theorem C38_match_empty_subject_refuted :
  exists ph p, 0 <= ph /\ normal p = true /\ match1 ph p [] = true /\ like p [] = false.
Proof. exact match1_empty_refuted. Qed.
Print Assumptions C38_match_empty_subject_refuted.

Theorem C38_longest_loop_is_max_and_union :
  forall rs, longest_loop rs = (perms_at (top_len rs) rs, top_len rs).
Proof. exact longest_loop_spec. Qed.
Print Assumptions C38_longest_loop_is_max_and_union.

Theorem C38_decision_independent_of_rule_order_partial :
  forall t rules rules' q, Permutation rules rules' -> access_match t rules q = access_match t rules' q.
Proof. exact access_match_perm_invariant_partial. Qed.
Print Assumptions C38_decision_independent_of_rule_order_partial.

Theorem C38_access_request_parsed_refuted :
  exists t r q, norm_rule t r = r /\ spec_access t [r] q = (true, 14%N) /\ access_match t [r] q = (false, 0%N).
Proof. exact access_request_parsed_refuted. Qed.
Print Assumptions C38_access_request_parsed_refuted.
