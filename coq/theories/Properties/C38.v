(* C38 — Branch permissions follow the rule table's documented matching.  Property theorems only. *)
From Coq Require Import NArith ZArith List Bool Permutation.
From Dolt Require Import Base.Str C38.Model C38.Spec C38.Corr C38.Proofs C38.ProofsTrie C38.ProofsMore.
Import ListNotations.
Local Open Scope Z_scope.

Theorem C38_fold_preserves_like :
  forall so p s, like (parse so false (fold p)) s = like (parse so false p) s.
Proof. exact fold_sem. Qed.
Print Assumptions C38_fold_preserves_like.

Theorem C38_fold_pass_preserves_like :
  forall so s x, like (parse so false (fold_pass FN s)) x = like (parse so false s) x.
Proof. exact fold_pass_sem. Qed.
Print Assumptions C38_fold_pass_preserves_like.

Theorem C38_matcher_is_like_on_folded :
  forall p s, normal p = true -> Forall (fun x => 0 <= x) s -> nfa_accepts p s = like p s.
Proof. exact nfa_eq_like. Qed.
Print Assumptions C38_matcher_is_like_on_folded.

Theorem C38_match_nonempty_subject_is_like :
  forall ph p s, normal p = true -> Forall (fun x => 0 <= x) s -> s <> [] -> match1 ph p s = like p s.
Proof. exact match1_nonempty_is_like. Qed.
Print Assumptions C38_match_nonempty_subject_is_like.

Theorem C38_match_empty_subject_refuted :
  exists ph p, 0 <= ph /\ normal p = true /\ match1 ph p [] = true /\ like p [] = false.
Proof. exact match1_empty_refuted. Qed.
Print Assumptions C38_match_empty_subject_refuted.

Theorem C38_longest_loop_is_max_and_union :
  forall rs, longest_loop rs = (perms_at (top_len rs) rs, top_len rs).
Proof. exact longest_loop_spec. Qed.
Print Assumptions C38_longest_loop_is_max_and_union.

Theorem C38_decision_independent_of_rule_order_partial :
  forall t rules rules' q, Permutation rules rules' -> access_match t rules q = access_match t rules' q.
Proof. exact access_match_perm_invariant_partial. Qed.
Print Assumptions C38_decision_independent_of_rule_order_partial.

Theorem C38_access_request_parsed_refuted :
  exists t r q, norm_rule t r = r /\ spec_access t [r] q = (true, 14%N) /\ access_match t [r] q = (false, 0%N).
Proof. exact access_request_parsed_refuted. Qed.
Print Assumptions C38_access_request_parsed_refuted.

(* ---- the MatchNode trie ---- *)
Theorem C38_trie_add_is_map_update :
  forall n toks dat t', tlookup (add_node n toks dat) t' = if list_eq_dec Z.eq_dec t' toks then Some dat else tlookup n t'.
Proof. exact add_node_lookup. Qed.
Print Assumptions C38_trie_add_is_map_update.

Theorem C38_trie_remove_is_map_delete :
  forall n, wf n -> forall toks, rem_ok n toks.
Proof. exact rem_node_ok. Qed.
Print Assumptions C38_trie_remove_is_map_delete.

Theorem C38_trie_denotes_history :
  forall ops tr, wf tr ->
    wf (tr_apply ops tr) /\ forall t', tlookup (tr_apply ops tr) t' = hist_from ops (tlookup tr t') t'.
Proof. exact trie_denotes_history. Qed.
Print Assumptions C38_trie_denotes_history.

Theorem C38_trie_order_independent :
  forall ops1 ops2, (forall t', hist_from ops1 None t' = hist_from ops2 None t') ->
    forall t', tlookup (tr_apply ops1 root0) t' = tlookup (tr_apply ops2 root0) t'.
Proof. exact trie_order_independent. Qed.
Print Assumptions C38_trie_order_independent.

Theorem C38_trie_eq_rules_partial :
  forall ops inp p L,
    (In (p, L) (trie_match (tr_apply ops root0) inp) ->
     exists toks, hist_from ops None toks = Some p /\ In L (tresults (trun [(toks, 0%N)] inp)))
    /\ (forall toks, hist_from ops None toks = Some p -> In ([], L) (trun [(toks, 0%N)] inp) ->
        In (p, L) (trie_match (tr_apply ops root0) inp)).
Proof. exact trie_eq_rules_partial. Qed.
Print Assumptions C38_trie_eq_rules_partial.

Theorem C38_trie_trailing_any_refuted :
  exists ops inp toks p L,
    hist_from ops None toks = Some p /\ In L (tresults (trun [(toks, 0%N)] inp))
    /\ ~ In (p, L) (trie_match (tr_apply ops root0) inp).
Proof. exact trie_trailing_any_refuted. Qed.
Print Assumptions C38_trie_trailing_any_refuted.

Theorem C38_trie_decision_eq_rules_partial :
  forall t ops q (rs : list (list Z * N)),
    (forall toks p, In (toks, p) rs <-> hist_from ops None toks = Some p) ->
    (forall toks p n, In (toks, p) rs -> ~ In ([t_any], n) (trun [(toks, 0%N)] (req_toks t q))) ->
    trie_access_match t (tr_apply ops root0) q = decision (flat_results rs (req_toks t q)).
Proof. exact trie_decision_eq_rules_partial. Qed.
Print Assumptions C38_trie_decision_eq_rules_partial.

Theorem C38_trie_decision_order_independent_partial :
  forall t ops1 ops2 q (rs : list (list Z * N)),
    (forall toks p, In (toks, p) rs <-> hist_from ops1 None toks = Some p) ->
    (forall toks, hist_from ops1 None toks = hist_from ops2 None toks) ->
    (forall toks p n, In (toks, p) rs -> ~ In ([t_any], n) (trun [(toks, 0%N)] (req_toks t q))) ->
    trie_access_match t (tr_apply ops1 root0) q = trie_access_match t (tr_apply ops2 root0) q.
Proof. exact trie_decision_order_independent_partial. Qed.
Print Assumptions C38_trie_decision_order_independent_partial.

(* ---- folding normal form, namespace ---- *)
Theorem C38_fold_fixpoint_normal :
  forall so, (forall c, 0 <= so c) -> forall s, fold_pass FN s = s -> normal (parse so false s) = true.
Proof. exact fold_fixpoint_normal. Qed.
Print Assumptions C38_fold_fixpoint_normal.

Theorem C38_fold_normal_partial :
  forall so, (forall c, 0 <= so c) -> forall p, fold_pass FN (fold p) = fold p -> normal (parse so false (fold p)) = true.
Proof. exact fold_normal_partial. Qed.
Print Assumptions C38_fold_normal_partial.

Theorem C38_namespace_spec :
  forall t, (forall c, 0 <= so_ci t c) -> (forall c, 0 <= so_bin t c) ->
  forall rules q, Forall (rule_normal t) rules ->
    q_d q <> [] -> q_b q <> [] -> q_u q <> [] -> q_h q <> [] ->
    can_create t rules q = spec_can_create t rules q.
Proof. exact namespace_spec. Qed.
Print Assumptions C38_namespace_spec.
