(* C07 — Committed state never contains dangling references.  Property theorems only. *)
From Coq Require Import NArith List Bool.
From Dolt Require Import Base.Str C07.Model C07.Spec C07.Corr C07.Proofs.
Import ListNotations.
Local Open Scope N_scope.

Theorem C07_closed_preserved :
  forall (cap : N) (es : list event), no_add_tables es -> persisted_ok (run (init cap) es).
Proof. exact closed_preserved. Qed.
Print Assumptions C07_closed_preserved.

Theorem C07_root_reachable_present :
  forall (cap : N) (es : list event) (b : addr),
    no_add_tables es ->
    let st := run (init cap) es in
    m_root st <> 0 -> reachable (m_chunks st) (m_root st) b -> Has (m_chunks st) b.
Proof. exact root_reachable_present. Qed.
Print Assumptions C07_root_reachable_present.

Theorem C07_rejected_commit_noop :
  forall (s : state) (current last : addr),
    snd (step s (ECommit current last)) <> ROk ->
    persisted (fst (step s (ECommit current last))) = persisted s.
Proof. exact rejected_commit_noop. Qed.
Print Assumptions C07_rejected_commit_noop.

Theorem C07_rejected_put_noop :
  forall (s : state) (c : chunk), persisted (fst (step s (EPut c))) = persisted s.
Proof. exact rejected_put_noop. Qed.
Print Assumptions C07_rejected_put_noop.

Theorem C07_cache_sound :
  forall (cap : N) (es : list event) (a : addr),
    no_add_tables es ->
    let st := run (init cap) es in
    In a (h_cache st) -> Has (h_novel st ++ h_up st) a.
Proof. exact cache_sound. Qed.
Print Assumptions C07_cache_sound.

Theorem C07_closed_preserved_with_table_files_refuted :
  exists (cap : N) (es : list event),
    let st := run (init cap) es in
    m_root st <> 0
    /\ exists b, reachable (m_chunks st) (m_root st) b /\ ~ Has (m_chunks st) b.
Proof. exact closed_preserved_with_table_files_refuted. Qed.
Print Assumptions C07_closed_preserved_with_table_files_refuted.

Theorem C07_oracle_model_obs :
  forall i : input, no_add_tables_b (i_events i) = true -> oracle i (model_obs i) = true.
Proof. exact oracle_model_obs. Qed.
Print Assumptions C07_oracle_model_obs.

Theorem C07_closed_preserved_table_files_memtable_child_refuted :
  exists (cap : N) (es : list event),
    let st := run (init cap) es in
    m_root (run (init cap) (firstn 2 es)) <> 0
    /\ m_root st <> 0
    /\ exists b, reachable (m_chunks st) (m_root st) b /\ ~ Has (m_chunks st) b.
Proof. exact closed_preserved_table_files_memtable_child_refuted. Qed.
Print Assumptions C07_closed_preserved_table_files_memtable_child_refuted.
