(* C15 — Tuple encodings round-trip and sort like the SQL values they encode.  Property theorems only. *)
From Coq Require Import NArith ZArith List Bool.
From Dolt Require Import Base.Str Gen.C15Consts C15.Model C15.Spec C15.Corr C15.Proofs.
Import ListNotations.
Local Open Scope N_scope.

Theorem C15_dec_enc :
  forall (read : bytes -> bytes) (e : enc) (v : sval),
    wf_val e v = true -> decode read e (encode e v) = v.
Proof. exact dec_enc. Qed.
Print Assumptions C15_dec_enc.

Theorem C15_cmp_enc :
  forall (read : bytes -> bytes) (e : enc) (a b : sval),
    wf_val e a = true -> wf_val e b = true ->
    cmp_field read e (encode e a) (encode e b) = val_compare e a b.
Proof. exact cmp_enc. Qed.
Print Assumptions C15_cmp_enc.

Theorem C15_tuple_roundtrip :
  forall (values : list field) (i : nat),
    fields_ok values -> get_field (new_tuple values) (N.of_nat i) = nth i values None.
Proof. exact tuple_roundtrip. Qed.
Print Assumptions C15_tuple_roundtrip.

Theorem C15_tuple_count :
  forall values : list field,
    fields_ok values -> tcount (new_tuple values) = N.of_nat (length (trim_nulls values)).
Proof. exact tuple_count. Qed.
Print Assumptions C15_tuple_count.

Theorem C15_new_tuple_canonical :
  forall a b : list field, trim_nulls a = trim_nulls b -> new_tuple a = new_tuple b.
Proof. exact new_tuple_canonical. Qed.
Print Assumptions C15_new_tuple_canonical.

Theorem C15_new_tuple_drops_trailing_nulls :
  forall (vs : list field) (n : nat), new_tuple (vs ++ repeat None n) = new_tuple vs.
Proof. exact new_tuple_drops_trailing_nulls. Qed.
Print Assumptions C15_new_tuple_drops_trailing_nulls.

Theorem C15_new_tuple_injective :
  forall a b : list field,
    fields_ok a -> fields_ok b -> new_tuple a = new_tuple b -> trim_nulls a = trim_nulls b.
Proof. exact new_tuple_injective. Qed.
Print Assumptions C15_new_tuple_injective.

Theorem C15_tuple_compare_spec :
  forall (read : bytes -> bytes) (types : list enc) (a b : row),
    wf_row types a = true -> wf_row types b = true ->
    within_limits (trim_nulls (enc_row types a)) = true ->
    within_limits (trim_nulls (enc_row types b)) = true ->
    tuple_compare read types (new_tuple (enc_row types a)) (new_tuple (enc_row types b)) = row_compare types a b.
Proof. exact tuple_compare_spec. Qed.
Print Assumptions C15_tuple_compare_spec.

Theorem C15_build_plain_is_new_tuple :
  forall (target : N) (cs : list bcell),
    forallb plain_cell cs = true -> build target cs = new_tuple (map (held target) cs).
Proof. exact build_plain_is_new_tuple. Qed.
Print Assumptions C15_build_plain_is_new_tuple.

(* Full statement "forall target cs1 cs2, map cell_value cs1 = map cell_value cs2 ->
   build target cs1 = build target cs2" is false of the builder as written (F9): *)
Theorem C15_build_repr_independent_refuted :
  exists target cs1 cs2,
    map cell_value cs1 = map cell_value cs2 /\ build target cs1 <> build target cs2.
Proof. exact build_repr_independent_refuted. Qed.
Print Assumptions C15_build_repr_independent_refuted.

(* what holds instead: above the length target the supplied form does not matter *)
Theorem C15_build_repr_independent_partial :
  forall (target : N) (cs1 cs2 : list bcell),
    map forget_form cs1 = map forget_form cs2 ->
    target < sum_N (map inline_contrib cs1) ->
    build target cs1 = build target cs2.
Proof. exact build_repr_independent_partial. Qed.
Print Assumptions C15_build_repr_independent_partial.

Theorem C15_constants_pinned :
  c_int8_size = 1 /\ c_int16_size = 2 /\ c_int32_size = 4 /\ c_int64_size = 8
  /\ c_float32_size = 4 /\ c_float64_size = 8 /\ c_bit64_size = 8 /\ c_hash128_size = 16
  /\ c_year_size = 1 /\ c_date_size = 4 /\ c_time_size = 8 /\ c_datetime_size = 8
  /\ c_enum_size = 2 /\ c_set_size = 8 /\ c_cell_size = 17 /\ c_hash_byte_len = 20
  /\ c_min_year = min_year /\ c_max_year = max_year /\ c_zero_token = zero_token
  /\ c_year_shift = 16 /\ c_month_shift = 8 /\ c_month_mask = N.shiftl 255 8 /\ c_day_mask = 255
  /\ c_max_tuple_fields = max_tuple_fields /\ c_count_size = 2
  /\ max_tuple_data_size = 65535 - c_count_size - c_hash_byte_len - c_int64_size - c_int8_size.
Proof. exact consts_pinned. Qed.
Print Assumptions C15_constants_pinned.

(* the executable statement of the property holds of the model on every
   well-formed input outside the class of the known finding F9 (f9_free) *)
Theorem C15_oracle_on_model :
  forall i : input, wf_input i = true -> f9_free i = true -> oracle i (model_obs i) = true.
Proof. exact oracle_on_model. Qed.
Print Assumptions C15_oracle_on_model.

(* floats: for bit patterns that are not NaNs the comparison the code makes is
   the order of the numeric values (float_value = value scaled to an integer) *)
Theorem C15_float_compare_value :
  forall fbits ebits a b : N,
    float_is_nan fbits ebits a = false -> float_is_nan fbits ebits b = false ->
    float_compare fbits ebits a b = (float_value fbits ebits a ?= float_value fbits ebits b)%Z.
Proof. exact float_compare_value. Qed.
Print Assumptions C15_float_compare_value.

Theorem C15_cmp_enc_float32 :
  forall (read : bytes -> bytes) (a b : N),
    a < 2 ^ 32 -> b < 2 ^ 32 -> float_is_nan 32 8 a = false -> float_is_nan 32 8 b = false ->
    cmp_field read EFloat32 (encode EFloat32 (VN a)) (encode EFloat32 (VN b)) = (float_value 32 8 a ?= float_value 32 8 b)%Z.
Proof. exact cmp_enc_float32. Qed.
Print Assumptions C15_cmp_enc_float32.

Theorem C15_cmp_enc_float64 :
  forall (read : bytes -> bytes) (a b : N),
    a < 2 ^ 64 -> b < 2 ^ 64 -> float_is_nan 64 11 a = false -> float_is_nan 64 11 b = false ->
    cmp_field read EFloat64 (encode EFloat64 (VN a)) (encode EFloat64 (VN b)) = (float_value 64 11 a ?= float_value 64 11 b)%Z.
Proof. exact cmp_enc_float64. Qed.
Print Assumptions C15_cmp_enc_float64.

(* NaN as implemented: the answer is 1 whichever side is the NaN — not an order
   (full statement "compare is a total preorder on all bit patterns" is false for NaN) *)
Theorem C15_float_compare_nan :
  forall fbits ebits a b : N,
    float_is_nan fbits ebits a || float_is_nan fbits ebits b = true -> float_compare fbits ebits a b = Gt.
Proof. exact float_compare_nan. Qed.
Print Assumptions C15_float_compare_nan.

(* decimals: the comparison is that of the exact values c * 10^e, whatever
   common power of ten both sides are scaled by *)
Theorem C15_decimal_compare_scale_invariant :
  forall na ca ea nb cb eb m',
    (m' <= Z.min ea eb)%Z ->
    (dec_scaled na ca ea m' ?= dec_scaled nb cb eb m')%Z = decimal_compare (DFin na ca ea) (DFin nb cb eb).
Proof. exact decimal_compare_scale_invariant. Qed.
Print Assumptions C15_decimal_compare_scale_invariant.

Theorem C15_vi_roundtrip :
  forall (n : N) (rest : bytes), n < 2 ^ 64 -> vi_dec (vi_enc n ++ rest) = (n, len (vi_enc n)).
Proof. exact vi_roundtrip. Qed.
Print Assumptions C15_vi_roundtrip.

(* builder histories: a reused TupleBuilder behaves as a fresh one (all cells, all operations) *)
Theorem C15_builder_reuse_is_fresh :
  forall (target : N) (n : nat) (ops1 : list bop) (r : bop) (ops2 : list bop),
    is_reset r = true ->
    bs_run target n (bs_init n) (ops1 ++ r :: ops2)
    = bs_run target n (bs_init n) (ops1 ++ [r]) ++ bs_run target n (bs_init n) ops2.
Proof. exact builder_reuse_is_fresh. Qed.
Print Assumptions C15_builder_reuse_is_fresh.

(* every tuple produced along any history of plain values is NewTuple of exactly
   the fields put since the last Build / BuildPrefix / Recycle.  Full statement
   (also adaptive values) needs "no column put twice between resets" because
   tb.inlineSize also counts overwritten puts: not proved. *)
Theorem C15_builder_history_canonical_partial :
  forall (target : N) (n : nat) (ops : list bop),
    forallb plain_op ops = true ->
    bs_run target n (bs_init n) ops = spec_outputs target n [] ops.
Proof. exact builder_history_canonical. Qed.
Print Assumptions C15_builder_history_canonical_partial.
