(* C11 — Prolly maps behave as sorted dictionaries.  Property theorems only. *)
From Coq Require Import NArith List Bool.
From Dolt Require Import Prolly.Tree Prolly.Cursor C11.Model C11.Spec C11.Corr C11.Proofs C11.CorrProofs.
Import ListNotations.
Local Open Scope N_scope.

Theorem C11_search_spec :
  forall p ks, mono p -> ksorted ks -> search p ks = nfalse p ks.
Proof. exact search_spec. Qed.
Print Assumptions C11_search_spec.

Theorem C11_get_spec : forall q t, wf_root t -> get q t = d_get q (flatten t).
Proof. exact get_spec. Qed.
Print Assumptions C11_get_spec.

Theorem C11_has_spec : forall q t, wf_root t -> has q t = d_has q (flatten t).
Proof. exact has_spec. Qed.
Print Assumptions C11_has_spec.

Theorem C11_get_prefix_spec :
  forall pre a t, pre_monotone pre -> wf_root t -> get_prefix pre a t = d_get_prefix pre a (flatten t).
Proof. exact get_prefix_spec. Qed.
Print Assumptions C11_get_prefix_spec.

Theorem C11_has_prefix_spec :
  forall pre a t, pre_monotone pre -> wf_root t -> has_prefix pre a t = d_has_prefix pre a (flatten t).
Proof. exact has_prefix_spec. Qed.
Print Assumptions C11_has_prefix_spec.

Theorem C11_iter_all_spec : forall t, wf_root t -> iter_all t = flatten t.
Proof. exact iter_all_spec. Qed.
Print Assumptions C11_iter_all_spec.

Theorem C11_iter_all_reverse_spec : forall t, iter_all_reverse t = rev (flatten t).
Proof. exact iter_all_reverse_spec. Qed.
Print Assumptions C11_iter_all_reverse_spec.

Theorem C11_iter_key_range_spec :
  forall lo hi t, wf_root t -> start_past_end_open_stop lo hi t = false ->
    iter_key_range lo hi t = Some (d_range lo hi (flatten t)).
Proof. exact iter_key_range_spec. Qed.
Print Assumptions C11_iter_key_range_spec.

Theorem C11_iter_window_spec :
  forall lo hi t, wf_root t -> iter_window lo hi t = d_range lo hi (flatten t).
Proof. exact iter_window_spec. Qed.
Print Assumptions C11_iter_window_spec.

Theorem C11_key_range_cardinality_spec :
  forall lo hi t, wf_root t -> key_range_cardinality lo hi t = d_cardinality lo hi (flatten t).
Proof. exact key_range_cardinality_spec. Qed.
Print Assumptions C11_key_range_cardinality_spec.

Theorem C11_ordinal_for_key_spec :
  forall q t, wf_root t -> ordinal_for_key q t = d_ordinal q (flatten t).
Proof. exact ordinal_for_key_spec. Qed.
Print Assumptions C11_ordinal_for_key_spec.

Theorem C11_iter_ordinal_range_spec :
  forall a b t, wf_root t -> iter_ordinal_range a b t = d_ordinal_range a b (flatten t).
Proof. exact iter_ordinal_range_spec. Qed.
Print Assumptions C11_iter_ordinal_range_spec.

Theorem C11_count_spec : forall t, wf_root t -> count_of t = d_count (flatten t).
Proof. exact count_spec. Qed.
Print Assumptions C11_count_spec.

Theorem C11_last_key_spec : forall t, wf_root t -> last_key t = d_last (flatten t).
Proof. exact last_key_spec. Qed.
Print Assumptions C11_last_key_spec.

(* refuted parts of the full statement; every witness reproduces on the real code *)
Theorem C11_iter_key_range_open_stop_refuted :
  exists t lo, wf t /\ iter_key_range (Some lo) None t <> Some (d_range (Some lo) None (flatten t)).
Proof. exact iter_key_range_open_stop_refuted. Qed.
Print Assumptions C11_iter_key_range_open_stop_refuted.

Theorem C11_iter_key_range_refuted :
  exists t ops, wf_root t /\
    m_iter_key_range None None (run_m rb_leaf t 1000 ops) <> Some (d_range None None (dict_after t ops)).
Proof. exact iter_key_range_refuted. Qed.
Print Assumptions C11_iter_key_range_refuted.

Theorem C11_get_prefix_refuted :
  exists t ops a, wf_root t /\
    m_has_prefix (fun k => k / 16) a (run_m rb_leaf t 1000 ops) <> d_has_prefix (fun k => k / 16) a (dict_after t ops).
Proof. exact get_prefix_refuted. Qed.
Print Assumptions C11_get_prefix_refuted.

Theorem C11_revert_empty_checkpoint_refuted :
  exists t maxp ops, wf_root t /\ m_iter_all (run_m rb_leaf t maxp ops) <> dict_after t ops.
Proof. exact revert_empty_checkpoint_refuted. Qed.
Print Assumptions C11_revert_empty_checkpoint_refuted.

Theorem C11_second_revert_refuted :
  exists t maxp ops, wf_root t /\ m_iter_all (run_m rb_leaf t maxp ops) <> dict_after t ops.
Proof. exact second_revert_refuted. Qed.
Print Assumptions C11_second_revert_refuted.

(* partial refinement of the mutable map: Put / Delete / Checkpoint below the flush threshold, point reads *)
Theorem C11_mutable_get_refines_partial :
  forall (rb : list kv -> node) t maxp, wf_root t ->
  forall ops, forallb pdc ops = true -> (length ops <= maxp)%nat ->
  forall q, m_get q (run_m rb t maxp ops) = d_get q (dict_after t ops)
            /\ m_has q (run_m rb t maxp ops) = d_has q (dict_after t ops).
Proof. exact mutable_get_refines_partial. Qed.
Print Assumptions C11_mutable_get_refines_partial.

(* THE REFINEMENT of the mutable map: every Put / Delete / Checkpoint / Revert / flush
   sequence satisfying the decidable side condition hist_ok (no Revert across a flush),
   every rebuild function, every read.  The extra hypotheses on the prefix reads and on
   IterKeyRange are the negations of the refuted configurations. *)
Theorem C11_mutable_refines :
  forall rb : list kv -> node, rb_ok rb ->
  forall t maxp ops, wf_root t -> hist_ok rb (mutate t maxp) false ops = true ->
    let m := run_m rb t maxp ops in
    let d := dict_after t ops in
    (forall q, m_get q m = d_get q d /\ m_has q m = d_has q d)
    /\ m_iter_all m = d
    /\ (forall lo hi, m_iter_range lo hi m = d_range lo hi d)
    /\ (wf_root (materialize rb m) /\ flatten (materialize rb m) = d)
    /\ (forall pre a, pre_monotone pre -> no_pending_with (fun k => pre k =? a) m ->
          m_get_prefix pre a m = d_get_prefix pre a d /\ m_has_prefix pre a m = d_has_prefix pre a d)
    /\ (forall lo hi, e_view (m_edits m) = [] -> start_past_end_open_stop lo hi (m_static m) = false ->
          m_iter_key_range lo hi m = Some (d_range lo hi d)).
Proof. exact mutable_refines. Qed.
Print Assumptions C11_mutable_refines.

(* the oracle holds on the model, for every static-map case *)
Theorem C11_static_oracle_holds :
  forall i, i_ops i = [] -> i_w i <> 0 -> wf_root (i_tree i) -> flatten (i_tree i) = i_init i ->
    (forall r, In r (p_rng (i_probes i)) -> start_past_end_open_stop (fst r) (snd r) (i_tree i) = false) ->
    oracle i (model_obs i) = true.
Proof. exact static_oracle_holds. Qed.
Print Assumptions C11_static_oracle_holds.
