(* C11 — Prolly maps behave as sorted dictionaries.  Property theorems only. *)
From Coq Require Import NArith List Bool.
From Dolt Require Import Prolly.Tree Prolly.Cursor C11.Model C11.Spec C11.Proofs.
Import ListNotations.
Local Open Scope N_scope.

Theorem C11_search_spec :
  forall p ks, mono p -> ksorted ks -> search p ks = nfalse p ks.
Proof. exact search_spec. Qed.
Print Assumptions C11_search_spec.

Theorem C11_get_spec : forall q t, wf_root t -> get q t = d_get q (flatten t).
Proof. exact get_spec. Qed.
Print Assumptions C11_get_spec.

Theorem C11_has_spec : forall q t, wf_root t -> has q t = d_has q (flatten t).
Proof. exact has_spec. Qed.
Print Assumptions C11_has_spec.

Theorem C11_get_prefix_spec :
  forall pre a t, pre_monotone pre -> wf_root t -> get_prefix pre a t = d_get_prefix pre a (flatten t).
Proof. exact get_prefix_spec. Qed.
Print Assumptions C11_get_prefix_spec.

Theorem C11_has_prefix_spec :
  forall pre a t, pre_monotone pre -> wf_root t -> has_prefix pre a t = d_has_prefix pre a (flatten t).
Proof. exact has_prefix_spec. Qed.
Print Assumptions C11_has_prefix_spec.

Theorem C11_iter_all_spec : forall t, wf_root t -> iter_all t = flatten t.
Proof. exact iter_all_spec. Qed.
Print Assumptions C11_iter_all_spec.

Theorem C11_iter_all_reverse_spec : forall t, iter_all_reverse t = rev (flatten t).
Proof. exact iter_all_reverse_spec. Qed.
Print Assumptions C11_iter_all_reverse_spec.

Theorem C11_iter_key_range_spec :
  forall lo hi t, wf_root t -> start_past_end_open_stop lo hi t = false ->
    iter_key_range lo hi t = Some (d_range lo hi (flatten t)).
Proof. exact iter_key_range_spec. Qed.
Print Assumptions C11_iter_key_range_spec.

Theorem C11_iter_window_spec :
  forall lo hi t, wf_root t -> iter_window lo hi t = d_range lo hi (flatten t).
Proof. exact iter_window_spec. Qed.
Print Assumptions C11_iter_window_spec.

Theorem C11_key_range_cardinality_spec :
  forall lo hi t, wf_root t -> key_range_cardinality lo hi t = d_cardinality lo hi (flatten t).
Proof. exact key_range_cardinality_spec. Qed.
Print Assumptions C11_key_range_cardinality_spec.

Theorem C11_ordinal_for_key_spec :
  forall q t, wf_root t -> ordinal_for_key q t = d_ordinal q (flatten t).
Proof. exact ordinal_for_key_spec. Qed.
Print Assumptions C11_ordinal_for_key_spec.

Theorem C11_iter_ordinal_range_spec :
  forall a b t, wf_root t -> iter_ordinal_range a b t = d_ordinal_range a b (flatten t).
Proof. exact iter_ordinal_range_spec. Qed.
Print Assumptions C11_iter_ordinal_range_spec.

Theorem C11_count_spec : forall t, wf_root t -> count_of t = d_count (flatten t).
Proof. exact count_spec. Qed.
Print Assumptions C11_count_spec.

Theorem C11_last_key_spec : forall t, wf_root t -> last_key t = d_last (flatten t).
Proof. exact last_key_spec. Qed.
Print Assumptions C11_last_key_spec.

(* refuted parts of the full statement; every witness reproduces on the real code *)
Theorem C11_iter_key_range_open_stop_refuted :
  exists t lo, wf t /\ iter_key_range (Some lo) None t <> Some (d_range (Some lo) None (flatten t)).
Proof. exact iter_key_range_open_stop_refuted. Qed.
Print Assumptions C11_iter_key_range_open_stop_refuted.

Theorem C11_iter_key_range_refuted :
  exists t ops, wf_root t /\
    m_iter_key_range None None (run_m rb_leaf t 1000 ops) <> Some (d_range None None (dict_after t ops)).
Proof. exact iter_key_range_refuted. Qed.
Print Assumptions C11_iter_key_range_refuted.

Theorem C11_get_prefix_refuted :
  exists t ops a, wf_root t /\
    m_has_prefix (fun k => k / 16) a (run_m rb_leaf t 1000 ops) <> d_has_prefix (fun k => k / 16) a (dict_after t ops).
Proof. exact get_prefix_refuted. Qed.
Print Assumptions C11_get_prefix_refuted.

Theorem C11_revert_empty_checkpoint_refuted :
  exists t maxp ops, wf_root t /\ m_iter_all (run_m rb_leaf t maxp ops) <> dict_after t ops.
Proof. exact revert_empty_checkpoint_refuted. Qed.
Print Assumptions C11_revert_empty_checkpoint_refuted.

Theorem C11_second_revert_refuted :
  exists t maxp ops, wf_root t /\ m_iter_all (run_m rb_leaf t maxp ops) <> dict_after t ops.
Proof. exact second_revert_refuted. Qed.
Print Assumptions C11_second_revert_refuted.

(* partial refinement of the mutable map: Put / Delete / Checkpoint below the flush threshold, point reads *)
Theorem C11_mutable_get_refines_partial :
  forall (rb : list kv -> node) t maxp, wf_root t ->
  forall ops, forallb pdc ops = true -> (length ops <= maxp)%nat ->
  forall q, m_get q (run_m rb t maxp ops) = d_get q (dict_after t ops)
            /\ m_has q (run_m rb t maxp ops) = d_has q (dict_after t ops).
Proof. exact mutable_get_refines_partial. Qed.
Print Assumptions C11_mutable_get_refines_partial.
