(* C20 — Ref updates are linearizable and never lose a concurrent update.  Property theorems only. *)
From Coq Require Import NArith List Bool.
From Dolt Require Import Base.Str C20.Model C20.Spec C20.Corr C20.Proofs.
Import ListNotations.
Local Open Scope N_scope.

Theorem C20_update_linearizable :
  forall (w : world) (m0 : refs) (progs : cid -> list op) (sched : list (cid * label)),
    let cfg := run w sched (init m0 progs) in
    let order := g_log cfg in
    g_refs cfg = fold_left (fun m co => fst (apply_op w m (snd co))) order m0
    /\ all_ok w m0 order
    /\ forall c o res, In (o, res) (c_done (g_clients cfg c)) -> consistent w m0 order c o res.
Proof. exact update_linearizable. Qed.
Print Assumptions C20_update_linearizable.

Theorem C20_no_lost_update :
  forall (w : world) (m0 : refs) (progs : cid -> list op) (sched : list (cid * label)),
    let cfg := run w sched (init m0 progs) in
    forall l1 c o l2 k,
      g_log cfg = l1 ++ (c, o) :: l2 ->
      get (g_refs cfg) k <> get (replay w m0 (l1 ++ [(c, o)])) k ->
      exists c' o', In (c', o') l2 /\ touches o' k = true.
Proof. exact no_lost_update. Qed.
Print Assumptions C20_no_lost_update.

Theorem C20_cond_update_respects_check :
  forall (w : world) (m0 : refs) (progs : cid -> list op) (sched : list (cid * label)),
    let cfg := run w sched (init m0 progs) in
    forall l1 c o l2,
      g_log cfg = l1 ++ (c, o) :: l2 ->
      cond_holds w (replay w m0 l1) o
      /\ replay w m0 (l1 ++ [(c, o)]) = effect (replay w m0 l1) o.
Proof. exact cond_update_respects_check. Qed.
Print Assumptions C20_cond_update_respects_check.

Theorem C20_ordinary_moves_forward :
  forall (w : world) (m0 : refs) (progs : cid -> list op) (sched : list (cid * label)),
    let cfg := run w sched (init m0 progs) in
    forall l1 c o l2 r new,
      g_log cfg = l1 ++ (c, o) :: l2 ->
      ordinary o = Some (r, new) ->
      let before := get (replay w m0 l1) r in
      (before <> 0 -> anc w before new)
      /\ get (replay w m0 (l1 ++ [(c, o)])) r = new.
Proof. exact ordinary_moves_forward. Qed.
Print Assumptions C20_ordinary_moves_forward.

Theorem C20_forced_are_writes :
  forall w m r new, apply_op w m (OSetHead r new) = (set m r new, ROk).
Proof. exact forced_are_writes. Qed.
Print Assumptions C20_forced_are_writes.

Theorem C20_cond_update_respects_check_nbs_lockhash_refuted :
  exists (w : world) (m0 : refs) (progs : cid -> list op) (sched : list (cid * label)),
    ~ all_ok w m0 (g_log (fold_left (step_lockhash w) sched (init m0 progs))).
Proof. exact cond_update_respects_check_nbs_lockhash_refuted. Qed.
Print Assumptions C20_cond_update_respects_check_nbs_lockhash_refuted.

Theorem C20_oracle_model_obs :
  forall i : C20.Corr.input, i_conc i = false -> C20.Corr.oracle i (C20.Corr.model_obs i) = true.
Proof. exact C20.Proofs.oracle_model_obs. Qed.
Print Assumptions C20_oracle_model_obs.
