(* C35 — Push, pull, fetch and clone transfer complete and consistent data.  Property theorems only. *)
From Coq Require Import NArith List Bool.
From Dolt Require Import C08.Model C08.Spec C35.Model C35.Spec C35.Corr C35.Proofs.
Import ListNotations.
Local Open Scope N_scope.

Theorem C35_pull_complete :
  forall u sink heads need, sink_closed u sink -> pull_need u sink heads = Some need ->
  forall x, reach u heads x -> has (need ++ sink) x = true.
Proof. exact pull_complete. Qed.
Print Assumptions C35_pull_complete.

Theorem C35_pull_complete_batches :
  forall u sink heads need batches, sink_closed u sink -> pull_need u sink heads = Some need ->
  incl need (concat batches) -> forall x, reach u heads x -> has (concat batches ++ sink) x = true.
Proof. exact pull_complete_batches. Qed.
Print Assumptions C35_pull_complete_batches.

Theorem C35_pull_need_minimal :
  forall u sink heads need, pull_need u sink heads = Some need ->
  forall x, In x need -> reach u heads x /\ has sink x = false.
Proof. exact pull_need_minimal. Qed.
Print Assumptions C35_pull_need_minimal.

Theorem C35_pruning_needs_closed_sink :
  let u := [(1, [2]); (2, [])] in
  pull_need u [1] [1] = Some [] /\ reach u [1] 2 /\ has ([] ++ [1]) 2 = false.
Proof. exact pruning_needs_closed_sink. Qed.
Print Assumptions C35_pruning_needs_closed_sink.

Theorem C35_pull_add_accepted :
  forall u sink heads need, sink_closed u sink -> pull_need u sink heads = Some need -> add_ok u sink need = true.
Proof. exact pull_add_accepted. Qed.
Print Assumptions C35_pull_add_accepted.

Theorem C35_ref_after_data :
  forall u ts d, sink_closed u (r_store d) -> refs_present d ->
  forall k, ref_backed u (transfer u d (firstn k ts)) /\ sink_closed u (r_store (transfer u d (firstn k ts))).
Proof. exact ref_after_data. Qed.
Print Assumptions C35_ref_after_data.

Theorem C35_push_complete :
  forall u d n new force, sink_closed u (r_store d) -> refs_present d ->
  let d' := push u d n new force in
  ref_backed u d' /\
  (get_ref (r_refs d') n = Some new -> forall x, reach u [new] x -> has (r_store d') x = true).
Proof. exact push_complete. Qed.
Print Assumptions C35_push_complete.

Theorem C35_push_cas :
  forall u d n old new1 new2 f1 f2,
  succeeded u d (TSetRef n old new1 f1) = true -> old <> Some new1 ->
  succeeded u (tstep_run u d (TSetRef n old new1 f1)) (TSetRef n old new2 f2) = false.
Proof. exact push_cas. Qed.
Print Assumptions C35_push_cas.

Theorem C35_ff_only_keeps_history :
  forall u d n old new o, succeeded u d (TSetRef n old new false) = true -> get_ref (r_refs d) n = Some o ->
  forall x, reach u [o] x -> reach u [new] x.
Proof. exact ff_only_keeps_history. Qed.
Print Assumptions C35_ff_only_keeps_history.

Theorem C35_data_complete_spec :
  forall u s a, data_complete u s a = true <-> (forall x, reach u [a] x -> has s x = true).
Proof. exact data_complete_spec. Qed.
Print Assumptions C35_data_complete_spec.

Theorem C35_oracle_on_model :
  forall i, model_complete i = true -> i_points i = [] -> oracle i (model_obs i) = true.
Proof. exact oracle_on_model. Qed.
Print Assumptions C35_oracle_on_model.

Theorem C35_point_ok_of_transfer :
  forall u ts d k, sink_closed u (r_store d) -> refs_present d ->
  let d' := transfer u d (firstn k ts) in
  point_ok u (r_store d', map snd (r_refs d')) = true.
Proof. exact point_ok_of_transfer. Qed.
Print Assumptions C35_point_ok_of_transfer.
