(* C35 — Push, pull, fetch and clone transfer complete and consistent data.  Property theorems only. *)
From Coq Require Import NArith List Bool.
From Dolt Require Import C08.Model C08.Spec C35.Model C35.Spec C35.Proofs.
Import ListNotations.
Local Open Scope N_scope.

Theorem C35_pull_complete :
  forall u sink heads need batches, missing u sink heads = Some need -> incl need (concat batches) ->
  forall x, reach u heads x -> has (concat batches ++ sink) x = true.
Proof. exact pull_complete. Qed.
Print Assumptions C35_pull_complete.

Theorem C35_ref_after_data :
  forall u ts d, ref_backed u d -> forall k, ref_backed u (transfer u d (firstn k ts)).
Proof. exact ref_after_data. Qed.
Print Assumptions C35_ref_after_data.

Theorem C35_push_cas :
  forall u d n old new1 new2 f1 f2,
  succeeded u d (TSetRef n old new1 f1) = true -> old <> Some new1 ->
  succeeded u (tstep_run u d (TSetRef n old new1 f1)) (TSetRef n old new2 f2) = false.
Proof. exact push_cas. Qed.
Print Assumptions C35_push_cas.

Theorem C35_ff_only_keeps_history :
  forall u d n old new o, succeeded u d (TSetRef n old new false) = true -> get_ref (r_refs d) n = Some o ->
  forall x, reach u [o] x -> reach u [new] x.
Proof. exact ff_only_keeps_history. Qed.
Print Assumptions C35_ff_only_keeps_history.
