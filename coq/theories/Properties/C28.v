(* C28 — Auto-increment values are never handed out twice.  Property theorems only. *)
From Coq Require Import NArith List Bool Sorted.
From Dolt Require Import C28.Model C28.Spec C28.Corr C28.Proofs.
Import ListNotations.
Local Open Scope N_scope.

Theorem C28_next_unique : forall (s : sched) cur, NoDup (gen_ids s cur).
Proof. exact next_unique. Qed.
Print Assumptions C28_next_unique.

Theorem C28_next_increasing : forall (s : sched) cur, StronglySorted N.lt (gen_ids s cur).
Proof. exact next_increasing. Qed.
Print Assumptions C28_next_increasing.

Theorem C28_explicit_advances :
  forall (s1 : sched) a b v (s2 : sched) cur g,
    In g (gen_ids s2 (final (s1 ++ [(a, b, OExplicit v)]) cur)) -> v < g.
Proof. exact explicit_advances. Qed.
Print Assumptions C28_explicit_advances.

Theorem C28_later_exceeds_earlier :
  forall (s1 s2 : sched) cur g1 g2,
    In g1 (gen_ids s1 cur) -> In g2 (gen_ids s2 (final s1 cur)) -> g1 < g2.
Proof. exact later_exceeds_earlier. Qed.
Print Assumptions C28_later_exceeds_earlier.

Theorem C28_oracle_accepts_model : forall i, oracle i (model_obs i) = true.
Proof. exact oracle_accepts_model. Qed.
Print Assumptions C28_oracle_accepts_model.

(* ---- the tracker inside a running server: tables, transactions, ALTER, restarts ---- *)
From Dolt Require Import C28.Server C28.ServerProofs.

Theorem C28_init_is_max_over_branches :
  forall branches tables autos s w t,
    let w' := snd (sstep branches tables autos s SRestart w) in
    cur w' t = N.max 1 (max_over (fun b => bval w b t) branches)
    /\ (forall b, In b branches -> bval w' b t <= cur w' t)
    /\ (cur w' t = 1 \/ exists b, In b branches /\ cur w' t = bval w b t).
Proof. exact init_is_max_over_branches. Qed.
Print Assumptions C28_init_is_max_over_branches.

Theorem C28_alter_lower_is_noop_or_clamped :
  forall branches tables autos s t n w,
    let w1 := commit_s s w in
    let b := sbr w1 s in
    let w' := snd (sstep branches tables autos s (SAlter t n) w) in
    (cur w1 t < n -> cur w' t = n) /\
    (n <= cur w1 t -> bmax w1 b t < n ->
       cur w' t = N.max n (max_over (fun b' => if b' =? b then 0 else bval w1 b' t) branches) /\ bval w' b t = n) /\
    (n <= cur w1 t -> n <= bmax w1 b t -> w' = w1) /\
    ((forall b', In b' branches -> bval w1 b' t <= cur w1 t) -> forall b', In b' branches -> bval w' b' t <= cur w' t).
Proof. exact alter_lower_is_noop_or_clamped. Qed.
Print Assumptions C28_alter_lower_is_noop_or_clamped.

Theorem C28_next_increasing_tables :
  forall branches tables autos t sc w,
    forallb (fun p => plain_op (snd p)) sc = true -> StronglySorted N.lt (gens branches tables autos t sc w).
Proof. exact next_increasing_tables. Qed.
Print Assumptions C28_next_increasing_tables.

Theorem C28_tables_independent :
  forall branches tables autos s t t' w,
    t <> t' -> cur (snd (sstep branches tables autos s (SGen t) w)) t' = cur w t'.
Proof. exact tables_independent. Qed.
Print Assumptions C28_tables_independent.

Theorem C28_recreate_keeps_max_of_others :
  forall branches tables autos s t w,
    let w1 := commit_s s w in
    let b := sbr w1 s in
    let w' := snd (sstep branches tables autos s (SRecreate t) w) in
    cur w' t = N.max 1 (max_over (fun b' => if b' =? b then 0 else bval w1 b' t) branches)
    /\ (forall b', In b' branches -> bval w' b' t <= cur w' t).
Proof. exact recreate_keeps_max_of_others. Qed.
Print Assumptions C28_recreate_keeps_max_of_others.
