(* C28 — Auto-increment values are never handed out twice.  Property theorems only. *)
From Coq Require Import NArith List Bool Sorted.
From Dolt Require Import C28.Model C28.Spec C28.Corr C28.Proofs.
Import ListNotations.
Local Open Scope N_scope.

Theorem C28_next_unique : forall (s : sched) cur, NoDup (gen_ids s cur).
Proof. exact next_unique. Qed.
Print Assumptions C28_next_unique.

Theorem C28_next_increasing : forall (s : sched) cur, StronglySorted N.lt (gen_ids s cur).
Proof. exact next_increasing. Qed.
Print Assumptions C28_next_increasing.

Theorem C28_explicit_advances :
  forall (s1 : sched) a b v (s2 : sched) cur g,
    In g (gen_ids s2 (final (s1 ++ [(a, b, OExplicit v)]) cur)) -> v < g.
Proof. exact explicit_advances. Qed.
Print Assumptions C28_explicit_advances.

Theorem C28_later_exceeds_earlier :
  forall (s1 s2 : sched) cur g1 g2,
    In g1 (gen_ids s1 cur) -> In g2 (gen_ids s2 (final s1 cur)) -> g1 < g2.
Proof. exact later_exceeds_earlier. Qed.
Print Assumptions C28_later_exceeds_earlier.

Theorem C28_oracle_accepts_model : forall i, oracle i (model_obs i) = true.
Proof. exact oracle_accepts_model. Qed.
Print Assumptions C28_oracle_accepts_model.
