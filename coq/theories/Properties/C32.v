(* C32 — Diffs and patches describe exactly the change between two commits.  Property theorems only. *)
From Coq Require Import NArith List Bool.
From Dolt Require Import Base.Str C31.Model C31.Spec C32.Model C32.Spec C32.Corr C31.Proofs C32.Proofs.
Local Open Scope N_scope.

Theorem C32_diff_exact :
  forall a b k f t, In (k, f, t) (diff a b) <-> (f = get k a /\ t = get k b /\ f <> t).
Proof. exact diff_exact. Qed.
Print Assumptions C32_diff_exact.

Theorem C32_diff_sorted :
  forall a b, sorted (map (fun e : dentry => fst (fst e)) (diff a b)).
Proof. exact diff_sorted. Qed.
Print Assumptions C32_diff_sorted.

Theorem C32_patch_roundtrip :
  forall a b, ext_eq (apply_stmts a (patch_stmts a b)) b.
Proof. exact patch_roundtrip. Qed.
Print Assumptions C32_patch_roundtrip.

Theorem C32_patch_roundtrip_eq :
  forall a b, norm (apply_stmts a (patch_stmts a b)) = norm b.
Proof. exact patch_roundtrip_eq. Qed.
Print Assumptions C32_patch_roundtrip_eq.

Theorem C32_sql_string_roundtrip : forall s, unquote (quote s) = Some s.
Proof. exact sql_string_roundtrip. Qed.
Print Assumptions C32_sql_string_roundtrip.

Theorem C32_sql_string_roundtrip_in_stmt :
  forall s rest, not_quote_first rest -> scan (quote_body s ++ c_quote :: rest) = Some (s, rest).
Proof. exact sql_string_roundtrip_in_stmt. Qed.
Print Assumptions C32_sql_string_roundtrip_in_stmt.

Theorem C32_hex_roundtrip :
  forall s, Forall (fun b => b < 256) s -> unhex_lit (hex_lit s) = Some s.
Proof. exact hex_roundtrip. Qed.
Print Assumptions C32_hex_roundtrip.

Theorem C32_oracle_on_model : forall i, oracle i (model_obs i) = true.
Proof. exact oracle_on_model. Qed.
Print Assumptions C32_oracle_on_model.

Theorem C32_diff_counts :
  forall a b, count_kind (patch_stmts a b) = (n_type 0 (diff a b), n_type 2 (diff a b), n_type 1 (diff a b)).
Proof. exact diff_counts. Qed.
Print Assumptions C32_diff_counts.

Theorem C32_col_ddl_roundtrip :
  forall old c, c_id old = c_id c -> apply_ddls (cons old nil) (col_ddl (cons old nil) c) = cons c nil.
Proof. exact col_ddl_roundtrip. Qed.
Print Assumptions C32_col_ddl_roundtrip.

Theorem C32_ddl_counts_spec :
  forall sa sb, ddl_counts (schema_patch sa sb) = schema_delta_counts sa sb.
Proof. exact ddl_counts_spec. Qed.
Print Assumptions C32_ddl_counts_spec.
