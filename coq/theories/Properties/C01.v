(* C01 — Chunk reads return exactly the bytes stored under that address.  Property theorems only. *)
From Coq Require Import NArith List Bool Sorting.Permutation Sorting.Sorted.
From Dolt Require Import Base.Str Gen.C01Consts C01.Model C01.Spec C01.Corr C01.Proofs.
Import ListNotations.
Local Open Scope N_scope.

Theorem C01_layout_pinned :
  forall n : N,
    lengths_offset n = n * prefix_tuple_size
    /\ suffixes_offset n = n * prefix_tuple_size + n * length_size
    /\ index_size n = n * prefix_tuple_size + n * length_size + n * hash_suffix_len.
Proof. exact layout_pinned. Qed.
Print Assumptions C01_layout_pinned.

(* lookup in the index written for rs (any prefix-sorted outcome ts of the
   unstable sort; equal 8-byte prefixes allowed) returns exactly h's
   (offset, length), None when h is absent *)
Theorem C01_lookup_write_index :
  forall (ts : list tuple) (rs : list rec) (h : addr),
    valid_tuples ts rs -> distinct_addrs rs ->
    lookup (build_pindex ts rs) h = lookup_spec rs h.
Proof. exact lookup_write_index. Qed.
Print Assumptions C01_lookup_write_index.

(* without distinctness (conjoined tables): some record stored under h, or absent *)
Theorem C01_lookup_any :
  forall ts rs h, valid_tuples ts rs ->
    match lookup (build_pindex ts rs) h with
    | Some e => exists k, (k < length rs)%nat /\ r_addr (nth k rs dummy_rec) = h /\ e = (offset_of rs k, len_of rs k)
    | None => in_table rs h = false
    end.
Proof. exact lookup_any. Qed.
Print Assumptions C01_lookup_any.

Theorem C01_model_sort_is_valid : forall rs, valid_tuples (sort_tuples (tuples_from 0 rs)) rs.
Proof. exact sort_tuples_valid. Qed.
Print Assumptions C01_model_sort_is_valid.

Theorem C01_has_many_spec :
  forall ts rs reqs, valid_tuples ts rs -> reqs_sorted reqs ->
    let '(reqs', remaining) := has_many (build_pindex ts rs) reqs in
    Forall2 (fun r r' => fst r' = fst r /\ snd r' = snd r || in_table rs (fst r)) reqs reqs'
    /\ remaining = existsb (fun r : req => negb (snd r)) reqs'.
Proof. exact has_many_spec. Qed.
Print Assumptions C01_has_many_spec.

Theorem C01_find_offsets_spec :
  forall ts rs reqs, valid_tuples ts rs -> reqs_sorted reqs ->
    let '(reqs', ors, remaining) := find_offsets (build_pindex ts rs) reqs in
    has_many (build_pindex ts rs) reqs = (reqs', remaining)
    /\ Forall (fun x : offrec => In (fst x, false) reqs /\
          exists k, (k < length rs)%nat /\ r_addr (nth k rs dummy_rec) = fst x
                    /\ snd x = (offset_of rs k, len_of rs k)) ors
    /\ (forall a, In (a, false) reqs -> in_table rs a = true -> In a (map fst ors)).
Proof. exact find_offsets_spec. Qed.
Print Assumptions C01_find_offsets_spec.

