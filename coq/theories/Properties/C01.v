(* C01 — Chunk reads return exactly the bytes stored under that address.  Property theorems only. *)
From Coq Require Import NArith List Bool Sorting.Permutation Sorting.Sorted.
From Dolt Require Import Base.Str Gen.C01Consts C01.Model C01.Spec C01.Corr C01.Proofs C01.ProofsBytes C01.ProofsSort C01.ProofsTable
  C01.ProofsStore C01.ProofsStore2 C01.ProofsStore3 C01.ProofsStore4 C01.ProofsStore5 C01.ModelBatch C01.ProofsBatch.
Import ListNotations.
Local Open Scope N_scope.

Theorem C01_layout_pinned :
  forall n : N,
    lengths_offset n = n * prefix_tuple_size
    /\ suffixes_offset n = n * prefix_tuple_size + n * length_size
    /\ index_size n = n * prefix_tuple_size + n * length_size + n * hash_suffix_len.
Proof. exact layout_pinned. Qed.
Print Assumptions C01_layout_pinned.

(* lookup in the index written for rs (any prefix-sorted outcome ts of the
   unstable sort; equal 8-byte prefixes allowed) returns exactly h's
   (offset, length), None when h is absent *)
Theorem C01_lookup_write_index :
  forall (ts : list tuple) (rs : list rec) (h : addr),
    valid_tuples ts rs -> distinct_addrs rs ->
    lookup (build_pindex ts rs) h = lookup_spec rs h.
Proof. exact lookup_write_index. Qed.
Print Assumptions C01_lookup_write_index.

(* without distinctness (conjoined tables): some record stored under h, or absent *)
Theorem C01_lookup_any :
  forall ts rs h, valid_tuples ts rs ->
    match lookup (build_pindex ts rs) h with
    | Some e => exists k, (k < length rs)%nat /\ r_addr (nth k rs dummy_rec) = h /\ e = (offset_of rs k, len_of rs k)
    | None => in_table rs h = false
    end.
Proof. exact lookup_any. Qed.
Print Assumptions C01_lookup_any.

Theorem C01_model_sort_is_valid : forall rs, valid_tuples (sort_tuples (tuples_from 0 rs)) rs.
Proof. exact sort_tuples_valid. Qed.
Print Assumptions C01_model_sort_is_valid.

Theorem C01_has_many_spec :
  forall ts rs reqs, valid_tuples ts rs -> reqs_sorted reqs ->
    let '(reqs', remaining) := has_many (build_pindex ts rs) reqs in
    Forall2 (fun r r' => fst r' = fst r /\ snd r' = snd r || in_table rs (fst r)) reqs reqs'
    /\ remaining = existsb (fun r : req => negb (snd r)) reqs'.
Proof. exact has_many_spec. Qed.
Print Assumptions C01_has_many_spec.

Theorem C01_find_offsets_spec :
  forall ts rs reqs, valid_tuples ts rs -> reqs_sorted reqs ->
    let '(reqs', ors, remaining) := find_offsets (build_pindex ts rs) reqs in
    has_many (build_pindex ts rs) reqs = (reqs', remaining)
    /\ Forall (fun x : offrec => In (fst x, false) reqs /\
          exists k, (k < length rs)%nat /\ r_addr (nth k rs dummy_rec) = fst x
                    /\ snd x = (offset_of rs k, len_of rs k)) ors
    /\ (forall a, In (a, false) reqs -> in_table rs a = true -> In a (map fst ors)).
Proof. exact find_offsets_spec. Qed.
Print Assumptions C01_find_offsets_spec.


(* reading through the written bytes: tableReader.get returns the chunk's bytes
   iff h is stored (CRC checked, payload decompressed); parametric in the
   checksum and in any compressor with decompress (compress d) = Some d *)
Theorem C01_table_get_written :
  forall (crc : bytes -> N) (compress : bytes -> bytes) (decompress : bytes -> option bytes),
    (forall d, decompress (compress d) = Some d) ->
    forall ts rs (content : addr -> bytes) h,
      valid_tuples ts rs -> distinct_addrs rs ->
      (forall k, (k < length rs)%nat ->
         wf_rec crc compress (nth k rs dummy_rec) (content (r_addr (nth k rs dummy_rec)))) ->
      table_get crc decompress (mkTable (write_table_with ts rs) (build_pindex ts rs)) h
      = ROk (if in_table rs h then Some (content h) else None).
Proof. exact table_get_written. Qed.
Print Assumptions C01_table_get_written.

Theorem C01_table_has_written :
  forall ts rs h, valid_tuples ts rs ->
    table_has (mkTable (write_table_with ts rs) (build_pindex ts rs)) h = in_table rs h.
Proof. exact table_has_written. Qed.
Print Assumptions C01_table_has_written.

(* tableSet.hasMany over any list of sources (Go iterates a map: any order):
   a request is found iff it was found before or some source stores it, and
   `remaining = false` is only returned when every request is found *)
Theorem C01_tableset_has_many_spec :
  forall (tbls : list table) (rss : list (list rec)) (reqs : list req),
    Forall2 src_ok tbls rss -> reqs_sorted reqs ->
    let '(reqs', remaining) := srcs_has_many tbls reqs in
    Forall2 (fun r r' => fst r' = fst r /\ (snd r' = true -> snd r = true \/ in_tables rss (fst r) = true)
                         /\ (snd r = true -> snd r' = true)) reqs reqs'
    /\ (remaining = false -> forall r', In r' reqs' -> snd r' = true)
    /\ (remaining = true -> forall r r', In (r, r') (combine reqs reqs') ->
          snd r' = snd r || in_tables rss (fst r)).
Proof. exact tableset_has_many_spec. Qed.
Print Assumptions C01_tableset_has_many_spec.

(* byte level: parse_index of the written bytes is the index the theorems above talk about *)
Theorem C01_parse_write_table :
  forall ts rs, valid_tuples ts rs -> table_fits rs ->
    parse_index (write_table_with ts rs) = Some (build_pindex ts rs).
Proof. exact parse_write_table. Qed.
Print Assumptions C01_parse_write_table.

Theorem C01_lookup_parsed_written_table :
  forall ts rs h, valid_tuples ts rs -> table_fits rs -> distinct_addrs rs ->
    option_map (fun ix => lookup ix h) (parse_index (write_table_with ts rs)) = Some (lookup_spec rs h).
Proof. exact lookup_parsed_written_table. Qed.
Print Assumptions C01_lookup_parsed_written_table.

(* HEADLINE: for every history (content-addressed puts with well-formed
   addresses, batched reads over sets, old-generation writes only in generational
   configurations), every memtable size with memsz + 4 < 2^32 and every
   configuration, every Get / Has / GetMany / GetManyCompressed / HasMany /
   IterateAllChunks answer of the store state machine (memtable, auto-flush,
   flush with has-filter, novel then upstream, old/new generation) is the answer of
   the abstract map of accepted puts *)
Theorem C01_store_refines_map :
  forall (content : addr -> bytes) (memsz : N), memsz + checksum_size < 2 ^ 32 ->
    forall (cfg : N) (ops : list op),
      Forall (good_op cfg content) ops -> oracle (cfg, memsz, ops) (model_obs (cfg, memsz, ops)) = true.
Proof. exact store_refines_map. Qed.
Print Assumptions C01_store_refines_map.

Theorem C01_reads_agree :
  forall (content : addr -> bytes) (memsz : N) (cfg : N) g st rO rN a,
    Sim content memsz cfg g st rO rN ->
    (if gen cfg then g_get crc0 decomp0 g a else st_get (g_new g) a)
    = ROk (if (if gen cfg then g_has g a else st_has (g_new g) a) then Some (content a) else None)
    /\ Permutation (if gen cfg then g_has_many g [a] else st_has_many (g_new g) [a])
                    (if (if gen cfg then g_has g a else st_has (g_new g) a) then [] else [a]).
Proof. exact reads_agree. Qed.
Print Assumptions C01_reads_agree.

(* read batching (groupSpans / canReadAhead): every requested span lies inside the batch
   that serves it, and the batches serve exactly the requested spans, in order *)
Theorem C01_batches_cover :
  forall (bs : N) (spans : list span), spans_sorted spans ->
    Forall run_covers (group_spans bs spans) /\ concat (map snd (group_spans bs spans)) = spans.
Proof. exact batches_cover. Qed.
Print Assumptions C01_batches_cover.
