(* C44 — Names and revision specs parse as documented.  Property theorems only. *)
From Coq Require Import NArith List Bool.
From Dolt Require Import Base.Str Gen.RefnameTable Gen.C44SpecFuncs C44.Model C44.Spec C44.Corr C44.Proofs.
Local Open Scope N_scope.

Theorem C44_branch_names_follow_rules :
  forall s, valid_branch_name s = true <-> ref_rules s.
Proof. exact valid_branch_name_iff_rules. Qed.
Print Assumptions C44_branch_names_follow_rules.

Theorem C44_branch_names_follow_rules_b :
  forall s, valid_branch_name s = ref_rules_b s.
Proof. exact valid_branch_name_spec. Qed.
Print Assumptions C44_branch_names_follow_rules_b.

Theorem C44_tag_names_follow_rules :
  forall s, valid_tag_name s = tag_rules_b s.
Proof. exact valid_tag_name_spec. Qed.
Print Assumptions C44_tag_names_follow_rules.

Theorem C44_dataset_ids_follow_rules :
  forall s, valid_dataset_id s = dataset_rules_b s.
Proof. exact valid_dataset_id_spec. Qed.
Print Assumptions C44_dataset_ids_follow_rules.

Theorem C44_commit_spec_is_base_then_walk :
  forall s, oracle s (model_obs s) = true.
Proof. exact commit_spec_is_base_then_walk. Qed.
Print Assumptions C44_commit_spec_is_base_then_walk.

Theorem C44_class_table :
  forall b : N, b < 128 -> action b = class_of b.
Proof. exact action_table_classes. Qed.
Print Assumptions C44_class_table.

Theorem C44_regex_sources_pinned :
  invalid_branch_name_regex = expected_branch_regex /\ invalid_tag_name_regex = expected_tag_regex.
Proof. exact (conj branch_regex_pinned tag_regex_pinned). Qed.
Print Assumptions C44_regex_sources_pinned.

Theorem C44_spec_digit_tests_pinned :
  (forall b, go_is_digit b = is_digit b) /\ (forall n, go_is_valid_merge_spec n = ((n =? 1) || (n =? 2))).
Proof. exact (conj go_is_digit_pinned go_is_valid_merge_spec_pinned). Qed.
Print Assumptions C44_spec_digit_tests_pinned.
