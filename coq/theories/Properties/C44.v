(* C44 — Names and revision specs parse as documented.  Property theorems only. *)
From Coq Require Import NArith List Bool.
From Dolt Require Import Base.Str Gen.RefnameTable C44.Model C44.Spec C44.Corr C44.Proofs.

Theorem C44_regex_sources_pinned :
  invalid_branch_name_regex = expected_branch_regex /\ invalid_tag_name_regex = expected_tag_regex.
Proof. exact (conj branch_regex_pinned tag_regex_pinned). Qed.
Print Assumptions C44_regex_sources_pinned.
