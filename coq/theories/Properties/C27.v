(* C27 — Keyless tables behave as multisets.  Property theorems only. *)
From Coq Require Import NArith ZArith List Bool.
From Dolt Require Import C29.Model C27.Model C27.Spec C27.Corr C27.Proofs.
Import ListNotations.
Local Open Scope N_scope.

Theorem C27_keyless_refines_multiset :
  forall (hash : row -> N), (forall a b, hash a = hash b -> a = b) ->
  forall ops s x, card_of hash (run hash ops s) x = m_run ops (card_of hash s) x.
Proof. exact keyless_refines_multiset. Qed.
Print Assumptions C27_keyless_refines_multiset.

Theorem C27_cardinalities_positive :
  forall (hash : row -> N) ops s, positive s -> positive (run hash ops s).
Proof. exact positive_run. Qed.
Print Assumptions C27_cardinalities_positive.

Theorem C27_keyless_merge_spec :
  forall (hash : row -> N) b l r x, positive b -> positive l -> positive r ->
    card_of hash (km_rows (kmerge b l r)) x
    = fst (merge_card (card_of hash b x) (card_of hash l x) (card_of hash r x))
    /\ (In (hash x) (map fst (km_conf (kmerge b l r)))
        <-> snd (merge_card (card_of hash b x) (card_of hash l x) (card_of hash r x)) = true).
Proof. exact keyless_merge_spec. Qed.
Print Assumptions C27_keyless_merge_spec.

Theorem C27_merge_applies_deltas :
  forall bc lc rc, snd (merge_card bc lc rc) = false ->
  Z.of_N (fst (merge_card bc lc rc)) = (Z.of_N bc + (Z.of_N lc - Z.of_N bc) + (Z.of_N rc - Z.of_N bc))%Z.
Proof. exact merge_card_deltas. Qed.
Print Assumptions C27_merge_applies_deltas.

Theorem C27_merge_conflict_iff :
  forall bc lc rc, snd (merge_card bc lc rc) = true <-> (lc <> bc /\ rc <> bc).
Proof. exact merge_card_conflict_iff. Qed.
Print Assumptions C27_merge_conflict_iff.
