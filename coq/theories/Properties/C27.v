(* C27 — Keyless tables behave as multisets.  Property theorems only. *)
From Coq Require Import NArith ZArith List Bool.
From Dolt Require Import C29.Model C27.Model C27.Spec C27.Corr C27.Proofs.
Import ListNotations.
Local Open Scope N_scope.

Theorem C27_keyless_refines_multiset :
  forall (hash : row -> N), (forall a b, hash a = hash b -> a = b) ->
  forall ops s x, card_of hash (run hash ops s) x = m_run ops (card_of hash s) x.
Proof. exact keyless_refines_multiset. Qed.
Print Assumptions C27_keyless_refines_multiset.

Theorem C27_cardinalities_positive :
  forall (hash : row -> N) ops s, positive s -> positive (run hash ops s).
Proof. exact positive_run. Qed.
Print Assumptions C27_cardinalities_positive.

Theorem C27_keyless_merge_spec :
  forall (hash : row -> N) b l r x, positive b -> positive l -> positive r ->
    card_of hash (km_rows (kmerge b l r)) x
    = fst (merge_card (card_of hash b x) (card_of hash l x) (card_of hash r x))
    /\ (In (hash x) (map fst (km_conf (kmerge b l r)))
        <-> snd (merge_card (card_of hash b x) (card_of hash l x) (card_of hash r x)) = true).
Proof. exact keyless_merge_spec. Qed.
Print Assumptions C27_keyless_merge_spec.

Theorem C27_merge_applies_deltas :
  forall bc lc rc, snd (merge_card bc lc rc) = false ->
  Z.of_N (fst (merge_card bc lc rc)) = (Z.of_N bc + (Z.of_N lc - Z.of_N bc) + (Z.of_N rc - Z.of_N bc))%Z.
Proof. exact merge_card_deltas. Qed.
Print Assumptions C27_merge_applies_deltas.

Theorem C27_merge_conflict_iff :
  forall bc lc rc, snd (merge_card bc lc rc) = true <-> (lc <> bc /\ rc <> bc).
Proof. exact merge_card_conflict_iff. Qed.
Print Assumptions C27_merge_conflict_iff.

(* ---- round 2 ---- *)
Theorem C27_merge_oracle_on_model :
  forall b l r,
  (forall x y, In x (input_rows b l r) -> In y (input_rows b l r) -> enc x = enc y -> x = y) ->
  pos_m b -> pos_m l -> pos_m r ->
  merge_ok b l r (model_merge b l r) = true.
Proof. exact merge_oracle_on_model. Qed.
Print Assumptions C27_merge_oracle_on_model.

Theorem C27_oracle_on_model_partial :
  forall i,
  (forall x y, In x (input_rows (i_b i) (i_l i) (i_r i)) -> In y (input_rows (i_b i) (i_l i) (i_r i)) -> enc x = enc y -> x = y) ->
  pos_m (i_b i) -> pos_m (i_l i) -> pos_m (i_r i) ->
  merge_ok (i_b i) (i_l i) (i_r i) (o_lr (model_obs i)) = true
  /\ merge_ok (i_b i) (i_r i) (i_l i) (o_rl (model_obs i)) = true.
Proof. exact oracle_on_model_partial. Qed.
Print Assumptions C27_oracle_on_model_partial.

Theorem C27_kmerge_conflict_entry :
  forall b l r k e, In (k, e) (km_conf (kmerge b l r)) -> e = (sget k b, sget k l, sget k r).
Proof. exact kmerge_conflict_entry. Qed.
Print Assumptions C27_kmerge_conflict_entry.

(* ---- round 4: secondary index of a keyless table ---- *)
Theorem C27_index_mirrors_store :
  forall (hash : row -> N), (forall a b, hash a = hash b -> a = b) ->
  forall ops, keyed27 hash (fst (trun hash ops ([], []))) /\ imirror (trun hash ops ([], [])).
Proof. exact index_mirrors_store. Qed.
Print Assumptions C27_index_mirrors_store.

Theorem C27_index_entry_iff_present :
  forall (hash : row -> N), (forall a b, hash a = hash b -> a = b) ->
  forall ops r,
  let st := trun hash ops ([], []) in
  imem (ival r) (hash r) (snd st) = true <-> 0 < card_of hash (fst st) r.
Proof. exact index_entry_iff_present. Qed.
Print Assumptions C27_index_entry_iff_present.
