(* C34 — Stash, reset and checkout restore exactly what they promise.  Property theorems only. *)
From Coq Require Import NArith List Bool.
From Dolt Require Import C31.Model C31.Spec C34.Model C34.Spec C34.Corr C34.Proofs.
Local Open Scope N_scope.

Theorem C34_stash_pop_working :
  forall w, has_changes w = true ->
  exists w1 e w2, do_stash w = Some (w1, e) /\ do_pop w1 e = Some w2 /\
    root_ext (w_working w2) (w_working w) /\
    w_working w2 = (norm (fst (w_working w)), norm (snd (w_working w))) /\
    w_head w2 = w_head w /\ w_staged w2 = w_head w.
Proof. exact stash_pop_working. Qed.
Print Assumptions C34_stash_pop_working.

Theorem C34_stash_pop_staged_iff :
  forall w w1 e w2, do_stash w = Some (w1, e) -> do_pop w1 e = Some w2 ->
  (w_staged w2 = w_staged w <-> w_staged w = w_head w).
Proof. exact stash_pop_staged_iff. Qed.
Print Assumptions C34_stash_pop_staged_iff.

(* full statement of the property clause: forall w with local changes, stash;pop gives back w
   (working and staged).  Proved only under the side condition "nothing staged" ... *)
Theorem C34_stash_pop_id_partial :
  forall w, has_changes w = true -> w_staged w = w_head w ->
  canonical (fst (w_working w)) = true -> canonical (snd (w_working w)) = true ->
  exists w1 e, do_stash w = Some (w1, e) /\ do_pop w1 e = Some w.
Proof. exact stash_pop_id. Qed.
Print Assumptions C34_stash_pop_id_partial.

(* ... because without it the clause is false on the faithful model (and on the engine) *)
Theorem C34_stash_pop_id_refuted :
  exists w w1 e w2, do_stash w = Some (w1, e) /\ do_pop w1 e = Some w2 /\ ~ stash_pop_restores w w2.
Proof. exact stash_pop_id_refuted. Qed.
Print Assumptions C34_stash_pop_id_refuted.

Theorem C34_reset_hard_spec :
  forall s c,
  (exists s', step s ResetHard = Some s' /\ w_working (cur s') = w_head (cur s) /\ w_staged (cur s') = w_head (cur s) /\ w_head (cur s') = w_head (cur s))
  /\ (exists s', step s (ResetHardTo c) = Some s' /\ w_working (cur s') = commit_at s c /\ w_staged (cur s') = commit_at s c /\ w_head (cur s') = commit_at s c).
Proof. exact reset_hard_spec. Qed.
Print Assumptions C34_reset_hard_spec.

Theorem C34_reset_soft_spec :
  forall s t c,
  (exists s', step s ResetSoft = Some s' /\ w_working (cur s') = w_working (cur s) /\ w_head (cur s') = w_head (cur s) /\ w_staged (cur s') = w_head (cur s))
  /\ (exists s', step s (ResetSoftT t) = Some s' /\ w_working (cur s') = w_working (cur s) /\ w_head (cur s') = w_head (cur s)
                 /\ tbl t (w_staged (cur s')) = tbl t (w_head (cur s)))
  /\ (exists s', step s (ResetSoftTo c) = Some s' /\ w_working (cur s') = w_working (cur s) /\ w_staged (cur s') = w_staged (cur s)
                 /\ w_head (cur s') = commit_at s c).
Proof. exact reset_soft_spec. Qed.
Print Assumptions C34_reset_soft_spec.

Theorem C34_checkout_no_loss :
  forall src dst src' dst', do_move src dst = Some (src', dst') -> has_changes src = true -> no_loss src dst'.
Proof. exact checkout_no_loss. Qed.
Print Assumptions C34_checkout_no_loss.

Theorem C34_checkout_move_step :
  forall s b s', step s (CheckoutMove b) = Some s' -> b <> s_on_other s -> has_changes (cur s) = true ->
  s_on_other s' = b /\ no_loss (cur s) (cur s').
Proof. exact checkout_move_clean_source. Qed.
Print Assumptions C34_checkout_move_step.

Theorem C34_checkout_plain_intact :
  forall s b s', step s (Checkout b) = Some s' -> s_main s' = s_main s /\ s_other s' = s_other s /\ s_stashes s' = s_stashes s.
Proof. exact checkout_plain_intact. Qed.
Print Assumptions C34_checkout_plain_intact.

Theorem C34_failed_step_unchanged :
  forall s o ops, step s o = None -> run s (o :: ops) = observe false s :: run s ops.
Proof. exact failed_step_unchanged. Qed.
Print Assumptions C34_failed_step_unchanged.

Theorem C34_pop_takes_latest :
  forall s e rest w', s_stashes s = e :: rest -> do_pop (cur s) e = Some w' ->
  step s Pop = Some (set_stashes (set_cur s w') rest).
Proof. exact pop_takes_latest. Qed.
Print Assumptions C34_pop_takes_latest.

Theorem C34_stash_pop_conflict :
  forall s e rest, s_stashes s = e :: rest -> merge_root (snd e) (w_working (cur s)) (fst e) = None ->
  step s Pop = None.
Proof. exact stash_pop_conflict. Qed.
Print Assumptions C34_stash_pop_conflict.

Theorem C34_stash_pushes_on_top :
  forall s s', step s Stash = Some s' -> exists e, s_stashes s' = e :: s_stashes s /\ e = (w_working (cur s), w_head (cur s)).
Proof. exact stash_pushes_on_top. Qed.
Print Assumptions C34_stash_pushes_on_top.
