(* C18 — Commit metadata describes the commit graph exactly.  Property theorems only. *)
From Coq Require Import List Arith Bool NArith Sorted.
From Dolt Require Import Graph.CommitDag Graph.CommitDagFacts C18.Model C18.Spec C18.Corr C18.Proofs.
Import ListNotations.

(* Every commit's height is the number of commits on the longest parent path
   starting at it, and is one more than its highest parent (one for a root). *)
Theorem C18_height_spec :
  forall (rank : nat -> nat) (h : hist) (c : nat),
    wf_hist h -> c < length h ->
    longest_chain h c (height rank h c) /\ height_recurrence h (height rank h) c.
Proof. exact height_spec. Qed.
Print Assumptions C18_height_spec.

Theorem C18_ancestor_lower :
  forall (rank : nat -> nat) (h : hist) (a c : nat),
    wf_hist h -> anc h a c -> height rank h a < height rank h c.
Proof. exact ancestor_lower. Qed.
Print Assumptions C18_ancestor_lower.

(* The closure stored with a commit lists exactly its proper ancestors, each
   once, each with its height — for every history (every DAG, any arity,
   duplicate parents, criss-cross merges), given distinct addresses. *)
Theorem C18_closure_spec :
  forall (rank : nat -> nat), (forall a b, rank a = rank b -> a = b) ->
  forall (h : hist) (c : nat),
    wf_hist h -> closure_exact h (height rank h) c (closure_of rank h c).
Proof. exact closure_spec. Qed.
Print Assumptions C18_closure_spec.

Theorem C18_closure_sorted :
  forall (rank : nat -> nat), (forall a b, rank a = rank b -> a = b) ->
  forall (h : hist) (c : nat),
    wf_hist h -> StronglySorted (key_lt rank) (closure_of rank h c).
Proof. exact closure_sorted. Qed.
Print Assumptions C18_closure_sorted.

(* The brute-force ancestor set used by the oracle is the ancestor relation. *)
Theorem C18_ancestors_spec :
  forall (h : hist), wf_hist h -> forall c a, In a (ancestors h c) <-> anc h a c.
Proof. exact ancestors_spec. Qed.
Print Assumptions C18_ancestors_spec.

(* A commit's stored record (parents, height, closure: what its address is
   computed from) never changes once written, however the history grows, and is
   a function of its parent list and its parents' records. *)
Theorem C18_addr_stable :
  forall (rank : nat -> nat) (h ext : hist) (c : nat),
    c < length h -> nth_error (store_of rank (h ++ ext)) c = nth_error (store_of rank h) c.
Proof. exact addr_stable. Qed.
Print Assumptions C18_addr_stable.

Theorem C18_commit_is_function_of_parents :
  forall (rank : nat -> nat) (h : hist) (c : nat),
    wf_hist h -> c < length h ->
    get (store_of rank h) c = new_commit rank (store_of rank h) (parents h c).
Proof. exact commit_is_function_of_parents. Qed.
Print Assumptions C18_commit_is_function_of_parents.

(* The executable statement of the property accepts the model's observation. *)
Theorem C18_oracle_accepts_model :
  forall i : input,
    wf_histb (hist_of i) = true ->
    rank_okb (length (hist_of i)) (ranks_of i) = true ->
    oracle i (model_obs i) = true.
Proof. exact oracle_accepts_model. Qed.
Print Assumptions C18_oracle_accepts_model.
