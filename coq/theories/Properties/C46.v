(* C46 — Ignored tables stay out of commits and clean removes only untracked tables.  Property theorems only. *)
From Coq Require Import NArith List Bool.
From Dolt Require Import Base.Str C46.Model C46.Spec C46.Corr C46.Proofs C46.ProofsMore.
Import ListNotations.
Local Open Scope N_scope.

Theorem C46_matcher_is_every_split_reading :
  forall one any p s, rx one any p s = glob_b one any p s.
Proof. exact rx_eq_glob_b. Qed.
Print Assumptions C46_matcher_is_every_split_reading.

Theorem C46_every_split_reading_is_wildcard_rules :
  forall one any p s, glob_b one any p s = true <-> glob one any p s.
Proof. exact glob_b_iff_glob. Qed.
Print Assumptions C46_every_split_reading_is_wildcard_rules.

Theorem C46_match_table_pattern_is_wildcard_rules :
  forall p n, match_table_pattern p n = true <-> matches p n.
Proof. exact match_table_pattern_spec. Qed.
Print Assumptions C46_match_table_pattern_is_wildcard_rules.

Theorem C46_decision_is_most_specific_wins :
  forall ps n,
    NoDup (matching ps n true) -> NoDup (matching ps n false) ->
    d_code (is_ignored ps n) = spec_decision ps n.
Proof. exact decision_is_spec. Qed.
Print Assumptions C46_decision_is_most_specific_wins.

Theorem C46_decision_is_most_specific_wins_primary_key :
  forall ps n, NoDup (map fst ps) -> d_code (is_ignored ps n) = spec_decision ps n.
Proof. exact decision_is_spec_pk. Qed.
Print Assumptions C46_decision_is_most_specific_wins_primary_key.

Theorem C46_clean_removes_exactly_untracked_not_ignored :
  forall ps h s w x dry,
    NoDup (names h) -> NoDup (names s) -> NoDup (names w) ->
    (forall n, In n (names w) -> d_code (is_ignored ps n) = spec_decision ps n) ->
    clean_ok ps x dry (h, s, w) (fst (clean ps (negb x) dry (h, s, w))) (snd (clean ps (negb x) dry (h, s, w))) = true.
Proof. exact clean_is_spec. Qed.
Print Assumptions C46_clean_removes_exactly_untracked_not_ignored.

Theorem C46_clean_keeps_tracked :
  forall ps respect dry h s w t,
    In t w -> has (t_name t) s = true -> In t (snd (snd (clean ps respect dry (h, s, w)))).
Proof. exact clean_keeps_tracked. Qed.
Print Assumptions C46_clean_keeps_tracked.

Theorem C46_stage_all_every_other_change_refuted :
  exists ps pre, let '(e, post) := stage_all ps pre in e = 0 /\ stage_ok ps pre e post = false.
Proof. exact stage_all_every_other_change_refuted. Qed.
Print Assumptions C46_stage_all_every_other_change_refuted.

Theorem C46_clean_removes_exactly_untracked_not_ignored_primary_key :
  forall ps h s w x dry,
    NoDup (map fst ps) -> NoDup (names h) -> NoDup (names s) -> NoDup (names w) ->
    clean_ok ps x dry (h, s, w) (fst (clean ps (negb x) dry (h, s, w))) (snd (clean ps (negb x) dry (h, s, w))) = true.
Proof. exact clean_is_spec_pk. Qed.
Print Assumptions C46_clean_removes_exactly_untracked_not_ignored_primary_key.

Theorem C46_more_specific_sound :
  forall a b, at_least_as_specific_b a b = true -> forallb not_nl a = true ->
    forall n, matches a n -> matches b n.
Proof. exact more_specific_sound. Qed.
Print Assumptions C46_more_specific_sound.
