(* C13 — Diffs report exactly the changed keys.  Property theorems only. *)
From Coq Require Import NArith ZArith List Bool.
From Dolt Require Import Prolly.Tree Prolly.Cursor C13.Model C13.Spec C13.Proofs.
Import ListNotations.
Local Open Scope N_scope.

(* the headline: the differ as implemented = the declarative diff, any depths and shapes *)
Theorem C13_tree_diff_spec :
  forall addr_eqb : node -> node -> bool,
    (forall x y, addr_eqb x y = true -> x = y) ->
    forall am a b, wf_root a -> wf_root b ->
      tree_diff addr_eqb am a b = Some (list_diff_g am (flatten a) (flatten b)).
Proof. exact tree_diff_spec. Qed.
Print Assumptions C13_tree_diff_spec.

(* DiffMaps = differ + makeDiffCallBack: for every decoding of stored values into rows, the
   filtered diff is the declarative diff on decoded rows (same row, two encodings: no change) *)
Theorem C13_diff_maps_spec :
  forall (addr_eqb : node -> node -> bool) (dec : val -> N),
    (forall x y, addr_eqb x y = true -> x = y) ->
    forall am a b, wf_root a -> wf_root b ->
      diff_maps addr_eqb dec am a b = Some (list_diff_d dec (flatten a) (flatten b)).
Proof. exact diff_maps_spec. Qed.
Print Assumptions C13_diff_maps_spec.

(* the correspondence instantiates the address comparison with structural equality *)
Theorem C13_diff_maps_spec_structural :
  forall dec am a b, wf_root a -> wf_root b ->
    diff_maps node_eqb dec am a b = Some (list_diff_d dec (flatten a) (flatten b)).
Proof. exact (fun dec => diff_maps_spec node_eqb dec node_eqb_sound). Qed.

(* one encoding per row: the decoded diff is the byte-level diff *)
Theorem C13_list_diff_d_id : forall a b, list_diff_d (fun v => v) a b = list_diff a b.
Proof. exact list_diff_d_id. Qed.
Print Assumptions C13_list_diff_d_id.
Print Assumptions C13_diff_maps_spec_structural.

Theorem C13_list_diff_sorted :
  forall a b, ksorted (keys a) -> ksorted (keys b) -> ksorted (map change_key (list_diff a b)).
Proof. exact list_diff_sorted. Qed.
Print Assumptions C13_list_diff_sorted.

Theorem C13_list_diff_refl : forall a, list_diff a a = [].
Proof. exact list_diff_refl. Qed.
Print Assumptions C13_list_diff_refl.

(* bounded key ranges: DiffMapsKeyRange and RangeDiffMaps, every [start, stop) *)
Theorem C13_range_diff_spec :
  forall (addr_eqb : node -> node -> bool) (dec : val -> N),
    (forall x y, addr_eqb x y = true -> x = y) ->
    forall lo hi a b, wf_root a -> wf_root b ->
      key_range_diff addr_eqb dec lo hi a b = Some (range_list_diff_d dec lo hi (flatten a) (flatten b))
      /\ range_diff addr_eqb dec lo hi a b = Some (range_list_diff_d dec lo hi (flatten a) (flatten b)).
Proof. exact range_diff_spec. Qed.
Print Assumptions C13_range_diff_spec.

(* the declarative diff lists exactly the keys whose presence or value differs, with the right kind and values *)
Theorem C13_list_diff_complete :
  forall a b, ksorted (keys a) -> ksorted (keys b) ->
  forall c, In c (list_diff a b) <-> key_change (change_key c) a b = Some c.
Proof. exact list_diff_complete. Qed.
Print Assumptions C13_list_diff_complete.

(* compareCursors against a stop cursor inside the tree cuts exactly at the stop predicate *)
Theorem C13_cmp_search :
  forall p, mono p -> forall t, shape t = true -> ksorted (keys (flatten t)) ->
  forall c k v, located t c -> length c = S (level t) -> live c -> stack_ok 0 c ->
    cur_kv c = Some (k, v) ->
    (cur_compare c (cursor_at_search p t) <? 0)%Z = negb (p k).
Proof. exact cmp_search. Qed.
Print Assumptions C13_cmp_search.

Theorem C13_advance_cinv :
  forall T i c, cinv T i c -> cur_valid c = true ->
    cinv T i (advance c) /\ length (advance c) = length c
    /\ exists x, cur_item c = Some x /\ item_ok i x /\ cur_sem c = flat_item x ++ cur_sem (advance c).
Proof. exact advance_cinv. Qed.
Print Assumptions C13_advance_cinv.

Theorem C13_skip_sound :
  forall addr_eqb : node -> node -> bool,
    (forall x y, addr_eqb x y = true -> x = y) ->
    forall x y, equal_items addr_eqb x y = true -> flat_item x = flat_item y.
Proof. exact skip_sound. Qed.
Print Assumptions C13_skip_sound.
