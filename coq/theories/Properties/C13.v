(* C13 — Diffs report exactly the changed keys.  Property theorems only. *)
From Coq Require Import NArith List Bool.
From Dolt Require Import Prolly.Tree Prolly.Cursor C13.Model C13.Spec C13.Proofs.
Import ListNotations.
Local Open Scope N_scope.

Theorem C13_advance_sem :
  forall c x f par, c = (x :: f) :: par -> all_valid par ->
    cur_sem (advance c) = flat_frame f ++ above par.
Proof. exact advance_sem. Qed.
Print Assumptions C13_advance_sem.

Theorem C13_cursor_at_start_sem : forall t, shape t = true -> cur_sem (cursor_at_start t) = flatten t.
Proof. exact cursor_at_start_sem. Qed.
Print Assumptions C13_cursor_at_start_sem.

Theorem C13_skip_sound :
  forall addr_eqb : node -> node -> bool,
    (forall x y, addr_eqb x y = true -> x = y) ->
    forall x y, equal_items addr_eqb x y = true -> flat_item x = flat_item y.
Proof. exact skip_sound. Qed.
Print Assumptions C13_skip_sound.

Theorem C13_node_eqb_sound : forall x y, node_eqb x y = true -> x = y.
Proof. exact node_eqb_sound. Qed.
Print Assumptions C13_node_eqb_sound.

Theorem C13_list_diff_refl : forall a, list_diff a a = [].
Proof. exact list_diff_refl. Qed.
Print Assumptions C13_list_diff_refl.

Theorem C13_list_diff_common_prefix : forall p a b, list_diff (p ++ a) (p ++ b) = list_diff a b.
Proof. exact list_diff_common_prefix. Qed.
Print Assumptions C13_list_diff_common_prefix.
