(* C13 — Diffs report exactly the changed keys.  Property theorems only. *)
From Coq Require Import NArith List Bool.
From Dolt Require Import Prolly.Tree Prolly.Cursor C13.Model C13.Spec C13.Proofs.
Import ListNotations.
Local Open Scope N_scope.

(* the headline: the differ as implemented = the declarative diff, any depths and shapes *)
Theorem C13_tree_diff_spec :
  forall addr_eqb : node -> node -> bool,
    (forall x y, addr_eqb x y = true -> x = y) ->
    forall am a b, wf_root a -> wf_root b ->
      tree_diff addr_eqb am a b = Some (list_diff_g am (flatten a) (flatten b)).
Proof. exact tree_diff_spec. Qed.
Print Assumptions C13_tree_diff_spec.

(* DiffMaps = differ + makeDiffCallBack: for every decoding of stored values into rows, the
   filtered diff is the declarative diff on decoded rows (same row, two encodings: no change) *)
Theorem C13_diff_maps_spec :
  forall (addr_eqb : node -> node -> bool) (dec : val -> N),
    (forall x y, addr_eqb x y = true -> x = y) ->
    forall am a b, wf_root a -> wf_root b ->
      diff_maps addr_eqb dec am a b = Some (list_diff_d dec (flatten a) (flatten b)).
Proof. exact diff_maps_spec. Qed.
Print Assumptions C13_diff_maps_spec.

(* the correspondence instantiates the address comparison with structural equality *)
Theorem C13_diff_maps_spec_structural :
  forall dec am a b, wf_root a -> wf_root b ->
    diff_maps node_eqb dec am a b = Some (list_diff_d dec (flatten a) (flatten b)).
Proof. exact (fun dec => diff_maps_spec node_eqb dec node_eqb_sound). Qed.

(* one encoding per row: the decoded diff is the byte-level diff *)
Theorem C13_list_diff_d_id : forall a b, list_diff_d (fun v => v) a b = list_diff a b.
Proof. exact list_diff_d_id. Qed.
Print Assumptions C13_list_diff_d_id.
Print Assumptions C13_diff_maps_spec_structural.

Theorem C13_list_diff_sorted :
  forall a b, ksorted (keys a) -> ksorted (keys b) -> ksorted (map change_key (list_diff a b)).
Proof. exact list_diff_sorted. Qed.
Print Assumptions C13_list_diff_sorted.

Theorem C13_list_diff_refl : forall a, list_diff a a = [].
Proof. exact list_diff_refl. Qed.
Print Assumptions C13_list_diff_refl.

Theorem C13_key_range_diff_unbounded_partial :
  forall (addr_eqb : node -> node -> bool) (dec : val -> N),
    (forall x y, addr_eqb x y = true -> x = y) ->
    forall a b, wf_root a -> wf_root b ->
      key_range_diff addr_eqb dec None None a b = Some (range_list_diff_d dec None None (flatten a) (flatten b)).
Proof. exact key_range_diff_unbounded_partial. Qed.
Print Assumptions C13_key_range_diff_unbounded_partial.

Theorem C13_advance_cinv :
  forall T i c, cinv T i c -> cur_valid c = true ->
    cinv T i (advance c) /\ length (advance c) = length c
    /\ exists x, cur_item c = Some x /\ item_ok i x /\ cur_sem c = flat_item x ++ cur_sem (advance c).
Proof. exact advance_cinv. Qed.
Print Assumptions C13_advance_cinv.

Theorem C13_skip_sound :
  forall addr_eqb : node -> node -> bool,
    (forall x y, addr_eqb x y = true -> x = y) ->
    forall x y, equal_items addr_eqb x y = true -> flat_item x = flat_item y.
Proof. exact skip_sound. Qed.
Print Assumptions C13_skip_sound.
