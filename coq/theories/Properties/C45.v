(* C45 — Replicas converge to their source and never show invented state.  Property theorems only. *)
From Coq Require Import NArith List Bool.
From Dolt Require Import C45.Model C45.Spec C45.Corr C45.Proofs.
Import ListNotations.
Local Open Scope N_scope.

Theorem C45_standby_prefix :
  forall es, subseq (c_applied (cluster_run es)) (c_log (cluster_run es)).
Proof. exact standby_prefix. Qed.
Print Assumptions C45_standby_prefix.

Theorem C45_standby_rejects : forall s r, cluster_step s (CStandbyWrite r) = s.
Proof. exact standby_rejects. Qed.
Print Assumptions C45_standby_rejects.

Theorem C45_transition_no_loss :
  forall es, let s := cluster_run es in
    c_swapped s = true ->
    incl (c_acked s) (primary_log s) /\ hd_error (primary_log s) = hd_error (c_log s).
Proof. exact transition_no_loss. Qed.
Print Assumptions C45_transition_no_loss.

Theorem C45_caught_up_converges :
  forall es, let s := cluster_step (cluster_run es) CReplicateOk in
    c_swapped s = false -> hd_error (c_applied s) = hd_error (c_log s).
Proof. exact caught_up_converges. Qed.
Print Assumptions C45_caught_up_converges.

Theorem C45_converges_after_retries :
  forall es k, let s := cluster_step (fold_left cluster_step (repeat CReplicateFail k) (cluster_run es)) CReplicateOk in
    c_swapped s = false -> hd_error (c_applied s) = hd_error (c_log s).
Proof. exact converges_after_retries. Qed.
Print Assumptions C45_converges_after_retries.

Theorem C45_replica_heads_real :
  forall h0 es, heads_real (r_replica (repl_run h0 es)) (r_remote_hist (repl_run h0 es)) = true.
Proof. exact replica_heads_real. Qed.
Print Assumptions C45_replica_heads_real.

Theorem C45_push_on_write_present :
  forall s b c, let s' := repl_step s (RCommit b c) in
    r_warned s' = false /\ get_head b (r_remote s') = Some c /\ get_head b (r_primary s') = Some c.
Proof. exact push_on_write_present. Qed.
Print Assumptions C45_push_on_write_present.

Theorem C45_replica_after_pull_current :
  forall s, let s' := repl_step s RPull in
    r_replica s' = r_remote s' /\ heads_real (r_replica s') (r_remote s') = true.
Proof. exact replica_after_pull_current. Qed.
Print Assumptions C45_replica_after_pull_current.

Theorem C45_deleted_branch_gone_after_pull :
  forall s b, let s' := repl_step (repl_step s (RDelete b)) RPull in
    get_head b (r_remote s') = None /\ get_head b (r_replica s') = None.
Proof. exact deleted_branch_gone_after_pull. Qed.
Print Assumptions C45_deleted_branch_gone_after_pull.
