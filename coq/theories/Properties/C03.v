(* C03 — Crash at any point recovers the last acknowledged state without loss.  Property theorems only. *)
From Coq Require Import NArith List Bool.
From Dolt Require Import Base.Str Gen.C03Consts C03.Model C03.Spec C03.Corr C03.Proofs.
Import ListNotations.
Local Open Scope N_scope.

Theorem C03_layout_pinned :
  tag_kind = kind_journal_rec_tag /\ tag_addr = addr_journal_rec_tag /\ tag_payload = payload_journal_rec_tag
  /\ tag_ts = timestamp_journal_rec_tag /\ kind_root = root_hash_journal_rec_kind /\ kind_chunk = chunk_journal_rec_kind
  /\ addr_sz = journal_rec_addr_sz /\ cksum_sz = journal_rec_checksum_sz
  /\ chunk_payload_off = journal_rec_len_sz + (journal_rec_tag_sz + journal_rec_kind_sz) + (journal_rec_tag_sz + journal_rec_addr_sz) + journal_rec_tag_sz
  /\ (forall n, chunk_rec_len n = chunk_payload_off + n + journal_rec_checksum_sz)
  /\ root_rec_len = journal_rec_len_sz + (journal_rec_tag_sz + journal_rec_kind_sz) + (journal_rec_tag_sz + journal_rec_addr_sz)
                    + (journal_rec_tag_sz + journal_rec_timestamp_sz) + journal_rec_checksum_sz
  /\ journal_rec_len_sz = uint32_size
  /\ root_rec_len = root_hash_record_size.
Proof. exact layout_pinned. Qed.
Print Assumptions C03_layout_pinned.

(* scan_prefix — every crash point of the byte stream.  [crc] is any 32-bit checksum function, [bufsz] any
   buffer size, [cbok] any callback accepting well-formed records. *)
Theorem C03_scan_prefix :
  forall (crc : bytes -> N) (bufsz : N), (forall b, crc b < 4294967296) ->
  forall (cbok : prec -> bool), (forall r, wf_rec bufsz r -> cbok (prec_of r) = true) ->
  forall (rs : list wrec) (k : nat),
    Forall (wf_rec bufsz) rs -> (k <= length (enc_all crc rs))%nat ->
    let image := firstn k (enc_all crc rs) in
    let pre := fit_prefix rs (N.of_nat k) in
    exists tail,
      image = enc_all crc pre ++ tail /\
      scan crc bufsz cbok 0 image = (items_of 0 pre, total_len pre, (if lenN tail <? 4 then StEOF else StRecovered), tail) /\
      (no_valid_window crc tail ->
         data_loss_check crc bufsz tail = false /\
         process crc bufsz cbok 0 image = POk (total_len pre) (items_of 0 pre)).
Proof. exact scan_prefix. Qed.
Print Assumptions C03_scan_prefix.

(* fit_prefix is the longest prefix of whole records that fits in k bytes *)
Theorem C03_fit_prefix_longest :
  forall rs k, exists n, fit_prefix rs k = firstn n rs /\ total_len (fit_prefix rs k) <= k
                         /\ ((n < length rs)%nat -> k < total_len (firstn (S n) rs)).
Proof. exact fit_prefix_longest. Qed.
Print Assumptions C03_fit_prefix_longest.

Theorem C03_crash_recovery_partial :
  forall (crc : bytes -> N) (bufsz : N), (forall b, crc b < 4294967296) ->
  forall (s : wstate) (k : nat) (can_write : bool) (max_novel : N),
    winv crc bufsz s ->
    (k <= length (w_file s))%nat ->
    let image := firstn k (w_file s) in
    let pre := fit_prefix (w_recs s) (N.of_nat k) in
    exists tail,
      image = enc_all crc pre ++ tail /\
      (no_valid_window crc tail ->
         let b := bootstrap crc bufsz can_write max_novel image in
         b_err b = 0 /\ b_root b = last_root pre /\ b_off b = total_len pre /\
         b_ranges b = (if can_write && (max_novel <? rng_novel_count (spec_table pre)) then flatten (spec_table pre) else spec_table pre)) /\
      (forall before ts a after, w_recs s = before ++ WRoot ts a :: after ->
         total_len (before ++ [WRoot ts a]) <= N.of_nat k ->
         exists post, pre = before ++ WRoot ts a :: post).
Proof. exact crash_recovery_partial. Qed.
Print Assumptions C03_crash_recovery_partial.

Theorem C03_no_window_no_data_loss :
  forall (crc : bytes -> N) (bufsz : N) t first, no_valid_window crc t -> dlc crc bufsz 0 first t = false.
Proof. exact dlc_no_window. Qed.
Print Assumptions C03_no_window_no_data_loss.

Theorem C03_torn_tail_silent_refuted :
  exists (rs : list wrec) (k : nat),
    Forall (wf_rec big) rs /\ (k <= length (enc_all crcC rs))%nat /\
    process crcC big kind_ok 0 (firstn k (enc_all crcC rs)) = PDataLoss 40.
Proof. exact torn_tail_silent_refuted. Qed.
Print Assumptions C03_torn_tail_silent_refuted.

Theorem C03_short_final_record_missed :
  exists g r2, wf_rec big r2 /\
    data_loss_check crcC big (g ++ enc crcC (WRoot 7 (ex_addr 9)) ++ enc crcC r2) = false.
Proof. exact short_final_record_missed. Qed.
Print Assumptions C03_short_final_record_missed.

(* data_loss_reported: garbage that does not validate, followed by an intact root record and a further intact
   record (not a final record shorter than a root record — see C03_short_final_record_missed) is reported. *)
Theorem C03_data_loss_reported :
  forall (crc : bytes -> N) (bufsz : N), (forall b, crc b < 4294967296) ->
  forall g ts a r2 rest,
    wf_rec bufsz (WRoot ts a) -> wf_rec bufsz r2 ->
    root_rec_len <= lenN (enc crc r2 ++ rest) ->
    (forall (i : nat) cand rst, (i < length g)%nat ->
       splitN (rd32 (skipn i (g ++ enc crc (WRoot ts a) ++ enc crc r2 ++ rest)))
              (skipn i (g ++ enc crc (WRoot ts a) ++ enc crc r2 ++ rest)) = Some (cand, rst) -> validate crc cand = false) ->
    data_loss_check crc bufsz (g ++ enc crc (WRoot ts a) ++ enc crc r2 ++ rest) = true.
Proof. exact data_loss_reported. Qed.
Print Assumptions C03_data_loss_reported.

(* the scan is compositional: a run of intact records, then whatever follows *)
Theorem C03_scan_app :
  forall (crc : bytes -> N) (bufsz : N), (forall b, crc b < 4294967296) ->
  forall (cbok : prec -> bool), (forall r, wf_rec bufsz r -> cbok (prec_of r) = true) ->
  forall rs off junk, Forall (wf_rec bufsz) rs ->
    scan crc bufsz cbok off (enc_all crc rs ++ junk) =
      prep (items_of off rs) (scan crc bufsz cbok (off + total_len rs) junk).
Proof. exact scan_app. Qed.
Print Assumptions C03_scan_app.

(* crash_recovery — every op history, every intermediate writer state (appends, flush, root record, Sync,
   index meta, ack), every crash image between the synced and the written length. *)
Theorem C03_crash_recovery :
  forall (crc : bytes -> N) (bufsz : N), (forall b, crc b < 4294967296) -> bufsz < 4294967296 ->
  forall (threshold max_novel : N) (ops : list op),
    Forall op_ok ops ->
    forall s, In s (trace crc bufsz threshold max_novel ops w_init) ->
    forall (k : nat), w_synced s <= N.of_nat k -> (k <= length (w_file s))%nat ->
    forall (can_write : bool) (mn : N),
    let image := firstn k (w_file s) in
    let pre := fit_prefix (w_recs s) (N.of_nat k) in
    exists tail,
      image = enc_all crc pre ++ tail /\
      (match w_acked s with
       | [] => True
       | a :: _ => exists before ts post, pre = before ++ WRoot ts a :: post /\
                                          (last_root pre = a \/ In (last_root pre) (roots_of post))
       end) /\
      (no_valid_window crc tail ->
         let b := bootstrap crc bufsz can_write mn image in
         b_err b = 0 /\ b_root b = last_root pre /\ b_off b = total_len pre /\
         b_ranges b = (if can_write && (mn <? rng_novel_count (spec_table pre)) then flatten (spec_table pre) else spec_table pre) /\
         (forall h p, In (WChunk h p) pre -> exists rg, assoc h (spec_ranges 0 pre []) = Some rg)).
Proof. exact crash_recovery. Qed.
Print Assumptions C03_crash_recovery.

(* the variant in which everything written after the last Sync is lost or replaced by arbitrary bytes *)
Theorem C03_crash_recovery_unsynced_lost :
  forall (crc : bytes -> N) (bufsz : N), (forall b, crc b < 4294967296) -> bufsz < 4294967296 ->
  forall (threshold max_novel : N) (ops : list op),
    Forall op_ok ops ->
    forall s, In s (trace crc bufsz threshold max_novel ops w_init) ->
    exists n, (n <= length (w_recs s))%nat /\
      let durable := firstn n (w_recs s) in
      w_synced s = total_len durable /\
      firstn (N.to_nat (w_synced s)) (w_file s) = enc_all crc durable /\
      (match w_acked s with
       | [] => True
       | a :: _ => exists before ts post, durable = before ++ WRoot ts a :: post
       end) /\
      forall (junk : bytes) (can_write : bool) (mn : N),
        let image := enc_all crc durable ++ junk in
        scan crc bufsz kind_ok 0 image = prep (items_of 0 durable) (scan crc bufsz kind_ok (w_synced s) junk) /\
        (no_valid_window crc junk ->
           let b := bootstrap crc bufsz can_write mn image in
           b_err b = 0 /\ b_root b = last_root durable /\ b_off b = w_synced s /\
           b_ranges b = (if can_write && (mn <? rng_novel_count (spec_table durable)) then flatten (spec_table durable) else spec_table durable)).
Proof. exact crash_recovery_unsynced_lost. Qed.
Print Assumptions C03_crash_recovery_unsynced_lost.

(* the index stream of every writer state, including the intermediate-sync path of large writes *)
Theorem C03_index_stream_covers :
  forall (crc : bytes -> N) (bufsz : N), (forall b, crc b < 4294967296) -> bufsz < 4294967296 ->
  forall (threshold max_novel : N) (ops : list op),
    Forall op_ok ops ->
    forall s, In s (trace crc bufsz threshold max_novel ops w_init) ->
    ilookups (w_idx s) = rlookups 0 (w_recs s) /\ metas_ok (w_idx s) (w_recs s).
Proof. exact index_stream_covers. Qed.
Print Assumptions C03_index_stream_covers.
