(* C08 — Garbage collection keeps everything that is still reachable.  Property theorems only. *)
From Coq Require Import NArith List Bool.
From Dolt Require Import C08.Model C08.Spec C08.Corr C08.Proofs.
Import ListNotations.
Local Open Scope N_scope.

Theorem C08_mark_complete :
  forall g roots R, mark g roots = Some R -> forall x, reach g roots x -> In x R.
Proof. exact mark_complete. Qed.
Print Assumptions C08_mark_complete.

Theorem C08_mark_is_reach :
  forall g roots, exists R, mark g roots = Some R /\ forall x, In x R <-> reach g roots x.
Proof. exact mark_is_reach. Qed.
Print Assumptions C08_mark_is_reach.

Theorem C08_fuel_enough : forall g start, exists R, mark g start = Some R.
Proof. exact fuel_enough. Qed.
Print Assumptions C08_fuel_enough.

Theorem C08_gc_safe_sequential :
  forall g roots g', gc_once g roots = Some g' -> retains g g' roots.
Proof. exact gc_safe_sequential. Qed.
Print Assumptions C08_gc_safe_sequential.

Theorem C08_gc_safe_concurrent :
  forall g root es, closed g -> present g root = true -> root_complete (run (init_state g root) es).
Proof. exact gc_safe_concurrent. Qed.
Print Assumptions C08_gc_safe_concurrent.

Theorem C08_novel_survives :
  forall g root es h, closed g -> present g root = true ->
  In h (st_novel (run (init_state g root) es)) -> present (st_store (run (init_state g root) es)) h = true.
Proof. exact novel_survives. Qed.
Print Assumptions C08_novel_survives.

Theorem C08_gc_generational_safe :
  forall g old old_roots new_roots old' new',
  gclosed g old -> gc_generational g old old_roots new_roots = Some (old', new') ->
  (forall x, reach g (old_roots ++ new_roots) x -> memb x (new' ++ old') = true) /\ gclosed g old'.
Proof. exact gc_generational_safe. Qed.
Print Assumptions C08_gc_generational_safe.

Theorem C08_oldgen_filter_needs_closed :
  let g := [(1, [2]); (2, [])] in
  gc_generational g [1] [1] [] = Some ([1], []) /\ reach g ([1] ++ []) 2 /\ memb 2 ([] ++ [1]) = false.
Proof. exact oldgen_filter_needs_closed. Qed.
Print Assumptions C08_oldgen_filter_needs_closed.

Theorem C08_oracle_on_model :
  forall g root, NoDup (map fst g) ->
  (forall p r, In p g -> In r (snd p) -> present g r = true) ->
  (forall p, In p g -> reach g [root] (fst p)) ->
  oracle (g, root) (model_obs (g, root)) = true.
Proof. exact oracle_on_model. Qed.
Print Assumptions C08_oracle_on_model.
