(* C43 — Conflict tables and conflict resolution are exact.  Property theorems only. *)
From Coq Require Import NArith List Bool.
From Dolt Require Import C29.Model C29.Spec C29.Corr C29.Proofs C43.Model C43.Spec C43.Corr C43.Proofs C43.PriorProofs.
Import ListNotations.
Local Open Scope N_scope.

Theorem C43_resolve_spec :
  forall sb sl sr b l r ours k,
  let M := table_merge true sb sl sr b l r in
  get k (fst (resolve_state ours (m_rows M) (m_conf M))) = spec_resolved ours (m_rows M) (m_conf M) k
  /\ snd (resolve_state ours (m_rows M) (m_conf M)) = []
  /\ (forall e, getc k (m_conf M) = Some e -> snd (fst e) = get k (m_rows M)).
Proof. exact resolve_spec. Qed.
Print Assumptions C43_resolve_spec.

Theorem C43_resolve_theirs_spec :
  forall t conf k,
  get k (resolve false t conf) = match getc k conf with Some (_, _, th) => th | None => get k t end.
Proof. exact resolve_theirs_spec. Qed.
Print Assumptions C43_resolve_theirs_spec.

Theorem C43_resolve_idempotent :
  forall t conf k,
  get k (resolve false (resolve false t conf) conf) = get k (resolve false t conf).
Proof. exact resolve_idempotent. Qed.
Print Assumptions C43_resolve_idempotent.

Theorem C43_conflicts_exact :
  forall sb sl sr b l r k,
  schemas_ok sb sl sr -> conv_ok sl sr (get k l) (get k r) ->
  delete_visible sb sl sr (get k b) (get k l) (get k r) ->
  getc k (m_conf (table_merge true sb sl sr b l r)) = spec_conflict_entry sb sl sr b l r k.
Proof. exact conflicts_exact_spec. Qed.
Print Assumptions C43_conflicts_exact.

Theorem C43_conflicts_exact_same_schema :
  forall s b l r k,
  getc k (m_conf (table_merge true s s s b l r)) = spec_conflict_entry s s s b l r k.
Proof. exact conflicts_exact_same_schema. Qed.
Print Assumptions C43_conflicts_exact_same_schema.

(* ---- round 2 ---- *)
Theorem C43_resolve_preserves_mirror :
  forall ci t conf idx,
  NoDup (map fst conf) -> mirror ci idx t ->
  mirror ci (resolve_idx ci t conf idx) (resolve false t conf).
Proof. exact resolve_preserves_mirror. Qed.
Print Assumptions C43_resolve_preserves_mirror.

Theorem C43_conflict_keys_distinct :
  forall fixed sb sl sr b l r, NoDup (map fst (m_conf (table_merge fixed sb sl sr b l r))).
Proof. exact conflict_keys_distinct. Qed.
Print Assumptions C43_conflict_keys_distinct.

Theorem C43_built_index_mirrors : forall ci t, mirror ci (build_idx ci t) t.
Proof. exact mirror_build. Qed.
Print Assumptions C43_built_index_mirrors.

Theorem C43_oracle_on_model : forall i, oracle i (model_obs i) = true.
Proof. exact oracle_on_model. Qed.
Print Assumptions C43_oracle_on_model.

(* ---- the prior-aware check (conflicts of an earlier merge) at prior = [] is the single-merge check ---- *)
Theorem C43_model_obs_p_nil : forall i, model_obs_p [] i = model_obs i.
Proof. exact model_obs_p_nil. Qed.
Print Assumptions C43_model_obs_p_nil.

Theorem C43_oracle_p_nil : forall i o, oracle_p [] i o = oracle i o.
Proof. exact oracle_p_nil. Qed.
Print Assumptions C43_oracle_p_nil.

Theorem C43_check_case_p_nil : forall c, check_case_p ([], c) = check_case c.
Proof. exact check_case_p_nil. Qed.
Print Assumptions C43_check_case_p_nil.

Theorem C43_oracle_on_model_p_nil : forall i, oracle_p [] i (model_obs_p [] i) = true.
Proof. exact oracle_on_model_p_nil. Qed.
Print Assumptions C43_oracle_on_model_p_nil.

(* ---- the oracle accepts the model with conflict artifacts of an earlier merge ---- *)
Theorem C43_oracle_on_model_p :
  forall prior i, prior_ok prior i = true -> oracle_p prior i (model_obs_p prior i) = true.
Proof. exact oracle_on_model_p. Qed.
Print Assumptions C43_oracle_on_model_p.
