(* C37 — Schemas serialize faithfully and column tags are deterministic.  Property theorems only. *)
From Coq Require Import NArith List Bool.
From Dolt Require Import Base.Str Gen.C37Consts C37.Model C37.Spec C37.Corr C37.Proofs.
Import ListNotations.
Local Open Scope N_scope.

Theorem C37_tag_fresh :
  forall (rand_seq : bytes -> bytes -> list N -> N -> N -> nat -> N) fuel ex t ks c k x,
    auto_tag rand_seq fuel ex t ks c k = Some x -> ~ In x ex.
Proof. exact tag_fresh. Qed.
Print Assumptions C37_tag_fresh.

Theorem C37_tag_below_reserved :
  forall (rand_seq : bytes -> bytes -> list N -> N -> N -> nat -> N),
    (forall t c ks k m i, rand_seq t c ks k m i < m) ->
    forall fuel ex t ks c k x,
      auto_tag rand_seq fuel ex t ks c k = Some x ->
      (exists m, max_tag (distinct_count ex) = Some m /\ x < m)
      /\ (distinct_count ex <= 8192 -> x < 16384 /\ x < reserved_tag_min).
Proof. exact tag_below_reserved. Qed.
Print Assumptions C37_tag_below_reserved.

Theorem C37_tag_depends_on_tag_set_only :
  forall (rand_seq : bytes -> bytes -> list N -> N -> N -> nat -> N) fuel a b t ks c k,
    same_set a b -> auto_tag rand_seq fuel a t ks c k = auto_tag rand_seq fuel b t ks c k.
Proof. exact auto_tag_same_set. Qed.
Print Assumptions C37_tag_depends_on_tag_set_only.

Theorem C37_tag_simple_names :
  forall (rand_seq : bytes -> bytes -> list N -> N -> N -> nat -> N) fuel ex t1 t2 c1 c2 ks k,
    simple_string t1 = simple_string t2 -> simple_string c1 = simple_string c2 ->
    auto_tag rand_seq fuel ex t1 ks c1 k = auto_tag rand_seq fuel ex t2 ks c2 k.
Proof. exact tag_simple_names. Qed.
Print Assumptions C37_tag_simple_names.

Theorem C37_same_ddl_same_tags :
  forall (rand_seq : bytes -> bytes -> list N -> N -> N -> nat -> N) fuel ds h w o1 o2 s1,
    same_set o1 o2 ->
    run rand_seq fuel {| head := h; work := w; other := o1 |} ds = Some s1 ->
    exists s2, run rand_seq fuel {| head := h; work := w; other := o2 |} ds = Some s2
               /\ head s2 = head s1 /\ work s2 = work s1.
Proof. exact same_ddl_same_tags. Qed.
Print Assumptions C37_same_ddl_same_tags.

Theorem C37_tags_distinct_partial :
  forall (rand_seq : bytes -> bytes -> list N -> N -> N -> nat -> N) fuel s t news s',
    names_distinct (map fst news) = true ->
    lookup t (work s) = None -> lookup t (head s) = None ->
    step rand_seq fuel s (Create t news) = Some s' ->
    exists tags, work s' = set_table t (mk_cols news tags) (work s)
                 /\ NoDup tags
                 /\ forall x, In x tags -> ~ In x (root_tags (head s) ++ root_tags (work s) ++ other s).
Proof. exact tags_distinct_partial. Qed.
Print Assumptions C37_tags_distinct_partial.

Theorem C37_addcol_tag_fresh :
  forall (rand_seq : bytes -> bytes -> list N -> N -> N -> nat -> N) fuel s t c k pos cs s',
    lookup t (work s) = Some cs -> has_col cs c = false ->
    step rand_seq fuel s (AddCol t c k pos) = Some s' ->
    exists tag, work s' = set_table t (insert_at pos {| c_name := c; c_kind := k; c_tag := tag |} cs) (work s)
                /\ ~ In tag (root_tags (work s) ++ other s).
Proof. exact addcol_tag_fresh. Qed.
Print Assumptions C37_addcol_tag_fresh.

(* Full statement (false: C37_tags_distinct_refuted): the same conclusion without the safe_run hypothesis. *)
Theorem C37_tags_distinct_run_partial :
  forall (rand_seq : bytes -> bytes -> list N -> N -> N -> nat -> N) fuel ds s,
    NoDup (root_tags (work s) ++ other s) -> NoDup (root_tags (head s) ++ other s) ->
    safe_run rand_seq fuel s ds = true ->
    forall s', In s' (reached rand_seq fuel s ds) ->
      NoDup (root_tags (work s') ++ other s') /\ NoDup (root_tags (head s') ++ other s').
Proof. exact tags_distinct_run_partial. Qed.
Print Assumptions C37_tags_distinct_run_partial.

Theorem C37_tags_distinct_run_no_recreate :
  forall (rand_seq : bytes -> bytes -> list N -> N -> N -> nat -> N) fuel ds s,
    NoDup (root_tags (work s) ++ other s) -> NoDup (root_tags (head s) ++ other s) ->
    no_recreate (map fst (head s)) (map fst (work s)) ds = true ->
    forall s', In s' (reached rand_seq fuel s ds) ->
      NoDup (root_tags (work s') ++ other s') /\ NoDup (root_tags (head s') ++ other s').
Proof. exact tags_distinct_run_no_recreate. Qed.
Print Assumptions C37_tags_distinct_run_no_recreate.

Theorem C37_tags_distinct_refuted :
  exists rand_seq ds s, run rand_seq 8 {| head := []; work := []; other := [] |} ds = Some s /\ distinct (root_tags (work s)) = false.
Proof. exact tags_distinct_refuted. Qed.
Print Assumptions C37_tags_distinct_refuted.

(* Full statement (false): tags do not depend on where commits are placed between the same statements. *)
Theorem C37_commit_placement_refuted :
  exists rand_seq sx sy,
    run rand_seq 8 {| head := []; work := []; other := [] |} (cp_base ++ [cp_new]) = Some sx
    /\ run rand_seq 8 {| head := []; work := []; other := [] |} (cp_base ++ [Commit; cp_new]) = Some sy
    /\ list_eqb N.eqb (root_tags (work sx)) (root_tags (work sy)) = false.
Proof. exact commit_placement_refuted. Qed.
Print Assumptions C37_commit_placement_refuted.

Theorem C37_schema_roundtrip :
  forall (type_string : bytes -> bytes) (parse_type : bytes -> option bytes) s,
    wf_schema type_string parse_type s ->
    deserialize parse_type (serialize type_string s) = Some s.
Proof. exact schema_roundtrip. Qed.
Print Assumptions C37_schema_roundtrip.

Theorem C37_fk_roundtrip :
  forall (encode_name : bytes -> bytes) (decode_name : bytes -> option bytes) l,
    (forall k, In k l -> decode_name (encode_name (fk_table k)) = Some (fk_table k)
                         /\ decode_name (encode_name (fk_reftable k)) = Some (fk_reftable k)) ->
    fk_deserialize decode_name (fk_serialize encode_name l) = Some l.
Proof. exact fk_roundtrip. Qed.
Print Assumptions C37_fk_roundtrip.

Theorem C37_oracle_a_on_model :
  forall i, Forall (wf_schema (fun x => x) (fun x => Some x)) (i_schemas i) -> oracle_a i (model_obs i) = true.
Proof. exact oracle_a_on_model. Qed.
Print Assumptions C37_oracle_a_on_model.

Theorem C37_oracle_b_on_model : forall i, oracle_b (model_obs i) = true.
Proof. exact oracle_b_on_model. Qed.
Print Assumptions C37_oracle_b_on_model.

(* Full statement (false without input_safe: C37_tags_distinct_refuted; clause (d), independence of the commit placement, is
   not a theorem of the model either — see Corr.oracle_d): forall i, oracle i (model_obs i) = true. *)
Theorem C37_oracle_on_model_partial :
  forall i, Forall (wf_schema (fun x => x) (fun x => Some x)) (i_schemas i) -> input_safe i = true ->
    oracle_abc i (model_obs i) = true.
Proof. exact oracle_on_model_partial. Qed.
Print Assumptions C37_oracle_on_model_partial.

Theorem C37_field_comparison_decides_equality :
  forall a b, sschema_eqb a b = true <-> a = b.
Proof. exact sschema_eqb_eq. Qed.
Print Assumptions C37_field_comparison_decides_equality.

Theorem C37_reserved_tag_min_pinned : reserved_tag_min = go_reserved_tag_min.
Proof. exact reserved_tag_min_pinned. Qed.
Print Assumptions C37_reserved_tag_min_pinned.
