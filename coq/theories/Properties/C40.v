(* C40 — Binlog events encode values the way MySQL replicas decode them.  Property theorems only. *)
From Coq Require Import NArith ZArith List Bool.
Import ListNotations.
From Dolt Require Import Base.Str C40.Model C40.Spec C40.Corr C40.Proofs.
Local Open Scope N_scope.

Theorem C40_int_roundtrip :
  forall w signed z, in_domain (VInt w signed z) = true -> decodes_to (VInt w signed z) (enc_int w z) = true.
Proof. exact int_roundtrip. Qed.
Print Assumptions C40_int_roundtrip.

Theorem C40_year_roundtrip :
  forall y, in_domain (VYear y) = true -> decodes_to (VYear y) (enc_year y) = true.
Proof. exact year_roundtrip. Qed.
Print Assumptions C40_year_roundtrip.

Theorem C40_date_roundtrip :
  forall y m d, in_domain (VDate y m d) = true -> decodes_to (VDate y m d) (enc_date y m d) = true.
Proof. exact date_roundtrip. Qed.
Print Assumptions C40_date_roundtrip.

Theorem C40_datetime2_roundtrip :
  forall fsp y mo d h mi s us,
    in_domain (VDatetime fsp y mo d h mi s us) = true ->
    decodes_to (VDatetime fsp y mo d h mi s us) (enc_datetime2 fsp y mo d h mi s us) = true.
Proof. exact datetime2_roundtrip. Qed.
Print Assumptions C40_datetime2_roundtrip.

Theorem C40_timestamp2_roundtrip :
  forall fsp secs us,
    in_domain (VTimestamp fsp secs us) = true -> decodes_to (VTimestamp fsp secs us) (enc_timestamp2 fsp secs us) = true.
Proof. exact timestamp2_roundtrip. Qed.
Print Assumptions C40_timestamp2_roundtrip.

(* partial: the full statement (no side condition) is refuted by C40_time2_neg59_refuted *)
Theorem C40_time2_roundtrip_partial :
  forall neg h mi s us,
    in_domain (VTime neg h mi s us) = true ->
    (neg = true -> 0 < us -> s < 59) ->
    decodes_to (VTime neg h mi s us) (enc_time2 neg h mi s us) = true.
Proof. exact time2_roundtrip. Qed.
Print Assumptions C40_time2_roundtrip_partial.

Theorem C40_time2_neg59_refuted :
  exists h mi s us, in_domain (VTime true h mi s us) = true
    /\ decodes_to (VTime true h mi s us) (enc_time2 true h mi s us) = false
    /\ dec_time2 (enc_time2 true h mi s us) = Some (true, 0, 0, 63, 500000).
Proof. exact time2_neg59_refuted. Qed.
Print Assumptions C40_time2_neg59_refuted.

Theorem C40_string_roundtrip :
  forall fixed maxlen s, in_domain (VString fixed maxlen s) = true -> decodes_to (VString fixed maxlen s) (enc_string maxlen s) = true.
Proof. exact string_roundtrip. Qed.
Print Assumptions C40_string_roundtrip.

Theorem C40_blob_roundtrip :
  forall pack s, in_domain (VBlob pack s) = true -> decodes_to (VBlob pack s) (enc_blob pack s) = true.
Proof. exact blob_roundtrip. Qed.
Print Assumptions C40_blob_roundtrip.

Theorem C40_enum_roundtrip :
  forall members v, in_domain (VEnum members v) = true -> decodes_to (VEnum members v) (enc_enum members v) = true.
Proof. exact enum_roundtrip. Qed.
Print Assumptions C40_enum_roundtrip.

Theorem C40_set_roundtrip :
  forall members v, in_domain (VSet members v) = true -> decodes_to (VSet members v) (enc_set members v) = true.
Proof. exact set_roundtrip. Qed.
Print Assumptions C40_set_roundtrip.

Theorem C40_bit_roundtrip :
  forall bits v, in_domain (VBit bits v) = true -> decodes_to (VBit bits v) (enc_bit bits v) = true.
Proof. exact bit_roundtrip. Qed.
Print Assumptions C40_bit_roundtrip.

Theorem C40_char_meta_roundtrip : forall len, len < 1024 -> char_meta_len (char_meta len) = len.
Proof. exact char_meta_roundtrip. Qed.
Print Assumptions C40_char_meta_roundtrip.

Theorem C40_bit_meta_len_ok : forall bits, bits <= 64 -> bit_meta_len bits = N.of_nat (set_width bits).
Proof. exact bit_meta_len_ok. Qed.
Print Assumptions C40_bit_meta_len_ok.

(* full: every DECIMAL(precision, scale), precision = scale included, every value *)
Theorem C40_decimal_roundtrip :
  forall prec scale neg ip fp,
    in_domain (VDecimal prec scale neg ip fp) = true ->
    exists b, enc_decimal prec scale neg ip fp = Some b /\ decodes_to (VDecimal prec scale neg ip fp) b = true.
Proof. exact decimal_roundtrip. Qed.
Print Assumptions C40_decimal_roundtrip.

Theorem C40_float_roundtrip :
  forall bits, in_domain (VFloat bits) = true -> decodes_to (VFloat bits) (enc_float bits) = true.
Proof. exact float_roundtrip. Qed.
Print Assumptions C40_float_roundtrip.

Theorem C40_double_roundtrip :
  forall bits, in_domain (VDouble bits) = true -> decodes_to (VDouble bits) (enc_double bits) = true.
Proof. exact double_roundtrip. Qed.
Print Assumptions C40_double_roundtrip.

(* partial: scalar documents only; arrays/objects (incl. keys >= 256 bytes and oversize elements, the two repaired classes)
   are executed (json_examples, json_key256_regression, json_oversize_regression) and checked by correspondence *)
Theorem C40_json_scalar_roundtrip_partial :
  forall v, in_domain (VJson v) = true -> jv_scalar v = true ->
    exists b, enc_json_doc v = Some b /\ decodes_to (VJson v) b = true.
Proof. exact json_scalar_roundtrip_partial. Qed.
Print Assumptions C40_json_scalar_roundtrip_partial.

Theorem C40_json_key_len_roundtrip : forall n, n < 65536 -> le_val (cons (n mod 256) (cons ((n / 256) mod 256) nil)) = n.
Proof. exact json_key_len_roundtrip. Qed.
Print Assumptions C40_json_key_len_roundtrip.

Theorem C40_row_roundtrip :
  forall members v z, in_domain (VRow members v z) = true ->
    decodes_to (VRow members v z) (enc_enum members v ++ enc_int 4 z) = true.
Proof. exact row_roundtrip. Qed.
Print Assumptions C40_row_roundtrip.

Theorem C40_oracle_on_model :
  forall v, in_domain v = true -> proved_class v -> oracle v (model_obs v) = true.
Proof. exact oracle_on_model. Qed.
Print Assumptions C40_oracle_on_model.
