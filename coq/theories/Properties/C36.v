(* C36 — Dump and re-import reproduce the database.  Property theorems only. *)
From Coq Require Import NArith List Bool.
From Dolt Require Import Base.Str C36.Model C36.Spec C36.Corr C36.Proofs.
Import ListNotations.
Local Open Scope N_scope.

Theorem C36_sql_string_roundtrip : forall s, sql_unquote (sql_quote s) = Some (s, []).
Proof. exact sql_string_roundtrip. Qed.
Print Assumptions C36_sql_string_roundtrip.

Theorem C36_hex_roundtrip : forall s, Forall (fun b => b < 256) s -> hex_decode (hex_encode s) = Some s.
Proof. exact hex_roundtrip. Qed.
Print Assumptions C36_hex_roundtrip.

Theorem C36_csv_field_roundtrip :
  forall (f : option bytes) c rest, (c = c_comma \/ c = c_lf) ->
    read_field trim_line (write_field starts_space_std f ++ c :: rest)
    = Some (f, (if c =? c_comma then FCont else FEnd), rest).
Proof. exact csv_field_roundtrip_std. Qed.
Print Assumptions C36_csv_field_roundtrip.

(* Full statement at record level, refuted for the reader as implemented:
     forall fs, fs <> [] -> csv_read (csv_write fs) = Some (Some fs, []). *)
Theorem C36_csv_record_roundtrip_refuted_crlf :
  exists fs, csv_read (csv_write fs) = Some (Some [Some [10]], []) /\ fs = [Some [13; 10]].
Proof. exact csv_record_roundtrip_refuted_crlf. Qed.
Print Assumptions C36_csv_record_roundtrip_refuted_crlf.

Theorem C36_csv_record_roundtrip_refuted_single_null :
  exists fs, csv_read (csv_write fs) = Some (None, []) /\ fs = [None].
Proof. exact csv_record_roundtrip_refuted_single_null. Qed.
Print Assumptions C36_csv_record_roundtrip_refuted_single_null.

(* ---- round 2: per-type value formatting, oracle on the model ---- *)
Theorem C36_int_fmt_roundtrip : forall z, parse_int (fmt_int z) = Some z.
Proof. exact int_fmt_roundtrip. Qed.
Print Assumptions C36_int_fmt_roundtrip.

(* Full statement (refuted for the BIT class): forall v, parse_val v (fmt_val v) = Some v. *)
Theorem C36_value_fmt_roundtrip_partial : forall v, val_ok v -> parse_val v (fmt_val v) = Some v.
Proof. exact value_fmt_roundtrip_partial. Qed.
Print Assumptions C36_value_fmt_roundtrip_partial.

Theorem C36_value_fmt_roundtrip_refuted_bit :
  parse_val (VBit [170]) (fmt_val (VBit [170])) = None
  /\ parse_val (VBit [49]) (fmt_val (VBit [49])) = Some (VBit [1]).
Proof. exact value_fmt_roundtrip_refuted_bit. Qed.
Print Assumptions C36_value_fmt_roundtrip_refuted_bit.

Theorem C36_oracle_on_model_str : forall s, Forall (fun b => b < 256) s ->
  oracle (CStr s, OStr (sql_quote s) (hex_encode s) true s) = true.
Proof. exact oracle_on_model_str. Qed.
Print Assumptions C36_oracle_on_model_str.

(* ---- round 3 ---- *)
Theorem C36_dec_fmt_roundtrip : forall x, Forall (fun d => d < 10) (d_frac x) -> parse_dec (fmt_dec x) = Some x.
Proof. exact dec_fmt_roundtrip. Qed.
Print Assumptions C36_dec_fmt_roundtrip.

(* ---- batched export ---- *)
Theorem C36_concat_chunks : forall {A} (n : nat) (l : list A), concat (chunks n l) = l.
Proof. exact @concat_chunks. Qed.
Print Assumptions C36_concat_chunks.

Theorem C36_oracle_on_model_batch : forall n, oracle (CBatch n, OBatch (model_counts n) 0 0 false) = true.
Proof. exact oracle_on_model_batch. Qed.
Print Assumptions C36_oracle_on_model_batch.
