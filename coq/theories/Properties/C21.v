(* C21 — A commit and its working-set update land together.  Property theorems only. *)
From Coq Require Import NArith List Bool.
From Dolt Require Import Base.Str C20.Model C20.Spec C20.Corr C20.Proofs C21.Model C21.Spec C21.Corr C21.Proofs.
Import ListNotations.
Local Open Scope N_scope.

Theorem C21_pair_atomic :
  forall (w : world) (m0 : refs) (progs : cid -> list op) (sched : list (cid * label)) (r wn : name),
    r <> wn -> only_cws r wn progs ->
    forall k : nat,
      let cfg := run w (firstn k sched) (init m0 progs) in
      pair_from m0 (g_log cfg) r wn (pair_of (crash_image w sched k (init m0 progs)) r wn).
Proof. exact pair_atomic. Qed.
Print Assumptions C21_pair_atomic.

Theorem C21_root_changes_by_one_op :
  forall (w : world) (m0 : refs) (progs : cid -> list op) (sched : list (cid * label)) (k : nat),
    let a := crash_image w sched k (init m0 progs) in
    let b := crash_image w sched (S k) (init m0 progs) in
    b = a \/ exists o, guard w a o = ROk /\ b = effect a o.
Proof. exact root_changes_by_one_op. Qed.
Print Assumptions C21_root_changes_by_one_op.

Theorem C21_cws_sets_both :
  forall m r wn exp prevws new newws force,
    r <> wn ->
    pair_of (effect m (OCommitWS r wn exp prevws new newws force)) r wn = (new, newws).
Proof. exact cws_sets_both. Qed.
Print Assumptions C21_cws_sets_both.

Theorem C21_oracle_model_obs :
  forall i : C21.Corr.input, C20.Corr.i_conc i = false -> C21.Corr.oracle i (C21.Corr.model_obs i) = true.
Proof. exact C21.Proofs.oracle_model_obs. Qed.
Print Assumptions C21_oracle_model_obs.

(* bridge to C02/C03: their recovered-root statement is the hypothesis Hrec *)
Theorem C21_crash_recovered_pair_atomic :
  forall (w : world) (m0 : refs) (progs : cid -> list op) (sched : list (cid * label)) (r wn : name),
    r <> wn -> only_cws r wn progs ->
    forall (k : nat) (recovered : refs),
      let cfg := run w (firstn k sched) (init m0 progs) in
      forall Hrec : exists j : nat, recovered = replay w m0 (firstn j (g_log cfg)),
      pair_from m0 (g_log cfg) r wn (pair_of recovered r wn).
Proof. exact crash_recovered_pair_atomic. Qed.
Print Assumptions C21_crash_recovered_pair_atomic.
