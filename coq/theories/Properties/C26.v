(* C26 — Dolt returns the same query results as the reference engine.  Property theorems only. *)
From Coq Require Import ZArith List Bool Sorted Permutation.
From Dolt Require Import C26.Model C26.Spec C26.Proofs C26.MergeSM C26.Corr C26.OracleModel.
Import ListNotations.
Local Open Scope Z_scope.

Theorem C26_above_start_monotone :
  forall fs t1 t2, length t1 = length t2 -> key_le t1 t2 -> above_start fs t1 = true -> above_start fs t2 = true.
Proof. exact above_start_monotone. Qed.
Print Assumptions C26_above_start_monotone.

Theorem C26_below_stop_antitone :
  forall fs t1 t2, length t1 = length t2 -> key_le t1 t2 -> below_stop fs t2 = true -> below_stop fs t1 = true.
Proof. exact below_stop_antitone. Qed.
Print Assumptions C26_below_stop_antitone.

Theorem C26_ranges_sound_complete :
  forall w nullable encs keys rs, (length rs <= w)%nat ->
    Forall (fun t => length t = w) keys -> StronglySorted (fun a b => cmp_key a b <> Gt) keys ->
    Forall (fun e : Z * Z => fst e <= snd e) encs ->
    match build_range w rs with
    | Some r => iter_range nullable encs keys r = filter (sat rs) keys
    | None => filter (sat rs) keys = []
    end.
Proof. exact ranges_sound_complete. Qed.
Print Assumptions C26_ranges_sound_complete.

Theorem C26_merge_join_spec :
  forall fuel lo L R, side_sorted L -> side_sorted R -> (length L + length R < fuel)%nat ->
    lo = false \/ (nulls L <= 1)%nat ->
    Permutation (merge_join fuel lo L R) (nl_join lo L R).
Proof. exact merge_join_spec. Qed.
Print Assumptions C26_merge_join_spec.

Theorem C26_merge_join_inner_spec :
  forall L R, side_sorted L -> side_sorted R ->
    Permutation (merge_join (S (length L + length R)) false L R) (nl_join false L R).
Proof. exact merge_join_inner_spec. Qed.
Print Assumptions C26_merge_join_inner_spec.

Theorem C26_merge_join_left_spec_partial :
  forall L R, side_sorted L -> side_sorted R -> (nulls L <= 1)%nat ->
    Permutation (merge_join (S (length L + length R)) true L R) (nl_join true L R).
Proof. exact merge_join_left_spec_partial. Qed.
Print Assumptions C26_merge_join_left_spec_partial.

Theorem C26_merge_join_left_refuted :
  exists L R, side_sorted L /\ side_sorted R /\
    ~ Permutation (merge_join (S (length L + length R)) true L R) (nl_join true L R).
Proof. exact merge_join_left_refuted. Qed.
Print Assumptions C26_merge_join_left_refuted.

Theorem C26_merge_join_sm_refines :
  forall lo L R, side_sorted R ->
    (exists n, merge_join_sm n lo L R = Some (merge_join (S (length L + length R)) lo L R))
    /\ (forall n o, merge_join_sm n lo L R = Some o -> o = merge_join (S (length L + length R)) lo L R).
Proof. exact merge_join_sm_refines. Qed.
Print Assumptions C26_merge_join_sm_refines.

Theorem C26_merge_join_sm_inner_spec :
  forall n L R o, side_sorted L -> side_sorted R -> merge_join_sm n false L R = Some o ->
    Permutation o (nl_join false L R).
Proof. exact merge_join_sm_inner_spec. Qed.
Print Assumptions C26_merge_join_sm_inner_spec.

Theorem C26_merge_join_sm_left_spec_partial :
  forall n L R o, side_sorted L -> side_sorted R -> (nulls L <= 1)%nat -> merge_join_sm n true L R = Some o ->
    Permutation o (nl_join true L R).
Proof. exact merge_join_sm_left_spec_partial. Qed.
Print Assumptions C26_merge_join_sm_left_spec_partial.

Theorem C26_merge_join_sm_left_refuted :
  exists L R o, side_sorted L /\ side_sorted R /\ merge_join_sm 100 true L R = Some o /\ ~ Permutation o (nl_join true L R).
Proof. exact merge_join_sm_left_refuted. Qed.
Print Assumptions C26_merge_join_sm_left_refuted.

Theorem C26_range_oracle_on_model :
  forall tables c, (length (rc_rs c) <= length (rc_cols c))%nat ->
    Forall (fun e : Z * Z => fst e <= snd e) (rc_encs c) ->
    range_ok tables c (model_range tables c) = true.
Proof. exact range_oracle_on_model. Qed.
Print Assumptions C26_range_oracle_on_model.

Theorem C26_lookup_join_spec :
  forall lo L R, side_sorted R -> lookup_join lo L R = nl_join lo L R.
Proof. exact lookup_join_spec. Qed.
Print Assumptions C26_lookup_join_spec.

Theorem C26_count_fast_path_spec : forall col rows, count_fast_path false col rows = Some (count_spec col rows).
Proof. exact count_fast_path_spec. Qed.
Print Assumptions C26_count_fast_path_spec.

Theorem C26_count_answer_spec : forall keyless col rows, count_answer keyless col rows = count_spec col rows.
Proof. exact count_answer_spec. Qed.
Print Assumptions C26_count_answer_spec.
