(* C26 — Dolt returns the same query results as the reference engine.  Property theorems only. *)
From Coq Require Import ZArith List Bool Sorted Permutation.
From Dolt Require Import C26.Model C26.Spec C26.Proofs.
Import ListNotations.
Local Open Scope Z_scope.

Theorem C26_above_start_monotone :
  forall fs t1 t2, length t1 = length t2 -> key_le t1 t2 -> above_start fs t1 = true -> above_start fs t2 = true.
Proof. exact above_start_monotone. Qed.
Print Assumptions C26_above_start_monotone.

Theorem C26_below_stop_antitone :
  forall fs t1 t2, length t1 = length t2 -> key_le t1 t2 -> below_stop fs t2 = true -> below_stop fs t1 = true.
Proof. exact below_stop_antitone. Qed.
Print Assumptions C26_below_stop_antitone.

Theorem C26_ranges_sound_complete_tree :
  forall w nullable keys rs, (length rs <= w)%nat -> same_width w keys -> keys_sorted keys ->
    match build_range w rs with
    | Some r => key_range_lookup nullable r = None -> iter_range nullable keys r = filter (sat rs) keys
    | None => filter (sat rs) keys = []
    end.
Proof. exact ranges_sound_complete_tree. Qed.
Print Assumptions C26_ranges_sound_complete_tree.

Theorem C26_count_fast_path_spec : forall col rows, count_fast_path false col rows = count_spec col rows.
Proof. exact count_fast_path_spec. Qed.
Print Assumptions C26_count_fast_path_spec.

Theorem C26_count_fast_path_keyless_refuted :
  exists col rows, count_fast_path true col rows <> count_spec col rows.
Proof. exact count_fast_path_keyless_refuted. Qed.
Print Assumptions C26_count_fast_path_keyless_refuted.
