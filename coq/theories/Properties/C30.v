(* C30 — The fast tree-level merge agrees with the row-level merge.  Property theorems only. *)
From Coq Require Import NArith List Bool.
From Dolt Require Import C14.Model C14.Spec C14.Proofs C30.Model C30.Spec C30.Corr C30.Proofs.
Import ListNotations.
Local Open Scope N_scope.

Theorem C30_rows_equal :
  forall base left right, sorted base -> sorted left -> sorted right ->
    merge_by_patches merge_row base left right = merge_by_differ merge_row base left right.
Proof. exact rows_equal. Qed.
Print Assumptions C30_rows_equal.

Theorem C30_conflicts_equal :
  forall collide base left right, sorted base -> sorted left -> sorted right ->
    fast_conflicts collide (diff base left) (diff base right) =
    slow_conflicts collide (diff base left) (diff base right).
Proof. exact conflicts_equal. Qed.
Print Assumptions C30_conflicts_equal.

Theorem C30_stats_conflicts_equal :
  forall collide base left right, sorted base -> sorted left -> sorted right ->
    snd (stats_fast collide (diff base left) (diff base right)) =
    snd (stats_slow collide (diff base left) (diff base right)).
Proof. exact stats_conflicts_equal. Qed.
Print Assumptions C30_stats_conflicts_equal.

Theorem C30_stats_equal_partial :
  forall collide base left right, sorted base -> sorted left -> sorted right ->
    let ld := diff base left in let rd := diff base right in
    fst (stats_slow collide ld rd) = (0, 0, 0) ->
    stats_fast collide ld rd = stats_slow collide ld rd.
Proof. exact stats_equal_partial. Qed.
Print Assumptions C30_stats_equal_partial.

Theorem C30_stats_equal_refuted :
  exists base left right : dict N,
    sorted base /\ sorted left /\ sorted right /\
    stats_fast merge_row (diff base left) (diff base right) <>
    stats_slow merge_row (diff base left) (diff base right).
Proof. exact stats_equal_refuted. Qed.
Print Assumptions C30_stats_equal_refuted.

Theorem C30_oracle_on_model_partial :
  forall i, sorted (i_base i) -> sorted (i_left i) -> sorted (i_right i) ->
    let o := model_obs i in
    let ld := diff (i_base i) (i_left i) in
    let rd := diff (i_base i) (i_right i) in
    rows_conf_eqb (o_fast o) (o_chk o) = true /\
    rows_conf_eqb (o_fast o) (o_idx o) = true /\
    (short_circuit (i_base i) (i_left i) (i_right i) <> None \/ fst (stats_slow merge_row ld rd) = (0, 0, 0) ->
     oracle i o = true).
Proof. exact oracle_on_model_partial. Qed.
Print Assumptions C30_oracle_on_model_partial.

Theorem C30_oracle_on_model_refuted :
  exists i, sorted (i_base i) /\ sorted (i_left i) /\ sorted (i_right i) /\ oracle i (model_obs i) = false.
Proof. exact oracle_on_model_refuted. Qed.
Print Assumptions C30_oracle_on_model_refuted.

Theorem C30_row_merger_resolves_delete_to_delete : delete_resolves_to_delete merge_row.
Proof. exact merge_row_delete. Qed.
Print Assumptions C30_row_merger_resolves_delete_to_delete.
