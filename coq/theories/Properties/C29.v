(* C29 — dolt_merge produces the row-level three-way merge.  Property theorems only. *)
From Coq Require Import NArith List Bool.
From Dolt Require Import C29.Model C29.Spec C29.Corr C29.Proofs.
Import ListNotations.
Local Open Scope N_scope.

Theorem C29_merge_total :
  forall sb sl sr b l r, m_err (table_merge true sb sl sr b l r) = false.
Proof. exact merge_total. Qed.
Print Assumptions C29_merge_total.

Theorem C29_merge_total_as_found_refuted :
  exists sb sl sr b l r, m_err (table_merge false sb sl sr b l r) = true
                         /\ m_err (table_merge false sb sr sl b r l) = false.
Proof. exact merge_total_as_found_refuted. Qed.
Print Assumptions C29_merge_total_as_found_refuted.

Theorem C29_table_merge_get :
  forall fixed sb sl sr b l r k,
  get k (m_rows (table_merge fixed sb sl sr b l r))
  = match merge_key fixed sb sl sr b l r k with ROk v _ => v | RErr => None end.
Proof. exact table_merge_get. Qed.
Print Assumptions C29_table_merge_get.

Theorem C29_conflicts_exact :
  forall fixed sb sl sr b l r k,
  getc k (m_conf (table_merge fixed sb sl sr b l r))
  = match merge_key fixed sb sl sr b l r k with
    | ROk v true => Some (get k b, v, get k r)
    | _ => None
    end.
Proof. exact conflicts_exact. Qed.
Print Assumptions C29_conflicts_exact.

Theorem C29_row_merge_refines_spec :
  forall sb sl sr ob ol or,
  schemas_ok sb sl sr -> conv_ok sl sr ol or -> delete_visible sb sl sr ob ol or ->
  row_merge true sb sl sr ob ol or
  = ROk (fst (spec_row sb sl sr ob ol or)) (snd (spec_row sb sl sr ob ol or)).
Proof. exact row_merge_refines_spec. Qed.
Print Assumptions C29_row_merge_refines_spec.

Theorem C29_conflict_iff_partial :
  forall sb sl sr b l r k,
  schemas_ok sb sl sr -> conv_ok sl sr (get k l) (get k r) ->
  delete_visible sb sl sr (get k b) (get k l) (get k r) ->
  (exists e, getc k (m_conf (table_merge true sb sl sr b l r)) = Some e)
  <-> conflict_prop sb sl sr (get k b) (get k l) (get k r).
Proof. exact conflict_iff_partial. Qed.
Print Assumptions C29_conflict_iff_partial.

Theorem C29_conflict_iff_refuted :
  exists sb sl sr b l r k,
    schemas_ok sb sl sr /\ conv_ok sl sr (get k l) (get k r)
    /\ conflict_prop sb sl sr (get k b) (get k l) (get k r)
    /\ getc k (m_conf (table_merge true sb sl sr b l r)) = None
    /\ get k (m_rows (table_merge true sb sl sr b l r)) = None.
Proof. exact conflict_iff_refuted. Qed.
Print Assumptions C29_conflict_iff_refuted.

Theorem C29_byte_coincidence_refuted :
  exists sb sl sr b l r k,
    schemas_ok sb sl sr /\ delete_visible sb sl sr (get k b) (get k l) (get k r)
    /\ spec_row sb sl sr (get k b) (get k l) (get k r) = (Some [None], false)
    /\ row_merge true sb sl sr (get k b) (get k l) (get k r) = ROk (Some [Some 0]) false.
Proof. exact byte_coincidence_refuted. Qed.
Print Assumptions C29_byte_coincidence_refuted.

Theorem C29_reorder_update_lost :
  exists sb sl sr b l r k,
    conflict_prop sb sl sr (get k b) (get k l) (get k r)
    /\ getc k (m_conf (table_merge true sb sl sr b l r)) = None
    /\ get k (m_rows (table_merge true sb sl sr b l r)) = Some [Some 2; Some 3].
Proof. exact reorder_update_lost. Qed.
Print Assumptions C29_reorder_update_lost.

Theorem C29_merge_one_sided_left :
  forall sb sl ob ol,
  row_merge true sb sl sb ob ol ob = ROk (option_map (remap (merged_schema sb sl sb) sl) ol) false.
Proof. exact merge_one_sided_left. Qed.
Print Assumptions C29_merge_one_sided_left.

Theorem C29_merge_one_sided_right :
  forall sb sr ob or,
  schemas_ok sb sb sr ->
  row_merge true sb sb sr ob ob or = ROk (option_map (remap (merged_schema sb sb sr) sr) or) false.
Proof. exact merge_one_sided_right. Qed.
Print Assumptions C29_merge_one_sided_right.

Theorem C29_merge_agree :
  forall sb s ob o,
  schemas_ok sb s s ->
  row_merge true sb s s ob o o = ROk (option_map (remap (merged_schema sb s s) s) o) false.
Proof. exact merge_agree. Qed.
Print Assumptions C29_merge_agree.

Theorem C29_merge_cellwise :
  forall sb sl sr ob l r,
  schemas_ok sb sl sr -> (l = r -> sl = sr) ->
  cellwise_conflict sb sl sr ob l r = false ->
  row_merge true sb sl sr ob (Some l) (Some r)
  = ROk (Some (cellwise_row sb sl sr (merged_schema sb sl sr) ob l r)) false.
Proof. exact merge_cellwise. Qed.
Print Assumptions C29_merge_cellwise.

Theorem C29_merge_swap_partial :
  forall sb sl sr b l r k,
  schemas_ok sb sl sr -> conv_ok sl sr (get k l) (get k r) ->
  delete_visible sb sl sr (get k b) (get k l) (get k r) ->
  match getc k (m_conf (table_merge true sb sl sr b l r)), getc k (m_conf (table_merge true sb sr sl b r l)) with
  | None, None => True
  | Some (b1, _, t1), Some (b2, _, t2) => b1 = b2 /\ t1 = get k r /\ t2 = get k l
  | _, _ => False
  end.
Proof. exact merge_swap_partial. Qed.
Print Assumptions C29_merge_swap_partial.

(* ---- round 2 ---- *)
Theorem C29_row_merge_refines_spec_exact :
  forall sb sl sr ob ol or,
  schemas_ok sb sl sr -> conv_ok sl sr ol or -> delete_exact sb sl sr ob ol or ->
  row_merge true sb sl sr ob ol or
  = ROk (fst (spec_row sb sl sr ob ol or)) (snd (spec_row sb sl sr ob ol or)).
Proof. exact row_merge_refines_spec_exact. Qed.
Print Assumptions C29_row_merge_refines_spec_exact.

Theorem C29_merge_swap :
  forall sb sl sr b l r k,
  schemas_ok sb sl sr -> conv_ok sl sr (get k l) (get k r) ->
  delete_exact sb sl sr (get k b) (get k l) (get k r) ->
  let M1 := table_merge true sb sl sr b l r in
  let M2 := table_merge true sb sr sl b r l in
  match getc k (m_conf M1), getc k (m_conf M2) with
  | None, None =>
      same_data (merged_schema sb sl sr) (get k (m_rows M1)) (merged_schema sb sr sl) (get k (m_rows M2))
  | Some (b1, o1, t1), Some (b2, o2, t2) =>
      b1 = b2 /\ t1 = get k r /\ t2 = get k l
      /\ o1 = option_map (remap (merged_schema sb sl sr) sl) (get k l)
      /\ o2 = option_map (remap (merged_schema sb sr sl) sr) (get k r)
  | _, _ => False
  end.
Proof. exact merge_swap. Qed.
Print Assumptions C29_merge_swap.

Theorem C29_spec_swap :
  forall sb sl sr ob ol or,
  snd (spec_row sb sl sr ob ol or) = snd (spec_row sb sr sl ob or ol)
  /\ (snd (spec_row sb sl sr ob ol or) = false ->
      same_data (merged_schema sb sl sr) (fst (spec_row sb sl sr ob ol or))
                (merged_schema sb sr sl) (fst (spec_row sb sr sl ob or ol))).
Proof. exact spec_swap. Qed.
Print Assumptions C29_spec_swap.

Theorem C29_compat_schemas_ok :
  forall sb sl sr, compatb sb sl sr = true -> schemas_ok sb sl sr.
Proof. exact compat_schemas_ok. Qed.
Print Assumptions C29_compat_schemas_ok.

Theorem C29_schemas_ok_decidable :
  forall sb sl sr, schemas_okb sb sl sr = true <-> schemas_ok sb sl sr.
Proof. exact schemas_okb_iff. Qed.
Print Assumptions C29_schemas_ok_decidable.

Theorem C29_conflict_iff_in_scope :
  forall sb sl sr b l r k,
  in_scope sb sl sr (get k b) (get k l) (get k r) = true ->
  (exists e, getc k (m_conf (table_merge true sb sl sr b l r)) = Some e)
  <-> conflict_prop sb sl sr (get k b) (get k l) (get k r).
Proof. exact conflict_iff_in_scope. Qed.
Print Assumptions C29_conflict_iff_in_scope.

Theorem C29_conflict_iff_boundary :
  forall sb sl sr b r,
  side_diff (side_flag sb sr sl) (Some b) (Some r) = true ->
  ((exists v, row_merge true sb sl sr (Some b) None (Some r) = ROk v true)
   <-> conflict_prop sb sl sr (Some b) None (Some r))
  <-> delete_exact sb sl sr (Some b) None (Some r).
Proof. exact conflict_iff_boundary. Qed.
Print Assumptions C29_conflict_iff_boundary.

Theorem C29_oracle_on_model :
  forall i,
  i_cls i = [] ->
  (forall k, in_scope (i_sb i) (i_sl i) (i_sr i) (get k (i_b i)) (get k (i_l i)) (get k (i_r i)) = true) ->
  oracle i (model_obs i) = true.
Proof. exact oracle_on_model. Qed.
Print Assumptions C29_oracle_on_model.

(* ---- round 3: value class vs. stored bytes ---- *)
Theorem C29_merge_total_g :
  forall cls sb sl sr b l r, m_err (table_merge_g cls true sb sl sr b l r) = false.
Proof. exact merge_total_g. Qed.
Print Assumptions C29_merge_total_g.

Theorem C29_merge_swap_g :
  forall cls sb sl sr b l r k,
  schemas_ok sb sl sr -> conv_ok sl sr (get k l) (get k r) ->
  let M1 := table_merge_g cls true sb sl sr b l r in
  let M2 := table_merge_g cls true sb sr sl b r l in
  match getc k (m_conf M1), getc k (m_conf M2) with
  | None, None =>
      same_data (merged_schema sb sl sr) (get k (m_rows M1)) (merged_schema sb sr sl) (get k (m_rows M2))
  | Some (b1, o1, t1), Some (b2, o2, t2) =>
      b1 = b2 /\ t1 = get k r /\ t2 = get k l
      /\ o1 = option_map (remap (merged_schema sb sl sr) sl) (get k l)
      /\ o2 = option_map (remap (merged_schema sb sr sl) sr) (get k r)
  | _, _ => False
  end.
Proof. exact merge_swap_g. Qed.
Print Assumptions C29_merge_swap_g.

Theorem C29_value_only_model_is_identity_instance :
  forall fixed sb sl sr b l r,
  table_merge_g (fun x => x) fixed sb sl sr b l r = table_merge fixed sb sl sr b l r.
Proof. exact table_merge_g_id. Qed.
Print Assumptions C29_value_only_model_is_identity_instance.

Theorem C29_table_merge_get_g :
  forall cls fixed sb sl sr b l r k,
  get k (m_rows (table_merge_g cls fixed sb sl sr b l r))
  = match merge_key_g cls fixed sb sl sr b l r k with ROk v _ => v | RErr => None end.
Proof. exact table_merge_get_g. Qed.
Print Assumptions C29_table_merge_get_g.

Theorem C29_conflicts_exact_g :
  forall cls fixed sb sl sr b l r k,
  getc k (m_conf (table_merge_g cls fixed sb sl sr b l r))
  = match merge_key_g cls fixed sb sl sr b l r k with
    | ROk v true => Some (get k b, v, get k r)
    | _ => None
    end.
Proof. exact conflicts_exact_g. Qed.
Print Assumptions C29_conflicts_exact_g.
