(* C23 — Concurrent transactions merge at commit and never lose committed writes.  Property theorems only. *)
From Coq Require Import NArith List Bool.
From Dolt Require Import C23.Model C23.Spec C23.Corr C23.Proofs.
Import ListNotations.
Local Open Scope N_scope.

Theorem C23_do_commit_refines_spec :
  forall U h s w,
    snd (do_commit U h s w) = snd (spec_commit U h s w) /\
    same_table U (fst (do_commit U h s w)) (fst (spec_commit U h s w)).
Proof. exact do_commit_refines_spec. Qed.
Print Assumptions C23_do_commit_refines_spec.

Theorem C23_commit_applies_own :
  forall U sched w e k col,
    In e (log_of U sched w) -> e_ok e = true -> changed_by U e k col ->
    tcell U (e_after e) k col = tcell U (e_work e) k col.
Proof. exact commit_applies_own. Qed.
Print Assumptions C23_commit_applies_own.

Theorem C23_commit_touches_only_own :
  forall U sched w e k col,
    In e (log_of U sched w) -> tcell U (e_after e) k col <> tcell U (e_before e) k col ->
    e_ok e = true /\ changed_by U e k col.
Proof. exact commit_touches_only_own. Qed.
Print Assumptions C23_commit_touches_only_own.

Theorem C23_commit_fails_iff_conflict :
  forall U sched w e,
    In e (log_of U sched w) ->
    e_ok e = negb (conflicts_b U (e_snap e) (e_before e) (e_work e)).
Proof. exact commit_fails_iff_conflict. Qed.
Print Assumptions C23_commit_fails_iff_conflict.

Theorem C23_failed_commit_no_trace :
  forall U sched w e,
    In e (log_of U sched w) -> e_ok e = false -> e_after e = e_before e.
Proof. exact failed_commit_no_trace. Qed.
Print Assumptions C23_failed_commit_no_trace.

Theorem C23_failed_commit_rolls_back :
  forall U i st w o e w',
    step U i st w = (o, Some e, w') -> e_ok e = false ->
    w_head w' = w_head w /\ so_err o = err_retry /\ s_active (w_ss w' i) = false.
Proof. exact failed_commit_rolls_back. Qed.
Print Assumptions C23_failed_commit_rolls_back.

Theorem C23_final_is_merge :
  forall U sched w,
    same_table U (final_of U sched w) (merge_all U (w_head w) (log_of U sched w)).
Proof. exact final_is_merge. Qed.
Print Assumptions C23_final_is_merge.

Theorem C23_no_lost_committed_write :
  forall U sched w l1 ei l2 ej l3 k col,
    log_of U sched w = l1 ++ ei :: l2 ++ ej :: l3 ->
    e_ok ei = true -> changed_by U ei k col ->
    tcell U (e_after ei) k col = tcell U (e_work ei) k col /\
    (tcell U (e_after ej) k col <> tcell U (e_work ei) k col ->
     exists la e' lb, l2 ++ [ej] = la ++ e' :: lb /\ e_ok e' = true /\ changed_by U e' k col
                      /\ tcell U (e_snap e') k col = tcell U (e_work ei) k col).
Proof. exact no_lost_committed_write. Qed.
Print Assumptions C23_no_lost_committed_write.

Theorem C23_oracle_accepts_model : forall i, oracle i (model_obs i) = true.
Proof. exact oracle_accepts_model. Qed.
Print Assumptions C23_oracle_accepts_model.

(* ---- the whole working set: HEAD / STAGED / WORKING with DOLT_ADD and DOLT_COMMIT ---- *)
From Dolt Require Import C23.Staged C23.StagedProofs.

Theorem C23_do_commit3_refines_spec :
  forall U k P B S' W',
    snd (do_commit3 U k P B S' W') = snd (fst (spec_commit3 U k P B S' W')) /\
    (snd (do_commit3 U k P B S' W') = false -> fst (do_commit3 U k P B S' W') = P) /\
    (snd (spec_commit3 U k P B S' W') = true ->
     same_roots U (fst (do_commit3 U k P B S' W')) (fst (fst (spec_commit3 U k P B S' W')))).
Proof. exact do_commit3_refines_spec. Qed.
Print Assumptions C23_do_commit3_refines_spec.

Theorem C23_no_lost_head_write :
  forall U sched w l1 ei l2 ej l3 k col,
    log3 U sched w = l1 ++ ei :: l2 ++ ej :: l3 -> Forall (clean3 U) (log3 U sched w) ->
    e3_ok ei = true -> e3_kind ei = KDolt ->
    tcell U (committed U ei) k col <> tcell U (r_head (e3_start ei)) k col ->
    tcell U (r_head (e3_after ei)) k col = tcell U (committed U ei) k col /\
    (tcell U (r_head (e3_after ej)) k col <> tcell U (committed U ei) k col ->
     exists la e' lb, l2 ++ [ej] = la ++ e' :: lb /\ e3_ok e' = true /\ e3_kind e' = KDolt
                      /\ tcell U (committed U e') k col <> tcell U (r_head (e3_start e')) k col
                      /\ tcell U (r_head (e3_start e')) k col = tcell U (committed U ei) k col).
Proof. exact no_lost_head_write. Qed.
Print Assumptions C23_no_lost_head_write.

Theorem C23_staged_moves_only_where_staged :
  forall U sched w e k col,
    In e (log3 U sched w) -> clean3 U e -> e3_kind e = KPlain ->
    tcell U (r_staged (e3_after e)) k col <> tcell U (r_staged (e3_before e)) k col ->
    e3_ok e = true /\ tcell U (e3_S e) k col <> tcell U (r_staged (e3_start e)) k col
    /\ tcell U (r_staged (e3_start e)) k col = tcell U (r_staged (e3_before e)) k col.
Proof. exact staged_moves_only_where_staged. Qed.
Print Assumptions C23_staged_moves_only_where_staged.

Theorem C23_plain_commit_keeps_head :
  forall U sched w e,
    In e (log3 U sched w) -> clean3 U e -> e3_kind e = KPlain ->
    same_table U (r_head (e3_after e)) (r_head (e3_before e)).
Proof. exact plain_commit_keeps_head. Qed.
Print Assumptions C23_plain_commit_keeps_head.

Theorem C23_failed_commit3_no_trace :
  forall U sched w e,
    In e (log3 U sched w) -> e3_ok e = false -> e3_after e = e3_before e.
Proof. exact failed_commit3_no_trace. Qed.
Print Assumptions C23_failed_commit3_no_trace.
