(* C25 — Secondary indexes always mirror their table.  Property theorems only. *)
From Coq Require Import NArith List Bool.
From Dolt Require Import C23.Model C25.Model C25.Spec C25.Corr C25.Proofs.
Import ListNotations.
Local Open Scope N_scope.

Theorem C25_mirror_preserved :
  forall (kf : row -> ikey) ops s, Mirror kf s -> Mirror kf (wrun kf ops s).
Proof. exact mirror_preserved. Qed.
Print Assumptions C25_mirror_preserved.

Theorem C25_mirror_from_empty :
  forall (kf : row -> ikey) ops, Mirror kf (wrun kf ops empty_state).
Proof. exact mirror_from_empty. Qed.
Print Assumptions C25_mirror_from_empty.

Theorem C25_incremental_is_rebuild :
  forall (kf : row -> ikey) ops v k,
    t_idx (wrun kf ops empty_state) v k = rebuild kf (t_rows (wrun kf ops empty_state)) v k.
Proof. exact incremental_is_rebuild. Qed.
Print Assumptions C25_incremental_is_rebuild.

Theorem C25_one_entry_per_row :
  forall (kf : row -> ikey) ops v1 v2 k,
    t_idx (wrun kf ops empty_state) v1 k = true -> t_idx (wrun kf ops empty_state) v2 k = true -> v1 = v2.
Proof. exact one_entry_per_row. Qed.
Print Assumptions C25_one_entry_per_row.
