(* C25 — Secondary indexes always mirror their table.  Property theorems only. *)
From Coq Require Import NArith List Bool.
From Dolt Require Import C23.Model C25.Model C25.Spec C25.Corr C25.Proofs.
Import ListNotations.
Local Open Scope N_scope.

Theorem C25_mirror_preserved :
  forall (kf : row -> ikey) ops s, Mirror kf s -> Mirror kf (wrun kf ops s).
Proof. exact mirror_preserved. Qed.
Print Assumptions C25_mirror_preserved.

Theorem C25_mirror_from_empty :
  forall (kf : row -> ikey) ops, Mirror kf (wrun kf ops empty_state).
Proof. exact mirror_from_empty. Qed.
Print Assumptions C25_mirror_from_empty.

Theorem C25_incremental_is_rebuild :
  forall (kf : row -> ikey) ops v k,
    t_idx (wrun kf ops empty_state) v k = rebuild kf (t_rows (wrun kf ops empty_state)) v k.
Proof. exact incremental_is_rebuild. Qed.
Print Assumptions C25_incremental_is_rebuild.

Theorem C25_one_entry_per_row :
  forall (kf : row -> ikey) ops v1 v2 k,
    t_idx (wrun kf ops empty_state) v1 k = true -> t_idx (wrun kf ops empty_state) v2 k = true -> v1 = v2.
Proof. exact one_entry_per_row. Qed.
Print Assumptions C25_one_entry_per_row.

(* ---- version-control edits and keyless tables ---- *)
From Dolt Require Import C25.Keyless C25.KeylessProofs.

Theorem C25_edits_mirror_preserved :
  forall (kf : row -> ikey) eds s, Mirror kf s -> Mirror kf (apply_edits kf s eds).
Proof. exact edits_mirror_preserved. Qed.
Print Assumptions C25_edits_mirror_preserved.

Theorem C25_rebuild_mirrors :
  forall (kf : row -> ikey) rows, Mirror kf {| t_rows := rows; t_idx := rebuild kf rows |}.
Proof. exact rebuild_mirrors. Qed.
Print Assumptions C25_rebuild_mirrors.

Theorem C25_keyless_mirror_preserved :
  forall (kf : row -> ikey) ops s, KMirror kf s -> KMirror kf (krun kf ops s).
Proof. exact keyless_mirror_preserved. Qed.
Print Assumptions C25_keyless_mirror_preserved.

Theorem C25_keyless_mirror_from_empty :
  forall (kf : row -> ikey) ops, KMirror kf (krun kf ops kempty).
Proof. exact keyless_mirror_from_empty. Qed.
Print Assumptions C25_keyless_mirror_from_empty.

Theorem C25_keyless_partial_delete_keeps_entry :
  forall (kf : row -> ikey) s r,
    KMirror kf s -> 1 < k_card s r -> k_idx (one_delete kf s r) (kf r) r = true.
Proof. exact keyless_partial_delete_keeps_entry. Qed.
Print Assumptions C25_keyless_partial_delete_keeps_entry.
